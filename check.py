#!/usr/bin/env python3
"""check.py <property> [--tier quick|thorough] [--replay FILE]

One check = regenerate (translator) -> prove (lake build of the property's theorems + axiom audit)
-> correspond (model driver vs real code on the same inputs) -> search (direct oracle on the implementation)
-> report (VIOLATION / KNOWN-FINDING lines, evidence/<id>.json, exit status).
Python standard library only.
"""
import fcntl
import json
import os
import re
import subprocess
import sys
import time

ROOT = os.path.dirname(os.path.abspath(__file__))
REPO = os.environ.get("VERIF_REPO", "/repo")
LEAN = os.path.join(ROOT, "lean")
HARN = os.path.join(ROOT, "harness")
GENDIR = os.path.join(LEAN, "SpdxVerif", "Gen")
DRIVER = os.path.join(LEAN, ".lake", "build", "bin", "driver")
ALLOWED_AXIOMS = {"propext", "Classical.choice", "Quot.sound"}
FORBIDDEN = ["sorry", "admit", "native_decide", "bv_decide", "implemented_by", "unsafe ", "maxHeartbeats 0"]

GOENV = dict(os.environ, GOFLAGS="-mod=mod", GOPROXY="off", GOSUMDB="off", GOTOOLCHAIN="local",
             CGO_ENABLED=os.environ.get("CGO_ENABLED", "1"))

PROPS = ["C%02d" % i for i in range(1, 16)]

TRUSTED_BASE = [
    "Lean 4.33.0 kernel (thorough tier: leanchecker re-check of the compiled modules)",
    "axioms: at most propext, Classical.choice, Quot.sound (audited by #print axioms on every property theorem); no sorry/admit/native_decide/bv_decide/implemented_by/unsafe",
    "translator harness/cmd/gen (prints the tables the tree returns, JSON ids, template literals, literal and effect census)",
    "correspondence harness harness/cmd/run + Lean compiler for the model driver (affects what is observed of the model, never a theorem)",
    "Go toolchain, recover, runtime.MemStats, race detector",
]


def sh(cmd, cwd=None, env=None, timeout=None):
    p = subprocess.run(cmd, cwd=cwd, env=env, stdout=subprocess.PIPE, stderr=subprocess.STDOUT, text=True, timeout=timeout)
    return p.returncode, p.stdout


def strip_comments(src):
    src = re.sub(r"/-.*?-/", "", src, flags=re.S)
    src = re.sub(r"--[^\n]*", "", src)
    return src


def lean_sources():
    out = []
    for base, _, files in os.walk(os.path.join(LEAN, "SpdxVerif")):
        for f in files:
            if f.endswith(".lean"):
                out.append(os.path.join(base, f))
    out.append(os.path.join(LEAN, "Driver.lean"))
    return sorted(out)


def forbidden_tokens():
    hits = []
    for path in lean_sources():
        if os.sep + "Gen" + os.sep in path:
            continue
        src = strip_comments(open(path).read())
        for tok in FORBIDDEN:
            if tok in src:
                hits.append("%s: %s" % (os.path.relpath(path, ROOT), tok.strip()))
        if re.search(r"^\s*axiom\s", src, flags=re.M):
            hits.append("%s: axiom" % os.path.relpath(path, ROOT))
    return hits


def regenerate(log):
    """step 1: rebuild the translator against /repo and regenerate Gen/*.lean"""
    os.makedirs(os.path.join(HARN, "bin"), exist_ok=True)
    # the harness module follows the repository's go.sum
    try:
        src = open(os.path.join(REPO, "go.sum")).read()
        dst = os.path.join(HARN, "go.sum")
        if not os.path.exists(dst) or open(dst).read() != src:
            open(dst, "w").write(src)
    except OSError:
        pass
    rc, out = sh(["go", "build", "-o", "bin/gen", "./cmd/gen"], cwd=HARN, env=GOENV)
    if rc != 0:
        log.append("translator build failed:\n" + out)
        return False
    rc, out = sh([os.path.join(HARN, "bin", "gen"), REPO, GENDIR], env=GOENV)
    if rc != 0:
        log.append("translator failed:\n" + out)
        return False
    return True


def build_harness(race, log):
    """with the library's observation hooks (build tag verif); if the hook file does not compile against this tree
    (an internal signature changed), without them: the hook-based correspondences are then skipped, nothing else"""
    name = "run_race" if race else "run"
    base = ["go", "build"] + (["-race"] if race else [])
    rc, out = sh(base + ["-tags", "verif", "-o", "bin/" + name, "./cmd/run"], cwd=HARN, env=GOENV)
    if rc != 0:
        log.append("harness build with hooks failed, retrying without the tag:\n" + out[-1500:])
        rc, out = sh(base + ["-o", "bin/" + name, "./cmd/run"], cwd=HARN, env=GOENV)
        if rc == 0:
            HOOKS["on"] = False
    if rc != 0:
        log.append("harness build failed (the repository does not compile?):\n" + out)
        return None
    return os.path.join(HARN, "bin", name)


HOOKS = {"on": True}


def audit_names(prop):
    path = os.path.join(LEAN, "SpdxVerif", "Audit", prop + ".lean")
    if not os.path.exists(path):
        return []
    return re.findall(r"^#print axioms\s+(\S+)", open(path).read(), flags=re.M)


def prove(prop, tier, log):
    """step 2: build the property's theorems and audit their axioms.
    returns (obligations, discharged, broken: list of str)"""
    broken = []
    names = audit_names(prop)
    rc, out = sh(["lake", "build", "driver"], cwd=LEAN)
    if rc != 0:
        log.append("model/driver build failed:\n" + out[-4000:])
        broken.append("model build (lake build driver): " + last_error(out))
        return len(names), 0, broken, False
    mods = ["SpdxVerif.Audit." + prop]
    rc, out = sh(["lake", "build"] + mods, cwd=LEAN)
    if rc != 0:
        log.append("proof build failed:\n" + out[-6000:])
        for m in re.finditer(r"error: ([^\n]*)", out):
            broken.append("lake build %s: %s" % (mods[0], m.group(1)[:300]))
        if not broken:
            broken.append("lake build %s failed" % mods[0])
        failing = set(re.findall(r"✖ \[\d+/\d+\] Building (\S+)", out))
        # name the theorems whose proofs no longer check (from the error positions)
        for m in re.finditer(r"error: (SpdxVerif/\S+?\.lean):(\d+):\d+", out):
            th = theorem_at(os.path.join(LEAN, m.group(1)), int(m.group(2)))
            if th:
                broken.append("theorem %s (%s:%s) no longer checks" % (th, m.group(1), m.group(2)))
        if failing:
            broken.insert(0, "modules that no longer check: " + ", ".join(sorted(failing)))
        return len(names), 0, broken[:12], True
    # axiom audit: run lean on the audit file and read what #print axioms says
    rc, out = sh(["lake", "env", "lean", os.path.join("SpdxVerif", "Audit", prop + ".lean")], cwd=LEAN)
    if rc != 0:
        broken.append("audit of %s failed: %s" % (prop, last_error(out)))
        return len(names), 0, broken, True
    discharged = 0
    seen = {}
    for m in re.finditer(r"'([^']+)' (does not depend on any axioms|depends on axioms: \[([^\]]*)\])", out):
        name = m.group(1)
        axs = set(a.strip() for a in (m.group(3) or "").replace("\n", " ").split(",") if a.strip())
        seen[name] = axs
    for n in names:
        key = n if n in seen else next((k for k in seen if k.endswith("." + n) or n.endswith("." + k) or k == n), None)
        if key is None:
            broken.append("theorem %s: no axiom report" % n)
            continue
        extra = seen[key] - ALLOWED_AXIOMS
        if extra:
            broken.append("theorem %s depends on axioms outside the allowed set: %s" % (n, ", ".join(sorted(extra))))
        else:
            discharged += 1
    hits = forbidden_tokens()
    if hits:
        broken.append("forbidden constructs in Lean sources: " + "; ".join(hits[:8]))
    if tier == "thorough" and not broken:
        rc, out = sh(["lake", "env", "leanchecker", "SpdxVerif.Audit." + prop], cwd=LEAN)
        if rc != 0:
            broken.append("leanchecker rejected SpdxVerif.Props.%s: %s" % (prop, out[-500:]))
    return len(names), discharged, broken, True


def theorem_at(path, line):
    try:
        lines = open(path).read().split("\n")
    except OSError:
        return None
    for i in range(min(line, len(lines)) - 1, -1, -1):
        m = re.match(r"\s*(?:private\s+)?(?:theorem|lemma|def|example)\s+(\S+)", lines[i])
        if m:
            return m.group(1)
    return None


def last_error(out):
    m = re.findall(r"error: ([^\n]*)", out)
    return m[-1][:300] if m else out[-300:]


def diagnose(prop, log):
    """step 4.4: evaluate the table / census obligations and print the offending entries"""
    path = os.path.join(LEAN, "SpdxVerif", "Diag.lean")
    if not os.path.exists(path):
        return []
    rc, out = sh(["lake", "env", "lean", "--run", os.path.join("SpdxVerif", "Diag.lean"), prop], cwd=LEAN, timeout=600)
    lines = [l for l in out.splitlines() if l.startswith("OBLIGATION")]
    return lines


def load_known():
    path = os.path.join(ROOT, "known_findings.json")
    if not os.path.exists(path):
        return []
    return json.load(open(path)).get("findings", [])


def known_match(kf, prop, failure):
    if kf.get("property") != prop or kf.get("status") != "known":
        return False
    text = json.dumps(failure)
    return all(re.search(p, text) for p in kf.get("match", []))


def run_harness(binary, prop, tier, seed, log, extra_env=None, timeout=None, budget=None):
    os.makedirs(os.path.join(ROOT, "work"), exist_ok=True)
    outp = os.path.join(ROOT, "work", "%s-%s-%d.json" % (prop, tier, os.getpid()))
    env = dict(GOENV)
    env["GORACE"] = "halt_on_error=0 exitcode=66 log_path=" + os.path.join(ROOT, "work", "race-%d" % os.getpid())
    if extra_env:
        env.update(extra_env)
    cmd = [binary, "-prop", prop, "-tier", tier, "-seed", str(seed), "-driver", DRIVER, "-out", outp]
    if budget:
        cmd += ["-budget", str(budget)]
    if timeout is None:
        timeout = 3600 if tier == "thorough" else 1500
    try:
        p = subprocess.run(cmd, cwd=HARN, env=env, stdout=subprocess.PIPE, stderr=subprocess.PIPE, text=True, timeout=timeout)
        rc, err = p.returncode, p.stderr
    except subprocess.TimeoutExpired:
        rc, err = -9, "harness timed out after %d s" % timeout
    res = None
    if os.path.exists(outp):
        try:
            res = json.load(open(outp))
        except Exception as e:  # noqa
            err += "\nunreadable result: %s" % e
        os.remove(outp)
    races = []
    wd = os.path.join(ROOT, "work")
    for f in os.listdir(wd):
        if f.startswith("race-%d" % os.getpid()):
            races.append(open(os.path.join(wd, f)).read())
            os.remove(os.path.join(wd, f))
    if err.strip():
        log.append("harness stderr:\n" + err[-3000:])
    return rc, res, races, err


def main():
    args = sys.argv[1:]
    if not args or args[0] not in PROPS:
        print("usage: check.py <C01..C15> [--tier quick|thorough] [--replay FILE]")
        sys.exit(2)
    prop = args[0]
    tier = os.environ.get("VERIF_TIER", "quick")
    replay = None
    i = 1
    while i < len(args):
        if args[i] == "--tier":
            tier = args[i + 1]
            i += 2
        elif args[i] == "--replay":
            replay = os.path.abspath(args[i + 1])
            i += 2
        else:
            i += 1
    if tier not in ("quick", "thorough"):
        tier = "quick"
    try:
        seed = int(os.environ.get("VERIF_SEED", "1"))
    except ValueError:
        seed = 1
    t0 = time.time()
    log = []
    os.makedirs(os.path.join(ROOT, "evidence"), exist_ok=True)
    os.makedirs(os.path.join(ROOT, "replays"), exist_ok=True)

    # steps 1-3a are serialised so that checks may be launched concurrently
    lock = open(os.path.join(ROOT, ".lock"), "w")
    fcntl.flock(lock, fcntl.LOCK_EX)
    try:
        gen_ok = regenerate(log)
        obligations, discharged, broken, model_ok = (0, 0, ["translator failed"], False)
        if gen_ok:
            obligations, discharged, broken, model_ok = prove(prop, tier, log)
        binary = build_harness(prop == "C13", log)
        diag = diagnose(prop, log) if broken and model_ok else []
    finally:
        fcntl.flock(lock, fcntl.LOCK_UN)

    if replay:
        if binary is None:
            print("cannot build the harness")
            sys.exit(2)
        rc = subprocess.call([binary, "-prop", prop, "-driver", DRIVER, "-replay", replay], cwd=HARN, env=GOENV)
        sys.exit(rc)

    failures = []
    res = None
    races = []
    if binary is None:
        failures.append({"stream": "oracle", "what": "the repository does not build against the harness: " + (log[-1] if log else "")[-400:]})
    elif not model_ok:
        failures.append({"stream": "correspondence", "what": "the model could not be rebuilt from the tree: " + "; ".join(broken)[:600]})
    else:
        rc, res, races, err = run_harness(binary, prop, tier, seed, log)
        if res is None:
            failures.append({"stream": "oracle", "what": "the harness died without a result (exit %s): %s" % (rc, err[-600:])})
        else:
            failures.extend(res.get("failures", []))
        for r in races:
            failures.append({"stream": "oracle", "what": "DATA RACE reported by the Go race detector", "impl": r[:3000]})
        # step 4: a broken obligation or correspondence widens the search for a concrete failing input
        if res is not None and (broken or any(f.get("stream") == "correspondence" for f in failures)) and not any(f.get("stream") == "oracle" for f in failures):
            # (in the quick tier the deep round is bounded: a check that is run on every change must come back)
            for extra_seed, extra_tier, limit in ((seed + 1000, tier, None), (seed + 2000, "thorough", 120 if tier == "quick" else None)):
                rc2, res2, races2, _ = run_harness(binary, prop, extra_tier, extra_seed, log, timeout=(limit + 240 if limit else None), budget=limit)
                if res2 is not None:
                    res["evaluations"] = res.get("evaluations", 0) + res2.get("evaluations", 0)
                    orc = [f for f in res2.get("failures", []) if f.get("stream") == "oracle"]
                    if orc:
                        failures.extend(orc)
                        break

    known = load_known()
    known_lines = []
    violations = []
    for f in failures:
        kf = next((k for k in known if known_match(k, prop, f)), None)
        if kf:
            line = "KNOWN-FINDING: property=%s %s" % (prop, kf["summary"])
            if line not in known_lines:
                known_lines.append(line)
        else:
            violations.append(f)
    # known findings that announce themselves through `known_findings_seen` (C14's measured doubling)
    if res is not None:
        for tag in res.get("known_findings_seen", []) or []:
            for k in known:
                if k.get("property") == prop and k.get("status") == "known" and k.get("id") == tag:
                    line = "KNOWN-FINDING: property=%s %s" % (prop, k["summary"])
                    if line not in known_lines:
                        known_lines.append(line)

    oracle_v = [f for f in violations if f.get("stream") == "oracle"]
    corr_v = [f for f in violations if f.get("stream") != "oracle"]
    exit_code = 0
    for l in known_lines:
        print(l)
    if oracle_v or corr_v or broken:
        exit_code = 1
        rp = os.path.join(ROOT, "replays", "%s-%d.json" % (prop, seed))
        payload = {
            "property": prop, "tier": tier, "seed": seed,
            "failing_input_found": bool(oracle_v),
            "failures": (oracle_v + corr_v)[:20],
            "broken_obligations": broken,
            "obligation_diagnosis": diag,
            "replay": "python3 check.py %s --replay %s" % (prop, os.path.relpath(rp, ROOT)),
        }
        json.dump(payload, open(rp, "w"), indent=1)
        suffix = "" if oracle_v else " no-failing-input-found"
        print("VIOLATION property=%s replay=%s%s" % (prop, rp, suffix))
        for f in (oracle_v + corr_v)[:3]:
            print("  %s: %s" % (f.get("stream"), f.get("what", "")[:300]))
            if f.get("case"):
                print("    case: %s" % json.dumps(f["case"])[:400])
        for b in broken[:5]:
            print("  obligation: %s" % b)
        for d in diag[:8]:
            print("  " + d)

    wall = time.time() - t0
    cov = {
        "obligations": max(obligations, 1),
        "discharged": discharged if not broken else min(discharged, max(obligations - 1, 0)),
        "checker_cmd": "cd lean && lake build SpdxVerif.Props.%s && lake env lean SpdxVerif/Audit/%s.lean   (python3 check.py %s --tier %s)" % (prop, prop, prop, tier),
        "trusted_base": TRUSTED_BASE,
        "theorems": audit_names(prop),
        "broken_obligations": broken,
        "evaluations": (res or {}).get("evaluations", 0),
        "distinct_nontrivial": (res or {}).get("distinct_nontrivial", 0),
        "rule": (res or {}).get("rule", ""),
        "samples": (res or {}).get("samples", []) or ["(no sample: the harness did not run)"],
        "distribution": (res or {}).get("distribution", {}),
        "correspondence_ops": (res or {}).get("correspondence_ops", 0),
        "correspondence_disagreements": (res or {}).get("correspondence_disagreements", 0),
        "oracle_failures": (res or {}).get("oracle_failures", 0),
        "exhaustive": bool((res or {}).get("exhaustive", False)),
        "known_findings_reported": known_lines,
        "notes": (res or {}).get("notes", []) + ([] if HOOKS["on"] else ["the library's verification hooks did not compile against this tree: hook-based correspondences (tokens, tree, expansion) were skipped"]),
    }
    if cov["discharged"] < 1:
        cov["discharged"] = 0
    evidence = {
        "property_id": prop, "tier": tier, "seed": seed, "level": "proof",
        "coverage": cov,
        "assumptions": TRUSTED_BASE,
        "wall_s": round(wall, 2),
        "violations": len(oracle_v) + len(corr_v) + len(broken),
    }
    if cov["discharged"] == 0:
        # the proof-level keys require discharged >= 1; fall back to the generic keys (evaluations/distinct are present)
        del cov["obligations"], cov["discharged"]
    json.dump(evidence, open(os.path.join(ROOT, "evidence", prop + ".json"), "w"), indent=1)
    if log and os.environ.get("VERIF_VERBOSE"):
        print("\n".join(log))
    if exit_code == 0:
        print("OK property=%s tier=%s seed=%d theorems=%d/%d evaluations=%d correspondence_ops=%d wall=%.0fs" % (
            prop, tier, seed, discharged, obligations, cov["evaluations"], cov["correspondence_ops"], wall))
    sys.exit(exit_code)


if __name__ == "__main__":
    main()
