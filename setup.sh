#!/bin/sh
# setup: build the framework from files on disk only (offline).
set -e
cd "$(dirname "$0")"
export GOFLAGS=-mod=mod GOPROXY=off GOSUMDB=off GOTOOLCHAIN=local
mkdir -p harness/bin evidence replays work
cp /repo/go.sum harness/go.sum 2>/dev/null || true
(cd harness && go build -o bin/gen ./cmd/gen && ./bin/gen /repo ../lean/SpdxVerif/Gen)
(cd lean && lake build driver SpdxVerif)
(cd harness && go build -tags verif -o bin/run ./cmd/run && go build -race -tags verif -o bin/run_race ./cmd/run)
echo setup done
