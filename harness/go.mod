module verif/harness

go 1.21

require github.com/github/go-spdx/v2 v2.0.0

replace github.com/github/go-spdx/v2 => /repo
