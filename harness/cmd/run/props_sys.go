package main

// System-level properties: C12 (tables = SPDX source data), C13 (purity / concurrency), C14 (cost).

import (
	"bytes"
	"encoding/json"
	"fmt"
	"github.com/github/go-spdx/v2/spdxexp/spdxlicenses"
	"io"
	"os"
	"os/exec"
	"path/filepath"
	"runtime"
	"runtime/metrics"
	"sort"
	"strconv"
	"strings"
	"sync"
	"syscall"
	"time"

	"github.com/github/go-spdx/v2/spdxexp"
)

var repoDir = "/repo"

// ---------------------------------------------------------------- C12

func copyFile(src, dst string) error {
	b, err := os.ReadFile(src)
	if err != nil {
		return err
	}
	return os.WriteFile(dst, b, 0o644)
}

// runGenerator runs the repository's own generator in a scratch copy and returns the three files it writes
func runGenerator() (map[string][]byte, error) {
	scratch, err := os.MkdirTemp("", "verif-c12-")
	if err != nil {
		return nil, err
	}
	defer os.RemoveAll(scratch)
	must := func(e error) {
		if e != nil && err == nil {
			err = e
		}
	}
	must(os.MkdirAll(filepath.Join(scratch, "cmd"), 0o755))
	must(os.MkdirAll(filepath.Join(scratch, "spdxexp", "spdxlicenses"), 0o755))
	ents, e := os.ReadDir(filepath.Join(repoDir, "cmd"))
	must(e)
	for _, en := range ents {
		if !en.IsDir() {
			must(copyFile(filepath.Join(repoDir, "cmd", en.Name()), filepath.Join(scratch, "cmd", en.Name())))
		}
	}
	must(copyFile(filepath.Join(repoDir, "go.mod"), filepath.Join(scratch, "go.mod")))
	must(copyFile(filepath.Join(repoDir, "go.sum"), filepath.Join(scratch, "go.sum")))
	if err != nil {
		return nil, err
	}
	cmd := exec.Command("go", "run", ".", "extract", "-l", "-e")
	cmd.Dir = filepath.Join(scratch, "cmd")
	cmd.Env = append(os.Environ(), "GOFLAGS=-mod=mod", "GOPROXY=off", "GOSUMDB=off", "GOTOOLCHAIN=local")
	out, e := cmd.CombinedOutput()
	if e != nil {
		return nil, fmt.Errorf("generator failed: %v\n%s", e, out)
	}
	files := map[string][]byte{}
	for _, n := range []string{"get_licenses.go", "get_deprecated.go", "get_exceptions.go"} {
		b, e := os.ReadFile(filepath.Join(scratch, "spdxexp", "spdxlicenses", n))
		if e != nil {
			return nil, e
		}
		files[n] = b
	}
	return files, nil
}

func listEq(a, b []string) (int, bool) {
	for i := 0; i < len(a) || i < len(b); i++ {
		if i >= len(a) || i >= len(b) || a[i] != b[i] {
			return i, false
		}
	}
	return 0, true
}

func at(l []string, i int) string {
	if i < len(l) {
		return l[i]
	}
	return "<end of list>"
}

func init() {
	props["C12"] = func() {
		res.Rule = "exhaustive over the shipped data: (1) the repository's generator is run in a scratch copy and its three output files compared byte for byte with the committed ones; (2) the ids decoded from cmd/licenses.json / cmd/exceptions.json are compared with the tables the library returns; (3) pairwise disjointness and case-insensitive uniqueness; (4) every listed license id is accepted alone, every exception id is accepted after WITH and rejected alone, after AND, in parentheses, with '+', and as the licence of a WITH. Non-trivial & distinct = ids checked"
		res.Exhaustive = true
		// (1)
		files, err := runGenerator()
		res.Evaluations++
		if err != nil {
			fail(failure{Stream: "oracle", What: "the generator could not be run: " + err.Error()})
		} else {
			for n, b := range files {
				res.Evaluations++
				committed, e := os.ReadFile(filepath.Join(repoDir, "spdxexp", "spdxlicenses", n))
				if e != nil || !bytes.Equal(b, committed) {
					off := 0
					for off < len(b) && off < len(committed) && b[off] == committed[off] {
						off++
					}
					fail(failure{Stream: "oracle", What: fmt.Sprintf("re-running the generator does not reproduce spdxexp/spdxlicenses/%s (first difference at byte %d)", n, off), Case: &kase{Extra: map[string]string{"file": n, "offset": itoa(off)}}})
				}
				count("generated_files_compared")
			}
		}
		// (2)
		var ld struct {
			Licenses []struct {
				ID  string `json:"licenseId"`
				Dep bool   `json:"isDeprecatedLicenseId"`
			} `json:"licenses"`
		}
		var ed struct {
			Exceptions []struct {
				ID  string `json:"licenseExceptionId"`
				Dep bool   `json:"isDeprecatedLicenseId"`
			} `json:"exceptions"`
		}
		raw, _ := os.ReadFile(filepath.Join(repoDir, "cmd", "licenses.json"))
		e1 := json.Unmarshal(raw, &ld)
		raw, _ = os.ReadFile(filepath.Join(repoDir, "cmd", "exceptions.json"))
		e2 := json.Unmarshal(raw, &ed)
		if e1 != nil || e2 != nil {
			fail(failure{Stream: "oracle", What: "cannot decode the SPDX JSON files"})
		}
		var ja, jd, je []string
		for _, l := range ld.Licenses {
			if l.Dep {
				jd = append(jd, l.ID)
			} else {
				ja = append(ja, l.ID)
			}
		}
		for _, x := range ed.Exceptions {
			if !x.Dep {
				je = append(je, x.ID)
			}
		}
		for _, c := range []struct {
			name      string
			json, tbl []string
		}{{"active", ja, tblActive}, {"deprecated", jd, tblDeprecated}, {"exception", je, tblExceptions}} {
			res.Evaluations++
			if i, ok := listEq(c.json, c.tbl); !ok {
				fail(failure{Stream: "oracle", What: fmt.Sprintf("the %s table differs from the SPDX JSON data at position %d: JSON has %q, the table has %q", c.name, i, at(c.json, i), at(c.tbl, i)), Case: &kase{Expr: at(c.tbl, i), Extra: map[string]string{"table": c.name, "json": at(c.json, i)}}})
			}
		}
		// (3)
		seen := map[string]string{}
		for _, c := range []struct {
			name string
			l    []string
		}{{"active", tblActive}, {"deprecated", tblDeprecated}, {"exception", tblExceptions}} {
			for _, id := range c.l {
				res.Evaluations++
				key := strings.ToLower(id)
				if prev, ok := seen[key]; ok {
					fail(failure{Stream: "oracle", What: fmt.Sprintf("id %q (%s list) equals %s up to letter case", id, c.name, prev), Case: &kase{Expr: id}})
				}
				seen[key] = fmt.Sprintf("%q (%s list)", id, c.name)
			}
		}
		// (4)
		valid := func(s string, want bool, what string) {
			res.Evaluations++
			got := implValid(s)
			correspondNorm("P "+hx(s), map[bool]string{true: "ok", false: "err"}[got], "validity of a listed id in context: model vs implementation", &kase{Expr: s, ExprHex: hx(s)}, okErr)
			if got != want {
				fail(failure{Stream: "oracle", What: what, Case: &kase{Expr: s, ExprHex: hx(s)}, Impl: fmt.Sprint(got), Expected: fmt.Sprint(want)})
			}
		}
		for _, id := range append(append([]string{}, tblActive...), tblDeprecated...) {
			nontrivial(id)
			valid(id, true, "a listed license id is rejected as a one-term expression")
			x := implExt(id)
			if x.err == nil && x.panicv == nil && (len(x.list) != 1 || x.list[0] != id) {
				// a listed `X+` id is reported under its modern name X-or-later; everything else verbatim
				if !(strings.HasSuffix(id, "+") && len(x.list) == 1 && x.list[0] == strings.TrimSuffix(id, "+")+"-or-later+") {
					count("extract_not_verbatim")
				}
			}
		}
		// a listed `X-or-later` id is reachable through its documented short spelling `X+` as well — also when `X` itself is on
		// no list (GFDL-1.2-no-invariants-or-later) — alone, in lower case, in parentheses and in front of WITH
		for _, id := range tblActive {
			if b := strings.TrimSuffix(id, "-or-later"); b != id {
				for _, sp := range []string{b + "+", strings.ToLower(b) + "+", "(" + b + "+)", b + "+ WITH " + tblExceptions[len(b)%len(tblExceptions)], b + "-or-later+"} {
					valid(sp, true, "the '+' spelling of the listed id "+id+" is rejected")
				}
				res.Evaluations++
				if r := implSat(b+"+", []string{id}); r.String() != "true" {
					fail(failure{Stream: "oracle", What: "the '+' spelling of a listed -or-later id is not satisfied by the listed id", Case: &kase{Expr: b + "+", ExprHex: hx(b + "+"), Allowed: []string{id}}, Impl: r.String(), Expected: "true"})
				}
			}
		}
		for _, e := range tblExceptions {
			nontrivial(e)
			valid("MIT WITH "+e, true, "an exception id is rejected after WITH")
			valid(e, false, "an exception id is accepted as an expression of its own")
			valid("MIT AND "+e, false, "an exception id is accepted as an operand of AND")
			valid("("+e+")", false, "an exception id is accepted in parentheses")
			valid(e+" WITH "+e, false, "an exception id is accepted as the licence of a WITH")
			valid("MIT WITH "+e+"+", false, "an exception id is accepted with '+'")
			valid("MIT "+e, false, "an exception id is accepted without WITH")
			// after WITH behind every kind of licence spelling the scanner / parser distinguish, and in every position
			for _, lic := range []string{"MIT+", "mit", "GPL-2.0-or-later", "GPL-2.0-or-later+", "GPL-2.0+", "GPL-2.0-only", "GPL-2.0-only+",
				"LGPL-2.1++", "Apache-2.0-or-later", "Apache-2.0-or-later+", "eCos-2.0", "AGPL-1.0"} {
				valid(lic+" WITH "+e, true, "an exception id is rejected after WITH behind the licence spelling "+lic)
			}
			// … and behind EVERY deprecated id, with and without '+' (deprecated ids that bundle an exception are expanded or
			// special-cased by some implementations)
			for di, d := range tblDeprecated {
				if !thorough() && (di+len(e))%3 != 0 {
					continue
				}
				d = strings.TrimSuffix(d, "+")
				valid(d+" WITH "+e, true, "an exception id is rejected after WITH behind the deprecated id "+d)
				valid(d+"+ WITH "+e, true, "an exception id is rejected after WITH behind the deprecated id "+d+" with '+'")
			}
			if i := len(e); i%4 == int(seed%4) || thorough() {
				valid("LicenseRef-Apache-2.0-or-later OR Apache-2.0-or-later WITH "+e, true, "an exception id is rejected after WITH behind a rewritten licence whose text also names an earlier reference")
				valid("DocumentRef-MIT-or-later:LicenseRef-x AND MIT-or-later+ WITH "+e, true, "an exception id is rejected after WITH behind a rewritten licence whose text also names an earlier reference")
			}
			el := caseMut(e, 0)
			for _, ctx := range []string{"(MIT WITH %s)", "ISC OR MIT WITH %s", "MIT WITH %s AND ISC", "(ISC AND (MIT+ WITH %s)) OR Zlib", "MIT  WITH  %s"} {
				valid(fmt.Sprintf(ctx, e), true, "an exception id is rejected after WITH in the context "+ctx)
				valid(fmt.Sprintf(ctx, el), true, "a lower-cased exception id is rejected after WITH in the context "+ctx)
			}
			// … and nowhere else: not as an operand, not with a suffix, not behind a reference, not twice
			for _, ctx := range []string{"MIT OR %s", "%s OR MIT", "%s AND MIT", "%s+", "%s-only", "%s-or-later", "WITH %s", "MIT WITH %s WITH %s",
				"LicenseRef-a WITH %s", "DocumentRef-a:LicenseRef-b WITH %s", "MIT WITH (%s)", "MIT WITH %s %s", "( %s )"} {
				text := strings.ReplaceAll(ctx, "%s", e)
				valid(text, false, "an exception id is accepted in the context "+ctx)
				valid(strings.ReplaceAll(ctx, "%s", el), false, "a lower-cased exception id is accepted in the context "+ctx)
			}
			// every entry point and argument position: an exception id is not a licence, so it is no allowed entry either
			for _, entry := range []string{e, el} {
				for _, l := range [][]string{{entry}, {"MIT", entry}, {entry, "MIT"}, {"MIT", "ISC", entry, "Zlib"}} {
					res.Evaluations++
					count("exception_as_allowed_entry")
					if r := implSat("MIT", l); r.err == nil && r.panicv == nil {
						fail(failure{Stream: "oracle", What: "an exception id is accepted as an entry of the allowed list (outside WITH)", Case: &kase{Expr: "MIT", ExprHex: hx("MIT"), Allowed: l}, Impl: r.String(), Expected: "error"})
					}
					correspondNorm("S "+hx("MIT")+" "+hxl(l), implSat("MIT", l).String(), "Satisfies with an exception id in the allowed list: model vs implementation", &kase{Expr: "MIT", ExprHex: hx("MIT"), Allowed: l}, okErr)
				}
				if x := implExt(entry); x.err == nil && x.panicv == nil {
					fail(failure{Stream: "oracle", What: "ExtractLicenses accepts an exception id as an expression", Case: &kase{Expr: entry, ExprHex: hx(entry)}, Impl: x.String(), Expected: "error"})
				}
				if v := implVal([]string{"MIT", entry}); v.panicv == nil && (v.ok || len(v.invalid) != 1 || v.invalid[0] != entry) {
					fail(failure{Stream: "oracle", What: "ValidateLicenses does not report an exception id as invalid", Case: &kase{Allowed: []string{"MIT", entry}}, Impl: v.String(), Expected: "false [the id]"})
				}
				// as an allowed entry the WITH form is fine
				if r := implSat("MIT WITH "+e, []string{"MIT WITH " + entry}); r.err != nil || r.panicv != nil || !r.ok {
					fail(failure{Stream: "oracle", What: "'X WITH e' is not satisfied by the allowed entry 'X WITH e'", Case: &kase{Expr: "MIT WITH " + e, ExprHex: hx("MIT WITH " + e), Allowed: []string{"MIT WITH " + entry}}, Impl: r.String(), Expected: "true"})
				}
			}
		}
		// "nothing else" after WITH: words with a meaning elsewhere in SPDX (AdditionRef-…, LicenseRef-…, keywords), and
		// exception ids behind such prefixes, are no exception ids
		for _, wd := range append(append([]string{}, specialWords...), "AdditionRef-"+tblExceptions[0], "LicenseRef-"+tblExceptions[0], "AdditionRef-foo", "ExceptionRef-"+tblExceptions[len(tblExceptions)-1]) {
			isExcWord := false
			for _, e := range tblExceptions {
				if strings.EqualFold(e, wd) {
					isExcWord = true
				}
			}
			if !isExcWord && !strings.ContainsAny(wd, "+ ()*") && wd != "" {
				valid("MIT WITH "+wd, false, "a word that is no exception id is accepted after WITH")
				valid("GPL-2.0-or-later WITH "+wd+" OR ISC", false, "a word that is no exception id is accepted after WITH")
			}
		}
		// … and in LONG allowed lists (strategies change with the length): an entry that repeats an earlier valid `X WITH e`
		// entry in lower case is NOT that entry (`with` is no operator), so the list is invalid
		for i, e := range tblExceptions {
			if !thorough() && i%3 != int(seed%3) {
				continue
			}
			good := "GPL-2.0-only WITH " + e
			l := []string{good}
			for j := 0; len(l) < 18; j++ {
				l = append(l, tblActive[(i*7+j*13)%len(tblActive)])
			}
			bad := strings.ToLower(good)
			for _, ll := range [][]string{append(append([]string{}, l...), bad), append([]string{bad}, l...)} {
				res.Evaluations++
				count("long_list_with_lowercased_with_entry")
				if r := implSat("MIT", ll); r.err == nil && r.panicv == nil {
					fail(failure{Stream: "oracle", What: "an allowed entry in which an exception id follows the lower-case word 'with' (no operator) is accepted in a long list", Case: &kase{Expr: "MIT", ExprHex: hx("MIT"), Allowed: ll}, Impl: r.String(), Expected: "error"})
					break
				}
				if v := implVal(ll); v.panicv == nil && (v.ok || len(v.invalid) != 1 || v.invalid[0] != bad) {
					fail(failure{Stream: "oracle", What: "ValidateLicenses does not report exactly the lower-cased 'with' entry of a long list", Case: &kase{Allowed: ll}, Impl: v.String(), Expected: "false [that entry]"})
					break
				}
			}
		}
		// "nothing else": a string that differs from a listed id by a non-ASCII character which Unicode case folding maps to the
		// ASCII letter (U+017F for s, U+212A for k) is in none of the three lists and must be rejected everywhere
		for _, id := range append(append([]string{}, tblActive...), tblDeprecated...) {
			for _, c := range confusables(strings.TrimSuffix(id, "+")) {
				valid(c, false, "a string that is on none of the lists (a Unicode look-alike of "+id+") is accepted as a license id")
				res.Evaluations++
				if r := implSat(strings.TrimSuffix(id, "+"), []string{c}); r.err == nil && r.panicv == nil {
					fail(failure{Stream: "oracle", What: "a Unicode look-alike of a listed id is accepted as an allowed entry", Case: &kase{Expr: id, ExprHex: hx(id), Allowed: []string{c}}, Impl: r.String(), Expected: "error"})
				}
			}
		}
		for _, e := range tblExceptions {
			for _, c := range confusables(e) {
				valid("MIT WITH "+c, false, "a string that is on none of the lists (a Unicode look-alike of "+e+") is accepted as an exception id")
			}
		}
		sample(map[string]interface{}{"license": tblActive[0], "exception": tblExceptions[0]})
		// (5) LAST: the lists "the library validates against" stay what the SPDX data says even after a caller has written into
		// the slices the getters returned
		if f := gettersHandOutCopies(); f != nil {
			fail(*f)
		}
		for _, c := range []struct {
			name      string
			json, tbl []string
		}{{"active", ja, spdxlicenses.GetLicenses()}, {"deprecated", jd, spdxlicenses.GetDeprecated()}, {"exception", je, spdxlicenses.GetExceptions()}} {
			res.Evaluations++
			if i, ok := listEq(c.json, c.tbl); !ok {
				fail(failure{Stream: "oracle", What: fmt.Sprintf("after a caller wrote into the getters' results, the %s table differs from the SPDX JSON data at position %d", c.name, i), Case: &kase{Extra: map[string]string{"table": c.name, "json": at(c.json, i), "history": "write into the getters' results"}}})
			}
		}
		for _, id := range []string{tblActive[0], tblActive[len(tblActive)-1], "MIT", "Apache-2.0", "GPL-2.0-only"} {
			res.Evaluations++
			if !implValid(id) || !implValid("MIT WITH "+ja0(je)) {
				fail(failure{Stream: "oracle", What: "after a caller wrote into the getters' results, a listed id is no longer accepted", Case: &kase{Expr: id, ExprHex: hx(id), Extra: map[string]string{"history": "write into the getters' results"}}, Impl: "invalid", Expected: "valid"})
				break
			}
		}
		loadTables()
	}
	replays["C12"] = func(k *kase) *failure {
		if k.Expr != "" {
			return &failure{Stream: "oracle", What: "re-run the check: table-level finding about " + k.Expr, Case: k}
		}
		return &failure{Stream: "oracle", What: "re-run the check: generator / table finding", Case: k}
	}
}

func ja0(l []string) string {
	if len(l) == 0 {
		return "389-exception"
	}
	return l[0]
}

// gettersHandOutCopies: write into everything the public getters of package spdxlicenses return, then ask again; what
// comes back must be what came back the first time.  (Run LAST in a check: if the getters share storage, the harness's own
// copies of the tables are damaged too.)
func gettersHandOutCopies() *failure {
	type getter struct {
		name string
		get  func() []string
	}
	flatRanges := func() []string {
		var o []string
		for _, f := range spdxlicenses.LicenseRanges() {
			for _, g := range f {
				o = append(o, g...)
				o = append(o, "|")
			}
			o = append(o, "#")
		}
		return o
	}
	for _, g := range []getter{{"GetLicenses", spdxlicenses.GetLicenses}, {"GetDeprecated", spdxlicenses.GetDeprecated}, {"GetExceptions", spdxlicenses.GetExceptions}} {
		first := g.get()
		pristine := append([]string{}, first...)
		for i := range first {
			first[i] = strings.ToLower(first[i]) + "-overwritten"
		}
		if len(first) > 1 {
			first[0], first[len(first)-1] = first[len(first)-1], first[0]
		}
		_ = append(first[:len(first)/2], "squeezed-in")
		res.Evaluations++
		count("getter_results_overwritten")
		if i, ok := listEq(g.get(), pristine); !ok {
			return &failure{Stream: "oracle", What: "spdxlicenses." + g.name + "() hands out storage the library keeps using: after the caller wrote into the returned slice, the next call returns different data (first difference at index " + itoa(i) + ")", Case: &kase{Extra: map[string]string{"getter": g.name}}, Impl: "changed", Expected: "the same list as before"}
		}
	}
	before := flatRanges()
	for _, f := range spdxlicenses.LicenseRanges() {
		for _, g := range f {
			for i := range g {
				g[i] = "overwritten"
			}
		}
		if len(f) > 1 {
			f[0], f[len(f)-1] = f[len(f)-1], f[0]
		}
	}
	res.Evaluations++
	if i, ok := listEq(flatRanges(), before); !ok {
		return &failure{Stream: "oracle", What: "spdxlicenses.LicenseRanges() hands out storage the library keeps using (first difference at flat index " + itoa(i) + ")", Case: &kase{Extra: map[string]string{"getter": "LicenseRanges"}}, Impl: "changed", Expected: "the same table as before"}
	}
	return nil
}

// ---------------------------------------------------------------- C13

type call struct {
	fn   int // 0 Satisfies, 1 ExtractLicenses, 2 ValidateLicenses
	expr string
	list []string // shared between goroutines on purpose
}

// richErr: in C13 the text of a returned error belongs to the result that must not depend on history or schedule
var richErr bool

func (c *call) run() string {
	switch c.fn {
	case 0:
		r := implSat(c.expr, c.list)
		if richErr && r.err != nil && r.panicv == nil {
			return "err: " + r.err.Error() // the returned error is part of the result
		}
		return r.String()
	case 1:
		r := implExt(c.expr)
		if richErr && r.err != nil && r.panicv == nil {
			return "err: " + r.err.Error()
		}
		if r.err != nil || r.panicv != nil {
			return r.String()
		}
		return "ok " + strings.Join(r.list, "\x1f") // order is part of the result
	default:
		return implVal(c.list).String()
	}
}

func (c *call) String() string {
	return fmt.Sprintf("%s(%s, %s)", []string{"Satisfies", "ExtractLicenses", "ValidateLicenses"}[c.fn], show(c.expr), joinShow(c.list))
}

// wideCaseRefs: seven references equal up to letter case, ANDed with OR groups that make n alternatives (7n in all)
func wideCaseRefs(n int) string {
	refs := []string{"LicenseRef-Acme-EULA", "LicenseRef-ACME-EULA", "LicenseRef-acme-eula", "LicenseRef-Acme-Eula", "LicenseRef-aCME-eULA", "DocumentRef-D:LicenseRef-acme-eula", "DocumentRef-d:LicenseRef-acme-eula"}
	rng.Shuffle(len(refs), func(i, j int) { refs[i], refs[j] = refs[j], refs[i] })
	wide, _ := wideAnd("("+strings.Join(refs, " OR ")+")", n)
	return wide
}

func genWorkload(n int) []*call {
	var w []*call
	for i := 0; i < n; i++ {
		c := genTreeCase(4, 5)
		text := c.text
		if rng.Intn(6) == 0 {
			text = mutate(text)
		}
		if rng.Intn(4) == 0 {
			// a shadow call: the same text / list with its letter case folded (shares cache keys with the original in
			// any implementation that memoises on folded text)
			f := strings.ToLower
			if rng.Intn(2) == 0 {
				f = strings.ToUpper
			}
			sl := make([]string, len(c.allowed))
			for j, a := range c.allowed {
				sl[j] = f(a)
			}
			w = append(w, &call{fn: rng.Intn(2), expr: f(text), list: sl}, &call{fn: 2, list: append([]string{f(text)}, sl...)})
		}
		switch rng.Intn(3) {
		case 0:
			w = append(w, &call{fn: 0, expr: text, list: c.allowed})
		case 1:
			w = append(w, &call{fn: 1, expr: text})
		default:
			l := append([]string{}, c.allowed...)
			if rng.Intn(3) == 0 {
				l = append(l, mutate(text))
			}
			w = append(w, &call{fn: 2, list: l})
		}
	}
	// error paths: rewritten -or-later ids followed by a scanner error (rare branches where diagnostics are built)
	rew := []string{"MIT-or-later", "Apache-2.0-or-later", "ISC-or-later", "Zlib-or-later+", "BSD-3-Clause-or-later", "MPL-2.0-or-later"}
	tails := []string{"NOT-A-LICENSE", "LicenseRef-", "DocumentRef-", "DocumentRef-a:", "MIT WITH", "#", "(", "MIT +", "mit with Classpath-exception-2.0"}
	for k := 0; k <= 3; k++ {
		for _, tl := range tails {
			parts := []string{}
			for j := 0; j < k; j++ {
				parts = append(parts, rew[rng.Intn(len(rew))])
			}
			parts = append(parts, tl)
			e := strings.Join(parts, []string{" AND ", " OR "}[rng.Intn(2)])
			w = append(w, &call{fn: 0, expr: e, list: []string{"MIT"}}, &call{fn: 1, expr: e}, &call{fn: 2, list: []string{"MIT", e}},
				&call{fn: 0, expr: "MIT", list: []string{"MIT", e}})
		}
	}
	// expressions with a REPEATED group and groups that are prefixes of others, extracted several times (an order taken from a
	// map iteration differs from call to call)
	for i := 0; i < 12; i++ {
		ts := texts(distinctTerms(3))
		e := "(" + ts[0] + " AND " + ts[1] + ") OR " + ts[1] + " OR (" + ts[1] + " AND " + ts[0] + ") OR (" + ts[1] + " AND " + ts[2] + ")"
		if i%2 == 1 {
			e = ts[0] + " OR (" + ts[0] + " AND " + ts[1] + ") OR (" + ts[0] + " AND " + ts[2] + ") OR (" + ts[1] + " AND " + ts[0] + ") OR " + ts[0]
		}
		for j := 0; j < 6; j++ {
			w = append(w, &call{fn: 1, expr: e})
		}
		w = append(w, &call{fn: 0, expr: e, list: []string{ts[1]}})
	}
	// user-defined references that are equal up to letter case, in an expression with MANY alternatives (a second route "above
	// N alternatives" that collects terms in a map and orders them with a case-insensitive key): extracted several times
	for _, n := range []int{160, 700} {
		e := wideCaseRefs(n)
		for j := 0; j < 4; j++ {
			w = append(w, &call{fn: 1, expr: e})
		}
		w = append(w, &call{fn: 0, expr: e, list: []string{"LicenseRef-ACME-EULA", "LicenseRef-wa1", "LicenseRef-wb0"}}, &call{fn: 0, expr: e, list: []string{"LicenseRef-acme-EULA", "LicenseRef-wa1", "LicenseRef-wb0"}})
	}
	// a valid list, then ONE entry that is that list joined by a separator (a cache keyed by the joined text cannot tell
	// them apart; the joined entry is never valid)
	for i := 0; i < 12; i++ {
		c := genTreeCase(2, 3)
		if len(c.allowed) < 2 {
			continue
		}
		w = append(w, &call{fn: 0, expr: c.text, list: c.allowed})
		for _, sep := range []string{",", " ", ";", "\x00", "|", "\n", ", ", ""} {
			j := strings.Join(c.allowed, sep)
			w = append(w, &call{fn: 0, expr: c.text, list: []string{j}}, &call{fn: 2, list: []string{j}})
		}
		w = append(w, &call{fn: 0, expr: c.text, list: c.allowed})
	}
	// bare listed ids in their official spelling, several times (fast paths that hand out stored results)
	for i := 0; i < 40; i++ {
		id := strings.TrimSuffix(genBaseID(), "+")
		w = append(w, &call{fn: 1, expr: id}, &call{fn: 0, expr: id, list: []string{id}}, &call{fn: 1, expr: id})
	}
	// long lists with several different bad entries at different places (work split into batches must not change which
	// error comes back)
	for _, n := range []int{130, 256, 300, 512, scale(700, 1500)} {
		for rep := 0; rep < scale(2, 4); rep++ {
			l := make([]string, n)
			for i := range l {
				l[i] = tblActive[rng.Intn(len(tblActive))]
			}
			bad := []string{"NOT-A-LICENSE", "MIT AND ISC", "LicenseRef-", "MIT WITH", "ZZZ-1.0", "(MIT"}
			for j := 0; j < 2+rng.Intn(3); j++ {
				l[rng.Intn(n)] = bad[rng.Intn(len(bad))]
			}
			l[n-1-rng.Intn(n/4)] = bad[rng.Intn(len(bad))]
			w = append(w, &call{fn: 0, expr: "MIT", list: l}, &call{fn: 2, list: l})
		}
	}
	return w
}

func init() {
	props["C13"] = func() {
		richErr = true
		res.Rule = "a workload of random Satisfies / ExtractLicenses / ValidateLicenses calls (valid and invalid arguments) is run (a) sequentially, (b) in two other shuffled orders and interleaved with unrelated calls, (c) from 32 (thorough 64) goroutines sharing the argument slices, each in its own order, under the Go race detector; every result (including the ORDER of ExtractLicenses' output) must equal the sequential one; argument slices are snapshotted before and compared after; os.Stdout / os.Stderr are redirected to pipes that must stay empty. Non-trivial & distinct = distinct calls of the workload"
		n := scale(1500, 20000)
		w := genWorkload(n)
		snap := make([][]string, len(w))
		for i, c := range w {
			snap[i] = append([]string{}, c.list...)
			nontrivial(c.String())
		}
		// redirect stdout / stderr
		oldOut, oldErr := os.Stdout, os.Stderr
		rp, wp, _ := os.Pipe()
		os.Stdout, os.Stderr = wp, wp
		var printed bytes.Buffer
		done := make(chan struct{})
		go func() { io.Copy(&printed, rp); close(done) }()

		base := make([]string, len(w))
		// file descriptors 1 and 2 themselves go to a scratch file during the sequential run: package log and anything else
		// that kept the original *os.File writes there, not to the swapped os.Stdout / os.Stderr variables
		capf, capErr := os.CreateTemp("", "verif-c13-out-*")
		saved1, e1 := syscall.Dup(1)
		saved2, e2 := syscall.Dup(2)
		fdCapture := capErr == nil && e1 == nil && e2 == nil
		if fdCapture {
			syscall.Dup2(int(capf.Fd()), 1)
			syscall.Dup2(int(capf.Fd()), 2)
		}
		wroteAt, wroteLen := -1, int64(0)
		for i, c := range w {
			base[i] = c.run()
			res.Evaluations++
			if fdCapture && wroteAt < 0 {
				if st, err := capf.Stat(); err == nil && st.Size() > 0 {
					wroteAt, wroteLen = i, st.Size()
				}
			}
		}
		if fdCapture {
			syscall.Dup2(saved1, 1)
			syscall.Dup2(saved2, 2)
			syscall.Close(saved1)
			syscall.Close(saved2)
			if wroteAt >= 0 {
				buf := make([]byte, min(int(wroteLen), 300))
				capf.ReadAt(buf, 0)
				c := w[wroteAt]
				fail(failure{Stream: "oracle", What: "a call wrote to standard output / standard error (file descriptors 1/2): " + show(string(buf)) + " during " + c.String(), Case: &kase{Expr: c.expr, ExprHex: hx(c.expr), Allowed: c.list, Extra: map[string]string{"fn": itoa(c.fn)}}, Impl: show(string(buf)), Expected: "no output"})
			}
			count("fd_level_capture")
		}
		if capErr == nil {
			capf.Close()
			os.Remove(capf.Name())
		}
		count("sequential_calls")
		res.Distribution["sequential_calls"] = len(w)
		checkArgs := func(phase string) {
			for i, c := range w {
				if _, ok := listEq(c.list, snap[i]); !ok {
					fail(failure{Stream: "oracle", What: "a call modified the caller's slice (" + phase + "): " + c.String(), Case: &kase{Expr: c.expr, Allowed: snap[i], Extra: map[string]string{"after": hxl(c.list), "fn": itoa(c.fn)}}})
					c.list = append([]string{}, snap[i]...)
				}
			}
		}
		checkArgs("sequential run")
		// (b) other orders and interleaving with unrelated calls
		orders := scale(2, 9)
		for o := 0; o < orders; o++ {
			perm := rng.Perm(len(w))
			for _, i := range perm {
				if o%2 == 1 && rng.Intn(3) == 0 {
					u := genTreeCase(3, 4)
					implSat(u.text, u.allowed)
					implExt(u.text)
				}
				got := w[i].run()
				res.Evaluations++
				if got != base[i] {
					fail(failure{Stream: "oracle", What: "the result of a call depends on the calls made before it: " + w[i].String(), Case: &kase{Expr: w[i].expr, Allowed: w[i].list, Extra: map[string]string{"fn": itoa(w[i].fn), "order": itoa(o)}}, Impl: show(got), Expected: show(base[i])})
				}
			}
			count("reordered_runs")
		}
		checkArgs("reordered runs")
		// (b00) argument slices with SPARE CAPACITY (a prefix of a larger array, a list built with append): an append inside the
		// library must not write into the caller's array behind len
		for i, c := range w {
			if c.fn == 1 || len(c.list) == 0 || i%3 != 0 {
				continue
			}
			backing := make([]string, len(c.list), len(c.list)+4)
			copy(backing, c.list)
			full := backing[:cap(backing)]
			for j := len(c.list); j < len(full); j++ {
				full[j] = "SENTINEL-" + itoa(j)
			}
			got := (&call{fn: c.fn, expr: c.expr, list: backing}).run()
			res.Evaluations++
			count("spare_capacity_calls")
			for j := len(c.list); j < len(full); j++ {
				if full[j] != "SENTINEL-"+itoa(j) {
					fail(failure{Stream: "oracle", What: "a call wrote into the caller's array behind the length of the slice it was given (spare capacity): " + c.String(), Case: &kase{Expr: c.expr, ExprHex: hx(c.expr), Allowed: c.list, Extra: map[string]string{"fn": itoa(c.fn), "index": itoa(j), "written": hx(full[j])}}, Impl: show(full[j]), Expected: "SENTINEL-" + itoa(j)})
					break
				}
			}
			if got != base[i] {
				fail(failure{Stream: "oracle", What: "a call answers differently when its list has spare capacity: " + c.String(), Case: &kase{Expr: c.expr, ExprHex: hx(c.expr), Allowed: c.list, Extra: map[string]string{"fn": itoa(c.fn)}}, Impl: show(got), Expected: show(base[i])})
				break
			}
		}
		// (b0) the caller writes into what it was given: the slices ExtractLicenses returned are overwritten and re-sorted,
		// then the same calls are made again — a library that hands out its own storage answers differently afterwards
		for i, c := range w {
			if c.fn != 1 {
				continue
			}
			r := implExt(c.expr)
			for j := range r.list {
				r.list[j] = strings.ToLower(r.list[j]) + "-overwritten"
			}
			sort.Sort(sort.Reverse(sort.StringSlice(r.list)))
			got := c.run()
			res.Evaluations += 2
			count("returned_slice_overwritten")
			if got != base[i] {
				fail(failure{Stream: "oracle", What: "after the caller overwrote the slice an earlier ExtractLicenses call had returned, the same call answers differently: " + c.String(), Case: &kase{Expr: c.expr, ExprHex: hx(c.expr), Extra: map[string]string{"fn": "1", "history": "overwrite the returned slice, call again"}}, Impl: show(got), Expected: show(base[i])})
				break
			}
		}
		// (b') the same calls in FRESH processes, in the generated order, reversed and shuffled.  The generators above have
		// already called the library (validity filters), so this process has a history before the first call of the
		// workload; a child process executes nothing but the calls it is given, so a result that depends on earlier calls
		// (a cache primed by another spelling, say) differs between the orders.
		if exe, err := os.Executable(); err == nil {
			ordersF := [][]int{make([]int, len(w)), make([]int, len(w)), rng.Perm(len(w))}
			for i := range w {
				ordersF[0][i] = i
				ordersF[1][i] = len(w) - 1 - i
			}
			for o, perm := range ordersF {
				got, err := runChild(exe, w, perm)
				if err != nil {
					res.Notes = append(res.Notes, "fresh-process run failed: "+err.Error())
					break
				}
				count("fresh_process_runs")
				res.Evaluations += len(perm)
				for k, i := range perm {
					if got[k] != base[i] {
						fail(failure{Stream: "oracle", What: "the result of a call in a fresh process differs with the calls made before it: " + w[i].String(), Case: &kase{Expr: w[i].expr, Allowed: w[i].list, Extra: map[string]string{"fn": itoa(w[i].fn), "fresh_order": itoa(o), "position": itoa(k)}}, Impl: show(got[k]), Expected: show(base[i])})
						break
					}
				}
			}
		}
		// (b2) in-place edits of a slice the library has already seen: the result must be that of a fresh slice with the same
		// contents (nothing may be remembered about a caller's slice beyond the call)
		var editCalls []*call
		var editResults []string
		for i, c := range w {
			if c.fn != 0 || len(c.list) < 2 || i%3 != 0 {
				continue
			}
			l := append([]string{}, c.list...)
			implSat(c.expr, l)
			j := rng.Intn(len(l))
			l[j] = genValidTerm().text
			r2 := (&call{fn: 0, expr: c.expr, list: l}).run()
			implSat("MIT", []string{"ISC", "Zlib"}) // an unrelated call in between (a one-entry memo is evicted)
			r3 := (&call{fn: 0, expr: c.expr, list: append([]string{}, l...)}).run()
			if r2 == r3 && len(editCalls) < 80 {
				editCalls = append(editCalls, &call{fn: 0, expr: c.expr, list: append([]string{}, l...)})
				editResults = append(editResults, r2)
			}
			res.Evaluations += 3
			count("in_place_edits")
			if r2 != r3 {
				fail(failure{Stream: "oracle", What: "after an in-place edit of the caller's slice between two calls, Satisfies answers differently for that slice and for a fresh copy of it", Case: &kase{Expr: c.expr, Allowed: l, Extra: map[string]string{"edited_index": itoa(j), "first_list": hxl(c.list)}}, Impl: r2, Expected: r3})
				break
			}
		}
		// ... and the contents-only answers from ONE process that has never seen those slices
		if exe, err := os.Executable(); err == nil && len(editCalls) > 0 {
			perm := make([]int, len(editCalls))
			for i := range perm {
				perm[i] = i
			}
			if got, err := runChild(exe, editCalls, perm); err == nil {
				for i := range editCalls {
					if got[i] != editResults[i] {
						fail(failure{Stream: "oracle", What: "after an in-place edit of the caller's slice between two calls, Satisfies answers differently than a fresh process does for the same contents", Case: &kase{Expr: editCalls[i].expr, Allowed: editCalls[i].list}, Impl: editResults[i], Expected: got[i]})
						break
					}
				}
			}
		}
		// (b3) CONCURRENT FIRST USE: fresh processes whose very first calls into the library come from many goroutines at
		// once (lazily built indexes and caches are filled exactly then).  Every goroutine runs the same calls; all results
		// must equal the sequential ones; a process that dies (fatal error: concurrent map ...) is a failure; the children
		// are race-detector binaries, so their reports are collected like those of this process.
		if exe, err := os.Executable(); err == nil {
			kids := scale(10, 60)
			for kid := 0; kid < kids; kid++ {
				m := 40 + rng.Intn(160)
				perm := rng.Perm(len(w))[:min(m, len(w))]
				got, crashed, err := runChildPar(exe, w, perm, 4+rng.Intn(28))
				count("concurrent_first_use_processes")
				res.Evaluations += len(perm)
				if crashed != "" {
					fail(failure{Stream: "oracle", What: "a fresh process whose first calls are made concurrently died: " + crashed, Case: &kase{Expr: w[perm[0]].expr, Allowed: w[perm[0]].list, Extra: map[string]string{"calls": itoa(len(perm))}}, Impl: "process aborted"})
					break
				}
				if err != nil {
					res.Notes = append(res.Notes, "concurrent-first-use child failed to run: "+err.Error())
					break
				}
				bad := false
				for k, i := range perm {
					for _, g := range got[k] {
						if g != base[i] {
							fail(failure{Stream: "oracle", What: "concurrent first use of the library in a fresh process: a call returned a different result than the sequential call: " + w[i].String(), Case: &kase{Expr: w[i].expr, Allowed: w[i].list, Extra: map[string]string{"fn": itoa(w[i].fn)}}, Impl: show(g), Expected: show(base[i])})
							bad = true
							break
						}
					}
					if bad {
						break
					}
				}
				if bad {
					break
				}
			}
		}
		// (b4) THE VERY FIRST CALL of a fresh process: one call per child, on the ids at the ends of the tables and of the
		// version families (a "previous hit" hint with a sentinel, a lazily built index that misses an end)
		if exe, err := os.Executable(); err == nil {
			var firsts []*call
			ends := []string{tblActive[0], tblActive[len(tblActive)-1], tblDeprecated[0], tblDeprecated[len(tblDeprecated)-1]}
			for _, f := range []([][]string){tblRanges[0], tblRanges[len(tblRanges)-1], tblRanges[rng.Intn(len(tblRanges))]} {
				ends = append(ends, f[0][0], f[len(f)-1][len(f[len(f)-1])-1])
			}
			for _, id := range ends {
				id = strings.TrimSuffix(id, "+")
				firsts = append(firsts, &call{fn: 2, list: []string{id}}, &call{fn: 1, expr: strings.ToLower(id)})
			}
			firsts = append(firsts,
				&call{fn: 0, expr: "MIT WITH " + tblExceptions[len(tblExceptions)-1], list: []string{"MIT WITH " + tblExceptions[len(tblExceptions)-1]}},
				&call{fn: 0, expr: "MIT WITH " + tblExceptions[0], list: []string{"MIT"}},
				&call{fn: 0, expr: ends[len(ends)-1] + "+", list: []string{ends[len(ends)-2]}},
				&call{fn: 0, expr: ends[len(ends)-2] + "+", list: []string{ends[len(ends)-1]}})
			if !thorough() && len(firsts) > 16 {
				rng.Shuffle(len(firsts), func(i, j int) { firsts[i], firsts[j] = firsts[j], firsts[i] })
				firsts = firsts[:16]
			}
			for _, c := range firsts {
				want := c.run()
				got, err := runChild(exe, []*call{c}, []int{0})
				res.Evaluations += 2
				count("first_call_of_a_process")
				if err != nil {
					res.Notes = append(res.Notes, "first-call child failed to run: "+err.Error())
					break
				}
				if got[0] != want {
					fail(failure{Stream: "oracle", What: "as the very first call of a fresh process a call answers differently than later in a process: " + c.String(), Case: &kase{Expr: c.expr, ExprHex: hx(c.expr), Allowed: c.list, Extra: map[string]string{"fn": itoa(c.fn), "history": "none (first call of the process)"}}, Impl: show(got[0]), Expected: show(want)})
					break
				}
			}
		}
		// (b5) MANY GOROUTINES IN ONE FAMILY at the same moment (shared "last hit" hints are read twice exactly then): range
		// comparisons inside three families, every goroutine its own order, all results equal to the sequential ones
		{
			var hot []*call
			hotFams := []int{rng.Intn(len(tblRanges)), len(tblRanges) - 1}
			for fi, f := range tblRanges { // the GNU families always: their '+' spellings take the scanner's look-ahead branch
				if strings.HasPrefix(f[0][0], "GPL-") || strings.HasPrefix(f[0][0], "LGPL-") {
					hotFams = append(hotFams, fi)
				}
			}
			for _, fi := range hotFams {
				var ids []string
				for _, gr := range tblRanges[fi] {
					for _, x := range gr {
						if !strings.HasSuffix(x, "+") && !strings.HasSuffix(x, "-or-later") {
							ids = append(ids, x)
						}
					}
				}
				for i := 0; i < 10 && len(ids) > 0; i++ {
					a, b := pick(ids), pick(ids)
					hot = append(hot, &call{fn: 0, expr: a + "+", list: []string{b}}, &call{fn: 0, expr: a, list: []string{b + "+", "MIT"}})
				}
			}
			want := make([]string, len(hot))
			for i, c := range hot {
				want[i] = c.run()
			}
			var wg sync.WaitGroup
			var mu sync.Mutex
			var bad *failure
			rounds := scale(60, 400)
			for gi := 0; gi < 16; gi++ {
				wg.Add(1)
				go func(gi int) {
					defer wg.Done()
					for r := 0; r < rounds; r++ {
						for k := range hot {
							i := (k*7 + gi*3 + r) % len(hot)
							if got := hot[i].run(); got != want[i] {
								mu.Lock()
								if bad == nil {
									bad = &failure{Stream: "oracle", What: "with many goroutines comparing ids of the same families at once, a call returned a different result than the sequential call: " + hot[i].String(), Case: &kase{Expr: hot[i].expr, ExprHex: hx(hot[i].expr), Allowed: hot[i].list, Extra: map[string]string{"fn": "0"}}, Impl: show(got), Expected: show(want[i])}
								}
								mu.Unlock()
								return
							}
						}
					}
				}(gi)
			}
			wg.Wait()
			res.Evaluations += 16 * rounds * len(hot)
			countN("hot_family_concurrent_calls", 16*rounds*len(hot))
			if bad != nil {
				fail(*bad)
			}
		}
		// (b6) LARGE EXPANSIONS AT THE SAME MOMENT (a budget for the expansion kept in a package-level counter is shared by the
		// calls that overlap): several goroutines expand expressions of 27 000 – 64 000 alternatives at once
		{
			grp := func(p string, n int) string {
				xs := make([]string, n)
				for i := range xs {
					xs[i] = "LicenseRef-" + p + itoa(i)
				}
				return "(" + strings.Join(xs, " OR ") + ")"
			}
			e64, e27 := grp("a", 40)+" AND "+grp("b", 40)+" AND "+grp("c", 40), grp("a", 30)+" AND "+grp("b", 30)+" AND "+grp("c", 30)
			big := []*call{{fn: 0, expr: e64, list: []string{"LicenseRef-a1", "LicenseRef-b39", "LicenseRef-c7"}}, {fn: 0, expr: e27, list: []string{"LicenseRef-a1", "LicenseRef-b2"}},
				{fn: 1, expr: e27}, {fn: 0, expr: wideCaseRefs(5000), list: []string{"LicenseRef-acme-eula", "LicenseRef-wa25", "LicenseRef-wb70"}}}
			want := make([]string, len(big))
			for i, c := range big {
				want[i] = c.run()
			}
			// all goroutines enter the SAME call at the same instant (a barrier per round): the windows in which calls read and
			// write such a counter are a fraction of a millisecond wide
			var mu sync.Mutex
			var bad *failure
			rounds := scale(8, 30)
			for i := range big {
				for r := 0; r < rounds && bad == nil; r++ {
					var wg sync.WaitGroup
					start := make(chan struct{})
					for gi := 0; gi < 8; gi++ {
						wg.Add(1)
						go func() {
							defer wg.Done()
							<-start
							if got := big[i].run(); got != want[i] {
								mu.Lock()
								if bad == nil {
									bad = &failure{Stream: "oracle", What: "with several goroutines expanding large expressions at once, a call returned a different result than the sequential call: " + show(got[:min(len(got), 80)]) + " instead of " + show(want[i][:min(len(want[i]), 80)]), Case: &kase{Expr: big[i].expr, ExprHex: hx(big[i].expr), Allowed: big[i].list, Extra: map[string]string{"fn": itoa(big[i].fn), "concurrent": "8 goroutines enter the same call at the same moment; expressions of 27000-64000 alternatives"}}, Impl: got[:min(len(got), 200)], Expected: want[i][:min(len(want[i]), 200)]}
								}
								mu.Unlock()
							}
						}()
					}
					close(start)
					wg.Wait()
				}
			}
			res.Evaluations += 8 * rounds * len(big)
			countN("large_expansions_concurrent_calls", 8*rounds*len(big))
			if bad != nil {
				fail(*bad)
			}
		}
		// (c) concurrency over shared argument slices
		g := scale(32, 64)
		for _, procs := range []int{runtime.NumCPU(), 2} {
			if procs == 2 && !thorough() {
				break
			}
			old := runtime.GOMAXPROCS(procs)
			var wg sync.WaitGroup
			var mu sync.Mutex
			perms := make([][]int, g)
			for j := range perms {
				perms[j] = rng.Perm(len(w))
			}
			per := len(w)
			if !thorough() {
				per = len(w) / 2
			}
			for j := 0; j < g; j++ {
				wg.Add(1)
				go func(j int) {
					defer wg.Done()
					for _, i := range perms[j][:per] {
						got := w[i].run()
						if got != base[i] {
							mu.Lock()
							fail(failure{Stream: "oracle", What: "a concurrent call returned a different result than the sequential call: " + w[i].String(), Case: &kase{Expr: w[i].expr, Allowed: snap[i], Extra: map[string]string{"fn": itoa(w[i].fn), "goroutines": itoa(g)}}, Impl: show(got), Expected: show(base[i])})
							mu.Unlock()
						}
					}
				}(j)
			}
			wg.Wait()
			runtime.GOMAXPROCS(old)
			res.Evaluations += g * per
			countN("concurrent_calls", g*per)
		}
		checkArgs("concurrent run")
		wp.Close()
		os.Stdout, os.Stderr = oldOut, oldErr
		<-done
		if printed.Len() > 0 {
			fail(failure{Stream: "oracle", What: fmt.Sprintf("the library wrote %d bytes to standard output / standard error, starting: %q", printed.Len(), printed.String()[:min(printed.Len(), 120)])})
		}
		// (d) LAST: the caller writes into the slices the public table getters returned; the tables the library validates
		// against (and the same calls) must be unaffected
		if f := gettersHandOutCopies(); f != nil {
			fail(*f)
		} else {
			for i, c := range w {
				if i%7 != 0 {
					continue
				}
				if got := c.run(); got != base[i] {
					fail(failure{Stream: "oracle", What: "after the caller wrote into the slices returned by spdxlicenses.GetLicenses / GetDeprecated / GetExceptions / LicenseRanges, a call answers differently: " + c.String(), Case: &kase{Expr: c.expr, ExprHex: hx(c.expr), Allowed: c.list, Extra: map[string]string{"fn": itoa(c.fn), "history": "write into the getters' results, call again"}}, Impl: show(got), Expected: show(base[i])})
					break
				}
			}
		}
		loadTables()
		res.Distribution["race_detector"] = map[bool]int{true: 1, false: 0}[raceEnabled]
		if !raceEnabled {
			res.Notes = append(res.Notes, "this binary was built without -race")
		}
		for i := 0; i < 3 && i < len(w); i++ {
			sample(w[i].String())
		}
	}
	replays["C13"] = func(k *kase) *failure {
		return &failure{Stream: "oracle", What: "history / schedule dependent finding: re-run the check (the replay file records the call)", Case: k}
	}
}

// runChild executes the calls w[perm[0]], w[perm[1]], ... in a fresh process and returns their results in that order
func runChild(exe string, w []*call, perm []int) ([]string, error) {
	type wire struct {
		Fn   int      `json:"fn"`
		Expr string   `json:"expr"` // hex
		List []string `json:"list"` // hex
		Nil  bool     `json:"nil"`
	}
	calls := make([]wire, len(perm))
	for k, i := range perm {
		c := w[i]
		l := make([]string, len(c.list))
		for j, x := range c.list {
			l[j] = hx(x)
		}
		calls[k] = wire{Fn: c.fn, Expr: hx(c.expr), List: l, Nil: c.list == nil}
	}
	in, _ := json.Marshal(calls)
	cmd := exec.Command(exe, "-exec")
	if richErr {
		cmd = exec.Command(exe, "-exec", "-errtext")
	}
	cmd.Stdin = bytes.NewReader(in)
	var out bytes.Buffer
	cmd.Stdout = &out
	if err := cmd.Run(); err != nil {
		return nil, err
	}
	var resS []string
	if err := json.Unmarshal(out.Bytes(), &resS); err != nil {
		return nil, err
	}
	if len(resS) != len(perm) {
		return nil, fmt.Errorf("child returned %d results for %d calls", len(resS), len(perm))
	}
	for i := range resS {
		resS[i] = unhx(resS[i])
	}
	return resS, nil
}

// runChildPar: a fresh process in which `workers` goroutines, released together, each execute the calls w[perm[..]];
// returns for every call the distinct results seen, or the tail of stderr if the process died
func runChildPar(exe string, w []*call, perm []int, workers int) ([][]string, string, error) {
	type wire struct {
		Fn   int      `json:"fn"`
		Expr string   `json:"expr"`
		List []string `json:"list"`
		Nil  bool     `json:"nil"`
	}
	calls := make([]wire, len(perm))
	for k, i := range perm {
		c := w[i]
		l := make([]string, len(c.list))
		for j, x := range c.list {
			l[j] = hx(x)
		}
		calls[k] = wire{Fn: c.fn, Expr: hx(c.expr), List: l, Nil: c.list == nil}
	}
	in, _ := json.Marshal(calls)
	cmd := exec.Command(exe, "-exec-par", strconv.Itoa(workers))
	if richErr {
		cmd = exec.Command(exe, "-exec-par", strconv.Itoa(workers), "-errtext")
	}
	cmd.Stdin = bytes.NewReader(in)
	var out, errb bytes.Buffer
	cmd.Stdout = &out
	cmd.Stderr = &errb
	err := cmd.Run()
	var resS [][]string
	if uerr := json.Unmarshal(out.Bytes(), &resS); uerr != nil || len(resS) != len(perm) {
		tail := errb.String()
		if len(tail) > 600 {
			tail = tail[:600]
		}
		if err != nil {
			return nil, fmt.Sprintf("%v: %s", err, tail), nil
		}
		return nil, "", fmt.Errorf("unreadable child output")
	}
	for i := range resS {
		for j := range resS[i] {
			resS[i][j] = unhx(resS[i][j])
		}
	}
	return resS, "", nil
}

func execChildPar(workers int) {
	type wire struct {
		Fn   int      `json:"fn"`
		Expr string   `json:"expr"`
		List []string `json:"list"`
		Nil  bool     `json:"nil"`
	}
	var calls []wire
	raw, _ := io.ReadAll(os.Stdin)
	if err := json.Unmarshal(raw, &calls); err != nil {
		fmt.Fprintln(os.Stderr, err)
		os.Exit(2)
	}
	cs := make([]*call, len(calls))
	for k, c := range calls {
		var l []string
		if !c.Nil {
			l = make([]string, len(c.List))
			for j, x := range c.List {
				l[j] = unhx(x)
			}
		}
		cs[k] = &call{fn: c.Fn, expr: unhx(c.Expr), list: l}
	}
	results := make([][]string, workers)
	start := make(chan struct{})
	var wg sync.WaitGroup
	for g := 0; g < workers; g++ {
		wg.Add(1)
		go func(g int) {
			defer wg.Done()
			out := make([]string, len(cs))
			<-start
			for k := range cs {
				// every goroutine starts at a different call so that different lookups meet in the first microseconds
				i := (k + g*7) % len(cs)
				out[i] = cs[i].run()
			}
			results[g] = out
		}(g)
	}
	close(start)
	wg.Wait()
	distinctRes := make([][]string, len(cs))
	for i := range cs {
		seen := map[string]bool{}
		for g := 0; g < workers; g++ {
			if !seen[results[g][i]] {
				seen[results[g][i]] = true
				distinctRes[i] = append(distinctRes[i], hx(results[g][i]))
			}
		}
	}
	b, _ := json.Marshal(distinctRes)
	os.Stdout.Write(b)
}

// execChild: the child side of runChild (no generator, no table access: nothing but the calls)
func execChild() {
	type wire struct {
		Fn   int      `json:"fn"`
		Expr string   `json:"expr"`
		List []string `json:"list"`
		Nil  bool     `json:"nil"`
	}
	var calls []wire
	raw, _ := io.ReadAll(os.Stdin)
	if err := json.Unmarshal(raw, &calls); err != nil {
		fmt.Fprintln(os.Stderr, err)
		os.Exit(2)
	}
	out := make([]string, len(calls))
	for k, c := range calls {
		var l []string
		if !c.Nil {
			l = make([]string, len(c.List))
			for j, x := range c.List {
				l[j] = unhx(x)
			}
		}
		cc := &call{fn: c.Fn, expr: unhx(c.Expr), list: l}
		out[k] = hx(cc.run())
	}
	b, _ := json.Marshal(out)
	os.Stdout.Write(b)
}

// ---------------------------------------------------------------- C14

type family struct {
	name string
	gen  func(n int) (string, []string)
	max  int
	step int // 0 = doubling, else linear step
}

// refused families: the call is refused because of its allowed list (empty, invalid or compound entry); Satisfies must not
// have expanded the expression by then, so the model cost of these measurements contains no expansion term and only
// Satisfies is measured
func (f family) refused() bool { return strings.HasPrefix(f.name, "refused-") }

// oddByteSeqs: control characters, Unicode spaces and marks in UTF-8, lone / truncated / invalid UTF-8 bytes
var oddByteSeqs = []string{"\t", "\n", "\r", "\r\n", "\v", "\f", "\x00", "\x1f", "\x7f", "\xc2\xa0", "\xc2\xa9", "\xc2\x80", "\xc2\xbf", "\xc2", "\xc2M", "\xc2 ", "\xc3\xa9", "\xc2\x85",
	"\xe2\x80\x8b", "\xe2\x80\xa8", "\xe2\x80\x83", "\xe3\x80\x80", "\xef\xbb\xbf", "\xf0\x9f\x98\x80", "\xe2\x80", "\xe2", "\xf0\x9f", "\xff", "\x80", "\xa0", "\xc0\x80", "\xed\xa0\x80"}

func rep(s, sep string, n int) string {
	parts := make([]string, n)
	for i := range parts {
		parts[i] = s
	}
	return strings.Join(parts, sep)
}

func nest(n int, leaf func(i int) string) string {
	// alternating nest: l0 AND (l1 OR (l2 AND (...)))
	if n <= 1 {
		return leaf(0)
	}
	s := leaf(n - 1)
	for i := n - 2; i >= 0; i-- {
		op := " AND "
		if i%2 == 1 {
			op = " OR "
		}
		s = leaf(i) + op + "(" + s + ")"
	}
	return s
}

var someIDs = []string{"MIT", "ISC", "Zlib", "Apache-2.0", "BSD-3-Clause", "BSD-2-Clause", "MPL-2.0", "EPL-2.0", "CC0-1.0", "Unlicense", "0BSD", "GPL-2.0-only", "GPL-3.0-only", "LGPL-2.1-only", "AGPL-3.0-only", "CDDL-1.0"}

// legacyWithPairs: "L WITH e" for every deprecated id of the form L-with-<x>-exception and every exception whose name starts
// with <x>-exception (read off the tables)
func legacyWithPairs() []string {
	var out []string
	for _, d := range tblDeprecated {
		i := strings.Index(d, "-with-")
		if i < 0 || !strings.HasSuffix(d, "-exception") {
			continue
		}
		lic, x := d[:i], strings.ToLower(strings.TrimSuffix(d[i+6:], "-exception"))
		for _, e := range tblExceptions {
			if strings.HasPrefix(strings.ToLower(e), x+"-exception") {
				for _, l := range []string{lic, lic + "-only"} {
					if implValid(l + " WITH " + e) {
						out = append(out, l+" WITH "+e)
					}
				}
			}
		}
	}
	if len(out) == 0 {
		out = []string{"GPL-2.0-only WITH Classpath-exception-2.0"}
	}
	return out
}

func families() []family {
	id := func(i int) string { return someIDs[i%len(someIDs)] }
	seq := func(n int, sep string) string {
		p := make([]string, n)
		for i := range p {
			p[i] = id(i)
		}
		return strings.Join(p, sep)
	}
	big := scale(256, 2048)
	return []family{
		{"and-chain", func(n int) (string, []string) { return seq(n, " AND "), someIDs }, big, 0},
		{"or-chain", func(n int) (string, []string) { return seq(n, " OR "), []string{"FSFAP"} }, big, 0},
		{"nesting-depth", func(n int) (string, []string) {
			return strings.Repeat("(", n) + "MIT" + strings.Repeat(")", n), []string{"MIT"}
		}, scale(1024, 8192), 0},
		{"and-of-ors", func(n int) (string, []string) { return "(" + rep("MIT OR ISC", ") AND (", n) + ")", []string{"Zlib"} }, scale(11, 13), 1},
		{"or-of-ands", func(n int) (string, []string) { return "(" + rep("MIT AND ISC", ") OR (", n) + ")", []string{"Zlib"} }, scale(128, 1024), 0},
		{"alternating-nest", func(n int) (string, []string) { return nest(n, id), []string{"FSFAP"} }, scale(64, 256), 0},
		{"long-allowed-list", func(n int) (string, []string) {
			l := make([]string, n)
			for i := range l {
				l[i] = tblActive[i%len(tblActive)]
			}
			return "MIT AND ISC", l
		}, scale(512, 2048), 0},
		{"long-id", func(n int) (string, []string) { return "LicenseRef-" + strings.Repeat("a", n), []string{"MIT"} }, scale(65536, 1<<20), 0},
		{"long-unknown-id", func(n int) (string, []string) { return strings.Repeat("a", n), []string{"MIT"} }, scale(65536, 1<<20), 0},
		{"or-later-rewrites", func(n int) (string, []string) { return rep("Apache-2.0-or-later", " AND ", n), []string{"Apache-2.0"} }, scale(128, 512), 0},
		// explicit nesting to one side (a helper that walks the left operand twice doubles its work per level)
		{"and-left-nested", func(n int) (string, []string) {
			e := id(0)
			for i := 1; i <= n; i++ {
				e = "(" + e + " AND " + id(i) + ")"
			}
			return e, someIDs
		}, scale(128, 512), 0},
		{"alternating-left-nest", func(n int) (string, []string) {
			e := id(0)
			for i := 1; i <= n; i++ {
				op := " AND "
				if i%2 == 1 {
					op = " OR "
				}
				e = "(" + e + op + id(i) + ")"
			}
			return e, someIDs
		}, scale(64, 256), 0},
		{"or-list-of-or-groups-after-docref", func(n int) (string, []string) {
			p := make([]string, n)
			for i := range p {
				p[i] = "(" + id(2*i) + " OR " + id(2*i+1) + ")"
			}
			return "DocumentRef-d:LicenseRef-x OR " + strings.Join(p, " OR "), []string{"FSFAP"}
		}, scale(64, 256), 0},
		{"refused-deep-nest-syntax-error", func(n int) (string, []string) {
			return "MIT AND " + strings.Repeat("(", n) + "ISC OR :", []string{"MIT"}
		}, scale(64, 256), 0},
		// a parenthesised group followed by WITH (refused: WITH belongs to a single licence), the group holding n references and
		// one plain licence at its end (code that distributes the exception over the group walks it)
		{"refused-group-with-exception", func(n int) (string, []string) {
			p := make([]string, n)
			for i := range p {
				p[i] = "LicenseRef-g" + strconv.Itoa(i)
			}
			return "(" + strings.Join(p, " OR ") + " OR MIT) WITH Classpath-exception-2.0", []string{"MIT"}
		}, scale(64, 256), 0},
		// bytes that are not part of the expression language, one sequence per measurement, between / before / after terms and
		// behind an operator: rejected at once (a loop that skips "white space" byte by byte must advance on every byte)
		{"refused-odd-bytes", func(n int) (string, []string) {
			sq := oddByteSeqs[((n-1)/2)%len(oddByteSeqs)]
			switch ((n - 1) / 2 / len(oddByteSeqs)) % 4 {
			case 0:
				return "MIT " + sq + " ISC", []string{"MIT"}
			case 1:
				return sq + "MIT", []string{"MIT"}
			case 2:
				return "MIT AND " + sq + "ISC", []string{"MIT"}
			default:
				return "MIT" + sq, []string{"MIT"}
			}
		}, 8*len(oddByteSeqs) - 1, 2},
		{"or-left-nested", func(n int) (string, []string) {
			e := id(0)
			for i := 1; i <= n; i++ {
				e = "(" + e + " OR " + id(i) + ")"
			}
			return e, []string{"FSFAP"}
		}, scale(128, 512), 0},
		{"and-right-nested", func(n int) (string, []string) {
			e := id(0)
			for i := 1; i <= n; i++ {
				e = "(" + id(i) + " AND " + e + ")"
			}
			return e, someIDs
		}, scale(128, 512), 0},
		// every spelling that makes the scanner rebuild its buffer, repeated
		{"rewrite-plus-chain", func(n int) (string, []string) {
			sp := []string{"MIT-or-later+", "Zlib-or-later+", "Apache-2.0-or-later+", "ISC-or-later+"}
			p := make([]string, n)
			for i := range p {
				p[i] = sp[i%len(sp)]
			}
			return strings.Join(p, " AND ") + " AND ISC", []string{"MIT", "Zlib", "Apache-2.0", "ISC"}
		}, scale(128, 512), 0},
		{"mixed-suffix-chain", func(n int) (string, []string) {
			sp := []string{"Apache-2.0-or-later+", "MIT-or-later", "GPL-2.0-or-later+", "ISC+", "GPL-2.0-only+", "(MPL-2.0-or-later)", "LGPL-2.1++"}
			p := make([]string, n)
			for i := range p {
				p[i] = sp[i%len(sp)]
			}
			return strings.Join(p, " OR "), []string{"FSFAP"}
		}, scale(128, 512), 0},
		// licence / exception pairs for which a deprecated combined id exists (GPL-2.0-with-classpath-exception …): code that
		// treats exactly those pairs specially must not make a plain AND chain of them expensive
		{"and-chain-legacy-with-pairs", func(n int) (string, []string) {
			pairs := legacyWithPairs()
			p := make([]string, n)
			for i := range p {
				p[i] = pairs[i%len(pairs)]
			}
			return strings.Join(p, " AND "), []string{"MIT"}
		}, scale(64, 256), 0},
		{"or-chain-with-terms", func(n int) (string, []string) {
			p := make([]string, n)
			for i := range p {
				p[i] = []string{"GPL-2.0-only", "GPL-3.0-or-later", "LGPL-2.1+", "Apache-2.0", "GPL-2.0"}[i%5] + " WITH " + tblExceptions[i%len(tblExceptions)]
			}
			return strings.Join(p, " OR "), []string{"MIT"}
		}, scale(128, 512), 0},
		// the cost of REFUSING (or accepting) an allowed-list entry: compound entries of growing size
		{"allowed-entry-or-of-and-of-ors", func(n int) (string, []string) {
			return "MIT", []string{"MIT", "Zed OR (" + rep("(MIT OR ISC)", " AND ", n) + ")"}
		}, scale(64, 128), 0},
		{"allowed-entry-and-of-ors", func(n int) (string, []string) {
			return "MIT", []string{rep("(MIT OR ISC)", " AND ", n), "MIT"}
		}, scale(64, 128), 0},
		{"allowed-entry-nested", func(n int) (string, []string) {
			return "MIT", []string{strings.Repeat("(", n) + "MIT" + strings.Repeat(")", n), "ISC AND " + strings.Repeat("(", n) + "MIT OR Zlib" + strings.Repeat(")", n)}
		}, scale(512, 4096), 0},
		// two alternatives that repeat ONE id many times, the shorter with one extra id that sorts last (subset / subsequence
		// tests between alternatives that backtrack)
		{"repeated-id-alternatives", func(n int) (string, []string) {
			return "(" + rep("MIT", " AND ", n) + " AND Zlib) OR (" + rep("MIT", " AND ", 2*n) + ")", []string{"ISC"}
		}, scale(64, 256), 0},
		{"repeated-id-chain", func(n int) (string, []string) {
			return rep("MIT", " AND ", n) + " OR " + rep("ISC", " OR ", n), []string{"Zlib", "MIT"}
		}, scale(256, 1024), 0},
		// calls that are REFUSED because of the allowed list: the expression must not have been expanded by then (the
		// exponential family of the known finding, with an empty list, an invalid entry, a compound entry)
		{"refused-empty-list", func(n int) (string, []string) {
			return "(" + rep("MIT OR ISC", ") AND (", n) + ") AND Zlib", []string{}
		}, scale(64, 128), 0},
		{"refused-invalid-entry", func(n int) (string, []string) {
			return "(" + rep("MIT OR ISC", ") AND (", n) + ") AND Zlib", []string{"MIT", "NOT-A-LICENSE"}
		}, scale(64, 128), 0},
		{"refused-compound-entry", func(n int) (string, []string) {
			return "(" + rep("MIT OR ISC", ") AND (", n) + ") AND Zlib", []string{"MIT AND ISC", "Zlib"}
		}, scale(64, 128), 0},
		{"many-spaces", func(n int) (string, []string) {
			return "MIT" + strings.Repeat(" ", n) + "AND ISC", []string{"MIT", "ISC"}
		}, scale(65536, 1<<20), 0},
		{"plus-run", func(n int) (string, []string) { return "MIT" + strings.Repeat("+", n), []string{"MIT"} }, scale(4096, 65536), 0},
		// chains of DISTINCT terms (LicenseRefs: listed ids run out at ~700) and lists with many redundant entries
		{"or-chain-distinct-refs", func(n int) (string, []string) {
			p := make([]string, n)
			for i := range p {
				p[i] = "LicenseRef-" + strconv.Itoa(100000+i)
			}
			return strings.Join(p, " OR "), []string{"LicenseRef-100000"}
		}, scale(2048, 8192), 0},
		{"and-chain-distinct-refs", func(n int) (string, []string) {
			p := make([]string, n)
			for i := range p {
				p[i] = "DocumentRef-d:LicenseRef-" + strconv.Itoa(100000+i)
			}
			return strings.Join(p, " AND "), []string{"MIT"}
		}, scale(2048, 8192), 0},
		{"redundant-allowed-list", func(n int) (string, []string) {
			l := make([]string, 0, 2*n)
			for i := 0; i < n; i++ {
				l = append(l, "DocumentRef-d:LicenseRef-"+strconv.Itoa(100000+i))
			}
			for i := 0; i < n; i++ {
				l = append(l, []string{"GPL-2.0", "GPL-2.0-only", "MIT", "mit"}[i%4])
			}
			return "Apache-2.0", l
		}, scale(1024, 4096), 0},
	}
}

type measurement struct {
	alloc  uint64
	dur    time.Duration
	result string
	cpu    time.Duration // user+system CPU time of the child process (0 when measured in-process)
}

// measure runs ONE call in a fresh child process and returns what it allocated.  The child carries a watchdog that
// aborts the call as soon as the cumulative allocation passes `measureCap` (a change that makes a call allocate
// gigabytes must not take the checking process, or the machine, down with it); the parent also enforces a timeout.
var measureCap uint64 = 3 << 30

func measure(fn int, e string, a []string) measurement {
	exe, err := os.Executable()
	if err != nil {
		return measureInProcess(fn, e, a)
	}
	l := make([]string, len(a))
	for i, x := range a {
		l[i] = hx(x)
	}
	in, _ := json.Marshal(map[string]interface{}{"fn": fn, "expr": hx(e), "list": l, "cap": measureCap})
	cmd := exec.Command(exe, "-measure")
	cmd.Stdin = bytes.NewReader(in)
	var out bytes.Buffer
	cmd.Stdout = &out
	// GOGC=off: the CPU time of the child then measures the call, not the collector (the concurrent collector's worker threads
	// add CPU time that grows with the heap: 2.3 s of CPU for a call of 0.96 s wall at 860 MB, a "growth" of 6–7 per doubling
	// for a quadratic call); the memory limit still makes the collector run before the process outgrows the machine, and the
	// allocation figures come from the allocation counter, which does not depend on the collector
	cmd.Env = append(os.Environ(), "GOMEMLIMIT=6GiB", "GOGC=off")
	done := make(chan error, 1)
	t0 := time.Now()
	if err := cmd.Start(); err != nil {
		return measureInProcess(fn, e, a)
	}
	go func() { done <- cmd.Wait() }()
	select {
	case <-done:
	case <-time.After(60 * time.Second):
		cmd.Process.Kill()
		<-done
		return measurement{alloc: measureCap, dur: time.Since(t0), result: "TIMEOUT after 60 s (killed)"}
	}
	var r struct {
		Alloc   uint64 `json:"alloc"`
		Ns      int64  `json:"ns"`
		Res     string `json:"res"`
		Aborted bool   `json:"aborted"`
	}
	if err := json.Unmarshal(out.Bytes(), &r); err != nil {
		// the child died (out of memory, fatal error): count it as having hit the cap
		return measurement{alloc: measureCap, dur: time.Since(t0), result: "child died: " + err.Error()}
	}
	res := r.Res
	if r.Aborted {
		res = fmt.Sprintf("ABORTED by the watchdog after allocating %d bytes", r.Alloc)
	}
	m := measurement{alloc: r.Alloc, dur: time.Duration(r.Ns), result: res}
	if cmd.ProcessState != nil {
		m.cpu = cmd.ProcessState.UserTime() + cmd.ProcessState.SystemTime()
	}
	return m
}

func allocatedBytes() uint64 {
	s := []metrics.Sample{{Name: "/gc/heap/allocs:bytes"}}
	metrics.Read(s)
	if s[0].Value.Kind() == metrics.KindUint64 {
		return s[0].Value.Uint64()
	}
	return 0
}

// measureChild: the child side of measure
func measureChild() {
	var c struct {
		Fn   int      `json:"fn"`
		Expr string   `json:"expr"`
		List []string `json:"list"`
		Cap  uint64   `json:"cap"`
	}
	raw, _ := io.ReadAll(os.Stdin)
	if err := json.Unmarshal(raw, &c); err != nil {
		os.Exit(2)
	}
	e := unhx(c.Expr)
	a := make([]string, len(c.List))
	for i, x := range c.List {
		a[i] = unhx(x)
	}
	runtime.GC()
	base := allocatedBytes()
	t := time.Now()
	emit := func(aborted bool, r string) {
		b, _ := json.Marshal(map[string]interface{}{"alloc": allocatedBytes() - base, "ns": time.Since(t).Nanoseconds(), "res": r, "aborted": aborted})
		os.Stdout.Write(b)
	}
	go func() {
		for {
			time.Sleep(time.Millisecond)
			if allocatedBytes()-base > c.Cap {
				emit(true, "")
				os.Exit(0)
			}
		}
	}()
	m := measureInProcess(c.Fn, e, a)
	b, _ := json.Marshal(map[string]interface{}{"alloc": m.alloc, "ns": m.dur.Nanoseconds(), "res": m.result, "aborted": false})
	os.Stdout.Write(b)
}

func measureInProcess(fn int, e string, a []string) measurement {
	var m0, m1 runtime.MemStats
	runtime.GC()
	runtime.ReadMemStats(&m0)
	t := time.Now()
	var r string
	switch fn {
	case 0:
		r = implSat(e, a).String()
	case 1:
		x := implExt(e)
		if x.err != nil || x.panicv != nil {
			r = x.String()
		} else {
			r = "ok"
		}
	default:
		r = implVal(append([]string{e}, a...)).String()
	}
	d := time.Since(t)
	runtime.ReadMemStats(&m1)
	return measurement{alloc: m1.TotalAlloc - m0.TotalAlloc, dur: d, result: r}
}

// model-side structure of the input, from the driver's K operation
type kstats struct{ bytes, tokens, alts, slots, leaves, rewrites, work int }

func modelStats(e string) (kstats, bool) {
	out, err := runDriver([]string{"K " + hx(e)})
	if err != nil || !strings.HasPrefix(out[0], "cost ") {
		return kstats{}, false
	}
	f := strings.Fields(out[0])
	if len(f) != 7 {
		return kstats{}, false
	}
	n := func(i int) int { v, _ := strconv.Atoi(f[i]); return v }
	return kstats{len(e), n(1), n(2), n(3), n(4), n(5), n(6)}, true
}

func log2(n int) int {
	l := 1
	for n > 1 {
		n /= 2
		l++
	}
	return l
}

// modelCost: the allocation (bytes) that the cost model explains for ONE call.  Constants were measured on the
// repaired tree (DESIGN, C14).  It CONTAINS the number of alternatives alts(n) (through slots and copy work): that is
// the known finding D8.  It contains no other term that is super-linear in the text length except
// rewrites x bytes (the buffer is rebuilt on every -or-later rewrite) and the copy work of nested chains (quadratic).
func modelCost(k kstats, nAllowed int, allowedBytes int) float64 {
	c := 200000.0
	c += 8000 * float64(k.tokens+2*nAllowed+1) // regexp compilations and fresh table slices per token
	c += 40 * float64(k.bytes+allowedBytes)
	c += 4 * float64(k.rewrites) * float64(k.bytes)
	c += 16 * float64(k.slots) * float64(log2(k.slots)+log2(k.alts)) // strings rebuilt by the comparators of the two sorts
	c += 8 * float64(k.work)
	c += 16000 * float64(k.slots) * float64(nAllowed) // LicenseRanges() is rebuilt for every range lookup of a comparison
	c += 64 * float64(nAllowed) * float64(log2(nAllowed))
	return c
}

func init() {
	props["C14"] = func() {
		res.Rule = "12 input families parameterised by size n (AND chain, OR chain, nesting depth, AND of n ORs, OR of n ANDs, alternating nest, long allowed list, long ids, -or-later rewrites, runs of spaces and '+'), n doubling up to the family's bound (AND-of-ORs: n = 1..11/13 in steps of 1); for each, runtime.MemStats.TotalAlloc delta and wall time of ONE Satisfies / ExtractLicenses / ValidateLicenses call, compared with K x the model's cost (which contains the alternatives count alts(n), the known finding). Non-trivial & distinct = (family, n, function) measurements"
		const K = 8.0
		budget := uint64(scale(600, 3000)) << 20
		for _, f := range families() {
			var prev [3]uint64
			var prevCPU [3]time.Duration
			var prevModel float64
			doubling := 0
			steps := 0
			for n := 1; n <= f.max; {
				e, a := f.gen(n)
				statsOf := e
				if f.refused() {
					// the cost model of a refused call has no expansion term: take the token counts from a text with the same
					// tokens and a linear expansion (the model driver would otherwise materialise 2^n alternatives)
					statsOf = strings.ReplaceAll(e, " AND ", " OR ")
					if strings.HasSuffix(e, ":") { // an INVALID expression: take the counts from the valid text with the same tokens
						statsOf = strings.TrimSuffix(statsOf, ":") + "MIT" + strings.Repeat(")", strings.Count(e, "("))
					}
					if strings.Contains(e, ") WITH ") {
						statsOf = strings.Replace(statsOf, ") WITH ", ") OR MIT WITH ", 1)
					}
					if f.name == "refused-odd-bytes" {
						statsOf = "MIT OR ISC OR Zlib"
					}
				}
				ks, ok := modelStats(statsOf)
				if !ok {
					res.Notes = append(res.Notes, "driver K failed for "+f.name)
					break
				}
				ab := 0
				for _, x := range a {
					ab += len(x)
				}
				stop := false
				if f.refused() {
					ks.alts, ks.slots, ks.work = 1, ks.tokens, 0
				}
				if strings.HasPrefix(f.name, "allowed-entry-") {
					// the entries of these families are long texts themselves: their tokens are scanned and parsed like the
					// expression's (the cost model's default assumes two tokens per entry)
					for _, x := range a {
						if es, ok := modelStats(strings.ReplaceAll(x, " AND ", " OR ")); ok {
							ks.tokens += es.tokens
						}
					}
				}
				for fn := 0; fn < 3; fn++ {
					if f.refused() && fn != 0 {
						continue
					}
					m := measure(fn, e, a)
					res.Evaluations++
					nontrivial(fmt.Sprintf("%s|%d|%d", f.name, n, fn))
					bound := K * modelCost(ks, len(a), ab)
					count("measurements")
					k := &kase{Extra: map[string]string{"family": f.name, "n": itoa(n), "fn": itoa(fn), "alloc": strconv.FormatUint(m.alloc, 10), "bound": fmt.Sprintf("%.0f", bound), "bytes": itoa(len(e)), "alts": itoa(ks.alts), "ms": strconv.FormatInt(m.dur.Milliseconds(), 10)}}
					if len(e) <= 400 {
						k.Expr = e
						k.Allowed = a
					}
					if n == f.max || n*2 > f.max && f.step == 0 {
						sample(k.Extra)
					}
					if os.Getenv("VERIF_C14_DUMP") != "" {
						fmt.Fprintf(os.Stderr, "%-18s n=%-7d fn=%d bytes=%-8d tokens=%-6d alts=%-6d slots=%-6d rw=%-4d nA=%-5d alloc=%-11d model=%-12.0f ratio=%.3f ms=%d\n", f.name, n, fn, len(e), ks.tokens, ks.alts, ks.slots, ks.rewrites, len(a), m.alloc, bound/K, float64(m.alloc)/(bound/K), m.dur.Milliseconds())
					}
					if float64(m.alloc) > bound {
						fail(failure{Stream: "oracle", What: fmt.Sprintf("family %s, n=%d (%d bytes): one call allocated %d bytes, more than %.0f = K x the cost the model explains (tokens=%d alternatives=%d slots=%d)", f.name, n, len(e), m.alloc, bound, ks.tokens, ks.alts, ks.slots), Case: k, Impl: strconv.FormatUint(m.alloc, 10), Expected: fmt.Sprintf("<= %.0f", bound)})
						stop = true
					}
					// growth: doubling n must not multiply the allocation by more than the model's own growth allows
					if f.step == 0 && prev[fn] >= 1<<20 && prevModel > 0 {
						g, mg := float64(m.alloc)/float64(prev[fn]), bound/K/prevModel
						// the property allows a low-degree polynomial: a doubling may multiply the cost by 4 (quadratic; 15 % for
						// noise) even where the model, whose constants were measured on this implementation, predicts less —
						// a refactoring that removes a large linear constant exposes the quadratic part without changing it
						lim := 1.6 * mg
						if lim < 4.6 {
							lim = 4.6
						}
						if r := int(g * 100); r > res.Distribution["max_growth_x100_"+f.name] {
							res.Distribution["max_growth_x100_"+f.name] = r
						}
						if g > lim {
							fail(failure{Stream: "oracle", What: fmt.Sprintf("family %s: doubling n to %d multiplied the allocation of one call by %.2f (%d -> %d bytes); the cost model allows %.2f", f.name, n, g, prev[fn], m.alloc, lim), Case: k, Impl: fmt.Sprintf("x%.2f", g), Expected: fmt.Sprintf("<= x%.2f", lim)})
							stop = true
						}
					}
					// time: the CPU time of the (single-call) child process.  Doubling n may multiply it by 4 (the quadratic
					// behaviours the model knows: buffer copies, chains); 6.5 and more over two successive doublings is
					// cubic or worse.  Only judged where the call dominates the process (>= 0.4 s).
					if f.step == 0 && prevCPU[fn] > 0 && m.cpu >= 400*time.Millisecond {
						g := float64(m.cpu) / float64(prevCPU[fn])
						if r := int(g * 100); r > res.Distribution["max_time_growth_x100_"+f.name] {
							res.Distribution["max_time_growth_x100_"+f.name] = r
						}
						if g > 6.5 {
							// measure again before judging (scheduling noise)
							m2 := measure(fn, e, a)
							if m2.cpu > 0 && m2.cpu < m.cpu {
								g = float64(m2.cpu) / float64(prevCPU[fn])
							}
						}
						if g > 6.5 {
							fail(failure{Stream: "oracle", What: fmt.Sprintf("family %s: doubling n to %d multiplied the CPU time of one call by %.1f (%v -> %v): super-quadratic growth", f.name, n, g, prevCPU[fn], m.cpu), Case: k, Impl: fmt.Sprintf("x%.1f", g), Expected: "<= x6.5 (quadratic = x4)"})
							stop = true
						}
					}
					if m.cpu >= 100*time.Millisecond {
						prevCPU[fn] = m.cpu
					} else {
						prevCPU[fn] = 0
					}
					if r := int(float64(m.alloc) / (bound / K) * 100); r > res.Distribution["max_ratio_x100_"+f.name] {
						res.Distribution["max_ratio_x100_"+f.name] = r
					}
					if fn < 2 && f.step == 1 && prev[fn] > 0 && float64(m.alloc) >= 1.7*float64(prev[fn]) && n >= 6 {
						doubling++
					}
					prev[fn] = m.alloc
					if m.alloc > budget || m.dur > 20*time.Second {
						stop = true
					}
				}
				steps++
				prevModel = modelCost(ks, len(a), ab)
				if stop {
					break
				}
				if f.step == 0 {
					n *= 2
				} else {
					n += f.step
				}
			}
			if f.step == 1 && doubling >= 6 {
				// exponential growth in the text length: a violation of C14 in its own right (listed as known finding D8)
				e, a := f.gen(8)
				fail(failure{Stream: "oracle", What: fmt.Sprintf("known-exponential-family %s: the allocation of Satisfies / ExtractLicenses multiplied by >= 1.7 for each added OR group in %d measured steps (n = 6..%d; the text grows by 17 bytes per group): the cross product of alternatives is materialised by expandAnd -> appendTerms", f.name, doubling, f.max),
					Case: &kase{Expr: e, Allowed: a, Extra: map[string]string{"family": f.name, "n": "8", "fn": "0"}}, Impl: "x2 per group", Expected: "polynomial growth"})
			}
		}
	}
	replays["C14"] = func(k *kase) *failure {
		if k.Extra == nil {
			return nil
		}
		for _, f := range families() {
			if f.name == k.Extra["family"] {
				n, _ := strconv.Atoi(k.Extra["n"])
				fn, _ := strconv.Atoi(k.Extra["fn"])
				e, a := f.gen(n)
				m := measure(fn, e, a)
				b, _ := strconv.ParseFloat(k.Extra["bound"], 64)
				if float64(m.alloc) > b {
					return &failure{Stream: "oracle", What: fmt.Sprintf("family %s n=%d allocated %d bytes > bound %.0f", f.name, n, m.alloc, b), Case: k, Impl: strconv.FormatUint(m.alloc, 10)}
				}
			}
		}
		return nil
	}
}

var _ = spdxexp.ValidateLicenses
