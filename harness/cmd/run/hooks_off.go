//go:build !verif

package main

// The library was built without its observation points (the hook file does not compile against this tree, or the tag is
// off): the hook-based correspondences are skipped; everything else runs as usual.

const hooksOn = false

func hookScan(s string) string   { return "" }
func hookTree(s string) string   { return "" }
func hookExpand(s string) string { return "" }
