package main

// Term-based properties: C02 (matching rule), C08 (equivalent spellings), C09 (letter case), C11 (version order).

import (
	"sort"
	"fmt"
	"regexp"
	"strconv"
	"strings"
)

// ---- positions in the shipped range table, read the way the property reads it (first occurrence)

type posT struct{ fam, grp int }

func tablePos(id string) (posT, bool) {
	id = strings.TrimSuffix(id, "-or-later")
	for i, f := range tblRanges {
		for j, g := range f {
			for _, x := range g {
				if x == id {
					return posT{i, j}, true
				}
			}
		}
	}
	return posT{}, false
}

func canonicalIn(list []string, w string) (string, bool) {
	for _, l := range list {
		if strings.EqualFold(l, w) {
			return l, true
		}
	}
	return "", false
}

// effective (id, plus) of a generated licence term, derived from the documented normalisation rules,
// independently of the implementation: returns ok=false when the term is not expected to be valid
func (t *term) effective() (id string, plus bool, ok bool) {
	word := t.base + t.suffix
	listed := func(w string) (string, bool) {
		if c, ok := canonicalIn(tblActive, w); ok {
			return c, true
		}
		return "", false
	}
	if c, ok := listed(word); ok {
		return c, t.plus || strings.HasSuffix(c, "-or-later"), true
	}
	if t.suffix == "-only" {
		if c, ok := listed(t.base); ok {
			return c, t.plus || strings.HasSuffix(c, "-or-later"), true
		}
	}
	if t.plus {
		if c, ok := listed(word + "-or-later"); ok {
			return c, true, true
		}
	}
	if t.suffix == "-or-later" {
		if c, ok := listed(t.base); ok {
			return c, true, true
		}
	}
	if c, ok := canonicalIn(tblDeprecated, word); ok {
		return c, t.plus, true
	}
	return "", false, false
}

// specMatch: the matching rule of C02 written from its text over the table positions
func specMatch(a, b *term) (bool, bool) {
	if a.isRef != b.isRef {
		return false, true
	}
	if a.isRef {
		return a.ref == b.ref && a.doc == b.doc, true
	}
	ia, pa, oka := a.effective()
	ib, pb, okb := b.effective()
	if !oka || !okb {
		return false, false
	}
	if a.exc != b.exc {
		return false, true
	}
	// '-or-later' counts as '+': X-or-later is the id X carrying '+'
	sa, sb := strings.TrimSuffix(ia, "-or-later"), strings.TrimSuffix(ib, "-or-later")
	if sa == sb {
		return true, true // the same id
	}
	qa, fa := tablePos(sa)
	qb, fb := tablePos(sb)
	if !fa || !fb || qa.fam != qb.fam {
		return false, true // different ids without a common version family
	}
	switch {
	case pa && pb:
		return true, true
	case pa:
		return qa.grp <= qb.grp, true
	case pb:
		return qb.grp <= qa.grp, true
	default:
		return qa.grp == qb.grp, true
	}
}

func termKase(a, b *term) *kase {
	return &kase{Expr: a.text, ExprHex: hx(a.text), Allowed: []string{b.text}, Extra: map[string]string{"a": fmt.Sprintf("%+v", *a), "b": fmt.Sprintf("%+v", *b)}}
}

func mkTerm(base, suffix string, plus bool, exc string, caseMod int) *term {
	if strings.HasSuffix(base, "+") {
		base, plus = strings.TrimSuffix(base, "+"), true
	}
	t := &term{base: base, suffix: suffix, plus: plus, exc: exc, caseMod: caseMod}
	t.build()
	return t
}

func mkRef(doc, ref string) *term {
	t := &term{isRef: true, doc: doc, ref: ref, caseMod: -1}
	t.build()
	return t
}

// spellings of one id used by the pair enumerations
func spellings(id string, all bool) []*term {
	out := []*term{mkTerm(id, "", false, "", -1), mkTerm(id, "", true, "", -1)}
	if all {
		out = append(out, mkTerm(id, "-only", false, "", -1), mkTerm(id, "-or-later", false, "", -1), mkTerm(id, "", false, "", 0), mkTerm(id, "", true, "", 1),
			mkTerm(id, "-only", true, "", -1), mkTerm(id, "-or-later", true, "", -1))
	}
	var ok []*term
	for _, t := range out {
		if implValid(t.text) {
			ok = append(ok, t)
		}
	}
	return ok
}

func withExc(t *term, exc string) *term {
	n := *t
	n.exc = exc
	n.build()
	return &n
}

// ---------------------------------------------------------------- C02

func c02Pair(a, b *term, withCorr bool) *failure {
	res.Evaluations++
	m := implMatch(a.text, b.text)
	k := termKase(a, b)
	if m < 0 {
		count("skipped_impl_error")
		return nil
	}
	count(fmt.Sprintf("match_%d", m))
	if withCorr {
		correspond("M "+hx(a.text)+" "+hx(b.text), fmt.Sprint(m == 1), "single-term match: model matchLeaf vs Satisfies(a,[b])", k)
	}
	if r := implMatch(b.text, a.text); r != m {
		return &failure{Stream: "oracle", What: "matching is not symmetric", Case: k, Impl: fmt.Sprint(r), Expected: fmt.Sprint(m)}
	}
	if implMatch(a.text, a.text) != 1 {
		return &failure{Stream: "oracle", What: "a valid term does not match itself", Case: termKase(a, a), Impl: "false", Expected: "true"}
	}
	want, ok := specMatch(a, b)
	if !ok {
		count("spec_undetermined")
		return nil
	}
	if a.text != b.text {
		nontrivial(a.text + "|" + b.text)
	}
	if want != (m == 1) {
		return &failure{Stream: "oracle", What: "single-term match differs from the documented rule (id/family/version/+/exception/ref)", Case: k, Impl: fmt.Sprint(m == 1), Expected: fmt.Sprint(want)}
	}
	return nil
}

func init() {
	props["C02"] = func() {
		res.Rule = "ordered pairs of single terms: all ids of 8 random families (thorough: every family) + 40 (100) other listed ids x {plain,+,-only,-or-later,lower,UPPER} x {no exception, e1, e2} + LicenseRef / DocumentRef:LicenseRef terms; oracle = symmetry, reflexivity and the documented rule evaluated over LicenseRanges(). Non-trivial & distinct = ordered pairs of different term texts whose expected verdict is determined"
		var ids []string
		fams := rng.Perm(len(tblRanges))
		nf := scale(8, len(tblRanges))
		for _, fi := range fams[:nf] {
			for _, g := range tblRanges[fi] {
				ids = append(ids, g...)
			}
		}
		for i := 0; i < scale(30, 100); i++ {
			ids = append(ids, genBaseID())
		}
		ids = uniqSorted(ids)
		e1, e2 := pick(tblExceptions), pick(tblExceptions)
		var terms []*term
		for _, id := range ids {
			for _, t := range spellings(id, true) {
				terms = append(terms, t)
			}
		}
		refs := []*term{mkRef("", "a"), mkRef("", "b"), mkRef("d", "a"), mkRef("e", "a"), mkRef("d", "b"), mkRef("", "MIT"), mkRef("", "GPL-2.0"),
			// user-defined names are matched exactly: the same names in another letter case are different terms
			mkRef("", "A"), mkRef("D", "a"), mkRef("", "acme-eula"), mkRef("", "ACME-EULA"), mkRef("vendor", "acme-eula"), mkRef("Vendor", "acme-eula"), mkRef("", "mit"), mkRef("", "gpl-2.0"),
			// operator words as whole segments of a name, in two letter cases (passes that re-case operators in the text)
			mkRef("", "MIT-or-Apache"), mkRef("", "MIT-Or-Apache"), mkRef("", "MIT-OR-Apache"), mkRef("", "a-and-b"), mkRef("", "a-AND-b"), mkRef("", "x.with.y"), mkRef("", "x.WITH.y"),
			mkRef("acme-or-sub", "x1"), mkRef("acme-OR-sub", "x1"),
			// names that end in a character a "trailer" clean-up might strip
			mkRef("", "v1"), mkRef("", "v1."), mkRef("", "v1-"), mkRef("", "v1.."), mkRef("d.", "v1"), mkRef("d", "v1"),
			// names that END in a suffix word of licence ids, the suffix in two letter cases (a scanner that folds `-ONLY` /
			// `-OR-LATER` for licences must not touch user-defined names)
			mkRef("", "acme-EULA-only"), mkRef("", "acme-EULA-ONLY"), mkRef("", "acme-EULA-Only"), mkRef("", "eval-or-later"), mkRef("", "eval-OR-LATER"), mkRef("", "eval-Or-Later"),
			mkRef("sbom-or-later", "x"), mkRef("sbom-OR-LATER", "x"), mkRef("sbom-only", "x"), mkRef("sbom-ONLY", "x"),
			// document ids one of which is a prefix of the other, continued by a byte that sorts before ':' (keys compared field
			// by field instead of as one text)
			mkRef("spdx-tool", "acme"), mkRef("spdx-tool-1.2", "acme"), mkRef("spdx-tool.1", "acme"), mkRef("spdx-tool1", "acme"), mkRef("spdx-too", "acme"), mkRef("spdx-tool", "acme-1"), mkRef("spdx-tool", "acm"),
			// names that contain the text of a reference prefix again (a reader that looks for the LAST occurrence of the prefix,
			// or splits at it, takes the tail for the name)
			mkRef("", "acme-LicenseRef-1"), mkRef("", "1"), mkRef("", "LicenseRef-1"), mkRef("", "a-DocumentRef-b"), mkRef("old-DocumentRef-d", "x"), mkRef("d", "x"),
			mkRef("old-LicenseRef-d", "x"), mkRef("DocumentRef-d", "x"), mkRef("d", "y-LicenseRef-x"), mkRef("d", "LicenseRef-x"), mkRef("", "x")}
		terms = append(terms, refs...)
		countN("terms", len(terms))
		// within-family pairs exhaustively, others sampled
		famOf := func(t *term) int {
			if t.isRef {
				return -2
			}
			if p, ok := tablePos(t.base); ok {
				return p.fam
			}
			return -1
		}
		excs := []string{"", e1, e2}
		pairs := 0
		for i, a := range terms {
			for j, b := range terms {
				same := famOf(a) >= 0 && famOf(a) == famOf(b) || a.base == b.base && !a.isRef || a.isRef && b.isRef
				if !same && rng.Intn(scale(60, 25)) != 0 {
					continue
				}
				_ = i
				_ = j
				for _, ea := range excs {
					for _, eb := range excs {
						if (ea != "" || eb != "") && rng.Intn(scale(6, 2)) != 0 {
							continue
						}
						x, y := a, b
						if !a.isRef {
							x = withExc(a, ea)
						}
						if !b.isRef {
							y = withExc(b, eb)
						}
						if f := c02Pair(x, y, true); f != nil {
							fail(*f)
						}
						pairs++
					}
				}
			}
			if len(corrQ) > 50000 {
				flushCorr()
			}
		}
		// EVERY ordered pair of exceptions (57 x 57) behind one licence (rotating through a few licences and the version-range
		// rules): exceptions compared through a position, an ordinal or a hash coincide for particular pairs only
		{
			lics := [][2]string{{"MIT", "MIT"}, {"GPL-2.0-only", "GPL-2.0-only"}, {"GPL-2.0+", "GPL-3.0-only"}, {"Apache-2.0", "apache-2.0"}}
			for i, ea := range tblExceptions {
				for j, eb := range tblExceptions {
					l := lics[(i+j+int(seed))%len(lics)]
					ma, mb := ea, eb
					if (i+j)%5 == 0 {
						mb = strings.ToLower(eb)
					}
					count("exception_pairs_exhaustive")
					want := i == j
					got := implSat(l[0]+" WITH "+ma, []string{l[1] + " WITH " + mb})
					res.Evaluations++
					if got.err != nil || got.panicv != nil || got.ok != want {
						fail(failure{Stream: "oracle", What: "two terms with the same (or a range-compatible) licence match iff their exceptions are identical", Case: &kase{Expr: l[0] + " WITH " + ma, Allowed: []string{l[1] + " WITH " + mb}}, Impl: got.String(), Expected: fmt.Sprintf("%v", want)})
					}
				}
			}
		}
		// every family against every family (one representative id each, a different one per seed), and every ordered pair
		// of ids inside every family, in the four +/no+ combinations: a slip that concerns one particular pair of families
		// or one particular version step cannot hide behind the random choice of families above
		for fi, f := range tblRanges {
			var fids []string
			for _, g := range f {
				for _, id := range g {
					if !strings.HasSuffix(id, "+") && !strings.HasSuffix(id, "-or-later") {
						fids = append(fids, id)
					}
				}
			}
			if len(fids) == 0 {
				continue
			}
			for gi, g := range tblRanges {
				if gi == fi {
					continue
				}
				var gids []string
				for _, gr := range g {
					for _, id := range gr {
						if !strings.HasSuffix(id, "+") && !strings.HasSuffix(id, "-or-later") {
							gids = append(gids, id)
						}
					}
				}
				if len(gids) == 0 {
					continue
				}
				a, b := fids[int(seed)%len(fids)], gids[(int(seed)+gi)%len(gids)]
				for _, pa := range []bool{false, true} {
					for _, pb := range []bool{false, true} {
						if fl := c02Pair(mkTerm(a, "", pa, "", -1), mkTerm(b, "", pb, "", -1), true); fl != nil {
							fail(*fl)
						}
						count("family_x_family")
					}
				}
			}
			for _, a := range fids {
				for _, b := range fids {
					for _, pa := range []bool{false, true} {
						for _, pb := range []bool{false, true} {
							if fl := c02Pair(mkTerm(a, "", pa, "", -1), mkTerm(b, "", pb, "", -1), true); fl != nil {
								fail(*fl)
							}
							count("within_family_all")
						}
					}
				}
			}
			if len(corrQ) > 50000 {
				flushCorr()
			}
		}
		// every listed id that is a PREFIX of another listed id, against that id (fixed-width keys, prefix comparisons)
		{
			listed := append(append([]string{}, tblActive...), tblDeprecated...)
			for _, a := range listed {
				for _, b := range listed {
					if a != b && strings.HasPrefix(b, a) && !strings.HasSuffix(a, "+") && !strings.HasSuffix(b, "+") {
						for _, pl := range [][2]bool{{false, false}, {true, false}, {false, true}, {true, true}} {
							ta, tb := mkTerm(a, "", pl[0], "", -1), mkTerm(b, "", pl[1], "", -1)
							if !implValid(ta.text) || !implValid(tb.text) {
								continue
							}
							if fl := c02Pair(ta, tb, true); fl != nil {
								fail(*fl)
							}
							if fl := c02Pair(tb, ta, true); fl != nil {
								fail(*fl)
							}
							count("prefix_id_pairs")
						}
					}
				}
			}
		}
		// ids ADJACENT in the order of the lists, one of them WITH the first / the last exception of the exception list (terms
		// packed into integer keys with a radix that is off by one collide exactly there)
		{
			order := append(append([]string{}, tblActive...), tblDeprecated...)
			for i := 0; i+1 < len(order); i++ {
				a, b := strings.TrimSuffix(order[i], "+"), strings.TrimSuffix(order[i+1], "+")
				for _, e := range []string{tblExceptions[0], tblExceptions[len(tblExceptions)-1]} {
					for _, pl := range []bool{false, true} {
						for _, pr := range [][2]*term{{mkTerm(a, "", pl, e, -1), mkTerm(b, "", pl, "", -1)}, {mkTerm(b, "", pl, e, -1), mkTerm(a, "", pl, "", -1)}} {
							if !implValid(pr[0].text) || !implValid(pr[1].text) {
								continue
							}
							if fl := c02Pair(pr[0], pr[1], true); fl != nil {
								fail(*fl)
							}
							count("adjacent_ids_end_exceptions")
						}
					}
				}
				if len(corrQ) > 50000 {
					flushCorr()
				}
			}
		}
		// ids that LOOK related without being so (or that are related outside the version table): all listed ids with the same
		// stem (the id without a trailing -only / -or-later / '+'), and for every family the listed non-members that share a
		// member's text as a prefix or sort between the members — every ordered pair, with and without '+'
		all := append(append([]string{}, tblActive...), tblDeprecated...)
		stem := func(x string) string {
			x = strings.TrimSuffix(x, "+")
			x = strings.TrimSuffix(x, "-only")
			return strings.TrimSuffix(x, "-or-later")
		}
		groups := map[string][]string{}
		for _, x := range all {
			groups[stem(x)] = append(groups[stem(x)], x)
		}
		var stems []string
		for st, g := range groups {
			if len(g) >= 2 {
				stems = append(stems, st)
			}
		}
		sort.Strings(stems)
		pairAll := func(xs []string, label string) {
			for _, a := range xs {
				for _, b := range xs {
					for _, pa := range []bool{false, true} {
						for _, pb := range []bool{false, true} {
							ta, tb := mkTerm(a, "", pa, "", -1), mkTerm(b, "", pb, "", -1)
							if !implValid(ta.text) || !implValid(tb.text) {
								continue
							}
							if fl := c02Pair(ta, tb, true); fl != nil {
								fail(*fl)
							}
							count(label)
						}
					}
				}
			}
		}
		for _, st := range stems {
			if _, inTable := tablePos(groups[st][0]); inTable && !thorough() && rng.Intn(4) != 0 {
				continue // in-table stems are covered by the family blocks above
			}
			pairAll(groups[st], "same_stem_pairs")
			if len(corrQ) > 50000 {
				flushCorr()
			}
		}
		for _, f := range tblRanges {
			member := map[string]bool{}
			var members []string
			for _, g := range f {
				for _, x := range g {
					member[x] = true
					members = append(members, x)
				}
			}
			sort.Strings(members)
			var look []string
			for _, x := range all {
				if member[x] {
					continue
				}
				near := x > members[0] && x < members[len(members)-1]
				for _, m := range members {
					if strings.HasPrefix(x, m) || strings.HasPrefix(x, stem(m)) {
						near = true
					}
				}
				if near {
					look = append(look, x)
				}
			}
			if len(look) == 0 {
				continue
			}
			if len(look) > scale(6, 40) {
				rng.Shuffle(len(look), func(i, j int) { look[i], look[j] = look[j], look[i] })
				look = look[:scale(6, 40)]
			}
			ms := members
			if len(ms) > scale(5, 40) {
				ms = append([]string{}, ms...)
				rng.Shuffle(len(ms), func(i, j int) { ms[i], ms[j] = ms[j], ms[i] })
				ms = ms[:scale(5, 40)]
			}
			pairAll(append(append([]string{}, look...), ms...), "family_lookalike_pairs")
			if len(corrQ) > 50000 {
				flushCorr()
			}
		}
		sample(map[string]interface{}{"a": terms[0].text, "b": terms[1].text})
		sample(map[string]interface{}{"a": terms[len(terms)/2].text + " WITH " + e1, "b": terms[len(terms)/2+1].text + " WITH " + e2})
		res.Exhaustive = thorough()
	}
	replays["C02"] = func(k *kase) *failure {
		m := implMatch(k.Expr, k.Allowed[0])
		r := implMatch(k.Allowed[0], k.Expr)
		if m != r {
			return &failure{Stream: "oracle", What: "matching is not symmetric", Case: k, Impl: fmt.Sprint(r), Expected: fmt.Sprint(m)}
		}
		return &failure{Stream: "oracle", What: "recorded mismatch with the documented rule (re-run the check to re-evaluate the rule)", Case: k, Impl: fmt.Sprint(m)}
	}
}

// ---------------------------------------------------------------- C08

// familyIntruders: listed ids that are no members of id's version family but carry a member's text as a prefix or sort
// between its members (they split the family into several runs of a sorted list)
var intrudersCache = map[int][]string{}

func familyIntruders(id string) []string {
	p, ok := tablePos(id)
	if !ok {
		return nil
	}
	if v, ok := intrudersCache[p.fam]; ok {
		return v
	}
	member := map[string]bool{}
	var members []string
	for _, g := range tblRanges[p.fam] {
		for _, x := range g {
			member[x] = true
			members = append(members, x)
		}
	}
	sort.Strings(members)
	stem := func(x string) string {
		x = strings.TrimSuffix(x, "+")
		x = strings.TrimSuffix(x, "-only")
		return strings.TrimSuffix(x, "-or-later")
	}
	var out []string
	for _, x := range append(append([]string{}, tblActive...), tblDeprecated...) {
		if member[x] || member[stem(x)] || strings.HasSuffix(x, "+") {
			continue
		}
		near := x > members[0] && x < members[len(members)-1]
		for _, m := range members {
			if strings.HasPrefix(x, stem(m)) {
				near = true
			}
		}
		if near {
			out = append(out, x)
		}
	}
	intrudersCache[p.fam] = out
	return out
}

// contexts for a substitution: the term alone or inside a tree, on the expression side or on the list side
func c08Contexts(x, y *term, partner *term) *failure {
	// validity must agree
	vx, vy := implValid(x.text), implValid(y.text)
	if !vx || !vy {
		count("skipped_not_both_valid")
		return nil
	}
	type ctx struct {
		name    string
		exprOf  func(s string) string
		listOf  func(s string) []string
	}
	p := partner.text
	ctxs := []ctx{
		{"expr-alone", func(s string) string { return s }, func(string) []string { return []string{p} }},
		{"list-alone", func(string) string { return p }, func(s string) []string { return []string{s} }},
		{"expr-in-and", func(s string) string { return "MIT AND (" + s + " OR ISC)" }, func(string) []string { return []string{p, "MIT"} }},
		{"expr-in-or", func(s string) string { return "(ISC AND Zlib) OR " + s }, func(string) []string { return []string{p} }},
		{"list-among", func(string) string { return p + " AND MIT" }, func(s string) []string { return []string{"MIT", s, "ISC"} }},
		// the list holds ONE of the spellings literally, beside an entry that makes the whole list invalid: both spellings of
		// the expression must get the error (a literal-match shortcut answers before the list is validated)
		{"literal-beside-invalid", func(s string) string { return s }, func(string) []string { return []string{p, x.text, "NOT-A-LICENSE"} }},
		{"literal-beside-compound", func(s string) string { return s }, func(string) []string { return []string{x.text, "MIT AND ISC"} }},
	}
	if intr := familyIntruders(x.base); len(intr) > 0 && x.exc == "" {
		// the spelling as a list entry among ids that sort between the members of its family without belonging to it, and
		// another member behind them (a family cut out of the sorted list as ONE run loses the members of the other run)
		i1, i2 := pick(intr), pick(intr)
		fam := sameFamilyIDs(x.base)
		other := x.base
		if len(fam) > 0 {
			other = strings.TrimSuffix(pick(fam), "+")
		}
		ctxs = append(ctxs,
			ctx{"list-among-intruders", func(string) string { return p }, func(s string) []string { return []string{s, i1, other, i2} }},
			ctx{"expr-against-intruders", func(s string) string { return s }, func(string) []string { return []string{p, i1, other, i2} }})
	}
	if x.exc != "" {
		// the same id with TWO different exceptions in the list, the expression carrying one of them in either spelling
		bare := *x
		bare.exc = ""
		bare.build()
		for _, e0 := range []string{tblExceptions[0], tblExceptions[len(tblExceptions)-1]} {
			if e0 == x.exc {
				continue
			}
			other := bare.text + " WITH " + e0
			ctxs = append(ctxs, ctx{"two-exceptions-in-list", func(s string) string { return s }, func(string) []string { return []string{other, x.text} }},
				ctx{"two-exceptions-in-list-other-spelling", func(s string) string { return s }, func(string) []string { return []string{y.text, other} }})
		}
	}
	if (x.plus || x.suffix == "-or-later") && (y.plus || y.suffix == "-or-later") {
		// the spelling followed by a RUN of two or more '+' (one more '+' is a different reading, DESIGN §6 C08): both texts are
		// invalid whichever spelling is used — the rewrite of `-or-later` drops exactly one '+', never the run
		head := func(t *term) (string, string) {
			if i := strings.Index(t.text, " WITH "); i >= 0 {
				return t.text[:i], t.text[i:]
			}
			return t.text, ""
		}
		hx1, tx := head(x)
		hy1, ty := head(y)
		for _, run := range []string{"++", "+++"} {
			for _, wrap := range []string{"%s", "MIT AND (%s OR ISC)"} {
				ex, ey := fmt.Sprintf(wrap, hx1+run+tx), fmt.Sprintf(wrap, hy1+run+ty)
				count("ctx_followed_by_plus_run")
				res.Evaluations++
				if implValid(ex) != implValid(ey) || (implSat("MIT", []string{"MIT", hx1 + run + tx}).err == nil) != (implSat("MIT", []string{"MIT", hy1 + run + ty}).err == nil) {
					return &failure{Stream: "oracle", What: "substituting an equivalent spelling in front of a run of '+' changed validity: " + show(ey), Case: &kase{Expr: ex, ExprHex: hx(ex), Allowed: []string{"MIT"}, Extra: map[string]string{"other_expr": ey}}, Impl: fmt.Sprint(implValid(ey)), Expected: fmt.Sprint(implValid(ex))}
				}
			}
		}
	}
	for _, c := range ctxs {
		ex, ey := c.exprOf(x.text), c.exprOf(y.text)
		lx, ly := c.listOf(x.text), c.listOf(y.text)
		if implValid(ex) != implValid(ey) {
			return &failure{Stream: "oracle", What: "substituting an equivalent spelling changed validity (" + c.name + "): " + show(ey), Case: &kase{Expr: ex, ExprHex: hx(ex), Allowed: lx, Extra: map[string]string{"other_expr": ey}}, Impl: fmt.Sprint(implValid(ey)), Expected: fmt.Sprint(implValid(ex))}
		}
		rx, ry := implSat(ex, lx), implSat(ey, ly)
		res.Evaluations++
		count("ctx_" + c.name)
		correspondNorm("S "+hx(ey)+" "+hxl(ly), ry.String(), "Satisfies with the substituted spelling: model vs implementation", &kase{Expr: ey, ExprHex: hx(ey), Allowed: ly}, okErr)
		if rx.String() != ry.String() {
			return &failure{Stream: "oracle", What: fmt.Sprintf("substituting %s for %s changed Satisfies (%s): second call Satisfies(%s, %s)", show(y.text), show(x.text), c.name, show(ey), joinShow(ly)),
				Case: &kase{Expr: ex, ExprHex: hx(ex), Allowed: lx, Extra: map[string]string{"other_expr": ey, "other_list": hxl(ly)}}, Impl: ry.String(), Expected: rx.String()}
		}
		if rx.err == nil && rx.panicv == nil {
			nontrivial(c.name + "|" + x.text + "|" + p)
		}
	}
	return nil
}

// altSpelling: the other member of the term's spelling pair, or nil
func altSpelling(t *term) *term {
	if t.isRef || t.caseMod >= 0 {
		return nil
	}
	var a *term
	switch {
	case t.plus && t.suffix == "":
		a = mkTerm(t.base, "-or-later", false, t.exc, -1)
	case !t.plus && t.suffix == "-or-later":
		a = mkTerm(t.base, "", true, t.exc, -1)
	case !t.plus && t.suffix == "":
		a = mkTerm(t.base, "-only", false, t.exc, -1)
	case !t.plus && t.suffix == "-only":
		a = mkTerm(t.base, "", false, t.exc, -1)
	default:
		return nil
	}
	if !implValid(a.text) || !implValid(t.text) {
		return nil
	}
	return a
}

func c08TreeSubstitution() *failure {
	c := genTreeCase(4, 5)
	// lists that hold a term together with its exception-toggled sibling
	if rng.Intn(2) == 0 {
		t := c.terms[rng.Intn(len(c.terms))]
		if !t.isRef {
			sib := *t
			if t.exc == "" {
				sib.exc = pick(tblExceptions)
			} else {
				sib.exc = ""
			}
			sib.build()
			if implValid(sib.text) {
				c.allowed = append(c.allowed, t.text, sib.text)
				rng.Shuffle(len(c.allowed), func(a, b int) { c.allowed[a], c.allowed[b] = c.allowed[b], c.allowed[a] })
			}
		}
	}
	idx := rng.Intn(len(c.terms))
	alt := altSpelling(c.terms[idx])
	if alt == nil {
		count("tree_no_alternative_spelling")
		return nil
	}
	orig := c.terms[idx].text
	base := implSat(c.text, c.allowed)
	// expression side: the same rendering with the alternative spelling at that term
	tt := texts(c.terms)
	tt[idx] = alt.text
	e2 := strings.Replace(c.text, orig, alt.text, -1)
	if strings.Count(c.text, orig) != countLeaves(c.t, idx) {
		e2 = c.t.render(tt, "", false, 2, false) // the text is ambiguous as a substring: re-render instead
		base = implSat(c.t.render(texts(c.terms), "", false, 2, false), c.allowed)
	}
	res.Evaluations++
	count("tree_expr_side")
	r2 := implSat(e2, c.allowed)
	if base.String() != r2.String() {
		return &failure{Stream: "oracle", What: fmt.Sprintf("re-spelling %s as %s inside the expression changed Satisfies", show(orig), show(alt.text)),
			Case: &kase{Expr: c.text, ExprHex: hx(c.text), Allowed: c.allowed, Extra: map[string]string{"other_expr": e2}}, Impl: r2.String(), Expected: base.String()}
	}
	// list side: every entry equal to that term's text re-spelled
	l2 := append([]string{}, c.allowed...)
	n := 0
	for i, a := range l2 {
		if a == orig {
			l2[i] = alt.text
			n++
		}
	}
	if n == 0 {
		l2 = append(l2, alt.text)
		c.allowed = append(c.allowed, orig)
		base = implSat(c.text, c.allowed)
	}
	res.Evaluations++
	count("tree_list_side")
	r3 := implSat(c.text, l2)
	if r3.err == nil && r3.panicv == nil {
		nontrivial("tree|" + orig + "|" + alt.text)
	}
	base2 := implSat(c.text, c.allowed)
	if base2.String() != r3.String() {
		return &failure{Stream: "oracle", What: fmt.Sprintf("re-spelling %s as %s inside the allowed list changed Satisfies", show(orig), show(alt.text)),
			Case: &kase{Expr: c.text, ExprHex: hx(c.text), Allowed: c.allowed, Extra: map[string]string{"other_expr": c.text, "other_list": hxl(l2)}}, Impl: r3.String(), Expected: base2.String()}
	}
	_ = base
	return nil
}

func countLeaves(t *tree, idx int) int {
	n := 0
	for _, l := range t.leaves(nil) {
		if l == idx {
			n++
		}
	}
	return n
}

func sameFamilyIDs(id string) []string {
	if p, ok := tablePos(id); ok {
		var out []string
		for _, g := range tblRanges[p.fam] {
			out = append(out, g...)
		}
		return out
	}
	return nil
}

func init() {
	props["C08"] = func() {
		res.Rule = "every id of the active and deprecated lists (quick: all ids of the range table + a random third of the rest) x the pairs (X+, X-or-later) and (X, X-only) x {with, without exception} x 5 contexts (alone / inside a tree, expression side / list side) against partners: the id itself, ids of the same family with and without '+', an unrelated id. Also: for every ACTIVE id both spellings of each pair must be valid. Non-trivial & distinct = (context, spelling, partner) triples on which Satisfies returned a verdict"
		var ids []string
		for _, id := range append(append([]string{}, tblActive...), tblDeprecated...) {
			if strings.HasSuffix(id, "+") {
				continue
			}
			if _, ok := tablePos(id); ok || thorough() || rng.Intn(3) == 0 || isSpecialID[id] {
				ids = append(ids, id)
			}
		}
		exc := pick(tblExceptions)
		// the spellings as LIST ENTRIES right after a call that saw the same entry with its suffix in another letter case (which
		// is invalid: suffixes are case-sensitive) — a memo of parsed entries keyed by the folded text confuses the two
		for i := 0; i < scale(40, 300); i++ {
			id := strings.TrimSuffix(pick(tblActive), "+")
			if strings.HasSuffix(id, "-only") || strings.HasSuffix(id, "-or-later") {
				continue
			}
			implVal([]string{id + "-OR-LATER"})
			implVal([]string{strings.ToUpper(id) + "-Only", id + "-ONLY"})
			implSat("MIT", []string{id + "-Or-Later"})
			for _, pr := range [][2]string{{id + "-or-later", id + "+"}, {id + "-only", id}} {
				if !implValid(pr[1]) {
					continue
				}
				res.Evaluations++
				count("after_other_case_suffix")
				if v := implVal([]string{pr[0]}); !v.ok {
					fail(failure{Stream: "oracle", What: "a documented spelling is rejected as a list entry after the same text with the suffix in another letter case was seen", Case: &kase{Expr: pr[0], ExprHex: hx(pr[0]), Extra: map[string]string{"history": id + "-OR-LATER / -Only validated first"}}, Impl: "invalid", Expected: "valid"})
					continue
				}
				r1, r2 := implSat(id, []string{pr[0]}), implSat(id, []string{pr[1]})
				if r1.String() != r2.String() {
					fail(failure{Stream: "oracle", What: "the allowed entries " + show(pr[0]) + " and " + show(pr[1]) + " give different results (after the same text with the suffix in another letter case was seen)", Case: &kase{Expr: id, ExprHex: hx(id), Allowed: []string{pr[0]}, Extra: map[string]string{"other_list": hxl([]string{pr[1]}), "other_expr": id}}, Impl: r1.String(), Expected: r2.String()})
				}
			}
		}
		// bases of listed `X-or-later` / `X-only` ids that are not ids themselves: `X` alone is invalid, `X+` is valid and
		// must stay so whatever was asked before (and equal `X-or-later`)
		for _, id := range tblActive {
			for _, suf := range []string{"-or-later", "-only"} {
				if b := strings.TrimSuffix(id, suf); b != id && !activeSet[b] && !deprecatedSet[b] {
					res.Evaluations++
					count("unlisted_bases")
					v0 := implVal([]string{b})
					p1, p2 := implVal([]string{b + "+"}), implVal([]string{b + "-or-later"})
					if p1.ok != p2.ok && activeSet[b+"-or-later"] {
						fail(failure{Stream: "oracle", What: "after " + show(b) + " was looked at, " + show(b+"+") + " and " + show(b+"-or-later") + " are no longer equally valid", Case: &kase{Expr: b + "+", ExprHex: hx(b + "+"), Extra: map[string]string{"other_expr": b + "-or-later", "first": b, "first_valid": fmt.Sprint(v0.ok)}}, Impl: fmt.Sprint(p1.ok), Expected: fmt.Sprint(p2.ok)})
					}
					if activeSet[b+"-or-later"] {
						r1, r2 := implSat(b+"+", []string{id}), implSat(b+"-or-later", []string{id})
						if r1.String() != r2.String() {
							fail(failure{Stream: "oracle", What: show(b+"+") + " and " + show(b+"-or-later") + " give different results", Case: &kase{Expr: b + "+", ExprHex: hx(b + "+"), Allowed: []string{id}, Extra: map[string]string{"other_expr": b + "-or-later"}}, Impl: r1.String(), Expected: r2.String()})
						}
						// the same in every letter case and position, on both sides
						for cm := 0; cm < 3 && suf == "-or-later"; cm++ {
							bc := caseMut(b, cm)
							s1, s2 := bc+"+", bc+"-or-later"
							for _, ctx := range []string{"%s", "(%s)", "MIT OR %s", "%s WITH " + exc, "ISC AND (%s OR MIT)"} {
								e1, e2 := fmt.Sprintf(ctx, s1), fmt.Sprintf(ctx, s2)
								res.Evaluations++
								count("unlisted_base_contexts")
								if v1, v2 := implValid(e1), implValid(e2); v1 != v2 {
									fail(failure{Stream: "oracle", What: "the spellings " + show(s1) + " and " + show(s2) + " are not equally valid in the context " + ctx, Case: &kase{Expr: e1, ExprHex: hx(e1), Extra: map[string]string{"other_expr": e2}}, Impl: fmt.Sprint(v1), Expected: fmt.Sprint(v2)})
									continue
								}
								for _, l := range [][]string{{id}, {b + "-or-later"}, {"MIT"}, {b + "-only", "ISC"}} {
									if q1, q2 := implSat(e1, l), implSat(e2, l); q1.String() != q2.String() {
										fail(failure{Stream: "oracle", What: "the spellings " + show(s1) + " and " + show(s2) + " give different results in the context " + ctx, Case: &kase{Expr: e1, ExprHex: hx(e1), Allowed: l, Extra: map[string]string{"other_expr": e2}}, Impl: q1.String(), Expected: q2.String()})
									}
								}
							}
							for _, e := range []string{id, b + "-or-later", b + "-only+", "MIT"} {
								if q1, q2 := implSat(e, []string{s1}), implSat(e, []string{s2}); q1.String() != q2.String() {
									fail(failure{Stream: "oracle", What: "the allowed entries " + show(s1) + " and " + show(s2) + " give different results", Case: &kase{Expr: e, ExprHex: hx(e), Allowed: []string{s1}, Extra: map[string]string{"other_list": hxl([]string{s2})}}, Impl: q1.String(), Expected: q2.String()})
								}
							}
						}
					}
				}
			}
		}
		// spelling matrix: the same version twice in one expression (with / without an exception, with / without '+') against
		// lists that satisfy the two occurrences by two different entries; every mix of the interchangeable spellings of the
		// four positions must give one and the same answer
		for _, id := range tblActive {
			b := strings.TrimSuffix(id, "-only")
			if b == id || !implValid(b) {
				continue
			}
			sp := []string{b, id} // X, X-only
			spP := []string{b + "+", b + "-or-later"}
			if !implValid(spP[0]) || !implValid(spP[1]) {
				spP = nil
			}
			type shape struct{ e, l func(s [4]string) (string, []string) }
			mk := func(s [4]string, withExc string, op string, plusList bool) (string, []string) {
				e := s[0] + " WITH " + withExc + op + s[1]
				l := []string{s[2], s[3] + " WITH " + withExc}
				if plusList {
					l = []string{s[2], s[3] + " WITH " + withExc, "MIT"}
				}
				return e, l
			}
			for _, op := range []string{" AND ", " OR "} {
				for _, set := range [][]string{sp, spP} {
					if set == nil {
						continue
					}
					var ref string
					first := true
					for m := 0; m < 16; m++ {
						s4 := [4]string{set[m&1], set[(m>>1)&1], set[(m>>2)&1], set[(m>>3)&1]}
						e, l := mk(s4, exc, op, m%3 == 0)
						r := implSat(e, l)
						res.Evaluations++
						count("spelling_matrix")
						if first {
							ref, first = r.String(), false
							continue
						}
						if r.String() != ref {
							fail(failure{Stream: "oracle", What: "a mix of interchangeable spellings of one version (twice in the expression, twice in the list) changes Satisfies", Case: &kase{Expr: e, ExprHex: hx(e), Allowed: l, Extra: map[string]string{"other_expr": set[0] + " WITH " + exc + op + set[0], "other_list": hxl([]string{set[0], set[0] + " WITH " + exc})}}, Impl: r.String(), Expected: ref})
							break
						}
					}
				}
			}
		}
		for _, id := range ids {
			isActive := activeSet[id]
			pairs := [][2]*term{
				{mkTerm(id, "", true, "", -1), mkTerm(id, "-or-later", false, "", -1)},
				{mkTerm(id, "", false, "", -1), mkTerm(id, "-only", false, "", -1)},
			}
			if cm := rng.Intn(3); rng.Intn(2) == 0 {
				// the same pairs with the id typed in another letter case
				pairs = append(pairs, [2]*term{mkTerm(id, "", true, "", cm), mkTerm(id, "-or-later", false, "", cm)},
					[2]*term{mkTerm(id, "", false, "", cm), mkTerm(id, "-only", false, "", cm)})
			}
			// consequences of the two pairs taken together: X-only+ = X+ = X-or-later = X-or-later+
			derived := [][2]*term{
				{mkTerm(id, "-only", true, "", -1), mkTerm(id, "-or-later", false, "", -1)},
				{mkTerm(id, "-only", true, "", -1), mkTerm(id, "", true, "", -1)},
				{mkTerm(id, "-or-later", true, "", -1), mkTerm(id, "-only", true, "", -1)},
			}
			if isActive {
				for _, pr := range pairs {
					for _, t := range pr {
						res.Evaluations++
						if !implValid(t.text) {
							fail(failure{Stream: "oracle", What: "id is on the active list but the spelling " + show(t.text) + " is rejected", Case: &kase{Expr: t.text, ExprHex: hx(t.text)}, Impl: "invalid", Expected: "valid"})
						}
						correspondNorm("P "+hx(t.text), map[bool]string{true: "ok", false: "err"}[implValid(t.text)], "validity of a spelling of an active id: model vs implementation", &kase{Expr: t.text, ExprHex: hx(t.text)}, okErr)
					}
				}
			}
			partners := []*term{mkTerm(id, "", false, "", -1), mkTerm("MIT", "", false, "", -1)}
			fam := sameFamilyIDs(id)
			if len(fam) > 0 {
				if thorough() {
					for _, f := range fam {
						partners = append(partners, mkTerm(f, "", false, "", -1), mkTerm(f, "", true, "", -1))
					}
				} else {
					for i := 0; i < 3; i++ {
						partners = append(partners, mkTerm(pick(fam), "", rng.Intn(2) == 0, "", -1))
					}
				}
				// the partner itself in each of its '+'-spellings (a range lookup that knows only some of them)
				f := pick(fam)
				for _, sp := range []*term{mkTerm(f, "-or-later", false, "", -1), mkTerm(f, "-only", true, "", -1), mkTerm(f, "-only", false, "", -1), mkTerm(f, "-or-later", true, "", -1)} {
					if !strings.HasSuffix(f, "-only") && !strings.HasSuffix(f, "-or-later") && implValid(sp.text) {
						partners = append(partners, sp)
					}
				}
			}
			for _, pr := range derived {
				if implValid(pr[0].text) && implValid(pr[1].text) && !strings.HasSuffix(id, "-only") && !strings.HasSuffix(id, "-or-later") {
					pairs = append(pairs, pr)
				}
			}
			for _, pr := range pairs {
				for _, partner := range partners {
					if !implValid(partner.text) {
						continue
					}
					for _, e := range []string{"", exc} {
						x, y, p := pr[0], pr[1], partner
						if e != "" {
							if !thorough() && rng.Intn(3) != 0 {
								continue
							}
							x, y = withExc(x, e), withExc(y, e)
							if rng.Intn(2) == 0 {
								p = withExc(p, e)
							}
						}
						if f := c08Contexts(x, y, p); f != nil {
							fail(*f)
						}
					}
				}
			}
			if len(corrQ) > 50000 {
				flushCorr()
			}
		}
		// the pairs inside an expression with MANY alternatives (a second evaluation route above a limit must know the same
		// spellings): on the expression side and on the list side
		{
			var gnu []string
			for _, id := range tblActive {
				if b := strings.TrimSuffix(id, "-only"); b != id && implValid(b) && implValid(b+"+") {
					gnu = append(gnu, b)
				}
			}
			for k := 0; k < scale(3, 12) && len(gnu) > 0 && !timeUp("c08 wide"); k++ {
				b := gnu[rng.Intn(len(gnu))]
				ex := ""
				if k%2 == 1 {
					ex = " WITH " + exc
				}
				for _, n := range wideSizes() {
					if n > 5000 && k > 0 {
						continue
					}
					for _, pr := range [][2]string{{b, b + "-only"}, {b + "+", b + "-or-later"}} {
						e1, w := wideAnd(pr[0]+ex, n)
						e2, _ := wideAnd(pr[1]+ex, n)
						for li, l := range [][]string{append([]string{pr[0] + ex}, w...), append([]string{pr[1] + ex}, w...), append(append([]string{}, w...), "MIT", pr[1]+ex), w} {
							res.Evaluations++
							count("wide_context")
							r1, r2 := implSat(e1, l), implSat(e2, l)
							if r1.String() != r2.String() {
								fail(failure{Stream: "oracle", What: "the spellings " + show(pr[0]) + " and " + show(pr[1]) + " give different results inside an expression with " + itoa(n) + " alternatives", Case: &kase{Expr: e1, ExprHex: hx(e1), Allowed: l, Extra: map[string]string{"other_expr": e2}}, Impl: r1.String(), Expected: r2.String()})
							}
							if li < 2 {
								small1 := implSat(pr[0]+ex, l[:1])
								if r1.String() != small1.String() {
									fail(failure{Stream: "oracle", What: "Satisfies(" + show(pr[0]+ex) + ", [" + show(l[0]) + "]) changes when satisfied groups making " + itoa(n) + " alternatives are ANDed to it", Case: &kase{Expr: e1, ExprHex: hx(e1), Allowed: l, Extra: map[string]string{"other_expr": e2}}, Impl: r1.String(), Expected: small1.String()})
								}
							}
						}
					}
				}
			}
		}
		sample(map[string]interface{}{"pair": []string{"GPL-2.0+", "GPL-2.0-or-later"}, "contexts": []string{"expr-alone", "list-alone", "expr-in-and", "expr-in-or", "list-among"}})
		// "at any position of the expression or of the allowed list": generated trees and lists (with sibling terms that
		// differ only by exception / '+' / version), one term re-spelled, everything else untouched
		for i := 0; i < scale(4000, 60000) && !timeUp("props_term.go:523"); i++ {
			if f := c08TreeSubstitution(); f != nil {
				fail(*f)
			}
			if len(corrQ) > 50000 {
				flushCorr()
			}
		}
	}
	replays["C08"] = func(k *kase) *failure {
		if k.Extra == nil || k.Extra["other_expr"] == "" {
			if !implValid(k.Expr) {
				return &failure{Stream: "oracle", What: "spelling rejected", Case: k, Impl: "invalid", Expected: "valid"}
			}
			return nil
		}
		ly := k.Allowed
		if k.Extra["other_list"] != "" {
			ly = unhxl(k.Extra["other_list"])
		}
		rx, ry := implSat(k.Expr, k.Allowed), implSat(k.Extra["other_expr"], ly)
		if rx.String() != ry.String() || implValid(k.Expr) != implValid(k.Extra["other_expr"]) {
			return &failure{Stream: "oracle", What: "substitution changed the result", Case: k, Impl: ry.String(), Expected: rx.String()}
		}
		return nil
	}
}

// ---------------------------------------------------------------- C09

func init() {
	props["C09"] = func() {
		res.Rule = "every listed license and exception id x {lower, UPPER, 1 (thorough: 8) random mixed} x positions {expression alone, inside a tree, allowed list, after WITH}; validity and Satisfies must equal those of the list's own spelling and ExtractLicenses must report the list's spelling. Non-trivial & distinct = (id, variant) pairs whose variant differs from the list spelling"
		variants := func(s string) []string {
			v := []string{strings.ToLower(s), strings.ToUpper(s)}
			for i := 0; i < scale(1, 8); i++ {
				v = append(v, caseMut(s, 2))
			}
			return v
		}
		check := func(id, v string, isExc bool) *failure {
			res.Evaluations++
			mk := func(s string) (string, []string) {
				if isExc {
					return "GPL-2.0-only WITH " + s, []string{"GPL-2.0-only WITH " + id}
				}
				return s, []string{id}
			}
			e0, l0 := mk(id)
			e1, _ := mk(v)
			if !implValid(e0) {
				count("skipped_list_spelling_invalid")
				return nil
			}
			if v != id {
				nontrivial(id + "|" + v)
			}
			k := &kase{Expr: e1, ExprHex: hx(e1), Allowed: l0, Extra: map[string]string{"list_spelling": e0}}
			if !implValid(e1) {
				return &failure{Stream: "oracle", What: "case variant of a listed id is rejected", Case: k, Impl: "invalid", Expected: "valid"}
			}
			correspond("P "+hx(e1), "ok", "validity of a case variant: model vs implementation", k)
			// expression side, list side, inside a tree
			type call struct {
				e string
				a []string
			}
			pairs := [][2]call{
				{{e0, l0}, {e1, l0}},
				{{e0, l0}, {e0, []string{e1}}},
				{{"MIT AND (" + e0 + " OR ISC)", []string{"MIT", e0}}, {"MIT AND (" + e1 + " OR ISC)", []string{"mit", e1}}},
				{{"MIT OR " + e0, []string{"ISC", e0}}, {"MIT OR " + e1, []string{"ISC", e0}}},
			}
			if !isExc {
				// partners of the same version family: the verdict then rests on the range logic ('+', -or-later), not on
				// textual equality of the two sides
				fam := sameFamilyIDs(strings.TrimSuffix(id, "-or-later"))
				for j := 0; j < 3 && len(fam) > 0; j++ {
					q := pick(fam)
					if strings.HasSuffix(q, "+") {
						continue
					}
					for _, qq := range []string{q, q + "+"} {
						if !implValid(qq) {
							continue
						}
						pairs = append(pairs, [2]call{{qq, []string{e0}}, {qq, []string{e1}}}, [2]call{{e0, []string{qq}}, {e1, []string{qq}}},
							[2]call{{e0 + "+", []string{qq}}, {e1 + "+", []string{qq}}})
					}
				}
			}
			if !isExc {
				// the same id twice in one expression, once in the list's spelling and once re-cased (per-expression memos),
				// in the spellings that have side effects in the scanner (-or-later, '+')
				fam := sameFamilyIDs(strings.TrimSuffix(id, "-or-later"))
				for _, suf := range []string{"", "-or-later", "+"} {
					a0, a1 := id+suf, v+suf
					if !implValid(a0) || !implValid(a1) {
						continue
					}
					lists := [][]string{{"ISC", a0}, {"MIT", "ISC"}}
					for j := 0; j < 2 && len(fam) > 0; j++ {
						if q := pick(fam); !strings.HasSuffix(q, "+") && implValid(q) {
							lists = append(lists, []string{q, "ISC"}, []string{q, "MIT"})
						}
					}
					for _, l := range lists {
						pairs = append(pairs,
							[2]call{{"(" + a0 + " AND MIT) OR (" + a0 + " AND ISC)", l}, {"(" + a0 + " AND MIT) OR (" + a1 + " AND ISC)", l}},
							[2]call{{"(" + a0 + " AND MIT) OR (" + a0 + " AND ISC)", l}, {"(" + a1 + " AND MIT) OR (" + a0 + " AND ISC)", l}},
							[2]call{{a0 + " AND " + a0, l}, {a1 + " AND " + a0, l}})
					}
				}
			}
			// the list holds the LIST spelling literally beside an entry that makes the list invalid: the typed case of the
			// expression (or of the entry) must not decide whether the error is reported
			pairs = append(pairs,
				[2]call{{e0, append(append([]string{}, l0...), "NOT-A-LICENSE")}, {e1, append(append([]string{}, l0...), "NOT-A-LICENSE")}},
				[2]call{{e0, append([]string{"Apache-3.0"}, l0...)}, {e0, append([]string{"Apache-3.0"}, e1)}},
				[2]call{{e0, append(append([]string{}, l0...), "MIT AND ISC")}, {e1, append(append([]string{}, l0...), "MIT AND ISC")}})
			for _, p := range pairs {
				r0, r1 := implSat(p[0].e, p[0].a), implSat(p[1].e, p[1].a)
				count("sat_compared")
				correspondNorm("S "+hx(p[1].e)+" "+hxl(p[1].a), r1.String(), "Satisfies on a case variant: model vs implementation", &kase{Expr: p[1].e, ExprHex: hx(p[1].e), Allowed: p[1].a}, okErr)
				if r0.String() != r1.String() {
					return &failure{Stream: "oracle", What: fmt.Sprintf("letter case changed Satisfies: Satisfies(%s,%s)", show(p[1].e), joinShow(p[1].a)), Case: &kase{Expr: p[1].e, ExprHex: hx(p[1].e), Allowed: p[1].a, Extra: map[string]string{"list_spelling_expr": p[0].e, "list_spelling_allowed": hxl(p[0].a)}}, Impl: r1.String(), Expected: r0.String()}
				}
			}
			x0, x1 := implExt(e0), implExt(e1)
			correspond("E "+hx(e1), x1.String(), "ExtractLicenses on a case variant: model vs implementation", k)
			if x0.String() != x1.String() {
				return &failure{Stream: "oracle", What: "ExtractLicenses depends on letter case", Case: k, Impl: x1.String(), Expected: x0.String()}
			}
			if x1.err == nil && x1.panicv == nil && len(x1.list) == 1 {
				got := x1.list[0]
				okc := false
				if isExc {
					okc = strings.HasSuffix(got, " WITH "+id)
				} else {
					// the canonical output is the list's spelling, or the listed -or-later / base form the term normalises to
					okc = got == id || activeSet[strings.TrimSuffix(got, "+")] || deprecatedSet[strings.TrimSuffix(got, "+")] || deprecatedSet[got]
					okc = okc && strings.EqualFold(strings.TrimSuffix(got, "+"), strings.TrimSuffix(v, "+")) || got == id
				}
				if !okc {
					return &failure{Stream: "oracle", What: "ExtractLicenses does not report the list's own casing", Case: k, Impl: show(got), Expected: show(id)}
				}
			}
			return nil
		}
		for _, id := range append(append([]string{}, tblActive...), tblDeprecated...) {
			if strings.HasSuffix(id, "+") {
				continue // reachable only as `X` followed by the '+' operator
			}
			for _, v := range variants(id) {
				if f := check(id, v, false); f != nil {
					fail(*f)
				}
			}
		}
		for _, id := range tblExceptions {
			for _, v := range variants(id) {
				if f := check(id, v, true); f != nil {
					fail(*f)
				}
			}
		}
		// whatever a suffix makes of a listed id (valid or not), it makes the same of every case variant of that id —
		// validity and, where valid, the '+' reach
		for _, id := range append(append([]string{}, tblActive...), tblDeprecated...) {
			if strings.HasSuffix(id, "+") {
				continue
			}
			vs := []string{strings.ToLower(id), strings.ToUpper(id), caseMut(id, 2)}
			fam := sameFamilyIDs(id)
			for _, suf := range []string{"-or-later", "-only", "+", "-or-later+", "-only+", "++"} {
				e0 := id + suf
				v0 := implValid(e0)
				for _, v := range vs {
					e1 := v + suf
					res.Evaluations++
					count("suffix_case_validity")
					k := &kase{Expr: e1, ExprHex: hx(e1), Extra: map[string]string{"list_spelling": e0}}
					if v1 := implValid(e1); v1 != v0 {
						fail(failure{Stream: "oracle", What: "a suffixed listed id and its case variant are not equally valid: " + show(e0) + " is " + map[bool]string{true: "valid", false: "invalid"}[v0], Case: k, Impl: fmt.Sprint(v1), Expected: fmt.Sprint(v0)})
						break
					}
					if v0 && len(fam) > 0 {
						q := pick(fam)
						if r0, r1 := implSat(e0, []string{q}), implSat(e1, []string{q}); r0.String() != r1.String() {
							fail(failure{Stream: "oracle", What: "letter case changed Satisfies for a suffixed id", Case: &kase{Expr: e1, ExprHex: hx(e1), Allowed: []string{q}, Extra: map[string]string{"list_spelling_expr": e0, "list_spelling_allowed": hxl([]string{q})}}, Impl: r1.String(), Expected: r0.String()})
							break
						}
					}
				}
			}
		}
		// chains of SHORT ids with a rewritten -or-later term among them, every id re-cased at random: anything the scanner
		// remembers about the text (positions, a folded copy) goes stale at the rewrite; results must equal the canonical text's
		var short []string
		for _, id := range tblActive {
			if len(id) <= 5 && !strings.HasSuffix(id, "+") {
				short = append(short, id)
			}
		}
		rewr := []string{"Apache-2.0-or-later", "MIT-or-later", "ISC-or-later+", "Zlib-or-later", "MPL-2.0-or-later+", "BSD-3-Clause-or-later"}
		for i := 0; i < scale(3000, 40000) && len(short) > 3; i++ {
			n := 3 + rng.Intn(5)
			can := make([]string, n)
			mut := make([]string, n)
			rw := 1 + rng.Intn(n-1)
			for j := range can {
				x := pick(short)
				if j == rw || rng.Intn(6) == 0 {
					x = pick(rewr)
				}
				can[j] = x
				mut[j] = x
				if rng.Intn(3) != 0 {
					mut[j] = caseMut(x, rng.Intn(3))
					if strings.Contains(x, "-or-later") { // keep the suffix as typed: its case is not under test here
						b := strings.SplitN(x, "-or-later", 2)
						mut[j] = caseMut(b[0], rng.Intn(3)) + "-or-later" + b[1]
					}
				}
			}
			var e0, e1 string
			for j := range can {
				if j > 0 {
					op := []string{" AND ", " OR "}[rng.Intn(2)]
					e0 += op
					e1 += op
				}
				e0 += can[j]
				e1 += mut[j]
			}
			res.Evaluations++
			count("recased_chains")
			x0, x1 := implExt(e0), implExt(e1)
			if x0.String() != x1.String() {
				fail(failure{Stream: "oracle", What: "ExtractLicenses depends on letter case (chain of short ids around a rewritten -or-later term)", Case: &kase{Expr: e1, ExprHex: hx(e1), Extra: map[string]string{"list_spelling": e0}}, Impl: x1.String(), Expected: x0.String()})
				break
			}
			l := []string{can[0], can[n-1], can[n/2]}
			for j := range l {
				l[j] = strings.TrimSuffix(strings.TrimSuffix(l[j], "+"), "-or-later")
			}
			if r0, r1 := implSat(e0, l), implSat(e1, l); r0.String() != r1.String() {
				fail(failure{Stream: "oracle", What: "letter case changed Satisfies (chain of short ids around a rewritten -or-later term)", Case: &kase{Expr: e1, ExprHex: hx(e1), Allowed: l, Extra: map[string]string{"list_spelling_expr": e0, "list_spelling_allowed": hxl(l)}}, Impl: r1.String(), Expected: r0.String()})
				break
			}
		}
		sample(map[string]interface{}{"id": "Apache-2.0", "variants": variants("Apache-2.0")})
		// LAST: the casing ExtractLicenses reports is the LISTS' casing also after a caller has re-cased the slices the table
		// getters handed out
		if f := gettersHandOutCopies(); f != nil {
			fail(*f)
		} else {
			for _, id := range []string{tblActive[0], tblActive[len(tblActive)/2], "MIT", "Apache-2.0", "GPL-2.0-only"} {
				x := implExt(strings.ToUpper(id))
				res.Evaluations++
				if x.err != nil || x.panicv != nil || len(x.list) != 1 || x.list[0] != id {
					fail(failure{Stream: "oracle", What: "after a caller wrote into the getters' results, ExtractLicenses no longer reports the list's own casing", Case: &kase{Expr: strings.ToUpper(id), ExprHex: hx(strings.ToUpper(id)), Extra: map[string]string{"history": "write into the getters' results"}}, Impl: x.String(), Expected: "ok " + id})
					break
				}
			}
		}
		loadTables()
		res.Exhaustive = true
	}
	replays["C09"] = func(k *kase) *failure {
		if ls := k.Extra["list_spelling"]; ls != "" && !implValid(ls) {
			if implValid(k.Expr) {
				return &failure{Stream: "oracle", What: "a case variant is valid although the list spelling is not", Case: k, Impl: "valid", Expected: "invalid"}
			}
			return nil
		}
		if !implValid(k.Expr) {
			return &failure{Stream: "oracle", What: "case variant rejected", Case: k, Impl: "invalid", Expected: "valid"}
		}
		if k.Extra["list_spelling_expr"] != "" {
			r0, r1 := implSat(k.Extra["list_spelling_expr"], unhxl(k.Extra["list_spelling_allowed"])), implSat(k.Expr, k.Allowed)
			if r0.String() != r1.String() {
				return &failure{Stream: "oracle", What: "letter case changed Satisfies", Case: k, Impl: r1.String(), Expected: r0.String()}
			}
		}
		if k.Extra["list_spelling"] != "" {
			x0, x1 := implExt(k.Extra["list_spelling"]), implExt(k.Expr)
			if x0.String() != x1.String() {
				return &failure{Stream: "oracle", What: "ExtractLicenses depends on letter case", Case: k, Impl: x1.String(), Expected: x0.String()}
			}
		}
		return nil
	}
}

// ---------------------------------------------------------------- C11: version oracle

var verSeg = regexp.MustCompile(`^[0-9][0-9.]*[a-z]?$`)

type version struct {
	nums   []int
	letter byte
	ok     bool
}

// versionOf: family key and version of a listed id, read off the id alone (independent of the range table)
func versionOf(id string) (string, version) {
	id = strings.TrimSuffix(id, "-only")
	id = strings.TrimSuffix(id, "-or-later")
	segs := strings.Split(id, "-")
	for i := 1; i < len(segs); i++ {
		if verSeg.MatchString(segs[i]) {
			s := segs[i]
			v := version{ok: true}
			if c := s[len(s)-1]; c >= 'a' && c <= 'z' {
				v.letter = c
				s = s[:len(s)-1]
			}
			for _, p := range strings.Split(s, ".") {
				if p == "" {
					continue
				}
				n, _ := strconv.Atoi(p)
				v.nums = append(v.nums, n)
			}
			fam := append(append(append([]string{}, segs[:i]...), "*"), segs[i+1:]...)
			return strings.Join(fam, "-"), v
		}
	}
	return id, version{}
}

func cmpVersion(a, b version) int {
	for i := 0; i < len(a.nums) && i < len(b.nums); i++ {
		if a.nums[i] != b.nums[i] {
			if a.nums[i] < b.nums[i] {
				return -1
			}
			return 1
		}
	}
	if len(a.nums) != len(b.nums) {
		if len(a.nums) < len(b.nums) {
			return -1
		}
		return 1
	}
	switch {
	case a.letter < b.letter:
		return -1
	case a.letter > b.letter:
		return 1
	}
	return 0
}

func init() {
	props["C11"] = func() {
		res.Rule = "every ordered pair (v1, v2) of ids whose family key (read off the ids, not the table) is covered by the range table, x spellings {plain,+}: Satisfies(X-v2,[X-v1+]) must equal 'v1 <= v2 in the natural version order'; plus 5000 cross-family pairs ('+' never crosses families). Exhaustive over the shipped lists. Non-trivial & distinct = ordered pairs of different ids"
		covered := map[string]bool{}
		for _, id := range famIDs {
			if strings.HasSuffix(id, "-or-later") {
				continue
			}
			f, v := versionOf(id)
			if v.ok {
				covered[f] = true
			}
		}
		byFam := map[string][]string{}
		var all []string
		for _, id := range append(append([]string{}, tblActive...), tblDeprecated...) {
			if strings.HasSuffix(id, "+") || strings.HasSuffix(id, "-or-later") {
				continue
			}
			f, v := versionOf(id)
			if v.ok && covered[f] {
				byFam[f] = append(byFam[f], id)
			}
			all = append(all, id)
		}
		countN("covered_families", len(byFam))
		check := func(a, b string, want bool, what string) {
			res.Evaluations++
			m := implMatch(b, a+"+") // Satisfies(X-v2, [X-v1+])
			if m < 0 {
				count("skipped_impl_error")
				return
			}
			if a != b {
				nontrivial(a + "|" + b)
			}
			k := &kase{Expr: b, ExprHex: hx(b), Allowed: []string{a + "+"}}
			correspond("M "+hx(b)+" "+hx(a+"+"), fmt.Sprint(m == 1), "'+' reach: model matchLeaf vs Satisfies", k)
			if (m == 1) != want {
				fail(failure{Stream: "oracle", What: what, Case: k, Impl: fmt.Sprint(m == 1), Expected: fmt.Sprint(want)})
			}
			// the same question with other entries around the deciding one (an unrelated id that sorts first, one that
			// sorts last, a sibling of the family): the verdict about `b` must not depend on what else is allowed
			if rng.Intn(scale(3, 1)) == 0 {
				// the same question with one and the same WITH exception on both sides
				if e := pick(tblExceptions); true {
					r := implSat(b+" WITH "+e, []string{a + "+ WITH " + e})
					res.Evaluations++
					count("with_exception_pairs")
					if r.err == nil && r.panicv == nil && r.ok != want {
						fail(failure{Stream: "oracle", What: what + " (the same WITH exception on both sides)", Case: &kase{Expr: b + " WITH " + e, ExprHex: hx(b + " WITH " + e), Allowed: []string{a + "+ WITH " + e}}, Impl: fmt.Sprint(r.ok), Expected: fmt.Sprint(want)})
					}
					r = implSat(a+"+ WITH "+e, []string{b + " WITH " + e})
					_, va1 := versionOf(a)
					_, vb1 := versionOf(b)
					fa1, _ := versionOf(a)
					fb1, _ := versionOf(b)
					want1 := fa1 == fb1 && va1.ok && vb1.ok && cmpVersion(va1, vb1) <= 0 || a == b
					if r.err == nil && r.panicv == nil && r.ok != want1 {
						fail(failure{Stream: "oracle", What: "'+' on the expression side, the same WITH exception on both sides: " + what, Case: &kase{Expr: a + "+ WITH " + e, ExprHex: hx(a + "+ WITH " + e), Allowed: []string{b + " WITH " + e}}, Impl: fmt.Sprint(r.ok), Expected: fmt.Sprint(want1)})
					}
				}
				// the '+' entry beside its own plain form and a later-sorting entry
				later := []string{}
				for _, d := range []string{"Zlib", "zlib-acknowledgement", "xpp", "curl", "Zed"} {
					if d != a && d != b && implMatch(b, d) == 0 {
						later = append(later, d)
					}
				}
				for _, l := range [][]string{{a, a + "+", later[0]}, {a + "+", a, later[0], later[1]}} {
					r := implSat(b, l)
					res.Evaluations++
					wantL := want || a == b
					if r.err == nil && r.panicv == nil && r.ok != wantL {
						fail(failure{Stream: "oracle", What: what + " (the '+' entry stands beside its plain form)", Case: &kase{Expr: b, ExprHex: hx(b), Allowed: l}, Impl: fmt.Sprint(r.ok), Expected: fmt.Sprint(wantL)})
						break
					}
				}
				// decoys: unrelated ids that do not match `b` (or `a+`) on their own
				var dec []string
				for _, d := range []string{"0BSD", "AAL", "Zlib", "MIT", "curl", "ISC"} {
					if d != a && d != b && implMatch(b, d) == 0 && implMatch(a+"+", d) == 0 {
						dec = append(dec, d)
					}
				}
				for len(dec) < 4 {
					dec = append(dec, "LicenseRef-decoy-"+itoa(len(dec)))
				}
				for _, l := range [][]string{{dec[0], a + "+"}, {a + "+", dec[1]}, {dec[1], a + "+", dec[2], dec[0]}, {dec[3], dec[1], a + "+"}} {
					r := implSat(b, l)
					count("decoy_lists")
					res.Evaluations++
					if r.err == nil && r.panicv == nil && r.ok != want {
						fail(failure{Stream: "oracle", What: what + " (with unrelated entries beside the deciding one)", Case: &kase{Expr: b, ExprHex: hx(b), Allowed: l}, Impl: fmt.Sprint(r.ok), Expected: fmt.Sprint(want)})
						break
					}
				}
				// ... and on the expression side: `a+` against a list holding `b` and decoys
				_, va0 := versionOf(a)
				_, vb0 := versionOf(b)
				fa0, _ := versionOf(a)
				fb0, _ := versionOf(b)
				want3 := fa0 == fb0 && va0.ok && vb0.ok && cmpVersion(va0, vb0) <= 0 || a == b
				for _, l := range [][]string{{dec[0], b}, {b, dec[1]}, {dec[1], dec[0], b}} {
					r := implSat(a+"+", l)
					res.Evaluations++
					if r.err == nil && r.panicv == nil && r.ok != want3 {
						fail(failure{Stream: "oracle", What: "'+' on the expression side with unrelated entries in the list: " + what, Case: &kase{Expr: a + "+", ExprHex: hx(a + "+"), Allowed: l}, Impl: fmt.Sprint(r.ok), Expected: fmt.Sprint(want3)})
						break
					}
				}
			}
			// the '+' written out as -or-later, behind an earlier term whose -or-later is NOT rewritten by the scanner
			// (a listed GNU -or-later id, a reference name ending in -or-later): the reach must be the same, and nothing fails
			if al := a + "-or-later"; rng.Intn(scale(4, 1)) == 0 && implValid(al) && !strings.HasSuffix(a, "-only") {
				_, va := versionOf(a)
				_, vb := versionOf(b)
				fa, _ := versionOf(a)
				fb, _ := versionOf(b)
				wantE := fa == fb && va.ok && vb.ok && cmpVersion(va, vb) <= 0 || a == b
				for _, g := range []string{"GPL-2.0-or-later", "LicenseRef-x-or-later", "AGPL-3.0-or-later+", "(LGPL-2.1-or-later)"} {
					if implMatch(strings.Trim(g, "()"), b) != 0 {
						continue
					}
					for _, e := range []string{g + " OR " + al, g + " OR (LicenseRef-helper AND " + al + ")", al + " OR " + g} {
						r := implSat(e, []string{b, "LicenseRef-helper"})
						res.Evaluations++
						count("spelled_or_later_behind_unrewritten")
						if r.err != nil || r.panicv != nil || r.ok != wantE {
							fail(failure{Stream: "oracle", What: "'+' written as -or-later behind a term whose -or-later stays in the text: " + what, Case: &kase{Expr: e, ExprHex: hx(e), Allowed: []string{b, "LicenseRef-helper"}}, Impl: r.String(), Expected: fmt.Sprint(wantE)})
							break
						}
					}
				}
			}
			// TWO '+' entries of the family that differ in their exception (an index that keeps one '+' entry per family), and
			// LONG lists (> 8 entries: other search strategies) that hold the deciding entry among look-alikes and unrelated ids
			if rng.Intn(scale(4, 1)) == 0 && implValid(a+"+") {
				e := genException()
				fam := sameFamilyIDs(a)
				wantP := implMatch(b, a+"+") == 1
				for _, l := range [][]string{{a + "+ WITH " + e, a + "+"}, {a + "+", a + "+ WITH " + e}} {
					r := implSat(b, l)
					res.Evaluations++
					count("two_plus_entries")
					if r.err != nil || r.panicv != nil || r.ok != wantP {
						fail(failure{Stream: "oracle", What: "two '+' entries of one family that differ in their exception: " + what, Case: &kase{Expr: b, ExprHex: hx(b), Allowed: l}, Impl: r.String(), Expected: fmt.Sprint(wantP)})
					}
				}
				if len(fam) > 0 {
					lower := pick(fam)
					if !strings.HasSuffix(lower, "+") && !strings.HasSuffix(lower, "-or-later") && implValid(lower+"+ WITH "+e) {
						wantQ := implMatch(b, a+"+") == 1 || implMatch(b, lower+"+ WITH "+e) == 1
						l := []string{lower + "+ WITH " + e, a + "+"}
						if r := implSat(b, l); r.err != nil || r.panicv != nil || r.ok != wantQ {
							fail(failure{Stream: "oracle", What: "two '+' entries of one family that differ in their exception: " + what, Case: &kase{Expr: b, ExprHex: hx(b), Allowed: l}, Impl: r.String(), Expected: fmt.Sprint(wantQ)})
						}
					}
				}
				long := []string{a + "+"}
				for _, x := range append(append([]string{}, tblActive...), tblDeprecated...) {
					if len(long) >= 12 {
						break
					}
					st := strings.TrimSuffix(strings.TrimSuffix(strings.TrimSuffix(b, "+"), "-only"), "-or-later")
					if x != a && x != b && !strings.HasSuffix(x, "+") && (strings.HasPrefix(x, st) || x > a && x < b || x > b && x < a) && implMatch(b, x) == 0 {
						long = append(long, x)
					}
				}
				for _, d := range []string{"0BSD", "AAL", "Zlib", "curl", "ISC", "xpp", "Zed", "NTP", "Vim"} {
					if len(long) < 12 && d != a && d != b && implMatch(b, d) == 0 && implMatch(a+"+", d) == 0 {
						long = append(long, d)
					}
				}
				for rep := 0; rep < 2; rep++ {
					rng.Shuffle(len(long), func(i, j int) { long[i], long[j] = long[j], long[i] })
					r := implSat(b, long)
					res.Evaluations++
					count("long_lists_with_lookalikes")
					if r.err != nil || r.panicv != nil || r.ok != wantP {
						fail(failure{Stream: "oracle", What: what + " (the deciding '+' entry in a list of 12 among look-alikes and unrelated ids)", Case: &kase{Expr: b, ExprHex: hx(b), Allowed: append([]string{}, long...)}, Impl: r.String(), Expected: fmt.Sprint(wantP)})
						break
					}
					// and on the expression side
					_, va9 := versionOf(a)
					_, vb9 := versionOf(b)
					fa9, _ := versionOf(a)
					fb9, _ := versionOf(b)
					want9 := fa9 == fb9 && va9.ok && vb9.ok && cmpVersion(va9, vb9) <= 0 || a == b
					l2 := []string{b}
					for _, x := range long {
						if x == a+"+" || implMatch(a+"+", x) != 0 { // only entries that `a+` does not reach on their own
							l2 = append(l2, "LicenseRef-filler-"+itoa(len(l2)))
						} else {
							l2 = append(l2, x)
						}
					}
					rng.Shuffle(len(l2), func(i, j int) { l2[i], l2[j] = l2[j], l2[i] })
					if r2 := implSat(a+"+", l2); r2.err != nil || r2.panicv != nil || r2.ok != want9 {
						fail(failure{Stream: "oracle", What: "'+' on the expression side against a list of 12 among look-alikes and unrelated ids: " + what, Case: &kase{Expr: a + "+", ExprHex: hx(a + "+"), Allowed: l2}, Impl: r2.String(), Expected: fmt.Sprint(want9)})
						break
					}
				}
			}
			// TWO '+' terms of the family in one AND group (pruning of "implied" terms), and the same version with and without
			// '+' in two alternatives of which the first fails late (per-call memos keyed without the '+')
			if rng.Intn(scale(4, 1)) == 0 && implValid(a+"+") && implValid(b+"+") && a != b {
				for _, x := range []string{a, b} {
					wantT := implMatch(a+"+", x) == 1 && implMatch(b+"+", x) == 1
					for _, e := range []string{a + "+ AND " + b + "+", b + "+ AND " + a + "+", "(" + a + "+ AND " + b + "+) OR LicenseRef-none"} {
						r := implSat(e, []string{x})
						res.Evaluations++
						count("two_plus_terms_in_and")
						if r.err != nil || r.panicv != nil || r.ok != wantT {
							fail(failure{Stream: "oracle", What: "two '+' terms of one family in an AND group: " + what, Case: &kase{Expr: e, ExprHex: hx(e), Allowed: []string{x}}, Impl: r.String(), Expected: fmt.Sprint(wantT)})
						}
					}
				}
				if a != "AAL" && b != "AAL" && a != "MIT" && b != "MIT" && a != "Zlib" && b != "Zlib" {
					e := "(AAL AND " + a + "+ AND Zlib) OR (" + a + " AND MIT)"
					l := []string{"AAL", b, "MIT"}
					wantM := implMatch(a, b) == 1
					if r := implSat(e, l); r.err != nil || r.panicv != nil || r.ok != wantM {
						fail(failure{Stream: "oracle", What: "the same version with '+' in an alternative that fails late and without '+' in the next one: " + what, Case: &kase{Expr: e, ExprHex: hx(e), Allowed: l}, Impl: r.String(), Expected: fmt.Sprint(wantM)})
					}
					res.Evaluations++
					count("plus_then_plain_alternatives")
				}
			}
			// the '+' term inside a longer alternative beside the bare id alone (rows compared or pruned by string prefix):
			// X-v1 OR (X-v1+ AND Zlib) against [X-v2, Zlib]
			if rng.Intn(scale(3, 1)) == 0 && a != "Zlib" && b != "Zlib" && implMatch("Zlib", b) == 0 {
				cands := []string{a}
				for _, x := range sameFamilyIDs(a) {
					if x != a && strings.HasPrefix(x, a) && !strings.HasSuffix(x, "+") {
						cands = append(cands, x)
					}
				}
				for _, a2 := range cands {
					if !implValid(a2 + "+") {
						continue
					}
					wantC := implMatch(a, b) == 1 || implMatch(a2+"+", b) == 1
					for _, e := range []string{a + " OR (" + a2 + "+ AND Zlib)", "(Zlib AND " + a2 + "+) OR " + a, a + " OR (" + a2 + "-or-later AND Zlib)"} {
						if !implValid(e) {
							continue
						}
						r := implSat(e, []string{b, "Zlib"})
						res.Evaluations++
						count("plus_inside_longer_alternative")
						if r.err != nil || r.panicv != nil || r.ok != wantC {
							fail(failure{Stream: "oracle", What: "the '+' term inside a longer alternative beside the bare id: " + what, Case: &kase{Expr: e, ExprHex: hx(e), Allowed: []string{b, "Zlib"}}, Impl: r.String(), Expected: fmt.Sprint(wantC)})
							break
						}
					}
				}
			}
			// '+' on the other side / both sides
			if m2 := implMatch(b+"+", a); m2 >= 0 {
				_, va := versionOf(a)
				_, vb := versionOf(b)
				fa, _ := versionOf(a)
				fb, _ := versionOf(b)
				want2 := fa == fb && va.ok && vb.ok && cmpVersion(vb, va) <= 0 || a == b
				count("plus_on_expression_side")
				if (m2 == 1) != want2 {
					fail(failure{Stream: "oracle", What: "'+' on the expression side: " + what, Case: &kase{Expr: b + "+", ExprHex: hx(b + "+"), Allowed: []string{a}}, Impl: fmt.Sprint(m2 == 1), Expected: fmt.Sprint(want2)})
				}
			}
		}
		for _, ids := range byFam {
			for _, a := range ids {
				for _, b := range ids {
					_, va := versionOf(a)
					_, vb := versionOf(b)
					check(a, b, cmpVersion(va, vb) <= 0, "'+' does not reach exactly the same-or-later versions of the family")
					count("within_family_pairs")
				}
			}
		}
		// '+' (typed, or spelled -or-later) BEHIND one to three terms whose -or-later the scanner rewrites — the text is then shorter
		// than what the caller wrote by 8 bytes per rewrite — for ids of every length: the term still reaches its own version
		{
			rw := []string{"ECL-1.0-or-later", "EPL-1.0-or-later", "MPL-1.0-or-later"}
			for _, a := range tblActive {
				if strings.HasSuffix(a, "+") || strings.HasSuffix(a, "-only") || strings.HasSuffix(a, "-or-later") || !implValid(a+"+") {
					continue
				}
				if _, inTable := tablePos(a); !inTable && !thorough() && rng.Intn(2) == 0 {
					continue
				}
				for r := 1; r <= 3; r++ {
					for _, op := range []string{" OR ", " AND "} {
						for _, last := range []string{a + "+", a + "-or-later"} {
							e := strings.Join(rw[:r], op) + op + last
							l := []string{a}
							if op == " AND " {
								l = append(l, "ECL-1.0", "EPL-1.0", "MPL-1.0")
							}
							res.Evaluations++
							count("plus_behind_rewritten_terms")
							if got := implSat(e, l); got.String() != "true" {
								fail(failure{Stream: "oracle", What: "'+' behind " + itoa(r) + " rewritten -or-later terms: the term no longer reaches its own version", Case: &kase{Expr: e, ExprHex: hx(e), Allowed: l, Extra: map[string]string{"want": "true"}}, Impl: got.String(), Expected: "true"})
							}
						}
					}
				}
			}
		}
		// allowed entries that are listed `X-or-later` ids typed in another letter case: the same reach as the listed spelling
		for _, x := range tblActive {
			b := strings.TrimSuffix(x, "-or-later")
			if b == x {
				continue
			}
			for _, sp := range []string{b + "-OR-LATER", b + "-Or-Later", strings.ToLower(b) + "-or-later", strings.ToUpper(x), b + "-or-LATER"} {
				if !implValid(sp) {
					continue
				}
				others := append([]string{b, b + "-only", "MIT"}, sameFamilyIDs(b)...)
				for _, y := range others {
					if strings.HasSuffix(y, "+") || !implValid(y) {
						continue
					}
					res.Evaluations++
					count("recased_or_later_entries")
					r1, r2 := implSat(y, []string{sp}), implSat(y, []string{x})
					if r1.String() != r2.String() {
						fail(failure{Stream: "oracle", What: "the allowed entry " + show(sp) + " (a listed -or-later id in another letter case) does not reach what " + show(x) + " reaches", Case: &kase{Expr: y, ExprHex: hx(y), Allowed: []string{sp}, Extra: map[string]string{"listed": x}}, Impl: r1.String(), Expected: r2.String()})
						break
					}
					r3, r4 := implSat(sp, []string{y}), implSat(x, []string{y})
					if r3.String() != r4.String() {
						fail(failure{Stream: "oracle", What: "the expression " + show(sp) + " (a listed -or-later id in another letter case) is not satisfied as " + show(x) + " is", Case: &kase{Expr: sp, ExprHex: hx(sp), Allowed: []string{y}, Extra: map[string]string{"listed": x}}, Impl: r3.String(), Expected: r4.String()})
						break
					}
				}
			}
		}
		// ids whose texts look like versions of one family that the table does NOT cover (Python-2.0 / Python-2.0.1, …):
		// '+' gives no reach at all there, whatever the version numbers look like
		byKey := map[string][]string{}
		for _, id := range all {
			f, v := versionOf(id)
			if v.ok && !covered[f] {
				byKey[f] = append(byKey[f], id)
			}
		}
		for _, ids := range byKey {
			if len(ids) < 2 {
				continue
			}
			for _, a := range ids {
				for _, b := range ids {
					if a == b {
						continue
					}
					for _, pr := range [][2]string{{b, a + "+"}, {a + "+", b}, {a + "+", b + "+"}, {a, b}} {
						r := implSat(pr[0], []string{pr[1]})
						res.Evaluations++
						count("uncovered_family_pairs")
						if r.panicv != nil || r.err != nil || r.ok {
							fail(failure{Stream: "oracle", What: "ids of a family the table does not cover: '+' must not reach (and nothing may fail)", Case: &kase{Expr: pr[0], ExprHex: hx(pr[0]), Allowed: []string{pr[1]}}, Impl: r.String(), Expected: "false"})
						}
					}
				}
			}
		}
		// listed ids that look like members of a covered family without being in it (same text up to a suffix, a member's
		// text as a prefix, sorting between the members), -only / -or-later forms included: '+' never reaches them and they
		// never reach a member, in any of the four '+' combinations and in both directions
		{
			listed := append(append([]string{}, tblActive...), tblDeprecated...)
			stem := func(x string) string {
				x = strings.TrimSuffix(x, "+")
				x = strings.TrimSuffix(x, "-only")
				return strings.TrimSuffix(x, "-or-later")
			}
			for _, f := range tblRanges {
				member := map[string]bool{}
				var members []string
				for _, g := range f {
					for _, x := range g {
						member[x] = true
						members = append(members, x)
					}
				}
				sort.Strings(members)
				var look []string
				for _, x := range listed {
					if member[x] || member[stem(x)] { // X-only / X-or-later of a member ARE the member (C08)
						continue
					}
					near := x > members[0] && x < members[len(members)-1]
					for _, m := range members {
						if strings.HasPrefix(x, stem(m)) {
							near = true
						}
					}
					if near {
						look = append(look, x)
					}
				}
				if len(look) > scale(8, 60) {
					rng.Shuffle(len(look), func(i, j int) { look[i], look[j] = look[j], look[i] })
					look = look[:scale(8, 60)]
				}
				ms := members
				if len(ms) > scale(6, 60) {
					ms = append([]string{}, ms...)
					rng.Shuffle(len(ms), func(i, j int) { ms[i], ms[j] = ms[j], ms[i] })
					ms = ms[:scale(6, 60)]
				}
				for _, l := range look {
					// the look-alike as a literal member of an AND group beside a family member that only an earlier `X-v+`
					// entry reaches (a scan of the sorted list that resumes at the last literal hit)
					for j := 0; j < 3 && len(ms) > 1 && implValid(l); j++ {
						m0, m1 := pick(ms), pick(ms)
						_, v0 := versionOf(m0)
						_, v1 := versionOf(m1)
						if !v0.ok || !v1.ok || strings.HasSuffix(m0, "-or-later") || strings.HasSuffix(m1, "-or-later") || !implValid(m0+"+") {
							continue
						}
						wantA := cmpVersion(v0, v1) <= 0
						for _, lst := range [][]string{{m0 + "+", l}, {l, m0 + "+"}, {l, "MIT", m0 + "+"}} {
							for _, e := range []string{l + " AND " + m1, m1 + " AND " + l, "(" + l + " AND " + m1 + ") OR ISC"} {
								r := implSat(e, lst)
								res.Evaluations++
								count("lookalike_in_and_group")
								if r.err != nil || r.panicv != nil || r.ok != wantA {
									fail(failure{Stream: "oracle", What: "an AND group of a look-alike id (allowed literally) and a family member reached only by an earlier 'X+' entry", Case: &kase{Expr: e, ExprHex: hx(e), Allowed: lst}, Impl: r.String(), Expected: fmt.Sprint(wantA)})
								}
							}
						}
					}
					for _, m := range ms {
						for _, pr := range [][2]string{{l, m}, {l + "+", m}, {l, m + "+"}, {l + "+", m + "+"}, {m, l}, {m + "+", l}, {m, l + "+"}, {m + "+", l + "+"}} {
							if !implValid(pr[0]) || !implValid(pr[1]) {
								continue
							}
							r := implSat(pr[0], []string{pr[1]})
							res.Evaluations++
							count("family_lookalike_pairs")
							if r.err != nil || r.panicv != nil || r.ok {
								fail(failure{Stream: "oracle", What: "an id outside the family (but looking like a member) is reached by, or reaches, a member of the family", Case: &kase{Expr: pr[0], ExprHex: hx(pr[0]), Allowed: []string{pr[1]}}, Impl: r.String(), Expected: "false"})
							}
						}
					}
				}
			}
		}
		for i := 0; i < 5000; i++ {
			a, b := pick(all), pick(all)
			fa, va := versionOf(a)
			fb, vb := versionOf(b)
			if fa == fb && va.ok && vb.ok {
				continue
			}
			if a == b {
				continue
			}
			check(a, b, false, "'+' made an id match an id of a different family")
			count("cross_family_pairs")
		}
		sample(map[string]interface{}{"expr": "Apache-2.0", "allowed": []string{"Apache-1.1+"}, "expected": true})
		sample(map[string]interface{}{"expr": "LPPL-1.3a", "allowed": []string{"LPPL-1.3c+"}, "expected": false})
		res.Exhaustive = true
	}
	replays["C11"] = func(k *kase) *failure {
		if k.Extra != nil && k.Extra["want"] != "" {
			if r := implSat(k.Expr, k.Allowed); r.String() != k.Extra["want"] {
				return &failure{Stream: "oracle", What: "'+' reach", Case: k, Impl: r.String(), Expected: k.Extra["want"]}
			}
			return nil
		}
		if k.Extra != nil && k.Extra["listed"] != "" {
			x := k.Extra["listed"]
			r1, r2 := implSat(k.Expr, k.Allowed), implSat(strings.ReplaceAll(k.Expr, k.Expr, map[bool]string{true: x, false: k.Expr}[strings.EqualFold(k.Expr, x)]), k.Allowed)
			if strings.EqualFold(k.Allowed[0], x) {
				r2 = implSat(k.Expr, []string{x})
			}
			if r1.String() != r2.String() {
				return &failure{Stream: "oracle", What: "a listed -or-later id in another letter case behaves differently", Case: k, Impl: r1.String(), Expected: r2.String()}
			}
			return nil
		}
		a := strings.TrimSuffix(k.Allowed[0], "+")
		b := strings.TrimSuffix(k.Expr, "+")
		fa, va := versionOf(a)
		fb, vb := versionOf(b)
		m := implMatch(k.Expr, k.Allowed[0])
		var want bool
		if strings.HasSuffix(k.Allowed[0], "+") {
			want = a == b || fa == fb && va.ok && vb.ok && cmpVersion(va, vb) <= 0
		} else {
			want = a == b || fa == fb && va.ok && vb.ok && cmpVersion(vb, va) <= 0
		}
		if (m == 1) != want {
			return &failure{Stream: "oracle", What: "'+' reach differs from the natural version order", Case: k, Impl: fmt.Sprint(m == 1), Expected: fmt.Sprint(want)}
		}
		return nil
	}
}
