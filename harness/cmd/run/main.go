// run — the correspondence / oracle harness.  It calls the real library in-process and the Lean
// model through the compiled driver, on the same generated inputs.
//
//	run -prop C01 -tier quick -seed 1 -driver <path> -out <result.json> [-replay <file>]
package main

import (
	"encoding/json"
	"flag"
	"fmt"
	"math/rand"
	"os"
	"sort"
	"strings"
	"time"
)

// kase is one generated case, serialisable so that it can be replayed.
type kase struct {
	Expr    string            `json:"expr,omitempty"`
	ExprHex string            `json:"expr_hex,omitempty"`
	Allowed []string          `json:"allowed,omitempty"`
	Tree    string            `json:"tree,omitempty"`  // prefix notation over term numbers
	Terms   []string          `json:"terms,omitempty"` // term texts
	Extra   map[string]string `json:"extra,omitempty"`
}

type failure struct {
	Stream   string `json:"stream"` // "oracle" (property on the implementation) | "correspondence" (model vs implementation)
	What     string `json:"what"`
	Case     *kase  `json:"case,omitempty"`
	Op       string `json:"op,omitempty"` // driver line for correspondence failures
	Impl     string `json:"impl,omitempty"`
	Model    string `json:"model,omitempty"`
	Expected string `json:"expected,omitempty"`
}

type result struct {
	Property     string         `json:"property"`
	Tier         string         `json:"tier"`
	Seed         int64          `json:"seed"`
	Evaluations  int            `json:"evaluations"`
	Distinct     int            `json:"distinct_nontrivial"`
	Rule         string         `json:"rule"`
	Samples      []interface{}  `json:"samples"`
	Distribution map[string]int `json:"distribution"`
	CorrOps      int            `json:"correspondence_ops"`
	CorrDisagree int            `json:"correspondence_disagreements"`
	OracleFails  int            `json:"oracle_failures"`
	Failures     []failure      `json:"failures"`
	Exhaustive   bool           `json:"exhaustive"`
	WallS        float64        `json:"wall_s"`
	Notes        []string       `json:"notes,omitempty"`
	KnownSeen    []string       `json:"known_findings_seen,omitempty"`
}

var res result
var tier string
var seed int64
var distinct = map[string]bool{}

func count(k string) {
	if !quiet {
		res.Distribution[k]++
	}
	if timing != nil {
		now := time.Now()
		timing[k] += now.Sub(lastCount)
		lastCount = now
	}
}

// VERIF_TIMING=1: wall time attributed to the counter that follows it (development aid; printed to stderr at the end)
var timing map[string]time.Duration
var lastCount time.Time
func countN(k string, n int)    { res.Distribution[k] += n }
func nontrivial(key string)     { distinct[key] = true }
func thorough() bool            { return tier == "thorough" }
func scale(q, t int) int {
	if thorough() {
		return t
	}
	return q
}

// shrinking is bounded: only the first few failures are minimised
func wantShrink() bool { return len(res.Failures) < 6 }

var quiet bool

func sample(x interface{}) {
	if len(res.Samples) < 8 {
		res.Samples = append(res.Samples, x)
	}
}

const maxFailures = 40

func fail(f failure) {
	if f.Stream == "oracle" {
		res.OracleFails++
	} else {
		res.CorrDisagree++
	}
	// keep oracle failures and correspondence disagreements apart: a flood of one kind must not crowd out the other
	n := 0
	for _, g := range res.Failures {
		if (g.Stream == "oracle") == (f.Stream == "oracle") {
			n++
		}
	}
	if n < maxFailures/2 {
		res.Failures = append(res.Failures, f)
	}
}

// corr is one pending correspondence comparison
type corr struct {
	op   string
	impl string
	k    *kase
	what string
	norm func(string) string // optional canonicalisation applied to BOTH sides
}

var corrQ []corr

func correspond(op, impl, what string, k *kase) {
	corrQ = append(corrQ, corr{op: op, impl: impl, k: k, what: what})
}

// hookCorrespond: intermediate observables through the library's verification hooks (skipped when they are unavailable)
//   tokens of the scanner, the parse tree, the expansion (as a set of sets: its order belongs to C13)
func hookCorrespond(text string, k *kase, tokens, tree, expansion bool) {
	if !hooksOn || len(text) > 3000 {
		return
	}
	if tokens {
		correspond("Z "+hx(text), hookScan(text), "token stream (scan hook): model vs implementation", k)
	}
	if tree {
		correspond("Y "+hx(text), hookTree(text), "parse tree (parse hook): model vs implementation", k)
	}
	if expansion {
		correspondNorm("A "+hx(text), hookExpand(text), "expansion into alternatives (expand hook), as a set of sets: model vs implementation", k, expansionSetNorm)
	}
}

// expansionSetNorm: alternatives sorted, terms inside an alternative sorted, duplicates of alternatives kept
func expansionSetNorm(s string) string {
	if !strings.HasPrefix(s, "ok") {
		return s
	}
	body := strings.TrimSpace(strings.TrimPrefix(s, "ok"))
	alts := strings.Split(body, ";")
	for i, a := range alts {
		alts[i] = strings.Join(sortedCopy(strings.Split(a, ",")), ",")
	}
	return "ok " + strings.Join(sortedCopy(alts), ";")
}

func correspondNorm(op, impl, what string, k *kase, norm func(string) string) {
	corrQ = append(corrQ, corr{op: op, impl: impl, k: k, what: what, norm: norm})
}

// decisive: correspondence ops whose model function is, by a theorem of the property, the property's own specification;
// a disagreement on such an op is a concrete input on which the property fails, not only a broken tie
var decisive = map[byte]string{}

func flushCorr() {
	if len(corrQ) == 0 {
		return
	}
	lines := make([]string, len(corrQ))
	for i, c := range corrQ {
		lines[i] = c.op
	}
	out, err := runDriverParallel(lines, 12)
	if err != nil {
		fmt.Fprintln(os.Stderr, err)
		res.Notes = append(res.Notes, "driver failure: "+err.Error())
		fail(failure{Stream: "correspondence", What: "driver failed: " + err.Error()})
		corrQ = nil
		return
	}
	for i, c := range corrQ {
		res.CorrOps++
		m, im := out[i], c.impl
		if c.norm != nil {
			m, im = c.norm(m), c.norm(im)
		}
		if m != im {
			if why, ok := decisive[c.op[0]]; ok {
				fail(failure{Stream: "oracle", What: why + " [" + c.what + "]", Case: c.k, Op: c.op, Impl: im, Expected: m, Model: m})
			} else {
				fail(failure{Stream: "correspondence", What: c.what, Case: c.k, Op: c.op, Impl: im, Model: m})
			}
		}
	}
	corrQ = nil
}

func checkDigest() {
	out, err := runDriver([]string{"D"})
	want := fmt.Sprintf("digest %d", tablesDigest())
	if err != nil || out[0] != want {
		got := ""
		if err == nil {
			got = out[0]
		}
		fail(failure{Stream: "correspondence", What: "the driver was not built from the tables of the tree under check (stale model)", Impl: want, Model: got})
	}
}

// a run has a time budget: when it is used up the generator loops stop early and the evidence says so (a change that
// makes the library slow must not make the check hang)
var deadline time.Time
var stoppedEarly = map[string]bool{}

func timeUp(where string) bool {
	if deadline.IsZero() || time.Now().Before(deadline) {
		return false
	}
	if !stoppedEarly[where] {
		stoppedEarly[where] = true
		res.Notes = append(res.Notes, "time budget used up: loop "+where+" stopped early")
	}
	return true
}

var props = map[string]func(){}
var replays = map[string]func(k *kase) *failure{}

func main() {
	prop := flag.String("prop", "", "property id")
	flag.StringVar(&tier, "tier", "quick", "quick|thorough")
	flag.Int64Var(&seed, "seed", 1, "PRNG seed")
	flag.StringVar(&driverPath, "driver", "", "path of the compiled Lean driver")
	outp := flag.String("out", "", "result file")
	replay := flag.String("replay", "", "replay file")
	execPar := flag.Int("exec-par", 0, "child mode: execute the calls given on stdin from N goroutines released together")
	measureMode := flag.Bool("measure", false, "child mode: run the one call given on stdin and print what it allocated")
	budget := flag.Int("budget", 0, "time budget in seconds for the generator loops (0 = 240 quick / 600 thorough)")
	execMode := flag.Bool("exec", false, "child mode: execute the calls given on stdin and print their results")
	flag.BoolVar(&richErr, "errtext", false, "child modes: the text of a returned error is part of a call's result (C13)")
	flag.Parse()
	if *execMode {
		execChild()
		return
	}
	if *execPar > 0 {
		execChildPar(*execPar)
		return
	}
	if *measureMode {
		measureChild()
		return
	}
	rng = rand.New(rand.NewSource(seed*7919 + int64(len(*prop))))
	loadTables()
	res = result{Property: *prop, Tier: tier, Seed: seed, Distribution: map[string]int{}, Samples: []interface{}{}, Failures: []failure{}}
	start := time.Now()
	if *replay != "" {
		doReplay(*prop, *replay)
		return
	}
	f, ok := props[*prop]
	if !ok {
		fmt.Fprintln(os.Stderr, "unknown property", *prop)
		os.Exit(2)
	}
	if *budget == 0 {
		*budget = scale(240, 600)
	}
	deadline = time.Now().Add(time.Duration(*budget) * time.Second)
	if os.Getenv("VERIF_TIMING") != "" {
		timing, lastCount = map[string]time.Duration{}, time.Now()
		defer func() {
			for k, d := range timing {
				if d > 500*time.Millisecond {
					fmt.Fprintf(os.Stderr, "timing %-45s %v\n", k, d.Round(time.Millisecond))
				}
			}
		}()
	}
	checkDigest()
	useEcho := *prop != "C12" && *prop != "C13" && *prop != "C14"
	echoOff = !useEcho
	f()
	flushCorr()
	if useEcho {
		echoCheck(*prop)
	}
	res.Distinct = len(distinct)
	res.WallS = time.Since(start).Seconds()
	// deterministic order of the distribution keys is json's own (sorted)
	b, _ := json.MarshalIndent(res, "", " ")
	if *outp != "" {
		if err := os.WriteFile(*outp, b, 0o644); err != nil {
			fmt.Fprintln(os.Stderr, err)
			os.Exit(2)
		}
	} else {
		os.Stdout.Write(b)
	}
}

func doReplay(prop, path string) {
	raw, err := os.ReadFile(path)
	if err != nil {
		fmt.Fprintln(os.Stderr, err)
		os.Exit(2)
	}
	var rp struct {
		Property string    `json:"property"`
		Failures []failure `json:"failures"`
	}
	if err := json.Unmarshal(raw, &rp); err != nil {
		fmt.Fprintln(os.Stderr, err)
		os.Exit(2)
	}
	bad := 0
	for _, f := range rp.Failures {
		switch {
		case f.Stream == "oracle" && f.Case != nil && replays[prop] != nil:
			if nf := replays[prop](f.Case); nf != nil {
				fmt.Printf("REPRODUCED oracle: %s\n  case: %s\n  impl=%s expected=%s\n", nf.What, caseString(f.Case), nf.Impl, nf.Expected)
				bad++
			} else {
				fmt.Printf("not reproduced: %s\n", f.What)
			}
		case f.Stream == "correspondence" && f.Op != "":
			out, err := runDriver([]string{f.Op})
			if err != nil {
				fmt.Println("driver error:", err)
				bad++
				continue
			}
			fmt.Printf("correspondence op %q: model now answers %q; recorded impl answer %q (re-run the check for the current impl answer)\n", f.Op, out[0], f.Impl)
			if out[0] != f.Impl {
				bad++
			}
		default:
			fmt.Printf("obligation / no-input failure: %s\n", f.What)
			bad++
		}
	}
	if bad > 0 {
		os.Exit(1)
	}
}

func caseString(k *kase) string {
	b, _ := json.Marshal(k)
	return string(b)
}

func sortedKeys(m map[string]bool) []string {
	var o []string
	for k := range m {
		o = append(o, k)
	}
	sort.Strings(o)
	return o
}

func joinShow(xs []string) string {
	o := make([]string, len(xs))
	for i, x := range xs {
		o[i] = show(x)
	}
	return "[" + strings.Join(o, ", ") + "]"
}

// echoCheck repeats the sampled calls in a fresh process, in reverse order, and compares the projection each property
// owns (verdict / error-or-not, set of extracted strings, list of invalid entries).
func echoCheck(prop string) {
	echoOff = true
	defer func() { echoOff = false }()
	if len(echoLog) == 0 {
		return
	}
	exe, err := os.Executable()
	if err != nil {
		return
	}
	w := make([]*call, len(echoLog))
	for i, c := range echoLog {
		l := c.list
		if c.isNil {
			l = nil
		} else if l == nil {
			l = []string{}
		}
		w[i] = &call{fn: c.fn, expr: c.expr, list: l}
	}
	perm := make([]int, len(w))
	for i := range perm {
		perm[i] = len(w) - 1 - i
	}
	got, err := runChild(exe, w, perm)
	if err != nil {
		res.Notes = append(res.Notes, "fresh-process echo failed to run: "+err.Error())
		fail(failure{Stream: "oracle", What: "the sampled calls of this check could not be repeated in a fresh process (the process died?): " + err.Error()})
		return
	}
	res.Distribution["fresh_process_echo_calls"] = len(w)
	for k, i := range perm {
		g := got[k]
		if w[i].fn == 1 && strings.HasPrefix(g, "ok ") {
			parts := strings.Split(strings.TrimPrefix(g, "ok "), "\x1f")
			if g == "ok " {
				parts = nil
			}
			g = "ok " + hxl(uniqSorted(parts))
		}
		if g != echoLog[i].proj {
			fail(failure{Stream: "oracle", What: "the same call gives a different result in a fresh process after other calls (the result depends on history): " + w[i].String(),
				Case: &kase{Expr: w[i].expr, ExprHex: hx(w[i].expr), Allowed: w[i].list, Extra: map[string]string{"fn": itoa(w[i].fn), "echo": "1"}}, Impl: show(g), Expected: show(echoLog[i].proj)})
			return
		}
	}
}
