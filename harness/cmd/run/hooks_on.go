//go:build verif

package main

// Observation points inside the library (spdxexp/verif_hooks.go, compiled with the same tag).

import (
	"strings"

	"github.com/github/go-spdx/v2/spdxexp"
)

const hooksOn = true

// hookScan: "ok <hex tok>,<hex tok>,…" | "err" | "PANIC"
func hookScan(s string) (out string) {
	defer func() {
		if recover() != nil {
			out = "PANIC"
		}
	}()
	toks, err := spdxexp.VerifScan(s)
	if err != nil {
		return "err"
	}
	return "ok " + hxl(toks)
}

// hookTree: "ok <hex tree>" | "err" | "PANIC"
func hookTree(s string) (out string) {
	defer func() {
		if recover() != nil {
			out = "PANIC"
		}
	}()
	t, err := spdxexp.VerifTree(s)
	if err != nil {
		return "err"
	}
	return "ok " + hx(t)
}

// hookExpand: "ok alt;alt;…" with alt = "<hex term>,<hex term>,…" | "err" | "PANIC"
func hookExpand(s string) (out string) {
	defer func() {
		if recover() != nil {
			out = "PANIC"
		}
	}()
	alts, err := spdxexp.VerifExpand(s)
	if err != nil {
		return "err"
	}
	parts := make([]string, len(alts))
	for i, a := range alts {
		parts[i] = hxl(a)
	}
	return "ok " + strings.Join(parts, ";")
}
