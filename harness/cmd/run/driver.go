package main

// The model side: a batch of protocol lines is piped through the compiled Lean driver.

import (
	"bufio"
	"bytes"
	"fmt"
	"os"
	"os/exec"
	"strings"
	"syscall"
)

var driverPath string

// runDriver sends every line to the driver and returns one answer per line.
func runDriver(lines []string) ([]string, error) {
	if len(lines) == 0 {
		return nil, nil
	}
	cmd := exec.Command(driverPath)
	cmd.SysProcAttr = &syscall.SysProcAttr{Pdeathsig: syscall.SIGKILL} // no orphaned drivers when the harness is killed
	var in bytes.Buffer
	for _, l := range lines {
		in.WriteString(l)
		in.WriteByte('\n')
	}
	cmd.Stdin = &in
	var out bytes.Buffer
	cmd.Stdout = &out
	cmd.Stderr = os.Stderr
	if err := cmd.Run(); err != nil {
		return nil, fmt.Errorf("driver: %v", err)
	}
	var res []string
	sc := bufio.NewScanner(&out)
	sc.Buffer(make([]byte, 1<<20), 1<<28)
	for sc.Scan() {
		res = append(res, strings.TrimRight(sc.Text(), "\r"))
	}
	if len(res) != len(lines) {
		return nil, fmt.Errorf("driver: %d answers for %d lines", len(res), len(lines))
	}
	return res, nil
}

// runDriverParallel splits the batch over `workers` driver processes.
func runDriverParallel(lines []string, workers int) ([]string, error) {
	if len(lines) < 2000 || workers <= 1 {
		return runDriver(lines)
	}
	chunk := (len(lines) + workers - 1) / workers
	type part struct {
		i   int
		res []string
		err error
	}
	ch := make(chan part, workers)
	n := 0
	for i := 0; i < len(lines); i += chunk {
		j := i + chunk
		if j > len(lines) {
			j = len(lines)
		}
		n++
		go func(i, j int) {
			r, err := runDriver(lines[i:j])
			ch <- part{i, r, err}
		}(i, j)
	}
	res := make([]string, len(lines))
	var ferr error
	for ; n > 0; n-- {
		p := <-ch
		if p.err != nil {
			ferr = p.err
			continue
		}
		copy(res[p.i:], p.res)
	}
	return res, ferr
}
