package main

// Text-based properties: C03 (no panic), C04 (one notion of validity), C05 (grammar), C15 (error offsets).

import (
	"fmt"
	"regexp"
	"sort"
	"strconv"
	"strings"
)

func validTexts(n int) []string {
	var out []string
	for i := 0; i < n; i++ {
		c := genTreeCase(4, 5)
		out = append(out, c.text)
	}
	return out
}

// ---------------------------------------------------------------- C03

func c03Probe(s string, lists bool) *failure {
	res.Evaluations++
	k := &kase{Expr: s, ExprHex: hx(s)}
	v := implVal([]string{s})
	if v.panicv != nil {
		return &failure{Stream: "oracle", What: fmt.Sprintf("ValidateLicenses panicked: %v", v.panicv), Case: k, Impl: "PANIC", Expected: "a result"}
	}
	e := implExt(s)
	if e.panicv != nil {
		return &failure{Stream: "oracle", What: fmt.Sprintf("ExtractLicenses panicked: %v", e.panicv), Case: k, Impl: "PANIC", Expected: "a result or an error"}
	}
	r := implSat(s, []string{"MIT"})
	if r.panicv != nil {
		return &failure{Stream: "oracle", What: fmt.Sprintf("Satisfies panicked (expression): %v", r.panicv), Case: k, Impl: "PANIC", Expected: "a result or an error"}
	}
	r2 := implSat("MIT", []string{s})
	if r2.panicv != nil {
		return &failure{Stream: "oracle", What: fmt.Sprintf("Satisfies panicked (allowed entry): %v", r2.panicv), Case: &kase{Expr: "MIT", Allowed: []string{s}}, Impl: "PANIC", Expected: "a result or an error"}
	}
	if v.ok {
		count("valid")
	} else {
		count("invalid")
		nontrivial(s)
	}
	// the Go-shaped model (layer G) must classify the input the same way and never reach `panic`
	correspond("Q "+hx(s), map[bool]string{true: "ok", false: "err"}[v.ok], "outcome class of the Go-shaped model (ok / err / panic) vs the implementation", k)
	return nil
}

func init() {
	props["C03"] = func() {
		res.Rule = "for 300 (thorough 3000) generated valid expressions: every token prefix, every byte prefix, every single-token deletion, tight joining, an insertion at every token boundary from an alphabet of 29 lexemes (thorough: all of them); 256 byte substitutions at 3 positions; whitespace-only, non-UTF-8, nil/empty slices, long ids, long chains and deep nesting. Each input goes to ValidateLicenses, ExtractLicenses, Satisfies (as expression and as allowed entry) under recover. Non-trivial & distinct = distinct inputs the implementation rejects"
		seen := map[string]bool{}
		probe := func(s string) {
			if seen[s] {
				return
			}
			seen[s] = true
			if f := c03Probe(s, false); f != nil {
				if wantShrink() {
					f.Case = shrinkText(f.Case, func(k *kase) bool { return c03ProbeQuiet(k.Expr) })
				}
				fail(*f)
			}
		}
		fixed := []string{"", " ", "   ", "(", ")", "()", "( )", "+", " +", ":", "WITH", "AND", "OR", "MIT WITH", "MIT AND", "MIT OR", "(MIT", "MIT)", "DocumentRef-a", "DocumentRef-a:", "DocumentRef-a:MIT",
			"LicenseRef-", "DocumentRef-", "MIT+", "MIT +", "MIT WITH MIT", "\xff", "\xc3\x28", "MIT\x00", "\t", "MIT\tAND ISC", "GPL-2.0-or-later", "Apache-2.0-or-later", "Apache-2.0-or-later+", "X-or-later", "-or-later", "-only", "+-or-later",
			"(Apache-2.0-or-later)", "Apache-2.0-or-later AND FOO", "MIT OR LicenseRef-x", "(LicenseRef-a OR LicenseRef-b) AND MIT OR ISC", "MIT AND (ISC OR LicenseRef-q) AND (Zlib OR DocumentRef-d:LicenseRef-r)"}
		for _, s := range fixed {
			probe(s)
		}
		for i, s := range validTexts(scale(300, 3000)) {
			for _, m := range systematicMutants(s, thorough() || i%10 == 0) {
				probe(m)
			}
			if len(s) > 0 {
				for p := 0; p < 3; p++ {
					pos := rng.Intn(len(s))
					for b := 0; b < 256; b++ {
						if i%scale(20, 4) != 0 && b%37 != p {
							continue
						}
						bs := []byte(s)
						bs[pos] = byte(b)
						probe(string(bs))
					}
				}
			}
			if thorough() {
				// two-token edits
				for j := 0; j < 30; j++ {
					probe(mutate(mutate(s)))
				}
			}
			if i%50 == 0 {
				sample(show(mutate(s)))
			}
			if len(corrQ) > 50000 {
				flushCorr()
			}
		}
		// the stages behind the parser (expansion, sorting, de-duplication, matching): valid expressions against
		// generated allowed lists (repeated entries, re-spelled entries, unrelated entries, unsatisfied expressions)
		for i := 0; i < scale(2500, 40000) && !timeUp("props_text.go:107"); i++ {
			c := genTreeCase(4, 6)
			lists := [][]string{c.allowed, append(append([]string{}, c.allowed...), c.allowed...), {c.allowed[0], c.allowed[0]},
				{c.allowed[0], strings.ToLower(c.allowed[0]), "MIT", "mit"}}
			for _, l := range lists {
				res.Evaluations++
				count("semantic_calls")
				if r := implSat(c.text, l); r.panicv != nil {
					k := &kase{Expr: c.text, ExprHex: hx(c.text), Allowed: l}
					f := failure{Stream: "oracle", What: fmt.Sprintf("Satisfies panicked: %v", r.panicv), Case: k, Impl: "PANIC", Expected: "a result or an error"}
					if wantShrink() {
						f.Case = shrinkSat(k, func(k *kase) bool { return implSat(k.Expr, k.Allowed).panicv != nil })
					}
					fail(f)
				}
				if v := implVal(l); v.panicv != nil {
					fail(failure{Stream: "oracle", What: fmt.Sprintf("ValidateLicenses panicked: %v", v.panicv), Case: &kase{Allowed: l}, Impl: "PANIC"})
				}
			}
			if e := implExt(c.text); e.panicv != nil {
				fail(failure{Stream: "oracle", What: fmt.Sprintf("ExtractLicenses panicked: %v", e.panicv), Case: &kase{Expr: c.text, ExprHex: hx(c.text)}, Impl: "PANIC"})
			}
		}
		// version comparison: every ordered pair of ids that read as versions of one family (whether or not the range table
		// covers the family), in the four +/no+ combinations
		byKey := map[string][]string{}
		for _, id := range append(append([]string{}, tblActive...), tblDeprecated...) {
			if strings.HasSuffix(id, "+") {
				continue
			}
			if f, v := versionOf(id); v.ok {
				byKey[f] = append(byKey[f], id)
			}
		}
		for _, ids := range byKey {
			for _, a := range ids {
				for _, b := range ids {
					for _, pr := range [][2]string{{a + "+", b}, {a, b + "+"}, {a + "+", b + "+"}, {a, b}} {
						res.Evaluations++
						count("version_pairs")
						if r := implSat(pr[0], []string{pr[1]}); r.panicv != nil {
							fail(failure{Stream: "oracle", What: fmt.Sprintf("Satisfies panicked while comparing versions: %v", r.panicv), Case: &kase{Expr: pr[0], ExprHex: hx(pr[0]), Allowed: []string{pr[1]}}, Impl: "PANIC", Expected: "a result or an error"})
						}
					}
				}
			}
		}
		// ids that share their first segment (OFL-1.1-RFN / OFL-1.1-no-RFN, CC-BY-SA-3.0-DE / CC-BY-NC-SA-3.0-DE, Latex2e /
		// Latex2e-translated-notice: one is the other with a piece cut out), both sides with '+', with and without a common
		// exception — code that looks for the family of ids the range table does not cover slices both texts
		{
			byStem := map[string][]string{}
			for _, id := range append(append([]string{}, tblActive...), tblDeprecated...) {
				if strings.HasSuffix(id, "+") {
					continue
				}
				st := id
				if i := strings.IndexByte(id, '-'); i > 0 {
					st = id[:i]
				}
				byStem[st] = append(byStem[st], id)
			}
			exc := tblExceptions[int(seed)%len(tblExceptions)]
			for _, ids := range byStem {
				if len(ids) < 2 {
					continue
				}
				if len(ids) > 24 && !thorough() {
					ids = append([]string{}, ids...)
					rng.Shuffle(len(ids), func(i, j int) { ids[i], ids[j] = ids[j], ids[i] })
					ids = ids[:24]
				}
				for _, a := range ids {
					for _, b := range ids {
						if a == b {
							continue
						}
						for _, pr := range [][2]string{{a + "+", b + "+"}, {a + "+ WITH " + exc, b + "+ WITH " + exc}} {
							res.Evaluations++
							count("same_stem_plus_pairs")
							if r := implSat(pr[0], []string{pr[1]}); r.panicv != nil {
								fail(failure{Stream: "oracle", What: fmt.Sprintf("Satisfies panicked while comparing two '+' terms whose ids share their first segment: %v", r.panicv), Case: &kase{Expr: pr[0], ExprHex: hx(pr[0]), Allowed: []string{pr[1]}}, Impl: "PANIC", Expected: "a result or an error"})
							}
						}
					}
				}
			}
		}
		// every sequence of up to three symbols of the token alphabet, tight and loose (what C05 enumerates for acceptance, here
		// under recover through every entry point: diagnostics that look back at earlier tokens index what may not be there)
		{
			alpha := []string{"MIT", "GPL-2.0", "Classpath-exception-2.0", "FOO", "LicenseRef-x", "DocumentRef-d", ":", "(", ")", "AND", "OR", "WITH", "+", "and", "GPL-2.0-or-later", "Apache-2.0-or-later"}
			var rec func(pre []string, d int)
			rec = func(pre []string, d int) {
				if len(pre) > 0 {
					natural := ""
					for i, t := range pre { // '+' and ':' abut what stands before them, '(' what follows, ':' also what follows
						if i > 0 && t != "+" && t != ":" && t != ")" && pre[i-1] != "(" && pre[i-1] != ":" {
							natural += " "
						}
						natural += t
					}
					for _, text := range uniqueStrings([]string{strings.Join(pre, " "), strings.Join(pre, ""), natural}) {
						count("token_sequences")
						if f := c03Probe(text, false); f != nil {
							fail(*f)
						}
					}
				}
				if d == 0 {
					return
				}
				for _, a := range alpha {
					rec(append(append([]string{}, pre...), a), d-1)
				}
			}
			rec(nil, 3)
		}
		// non-ASCII, confusable and odd-whitespace texts (Unicode-aware helpers change byte lengths and equalities)
		for _, s := range unicodeStream(scale(60, 400)) {
			count("unicode_stream")
			if f := c03Probe(s, true); f != nil {
				fail(*f)
			}
		}
		// EVERY listed id once beside a partner of each kind, through every entry point (code that treats some ids specially —
		// deprecated ids, ids at the end of a version group, ids with a replacement — indexes tables with what it finds)
		{
			partners := []string{"GPL-2.0-only", "MIT+", "LicenseRef-a", "GPL-3.0-or-later WITH Classpath-exception-2.0", "Apache-2.0-or-later"}
			ids := append(append([]string{}, tblActive...), tblDeprecated...)
			for i, id := range ids {
				id = strings.TrimSuffix(id, "+")
				pa := partners[i%len(partners)]
				pb := partners[(i/len(partners)+1)%len(partners)]
				texts := []string{pb + " AND (" + id + " OR " + pa + ")", id + "+ AND " + pb, id + " WITH " + tblExceptions[i%len(tblExceptions)] + " OR " + pa}
				for _, p := range partners { // every id meets every kind of partner at least once
					texts = append(texts, id+" OR "+p)
				}
				for _, text := range texts {
					count("every_id_with_partner")
					if f := c03Probe(text, true); f != nil {
						fail(*f)
					}
					for _, l := range [][]string{{id}, {pa, id + "+"}, {id, pb, id}} {
						if r := implSat(text, l); r.panicv != nil {
							fail(failure{Stream: "oracle", What: fmt.Sprintf("Satisfies panicked: %v", r.panicv), Case: &kase{Expr: text, ExprHex: hx(text), Allowed: l}, Impl: "PANIC"})
						}
					}
				}
			}
		}
		// unknown words of EVERY length from 1 to 140 bytes, bare and with each suffix / '+' (fixed-size buffers that hold the
		// word plus a suffix)
		for n := 1; n <= 140; n++ {
			wd := strings.Repeat("q", n)
			if n%3 == 0 {
				wd = strings.Repeat("Ab-9.", n)[:n]
			}
			for _, text := range []string{wd + "+", wd + "-or-later", wd + "-only+", "MIT WITH " + wd + "+", "LicenseRef-" + wd + "+"} {
				count("every_length_words")
				if f := c03Probe(text, false); f != nil {
					fail(*f)
				}
			}
		}
		// every DEPRECATED id against every active id, one side carrying a WITH exception (tables of "replaced by" pairs are
		// indexed with what the split of a replacement yields)
		{
			e := genException()
			for _, d := range tblDeprecated {
				d = strings.TrimSuffix(d, "+")
				for i, a := range tblActive {
					_ = i
					res.Evaluations += 2
					count("deprecated_x_active_with")
					if r := implSat(d, []string{a + " WITH " + e}); r.panicv != nil {
						fail(failure{Stream: "oracle", What: fmt.Sprintf("Satisfies panicked: %v", r.panicv), Case: &kase{Expr: d, ExprHex: hx(d), Allowed: []string{a + " WITH " + e}}, Impl: "PANIC"})
					}
					if r := implSat(a+" WITH "+e, []string{d, d + " WITH " + e}); r.panicv != nil {
						fail(failure{Stream: "oracle", What: fmt.Sprintf("Satisfies panicked: %v", r.panicv), Case: &kase{Expr: a + " WITH " + e, ExprHex: hx(a + " WITH " + e), Allowed: []string{d, d + " WITH " + e}}, Impl: "PANIC"})
					}
				}
			}
		}
		// words that mean something in SPDX documents or package metadata but are no license ids, in every argument position
		for _, wd := range specialWords {
			for _, text := range []string{wd, "MIT OR " + wd, "(" + wd + ")", wd + "+", "MIT WITH " + wd, wd + " WITH " + wd} {
				count("special_words")
				if f := c03Probe(text, true); f != nil {
					fail(*f)
				}
			}
			for _, l := range [][]string{{wd}, {"MIT", wd}, {wd, "MIT"}, {wd, wd}, {"MIT", wd, "ISC", wd}, {wd, "LicenseRef-a", wd + "+"}} {
				res.Evaluations++
				if v := implVal(l); v.panicv != nil {
					fail(failure{Stream: "oracle", What: fmt.Sprintf("ValidateLicenses panicked on a slice: %v", v.panicv), Case: &kase{Allowed: l}, Impl: "PANIC"})
				}
				for _, e := range []string{"MIT", wd, "MIT AND ISC"} {
					if r := implSat(e, l); r.panicv != nil {
						fail(failure{Stream: "oracle", What: fmt.Sprintf("Satisfies panicked on an allowed list: %v", r.panicv), Case: &kase{Expr: e, ExprHex: hx(e), Allowed: l}, Impl: "PANIC"})
					}
				}
			}
		}
		// slices
		for _, l := range [][]string{nil, {}, {""}, {"", ""}, {"MIT", ""}, {"(", "MIT"}, {"MIT AND ISC"}} {
			res.Evaluations++
			if v := implVal(l); v.panicv != nil {
				fail(failure{Stream: "oracle", What: "ValidateLicenses panicked on a slice", Case: &kase{Allowed: l}, Impl: "PANIC"})
			}
			if r := implSat("MIT", l); r.panicv != nil {
				fail(failure{Stream: "oracle", What: "Satisfies panicked on an allowed list", Case: &kase{Expr: "MIT", Allowed: l}, Impl: "PANIC"})
			}
		}
		// size probes
		depth := scale(20000, 100000)
		big := []string{
			strings.Repeat("(", depth) + "MIT" + strings.Repeat(")", depth),
			strings.Repeat("(", depth) + "MIT",
			"MIT" + strings.Repeat(" AND MIT", scale(2000, 20000)),
			"MIT" + strings.Repeat(" OR ISC", scale(2000, 20000)),
			strings.Repeat("A", scale(100000, 1000000)),
			"LicenseRef-" + strings.Repeat("a", scale(100000, 1000000)),
			strings.Repeat("MIT AND ", scale(2000, 20000)),
			strings.Repeat("+", 5000), strings.Repeat(" ", 100000) + "+",
		}
		for _, s := range big {
			res.Evaluations++
			count("size_probes")
			k := &kase{Extra: map[string]string{"generated": fmt.Sprintf("%d bytes starting %q", len(s), s[:min(len(s), 24)])}}
			if v := implVal([]string{s}); v.panicv != nil {
				fail(failure{Stream: "oracle", What: fmt.Sprintf("ValidateLicenses panicked on a large input: %v", v.panicv), Case: k, Impl: "PANIC"})
			}
			if e := implExt(s); e.panicv != nil {
				fail(failure{Stream: "oracle", What: fmt.Sprintf("ExtractLicenses panicked on a large input: %v", e.panicv), Case: k, Impl: "PANIC"})
			}
		}
	}
	replays["C03"] = func(k *kase) *failure {
		if k.Expr == "" && k.ExprHex != "" && k.ExprHex != "." {
			k.Expr = unhx(k.ExprHex)
		}
		if len(k.Allowed) > 0 {
			if r := implSat(k.Expr, k.Allowed); r.panicv != nil {
				return &failure{Stream: "oracle", What: fmt.Sprintf("Satisfies panicked: %v", r.panicv), Case: k, Impl: "PANIC"}
			}
			if v := implVal(k.Allowed); v.panicv != nil {
				return &failure{Stream: "oracle", What: fmt.Sprintf("ValidateLicenses panicked: %v", v.panicv), Case: k, Impl: "PANIC"}
			}
			return nil
		}
		return c03Probe(k.Expr, false)
	}
}

// shrinkSat: drop allowed entries, then shrink the expression text, while `bad` holds
func shrinkSat(k *kase, bad func(*kase) bool) *kase {
	cur := *k
	for changed := true; changed; {
		changed = false
		for i := range cur.Allowed {
			if len(cur.Allowed) <= 1 {
				break
			}
			l := append(append([]string{}, cur.Allowed[:i]...), cur.Allowed[i+1:]...)
			c := cur
			c.Allowed = l
			if bad(&c) {
				cur, changed = c, true
				break
			}
		}
	}
	for _, e := range []string{"MIT", "ISC", "Apache-2.0"} {
		c := cur
		c.Expr, c.ExprHex = e, hx(e)
		if bad(&c) {
			cur = c
			break
		}
	}
	return &cur
}

func c03ProbeQuiet(s string) bool {
	return implVal([]string{s}).panicv != nil || implExt(s).panicv != nil || implSat(s, []string{"MIT"}).panicv != nil || implSat("MIT", []string{s}).panicv != nil
}

// shrinkText greedily deletes tokens, then bytes, while `bad` holds
func shrinkText(k *kase, bad func(*kase) bool) *kase {
	if k == nil || len(k.Allowed) > 0 {
		return k
	}
	cur := k.Expr
	mk := func(s string) *kase { return &kase{Expr: s, ExprHex: hx(s), Extra: k.Extra} }
	for changed := true; changed; {
		changed = false
		toks := tokenize(cur)
		for i := range toks {
			c := strings.Join(append(append([]string{}, toks[:i]...), toks[i+1:]...), " ")
			if c != cur && bad(mk(c)) {
				cur, changed = c, true
				break
			}
		}
		if changed {
			continue
		}
		for i := 0; i < len(cur); i++ {
			c := cur[:i] + cur[i+1:]
			if bad(mk(c)) {
				cur, changed = c, true
				break
			}
		}
	}
	return mk(cur)
}

// ---------------------------------------------------------------- C04

func c04String(s string, compound int) *failure {
	// compound: 1 the generator knows s is a valid compound expression, 0 a valid single term, -1 unknown
	res.Evaluations++
	k := &kase{Expr: s, ExprHex: hx(s)}
	v := implVal([]string{s})
	e := implExt(s)
	r := implSat(s, []string{"MIT"})
	r2 := implSat("MIT", []string{s})
	if v.panicv != nil || e.panicv != nil || r.panicv != nil || r2.panicv != nil {
		return &failure{Stream: "oracle", What: "an entry point panicked: neither a result nor an error", Case: k, Impl: fmt.Sprintf("Validate=%s Extract=%s Satisfies=%s asEntry=%s", v, e, r, r2), Expected: "results or errors"}
	}
	valid := v.ok
	if valid {
		count("valid")
	} else {
		count("invalid")
	}
	nontrivial(s)
	correspondNorm("P "+hx(s), map[bool]string{true: "ok", false: "err"}[valid], "validity: model parse vs ValidateLicenses", k, okErr)
	if valid != (len(v.invalid) == 0) || (!valid && (len(v.invalid) != 1 || v.invalid[0] != s)) {
		return &failure{Stream: "oracle", What: "ValidateLicenses' flag and its list of invalid elements disagree", Case: k, Impl: v.String()}
	}
	if (e.err == nil) != valid {
		return &failure{Stream: "oracle", What: "ExtractLicenses and ValidateLicenses disagree on validity", Case: k, Impl: "Extract=" + e.String(), Expected: fmt.Sprintf("valid=%v", valid)}
	}
	if (r.err == nil) != valid {
		return &failure{Stream: "oracle", What: "Satisfies (expression side) and ValidateLicenses disagree on validity", Case: k, Impl: "Satisfies=" + r.String(), Expected: fmt.Sprintf("valid=%v", valid)}
	}
	if e.err != nil && e.list != nil {
		return &failure{Stream: "oracle", What: "ExtractLicenses returned a non-nil result together with an error", Case: k, Impl: joinShow(e.list)}
	}
	if r.err != nil && r.ok || r2.err != nil && r2.ok {
		return &failure{Stream: "oracle", What: "Satisfies returned true together with an error", Case: k}
	}
	if !valid && r2.err == nil {
		return &failure{Stream: "oracle", What: "Satisfies accepted an invalid allowed entry", Case: &kase{Expr: "MIT", Allowed: []string{s}}, Impl: r2.String(), Expected: "err"}
	}
	if valid && compound == 0 && r2.err != nil {
		return &failure{Stream: "oracle", What: "Satisfies rejected a valid single-term allowed entry", Case: &kase{Expr: "MIT", Allowed: []string{s}}, Impl: r2.String(), Expected: "no error"}
	}
	if valid && compound == 1 && r2.err == nil {
		return &failure{Stream: "oracle", What: "Satisfies accepted a compound (AND/OR) allowed entry", Case: &kase{Expr: "MIT", Allowed: []string{s}}, Impl: r2.String(), Expected: "err"}
	}
	return nil
}

func c04List(l []string) *failure {
	res.Evaluations++
	k := &kase{Allowed: l}
	v := implVal(l)
	if v.panicv != nil {
		return &failure{Stream: "oracle", What: "ValidateLicenses panicked", Case: k, Impl: "PANIC"}
	}
	var want []string
	for _, s := range l {
		if !implValid(s) {
			want = append(want, s)
		}
	}
	correspond("V "+hxl(l), v.String(), "ValidateLicenses: model vs implementation", k)
	if v.ok != (len(want) == 0) || hxl(v.invalid) != hxl(want) {
		return &failure{Stream: "oracle", What: "ValidateLicenses does not return exactly the invalid elements, in order and with multiplicity", Case: k, Impl: v.String(), Expected: fmt.Sprintf("%v %s", len(want) == 0, hxl(want))}
	}
	// (a nil slice and an empty slice both hold "no invalid elements": the property does not distinguish them)
	count(fmt.Sprintf("list_invalid_%d", min(len(want), 5)))
	// Satisfies errs iff the list is empty or some entry is invalid or compound
	r := implSat("MIT", l)
	if r.panicv != nil {
		return &failure{Stream: "oracle", What: "Satisfies panicked", Case: &kase{Expr: "MIT", Allowed: l}, Impl: "PANIC"}
	}
	wantErr := len(l) == 0
	for _, s := range l {
		if !implValid(s) || implSat("MIT", []string{s}).err != nil {
			wantErr = true
		}
	}
	m := "S " + hx("MIT") + " " + hxl(l)
	correspondNorm(m, r.String(), "Satisfies error/no-error on a list: model vs implementation", &kase{Expr: "MIT", Allowed: l}, func(s string) string {
		if strings.HasPrefix(s, "err") {
			return "err"
		}
		return "ok"
	})
	if (r.err != nil) != wantErr {
		return &failure{Stream: "oracle", What: "Satisfies' error does not follow from its entries one by one", Case: &kase{Expr: "MIT", Allowed: l}, Impl: r.String(), Expected: fmt.Sprintf("error=%v", wantErr)}
	}
	return nil
}

func init() {
	props["C04"] = func() {
		decisive['P'] = "an entry point returns an error for a valid expression, or none for an invalid one (validity = the documented grammar = model `valid`: C05.parseTokens_iff, C04.validate_spec)"
		res.Rule = "strings: generated valid expressions (single terms and compounds), their random mutations (truncation, deletion, insertion, duplication, tight joining, byte substitution) and fixed edge cases; each is given to ValidateLicenses, ExtractLicenses, Satisfies (both argument positions). Lists: length 0-12 mixing valid, invalid, compound and repeated entries. Non-trivial & distinct = distinct strings"
		n := scale(10000, 120000)
		for i := 0; i < n && !timeUp("props_text.go:342"); i++ {
			var s string
			compound := -1
			switch rng.Intn(4) {
			case 0:
				t := genValidTerm()
				s, compound = t.text, 0
				if rng.Intn(3) == 0 {
					s = "(" + spaces() + s + spaces() + ")"
				}
			case 1:
				c := genTreeCase(4, 5)
				s = c.text
				if c.t.isLeaf() {
					compound = 0
				} else {
					compound = 1
				}
				if !implValid(s) {
					compound = -1
				}
			default:
				s = mutate(genTreeCase(3, 4).text)
				if rng.Intn(3) == 0 {
					s = mutate(s)
				}
			}
			if f := c04String(s, compound); f != nil {
				fail(*f)
			}
			if compound >= 0 && i%3 == 0 {
				// the same text with its letter case folded, right after the original (operators and ref prefixes
				// are case-sensitive, so most of these are invalid; all entry points must still agree)
				for _, v := range []string{strings.ToLower(s), strings.ToUpper(s)} {
					if v != s {
						count("case_folded_echo")
						if f := c04String(v, -1); f != nil {
							fail(*f)
						}
					}
				}
			}
			if i%997 == 0 {
				sample(show(s))
			}
			if len(corrQ) > 50000 {
				flushCorr()
			}
		}
		for _, s := range []string{"", " ", "()", "MIT", "mit", "MIT AND ISC", "(MIT)", "MIT OR", "FOO"} {
			if f := c04String(s, -1); f != nil {
				fail(*f)
			}
		}
		// lists whose entries are FRAGMENTS of one valid expression (cut at token boundaries): each fragment alone is invalid
		// (or a different expression), while any re-joining of the entries — by spaces, by OR, in parentheses — is valid again;
		// an implementation that parses the list as one text accepts them
		{
			frag := func(text string) {
				toks := strings.Fields(strings.NewReplacer("(", " ( ", ")", " ) ").Replace(text))
				if len(toks) < 2 {
					return
				}
				for cuts := 1; cuts <= 3 && cuts < len(toks); cuts++ {
					pos := rng.Perm(len(toks) - 1)[:cuts]
					sort.Ints(pos)
					var l []string
					prev := 0
					for _, c := range pos {
						l = append(l, strings.Join(toks[prev:c+1], " "))
						prev = c + 1
					}
					l = append(l, strings.Join(toks[prev:], " "))
					count("fragment_lists")
					if f := c04List(l); f != nil {
						fail(*f)
					}
				}
			}
			for _, text := range []string{"(MIT) OR (ISC)", "(MIT OR ISC)", "((MIT) OR (ISC))", "(MIT) AND (ISC) OR (Zlib)", "MIT OR ISC", "MIT AND ISC OR Zlib",
				"GPL-2.0-only WITH Classpath-exception-2.0", "DocumentRef-a : LicenseRef-b", "(MIT", "MIT)"} {
				for r := 0; r < 4; r++ {
					frag(text)
				}
			}
			for _, l := range [][]string{{"(MIT", "ISC)"}, {"(MIT", "Zlib", "ISC)"}, {"((MIT", "ISC))"}, {"MIT)", "(ISC"}, {"(MIT", "ISC)", "MIT"}, {"MIT", "(MIT", "ISC)"},
				{"MIT OR", "ISC"}, {"MIT", "OR ISC"}, {"MIT) OR (ISC"}, {"(", "MIT", ")"}, {"MIT WITH", "Classpath-exception-2.0"}, {"DocumentRef-a:", "LicenseRef-b"}} {
				count("fragment_lists")
				if f := c04List(l); f != nil {
					fail(*f)
				}
			}
			nf := scale(150, 1500)
			for i := 0; i < nf && !timeUp("props_text.go:fragments"); i++ {
				c := genTreeCase(3, 4)
				frag(c.text)
				frag("(" + c.text + ")")
			}
		}
		// boundary sizes of nesting and of flat chains: all entry points (and the model) must agree there as well
		for _, n := range []int{15, 16, 17, 63, 64, 65, 127, 128, 129, 255, 256, 257, 300, 1000} {
			for _, text := range []string{strings.Repeat("(", n) + "MIT" + strings.Repeat(")", n), "MIT" + strings.Repeat(" OR ISC", n), "(MIT)" + strings.Repeat(" AND (ISC)", n)} {
				comp := 1
				if !strings.Contains(text, " ") {
					comp = 0
				}
				count("boundary_sizes")
				if f := c04String(text, comp); f != nil {
					fail(*f)
				}
			}
		}
		// reference names that look like operators, between complete operands with the operators missing; and spelling
		// experiments on special ids / bases that are no ids themselves (not passed through the implementation's validity filter)
		for _, rn := range []string{"AND", "OR", "WITH", "and", "dual.or.commercial", "MIT"} {
			for _, c := range []string{"MIT LicenseRef-%s ISC", "MIT DocumentRef-%s ISC", "MIT AND LicenseRef-%s", "MIT LicenseRef-%s Classpath-exception-2.0",
				"(MIT LicenseRef-%s LicenseRef-x) AND ISC", "MIT DocumentRef-%s:LicenseRef-x ISC", "MIT WITH LicenseRef-%s", "MIT LicenseRef-%s LicenseRef-%s ISC"} {
				count("ref_name_probes")
				if f := c04String(strings.ReplaceAll(c, "%s", rn), -1); f != nil {
					fail(*f)
				}
			}
		}
		for _, wd := range append(append([]string{}, specialIDs...), unlistedBases...) {
			wd = strings.TrimSuffix(wd, "+")
			for _, suf := range []string{"", "+", "-or-later", "-only", "-or-later+", "-only+", "++", "-or-later++", "+++"} {
				w2 := wd
				if rng.Intn(3) == 0 {
					w2 = caseMut(wd, rng.Intn(3))
				}
				count("spelling_experiments")
				if f := c04String(w2+suf, -1); f != nil {
					fail(*f)
				}
			}
		}
		// every deprecated id and every special id, in each '+'-spelling, in front of WITH (a rewrite of legacy ids that have an
		// exception in their name — `GPL-2.0-with-GCC-exception` — meets the explicit exception here)
		for i, wd := range append(append([]string{}, tblDeprecated...), specialIDs...) {
			wd = strings.TrimSuffix(wd, "+")
			for j, suf := range []string{"", "+", "-or-later", "-only+"} {
				e := tblExceptions[(i*7+j)%len(tblExceptions)]
				count("spelling_with_exception")
				if f := c04String(wd+suf+" WITH "+e, -1); f != nil {
					fail(*f)
				}
				if j == 1 {
					if f := c04String("ISC AND ("+wd+suf+" WITH "+e+" OR MIT)", -1); f != nil {
						fail(*f)
					}
				}
			}
		}
		for i, e := range tblExceptions {
			if !thorough() && i%3 != int(seed%3) {
				continue
			}
			for _, suf := range []string{"", "-only", "-or-later", "+", "-only+", "-ONLY"} {
				for _, ctx := range []string{"MIT WITH %s", "GPL-2.0-or-later+ WITH %s OR ISC", "(Apache-2.0+ WITH %s AND ISC)"} {
					e2 := e
					if i%2 == 0 {
						e2 = strings.ToLower(e)
					}
					count("exception_spelling_experiments")
					if f := c04String(fmt.Sprintf(ctx, e2+suf), -1); f != nil {
						fail(*f)
					}
				}
			}
		}
		// valid expressions whose disjunctive form is wide (numbers of alternatives around 2^16): a limit on the expansion must
		// not turn a valid expression into an error in one entry point only
		for _, widths := range [][]int{{257, 257}, {256, 256}, {41, 41, 41}, {17, 16, 16, 16}, {16, 16, 16, 16}} {
			var groups []string
			k := 0
			for _, wd := range widths {
				p := make([]string, wd)
				for i := range p {
					p[i] = "LicenseRef-w" + itoa(k)
					k++
				}
				groups = append(groups, "("+strings.Join(p, " OR ")+")")
			}
			text := strings.Join(groups, " AND ")
			count("wide_products")
			if f := c04String(text, 1); f != nil {
				fail(*f)
			}
		}
		// words that mean something in SPDX documents or package metadata but are no license ids
		for _, wd := range specialWords {
			for _, text := range []string{wd, "MIT OR " + wd, wd + " AND MIT", "(" + wd + ")", wd + "+", "MIT WITH " + wd} {
				count("special_words")
				if f := c04String(text, -1); f != nil {
					fail(*f)
				}
			}
			for _, l := range [][]string{{wd}, {"MIT", wd}, {wd, "MIT"}, {wd, wd}, {"MIT", wd, "ISC", wd}} {
				if f := c04List(l); f != nil {
					fail(*f)
				}
			}
		}
		pool := func() string {
			switch rng.Intn(5) {
			case 0:
				return mutate(genTreeCase(3, 3).text)
			case 1:
				return genTreeCase(3, 3).text
			case 2:
				return pick([]string{"", " ", "FOO", "MIT AND ISC", "(", "MIT WITH"})
			default:
				return genValidTerm().text
			}
		}
		for i := 0; i < scale(2500, 25000) && !timeUp("props_text.go:408"); i++ {
			var l []string
			n := rng.Intn(13)
			if i%25 == 0 {
				// boundary sizes (batching, chunking and buffer thresholds), with the odd entries anywhere incl. the tail
				n = pick3(15, 16, 17, 31, 32, 33, 63, 64, 65, 66, 67, 71, 100, 127, 128, 129, 130, 255, 256, 257, 300)
			}
			for j := n; j > 0; j-- {
				if len(l) > 0 && rng.Intn(5) == 0 {
					l = append(l, l[rng.Intn(len(l))])
				} else {
					l = append(l, pool())
				}
			}
			if f := c04List(l); f != nil {
				fail(*f)
			}
			if i%499 == 0 {
				sample(map[string]interface{}{"list": l})
			}
		}
		for _, s := range unicodeStream(scale(40, 300)) {
			count("unicode_stream")
			if f := c04String(s, -1); f != nil {
				fail(*f)
			}
		}
		for _, l := range whitespaceLists() {
			count("whitespace_lists")
			if f := c04List(l); f != nil {
				fail(*f)
			}
		}
		// LAST: "valid input never produces an error" also after a caller has written into slices the library handed out
		if f := gettersHandOutCopies(); f != nil {
			fail(*f)
		} else {
			for _, id := range []string{tblActive[0], tblActive[len(tblActive)-1], "MIT", tblDeprecated[0]} {
				if f := c04String(strings.TrimSuffix(id, "+"), 0); f != nil {
					fail(*f)
				}
			}
		}
		loadTables()
	}
	replays["C04"] = func(k *kase) *failure {
		if k.Expr == "" && k.ExprHex != "" && k.ExprHex != "." {
			k.Expr = unhx(k.ExprHex)
		}
		if len(k.Allowed) > 0 && (k.Expr == "" || k.Expr == "MIT") {
			if f := c04List(k.Allowed); f != nil {
				return f
			}
			if len(k.Allowed) == 1 {
				return c04String(k.Allowed[0], -1)
			}
			return nil
		}
		return c04String(k.Expr, -1)
	}
}

// ---------------------------------------------------------------- C05

// symbol classes of the property's token alphabet
type sym struct {
	class string // LIC EXC UNK LREF DREF COLON LP RP AND OR WITH PLUS SPPLUS LOWOP
	text  string
}

// reference recogniser written from the grammar in the property text, over symbol classes
type recog struct {
	s []sym
	i int
}

func (r *recog) peek() string {
	if r.i < len(r.s) {
		return r.s[r.i].class
	}
	return ""
}
func (r *recog) atom() bool {
	switch r.peek() {
	case "LP":
		r.i++
		if !r.expr() || r.peek() != "RP" {
			return false
		}
		r.i++
		return true
	case "DREF":
		r.i++
		if r.peek() != "COLON" {
			return false
		}
		r.i++
		if r.peek() != "LREF" {
			return false
		}
		r.i++
		return true
	case "LREF":
		r.i++
		return true
	case "LIC":
		r.i++
		if r.peek() == "PLUS" {
			r.i++
		}
		if r.peek() == "WITH" {
			r.i++
			if r.peek() != "EXC" {
				return false
			}
			r.i++
		}
		return true
	}
	return false
}
func (r *recog) and() bool {
	if !r.atom() {
		return false
	}
	for r.peek() == "AND" {
		r.i++
		if !r.atom() {
			return false
		}
	}
	return true
}
func (r *recog) expr() bool {
	if !r.and() {
		return false
	}
	for r.peek() == "OR" {
		r.i++
		if !r.and() {
			return false
		}
	}
	return true
}

func grammarAccepts(s0 []sym) bool {
	// `X` directly followed by '+' is ONE license id when `X+` is itself on the lists (the six deprecated GNU ids)
	var s []sym
	for i := 0; i < len(s0); i++ {
		if s0[i].class == "LIC" && i+1 < len(s0) && s0[i+1].class == "PLUS" {
			if _, ok := canonicalIn(tblDeprecated, s0[i].text+"+"); ok {
				s = append(s, s0[i])
				i++
				continue
			}
		}
		s = append(s, s0[i])
	}
	for _, x := range s {
		if x.class == "UNK" || x.class == "SPPLUS" || x.class == "LOWOP" {
			return false
		}
	}
	r := &recog{s: s}
	return len(s) > 0 && r.expr() && r.i == len(s)
}

// rendering: loose = single spaces between tokens ('+' abuts the preceding token, ' +' has the space);
// tight = additionally no space next to '(' ')' ':'
func isPunct(x sym) bool { return x.class == "LP" || x.class == "RP" || x.class == "COLON" }

func renderSyms(s []sym, tight bool) string {
	var b strings.Builder
	for i, x := range s {
		if x.class == "SPPLUS" {
			b.WriteString(" +")
			continue
		}
		if i > 0 && x.class != "PLUS" {
			if !(tight && (isPunct(x) || isPunct(s[i-1]))) {
				b.WriteByte(' ')
			}
		}
		b.WriteString(x.text)
	}
	return b.String()
}

func encodeSyms(s []sym) string {
	o := make([]string, len(s))
	for i, x := range s {
		o[i] = x.class + ":" + hx(x.text)
	}
	return strings.Join(o, ",")
}

func decodeSyms(e string) []sym {
	var s []sym
	for _, p := range strings.Split(e, ",") {
		q := strings.SplitN(p, ":", 2)
		if len(q) == 2 {
			s = append(s, sym{q[0], unhx(q[1])})
		}
	}
	return s
}

func c05Alphabet() []sym {
	return []sym{
		{"LIC", "MIT"}, {"LIC", "GPL-2.0"}, {"LIC", "GPL-2.0-or-later"}, {"LIC", "Apache-2.0-only"}, {"LIC", "apache-2.0-or-later"},
		{"EXC", "Classpath-exception-2.0"}, {"UNK", "FOO-1.0"},
		{"LREF", "LicenseRef-x"}, {"DREF", "DocumentRef-d"}, {"COLON", ":"}, {"LP", "("}, {"RP", ")"},
		{"AND", "AND"}, {"OR", "OR"}, {"WITH", "WITH"}, {"PLUS", "+"}, {"SPPLUS", " +"}, {"LOWOP", "and"},
	}
}

// A tight '+' after ')' or ':' etc. still has no space before it; a '+' right after '(' is "(+".
// The recogniser's verdict holds for renderings in which tokenisation is the intended one.  Two
// renderings are excluded because the bytes themselves denote a different token sequence:
// PLUS directly after a LIC whose text + "-or-later" is listed is still [LIC +] semantically (fine), and
// a PLUS after a space-less predecessor never reads as ' +'.
func c05Check(s []sym, tight bool) *failure {
	res.Evaluations++
	text := renderSyms(s, tight)
	want := grammarAccepts(s)
	got := implVal([]string{text})
	k := &kase{Expr: text, ExprHex: hx(text), Extra: map[string]string{"symbols": symString(s), "syms": encodeSyms(s), "tight": fmt.Sprint(tight)}}
	if got.panicv != nil {
		count("panic_counted_as_reject")
	}
	acc := got.panicv == nil && got.ok
	if want {
		count("grammatical")
		nontrivial(text)
	} else {
		count("ungrammatical")
	}
	correspondNorm("P "+hx(text), map[bool]string{true: "ok", false: "err"}[acc], "accept/reject: model parse vs ValidateLicenses", k, okErr)
	hookCorrespond(text, k, true, false, false)
	if acc != want {
		return &failure{Stream: "oracle", What: "acceptance differs from the documented grammar", Case: k, Impl: fmt.Sprint(acc), Expected: fmt.Sprint(want)}
	}
	return nil
}

// lexContexts: one id in its spellings, placed in the syntactic contexts where scanner features interact
func lexContexts(id string) []string {
	spell := []string{id, id + "+", id + "-only", id + "-or-later", id + "-or-later+", id + "-only+", strings.ToLower(id) + "-or-later", strings.ToUpper(id)}
	ctx := []string{"%s", "(%s)", "( %s )", "((%s))", "%s AND MIT", "MIT AND %s", "(%s) OR ISC", "ISC OR (%s)", "%s WITH Classpath-exception-2.0",
		"(%s WITH Classpath-exception-2.0)", "(%s WITH Classpath-exception-2.0) AND MIT", "MIT OR (%s AND ISC)", "MIT OR (ISC AND %s)", "%s)", "(%s",
		"%s +", "%s WITH", "%s:", "%s AND", "%s OR %s", "(%s AND %s) OR MIT", "%s  AND  (MIT)", "LicenseRef-x AND %s", "%s AND LicenseRef-x",
		"MIT WITH %s", "(MIT WITH %s)",
		// the same text once inside a reference name and once as a license
		"LicenseRef-%s AND %s", "DocumentRef-%s:LicenseRef-notice OR %s", "%s AND LicenseRef-%s", "LicenseRef-%s OR %s AND ISC"}
	var out []string
	for _, sp := range spell {
		for _, c := range ctx {
			out = append(out, strings.ReplaceAll(c, "%s", sp))
		}
	}
	return out
}

// extractSetNorm: "ok a,b,c" with the elements sorted (the order of ExtractLicenses' output is C13's business)
func extractSetNorm(s string) string {
	if !strings.HasPrefix(s, "ok") {
		return "err"
	}
	l := unhxl(strings.TrimSpace(strings.TrimPrefix(s, "ok")))
	return "ok " + hxl(uniqSorted(l))
}

func foldIn(list []string, w string) bool { _, ok := canonicalIn(list, w); return ok }

// specWord: (is a license id, is an exception id) according to the property text
func specWord(w string) (lic, exc bool) {
	for _, c := range []byte(w) {
		if !isIDByte(c) {
			return false, false
		}
	}
	if w == "" {
		return false, false
	}
	if foldIn(tblActive, w) || foldIn(tblDeprecated, w) {
		return true, false
	}
	if foldIn(tblExceptions, w) {
		return false, true
	}
	for _, suf := range []string{"-only", "-or-later"} {
		if strings.HasSuffix(w, suf) {
			b := strings.TrimSuffix(w, suf)
			if foldIn(tblActive, b) {
				return true, false
			}
			if foldIn(tblExceptions, b) {
				return false, true
			}
		}
	}
	return false, false
}

// c05Word: the word alone, after WITH, and followed by '+', against the reference classification
func c05Word(w string) *failure {
	for _, c := range []byte(w) {
		if !isIDByte(c) {
			return nil // not a single word ('+' etc. belong to the grammar level)
		}
	}
	lic, exc := specWord(w)
	if strings.HasPrefix(w, "LicenseRef-") || strings.HasPrefix(w, "DocumentRef-") || strings.HasPrefix(w, "WITH") || strings.HasPrefix(w, "AND") || strings.HasPrefix(w, "OR") {
		return nil // not a plain word for the tokeniser (grammar level)
	}
	type probe struct {
		text string
		want bool
		what string
	}
	probes := []probe{
		{w, lic, "a word is accepted as a one-term expression iff it is a license id (listed, or an active id with one documented suffix)"},
		{"MIT WITH " + w, exc, "a word is accepted after WITH iff it is an exception id"},
		{"ISC AND (" + w + ")", lic, "a word is accepted as an operand iff it is a license id"},
	}
	if strings.HasSuffix(w, "-or-later") && exc {
		// an exception id with -or-later is rewritten to `exc +`, which no grammar rule accepts
		probes[1].want = false
	}
	for _, p := range probes {
		res.Evaluations++
		count("word_probes")
		got := implVal([]string{p.text})
		acc := got.panicv == nil && got.ok
		k := &kase{Expr: p.text, ExprHex: hx(p.text), Extra: map[string]string{"word": hx(w)}}
		correspondNorm("P "+hx(p.text), map[bool]string{true: "ok", false: "err"}[acc], "accept/reject: model parse vs ValidateLicenses", k, okErr)
		hookCorrespond(p.text, k, true, false, false)
		if p.want {
			nontrivial(p.text)
		}
		if acc != p.want {
			return &failure{Stream: "oracle", What: p.what, Case: k, Impl: fmt.Sprint(acc), Expected: fmt.Sprint(p.want)}
		}
	}
	return nil
}

func symString(s []sym) string {
	o := make([]string, len(s))
	for i, x := range s {
		o[i] = x.class
	}
	return strings.Join(o, " ")
}

func init() {
	props["C05"] = func() {
		decisive['P'] = "the accepted language differs from the documented grammar (model `valid`, proved to accept exactly the grammar: C05.parseTokens_iff, accepts_spaced_iff)"
		res.Rule = "every sequence of length <= 4 (thorough <= 5) over the property's alphabet (18 symbols: 5 kinds of license id (active, deprecated, listed -or-later, -only form, unlisted -or-later form in lower case), exception id, unknown id, LicenseRef, DocumentRef, ':', '(', ')', AND, OR, WITH, '+', ' +', lower-case operator), each in loose and in tight spacing, + random sequences of length 5-12 biased towards grammatical ones; reference = a recogniser written from the grammar in the property text. Non-trivial & distinct = distinct grammatical texts"
		alpha := c05Alphabet()
		maxLen := scale(4, 5)
		seq := make([]sym, 0, maxLen)
		var enum func(d int)
		enum = func(d int) {
			if len(seq) > 0 {
				for _, tight := range []bool{false, true} {
					if f := c05Check(seq, tight); f != nil {
						fail(*f)
					}
				}
			}
			if d == maxLen {
				return
			}
			for _, a := range alpha {
				seq = append(seq, a)
				enum(d + 1)
				seq = seq[:len(seq)-1]
			}
			if len(corrQ) > 100000 {
				flushCorr()
			}
		}
		enum(0)
		res.Distribution["enumerated"] = res.Evaluations
		// parentheses around EVERY contiguous token range of small grammatical sequences (a precedence level that takes
		// "an atom" from the wrong function accepts e.g. `( L ) WITH e`), once and twice
		{
			atoms := [][]sym{{alpha[0]}, {alpha[0], alpha[15]}, {alpha[0], alpha[14], alpha[5]}, {alpha[0], alpha[15], alpha[14], alpha[5]},
				{alpha[7]}, {alpha[8], alpha[9], alpha[7]}, {alpha[2]}, {alpha[3], alpha[15]}, {alpha[4], alpha[14], alpha[5]}}
			var bases [][]sym
			bases = append(bases, atoms...)
			for _, a := range atoms {
				for _, b := range atoms[:6] {
					for _, op := range []sym{alpha[12], alpha[13]} {
						bases = append(bases, append(append(append([]sym{}, a...), op), b...))
					}
				}
			}
			wrap := func(q []sym, i, j int) []sym {
				o := append([]sym{}, q[:i]...)
				o = append(o, alpha[10])
				o = append(o, q[i:j]...)
				o = append(o, alpha[11])
				return append(o, q[j:]...)
			}
			for _, b := range bases {
				for i := 0; i < len(b); i++ {
					for j := i + 1; j <= len(b); j++ {
						w1 := wrap(b, i, j)
						count("paren_wraps")
						for _, tight := range []bool{false, true} {
							if f := c05Check(w1, tight); f != nil {
								fail(*f)
							}
						}
						if len(b) <= 4 || rng.Intn(6) == 0 {
							i2 := rng.Intn(len(w1))
							j2 := i2 + 1 + rng.Intn(len(w1)-i2)
							if f := c05Check(wrap(w1, i2, j2), false); f != nil {
								fail(*f)
							}
							if f := c05Check(wrap(w1, i, j+2), true); f != nil { // the same range again: `((…))`
								fail(*f)
							}
						}
					}
				}
				if len(corrQ) > 100000 {
					flushCorr()
				}
			}
		}
		// every sequence up to a greater length over small sub-alphabets (the reference part, the suffix part, the bracket
		// part of the grammar): a production that recurses where it should not accepts `dref : dref : lref`
		for _, sub := range []struct {
			syms []sym
			n    int
		}{
			{[]sym{alpha[8], alpha[9], alpha[7]}, 6},
			{[]sym{alpha[0], alpha[15], alpha[14], alpha[5]}, scale(5, 6)},
			{[]sym{alpha[10], alpha[11], alpha[0], alpha[12]}, scale(6, 7)},
			{[]sym{alpha[7], alpha[14], alpha[5], alpha[15], alpha[13]}, 5},
		} {
			var rec func(q []sym)
			rec = func(q []sym) {
				if len(q) >= 5 { // shorter ones are in the full enumeration above
					count("sub_alphabet_sequences")
					if f := c05Check(q, len(q)%2 == 0); f != nil {
						fail(*f)
					}
				}
				if len(q) == sub.n {
					return
				}
				for _, a := range sub.syms {
					rec(append(append([]sym{}, q...), a))
				}
			}
			rec(nil)
			flushCorr()
		}
		// LONG flat lists (no parentheses) with ONE defect: a dangling, leading or doubled operator, a missing operator, at the
		// start, in the middle and at the very end (a separate code path for long lists must reject what the grammar rejects)
		for _, n := range []int{8, 31, 32, 33, 40, 63, 64, 65, 100, 257} {
			ids := make([]string, n)
			for i := range ids {
				ids[i] = tblActive[(i*53+n)%len(tblActive)]
			}
			for _, op := range []string{" AND ", " OR "} {
				good := strings.Join(ids, op)
				half := strings.Join(ids[:n/2], op)
				rest := strings.Join(ids[n/2:], op)
				bad := []string{good + strings.TrimRight(op, " "), good + op + "WITH", strings.TrimLeft(op, " ") + good, half + op + strings.TrimLeft(op, " ") + rest,
					half + " " + rest, good + " " + ids[0], good + " +", good + op + "(", half + op + ")" + op + rest, good + " WITH"}
				for _, text := range append([]string{good}, bad...) {
					res.Evaluations++
					count("long_flat_lists_one_defect")
					got := implVal([]string{text})
					acc := got.panicv == nil && got.ok
					k := &kase{Expr: text, ExprHex: hx(text)}
					correspondNorm("P "+hx(text), map[bool]string{true: "ok", false: "err"}[acc], "accept/reject of a long flat list with one defect: model parse vs ValidateLicenses", k, okErr)
					if acc != (text == good) {
						fail(failure{Stream: "oracle", What: fmt.Sprintf("a flat list of %d terms with one defect is accepted (or the intact one rejected)", n), Case: k, Impl: fmt.Sprint(acc), Expected: fmt.Sprint(text == good)})
					}
				}
			}
		}
		// ValidateLicenses on LONG lists with one out-of-grammar entry at EVERY position (work split into chunks skips the
		// entries at the chunk borders when the bounds are off by one)
		for _, n := range []int{256, 257, 258, 259, 300, scale(515, 1030)} {
			l := make([]string, n)
			for i := range l {
				l[i] = tblActive[(i*37+n)%len(tblActive)]
			}
			step := 1
			if !thorough() && n != 258 && n != 259 {
				step = 7
			}
			for pos := 0; pos < n; pos += step {
				saved := l[pos]
				l[pos] = "MIT AND"
				v := implVal(l)
				res.Evaluations++
				count("long_list_one_bad_entry")
				if v.panicv != nil || v.ok || len(v.invalid) != 1 || v.invalid[0] != "MIT AND" {
					fail(failure{Stream: "oracle", What: fmt.Sprintf("ValidateLicenses does not report the one out-of-grammar entry at index %d of a list of %d", pos, n), Case: &kase{Allowed: append([]string{}, l...), Extra: map[string]string{"index": itoa(pos)}}, Impl: v.String(), Expected: "false [MIT AND]"})
					l[pos] = saved
					break
				}
				l[pos] = saved
			}
		}
		// every listed id EXTENDED by id characters (fixed-width keys truncate; the longest ids are where it shows): no such
		// word is a listed id unless it happens to be one
		for _, id := range append(append(append([]string{}, tblActive...), tblDeprecated...), tblExceptions...) {
			id = strings.TrimSuffix(id, "+")
			for _, ext := range []string{"x", ".1", "-", "s", "0"} {
				w := id + ext
				if f := c05Word(w); f != nil {
					fail(*f)
				}
				count("extended_listed_ids")
			}
		}
		// texts with bytes outside the lexical alphabet (non-ASCII letters that case-fold to ASCII, other scripts, odd white
		// space): none of them is in the language, wherever the byte stands
		for _, text := range unicodeStream(scale(60, 400)) {
			res.Evaluations++
			count("unicode_stream")
			got := implVal([]string{text})
			acc := got.panicv == nil && got.ok
			k := &kase{Expr: text, ExprHex: hx(text)}
			correspondNorm("P "+hx(text), map[bool]string{true: "ok", false: "err"}[acc], "accept/reject of a text with bytes outside the lexical alphabet: model parse vs ValidateLicenses", k, okErr)
			if acc {
				fail(failure{Stream: "oracle", What: "a text containing a byte that is no id byte, space, parenthesis, ':' or '+' is accepted", Case: k, Impl: "true", Expected: "false"})
			}
		}
		// random longer sequences: render a generated valid tree into symbols, then perturb
		lics := []sym{alpha[0], alpha[1], alpha[2], alpha[3], alpha[4]}
		var fromTree func(t *tree, parent string, right bool) []sym
		fromTree = func(t *tree, parent string, right bool) []sym {
			if t.isLeaf() {
				switch rng.Intn(6) {
				case 0:
					return []sym{alpha[7]}
				case 1:
					return []sym{alpha[8], alpha[9], alpha[7]}
				}
				s := []sym{lics[rng.Intn(len(lics))]}
				if rng.Intn(4) == 0 {
					s = append(s, alpha[15])
				}
				if rng.Intn(4) == 0 {
					s = append(s, alpha[14], alpha[5])
				}
				return s
			}
			cls := map[string]sym{"AND": alpha[12], "OR": alpha[13]}
			s := append(append(fromTree(t.l, t.op, false), cls[t.op]), fromTree(t.r, t.op, true)...)
			if parent == "AND" && t.op == "OR" || parent == t.op && !right || rng.Intn(5) == 0 {
				s = append(append([]sym{alpha[10]}, s...), alpha[11])
			}
			return s
		}
		for i := 0; i < scale(8000, 150000) && !timeUp("props_text.go:768"); i++ {
			s := fromTree(genTree(1+rng.Intn(3), 3), "", false)
			switch rng.Intn(4) {
			case 0:
				j := rng.Intn(len(s))
				s = append(append([]sym{}, s[:j]...), s[j+1:]...)
			case 1:
				j := rng.Intn(len(s) + 1)
				s = append(append(append([]sym{}, s[:j]...), alpha[rng.Intn(len(alpha))]), s[j:]...)
			case 2:
				j := rng.Intn(len(s))
				s = append([]sym{}, s...)
				s[j] = alpha[rng.Intn(len(alpha))]
			}
			if len(s) == 0 {
				continue
			}
			if f := c05Check(s, rng.Intn(2) == 0); f != nil {
				fail(*f)
			}
			if i%1009 == 0 {
				sample(map[string]interface{}{"symbols": symString(s), "text": renderSyms(s, false)})
			}
			if len(corrQ) > 100000 {
				flushCorr()
			}
		}
		// reference names that look like operators or contain operator words between dots, in every position
		for _, rn := range []string{"AND", "OR", "WITH", "and", "dual.or.commercial", "a.and.b", "x.with.y", "MIT", "MIT-or-later"} {
			for _, c := range []string{"MIT LicenseRef-%s ISC", "MIT DocumentRef-%s ISC", "MIT LicenseRef-%s LicenseRef-%s ISC", "MIT AND LicenseRef-%s", "LicenseRef-%s AND MIT", "MIT LicenseRef-%s Classpath-exception-2.0",
				"(MIT LicenseRef-%s LicenseRef-x) AND ISC", "DocumentRef-%s:LicenseRef-%s OR MIT", "MIT DocumentRef-%s:LicenseRef-x ISC", "LicenseRef-%s", "LicenseRef-%s+", "MIT WITH LicenseRef-%s"} {
				text := strings.ReplaceAll(c, "%s", rn)
				res.Evaluations++
				count("ref_name_probes")
				got := implVal([]string{text})
				acc := got.panicv == nil && got.ok
				k := &kase{Expr: text, ExprHex: hx(text)}
				correspondNorm("P "+hx(text), map[bool]string{true: "ok", false: "err"}[acc], "accept/reject with operator-like reference names: model parse vs ValidateLicenses", k, okErr)
				hookCorrespond(text, k, true, acc, false)
				if acc {
					x := implExt(text)
					correspondNorm("E "+hx(text), x.String(), "extracted terms with operator-like reference names: model vs implementation", k, extractSetNorm)
				}
			}
		}
		// lexical level: which WORDS are license ids / exception ids.  Reference written from the property text:
		// a word is a license id iff it is on the active or deprecated list (any letter case) or is an active id carrying
		// exactly one documented suffix; an exception id likewise over the exception list.
		ids := append(append(append([]string{}, tblActive...), tblDeprecated...), tblExceptions...)
		nIDs := scale(220, len(ids))
		for i := 0; i < nIDs; i++ {
			id := ids[(i*7919+int(rng.Int31n(3)))%len(ids)]
			if thorough() {
				id = ids[i]
			}
			if strings.HasSuffix(id, "+") {
				continue
			}
			words := []string{id, strings.ToLower(id), strings.ToUpper(id)}
			for _, suf := range suffixExperiments {
				words = append(words, id+suf)
			}
			words = append(words, strings.ToLower(id)+"-only", strings.ToUpper(id)+"-or-later", id[:len(id)-1], id+"x")
			for _, w := range words {
				if f := c05Word(w); f != nil {
					fail(*f)
				}
			}
			if len(corrQ) > 100000 {
				flushCorr()
			}
		}
		// boundary sizes of nesting and of flat chains (depth / length counters, recursion guards)
		for _, n := range []int{1, 2, 15, 16, 17, 31, 32, 33, 63, 64, 65, 127, 128, 129, 255, 256, 257, 300, 1000, 4096, 10000, 10001, 12001} {
			if n > 300 && !thorough() && n != 10001 && n != 1000 {
				continue
			}
			texts := []string{strings.Repeat("(", n) + "MIT" + strings.Repeat(")", n),
				strings.Repeat("(", n) + "MIT" + strings.Repeat(")", n-1),
				"MIT" + strings.Repeat(" OR ISC", n), "MIT" + strings.Repeat(" AND ISC", n), "(MIT)" + strings.Repeat(" OR (ISC)", n)}
			for _, text := range texts {
				res.Evaluations++
				count("boundary_sizes")
				got := implVal([]string{text})
				acc := got.panicv == nil && got.ok
				k := &kase{Extra: map[string]string{"generated": fmt.Sprintf("%d bytes starting %q (n=%d)", len(text), text[:min(len(text), 24)], n)}}
				if len(text) < 2000 {
					k.Expr, k.ExprHex = text, hx(text)
				}
				correspondNorm("P "+hx(text), map[bool]string{true: "ok", false: "err"}[acc], "accept/reject at a boundary size: model parse vs ValidateLicenses", k, okErr)
			}
		}
		// every listed id x spellings x syntactic contexts (parentheses, operators, WITH, '+', truncations): the places where
		// the -or-later rewrite, the '+' look-ahead and the look-behind meet the parser.  Model vs implementation on
		// accept/reject AND on the extracted terms.
		for i, id := range ids {
			if strings.HasSuffix(id, "+") || (!thorough() && i%3 != int(seed%3)) {
				continue
			}
			for _, text := range lexContexts(id) {
				res.Evaluations++
				count("lexical_contexts")
				got := implVal([]string{text})
				acc := got.panicv == nil && got.ok
				k := &kase{Expr: text, ExprHex: hx(text)}
				correspondNorm("P "+hx(text), map[bool]string{true: "ok", false: "err"}[acc], "accept/reject in a lexical context: model parse vs ValidateLicenses", k, okErr)
				hookCorrespond(text, k, true, acc, false)
				if acc {
					x := implExt(text)
					correspondNorm("E "+hx(text), x.String(), "extracted terms in a lexical context: model vs implementation", k, extractSetNorm)
				}
			}
			if len(corrQ) > 100000 {
				flushCorr()
			}
		}
		res.Exhaustive = false
	}
	replays["C05"] = func(k *kase) *failure {
		if k.Extra != nil && k.Extra["word"] != "" {
			return c05Word(unhx(k.Extra["word"]))
		}
		if k.Extra == nil || k.Extra["syms"] == "" {
			return nil
		}
		return c05Check(decodeSyms(k.Extra["syms"]), k.Extra["tight"] == "true")
	}
}

// ---------------------------------------------------------------- C15

var reQuoted = regexp.MustCompile(`'([^']*)'`)
var reNumber = regexp.MustCompile(`[0-9]+`)

// lenient reading of an offset-bearing message: any quoted substring is the lexeme, the last decimal number the offset
func readOffsetError(msg string) (lex string, hasLex bool, off int, hasOff bool) {
	rest := msg
	if m := reQuoted.FindStringSubmatchIndex(msg); m != nil {
		lex, hasLex = msg[m[2]:m[3]], true
		rest = msg[:m[0]] + msg[m[1]:]
	}
	if nums := reNumber.FindAllString(rest, -1); len(nums) > 0 {
		off, _ = strconv.Atoi(nums[len(nums)-1])
		hasOff = true
	}
	return
}

func pick3(xs ...int) int { return xs[rng.Intn(len(xs))] }

func isIDByte(c byte) bool {
	return c >= 'A' && c <= 'Z' || c >= 'a' && c <= 'z' || c >= '0' && c <= '9' || c == '-' || c == '.'
}

// c15Check: s is invalid because of an unknown or missing identifier; kind = "unknown" | "missing"
func c15Check(s string, kind string, via int) *failure {
	res.Evaluations++
	k := &kase{Expr: s, ExprHex: hx(s), Extra: map[string]string{"kind": kind, "via": itoa(via)}}
	var err error
	switch via {
	case 0:
		r := implExt(s)
		if r.panicv != nil {
			count("skipped_panic")
			return nil
		}
		err = r.err
	case 1:
		r := implSat(s, []string{"MIT"})
		if r.panicv != nil {
			count("skipped_panic")
			return nil
		}
		err = r.err
	default:
		// as an allowed entry: alone, or LAST behind valid entries that make the scanner rewrite its buffer (state carried from
		// one entry's scan into the next must not move the offset: it refers to the entry the caller passed)
		l := []string{s}
		if via == 3 || via == 2 && kind != "replay" && res.Evaluations%2 == 0 {
			l = []string{"MIT", "Apache-2.0-or-later", "ISC-or-later+", "GPL-2.0+", "(BSD-3-Clause-or-later)", s}
			k.Extra["via"] = "3"
		}
		r := implSat("MIT", l)
		if r.panicv != nil {
			count("skipped_panic")
			return nil
		}
		err = r.err
	}
	if err == nil {
		count("skipped_accepted")
		return nil
	}
	msg := err.Error()
	// model side: the scanner error of the model for the same text
	lex, hasLex, off, hasOff := readOffsetError(msg)
	isUnknown := strings.Contains(msg, "unknown license")
	isMissing := strings.Contains(msg, "expected id")
	if !isUnknown && !isMissing {
		count("other_error_" + kind)
		// the model must not see an unknown/missing identifier here either
		correspondNorm("P "+hx(s), "other", "error class (offset-bearing or not): model vs implementation", k, func(m string) string {
			if strings.HasPrefix(m, "err unknown") || strings.HasPrefix(m, "err expectedid") {
				return m
			}
			return "other"
		})
		return nil
	}
	nontrivial(s)
	if isUnknown {
		count("unknown_license")
		if hasLex && hasOff {
			correspond("P "+hx(s), fmt.Sprintf("err unknown %s %d", hx(lex), off), "unknown-license lexeme and offset: model vs implementation", k)
		}
		if !hasOff || !hasLex {
			return &failure{Stream: "oracle", What: "the unknown-license error cites no offset or no lexeme: " + msg, Case: k, Impl: msg}
		}
		if off < 0 || off+len(lex) > len(s) || s[off:off+len(lex)] != lex || lex == "" {
			return &failure{Stream: "oracle", What: "the cited lexeme is not found at the cited offset of the caller's string: " + msg, Case: k, Impl: fmt.Sprintf("offset %d lexeme %s", off, show(lex)), Expected: fmt.Sprintf("s[%d:%d] == lexeme", off, off+len(lex))}
		}
		return nil
	}
	count("expected_id")
	if hasOff {
		correspond("P "+hx(s), fmt.Sprintf("err expectedid %d", off), "missing-id offset: model vs implementation", k)
	}
	if !hasOff {
		return &failure{Stream: "oracle", What: "the missing-id error cites no offset: " + msg, Case: k, Impl: msg}
	}
	if off < 0 || off > len(s) || off < len(s) && isIDByte(s[off]) {
		return &failure{Stream: "oracle", What: "the cited offset is not a position of the caller's string where an id is missing: " + msg, Case: k, Impl: fmt.Sprintf("offset %d", off)}
	}
	return nil
}

func init() {
	props["C15"] = func() {
		res.Rule = "invalid texts = a valid prefix from the tree generator (rich in -or-later forms, '+', spaces, parentheses) cut after a token, followed by an operator and an unknown id / a bare LicenseRef- or DocumentRef- prefix / a stray byte, optionally followed by more text; the error of ExtractLicenses / Satisfies (expression and allowed-entry position) is read leniently (quoted substring = lexeme, last number = offset) and checked against the caller's string. Non-trivial & distinct = distinct texts that produced an offset-bearing error"
		unknowns := []string{"FOO", "foo-1.0", "X", "GPL-9.9", "MIT-or-later-x", "Apache-2.0-only-only", "NOT.A.LICENSE", "and", "with", "GPL-2.0-or-later-or-later", "-", ".",
			"FOO-OR-LATER", "Foo-Only", "x-Or-Later", "FOO-or-later", "foo-only", "BAR-OR-later"}
		strays := []string{"!", "_", "\xff", "\xc3\xa9", "\t", "/", "*", "\x00", "~", "é"}
		n := scale(12000, 200000)
		for i := 0; i < n && !timeUp("props_text.go:941"); i++ {
			c := genTreeCase(3, 4)
			toks := strings.Fields(c.text)
			var prefix string
			if len(toks) > 0 {
				// cut after a complete operand so that the next thing expected is an operator
				cut := rng.Intn(len(toks) + 1)
				prefix = strings.Join(toks[:cut], spacesMin1())
			}
			bad, kind := "", "unknown"
			switch rng.Intn(6) {
			case 0:
				bad, kind = pick([]string{"LicenseRef-", "DocumentRef-", "DocumentRef-x:LicenseRef-"})+pick([]string{"", " ", "!", ")"}), "missing"
			case 1:
				bad, kind = pick(strays), "missing"
			case 2:
				// an unknown id of a boundary length (messages that abbreviate or copy into fixed buffers)
				n := pick3(15, 16, 17, 31, 32, 33, 63, 64, 65, 66, 100, 127, 128, 129, 255, 256, 257, 1000)
				stem := pick([]string{"licenseref-scancode-proprietary-license-see-the-eula-in-the-distribution", "x", "unknown-license.v", "Zz9-"})
				for len(stem) < n {
					stem += pick([]string{"a", "b-", "c.", "9", "Q"})
				}
				bad = stem[:n]
				if implValid(bad) {
					bad += "x"
				}
			default:
				bad = pick(unknowns)
			}
			s := prefix
			if s != "" {
				s += spacesMin1() + pick([]string{"AND", "OR", "AND (", "OR ("}) + spacesMin1()
			}
			s = strings.Repeat(" ", rng.Intn(2)) + s + bad
			if rng.Intn(3) == 0 {
				s += pick([]string{" AND MIT", ")", " OR (ISC)", "+", " WITH Classpath-exception-2.0"})
			}
			if f := c15Check(s, kind, rng.Intn(3)); f != nil {
				fail(*f)
			}
			if i%1499 == 0 {
				sample(show(s))
			}
			if len(corrQ) > 50000 {
				flushCorr()
			}
		}
		// exception ids carrying a suffix after WITH (whatever message comes back, a cited lexeme must be where it is said to be)
		for i, e := range tblExceptions {
			if !thorough() && i%2 != int(seed%2) {
				continue
			}
			for _, suf := range []string{"-or-later", "-only", "-or-later+", "x"} {
				for _, pre := range []string{"MIT WITH ", "(Apache-2.0-or-later WITH ", "MIT AND ISC+ WITH "} {
					if f := c15Check(pre+e+suf, "any", i%3); f != nil {
						fail(*f)
					}
					count("exception_suffix_contexts")
				}
			}
		}
		// listed ids that a suffix turns into UNKNOWN lexemes (deprecated-only ids with -or-later, exceptions with a suffix as
		// a licence): the scanner may have started rewriting before it found out
		for _, d := range append(append([]string{}, tblDeprecated...), tblExceptions[:scale(10, len(tblExceptions))]...) {
			d = strings.TrimSuffix(d, "+")
			for _, suf := range []string{"-or-later", "-or-later+", "-only", "-or-later-or-later"} {
				w := d + suf
				if implValid(w) {
					continue
				}
				for _, text := range []string{w, "MIT AND " + w, "(" + w + ")", "Apache-2.0-or-later OR " + w + " OR ISC", strings.ToLower(d) + suf} {
					if f := c15Check(text, "unknown", len(text)%3); f != nil {
						fail(*f)
					}
					count("listed_id_made_unknown_by_suffix")
				}
			}
		}
		// … and the same spellings with the offending lexeme LATER in the text (bookkeeping of removed bytes that depends on
		// the token's role), in the positions an exception can stand
		for i, e := range tblExceptions {
			if !thorough() && i%4 != int(seed%4) {
				continue
			}
			for _, suf := range []string{"-or-later", "-or-later+", "+", "-only"} {
				for _, shape := range []string{"MIT WITH %s AND FOO", "GPL-2.0-only WITH %s OR LicenseRef-", "(Apache-2.0-or-later WITH %s) AND foo-1.0", "MIT WITH %s AND ISC-or-later AND NOT.A.LICENSE", "MIT-or-later+ WITH %s AND DocumentRef-"} {
					text := fmt.Sprintf(shape, e+suf)
					kind := "unknown"
					if strings.HasSuffix(text, "Ref-") {
						kind = "missing"
					}
					if f := c15Check(text, kind, i%3); f != nil {
						fail(*f)
					}
					count("exception_suffix_then_error")
				}
			}
		}
		// MANY rewrites before the offending lexeme (counters of rewrites / removed bytes in narrow integers)
		for _, k := range []int{1, 2, 3, 31, 32, 33, 127, 128, 129, 255, 256, 257, 300, scale(520, 1100)} {
			for _, sps := range [][]string{{"Apache-2.0-or-later"}, {"MIT-or-later+"}, {"Apache-2.0-or-later", "MIT-or-later+", "ISC+", "GPL-2.0-or-later"}, {"Zlib-or-later+", "(BSD-3-Clause-or-later)"}} {
				parts := make([]string, k)
				for i := range parts {
					parts[i] = sps[i%len(sps)]
				}
				for _, tail := range []string{"FOO", "LicenseRef-", "foo-2.0 AND MIT"} {
					text := strings.Join(parts, " OR ") + " OR " + tail
					kind := "unknown"
					if tail == "LicenseRef-" {
						kind = "missing"
					}
					if f := c15Check(text, kind, k%3); f != nil {
						fail(*f)
					}
					count("many_rewrites_then_error")
				}
			}
		}
		// the offending lexeme BETWEEN two occurrences of the same rewritten id
		for i, id := range append(append([]string{}, tblActive...), tblDeprecated...) {
			if strings.HasSuffix(id, "+") || (!thorough() && i%6 != int(seed%6)) {
				continue
			}
			sp := id + "-or-later"
			if !implValid(sp) {
				continue
			}
			for _, text := range []string{sp + " AND FOO AND " + sp, sp + " OR " + sp + " AND FOO-x OR " + sp, "(" + sp + " AND LicenseRef-) OR " + sp, sp + "+ AND BAR AND " + sp + "+"} {
				kind := "unknown"
				if strings.Contains(text, "LicenseRef-)") {
					kind = "missing"
				}
				if f := c15Check(text, kind, i%3); f != nil {
					fail(*f)
				}
				count("between_repeats")
			}
		}
		// every listed id in the spellings that trigger the rewrite / look-ahead, as a prefix of the offending lexeme
		allIDs := append(append([]string{}, tblActive...), tblDeprecated...)
		for i, id := range allIDs {
			if strings.HasSuffix(id, "+") || (!thorough() && i%4 != int(seed%4)) {
				continue
			}
			for _, sp := range []string{id, id + "+", id + "-or-later", id + "-or-later+", id + "-only", strings.ToLower(id) + "-or-later"} {
				if !implValid(sp) {
					continue
				}
				pres := []string{sp + " AND ", "(" + sp + ") OR ", sp + " WITH Classpath-exception-2.0 AND ", "( " + sp + " ) AND (", sp + " AND " + sp + " OR  "}
				if i%5 == 0 {
					// glued: no blank between the spelling (and a '+') and what follows
					pres = append(pres, sp+"+", sp+"(", "("+sp+")", sp+"+(", sp+" AND DocumentRef-a:", sp+":")
				}
				for _, pre := range pres {
					bad, kind := "FOO-" + itoa(i), "unknown"
					if i%7 == 0 {
						bad, kind = "LicenseRef-", "missing"
					}
					if f := c15Check(pre+bad, kind, i%3); f != nil {
						fail(*f)
					}
					count("id_prefix_contexts")
				}
			}
			if len(corrQ) > 50000 {
				flushCorr()
			}
		}
		// listed ids (every id of the range table, the special ids) with STACKED suffixes — `X-only-or-later`, `X-only+`,
		// `X-or-later-only`, … — alone and behind rewritten terms: whether such a text is accepted or not is C05's business; IF
		// it is refused with a located error, lexeme and offset must be those of the caller's text (the '+' the scanner writes
		// into its buffer is not)
		{
			ids := append(append([]string{}, famIDs...), specialIDs...)
			for i, id := range ids {
				id = strings.TrimSuffix(id, "+")
				for j, suf := range []string{"-only-or-later", "-only+", "-or-later-only", "-or-later-or-later", "-only-only", "-or-later+", "-only-or-later+", "-or-later-only+"} {
					if !thorough() && (i+j)%2 == int(seed%2) {
						continue
					}
					for _, pre := range []string{"", "MIT-or-later AND ", "(Apache-2.0-or-later OR ISC-or-later+) AND "} {
						count("stacked_suffixes")
						if f := c15Check(pre+id+suf, "any", (i+j)%3); f != nil {
							fail(*f)
						}
					}
				}
			}
		}
		for _, s := range []string{"Apache-2.0-or-later AND FOO", "GPL-2.0-or-later AND FOO", "Apache-2.0-or-later+ AND FOO", "(Apache-2.0-or-later AND MIT-or-later) OR LicenseRef-", "MIT-or-later OR   ISC-or-later AND !", "FOO", " FOO", "LicenseRef-", "MIT AND DocumentRef-"} {
			for via := 0; via < 3; via++ {
				if f := c15Check(s, "fixed", via); f != nil {
					fail(*f)
				}
			}
		}
	}
	replays["C15"] = func(k *kase) *failure {
		if k.Expr == "" && k.ExprHex != "" && k.ExprHex != "." {
			k.Expr = unhx(k.ExprHex)
		}
		via := 0
		if k.Extra != nil {
			via, _ = strconv.Atoi(k.Extra["via"])
		}
		return c15Check(k.Expr, "replay", via)
	}
}

func okErr(s string) string {
	if strings.HasPrefix(s, "err") {
		return "err"
	}
	return s
}

func spacesMin1() string { return strings.Repeat(" ", 1+rng.Intn(2)) }
