package main

// Tree-based properties: C01 (Boolean truth), C06 (ExtractLicenses), C07 (allowed list is a set, monotone),
// C10 (same Boolean function => same verdict).

import (
	"fmt"
	"sort"
	"strconv"
	"strings"
)

func parsePrefix(s string) *tree {
	toks := strings.Split(s, ",")
	var rd func() *tree
	rd = func() *tree {
		if len(toks) == 0 {
			return leafT(0)
		}
		t := toks[0]
		toks = toks[1:]
		if t == "&" || t == "|" {
			l := rd()
			r := rd()
			if t == "&" {
				return andT(l, r)
			}
			return orT(l, r)
		}
		i, _ := strconv.Atoi(t)
		return leafT(i)
	}
	return rd()
}

type treeCase struct {
	t       *tree
	terms   []*term
	text    string
	allowed []string
}

func (c *treeCase) kase() *kase {
	return &kase{Expr: c.text, ExprHex: hx(c.text), Allowed: c.allowed, Tree: c.t.prefix(), Terms: texts(c.terms)}
}

func genTreeCase(maxDepth, maxTerms int) *treeCase {
	nt := 1 + rng.Intn(maxTerms)
	terms := distinctTerms(nt)
	t := genTreeBounded(rng.Intn(maxDepth+1), nt, 60000)
	c := &treeCase{t: t, terms: terms}
	c.text = t.render(texts(terms), "", false, rng.Intn(3), rng.Intn(4) != 0)
	c.allowed = genAllowed(terms)
	return c
}

// matrix[i][j] = the implementation's own verdict for term i against entry j alone
func implMatrix(terms, allowed []string) ([][]bool, bool) {
	m := make([][]bool, len(terms))
	for i, t := range terms {
		m[i] = make([]bool, len(allowed))
		for j, a := range allowed {
			v := implMatch(t, a)
			if v < 0 {
				return nil, false
			}
			m[i][j] = v == 1
		}
	}
	return m, true
}

func matrixString(m [][]bool) string {
	rows := make([]string, len(m))
	for i, r := range m {
		b := make([]byte, len(r))
		for j, v := range r {
			if v {
				b[j] = '1'
			} else {
				b[j] = '0'
			}
		}
		rows[i] = string(b)
	}
	return strings.Join(rows, ",")
}

func rowAny(r []bool) bool {
	for _, v := range r {
		if v {
			return true
		}
	}
	return false
}

// ---------------------------------------------------------------- C01

var seenHookExpr = map[string]bool{}

func c01Check(k *kase, withCorr bool) *failure {
	t := parsePrefix(k.Tree)
	r := implSat(k.Expr, k.Allowed)
	if r.panicv != nil {
		return &failure{Stream: "oracle", What: fmt.Sprintf("Satisfies panicked on a generated valid expression: %v", r.panicv), Case: k, Impl: "PANIC", Expected: "a verdict"}
	}
	if r.err != nil {
		count("skipped_impl_says_invalid")
		return nil
	}
	m, ok := implMatrix(k.Terms, k.Allowed)
	if !ok {
		count("skipped_entry_not_single_term")
		return nil
	}
	truth := make([]bool, len(k.Terms))
	bits := ""
	for i := range truth {
		truth[i] = rowAny(m[i])
		if truth[i] {
			bits += "1"
		} else {
			bits += "0"
		}
	}
	want := t.eval(func(i int) bool { return truth[i] })
	count(fmt.Sprintf("verdict_%v", r.ok))
	count(fmt.Sprintf("leaves_%d", min(t.size(), 9)))
	if !t.isLeaf() {
		nontrivial(t.shape() + "|" + bits)
	}
	if withCorr {
		correspond("T "+t.prefix()+" "+matrixString(m), fmt.Sprint(r.ok), "model expansion/verdict under the implementation's own single-term verdicts vs Satisfies", k)
		if !seenHookExpr[k.Expr] && len(seenHookExpr) < 4000 {
			// the same expression comes with many allowed lists: its tree and its expansion are compared once
			seenHookExpr[k.Expr] = true
			hookCorrespond(k.Expr, k, false, true, true)
		}
	}
	if r.ok != want {
		return &failure{Stream: "oracle", What: "Satisfies differs from the Boolean value of the expression under the single-term verdicts", Case: k, Impl: fmt.Sprint(r.ok), Expected: fmt.Sprint(want)}
	}
	return nil
}

func subsetsOf(xs []string, maxN int) [][]string {
	n := len(xs)
	if n > maxN {
		n = maxN
	}
	var out [][]string
	for mask := 1; mask < 1<<n; mask++ {
		var s []string
		for i := 0; i < n; i++ {
			if mask&(1<<i) != 0 {
				s = append(s, xs[i])
			}
		}
		out = append(out, s)
	}
	return out
}

func maxLeaf(t *tree) int {
	m := 0
	for _, l := range t.leaves(nil) {
		if l > m {
			m = l
		}
	}
	return m
}

func runTreeProperty(check func(k *kase, withCorr bool) *failure, nRandom int, maxDepth int, exhaustiveLeaves int) {
	try := func(k *kase) {
		res.Evaluations++
		if f := check(k, true); f != nil {
			if wantShrink() {
				quiet = true
				f.Case = shrinkTreeCase(k, func(k2 *kase) bool { return check(k2, false) != nil })
				quiet = false
			}
			fail(*f)
		}
		if res.Evaluations%97 == 1 {
			sample(map[string]interface{}{"expr": show(k.Expr), "allowed": k.Allowed})
		}
	}
	// systematic shapes x every subset of their terms
	for _, t := range systematicTrees() {
		for rep := 0; rep < scale(2, 6); rep++ {
			terms := distinctTerms(maxLeaf(t) + 1)
			for mode := 0; mode < 3; mode++ {
				text := t.render(texts(terms), "", false, mode, mode == 1)
				for _, sub := range subsetsOf(texts(terms), 6) {
					try(&kase{Expr: text, ExprHex: hx(text), Allowed: sub, Tree: t.prefix(), Terms: texts(terms)})
				}
			}
		}
	}
	count("systematic_cases")
	res.Distribution["systematic_cases"] = res.Evaluations
	// every shape x labelling with up to `exhaustiveLeaves` leaves x every subset
	for n := 2; n <= exhaustiveLeaves; n++ {
		terms := distinctTerms(n)
		for _, t := range allTrees(n) {
			text := t.render(texts(terms), "", false, 0, false)
			for _, sub := range subsetsOf(texts(terms), 6) {
				try(&kase{Expr: text, ExprHex: hx(text), Allowed: sub, Tree: t.prefix(), Terms: texts(terms)})
			}
		}
	}
	for i := 0; i < nRandom && !timeUp("runTreeProperty random cases"); i++ {
		c := genTreeCase(maxDepth, 6)
		try(c.kase())
	}
}

func init() {
	props["C01"] = func() {
		decisive['S'] = "Satisfies differs from the boolean reading of the expression (model `satisfies`, proved equal to it: C01.satisfies_spec, verdict_eq_eval)"
		res.Rule = "random trees (depth<=5/7, 1-6 distinct valid terms of every kind, random parenthesisation and spacing) x allowed lists built from the terms, related spellings/versions and unrelated entries; plus systematic shapes and all shapes up to 4/5 leaves x every non-empty subset of the terms. Non-trivial & distinct = (tree shape, leaf truth vector) of a non-leaf tree"
		c01LongAlternatives()
		c01OneLicenceManySpellings()
		c01TrivialTrees()
		c01LargeUnevenProducts()
		runTreeProperty(c01Check, scale(12000, 300000), scale(5, 7), scale(4, 5))
	}
	replays["C01"] = func(k *kase) *failure { return c01Check(k, false) }
}

// c01LargeUnevenProducts: thousands of alternatives (beyond the sizes at which an implementation may switch from
// materialising to streaming them), with one ANDed operand whose alternatives have DIFFERENT lengths (X OR (Y AND Z)) —
// buffers sized from the first alternative cut the longer ones
func c01LargeUnevenProducts() {
	// references only: matching them costs no range-table lookups, so thousands of alternatives stay cheap
	pool := make([]string, 64)
	for i := range pool {
		pool[i] = "LicenseRef-p" + itoa(i)
	}
	for _, wk := range [][2]int{{4, 6}, {2, 12}, {8, 4}} {
		w, k := wk[0], wk[1]
		if w*k+4 > len(pool) {
			continue
		}
		ids := append([]string{}, pool...)
		rng.Shuffle(len(ids), func(i, j int) { ids[i], ids[j] = ids[j], ids[i] })
		var groups []string
		var firsts []string
		at := 0
		for g := 0; g < k; g++ {
			groups = append(groups, "("+strings.Join(ids[at:at+w], " OR ")+")")
			firsts = append(firsts, ids[at+rng.Intn(w)])
			at += w
		}
		x, y, z, sx := ids[at], ids[at+1], ids[at+2], ids[at+3]
		for _, uneven := range []string{"(" + x + " OR (" + y + " AND " + z + "))", "((" + y + " AND " + z + ") OR " + x + ")"} {
			for pos := 0; pos < 2; pos++ {
				if pos == 1 && !thorough() && w != 4 {
					continue
				}
				parts := append([]string{}, groups...)
				if pos == 0 {
					parts = append(parts, uneven, sx)
				} else {
					parts = append([]string{sx, uneven}, parts...)
				}
				e := strings.Join(parts, " AND ")
				for _, c := range []struct {
					l    []string
					want bool
				}{
					{append(append([]string{}, firsts...), x, sx), true},
					{append(append([]string{}, firsts...), y, z, sx), true},
					{append(append([]string{}, firsts...), y, z), false},
					{append(append([]string{}, firsts...), y, sx), false},
					{append(append([]string{}, firsts...), x, y, z), false},
					{append(append([]string{}, firsts[1:]...), x, y, z, sx), false},
				} {
					r := implSat(e, c.l)
					res.Evaluations++
					count("large_uneven_products")
					if r.err != nil || r.panicv != nil || r.ok != c.want {
						fail(failure{Stream: "oracle", What: fmt.Sprintf("Satisfies differs from the Boolean value of a product of %d %d-wide ORs and an operand whose alternatives differ in length", k, w), Case: &kase{Expr: e, ExprHex: hx(e), Allowed: c.l}, Impl: r.String(), Expected: fmt.Sprint(c.want)})
					}
				}
			}
		}
	}
}

// c01TrivialTrees: the trivial Boolean functions (one leaf; one AND; one OR) over the ends of every version family and
// over every deprecated id, with '+', compared with the model's Satisfies — the Boolean reading bottoms out in single terms,
// and a term that loses its '+' or its family changes the value of every expression it stands in
func c01TrivialTrees() {
	var pairs [][2]string
	for _, f := range tblRanges {
		lo, hi := f[0][0], f[len(f)-1][len(f[len(f)-1])-1]
		mid := f[len(f)/2][0]
		pairs = append(pairs, [2]string{lo, hi}, [2]string{hi, lo}, [2]string{lo, mid}, [2]string{mid, hi})
	}
	for _, f := range tblRanges { // ids that look like members of the family without being in it, against members
		intr := familyIntruders(f[0][0])
		for j := 0; j < 3 && len(intr) > 0; j++ {
			g := f[rng.Intn(len(f))]
			pairs = append(pairs, [2]string{pick(intr), g[rng.Intn(len(g))]}, [2]string{g[0], pick(intr)})
		}
	}
	for _, d := range tblDeprecated {
		d = strings.TrimSuffix(d, "+")
		fam := sameFamilyIDs(d)
		if len(fam) > 0 {
			pairs = append(pairs, [2]string{d, pick(fam)}, [2]string{pick(fam), d})
		} else {
			pairs = append(pairs, [2]string{d, d})
		}
	}
	for _, p := range pairs {
		a, b := strings.TrimSuffix(p[0], "+"), strings.TrimSuffix(p[1], "+")
		for _, sp := range [][2]string{{a + "+", b}, {a, b + "+"}, {a + "+", b + "+"}, {a + "-or-later", b + "-or-later"}, {a + "-only+", b + "-or-later"}} {
			if !implValid(sp[0]) || !implValid(sp[1]) {
				continue
			}
			for _, e := range []string{sp[0], sp[0] + " AND MIT", "ISC OR " + sp[0]} {
				l := []string{sp[1], "MIT"}
				r := implSat(e, l)
				res.Evaluations++
				count("trivial_trees")
				correspond("S "+hx(e)+" "+hxl(l), r.String(), "Satisfies on a trivial tree over family ends / deprecated ids: model vs implementation", &kase{Expr: e, ExprHex: hx(e), Allowed: l})
			}
		}
	}
	flushCorr()
}

// c01OneLicenceManySpellings: ONE version of one licence in several of its spellings and decorations (X, X-only, X+,
// X-or-later, X WITH e, X-only WITH e) inside one AND row / one OR, against lists that hold few of them: shortcuts that
// count "distinct licences" or compare neighbours of a sorted row meet exactly these rows
func c01OneLicenceManySpellings() {
	var bases []string
	for _, id := range tblActive {
		if b := strings.TrimSuffix(id, "-only"); b != id && implValid(b) {
			bases = append(bases, b)
		}
	}
	for _, b := range bases {
		e := genException()
		sp := []string{b, b + "-only", b + "+", b + "-or-later", b + " WITH " + e, b + "-only WITH " + e, b + "+ WITH " + e}
		// systematically: the bare id, the id WITH an exception and the -only spelling as the three operands of one OR / AND,
		// in every order, against every single spelling
		trio := []string{b, b + " WITH " + e, b + "-only"}
		for _, order := range [][3]int{{0, 1, 2}, {0, 2, 1}, {1, 0, 2}, {1, 2, 0}, {2, 0, 1}, {2, 1, 0}} {
			terms := []string{trio[order[0]], trio[order[1]], trio[order[2]]}
			for _, t := range []*tree{orT(orT(leafT(0), leafT(1)), leafT(2)), andT(andT(leafT(0), leafT(1)), leafT(2)), orT(leafT(0), andT(leafT(1), leafT(2)))} {
				text := t.render(terms, "", false, 0, true)
				for _, a := range sp {
					k := &kase{Expr: text, ExprHex: hx(text), Allowed: []string{a}, Tree: t.prefix(), Terms: terms}
					res.Evaluations++
					count("one_licence_trio")
					if f := c01Check(k, order[0] == 0); f != nil {
						fail(*f)
					}
				}
			}
		}
		for round := 0; round < scale(12, 60); round++ {
			n := 2 + rng.Intn(3)
			perm := rng.Perm(len(sp))
			terms := make([]string, n)
			for i := range terms {
				terms[i] = sp[perm[i]]
			}
			var t *tree
			switch round % 3 {
			case 0:
				t = leafT(0)
				for i := 1; i < n; i++ {
					t = andT(t, leafT(i))
				}
			case 1:
				t = andT(leafT(0), leafT(1))
				for i := 2; i < n; i++ {
					t = andT(leafT(i), t)
				}
				t = orT(t, leafT(0))
			default:
				t = leafT(0)
				for i := 1; i < n; i++ {
					if i%2 == 1 {
						t = andT(t, leafT(i))
					} else {
						t = orT(leafT(i), t)
					}
				}
			}
			if round%4 == 3 { // a plain OR of the spellings: each heads its own alternative
				t = leafT(0)
				for i := 1; i < n; i++ {
					t = orT(t, leafT(i))
				}
			}
			text := t.render(terms, "", false, rng.Intn(3), true)
			m := 1 + rng.Intn(3)
			p2 := rng.Perm(len(sp))
			allowed := make([]string, m)
			for i := range allowed {
				allowed[i] = sp[p2[i]]
			}
			k := &kase{Expr: text, ExprHex: hx(text), Allowed: allowed, Tree: t.prefix(), Terms: terms}
			res.Evaluations++
			count("one_licence_many_spellings")
			if f := c01Check(k, true); f != nil {
				fail(*f)
			}
		}
	}
}

// c01LongAlternatives: one alternative of n ANDed terms for n around machine-word and chunk sizes (coverage kept in a
// 64-bit set, batches of 64 / 128 terms), every term covered except one at a chosen place of the SORTED alternative
func c01LongAlternatives() {
	var pool []string
	inFam := map[string]bool{}
	for _, x := range famIDs {
		inFam[x] = true
	}
	for _, x := range tblActive {
		if !inFam[x] && !strings.HasSuffix(x, "-only") && !strings.HasSuffix(x, "-or-later") {
			pool = append(pool, x)
		}
	}
	sort.Strings(pool)
	for _, n := range []int{31, 32, 33, 63, 64, 65, 66, 127, 128, 129, 130, 257} {
		if n > len(pool) {
			continue
		}
		start := rng.Intn(len(pool) - n + 1)
		ids := append([]string{}, pool[start:start+n]...) // sorted, distinct, each matched by itself only
		shuffled := append([]string{}, ids...)
		rng.Shuffle(n, func(i, j int) { shuffled[i], shuffled[j] = shuffled[j], shuffled[i] })
		t := leafT(0)
		for i := 1; i < n; i++ {
			t = andT(t, leafT(i))
		}
		chain := strings.Join(shuffled, " AND ")
		for _, missing := range []int{-1, 0, 1, n / 2, 62, 63, 64, 65, n - 2, n - 1} {
			if missing >= n {
				continue
			}
			var allowed []string
			for i, x := range ids {
				if i != missing {
					allowed = append(allowed, x)
				}
			}
			for _, e := range []string{chain, "(" + chain + ") OR " + pool[(start+n)%len(pool)] + "-or-later"} {
				res.Evaluations++
				count("long_alternatives")
				r := implSat(e, allowed)
				want := missing < 0
				if r.err != nil || r.panicv != nil || r.ok != want {
					what := "an alternative of " + itoa(n) + " ANDed terms"
					if missing >= 0 {
						what += " whose term at sorted position " + itoa(missing) + " is not covered"
					}
					k := &kase{Expr: e, ExprHex: hx(e), Allowed: allowed}
					if e == chain {
						k.Tree, k.Terms = t.prefix(), shuffled
					}
					fail(failure{Stream: "oracle", What: "Satisfies differs from the Boolean value of the expression: " + what, Case: k, Impl: r.String(), Expected: fmt.Sprint(want)})
				}
			}
		}
	}
}

// ---------------------------------------------------------------- shrinking

// shrinkTreeCase greedily reduces a failing (tree, terms, allowed) case while `bad` still holds.
func shrinkTreeCase(k *kase, bad func(*kase) bool) *kase {
	if k.Tree == "" {
		return k
	}
	cur := *k
	rebuild := func(t *tree, terms, allowed []string) *kase {
		text := t.render(terms, "", false, 0, false)
		return &kase{Expr: text, ExprHex: hx(text), Allowed: allowed, Tree: t.prefix(), Terms: terms, Extra: k.Extra}
	}
	improved := true
	for rounds := 0; improved && rounds < 50; rounds++ {
		improved = false
		t := parsePrefix(cur.Tree)
		// drop an allowed entry
		for i := 0; i < len(cur.Allowed) && len(cur.Allowed) > 1; i++ {
			a := append(append([]string{}, cur.Allowed[:i]...), cur.Allowed[i+1:]...)
			c := rebuild(t, cur.Terms, a)
			if bad(c) {
				cur, improved = *c, true
				break
			}
		}
		if improved {
			continue
		}
		// replace the tree by a subtree / replace a subtree by a child
		for _, cand := range subtreeReductions(t) {
			c := rebuild(cand, cur.Terms, cur.Allowed)
			if bad(c) {
				cur, improved = *c, true
				break
			}
		}
		if improved {
			continue
		}
		// simplify a term
		for i := range cur.Terms {
			for _, simple := range []string{"MIT", "ISC", "Zlib"} {
				if cur.Terms[i] == simple || len(cur.Terms[i]) <= len(simple) {
					continue
				}
				terms := append([]string{}, cur.Terms...)
				allowed := append([]string{}, cur.Allowed...)
				for j := range allowed {
					if allowed[j] == terms[i] {
						allowed[j] = simple
					}
				}
				terms[i] = simple
				c := rebuild(t, terms, allowed)
				if bad(c) {
					cur, improved = *c, true
					break
				}
			}
			if improved {
				break
			}
		}
	}
	return &cur
}

func subtreeReductions(t *tree) []*tree {
	var out []*tree
	if t.isLeaf() {
		return nil
	}
	out = append(out, t.l.clone(), t.r.clone())
	for _, l := range subtreeReductions(t.l) {
		out = append(out, &tree{op: t.op, l: l, r: t.r.clone()})
	}
	for _, r := range subtreeReductions(t.r) {
		out = append(out, &tree{op: t.op, l: t.l.clone(), r: r})
	}
	return out
}

// ---------------------------------------------------------------- C06

func setEq(a, b []string) bool {
	x, y := uniqSorted(a), uniqSorted(b)
	if len(x) != len(y) {
		return false
	}
	for i := range x {
		if x[i] != y[i] {
			return false
		}
	}
	return true
}

func c06Check(k *kase, withCorr bool) *failure {
	t := parsePrefix(k.Tree)
	r := implExt(k.Expr)
	if r.panicv != nil {
		return &failure{Stream: "oracle", What: fmt.Sprintf("ExtractLicenses panicked on a generated valid expression: %v", r.panicv), Case: k, Impl: "PANIC"}
	}
	if r.err != nil {
		count("skipped_impl_says_invalid")
		return nil
	}
	// canonical spelling of each leaf = what the implementation extracts from the leaf alone
	var want []string
	for _, li := range t.leaves(nil) {
		lr := implExt(k.Terms[li])
		if lr.panicv != nil || lr.err != nil || len(lr.list) != 1 {
			count("skipped_leaf_not_single")
			return nil
		}
		want = append(want, lr.list[0])
	}
	count(fmt.Sprintf("distinct_terms_%d", min(len(uniqSorted(want)), 9)))
	if !t.isLeaf() {
		nontrivial(t.shape() + "|" + strings.Join(uniqSorted(want), ";"))
	}
	if withCorr {
		norm := func(s string) string {
			if !strings.HasPrefix(s, "ok ") {
				return s
			}
			return "ok " + strings.Join(uniqSorted(strings.Split(s[3:], ",")), ",")
		}
		correspondNorm("E "+hx(k.Expr), r.String(), "ExtractLicenses as a set: model vs implementation", k, norm)
		if !seenHookExpr[k.Expr] && len(seenHookExpr) < 4000 {
			seenHookExpr[k.Expr] = true
			hookCorrespond(k.Expr, k, false, false, true)
		}
	}
	if len(uniqSorted(r.list)) != len(r.list) {
		return &failure{Stream: "oracle", What: "ExtractLicenses returned a duplicate", Case: k, Impl: joinShow(r.list)}
	}
	if !setEq(r.list, want) {
		return &failure{Stream: "oracle", What: "ExtractLicenses does not return exactly the distinct terms of the expression", Case: k, Impl: joinShow(sortedCopy(r.list)), Expected: joinShow(uniqSorted(want))}
	}
	for _, x := range r.list {
		xr := implExt(x)
		if xr.panicv != nil || xr.err != nil || len(xr.list) != 1 || xr.list[0] != x {
			return &failure{Stream: "oracle", What: "a returned term does not extract to itself: " + show(x), Case: k, Impl: xr.String(), Expected: "ok [" + show(x) + "]"}
		}
	}
	sr := implSat(k.Expr, r.list)
	if sr.panicv != nil || sr.err != nil || !sr.ok {
		return &failure{Stream: "oracle", What: "Satisfies(e, ExtractLicenses(e)) is not true", Case: k, Impl: sr.String(), Expected: "true"}
	}
	return nil
}

func init() {
	props["C06"] = func() {
		decisive['E'] = "ExtractLicenses differs from the set of distinct canonical terms (model `extract`, proved to be exactly that set: C06.extract_mem, extract_nodup)"
		res.Rule = "the C01 tree generator (all shapes incl. refs under OR, repeated and re-spelled terms). Non-trivial & distinct = (tree shape, set of canonical terms) of a non-leaf tree"
		// add re-spelled duplicates: handled by the term generator's case mutation + explicit pairs below
		runTreeProperty(c06Check, scale(8000, 150000), scale(5, 7), scale(4, 5))
		for i := 0; i < scale(300, 3000) && !timeUp("props_tree.go:375"); i++ {
			a := genValidTerm()
			if a.isRef {
				continue
			}
			b := &term{base: a.base, suffix: a.suffix, plus: a.plus, exc: a.exc, caseMod: rng.Intn(3)}
			b.build()
			terms := []string{a.text, b.text, genValidTerm().text}
			t := []*tree{orT(leafT(0), leafT(1)), andT(leafT(0), orT(leafT(1), leafT(2))), orT(andT(leafT(1), leafT(2)), leafT(0))}[rng.Intn(3)]
			text := t.render(terms, "", false, 0, true)
			k := &kase{Expr: text, ExprHex: hx(text), Tree: t.prefix(), Terms: terms}
			res.Evaluations++
			count("respelled_pair_cases")
			if f := c06Check(k, true); f != nil {
				fail(*f)
			}
		}
		// products of two or three wide ORs, the operands in random order (64 and more rows: storage reused between rows, rows
		// copied in sorted order over rows in memory order): every id must come back exactly once
		{
			var pool []string
			inFam := map[string]bool{}
			for _, x := range famIDs {
				inFam[x] = true
			}
			for _, x := range tblActive {
				if !inFam[x] && !strings.HasSuffix(x, "-only") && !strings.HasSuffix(x, "-or-later") && len(x) < 14 {
					pool = append(pool, x)
				}
			}
			for _, widths := range [][]int{{8, 8}, {4, 16}, {2, 32}, {16, 4}, {9, 8}, {3, 3, 8}, {5, 13}, {2, 2, 2, 2, 2, 2}} {
				total := 0
				for _, wd := range widths {
					total += wd
				}
				for round := 0; round < scale(120, 1200) && total <= len(pool); round++ {
					ids := append([]string{}, pool...)
					rng.Shuffle(len(ids), func(i, j int) { ids[i], ids[j] = ids[j], ids[i] })
					ids = ids[:total]
					var groups []string
					at := 0
					for _, wd := range widths {
						groups = append(groups, "("+strings.Join(ids[at:at+wd], " OR ")+")")
						at += wd
					}
					text := strings.Join(groups, " AND ")
					x := implExt(text)
					res.Evaluations++
					count("wide_products")
					want := append([]string{}, ids...)
					sort.Strings(want)
					got := append([]string{}, x.list...)
					sort.Strings(got)
					if x.err != nil || x.panicv != nil || strings.Join(got, ",") != strings.Join(want, ",") {
						fail(failure{Stream: "oracle", What: "ExtractLicenses does not return exactly the distinct terms of a product of wide ORs", Case: &kase{Expr: text, ExprHex: hx(text)}, Impl: x.String(), Expected: "ok " + strings.Join(want, ",")})
						break
					}
					if round%40 == 0 {
						correspondNorm("E "+hx(text), x.String(), "extracted terms of a product of wide ORs: model vs implementation", &kase{Expr: text, ExprHex: hx(text)}, extractSetNorm)
					}
				}
			}
		}
		// blanks around the ':' of a qualified reference, at the very start of the text and elsewhere (input "clean-ups" that
		// take `Word: ` at the start for a field tag)
		for _, d := range []string{"ext", "d", "spdx-tool-1.2", "License", "SPDX-License-Identifier", "a.b"} {
			for _, ctx := range []string{"DocumentRef-%s: LicenseRef-foo", "DocumentRef-%s :LicenseRef-foo", "DocumentRef-%s : LicenseRef-foo OR MIT", "DocumentRef-%s: LicenseRef-foo AND MIT",
				" DocumentRef-%s: LicenseRef-foo", "(DocumentRef-%s: LicenseRef-foo)", "MIT OR DocumentRef-%s: LicenseRef-foo", "DocumentRef-%s:  LicenseRef-foo", "%s: MIT", "LicenseRef-%s: MIT"} {
				text := fmt.Sprintf(ctx, d)
				x := implExt(text)
				res.Evaluations++
				count("colon_spacing")
				correspondNorm("E "+hx(text), x.String(), "extracted terms with blanks around the ':' of a qualified reference: model vs implementation", &kase{Expr: text, ExprHex: hx(text)}, extractSetNorm)
			}
		}
		// spelling experiments that do NOT pass through the implementation's own validity filter: every special id and every
		// unlisted base with every suffix, in three contexts; the extracted set (or the error) must be the model's
		{
			words := append(append([]string{}, specialIDs...), unlistedBases...)
			for i := 0; i < scale(40, 400); i++ {
				words = append(words, genBaseID())
			}
			for _, wd := range words {
				wd = strings.TrimSuffix(wd, "+")
				for _, suf := range []string{"", "+", "-or-later", "-only", "-or-later+", "-only+", "++"} {
					for ci, ctx := range []string{"%s", "MIT OR (%s)", "%s AND %s WITH Classpath-exception-2.0"} {
						if ci > 0 && rng.Intn(scale(3, 1)) != 0 {
							continue
						}
						w2 := wd
						if rng.Intn(3) == 0 {
							w2 = caseMut(wd, rng.Intn(3))
						}
						text := strings.ReplaceAll(ctx, "%s", w2+suf)
						x := implExt(text)
						res.Evaluations++
						count("spelling_experiments")
						correspondNorm("E "+hx(text), x.String(), "extracted terms of a spelling experiment: model vs implementation", &kase{Expr: text, ExprHex: hx(text)}, extractSetNorm)
					}
				}
			}
		}
		// long flat chains (boundary sizes of recursion / depth guards): every term must come back, none may be lost,
		// and a chain of valid terms is a valid expression
		for _, n := range []int{255, 256, 257, 1000, 4096, 10000, 10001, 12001} {
			if n > 4096 && !thorough() && n != 10001 {
				continue
			}
			pool := distinctTerms(7)
			for _, op := range []string{" OR ", " AND "} {
				parts := make([]string, n)
				wantSet := map[string]bool{}
				for i := range parts {
					t := pool[i%len(pool)]
					parts[i] = t.text
					if x := implExt(t.text); x.err == nil && x.panicv == nil && len(x.list) == 1 {
						wantSet[x.list[0]] = true
					}
				}
				text := strings.Join(parts, op)
				res.Evaluations++
				count("long_chains")
				x := implExt(text)
				k := &kase{Extra: map[string]string{"generated": fmt.Sprintf("%d terms joined by %q, cycling through %s", n, op, joinShow(texts(pool)))}}
				var want []string
				for w := range wantSet {
					want = append(want, w)
				}
				if x.panicv != nil || x.err != nil || hxl(uniqSorted(x.list)) != hxl(uniqSorted(want)) {
					fail(failure{Stream: "oracle", What: fmt.Sprintf("ExtractLicenses on a flat chain of %d valid terms does not return exactly their distinct canonical texts", n), Case: k, Impl: x.setString(), Expected: "ok " + hxl(uniqSorted(want))})
				}
			}
		}
	}
	replays["C06"] = func(k *kase) *failure { return c06Check(k, false) }
}

// ---------------------------------------------------------------- C07

func respell(s string) string {
	switch rng.Intn(5) {
	case 0:
		return " " + s
	case 1:
		return s + "  "
	case 2:
		return "(" + s + ")"
	case 3:
		return "( " + s + " )"
	default:
		// letter case of the listed id (not of refs, operators or suffixes)
		if strings.HasPrefix(s, "LicenseRef-") || strings.HasPrefix(s, "DocumentRef-") {
			return s
		}
		parts := strings.SplitN(s, " WITH ", 2)
		id := parts[0]
		plus := strings.HasSuffix(id, "+")
		id = strings.TrimSuffix(id, "+")
		suf := ""
		for _, sx := range []string{"-or-later", "-only"} {
			if strings.HasSuffix(id, sx) && !activeSet[id] && !deprecatedSet[id] {
				suf, id = sx, strings.TrimSuffix(id, sx)
			}
		}
		id = caseMut(id, rng.Intn(3)) + suf
		if plus {
			id += "+"
		}
		if len(parts) == 2 {
			id += " WITH " + caseMut(parts[1], rng.Intn(3))
		}
		return id
	}
}

func c07Check(k *kase, withCorr bool) *failure {
	base := implSat(k.Expr, k.Allowed)
	if base.panicv != nil || base.err != nil {
		count("skipped_impl_error")
		return nil
	}
	count(fmt.Sprintf("verdict_%v", base.ok))
	variant := func(name string, a []string) *failure {
		r := implSat(k.Expr, a)
		count("variant_" + name)
		if withCorr {
			correspond("S "+hx(k.Expr)+" "+hxl(a), r.String(), "Satisfies on a "+name+" of the allowed list: model vs implementation", &kase{Expr: k.Expr, ExprHex: hx(k.Expr), Allowed: a})
		}
		if r.String() != base.String() {
			kk := *k
			kk.Extra = map[string]string{"variant": name, "variant_list": hxl(a)}
			return &failure{Stream: "oracle", What: "verdict changed under a " + name + " of the allowed list " + joinShow(a), Case: &kk, Impl: r.String(), Expected: base.String()}
		}
		return nil
	}
	if k.Extra != nil && k.Extra["extension"] != "" {
		ext := unhxl(k.Extra["extension"])
		if r := implSat(k.Expr, ext); base.ok && (r.panicv != nil || r.err != nil || !r.ok) {
			return &failure{Stream: "oracle", What: "adding valid entries turned 'satisfied' into " + r.String() + "; extended list " + joinShow(ext), Case: k, Impl: r.String(), Expected: "true"}
		}
	}
	var replayVariant []string
	if k.Extra != nil && k.Extra["variant_list"] != "" {
		replayVariant = unhxl(k.Extra["variant_list"])
		if f := variant(k.Extra["variant"], replayVariant); f != nil {
			return f
		}
	}
	n := len(k.Allowed)
	// permutations
	perm := append([]string{}, k.Allowed...)
	rng.Shuffle(n, func(i, j int) { perm[i], perm[j] = perm[j], perm[i] })
	if f := variant("permutation", perm); f != nil {
		return f
	}
	rev := make([]string, n)
	for i := range rev {
		rev[i] = k.Allowed[n-1-i]
	}
	if f := variant("reversal", rev); f != nil {
		return f
	}
	// duplication
	dup := append(append([]string{}, k.Allowed...), k.Allowed[rng.Intn(n)])
	rng.Shuffle(len(dup), func(i, j int) { dup[i], dup[j] = dup[j], dup[i] })
	if f := variant("duplication", dup); f != nil {
		return f
	}
	dupAll := append(append([]string{}, k.Allowed...), k.Allowed...)
	if f := variant("duplication-of-all", dupAll); f != nil {
		return f
	}
	// padding past the sizes at which implementations switch strategy (16, 32, 64 entries): the same entry repeated, and
	// entries that can match nothing
	if rng.Intn(4) == 0 {
		target := pick3(16, 17, 33, 65, 15, 31)
		rep := append([]string{}, k.Allowed...)
		x := k.Allowed[rng.Intn(n)]
		for len(rep) < target {
			rep = append(rep, x)
		}
		rng.Shuffle(len(rep), func(i, j int) { rep[i], rep[j] = rep[j], rep[i] })
		if f := variant("padding with repeats of one entry", rep); f != nil {
			return f
		}
		pad := append([]string{}, k.Allowed...)
		for i := 0; len(pad) < target; i++ {
			pad = append(pad, "LicenseRef-padding-entry-"+itoa(i))
		}
		rng.Shuffle(len(pad), func(i, j int) { pad[i], pad[j] = pad[j], pad[i] })
		if f := variant("padding with entries that match nothing", pad); f != nil {
			return f
		}
	}
	// re-spelling
	rs := make([]string, n)
	for i, a := range k.Allowed {
		rs[i] = respell(a)
		if !implValid(rs[i]) {
			rs[i] = a
		}
	}
	if f := variant("re-spelling", rs); f != nil {
		return f
	}
	// monotonicity
	ext := append([]string{}, k.Allowed...)
	for j := 1 + rng.Intn(3); j > 0; j-- {
		if len(k.Terms) > 0 && rng.Intn(2) == 0 {
			ext = append(ext, k.Terms[rng.Intn(len(k.Terms))])
		} else {
			ext = append(ext, genValidTerm().text)
		}
	}
	rng.Shuffle(len(ext), func(i, j int) { ext[i], ext[j] = ext[j], ext[i] })
	r := implSat(k.Expr, ext)
	count("variant_extension")
	if withCorr {
		correspond("S "+hx(k.Expr)+" "+hxl(ext), r.String(), "Satisfies on an extension of the allowed list: model vs implementation", &kase{Expr: k.Expr, ExprHex: hx(k.Expr), Allowed: ext})
	}
	if base.ok && (r.panicv != nil || r.err != nil || !r.ok) {
		kk := *k
		kk.Extra = map[string]string{"extension": hxl(ext)}
		return &failure{Stream: "oracle", What: "adding valid entries turned 'satisfied' into " + r.String() + "; extended list " + joinShow(ext), Case: &kk, Impl: r.String(), Expected: "true"}
	}
	if base.ok {
		nontrivial("mono|" + k.Expr + "|" + strings.Join(sortedCopy(k.Allowed), ";"))
	} else {
		nontrivial("set|" + k.Expr + "|" + strings.Join(sortedCopy(k.Allowed), ";"))
	}
	return nil
}

// c07Lattice: monotonicity over the whole subset lattice of a small pool of entries, for two-alternative expressions in
// which ONE id occurs twice with different decoration (bare, '+', WITH an exception) beside unrelated terms sorting before
// and after it: whenever a subset satisfies the expression, every superset must (anything remembered about an id while an
// earlier alternative was tried must not leak into a later one)
func c07Lattice() {
	decor := func(id string, d int, exc string) string {
		switch d {
		case 1:
			return id + "+"
		case 2:
			return id + " WITH " + exc
		case 3:
			return id + "+ WITH " + exc
		}
		return id
	}
	ids := append([]string{}, tblActive...)
	rng.Shuffle(len(ids), func(i, j int) { ids[i], ids[j] = ids[j], ids[i] })
	nIDs := scale(24, 200)
	done := 0
	for _, id := range ids {
		if done >= nIDs || timeUp("c07Lattice") {
			break
		}
		if !implValid(id+"+") || strings.HasSuffix(id, "-only") || strings.HasSuffix(id, "-or-later") {
			continue
		}
		done++
		exc := pick(tblExceptions)
		for d1 := 0; d1 < 4; d1++ {
			for d2 := 0; d2 < 4; d2++ {
				if d1 == d2 {
					continue
				}
				for _, others := range [][2]string{{"0BSD", "Zlib"}, {"Zlib", "0BSD"}, {"0BSD", "AAL"}, {"Zlib", "xpp"}} {
					u, z := others[0], others[1]
					if u == id || z == id {
						continue
					}
					x1, x2 := decor(id, d1, exc), decor(id, d2, exc)
					exprs := []string{
						"(" + u + " AND " + x1 + ") OR (" + x2 + " AND " + z + ")",
						"(" + x1 + " AND " + u + ") OR (" + z + " AND " + x2 + ")",
						u + " AND " + x1 + " OR " + x2 + " AND " + z + " OR " + x1 + " AND " + z,
					}
					pool := []string{x1, x2, u, z}
					if fam := sameFamilyIDs(id); len(fam) > 0 {
						pool = append(pool, pick(fam))
					}
					for _, e := range exprs {
						latticeCheck(e, pool)
					}
				}
			}
		}
	}
	c07FamilyLattice()
	c07RefLattice()
}

// c07RefLattice: user-defined references whose document ids / names are prefixes of one another (continued by bytes that
// sort before and after ':' and '-'), or equal up to letter case: lists that hold several of them, for expressions that ask
// for one (a look-up in the sorted list with a comparator that is not the order of the sort misses an entry that is there)
func c07RefLattice() {
	docs := []string{"spdx-tool", "spdx-tool-1.2", "spdx-tool.1", "spdx-tool1", "spdx-too", "SPDX-TOOL", "spdx-toolA"}
	names := []string{"acme", "acme-1", "acme.x", "acm", "ACME", "acme0"}
	var all []string
	for _, d := range docs {
		all = append(all, "DocumentRef-"+d+":LicenseRef-acme")
	}
	for _, n := range names {
		all = append(all, "LicenseRef-"+n, "DocumentRef-spdx-tool:LicenseRef-"+n)
	}
	rounds := scale(30, 200)
	for r := 0; r < rounds && !timeUp("c07RefLattice"); r++ {
		x := all[r%len(all)]
		pool := []string{x}
		for len(pool) < 5 {
			pool = uniqueStrings(append(pool, all[rng.Intn(len(all))]))
		}
		pool = append(pool, []string{"MIT", "Zlib", "Apache-2.0"}[r%3])
		for _, e := range []string{x, x + " OR ISC", "(" + x + " AND " + pool[1] + ") OR " + pool[2]} {
			count("ref_lattices")
			latticeCheck(e, pool)
		}
	}
}

// latticeCheck: Satisfies(e, S) for every non-empty subset S of the pool; whenever S satisfies e, every S + {x} must
func latticeCheck(e string, pool []string) {
	verdict := make([]string, 1<<len(pool))
	for mask := 1; mask < 1<<len(pool); mask++ {
		var l []string
		for i := range pool {
			if mask&(1<<i) != 0 {
				l = append(l, pool[i])
			}
		}
		verdict[mask] = implSat(e, l).String()
		res.Evaluations++
		count("lattice_lists")
	}
	for mask := 1; mask < 1<<len(pool); mask++ {
		if verdict[mask] != "true" {
			continue
		}
		nontrivial("lattice|" + e + "|" + itoa(mask))
		for i := range pool {
			sup := mask | 1<<i
			if sup != mask && verdict[sup] != "true" {
				var l, l2 []string
				for j := range pool {
					if mask&(1<<j) != 0 {
						l = append(l, pool[j])
					}
					if sup&(1<<j) != 0 {
						l2 = append(l2, pool[j])
					}
				}
				fail(failure{Stream: "oracle", What: "adding the valid entry " + show(pool[i]) + " turned 'satisfied' into " + verdict[sup] + "; extended list " + joinShow(l2),
					Case: &kase{Expr: e, ExprHex: hx(e), Allowed: l, Extra: map[string]string{"extension": hxl(l2)}}, Impl: verdict[sup], Expected: "true"})
				return
			}
		}
	}
}

// c07FamilyLattice: for every family of the version table, lists that hold members of the family TOGETHER WITH the listed
// ids that sort between them without belonging to it (CC-BY-3.0-IGO between CC-BY-3.0 and CC-BY-4.0, GPL-2.0-with-…
// between GPL-2.0 and GPL-3.0): a scan of the sorted list that stops when it "leaves the family" loses the later members
func c07FamilyLattice() {
	all := append(append([]string{}, tblActive...), tblDeprecated...)
	for fi, fam := range tblRanges {
		if timeUp("c07FamilyLattice") {
			return
		}
		member := map[string]bool{}
		var members []string
		for _, g := range fam {
			for _, x := range g {
				member[x] = true
				members = append(members, x)
			}
		}
		sort.Strings(members)
		if len(members) < 2 {
			continue
		}
		var intruders []string
		for _, x := range all {
			if !member[x] && !strings.HasSuffix(x, "+") && x > members[0] && x < members[len(members)-1] {
				intruders = append(intruders, x)
			}
		}
		rounds := scale(2, 8)
		for r := 0; r < rounds; r++ {
			i := rng.Intn(len(members))
			x := members[i]
			lo, hi := members[rng.Intn(i+1)], members[i+rng.Intn(len(members)-i)]
			pool := []string{lo, x, hi}
			for j := 0; j < 2 && len(intruders) > 0; j++ {
				pool = append(pool, intruders[rng.Intn(len(intruders))])
			}
			if len(intruders) == 0 || r%2 == 1 {
				pool = append(pool, []string{"MIT", "0BSD", "Zlib"}[(fi+r)%3])
			}
			pool = uniqueStrings(pool)
			for _, e := range []string{x, x + "+", lo + "+", "(" + lo + " OR " + x + ") AND " + hi, x + " OR MIT"} {
				if implValid(e) {
					count("family_lattices")
					latticeCheck(e, pool)
				}
			}
		}
	}
}

func permuteLeaves(t *tree, perm []int) {
	if t.isLeaf() {
		t.leaf = perm[t.leaf%len(perm)]
		return
	}
	permuteLeaves(t.l, perm)
	permuteLeaves(t.r, perm)
}

func uniqueStrings(xs []string) []string {
	seen := map[string]bool{}
	var out []string
	for _, x := range xs {
		if !seen[x] {
			seen[x] = true
			out = append(out, x)
		}
	}
	return out
}

func allPermutations(xs []string) [][]string {
	if len(xs) <= 1 {
		return [][]string{append([]string{}, xs...)}
	}
	var out [][]string
	for i := range xs {
		rest := append(append([]string{}, xs[:i]...), xs[i+1:]...)
		for _, p := range allPermutations(rest) {
			out = append(out, append([]string{xs[i]}, p...))
		}
	}
	return out
}

// c07WideParts: ONE alternative with many required terms (word-size boundaries 63..66, 127..130) against lists that lack one
// of them, with entries repeated two to four times and with two entries that cover the same term: per-term bookkeeping in a
// fixed-width set, or counting matches instead of covered terms, goes wrong only there
func c07WideParts() {
	for _, n := range []int{31, 32, 33, 63, 64, 65, 66, 70, 127, 128, 129, 130} {
		for variant := 0; variant < 3; variant++ {
			ids := make([]string, n)
			for i := range ids {
				switch variant {
				case 0:
					ids[i] = "LicenseRef-w" + itoa(i)
				case 1:
					ids[i] = tblActive[(i*7+int(seed))%len(tblActive)]
				default:
					ids[i] = tblActive[len(tblActive)-1-i]
				}
			}
			if variant > 0 && n != 65 && n != 70 {
				continue // listed ids: every comparison of two licence ids consults the range table — two sizes are enough
			}
			expr := strings.Join(ids, " AND ")
			if !implValid(expr) {
				continue
			}
			ext := implExt(expr)
			if ext.err != nil || len(ext.list) != n {
				continue // repeated terms after normalisation
			}
			sorted := append([]string{}, ext.list...)
			sort.Strings(sorted)
			for _, missing := range []int{0, 1, n / 2, n - 2, n - 1} {
				var l []string
				for i, t := range sorted {
					if i != missing {
						l = append(l, t)
					}
				}
				if variant > 0 && missing != 0 && missing != n-1 {
					continue
				}
				for _, dupAt := range []int{0, len(l) / 2, len(l) - 2, len(l) - 1} {
					if variant > 0 && dupAt != len(l)-1 {
						continue
					}
					for reps := 1; reps <= 3; reps++ {
						d := append([]string{}, l...)
						for r := 0; r < reps; r++ {
							d = append(d, l[dupAt])
						}
						k := &kase{Expr: expr, ExprHex: hx(expr), Allowed: d}
						res.Evaluations++
						count("wide_parts")
						r := implSat(expr, d)
						if r.err != nil || r.panicv != nil || r.ok {
							fail(failure{Stream: "oracle", What: "a required term is covered by no entry, yet repeating other entries changed the verdict", Case: k, Impl: r.String(), Expected: "false"})
						}
						full := append(append([]string{}, d...), sorted[missing])
						r = implSat(expr, full)
						if r.err != nil || r.panicv != nil || !r.ok {
							fail(failure{Stream: "oracle", What: "every required term is covered (some entries repeated), yet the verdict is not 'satisfied'", Case: &kase{Expr: expr, ExprHex: hx(expr), Allowed: full}, Impl: r.String(), Expected: "true"})
						}
						if variant == 0 && reps == 1 && dupAt == len(l)-1 {
							if f := c07Check(k, false); f != nil {
								fail(*f)
							}
						}
					}
				}
			}
		}
	}
}

func init() {
	props["C07"] = func() {
		res.Rule = "random (expression, allowed list) pairs from the C01 generator; for each: a random permutation, the reversal, a duplication, a full duplication, a re-spelling (case of listed ids, surrounding spaces/parentheses) and a random valid extension; thorough adds every permutation of lists up to 5 entries. Non-trivial & distinct = (expression, allowed set) with >= 2 entries or a non-leaf expression"
		c07Lattice()
		c07WideParts()
		n := scale(5000, 60000)
		for i := 0; i < n && !timeUp("props_tree.go:542"); i++ {
			c := genTreeCase(scale(4, 6), 5)
			k := c.kase()
			res.Evaluations++
			if f := c07Check(k, true); f != nil {
				fail(*f)
			}
			if i%311 == 0 {
				sample(map[string]interface{}{"expr": show(k.Expr), "allowed": k.Allowed})
			}
			if i%4 == 0 && len(k.Allowed) >= 1 {
				// the SAME slice, edited in place between two calls: the answer must be that of the list's contents, not of
				// anything remembered about the slice (the fresh-process echo re-computes both calls from their contents)
				l := append([]string{}, k.Allowed...)
				implSat(k.Expr, l)
				j := rng.Intn(len(l))
				l[j] = c.terms[rng.Intn(len(c.terms))].text
				if rng.Intn(2) == 0 {
					l[j] = genValidTerm().text
				}
				r2 := implSat(k.Expr, l)
				implSat("MIT", []string{"ISC", "Zlib"}) // an unrelated call in between
				r3 := implSat(k.Expr, append([]string{}, l...))
				count("in_place_edits")
				if r2.String() != r3.String() {
					kk := *k
					kk.Allowed = l
					kk.Extra = map[string]string{"variant": "in-place edit", "first_list": hxl(k.Allowed), "edited_index": itoa(j)}
					fail(failure{Stream: "oracle", What: "after an in-place edit of the allowed slice between two calls, Satisfies answers differently for that slice and for a fresh copy with the same contents", Case: &kk, Impl: r2.String(), Expected: r3.String()})
				}
			}
			if (thorough() || i%20 == 0) && len(k.Allowed) <= scale(4, 5) {
				base := implSat(k.Expr, k.Allowed)
				for _, p := range allPermutations(k.Allowed) {
					r := implSat(k.Expr, p)
					count("all_permutations")
					if r.String() != base.String() {
						kk := *k
						kk.Extra = map[string]string{"variant": "permutation", "variant_list": hxl(p)}
						fail(failure{Stream: "oracle", What: "verdict changed under a permutation of the allowed list " + joinShow(p), Case: &kk, Impl: r.String(), Expected: base.String()})
						break
					}
				}
			}
		}
	}
	replays["C07"] = func(k *kase) *failure { return c07Check(k, false) }
}

// ---------------------------------------------------------------- C10

// one random Boolean-algebra rewrite somewhere in the tree; reports whether it keeps the set of terms
func rewrite(t *tree, nterms int) (*tree, string) {
	// choose a random node
	var nodes []*tree
	var walk func(x *tree)
	walk = func(x *tree) {
		nodes = append(nodes, x)
		if !x.isLeaf() {
			walk(x.l)
			walk(x.r)
		}
	}
	t = t.clone()
	walk(t)
	x := nodes[rng.Intn(len(nodes))]
	other := func(op string) string {
		if op == "AND" {
			return "OR"
		}
		return "AND"
	}
	set := func(dst, src *tree) { *dst = *src }
	switch rng.Intn(7) {
	case 0: // commutativity
		if !x.isLeaf() {
			x.l, x.r = x.r, x.l
			return t, "commute"
		}
	case 1: // associativity
		if !x.isLeaf() && !x.l.isLeaf() && x.l.op == x.op {
			set(x, &tree{op: x.op, l: x.l.l, r: &tree{op: x.op, l: x.l.r, r: x.r}})
			return t, "assoc"
		}
		if !x.isLeaf() && !x.r.isLeaf() && x.r.op == x.op {
			set(x, &tree{op: x.op, l: &tree{op: x.op, l: x.l, r: x.r.l}, r: x.r.r})
			return t, "assoc"
		}
	case 2: // idempotence (introduce)
		op := []string{"AND", "OR"}[rng.Intn(2)]
		set(x, &tree{op: op, l: x.clone(), r: x.clone()})
		return t, "idem"
	case 3: // idempotence (eliminate)
		if !x.isLeaf() && x.l.shape() == x.r.shape() && fmt.Sprint(x.l.leaves(nil)) == fmt.Sprint(x.r.leaves(nil)) {
			set(x, x.l)
			return t, "idem"
		}
	case 4: // absorption (introduce): X = X op (X op' Y)
		op := []string{"AND", "OR"}[rng.Intn(2)]
		y := leafT(rng.Intn(nterms))
		set(x, &tree{op: op, l: x.clone(), r: &tree{op: other(op), l: x.clone(), r: y}})
		return t, "absorb"
	case 5: // distribution: X op (Y op' Z) = (X op Y) op' (X op Z)
		if !x.isLeaf() && !x.r.isLeaf() && x.r.op != x.op {
			set(x, &tree{op: x.r.op, l: &tree{op: x.op, l: x.l.clone(), r: x.r.l}, r: &tree{op: x.op, l: x.l.clone(), r: x.r.r}})
			return t, "distribute"
		}
		if !x.isLeaf() && !x.l.isLeaf() && x.l.op != x.op {
			set(x, &tree{op: x.l.op, l: &tree{op: x.op, l: x.l.l, r: x.r.clone()}, r: &tree{op: x.op, l: x.l.r, r: x.r.clone()}})
			return t, "distribute"
		}
	case 6: // factoring (distribution backwards): (X op Y) op' (X op Z) = X op (Y op' Z)
		if !x.isLeaf() && !x.l.isLeaf() && !x.r.isLeaf() && x.l.op == x.r.op && x.l.op != x.op &&
			x.l.l.shape() == x.r.l.shape() && fmt.Sprint(x.l.l.leaves(nil)) == fmt.Sprint(x.r.l.leaves(nil)) {
			set(x, &tree{op: x.l.op, l: x.l.l, r: &tree{op: x.op, l: x.l.r, r: x.r.r}})
			return t, "distribute"
		}
	}
	return t, "none"
}

func leafSet(t *tree) string {
	ls := t.leaves(nil)
	sort.Ints(ls)
	var u []string
	for i, l := range ls {
		if i == 0 || l != ls[i-1] {
			u = append(u, itoa(l))
		}
	}
	return strings.Join(u, ",")
}

func c10Check(k *kase, withCorr bool) *failure {
	t1 := parsePrefix(k.Tree)
	t2 := parsePrefix(k.Extra["tree2"])
	e1 := k.Expr
	e2 := unhx(k.Extra["expr2"])
	if !implValid(e1) || !implValid(e2) {
		count("skipped_impl_says_invalid")
		return nil
	}
	subs := subsetsOf(k.Terms, 6)
	for _, a := range subs {
		r1, r2 := implSat(e1, a), implSat(e2, a)
		count("subset_evaluations")
		if r1.String() != r2.String() {
			kk := *k
			kk.Allowed = a
			return &failure{Stream: "oracle", What: "two expressions denoting the same Boolean function get different verdicts; e2 = " + show(e2), Case: &kk, Impl: r2.String(), Expected: r1.String()}
		}
	}
	if leafSet(t1) == leafSet(t2) {
		x1, x2 := implExt(e1), implExt(e2)
		if x1.err == nil && x2.err == nil && x1.panicv == nil && x2.panicv == nil && !setEq(x1.list, x2.list) {
			return &failure{Stream: "oracle", What: "term-preserving rewrite changed the set ExtractLicenses returns; e2 = " + show(e2), Case: k, Impl: joinShow(sortedCopy(x2.list)), Expected: joinShow(sortedCopy(x1.list))}
		}
		count("extract_sets_compared")
	}
	// E AND F / E OR F composition
	if withCorr {
		// the model's verdict for both trees under the full truth matrix of one random list
		a := subs[rng.Intn(len(subs))]
		if m, ok := implMatrix(k.Terms, a); ok {
			r2 := implSat(e2, a)
			correspond("T "+t2.prefix()+" "+matrixString(m), r2.String(), "model verdict of the rewritten tree vs Satisfies", &kase{Expr: e2, ExprHex: hx(e2), Allowed: a, Tree: t2.prefix(), Terms: k.Terms})
		}
	}
	nontrivial(t1.shape() + "→" + t2.shape())
	return nil
}

func c10Compose(terms []*term) *failure {
	// Satisfies("(E) AND (F)", A) = Satisfies(E, A) && Satisfies(F, A), likewise OR
	e := genTree(rng.Intn(3), len(terms))
	f := genTree(rng.Intn(3), len(terms))
	te, tf := e.render(texts(terms), "", false, 0, true), f.render(texts(terms), "", false, 0, true)
	for _, a := range subsetsOf(texts(terms), 5) {
		re, rf := implSat(te, a), implSat(tf, a)
		if re.err != nil || rf.err != nil || re.panicv != nil || rf.panicv != nil {
			return nil
		}
		for _, op := range []string{"AND", "OR"} {
			text := "(" + te + ") " + op + " (" + tf + ")"
			r := implSat(text, a)
			want := re.ok && rf.ok
			if op == "OR" {
				want = re.ok || rf.ok
			}
			count("compose_" + op)
			if r.panicv != nil || r.err != nil || r.ok != want {
				return &failure{Stream: "oracle", What: "Satisfies('(E) " + op + " (F)', A) differs from combining Satisfies(E, A) and Satisfies(F, A)", Case: &kase{Expr: text, ExprHex: hx(text), Allowed: a, Extra: map[string]string{"E": te, "F": tf}}, Impl: r.String(), Expected: fmt.Sprint(want)}
			}
		}
	}
	return nil
}

func init() {
	props["C10"] = func() {
		res.Rule = "a random tree over 2-5 distinct valid terms and a chain of 1-6 random rewrites (commutativity, associativity, idempotence, absorption, distribution/factoring) plus re-rendering with other spacing/parentheses; verdicts compared under every non-empty subset of the terms, extracted sets compared when the rewrite chain kept the set of terms; plus the (E) AND/OR (F) composition law. Non-trivial & distinct = (shape before, shape after) pairs"
		n := scale(2500, 40000)
		for i := 0; i < n && !timeUp("props_tree.go:744"); i++ {
			nt := 2 + rng.Intn(4)
			terms := distinctTerms(nt)
			t1 := genTree(1+rng.Intn(scale(3, 4)), nt)
			t2 := t1
			var ops []string
			for j := 1 + rng.Intn(6); j > 0; j-- {
				var op string
				t2, op = rewrite(t2, nt)
				ops = append(ops, op)
			}
			if t2.size() > 40 {
				continue
			}
			if _, sl := t2.expansion(); sl > 60000 {
				// a chain of distributions can produce a tree whose disjunctive form has millions of alternatives: one call then
				// takes minutes in the library (the known finding of C14) and far longer in the model's driver
				count("skipped_large_expansion")
				continue
			}
			e1 := t1.render(texts(terms), "", false, rng.Intn(3), true)
			e2 := t2.render(texts(terms), "", false, rng.Intn(3), rng.Intn(2) == 0)
			k := &kase{Expr: e1, ExprHex: hx(e1), Tree: t1.prefix(), Terms: texts(terms), Extra: map[string]string{"tree2": t2.prefix(), "expr2": hx(e2), "rewrites": strings.Join(ops, ",")}}
			res.Evaluations++
			for _, o := range ops {
				count("rewrite_" + o)
			}
			if f := c10Check(k, true); f != nil {
				fail(*f)
			}
			if i%173 == 0 {
				sample(map[string]interface{}{"e1": show(e1), "e2": show(e2), "rewrites": ops})
			}
			if i%5 == 0 {
				res.Evaluations++
				if f := c10Compose(terms); f != nil {
					fail(*f)
				}
			}
		}
		// commutativity at size: products of wide ORs (64 and more rows), the operands once in random and once in sorted
		// order — the extracted set and the verdict must not depend on the order operands are written in
		{
			var pool []string
			inFam := map[string]bool{}
			for _, x := range famIDs {
				inFam[x] = true
			}
			for _, x := range tblActive {
				if !inFam[x] && !strings.HasSuffix(x, "-only") && !strings.HasSuffix(x, "-or-later") && len(x) < 14 {
					pool = append(pool, x)
				}
			}
			for _, widths := range [][]int{{8, 8}, {4, 16}, {2, 32}, {9, 8}, {3, 3, 8}} {
				total := 0
				for _, wd := range widths {
					total += wd
				}
				for round := 0; round < scale(100, 1000) && total <= len(pool); round++ {
					ids := append([]string{}, pool...)
					rng.Shuffle(len(ids), func(i, j int) { ids[i], ids[j] = ids[j], ids[i] })
					ids = ids[:total]
					var g1, g2 []string
					at := 0
					for _, wd := range widths {
						grp := append([]string{}, ids[at:at+wd]...)
						g1 = append(g1, "("+strings.Join(grp, " OR ")+")")
						sort.Strings(grp)
						g2 = append(g2, "("+strings.Join(grp, " OR ")+")")
						at += wd
					}
					e1, e2 := strings.Join(g1, " AND "), strings.Join(g2, " AND ")
					x1, x2 := implExt(e1), implExt(e2)
					res.Evaluations++
					count("wide_products_commuted")
					if extractSetNorm(x1.String()) != extractSetNorm(x2.String()) {
						fail(failure{Stream: "oracle", What: "writing the operands of wide ORs in another order changed the set ExtractLicenses returns", Case: &kase{Expr: e1, ExprHex: hx(e1), Extra: map[string]string{"plain": e2}}, Impl: x1.String(), Expected: x2.String()})
						break
					}
					l := []string{ids[0], ids[total-1]}
					if r1, r2 := implSat(e1, l), implSat(e2, l); r1.String() != r2.String() {
						fail(failure{Stream: "oracle", What: "writing the operands of wide ORs in another order changed Satisfies", Case: &kase{Expr: e1, ExprHex: hx(e1), Allowed: l, Extra: map[string]string{"plain": e2}}, Impl: r1.String(), Expected: r2.String()})
						break
					}
				}
			}
		}
		// EVERY alternative of a product of OR groups, taken as the allowed list: it satisfies the product (as it satisfies the
		// alternative written out as a conjunction), and with one entry missing it does not — products whose numbers of
		// alternatives are odd / prime powers, below and above the round limits at which code changes its route (a scan of the
		// alternatives in chunks loses the remainder; a limit drops the tail)
		{
			// (user-defined references: every comparison of two licence ids rebuilds the range table in this library, which makes
			// a call over a few hundred alternatives take a second)
			pool := make([]string, 300)
			for i := range pool {
				pool[i] = "LicenseRef-p" + itoa(i)
			}
			for wi, widths := range [][]int{{3, 3, 3, 3, 3, 3}, {5, 5, 5, 5}, {7, 7, 7}, {3, 5, 7, 11}, {2, 3, 5, 7, 3}, {9, 9, 9, 7}, {257, 17}, {41, 41, 41}} {
				total, rows := 0, 1
				for _, wd := range widths {
					total += wd
					rows *= wd
				}
				if total > len(pool) || timeUp("c10 product rows") {
					continue
				}
				if rows > 6000 && !thorough() && wi%2 != int(seed%2) {
					continue
				}
				ids := append([]string{}, pool...)
				rng.Shuffle(len(ids), func(i, j int) { ids[i], ids[j] = ids[j], ids[i] })
				ids = ids[:total]
				var groups [][]string
				var gs []string
				at := 0
				for _, wd := range widths {
					grp := append([]string{}, ids[at:at+wd]...)
					sort.Strings(grp)
					groups = append(groups, grp)
					gs = append(gs, "("+strings.Join(grp, " OR ")+")")
					at += wd
				}
				e := strings.Join(gs, " AND ")
				row := func(r int) []string {
					var l []string
					for _, g := range groups {
						l = append(l, g[r%len(g)])
						r /= len(g)
					}
					return l
				}
				var which []int
				if rows <= 800 {
					for r := 0; r < rows; r++ {
						which = append(which, r)
					}
				} else {
					// the corners (first / last operand of every group, in each combination of ends) and a sample
					which = append(which, 0, rows-1)
					lastOfAll := 0
					mul := 1
					for _, g := range groups {
						lastOfAll += (len(g) - 1) * mul
						mul *= len(g)
					}
					which = append(which, lastOfAll)
					for k := 0; k < scale(8, 200); k++ {
						which = append(which, rng.Intn(rows))
					}
				}
				for _, r := range which {
					l := row(r)
					res.Evaluations++
					count("product_rows")
					if got := implSat(e, l); got.String() != "true" {
						fail(failure{Stream: "oracle", What: fmt.Sprintf("an alternative of a product of OR groups (%d alternatives), taken as the allowed list, does not satisfy the product although it satisfies the alternative written as a conjunction", rows), Case: &kase{Expr: e, ExprHex: hx(e), Allowed: l, Extra: map[string]string{"plain": strings.Join(l, " AND ")}}, Impl: got.String(), Expected: "true"})
						break
					}
					if rows <= 800 || r == which[0] {
						short := l[1:]
						if got := implSat(e, short); got.String() != "false" {
							fail(failure{Stream: "oracle", What: "a product of OR groups is satisfied by a list that has no entry for its first group", Case: &kase{Expr: e, ExprHex: hx(e), Allowed: short, Extra: map[string]string{"plain": strings.Join(l, " AND ")}}, Impl: got.String(), Expected: "false"})
							break
						}
					}
				}
			}
		}
		// every ordered pair of versions of every family: `a+` against [b] as a single term, in parentheses, and doubled with AND /
		// OR (a short cut for single-licence expressions must decide as the general route does)
		for _, fam := range tblRanges {
			var mem []string
			for _, g := range fam {
				mem = append(mem, g...)
			}
			if len(mem) > 8 && !thorough() {
				rng.Shuffle(len(mem), func(i, j int) { mem[i], mem[j] = mem[j], mem[i] })
				mem = mem[:8]
			}
			for _, a := range mem {
				for _, b := range mem {
					for _, sp := range []string{a + "+", a} {
						if !implValid(sp) || strings.HasSuffix(a, "+") || strings.HasSuffix(b, "+") {
							continue
						}
						for _, l := range [][]string{{b}, {"Apache-2.0", b, "MIT"}, {b + "+"}} {
							if !implValid(l[len(l)/2]) {
								continue
							}
							ref := implSat(sp, l).String()
							res.Evaluations++
							count("family_pairs_single_vs_compound")
							for _, e := range []string{"(" + sp + ")", sp + " AND " + sp, sp + " OR " + sp, sp + " AND (" + sp + " OR LicenseRef-none)"} {
								if r := implSat(e, l); r.String() != ref {
									fail(failure{Stream: "oracle", What: "a single term and the same term doubled / parenthesised give different results", Case: &kase{Expr: e, ExprHex: hx(e), Allowed: l, Extra: map[string]string{"plain": sp}}, Impl: r.String(), Expected: ref})
									break
								}
							}
						}
					}
				}
			}
		}
		// chains of 63–66 and 129 DISTINCT terms written in two orders (numbering of distinct terms in machine words):
		// the verdict must not depend on which term comes first
		{
			var pool []string
			for _, x := range tblActive {
				if _, ok := tablePos(x); !ok && !strings.HasSuffix(x, "-only") && !strings.HasSuffix(x, "-or-later") {
					pool = append(pool, x)
				}
			}
			for _, n := range []int{63, 64, 65, 66, 129} {
				if n > len(pool) {
					continue
				}
				ids := append([]string{}, pool...)
				rng.Shuffle(len(ids), func(i, j int) { ids[i], ids[j] = ids[j], ids[i] })
				ids = ids[:n]
				for _, op := range []string{" AND ", " OR "} {
					e1 := strings.Join(ids, op)
					rot := append(append([]string{}, ids[n-1]), ids[:n-1]...)
					e2 := strings.Join(rot, op)
					rev := make([]string, n)
					for i := range rev {
						rev[i] = ids[n-1-i]
					}
					e3 := strings.Join(rev, op)
					for _, l := range [][]string{ids[:n-1], ids[1:], ids, {ids[n-1]}, {ids[0]}, {"LicenseRef-none"}} {
						ref := implSat(e1, l).String()
						res.Evaluations++
						count("many_distinct_terms_orders")
						for _, e := range []string{e2, e3} {
							if r := implSat(e, l); r.String() != ref {
								fail(failure{Stream: "oracle", What: fmt.Sprintf("the order in which %d distinct terms are written changed Satisfies", n), Case: &kase{Expr: e, ExprHex: hx(e), Allowed: l, Extra: map[string]string{"plain": e1}}, Impl: r.String(), Expected: ref})
								break
							}
						}
					}
				}
			}
		}
		// sibling operands with the SAME leaves in another nesting: (E) AND (F), (E) OR (F) must combine the verdicts of E and F
		for i := 0; i < scale(1500, 15000); i++ {
			terms := distinctTerms(3)
			res.Evaluations++
			count("same_leaves_other_nesting")
			e := genTree(2, 3)
			f := e.clone()
			permuteLeaves(f, rng.Perm(3))
			te, tf := e.render(texts(terms), "", false, 0, true), f.render(texts(terms), "", false, 0, true)
			for _, a := range subsetsOf(texts(terms), 3) {
				re, rf := implSat(te, a), implSat(tf, a)
				if re.err != nil || rf.err != nil || re.panicv != nil || rf.panicv != nil {
					break
				}
				for _, op := range []string{"AND", "OR"} {
					text := "(" + te + ") " + op + " (" + tf + ")"
					r := implSat(text, a)
					want := re.ok && rf.ok
					if op == "OR" {
						want = re.ok || rf.ok
					}
					if r.panicv != nil || r.err != nil || r.ok != want {
						fail(failure{Stream: "oracle", What: "Satisfies('(E) " + op + " (F)', A) differs from combining Satisfies(E, A) and Satisfies(F, A) (E and F have the same leaves in another nesting)", Case: &kase{Expr: text, ExprHex: hx(text), Allowed: a, Extra: map[string]string{"E": te, "F": tf}}, Impl: r.String(), Expected: fmt.Sprint(want)})
					}
				}
			}
		}
		// members of families that are ADJACENT in the version table, in one expression (positions packed into too few bits
		// carry from a long family into the next one): the composition law over such pairs
		for fi := 0; fi+1 < len(tblRanges); fi++ {
			var as, bs []string
			for _, g := range tblRanges[fi] {
				as = append(as, g[0])
			}
			for _, g := range tblRanges[fi+1] {
				bs = append(bs, g[0])
			}
			n := 0
			for _, a := range as {
				for _, b := range bs {
					if n >= scale(24, 200) && len(as) <= 8 { // families with more than 8 versions: every pair (positions packed in 3 bits)
						break
					}
					a, b = strings.TrimSuffix(a, "+"), strings.TrimSuffix(b, "+")
					if !implValid(a) || !implValid(b) {
						continue
					}
					n++
					res.Evaluations++
					count("adjacent_families_composition")
					ct := []*term{{text: a, caseMod: -1}, {text: b, caseMod: -1}}
					if f := c10Compose(ct); f != nil {
						fail(*f)
					}
				}
			}
		}
		// ONE licence in several spellings / decorations in one row, grouped differently (shortcuts that count distinct
		// licences in a sorted row): all groupings of the same conjunction must agree on every small list
		for _, id := range tblActive {
			b := strings.TrimSuffix(id, "-only")
			if b == id || !implValid(b) {
				continue
			}
			e := genException()
			sp := []string{b, b + "-only", b + " WITH " + e, b + "-only WITH " + e, b + "+", b + "-or-later WITH " + e}
			for round := 0; round < scale(4, 20); round++ {
				pm := rng.Perm(len(sp))
				a1, a2, a3 := sp[pm[0]], sp[pm[1]], sp[pm[2]]
				forms := []string{
					a1 + " AND " + a2 + " AND " + a3,
					"(" + a1 + ") AND (" + a2 + " AND " + a3 + ")",
					a3 + " AND (" + a1 + " AND " + a2 + ")",
					"(" + a2 + " AND " + a3 + " AND " + a1 + ") OR (" + a1 + " AND " + a2 + " AND " + a3 + ")",
					"(" + a1 + " AND " + a2 + ") AND (" + a3 + " AND " + a1 + ")",
				}
				// the composition law over the same spellings: Satisfies((E) AND (F)) = Satisfies(E) && Satisfies(F) …
				ct := make([]*term, 4)
				for i := range ct {
					ct[i] = &term{text: sp[pm[i]], caseMod: -1}
				}
				for j := 0; j < 3; j++ {
					res.Evaluations++
					if f := c10Compose(ct); f != nil {
						fail(*f)
						break
					}
				}
				for _, l := range subsetsOf(sp, 6) {
					if len(l) > 3 {
						continue
					}
					ref := implSat(forms[0], l).String()
					res.Evaluations++
					count("one_licence_groupings")
					for _, f := range forms[1:] {
						if r := implSat(f, l); r.String() != ref {
							fail(failure{Stream: "oracle", What: "two groupings of one conjunction give different verdicts (one licence in several spellings)", Case: &kase{Expr: f, ExprHex: hx(f), Allowed: l, Extra: map[string]string{"plain": forms[0]}}, Impl: r.String(), Expected: ref})
							break
						}
					}
				}
			}
		}
		// terms whose texts concatenate to another term's text (row keys built by joining or hashing strings piecewise):
		// a = LicenseRef-x, b = any id, c = LicenseRef-x<b>; equivalent forms with different rows must agree on every list
		for i := 0; i < scale(60, 600); i++ {
			x := pick(refNames)
			bt := genValidTerm()
			if bt.isRef || bt.exc != "" {
				continue
			}
			a, b := "LicenseRef-"+x, bt.text
			c := "LicenseRef-" + x + refSafe(b)
			if !implValid(c) || c == a {
				continue
			}
			forms := []string{
				"(" + a + " AND " + b + ") OR " + c,
				c + " OR (" + b + " AND " + a + ")",
				"(" + a + " OR " + c + ") AND (" + b + " OR " + c + ")",
				"(" + a + " AND " + b + ") OR " + c + " OR (" + c + " AND " + a + ")",
				c + " OR (" + a + " AND " + b + ") OR (" + a + " AND " + b + " AND " + c + ")",
			}
			for _, l := range subsetsOf([]string{a, b, c, "MIT"}, 4) {
				ref := implSat(forms[0], l).String()
				res.Evaluations++
				count("concatenation_forms")
				for _, f := range forms[1:] {
					if r := implSat(f, l); r.String() != ref {
						fail(failure{Stream: "oracle", What: "two forms of one Boolean function give different verdicts (terms whose texts concatenate to another term's text)", Case: &kase{Expr: f, ExprHex: hx(f), Allowed: l, Extra: map[string]string{"plain": forms[0]}}, Impl: r.String(), Expected: ref})
						break
					}
				}
			}
		}
		// redundant parentheses at boundary sizes: chains of n operands, each operand in its own parentheses, and
		// one operand nested d deep; the verdict and the extracted set must equal those of the plain chain
		for _, n := range []int{2, 3, 7, 8, 9, 15, 16, 17, 18, 31, 32, 33, 64, 65, 100} {
			terms := distinctTerms(5)
			tt := texts(terms)
			for _, op := range []string{" AND ", " OR "} {
				plain, par := make([]string, n), make([]string, n)
				for i := 0; i < n; i++ {
					plain[i] = tt[i%len(tt)]
					par[i] = "(" + tt[i%len(tt)] + ")"
				}
				e1, e2 := strings.Join(plain, op), strings.Join(par, op)
				e3 := strings.Repeat("(", n) + tt[0] + strings.Repeat(")", n) + op + tt[1]
				e4 := tt[0] + op + tt[1]
				for _, pr := range [][2]string{{e1, e2}, {e4, e3}} {
					for _, a := range subsetsOf(tt, 5) {
						r1, r2 := implSat(pr[0], a), implSat(pr[1], a)
						res.Evaluations++
						count("many_groups")
						if r1.String() != r2.String() {
							fail(failure{Stream: "oracle", What: fmt.Sprintf("redundant parentheses changed Satisfies (%d groups)", n), Case: &kase{Expr: pr[1], ExprHex: hx(pr[1]), Allowed: a, Extra: map[string]string{"plain": pr[0]}}, Impl: r2.String(), Expected: r1.String()})
							break
						}
					}
					x1, x2 := implExt(pr[0]), implExt(pr[1])
					if hxl(uniqSorted(x1.list)) != hxl(uniqSorted(x2.list)) || (x1.err != nil) != (x2.err != nil) {
						fail(failure{Stream: "oracle", What: fmt.Sprintf("redundant parentheses changed the set ExtractLicenses returns (%d groups)", n), Case: &kase{Expr: pr[1], ExprHex: hx(pr[1]), Extra: map[string]string{"plain": pr[0]}}, Impl: x2.String(), Expected: x1.String()})
					}
				}
			}
		}
	}
	replays["C10"] = func(k *kase) *failure {
		if k.Extra != nil && k.Extra["tree2"] != "" {
			return c10Check(k, false)
		}
		if k.Extra != nil && k.Extra["plain"] != "" && len(k.Allowed) == 0 {
			x1, x2 := implExt(k.Extra["plain"]), implExt(k.Expr)
			if extractSetNorm(x1.String()) != extractSetNorm(x2.String()) {
				return &failure{Stream: "oracle", What: "two forms of one expression give different extracted sets", Case: k, Impl: x2.String(), Expected: x1.String()}
			}
			return nil
		}
		if k.Extra != nil && k.Extra["plain"] != "" {
			r1, r2 := implSat(k.Extra["plain"], k.Allowed), implSat(k.Expr, k.Allowed)
			if r1.String() != r2.String() {
				return &failure{Stream: "oracle", What: "two forms of one Boolean function give different verdicts", Case: k, Impl: r2.String(), Expected: r1.String()}
			}
			return nil
		}
		r := implSat(k.Expr, k.Allowed)
		re, rf := implSat(k.Extra["E"], k.Allowed), implSat(k.Extra["F"], k.Allowed)
		want := re.ok && rf.ok
		if strings.Contains(k.Expr, ") OR (") {
			want = re.ok || rf.ok
		}
		if r.String() != fmt.Sprint(want) {
			return &failure{Stream: "oracle", What: "composition law", Case: k, Impl: r.String(), Expected: fmt.Sprint(want)}
		}
		return nil
	}
}
