package main

// Generators: terms, trees, renderings, allowed lists, malformed inputs.
// Every random choice comes from the single PRNG `rng` seeded by VERIF_SEED.

import (
	"math/rand"
	"sort"
	"strings"

	"github.com/github/go-spdx/v2/spdxexp/spdxlicenses"
)

var rng *rand.Rand

var (
	tblActive, tblDeprecated, tblExceptions []string
	tblRanges                               [][][]string
	famIDs                                  []string // every id mentioned in the range table
	specialIDs, specialExcs                 []string // ids / exceptions with a property that code is tempted to key on (see specialPool)
	activeSet, deprecatedSet, exceptionSet  map[string]bool
)

func loadTables() {
	tblActive, tblDeprecated, tblExceptions = spdxlicenses.GetLicenses(), spdxlicenses.GetDeprecated(), spdxlicenses.GetExceptions()
	tblRanges = spdxlicenses.LicenseRanges()
	activeSet, deprecatedSet, exceptionSet = map[string]bool{}, map[string]bool{}, map[string]bool{}
	for _, s := range tblActive {
		activeSet[s] = true
	}
	for _, s := range tblDeprecated {
		deprecatedSet[s] = true
	}
	for _, s := range tblExceptions {
		exceptionSet[s] = true
	}
	famIDs = nil
	for _, f := range tblRanges {
		for _, g := range f {
			famIDs = append(famIDs, g...)
		}
	}
	unlistedBases = nil
	specialIDs = specialPool(append(append([]string{}, tblActive...), tblDeprecated...))
	for _, f := range tblRanges { // the ends of every family and of every version group
		specialIDs = append(specialIDs, f[0][0], f[len(f)-1][len(f[len(f)-1])-1])
	}
	// bases of listed `X-only` / `X-or-later` ids, listed themselves or not (`GFDL-1.1-invariants` is no id, but
	// `GFDL-1.1-invariants+` is a spelling of a listed one)
	have := map[string]bool{}
	for _, x := range specialIDs {
		have[x] = true
	}
	for _, x := range append(append([]string{}, tblActive...), tblDeprecated...) {
		for _, suf := range []string{"-only", "-or-later"} {
			if b := strings.TrimSuffix(x, suf); b != x && !activeSet[b] && !deprecatedSet[b] && !have[b] {
				have[b] = true
				specialIDs = append(specialIDs, b)
				unlistedBases = append(unlistedBases, b)
			}
		}
	}
	specialExcs = specialPool(tblExceptions)
	isSpecialID = map[string]bool{}
	for _, x := range specialIDs {
		isSpecialID[x] = true
	}
}

var isSpecialID map[string]bool

// unlistedBases: X such that X-only or X-or-later is listed but X is not
var unlistedBases []string

// specialPool: the ids a shortcut in the code is most likely to treat differently from the rest — first / last / shortest /
// longest of the list, ids that are a prefix of another id, ids that contain an operator word or a suffix word inside,
// ids that begin with a digit, ids with an unusual character class
func specialPool(ids []string) []string {
	if len(ids) == 0 {
		return nil
	}
	seen := map[string]bool{}
	var out []string
	add := func(x string) {
		if !seen[x] {
			seen[x] = true
			out = append(out, x)
		}
	}
	add(ids[0])
	add(ids[len(ids)-1])
	sh, lo := ids[0], ids[0]
	for _, x := range ids {
		if len(x) < len(sh) {
			sh = x
		}
		if len(x) > len(lo) {
			lo = x
		}
	}
	add(sh)
	add(lo)
	for _, x := range ids {
		// every id of extreme length, and of the length next to it (bounds computed from the longest / shortest id)
		if len(x) >= len(lo)-1 || len(x) <= len(sh)+1 {
			add(x)
		}
	}
	lower := make([]string, len(ids))
	for i, x := range ids {
		lower[i] = strings.ToLower(x)
	}
	npre := 0
	for i, x := range lower {
		for _, w := range []string{"or", "and", "with", "only", "later", "licenseref", "documentref"} {
			if strings.Contains(x, w) && !strings.HasSuffix(x, "-only") && !strings.HasSuffix(x, "-or-later") {
				add(ids[i])
			}
		}
		if x[0] >= '0' && x[0] <= '9' {
			add(ids[i])
		}
		if npre < 60 {
			for j, y := range lower {
				if i != j && strings.HasPrefix(y, x) {
					add(ids[i])
					add(ids[j])
					npre++
					break
				}
			}
		}
	}
	return out
}

// digest of the live tables; must equal the driver's `D` answer (stale-driver detection)
func tablesDigest() uint64 {
	const mod = 4294967291
	h := uint64(17)
	word := func(w []byte) {
		h = (h*131 + 7) % mod
		for _, c := range w {
			h = (h*131 + uint64(c) + 1) % mod
		}
	}
	for _, s := range tblActive {
		word([]byte(s))
	}
	word([]byte{0})
	for _, s := range tblDeprecated {
		word([]byte(s))
	}
	word([]byte{0})
	for _, s := range tblExceptions {
		word([]byte(s))
	}
	word([]byte{0})
	for _, f := range tblRanges {
		word([]byte{1})
		for _, g := range f {
			word([]byte{2})
			for _, s := range g {
				word([]byte(s))
			}
		}
	}
	return h
}

func pick(xs []string) string { return xs[rng.Intn(len(xs))] }

func caseMut(s string, mode int) string {
	switch mode {
	case 0:
		return strings.ToLower(s)
	case 1:
		return strings.ToUpper(s)
	case 2:
		b := []byte(s)
		for i := range b {
			if rng.Intn(2) == 0 {
				b[i] = strings.ToUpper(string(b[i]))[0]
			} else {
				b[i] = strings.ToLower(string(b[i]))[0]
			}
		}
		return string(b)
	}
	return s
}

// term is a generated single term together with the structure the generator intended.
type term struct {
	isRef   bool
	doc     string // "" = none
	ref     string
	base    string // table spelling of the id
	suffix  string // "", "-only", "-or-later"
	plus    bool   // literal '+' appended
	exc     string // table spelling, "" = none
	text    string // what is put into the expression
	caseMod int    // -1 none
}

func (t *term) build() {
	if t.isRef {
		t.text = "LicenseRef-" + t.ref
		if t.doc != "" {
			t.text = "DocumentRef-" + t.doc + ":" + t.text
		}
		return
	}
	id := t.base
	if t.caseMod >= 0 {
		id = caseMut(id, t.caseMod)
	}
	id += t.suffix
	if t.plus {
		id += "+"
	}
	if t.exc != "" {
		e := t.exc
		if t.caseMod >= 0 {
			e = caseMut(e, t.caseMod)
		}
		id += " WITH " + e
	}
	t.text = id
}

var refNames = []string{"a", "b", "x-1.0", "MIT", "GPL-2.0-or-later", "A.b-c",
	// names that look like other lexemes: operator words, words embedded between dots, license spellings with suffixes
	"AND", "OR", "WITH", "and", "dual.or.commercial", "a.and.b", "x.with.y", "or", "MIT-or-later", "Apache-2.0-or-later", "Apache-2.0-only", "acme-eula", "ACME-EULA",
	"v1", "v01", "1", "01", "99999999999999999999", "99999999999999999998",
	"acme-EULA-only", "acme-EULA-ONLY", "eval-or-later", "eval-OR-LATER"}
var docNames = []string{"d", "e.1", "spdx-tool-1.2", "spdx-tool", "sbom-OR-LATER"}

func genBaseID() string {
	switch rng.Intn(5) {
	case 0:
		return pick(tblActive)
	case 1:
		return pick(tblDeprecated)
	case 2:
		return pick(specialIDs)
	default:
		return pick(famIDs)
	}
}

func genException() string {
	if len(specialExcs) > 0 && rng.Intn(3) == 0 {
		return pick(specialExcs)
	}
	return pick(tblExceptions)
}

func genTerm() *term {
	t := &term{caseMod: -1}
	switch rng.Intn(12) {
	case 0:
		t.isRef, t.ref = true, pick(refNames)
		t.build()
		return t
	case 1:
		t.isRef, t.doc, t.ref = true, pick(docNames), pick(refNames)
		t.build()
		return t
	}
	t.base = genBaseID()
	if strings.HasSuffix(t.base, "+") { // the six deprecated `X+` ids cannot be written as one word
		t.base = strings.TrimSuffix(t.base, "+")
		t.plus = true
	}
	if rng.Intn(3) == 0 {
		t.caseMod = rng.Intn(3)
	}
	switch rng.Intn(8) {
	case 0, 1:
		t.plus = true
	case 2:
		t.suffix = "-only"
	case 3:
		t.suffix = "-or-later"
	case 4:
		t.suffix, t.plus = "-or-later", true
	}
	if rng.Intn(6) == 0 {
		t.exc = genException()
	}
	t.build()
	return t
}

// genValidTerm draws terms until the implementation accepts one (validity is C05's business, not the caller's).
func genValidTerm() *term {
	for i := 0; i < 50; i++ {
		t := genTerm()
		if implValid(t.text) {
			return t
		}
	}
	t := &term{base: "MIT", caseMod: -1}
	t.build()
	return t
}

type tree struct {
	op   string // "AND", "OR", "" = leaf
	l, r *tree
	leaf int // index into the term list
}

func genTree(d int, nterms int) *tree {
	if d == 0 || rng.Intn(3) == 0 {
		return &tree{leaf: rng.Intn(nterms)}
	}
	op := "AND"
	if rng.Intn(2) == 0 {
		op = "OR"
	}
	return &tree{op: op, l: genTree(d-1, nterms), r: genTree(d-1, nterms)}
}

// expansion size of a tree: alternatives and term slots of its disjunctive form (what Satisfies / ExtractLicenses
// materialise — the cost recorded as the known finding of C14); generators keep below a bound so that one call stays cheap
func (t *tree) expansion() (alts, slots float64) {
	if t.isLeaf() {
		return 1, 1
	}
	la, ls := t.l.expansion()
	ra, rs := t.r.expansion()
	if t.op == "OR" {
		return la + ra, ls + rs
	}
	return la * ra, ls*ra + rs*la
}

func genTreeBounded(d int, nterms int, maxSlots float64) *tree {
	for {
		t := genTree(d, nterms)
		if _, s := t.expansion(); s <= maxSlots {
			return t
		}
		count("generator_tree_dropped_expansion_too_large")
	}
}

func leafT(i int) *tree        { return &tree{leaf: i} }
func andT(l, r *tree) *tree    { return &tree{op: "AND", l: l, r: r} }
func orT(l, r *tree) *tree     { return &tree{op: "OR", l: l, r: r} }
func (t *tree) isLeaf() bool   { return t.op == "" }
func (t *tree) clone() *tree {
	if t.isLeaf() {
		return leafT(t.leaf)
	}
	return &tree{op: t.op, l: t.l.clone(), r: t.r.clone()}
}
func (t *tree) size() int {
	if t.isLeaf() {
		return 1
	}
	return t.l.size() + t.r.size()
}
func (t *tree) depth() int {
	if t.isLeaf() {
		return 0
	}
	a, b := t.l.depth(), t.r.depth()
	if b > a {
		a = b
	}
	return a + 1
}
func (t *tree) leaves(acc []int) []int {
	if t.isLeaf() {
		return append(acc, t.leaf)
	}
	return t.r.leaves(t.l.leaves(acc))
}
func (t *tree) eval(val func(int) bool) bool {
	if t.isLeaf() {
		return val(t.leaf)
	}
	if t.op == "AND" {
		return t.l.eval(val) && t.r.eval(val)
	}
	return t.l.eval(val) || t.r.eval(val)
}

// prefix notation for the driver's T / X operations
func (t *tree) prefix() string {
	if t.isLeaf() {
		return itoa(t.leaf)
	}
	c := "&"
	if t.op == "OR" {
		c = "|"
	}
	return c + "," + t.l.prefix() + "," + t.r.prefix()
}

func (t *tree) shape() string {
	if t.isLeaf() {
		return "x"
	}
	c := "&"
	if t.op == "OR" {
		c = "|"
	}
	return c + "(" + t.l.shape() + t.r.shape() + ")"
}

// systematic shapes named by the property texts
func systematicTrees() []*tree {
	l := leafT
	return []*tree{
		l(0),
		orT(l(0), l(1)), andT(l(0), l(1)),
		orT(l(0), andT(l(1), l(2))), andT(l(0), orT(l(1), l(2))),
		orT(andT(l(0), l(1)), l(2)), andT(orT(l(0), l(1)), l(2)),
		andT(orT(l(0), l(1)), orT(l(2), l(3))),
		orT(andT(l(0), l(1)), andT(l(2), l(3))),
		orT(l(0), andT(l(1), orT(l(2), l(3)))),                         // OR under AND under OR
		andT(andT(andT(l(0), l(1)), l(2)), orT(l(3), l(4))),            // left-nested AND chain times an OR
		andT(l(0), andT(l(1), andT(l(2), orT(l(3), l(4))))),            // right-nested
		orT(orT(orT(l(0), l(1)), l(2)), l(3)), orT(l(0), orT(l(1), orT(l(2), l(3)))),
		andT(andT(l(0), l(1)), andT(l(2), l(3))),
		orT(andT(orT(l(0), l(1)), l(2)), l(3)),                         // (ref OR x) AND y OR z
		andT(orT(l(0), andT(l(1), l(2))), orT(l(3), l(4))),
		andT(orT(l(0), l(1)), andT(orT(l(2), l(3)), orT(l(4), l(5)))),
		orT(l(0), andT(l(1), orT(l(2), andT(l(3), orT(l(4), l(5)))))),  // alternating nest
		andT(l(0), l(0)), orT(l(0), l(0)), andT(l(0), orT(l(0), l(1))), // repetition
	}
}

// all binary tree shapes with n leaves (leaves numbered left to right), all AND/OR labellings
func allTrees(n int) []*tree {
	var build func(lo, hi int) []*tree
	build = func(lo, hi int) []*tree {
		if hi-lo == 1 {
			return []*tree{leafT(lo)}
		}
		var out []*tree
		for m := lo + 1; m < hi; m++ {
			for _, l := range build(lo, m) {
				for _, r := range build(m, hi) {
					out = append(out, andT(l, r), orT(l, r))
				}
			}
		}
		return out
	}
	return build(0, n)
}

func spaces() string { return strings.Repeat(" ", rng.Intn(3)) }

// renderMode: 0 minimal parentheses, 1 random redundant, 2 full
func (t *tree) render(terms []string, parentOp string, right bool, mode int, loose bool) string {
	sp := func() string {
		if loose {
			return spaces()
		}
		return ""
	}
	if t.isLeaf() {
		s := terms[t.leaf]
		if mode == 2 || mode == 1 && rng.Intn(8) == 0 {
			return "(" + sp() + s + sp() + ")"
		}
		return s
	}
	s := t.l.render(terms, t.op, false, mode, loose) + " " + sp() + t.op + " " + sp() + t.r.render(terms, t.op, true, mode, loose)
	need := mode == 2
	if parentOp == "AND" && t.op == "OR" {
		need = true
	}
	if parentOp == t.op && !right {
		need = true // a left-nested chain needs parentheses to keep its shape (the parser is right-recursive)
	}
	if mode == 1 && parentOp != "" && rng.Intn(3) == 0 {
		need = true
	}
	if parentOp == "" && mode == 1 && rng.Intn(6) == 0 {
		need = true
	}
	if need {
		return "(" + sp() + s + sp() + ")"
	}
	return s
}

// siblingTerm: a term that differs from `t` in ONE respect only (exception added / dropped / changed, '+' toggled,
// another version of the same family, -only / -or-later spelling; for refs: letter case of the name, DocumentRef
// added / dropped / changed).  Memoisation, de-duplication and sorting keyed too coarsely confuse such terms.
func siblingTerm(t *term) *term {
	n := &term{caseMod: -1}
	if t.isRef {
		n.isRef, n.doc, n.ref = true, t.doc, t.ref
		switch rng.Intn(6) {
		case 0:
			n.ref = strings.ToUpper(t.ref)
			if n.ref == t.ref {
				n.ref = strings.ToLower(t.ref)
			}
		case 1:
			if t.doc == "" {
				n.doc = pick(docNames)
			} else {
				n.doc = ""
			}
		case 2:
			n.doc = strings.ToUpper(pick(docNames))
		case 3:
			// the document id extended / cut so that one is a prefix of the other, continued by a byte on either side of ':'
			if t.doc == "" {
				n.doc = pick(docNames)
			} else if rng.Intn(2) == 0 {
				n.doc = t.doc + pick([]string{"-1.2", ".1", "1", "-", "x", "A"})
			} else if len(t.doc) > 1 {
				n.doc = t.doc[:len(t.doc)-1-rng.Intn(len(t.doc)-1)]
			}
		case 4:
			// the name with a suffix word of licence ids in another letter case
			stem := t.ref
			for _, sw := range []string{"-only", "-or-later"} {
				if len(stem) > len(sw) && strings.EqualFold(stem[len(stem)-len(sw):], sw) {
					stem = stem[:len(stem)-len(sw)]
				}
			}
			n.ref = stem + pick([]string{"-only", "-ONLY", "-Only", "-or-later", "-OR-LATER", "-or-Later"})
			if n.ref == t.ref {
				n.ref = stem + "-oNLY"
			}
		default:
			n.ref = t.ref + "-x"
			if rng.Intn(2) == 0 {
				// numeric twins: names equal "as numbers" but not as strings (natural-order comparators, Atoi)
				n.ref = pick([]string{"v1", "v01", "v001", "1", "01", "1.0", "1.00", "v10", "v9", "99999999999999999999", "99999999999999999998", "0x10", "16"})
			}
		}
		n.build()
		return n
	}
	n.base, n.suffix, n.plus, n.exc = t.base, t.suffix, t.plus, t.exc
	if t.exc != "" && rng.Intn(4) == 0 {
		// a reference whose TWO parts are this term's licence text and exception id (keys built from (first, second) pairs
		// without the kind of the node): X WITH E  vs  DocumentRef-X:LicenseRef-E
		r := &term{isRef: true, doc: t.base + t.suffix, ref: t.exc, caseMod: -1}
		r.build()
		return r
	}
	if rng.Intn(8) == 0 {
		// a reference whose NAME is this term's own license text (the text then occurs twice in the expression, once inside a
		// LicenseRef- / DocumentRef- id)
		r := &term{isRef: true, ref: t.base + t.suffix, caseMod: -1}
		if rng.Intn(3) == 0 {
			r.doc, r.ref = t.base+t.suffix, "notice"
		}
		r.build()
		return r
	}
	switch rng.Intn(6) {
	case 0, 1:
		if t.exc == "" {
			n.exc = pick(tblExceptions)
		} else if rng.Intn(2) == 0 {
			n.exc = ""
		} else {
			n.exc = pick(tblExceptions)
		}
	case 2:
		n.plus = !t.plus
		if n.plus {
			n.suffix = ""
		}
	case 3:
		n.base = pick(sameFamilyOrSelf(t.base))
	case 4:
		if t.suffix == "" {
			n.suffix = "-only"
		} else {
			n.suffix = ""
		}
		n.plus = false
	default:
		n.suffix, n.plus = "-or-later", false
	}
	n.build()
	return n
}

func sameFamilyOrSelf(id string) []string {
	for _, f := range tblRanges {
		for _, g := range f {
			for _, x := range g {
				if x == id {
					var out []string
					for _, g2 := range f {
						for _, y := range g2 {
							if !strings.HasSuffix(y, "+") {
								out = append(out, y)
							}
						}
					}
					return out
				}
			}
		}
	}
	return []string{id}
}

func distinctTerms(n int) []*term {
	seen := map[string]bool{}
	var out []*term
	for len(out) < n {
		t := genValidTerm()
		if len(out) > 0 && rng.Intn(3) == 0 {
			if s := siblingTerm(out[rng.Intn(len(out))]); implValid(s.text) {
				t = s
				count("sibling_terms")
			}
		}
		if len(out) >= 2 && rng.Intn(12) == 0 {
			// a reference whose text is the CONCATENATION of two other terms' texts (keys built by joining strings without a
			// separator, hashes fed piecewise): LicenseRef-a, MIT, LicenseRef-aMIT
			a, b := out[rng.Intn(len(out))], out[rng.Intn(len(out))]
			name := ""
			switch {
			case a.isRef && a.doc == "":
				name = a.ref + refSafe(b.text)
			case b.isRef && b.doc == "":
				name = refSafe(a.text) + b.ref
			default:
				name = refSafe(a.text) + refSafe(b.text)
			}
			c := mkRefTerm("", name)
			if a.isRef && a.doc == "" && implValid(c.text) {
				t = c
				count("concatenation_refs")
			} else if b.isRef && !a.isRef {
				// LicenseRef-x and a licence id: the id text followed by the reference text cannot be one term; use the other order
				c = mkRefTerm("", b.ref+refSafe(a.text))
				if implValid(c.text) {
					t = c
					count("concatenation_refs")
				}
			}
		}
		if seen[t.text] {
			continue
		}
		seen[t.text] = true
		out = append(out, t)
	}
	return out
}

// refSafe: the bytes of a term's text that may stand in a reference name (letters, digits, '-', '.')
func refSafe(s string) string {
	var b []byte
	for i := 0; i < len(s); i++ {
		c := s[i]
		if c >= 'a' && c <= 'z' || c >= 'A' && c <= 'Z' || c >= '0' && c <= '9' || c == '-' || c == '.' {
			b = append(b, c)
		}
	}
	return string(b)
}

func mkRefTerm(doc, ref string) *term {
	t := &term{isRef: true, doc: doc, ref: ref, caseMod: -1}
	t.build()
	return t
}

func texts(ts []*term) []string {
	o := make([]string, len(ts))
	for i, t := range ts {
		o[i] = t.text
	}
	return o
}

// relatedEntry: an allowed entry likely to match `t` without being identical
func relatedEntry(t *term) string {
	if t.isRef {
		return t.text
	}
	if rng.Intn(4) == 0 {
		if s := siblingTerm(t); implValid(s.text) {
			return s.text
		}
	}
	n := &term{base: t.base, exc: t.exc, caseMod: -1}
	switch rng.Intn(5) {
	case 0:
		n.plus = true
	case 1:
		n.suffix = "-only"
	case 2:
		n.suffix = "-or-later"
	case 3:
		n.caseMod = rng.Intn(3)
	case 4:
		// another id of the same family
		for _, f := range tblRanges {
			for _, g := range f {
				for _, id := range g {
					if id == t.base {
						g2 := f[rng.Intn(len(f))]
						n.base = g2[rng.Intn(len(g2))]
						n.plus = rng.Intn(2) == 0
					}
				}
			}
		}
	}
	n.build()
	if implValid(n.text) {
		return n.text
	}
	return t.text
}

func genAllowed(terms []*term) []string {
	var allowed []string
	for _, x := range terms {
		switch rng.Intn(4) {
		case 0, 1:
			allowed = append(allowed, x.text)
		case 2:
			allowed = append(allowed, relatedEntry(x))
		}
	}
	for k := rng.Intn(3); k > 0; k-- {
		allowed = append(allowed, genValidTerm().text)
	}
	if rng.Intn(5) == 0 && len(allowed) > 0 {
		allowed = append(allowed, allowed[rng.Intn(len(allowed))])
	}
	if rng.Intn(6) == 0 && len(allowed) > 0 {
		// the same entry again in another spelling (letter case, parentheses, spaces)
		x := allowed[rng.Intn(len(allowed))]
		switch rng.Intn(3) {
		case 0:
			if y := caseFoldKeepingKeywords(x, rng.Intn(2)); implValid(y) {
				x = y
			}
		case 1:
			x = "(" + x + ")"
		default:
			x = " " + x + "  "
		}
		allowed = append(allowed, x)
	}
	if len(allowed) == 0 {
		allowed = append(allowed, genValidTerm().text)
	}
	rng.Shuffle(len(allowed), func(a, b int) { allowed[a], allowed[b] = allowed[b], allowed[a] })
	return allowed
}

// ---- malformed stream

var insertAlphabet = []string{"AND", "OR", "WITH", "(", ")", "+", ":", "MIT", "FOO", "and", "or", "with", "DocumentRef-x", "LicenseRef-y", "DocumentRef-", "LicenseRef-",
	"Classpath-exception-2.0", " +", "\xc3\xa9", "\xff", "\t", "\n", "GPL-2.0-or-later", "Apache-2.0-or-later", "Apache-2.0-only", "GPL-2.0+", "-only", "-or-later", "\x00"}

// suffixes and near-suffixes appended to words: -only / -or-later handling must strip exactly the suffix
var suffixExperiments = []string{"-only", "-or-later", "-only-only", "-or-later-only", "-only-or-later", "-onl", "-nly", "-onlyy", "-lyno-only", "-nolo-only",
	"-or-late", "-or-laterr", "-or-later+", "-only+", "+-only", "-ONLY", "-Or-Later", "y", "-o", "-"}

// caseFoldKeepingKeywords lower-cases (mode 0) or upper-cases (mode 1) every word that is not an operator and keeps
// the LicenseRef- / DocumentRef- prefixes and the -only / -or-later suffixes: the re-spelling C09 calls harmless for listed ids
func caseFoldKeepingKeywords(s string, mode int) string {
	var b strings.Builder
	i := 0
	for i < len(s) {
		c := s[i]
		isID := func(c byte) bool {
			return c >= 'a' && c <= 'z' || c >= 'A' && c <= 'Z' || c >= '0' && c <= '9' || c == '-' || c == '.'
		}
		if !isID(c) {
			b.WriteByte(c)
			i++
			continue
		}
		j := i
		for j < len(s) && isID(s[j]) {
			j++
		}
		w := s[i:j]
		i = j
		if w == "AND" || w == "OR" || w == "WITH" || strings.HasPrefix(w, "LicenseRef-") || strings.HasPrefix(w, "DocumentRef-") {
			b.WriteString(w)
			continue
		}
		suf := ""
		for _, x := range []string{"-or-later", "-only"} {
			if strings.HasSuffix(w, x) {
				if _, listed := canonicalIn(tblActive, w); !listed {
					suf, w = x, strings.TrimSuffix(w, x)
				}
				break
			}
		}
		if mode == 0 {
			b.WriteString(strings.ToLower(w) + suf)
		} else {
			b.WriteString(strings.ToUpper(w) + suf)
		}
	}
	return b.String()
}

func tokenize(s string) []string {
	return strings.Fields(strings.NewReplacer("(", " ( ", ")", " ) ", ":", " : ").Replace(s))
}

// systematicMutants: every token prefix, byte prefix, single token deletion, single insertion from the alphabet
func systematicMutants(s string, full bool) []string {
	toks := tokenize(s)
	var out []string
	for i := 0; i <= len(toks); i++ {
		out = append(out, strings.Join(toks[:i], " "))
	}
	for i := 0; i <= len(s); i++ {
		out = append(out, s[:i])
	}
	for i := range toks {
		out = append(out, strings.Join(append(append([]string{}, toks[:i]...), toks[i+1:]...), " "))
	}
	out = append(out, strings.Join(toks, ""))
	// whole-text case folds: valid for plain ids, invalid as soon as an operator or a ref prefix is folded
	out = append(out, strings.ToLower(s), strings.ToUpper(s), caseFoldKeepingKeywords(s, 0), caseFoldKeepingKeywords(s, 1))
	for i := 0; i <= len(toks); i++ {
		if full {
			for _, ins := range insertAlphabet {
				out = append(out, strings.Join(append(append(append([]string{}, toks[:i]...), ins), toks[i:]...), " "))
			}
		} else {
			ins := pick(insertAlphabet)
			out = append(out, strings.Join(append(append(append([]string{}, toks[:i]...), ins), toks[i:]...), " "))
		}
	}
	return out
}

func mutate(s string) string {
	toks := tokenize(s)
	if len(toks) == 0 || len(s) == 0 {
		return s + pick(insertAlphabet)
	}
	switch rng.Intn(9) {
	case 7:
		if rng.Intn(2) == 0 {
			return strings.ToLower(s)
		}
		return strings.ToUpper(s)
	case 8:
		// a suffix experiment on one word
		i := rng.Intn(len(toks))
		t := append([]string{}, toks...)
		t[i] = t[i] + pick(suffixExperiments)
		return strings.Join(t, " ")
	case 0:
		return strings.Join(toks[:rng.Intn(len(toks)+1)], " ")
	case 1:
		i := rng.Intn(len(toks))
		return strings.Join(append(append([]string{}, toks[:i]...), toks[i+1:]...), " ")
	case 2:
		i := rng.Intn(len(toks) + 1)
		return strings.Join(append(append(append([]string{}, toks[:i]...), pick(insertAlphabet)), toks[i:]...), " ")
	case 3:
		return strings.Join(toks, "")
	case 4:
		return s[:rng.Intn(len(s)+1)]
	case 5:
		i := rng.Intn(len(toks))
		return strings.Join(append(append(append([]string{}, toks[:i+1]...), toks[i]), toks[i+1:]...), " ")
	default:
		b := []byte(s)
		b[rng.Intn(len(b))] = byte(rng.Intn(256))
		return string(b)
	}
}

func sortedCopy(xs []string) []string {
	o := append([]string{}, xs...)
	sort.Strings(o)
	return o
}

func uniqSorted(xs []string) []string {
	o := sortedCopy(xs)
	var u []string
	for i, s := range o {
		if i == 0 || s != o[i-1] {
			u = append(u, s)
		}
	}
	return u
}

func itoa(i int) string {
	if i == 0 {
		return "0"
	}
	neg := i < 0
	if neg {
		i = -i
	}
	var b []byte
	for i > 0 {
		b = append([]byte{byte('0' + i%10)}, b...)
		i /= 10
	}
	if neg {
		b = append([]byte{'-'}, b...)
	}
	return string(b)
}

// ---------------------------------------------------------------- non-ASCII, confusable and odd-whitespace texts

// oddRunes: code points that Unicode-aware library functions treat specially — the two non-ASCII runes that case-fold to
// ASCII letters (U+017F -> s, U+212A -> k), runes whose lower/upper-casing changes the byte length (U+023A, U+023E,
// U+0130, U+00DF), letters and digits outside ASCII, the white space that TrimSpace / Fields / \s accept but the scanner
// does not, and bytes that are not UTF-8 at all
var oddRunes = []string{"!", "_", "?", "/", "*", "~", "#", ",", ";", "=", "[", "\\", "\"", "'",
	"\u017f", "\u212a", "\u023a", "\u023e", "\u0130", "\u0131", "\u00df", "\u00e9", "\u041c", "\uff11", "\u0660",
	"\u00a0", "\u200b", "\u2028", "\ufeff", "\t", "\n", "\r", "\v", "\f", "\x00", "\x7f", "\xff", "\xc3", "\x85"}

// confusable: the word with its first / last s, S, k, K replaced by the non-ASCII rune that folds to it
func confusables(w string) []string {
	var out []string
	rep := map[byte]string{'s': "\u017f", 'S': "\u017f", 'k': "\u212a", 'K': "\u212a"}
	first, last := -1, -1
	for i := 0; i < len(w); i++ {
		if _, ok := rep[w[i]]; ok {
			if first < 0 {
				first = i
			}
			last = i
		}
	}
	for _, i := range []int{first, last} {
		if i >= 0 {
			out = append(out, w[:i]+rep[w[i]]+w[i+1:])
		}
	}
	if first >= 0 && first == last {
		out = out[:1]
	}
	return out
}

// unicodeStream: texts built from listed ids, exception ids and reference names with odd runes at the places a scanner
// distinguishes (start, inside, end of a word; before '+', before a suffix, after a prefix, after WITH)
func unicodeStream(nWords int) []string {
	words := append([]string{"MIT", "ISC", "GPL-2.0", "Apache-2.0", "BSD-3-Clause", "zlib-acknowledgement", "SISSL"}, specialIDs...)
	for len(words) < nWords {
		words = append(words, genBaseID())
	}
	words = words[:nWords]
	seen := map[string]bool{}
	var out []string
	add := func(x string) {
		if !seen[x] {
			seen[x] = true
			out = append(out, x)
		}
	}
	for wi, w := range words {
		w = strings.TrimSuffix(w, "+")
		for _, c := range confusables(w) {
			add(c)
			add(c + "+")
			add("MIT AND " + c)
			add("LicenseRef-" + c)
		}
		exc := tblExceptions[wi%len(tblExceptions)]
		for _, c := range confusables(exc) {
			add("MIT WITH " + c)
		}
		// a few odd runes per word, all of them over the whole stream
		for j := 0; j < 4; j++ {
			r := oddRunes[(wi*4+j)%len(oddRunes)]
			mid := len(w) / 2
			add(r + w)
			add(w + r)
			add(w[:mid] + r + w[mid:])
			add(w + r + "+")
			add(w + r + "-only")
			add(w + r + "-or-later")
			add(w + "-only" + r)
			add(w + "-or-later" + r)
			add(w + "-or-later" + r + " AND MIT")
			add("(" + w + "-or-later" + r + ")")
			add(w + "+" + r)
			add(w + " " + r + " AND MIT")
			add(w + r + "AND MIT")
			add("LicenseRef-" + r)
			add("LicenseRef-a" + r + "b")
			add("DocumentRef-" + r + ":LicenseRef-a")
			add(w + " WITH " + r + exc)
			add(w + " WITH " + exc + r)
			add("(" + r + w + ")")
		}
	}
	// length-changing runes in bulk in front of a suffix or '+'
	for _, r := range []string{"\u023a", "\u023e", "\u0130", "\u00df"} {
		for _, n := range []int{1, 2, 5, 6, 9, 10, 11, 40} {
			run := strings.Repeat(r, n)
			add(run + "+")
			add(run + "-only")
			add(run + "-or-later")
			add(run + "-or-later+")
			add("GPL-2.0" + run + "+")
			add("LicenseRef-" + run)
		}
	}
	return out
}

// whitespaceLists: lists that hold the same text clean and padded with white space the scanner does not accept
func whitespaceLists() [][]string {
	var out [][]string
	for _, x := range []string{"MIT", "Apache-2.0", "GPL-2.0-or-later WITH Classpath-exception-2.0", "LicenseRef-a"} {
		for _, ws := range []string{"\t", "\n", "\r\n", "\u00a0", "\v", "\f", "\u2028", "\u200b", "\x00"} {
			out = append(out,
				[]string{x, x + ws}, []string{x + ws, x}, []string{ws + x, " " + x + " "}, []string{" " + x + " ", ws + x},
				[]string{x, "ISC", x + ws, x}, []string{ws + x + ws, x, x + " "}, []string{x + " ", x + ws, x})
		}
	}
	return out
}

// specialWords: words with a meaning in SPDX documents, package metadata or programming that are no license ids
var specialWords = []string{"NONE", "NOASSERTION", "none", "noassertion", "NoAssertion", "UNLICENSED", "UNKNOWN", "unknown", "Proprietary",
	"Commercial", "Public-Domain", "PublicDomain", "SEE-LICENSE-IN-LICENSE", "null", "nil", "undefined", "true", "N-A", "TBD", "ANY", "ALL", "*",
	"LicenseRef", "DocumentRef", "licenseref-", "AdditionRef-x", "AdditionRef-MIT", "ExceptionRef-x", "LicenseRef-x-exception", "additionref-x", "WITH", "AND", "OR", "NOT", "and", "or", "with", "-", ".", "-only", "-or-later", "+"}

// wideAnd: `x AND (LicenseRef-wa0 OR … ) AND (LicenseRef-wb0 OR …)` — two OR groups of ⌈√n⌉ references each, so that the
// disjunctive form has at least n alternatives at a cost linear in n (one OR chain of n terms costs n² in this library) —
// and two allowed entries that satisfy the groups.  Code that takes another route "above N alternatives" (a limit, a tree
// walk instead of the expansion, a parallel scan) is reached only by such inputs.
func wideAnd(x string, n int) (string, []string) {
	k := 1
	for k*k < n {
		k++
	}
	var b strings.Builder
	b.WriteString(x)
	for _, g := range []string{"wa", "wb"} {
		b.WriteString(" AND (")
		for i := 0; i < k; i++ {
			if i > 0 {
				b.WriteString(" OR ")
			}
			b.WriteString("LicenseRef-" + g)
			b.WriteString(itoa(i))
		}
		b.WriteString(")")
	}
	return b.String(), []string{"LicenseRef-wa" + itoa(k/2), "LicenseRef-wb" + itoa(k-1)}
}

// wideSizes: numbers of alternatives just above the round limits such code picks
func wideSizes() []int {
	if thorough() {
		return []int{300, 1100, 4200, 66000, 101000}
	}
	return []int{300, 1100, 4200, 66000}
}
