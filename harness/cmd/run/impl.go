package main

// Wrappers that call the real library in-process, under recover.

import (
	"math/rand"
	"encoding/hex"
	"fmt"
	"strings"

	"github.com/github/go-spdx/v2/spdxexp"
)

type satRes struct {
	ok     bool
	err    error
	panicv interface{}
}

func implSat(e string, a []string) (r satRes) {
	defer func() {
		if p := recover(); p != nil {
			r = satRes{panicv: p}
		}
		echoRecord(0, e, a, r.String())
	}()
	ok, err := spdxexp.Satisfies(e, a)
	return satRes{ok: ok, err: err}
}

func (r satRes) String() string {
	switch {
	case r.panicv != nil:
		return "PANIC"
	case r.err != nil:
		return "err"
	default:
		return fmt.Sprint(r.ok)
	}
}

type extRes struct {
	list   []string
	err    error
	panicv interface{}
}

func implExt(e string) (r extRes) {
	defer func() {
		if p := recover(); p != nil {
			r = extRes{panicv: p}
		}
		echoRecord(1, e, nil, r.setString())
	}()
	l, err := spdxexp.ExtractLicenses(e)
	return extRes{list: l, err: err}
}

func (r extRes) String() string {
	switch {
	case r.panicv != nil:
		return "PANIC"
	case r.err != nil:
		return "err"
	default:
		return "ok " + hxl(r.list)
	}
}

// setString: the result with the order of the returned strings forgotten (the order is C13's business)
func (r extRes) setString() string {
	if r.panicv != nil || r.err != nil {
		return r.String()
	}
	return "ok " + hxl(uniqSorted(r.list))
}

// ---- fresh-process echo: a sample of the calls a property check makes is repeated, in reverse order, in a process that
// has done nothing else.  A function of its arguments gives the same answers there.
type echoCall struct {
	fn   int
	expr string
	list []string
	isNil bool
	proj string
}

var echoLog []echoCall
var echoSeen int
var echoOff = true // recording is switched on by main for the (single-threaded) property checks that use the echo

const echoCap = 700

func echoRecord(fn int, e string, l []string, proj string) {
	if echoOff || len(e) > 4000 || len(l) > 400 {
		return
	}
	echoSeen++
	c := echoCall{fn: fn, expr: e, list: append([]string(nil), l...), isNil: l == nil, proj: proj}
	if len(echoLog) < echoCap {
		echoLog = append(echoLog, c)
		return
	}
	// reservoir sampling keeps a uniform sample of everything the check did
	if j := echoRng.Intn(echoSeen); j < echoCap {
		echoLog[j] = c
	}
}

type valRes struct {
	ok      bool
	invalid []string
	panicv  interface{}
}

func implVal(l []string) (r valRes) {
	defer func() {
		if p := recover(); p != nil {
			r = valRes{panicv: p}
		}
		echoRecord(2, "", l, r.String())
	}()
	ok, inv := spdxexp.ValidateLicenses(l)
	return valRes{ok: ok, invalid: inv}
}

func (r valRes) String() string {
	if r.panicv != nil {
		return "PANIC"
	}
	return fmt.Sprintf("%v %s", r.ok, hxl(r.invalid))
}

var validCache = map[string]bool{}

// implValid: the implementation's own validity verdict (a panic counts as invalid here; panics are C03's)
func implValid(s string) bool {
	if v, ok := validCache[s]; ok {
		return v
	}
	r := implVal([]string{s})
	v := r.panicv == nil && r.ok
	if len(validCache) < 200000 {
		validCache[s] = v
	}
	return v
}

var matchCache = map[[2]string]int{}

// implMatch: Satisfies(a, [b]) for single terms: 1 true, 0 false, -1 error/panic
func implMatch(a, b string) int {
	k := [2]string{a, b}
	if v, ok := matchCache[k]; ok {
		return v
	}
	r := implSat(a, []string{b})
	v := 0
	switch {
	case r.panicv != nil || r.err != nil:
		v = -1
	case r.ok:
		v = 1
	}
	if len(matchCache) < 500000 {
		matchCache[k] = v
	}
	return v
}

func hx(s string) string {
	if s == "" {
		return "."
	}
	return hex.EncodeToString([]byte(s))
}

func hxl(l []string) string {
	if len(l) == 0 {
		return "-"
	}
	o := make([]string, len(l))
	for i, s := range l {
		o[i] = hx(s)
	}
	return strings.Join(o, ",")
}

func unhx(s string) string {
	if s == "." {
		return ""
	}
	b, _ := hex.DecodeString(s)
	return string(b)
}

func unhxl(s string) []string {
	if s == "-" {
		return nil
	}
	var o []string
	for _, p := range strings.Split(s, ",") {
		o = append(o, unhx(p))
	}
	return o
}

// printable form for evidence samples / replays
func show(s string) string {
	var b strings.Builder
	for i := 0; i < len(s); i++ {
		c := s[i]
		if c >= 32 && c < 127 && c != '\\' {
			b.WriteByte(c)
		} else {
			fmt.Fprintf(&b, "\\x%02x", c)
		}
	}
	return b.String()
}

var echoRng = rand.New(rand.NewSource(12345))
