#!/usr/bin/env python3
"""Formats the hand-written expectations of Props/Consts.lean (byte lists with the text as comment).
Run once by hand when the expectations are edited; the output is committed.  NOT run by the checks."""
def b(s): return "[" + ",".join(str(c) for c in s.encode()) + "]"
def bl(ss): return "[" + ", ".join(b(s) for s in ss) + "]"
EXPECT = [
 # (theorem name, function, expected non-message string literals in source order, comment)
 ("readOperator_literals", "expressionStream.readOperator", ["WITH","AND","OR","(",")",":","+","+"," "],
  "the operator list, in its order (first prefix match wins), then the `+` look-behind: operator `+`, preceded by a space"),
 ("readDocumentRef_literals", "expressionStream.readDocumentRef", ["DocumentRef-"], "the DocumentRef- prefix (case-sensitive)"),
 ("readLicenseRef_literals", "expressionStream.readLicenseRef", ["LicenseRef-"], "the LicenseRef- prefix (case-sensitive)"),
 ("readID_literals", "expressionStream.readID", ["[A-Za-z0-9-.]+", ""], "the id class: letters, digits, '-', '.'"),
 ("skipWhitespace_literals", "expressionStream.skipWhitespace", ["[ ]*"], "whitespace is the space character only"),
 ("normalizeLicense_literals", "expressionStream.normalizeLicense", ["-only","+","-or-later","-or-later","-or-later","+","+","-or-later"],
  "the suffix cascade: -only; '+' -> -or-later; -or-later -> '+' rewrite"),
 ("simplifyLicense_literals", "simplifyLicense", ["-or-later"], "the range lookup strips -or-later"),
 ("parseLicense_literals", "tokenStream.parseLicense", ["", "-or-later", "+"], "-or-later implies hasPlus; optional '+' operator"),
 ("parseWith_literals", "tokenStream.parseWith", ["WITH"], ""),
 ("parseLicenseRef_literals", "tokenStream.parseLicenseRef", ["", "", ":"], ""),
 ("parseParen_literals", "tokenStream.parseParenthesizedExpression", ["(", ")"], ""),
 ("parseAnd_literals", "tokenStream.parseAnd", ["AND", "and"], ""),
 ("parseExpression_literals", "tokenStream.parseExpression", ["OR"], ""),
 ("parseAtom_literals", "tokenStream.parseAtom", [")", "OR", "AND", "syntax error"], "the three tokens that may not start an atom"),
 ("reconstructed_literals", "node.reconstructedLicenseString", ["+", " WITH ", "LicenseRef-", "DocumentRef-", ":"], "canonical term text"),
 ("isAnd_literals", "node.isAndExpression", ["and"], ""),
 ("isOr_literals", "node.isOrExpression", ["or"], ""),
]
INTS = [
 ("normalizeLicense_ints", "expressionStream.normalizeLicense", [0,5,1,0,0,9,0], "len(\"-only\") = 5, len(\"-or-later\") = 9, one byte for '+'"),
 ("readOperator_ints", "expressionStream.readOperator", [0,0,1,2,1], "the look-behind reads expression[index-2:index-1] after index > 1"),
 ("expandAnd_ints", "node.expandAnd", [1,1], "appendTerms iff len(left) > 1 || len(right) > 1"),
 ("deepSort_ints", "deepSort", [0,1,0,1,1], ""),
 ("sortAndDedup_ints", "sortAndDedup", None, ""),
]
out = []
for name, fn, lits, cmt in EXPECT:
    if cmt: out.append("/-- %s: %s -/" % (fn, cmt))
    out.append("theorem %s : beqList (litsOf %s) %s = true := by decide +kernel   -- %s: %s" % (name, b(fn), bl(lits), fn, " ".join(repr(x) for x in lits)))
for name, fn, ints, cmt in INTS:
    if ints is None: continue
    if cmt: out.append("/-- %s: %s -/" % (fn, cmt))
    out.append("theorem %s : beqNats (intsOf %s) %s = true := by decide +kernel   -- %s" % (name, b(fn), str(ints).replace(' ',''), fn))
print("\n".join(out))
