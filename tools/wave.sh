#!/bin/sh
# wave.sh <outdir-name> <tag> : verify + evaluate every candidate under /tmp/wt/Cxx/<outdir-name> not yet stored (development aid)
cd /verif
for p in C01 C02 C03 C04 C05 C06 C07 C08 C09 C10 C11 C12 C13 C14 C15; do
  d=/tmp/wt/$p/$1
  [ -d "$d" ] || continue
  for m in m1 m2; do
    id=$p-$2$m
    [ -f "$d/$m.diff" ] || continue
    [ -d seeded/$id ] && continue
    python3 tools/seed.py verify $d $m $p $id 2>&1 | grep -v conda | tail -2
    [ -d seeded/$id ] && { echo "== $id"; python3 tools/seed.py eval $id 2>&1 | grep -v conda | cut -c1-200; }
  done
done
