#!/bin/sh
# pwave.sh <outdir-name> <tag> [jobs] : like wave.sh, but one property per job, several jobs at a time (development aid)
cd /verif
J=${3:-4}
for p in C01 C02 C03 C04 C05 C06 C07 C08 C09 C10 C11 C12 C13 C14 C15; do echo $p; done | xargs -P $J -I{} sh -c '
  p={}; d=/tmp/wt/$p/'"$1"'
  [ -d "$d" ] || exit 0
  for m in m1 m2; do
    id=$p-'"$2"'$m
    [ -f "$d/$m.diff" ] || continue
    [ -d seeded/$id ] && continue
    python3 tools/seed.py verify $d $m $p $id 2>&1 | grep -v conda | tail -2 | sed "s/^/[$id] /"
    [ -d seeded/$id ] && { python3 tools/seed.py eval $id 2>&1 | grep -v conda | cut -c1-240 | sed "s/^/[$id] /"; }
  done'
