#!/usr/bin/env python3
"""Fills summary / needs_to_manifest of seeded/<id>/meta.json (texts written from the authors' notes) and regenerates
seeded/MATRIX.md from the eval.json / result.json files."""
import json, os, sys
ROOT = os.path.dirname(os.path.dirname(os.path.abspath(__file__)))
S = os.path.join(ROOT, "seeded")
M = {
 "C01-m1": ("per-call memo of single-term results in isCompatible keyed by (id, hasPlus), ignoring the WITH exception", "one expression holding the same id both bare and WITH an exception, the allowed list covering exactly one of them"),
 "C01-m2": ("appendTerms cuts all alternatives out of one shared backing array + expandAnd uses mergeTerms when only the right side has one alternative (each edit harmless alone)", "tree shape (A AND (B OR C)) AND D: the in-place append overwrites the start of the next alternative"),
 "C01-w2m1": ("deepSort compacts 'repeated' alternatives with a comparison that only checks a prefix, keeping the longer alternative", "absorption shape whose shorter alternative is a sorted prefix of the longer one, the extra term not allowed"),
 "C01-w2m2": ("Satisfies checks >= 16 alternatives in goroutines that capture the loop variable (go 1.21 semantics)", ">= 16 expanded alternatives, the covered one not last, late goroutine start"),
 "C02-m1": ("identifierInRange rewritten over group indices, losing compareEQ's same-id shortcut", "an id outside the range table, identical on both sides, '+' on exactly one side"),
 "C02-w2m1": ("licenseRefsAreCompatible replaced by the EqualFold-based licensesExactlyEqual helper", "two LicenseRef / DocumentRef terms that differ only in letter case"),
 "C02-w2m2": ("getLicenseRange reads a lazily built map that is published before it is filled", "the first range lookups of a process made by >= 2 goroutines at once (wrong answers or 'concurrent map' abort)"),
 "C03-m1": ("sortAndDedup sets the dropped tail of the slice to nil; Satisfies keeps iterating the full slice", "allowed list with two equal entries and an expression term that is not matched before the tail"),
 "C03-m2": ("readID uses a 128-entry lookup table indexed by the raw byte", "any byte >= 0x80 where an id may start or end"),
 "C03-w2m1": ("id lookups use sort.SearchStrings and read keys[i] without checking i < len", "an id that sorts after the last entry of a list (ZPL-2.1-only, Zope, yacc ...)"),
 "C03-w2m2": ("stringsToNodes caches parsed allowed entries in an unsynchronised package-level map", ">= 2 goroutines in Satisfies with a not yet cached entry: fatal error concurrent map read and map write"),
 "C04-m1": ("package-level cache of parsed allowed entries keyed by the lower-cased text", "call sequence: a valid entry with case-sensitive parts (LicenseRef-, WITH) first, then its invalid case-fold as an allowed entry"),
 "C04-m2": ("ExtractLicenses fast path for bare ids via licenseLookup, which also finds exception ids", "the argument is exactly one exception id"),
 "C04-w2m1": ("the parser collapses 'X AND X' / 'X OR X' to X", "a compound allowed entry whose two operands normalise to the same term is no longer rejected"),
 "C04-w2m2": ("ValidateLicenses validates lists of >= 64 entries in 8 goroutine chunks and drops the last len%8 entries", "list length >= 64 and not a multiple of 8, an invalid entry in the tail"),
 "C05-m1": ("strings.TrimRight(license, \"-only\") instead of cutting the 5-byte suffix", "ids whose base ends in o/n/l/y (curl-only rejected) or carries more suffix-like letters (MIT-only-only accepted)"),
 "C05-m2": ("scan-result cache keyed by the lower-cased expression", "call sequence: a valid text first, then the same text with operators / ref prefixes in another letter case is accepted"),
 "C05-w2m1": ("parse() fast path for a bare id via licenseLookup ignores the token role", "the whole text is one exception id"),
 "C05-w2m2": ("parseLicense's '+' and WITH handling rewritten as a switch: after '+' the WITH is no longer consumed", "'+' token and WITH on one license whose -or-later form is not listed (Apache-2.0+ WITH e)"),
 "C06-m1": ("removeDuplicateStrings keyed by the lower-cased string", "two LicenseRef / DocumentRef terms in one expression differing only in letter case"),
 "C06-m2": ("deepSort drops alternatives that start with the previously kept alternative", "absorption shape whose extra term occurs nowhere else (ExtractLicenses loses it)"),
 "C06-w2m1": ("expandAnd merges in place when the right side has one alternative + appendTerms shares one backing array", "((A OR B) AND (C OR D)) AND E: a term disappears from ExtractLicenses"),
 "C06-w2m2": ("one memo cache shared by licenseLookup and deprecatedLicenseLookup", "call sequence: a bare deprecated id with an -or-later sibling first, then the same id with '+'"),
 "C07-m1": ("Satisfies starts using sortAndDedup's result and dedups by compareEQ (ignores '+' and exception)", "a list holding X and X+ (or X WITH e) of the same version: the permissive entry is dropped"),
 "C07-m2": ("allowed-list fast path for plain active ids forgets hasPlus of -or-later ids", "an allowed entry that is exactly an active -or-later id, expression naming a strictly later version"),
 "C07-w2m1": ("cache of the last allowed list stores the caller's slice itself as key", "call with slice S, in-place edit of S, call with S again: stale nodes"),
 "C07-w2m2": ("isCompatible breaks out of the sorted allowed list using a case-insensitive comparison while the list is sorted byte-wise", "an unranged id with a lower-case letter next to an id that sorts later only case-insensitively (curl vs MIT)"),
 "C08-m1": ("-or-later rewrite done with strings.Replace on the scanned prefix (first occurrence)", "an earlier listed GNU -or-later id followed by a non-GNU X-or-later in the same expression"),
 "C08-m2": ("allowed-list dedup compares license and hasPlus but not the exception", "list [X-only, X-only WITH e, later entry]: the WITH entry is overwritten; spelling X instead of X-only avoids it"),
 "C08-w2m1": ("newLicenseNode constructor + allowed-list fast path: bare listed -or-later entries get hasPlus=false", "GPL-2.0-or-later (not GPL-2.0+) in the allowed list against a strictly later version"),
 "C08-w2m2": ("scanner caches ids that normalizeLicense rejected, although rejection depends on the next byte", "call sequence: bare GFDL-1.x-(no-)invariants (invalid) first, then the same id with '+' is rejected"),
 "C09-m1": ("indexed id lookup that never finds ids which are all lower-case on the list when typed with a capital", "one of the 57 all-lower-case listed ids typed with a capital letter"),
 "C09-m2": ("licenseLookup refactor returns the typed spelling for exceptions", "WITH <exception> typed in another letter case"),
 "C09-w2m1": ("allowed-list fast path computes the or-later flag from the typed string", "an upper-case -OR-LATER spelling of a listed GNU id in the allowed list against a later version"),
 "C09-w2m2": ("hand-written id alphabet without lower-case q replaces the regexp", "ids containing q typed in lower case (qpl-1.0, Dotseqn)"),
 "C10-m1": ("appendTerms simplified to append(l, r...)", "left AND group with spare capacity next to an OR: ((A AND B) AND C) AND (X OR Y)"),
 "C10-m2": ("isCompatible skips a license that compareEQ says equals the previous one (ignores WITH)", "X and X WITH e in one AND group"),
 "C10-w2m1": ("parenthesis depth guard whose counter is never decremented", ">= 17 '(' in one expression, however shallow"),
 "C10-w2m2": ("deepSort drops absorbed rows (sound for Satisfies, not for ExtractLicenses)", "an alternative that is a sorted prefix of another whose extra term occurs nowhere else"),
 "C11-m1": ("early break in getLicenseRange assuming byte-wise alphabetical families", "families APSL and ASWF-Digital-Assets (sort differently case-insensitively)"),
 "C11-m2": ("precomputed slots group*10+version", "OLDAP (16 versions) collides with OSL"),
 "C11-w2m1": ("nodePair reused across the allowed list + in-place swap of its nodes (each edit harmless alone)", "'+' expression and an allowed list of >= 2 ids whose first sorted entry is a plain non-matching id"),
 "C11-w2m2": ("unsynchronised 'last lookup' memo in compare.go", ">= 2 goroutines comparing different ids at the same time"),
 "C12-m1": ("wrong JSON tag for deprecated exceptions in the generator (table regenerated)", "the one deprecated exception id Nokia-Qt-exception-1.1 becomes valid after WITH"),
 "C12-m2": ("lookup folds ids into a 32-byte buffer and rejects longer ids", "the six listed ids of >= 33 bytes"),
 "C12-w2m1": ("generator skips ids not matching ^[A-Za-z0-9.-]+$ (tables regenerated)", "the six deprecated X+ ids vanish from GetDeprecated(); no parse result changes"),
 "C12-w2m2": ("lazily built id index visible before it is filled", "first use of the library from several goroutines at once"),
 "C13-m1": ("in-place uniqueStrings on the caller's allowed list", "an allowed list with an exact repeat followed by a different entry"),
 "C13-m2": ("one mutex-protected cache shared by licenseLookup and deprecatedLicenseLookup", "call sequence: bare deprecated-only id, then the id with + / -only / -or-later"),
 "C13-w2m1": ("scanner state pooled with sync.Pool while the returned tokens alias pooled storage", "two goroutines in parse at the same time"),
 "C13-w2m2": ("getLicenseRange memoised, written under a read lock", ">= 2 goroutines comparing ids not seen before"),
 "C14-m1": ("parseExpression tries parseOr, rewinds, parses again", "redundant nesting ((((MIT)))): 2^depth"),
 "C14-m2": ("mergeTerms copies into capacity derived from the previous capacity", "OR-free AND chain of >= 18 terms: memory doubles per term"),
 "C14-w2m1": ("collapseEquivalent fixpoint over the allowed nodes restarting after every removal", "long allowed list with many redundant entries sorting after many distinct ones: cubic"),
 "C14-w2m2": ("ExtractLicenses dedups at every tree level + removeDuplicateStrings uses slices.Contains", "long OR chain of distinct LicenseRef terms: cubic time"),
 "C15-m1": ("constant 8 instead of the measured number of bytes removed by the -or-later rewrite", "X-or-later+ (9 bytes removed) before the offending id"),
 "C15-m2": ("parse() trims whitespace before scanning", "leading spaces before an unknown id"),
 "C15-w2m1": ("cached 'unknown license' error keeps the offset of the first sighting", "the same unknown id reported twice at different offsets"),
 "C15-w2m2": ("unknown ids longer than 64 bytes are abbreviated with '...' in the message", "an unknown id of >= 65 bytes"),
 "C01-w3m1": ("isCompatible resumes the allowed-list scan at the entry that matched the previous term (merge-join 'optimisation')", "a term matched through the range table by an entry sorting before the entry that matched the preceding term"),
 "C01-w3m2": ("the -or-later rewrite locates the id with strings.Cut (first occurrence of the text) instead of by offset", "the text X-or-later occurring earlier in the expression inside a LicenseRef / DocumentRef name"),
 "C02-w3m1": ("getLicenseRange skips groups whose first id does not share the looked-up id's prefix before the last '-'", "a family whose members do not share that prefix (one of the 40 families)"),
 "C02-w3m2": ("parseLicense ignores an explicit '+' after an id ending in -only", "X-only+ against a later version of X"),
 "C03-w3m1": ("inLicenseList compares the folded first byte before EqualFold and indexes id[0]", "an id token '-only' / '-or-later' whose remainder after stripping the suffix is empty"),
 "C03-w3m2": ("fallback version ordering for families outside the table indexes the second id's version parts by the first's length", "two unlisted-family ids sharing a stem with dotted versions of different length, '+' on one"),
 "C04-w3m1": ("the -or-later rewrite replaces the first occurrence of the id text in the scanned prefix", "the same X-or-later text earlier in the expression inside a reference name"),
 "C04-w3m2": ("parser tracks open parentheses in a uint8 and diagnoses trailing tokens at depth 0", "256 (mod 256) open parentheses around a surplus token"),
 "C05-w3m1": ("the -or-later rewrite splices by strings.Replace instead of by position", "a reference name repeating the later id's text"),
 "C05-w3m2": ("parseOperator compares the token value in place and drops the role test", "a LicenseRef / DocumentRef whose free-form name is AND, OR or WITH"),
 "C06-w3m1": ("lower-case operators upper-cased up front by a regexp whose id-character class forgot '.'", "a reference name with '.or.' / '.and.' / '.with.' inside"),
 "C06-w3m2": ("nesting-depth guard placed on parseExpression, which also recurses once per OR operand", "a flat OR chain of more than 10000 operands"),
 "C07-w3m1": ("per-call memo 'is this license covered' keyed by the bare id without '+' and without WITH", "the same id twice in one expression with different decoration and different outcomes"),
 "C07-w3m2": ("allowed entries de-duplicated before parsing on the lower-cased trimmed raw string", "two LicenseRef entries differing only in letter case"),
 "C08-w3m1": ("the X+ branch of the scanner builds the token from the typed spelling, not the listed one", "a GNU id typed in another letter case followed by '+'"),
 "C08-w3m2": ("isCompatible resumes the allowed-list scan where the previous license matched", "X and X-only both in one AND group, one WITH an exception, the list covering them by two entries in the other spelling"),
 "C09-w3m1": ("a '+' directly after an id typed with the suffix -only (exact case) is swallowed by the scanner", "X-only+ vs x-ONLY+ against a later version"),
 "C09-w3m2": ("per-expression memo of resolved spellings in the scanner skips the side effects of normalizeLicense for repeats", "the same X-or-later spelling twice in one expression (byte-identical) vs once re-cased"),
 "C10-w3m1": ("isCompatible resumes the allowed-list scan where the previous license matched", "grouping / spelling that changes the sort order of an AND group relative to the list"),
 "C10-w3m2": ("the -or-later rewrite uses strings.Replace on the scanned prefix", "the id text earlier in the prefix, e.g. in parentheses or a reference"),
 "C11-w3m1": ("parseLicense drops an explicit '+' when a WITH exception follows", "non-GNU X+ WITH e against a later version WITH e"),
 "C11-w3m2": ("sortAndDedup compares neighbours field-wise without hasPlus; in-place compaction loses the X+ entry", "allowed list holding both X and X+ (non-GNU), expression needing the '+' entry"),
 "C15-w3m1": ("exception tokens accepted only when the lexeme equals the exception id; fall-through reports with a stale offset", "an exception id carrying -only / -or-later after WITH behind an earlier rewrite"),
 "C15-w3m2": ("-or-later rewrite applied with ReplaceAll to the text still ahead, offset bookkeeping unchanged", "the same non-listed X-or-later twice before an unknown id"),
 "C12-w3m1": ("parseLicense folds 'ends in -or-later' and 'a + follows' into if / else-if: a '+' behind a token ending in -or-later is no longer consumed", "a GNU-family id whose -or-later form is listed, written with an explicit '+', e.g. GPL-2.0-or-later+ WITH <exception>"),
 "C12-w3m2": ("stringsToNodes fast path for bare known ids uses licenseLookup, which also answers for the exception list", "a bare exception id as an entry of the allowed list"),
 "C13-w3m1": ("scan-error offsets go through a helper that also log.Printf's when more than 9 bytes were removed by rewrites", ">= 2 rewritten -or-later ids followed by a scanner error: output on stderr"),
 "C13-w3m2": ("stringsToNodes parses lists of >= 256 entries in goroutine batches and returns the first error received", ">= 256 entries with two different bad entries in different batches: which error comes back depends on timing"),
 "C14-w3m1": ("expandAnd fast path for plain AND chains calls left().andTerms() twice", "a conjunction parenthesised to the left at every level: work doubles per level"),
 "C14-w3m2": ("the -or-later rewrite appends the rest twice when a literal '+' follows", "two non-GNU X-or-later+ spellings in one expression: scanning never terminates"),
 "C01-w4m1": ("sortAndDedup decides 'duplicate' with EqualFold; the in-place compaction overwrites a case-variant reference", "two LicenseRefs differing only in case in the list, a distinct entry sorting after them, the expression needing the second"),
 "C01-w4m2": ("isCompatible walks the list once and keeps coverage in a uint64 bit set (goal 1<<len - 1)", "an alternative of >= 65 ANDed terms whose uncovered term sorts at position >= 64"),
 "C02-w4m1": ("compareEQ's same-id shortcut compares ids with a trailing -only / -or-later stripped", "the six GFDL-1.x-(no-)invariants ids, which have -only and -or-later forms but are in no family"),
 "C02-w4m2": ("getLicenseRange stops early when the group's first id is byte-wise greater than the id (table assumed sorted)", "families APSL and ASWF, which follow 'Apache' in case-insensitive but not in byte order"),
 "C03-w4m1": ("readID reads Unicode letters; suffix tests on strings.ToLower(license) and lenLicense := len(lower) used to slice the typed id", "an id containing U+023A / U+023E (lower-casing grows by a byte) directly before '+', or 6 / 10 of them before a suffix"),
 "C03-w4m2": ("allowed entries NONE / NOASSERTION are skipped with continue, leaving a nil node in the pre-sized slice", "an allowed list containing exactly NONE or NOASSERTION"),
 "C04-w4m1": ("ValidateLicenses memoises verdicts per call under strings.TrimSpace(entry)", "one list holding the same text clean and padded with tab / newline / NBSP"),
 "C04-w4m2": ("Satisfies refuses expressions whose expansion would exceed 1<<16 alternatives", "an AND of OR groups whose widths multiply to more than 65536"),
 "C05-w4m1": ("WITH moved to its own precedence level, attached to whatever atom came back (incl. the inner node of a group)", "( L ) WITH e — a parenthesised single licence followed by WITH"),
 "C05-w4m2": ("patterns precompiled; the id class became (?i)^[a-z0-9.-]+ (Unicode simple folding)", "U+017F or U+212A where a listed id has s / k, or anywhere in a reference name"),
 "C06-w4m1": ("the -or-later rewrite replaces the first '-or-later' of the scanned prefix", "a listed GNU X-or-later (not rewritten) earlier than a rewritten non-GNU Y-or-later"),
 "C06-w4m2": ("X followed by '+' becomes X-or-later only if X is on the deprecated list", "the six GFDL-1.x-(no-)invariants bases, which are not ids themselves, written with '+'"),
 "C07-w4m1": ("isCompatible breaks out of the sorted list once it has 'left the licence group'", "a list holding a non-covering member, an id that sorts between the members without being one (CC-BY-3.0-IGO), and the covering member"),
 "C07-w4m2": ("sortAndDedup decides 'duplicate' with licensesExactlyEqual (EqualFold)", "two references differing only in case plus an entry sorting after them"),
 "C08-w4m1": ("the range lookup for both-sides-plus no longer strips -or-later", "AGPL (no -or-later rows in the table) on both sides, one side spelled '+' / -or-later, different versions"),
 "C08-w4m2": ("the X+ -> X-or-later lookup is gated by a case-sensitive 'GPL' / 'GFDL' test", "gfdl-1.1-invariants+ (lower case; the base is no id, so there is no fallback)"),
 "C09-w4m1": ("a lazily made lower-case copy of the expression is not rebuilt after an -or-later rewrite", "a mixed-case id before a rewritten term and a later mixed-case id as long as the id 8 / 9 bytes before it"),
 "C09-w4m2": ("-or-later accepted for versioned deprecated ids, range table consulted with the typed spelling (==)", "bzip2-1.0.5-or-later in another letter case"),
 "C10-w4m1": ("Satisfies skips rows whose FNV hash (terms fed without separator) was already seen", "terms whose texts concatenate to another term's text: LicenseRef-a, MIT, LicenseRef-aMIT"),
 "C10-w4m2": ("appendTerms drops a right-hand term the left alternative 'already requires' (EqualFold)", "two references differing only in case on opposite sides of an AND over an OR"),
 "C11-w4m1": ("the -or-later rewrite replaces the first '-or-later' in the scanned prefix", "GPL-2.0-or-later OR Apache-1.0-or-later: parse error instead of the '+' reach"),
 "C11-w4m2": ("simplifyLicense folded into the table walk with HasSuffix on the remainder", "GFDL-1.x-(no-)invariants-or-later filed under GFDL-1.x: '+' reaches ids outside the family"),
 "C12-w4m1": ("id pattern precompiled with (?i): U+017F / U+212A accepted and folded by EqualFold", "a Unicode look-alike of a listed id"),
 "C12-w4m2": ("generated tables built once; the getters return the shared slice", "a caller writes into the slice a getter returned, then calls the library"),
 "C13-w4m1": ("parsed allowed lists cached under strings.Join(list, \",\")", "an (invalid) entry containing commas whose pieces are a valid list used earlier in the process"),
 "C13-w4m2": ("ExtractLicenses fast path returns the stored one-element slice for a bare official id", "a caller overwrites an element of the returned slice, then extracts the same id again"),
 "C14-w4m1": ("leaves that are one of 7 licence/exception pairs are rewritten to (leaf OR deprecated combined id) before expansion", "an AND chain of >= 14 such pairs: 2^k alternatives"),
 "C14-w4m2": ("allowed entries that are a top-level OR are expanded before being refused", "an entry 'Zed OR (AND of k OR groups)': 2^k work in the allowed-list argument"),
 "C15-w4m1": ("removed bytes counted as 9 although only 8 leave the buffer when '+' follows a rewritten EXCEPTION id", "an exception with -or-later+ and a later unknown id"),
 "C15-w4m2": ("offsets derived from uint8 counters of rewrites / folds", ">= 256 rewritten X-or-later ids before an unknown id"),
 "C01-w5m1": ("normalizeLicense's '+' look-ahead replaced by exp.read(\"+\"), which consumes the '+' even when the deprecated-id fallback is taken", "bzip2-1.0.5+ (the only deprecated-only id inside a version family) against bzip2-1.0.6"),
 "C01-w5m2": ("rangesAreCompatible looks up only the first id's range and searches that family for the second id unsimplified", "AGPL on both sides, both with '+', the allowed entry spelled -or-later (a single-term rule: C02's subject)"),
 "C02-w5m1": ("the '+' after a deprecated id without an -or-later twin is swallowed by the scanner", "bzip2-1.0.5+ vs bzip2-1.0.6"),
 "C02-w5m2": ("both-'+' comparison asks a group lookup that skips simplifyLicense", "AGPL-x+ / AGPL-x-or-later on both sides"),
 "C03-w5m1": ("generic syntax errors report an offset computed from token lengths; an X+ of a GNU family is one token 8 bytes longer than typed", "GPL-2.0+ (MIT), LGPL-2.1+ : — fewer than 8 bytes behind the offending token: index out of range"),
 "C03-w5m2": ("ExtractLicenses drops deprecated spellings whose replacement was extracted, taken as licenses[index+1] of the version group", "bzip2-1.0.5 (one-element group) beside any plain -only id"),
 "C04-w5m1": ("id lists replaced by a map keyed by a case-folding FNV-1a/32 hash; the stored id is never compared with the query", "a word that collides with a listed id (jicefox = MIT): probability 1.7e-7 per random word"),
 "C04-w5m2": ("the generated tables are built once and the getters return the shared slice", "a caller writes into a getter's result; afterwards valid ids are invalid for every entry point"),
 "C05-w5m1": ("parseLicenseRef calls itself after DocumentRef-x ':'", "DocumentRef-a:DocumentRef-b:LicenseRef-c"),
 "C05-w5m2": ("the -or-later rewrite drops the byte after the suffix unless it is ')'", "a stray byte (tab, '!', ':', '(' …) glued to a rewritten X-or-later"),
 "C06-w5m1": ("ExtractLicenses de-duplicates nodes by (first, hasPlus, second) without the node kind", "X WITH E beside DocumentRef-X:LicenseRef-E"),
 "C06-w5m2": ("natural-order comparator (digit runs by value) + neighbour-only dedup", "LicenseRef-v1 AND LicenseRef-v01 AND LicenseRef-v1"),
 "C07-w5m1": ("a nodes[:0] filter in isCompatible compacts the shared allowed array", "a matched WITH licence, then a licence whose only entry sat in the first k sorted slots"),
 "C07-w5m2": ("lists of >= 16 entries take an indexed path that skips alternatives whose licence is not literally in the set", "MIT+ against MIT (same id, other '+' state) in a list of >= 16 entries"),
 "C08-w5m1": ("for X WITH a, X WITH b adjacent in the sorted list, the range check is assumed done for the previous entry", "the same id with two exceptions in the list, the expression in the other spelling with the later exception"),
 "C08-w5m2": ("a single-licence expression byte-identical to an allowed entry returns true before the list is validated", "the literal spelling in a list that also holds an invalid entry"),
 "C09-w5m1": ("the -or-later rewrite replaces the first '-or-later' of the scanned prefix", "a listed GNU X-or-later typed in exact lower case before a rewritten id; re-casing it flips validity"),
 "C09-w5m2": ("literal fast path in Satisfies skips validation of the other entries", "an expression typed exactly like an entry, beside an invalid entry; another letter case gets the error"),
 "C10-w5m1": ("appendTerms carves rows of >= 64-row products out of one array; flatten reuses the first row's storage", "a product of wide ORs whose operands are written in a particular unsorted order: ExtractLicenses loses an id"),
 "C10-w5m2": ("rows needing more 'distinct licences' than the list has entries are skipped; X WITH e sorts between X and X-only", "X, X WITH e and X-only in one AND row against a list of exactly the needed size"),
 "C11-w5m1": ("isCompatible resumes its scan of the sorted list at the last literal hit", "a look-alike id (CC-BY-3.0-AT) literally allowed, beside a member reached only by an earlier X-v1+ entry"),
 "C11-w5m2": ("alternatives that 'extend' a kept one are dropped, judged by a string prefix without separator", "X-v1 OR (X-v1+ AND Y) against [X-v2, Y]"),
 "C12-w5m1": ("allowed lists of > 16 entries lose case-insensitive duplicates before parsing", "a valid 'X WITH e' and later the same text in lower case (invalid: 'with' is no operator)"),
 "C12-w5m2": ("the scanner accepts AdditionRef-<word> as an exception token", "MIT WITH AdditionRef-foo"),
 "C13-w5m1": ("getLicenseRange keeps an atomic 'group of the previous hit' and loads it twice", "two goroutines comparing ids of one family at the same moment"),
 "C13-w5m2": ("activeLicense searches round the list from the previous hit, -1 before the first", "the last table entry as the very first id a fresh process looks up"),
 "C14-w5m1": ("absorption pruning with a backtracking subsequence test", "two alternatives repeating one id 13 / 26 times, the shorter with one extra id sorting last"),
 "C14-w5m2": ("the expression is expanded before the allowed list is checked", "a refused call (empty / invalid list) on an AND of >= 17 OR groups"),
 "C15-w5m1": ("one scanner stream reused for all allowed entries; 'removed' is not reset", "an entry with an unknown id behind an entry whose -or-later was rewritten"),
 "C15-w5m2": ("strings.Trim instead of TrimPrefix strips a '+' at the very end of the expression", "a rewritten id, the caller's string ending in '+', an unknown id in between"),
 "C01-w6m1": ("PR: above 4096 alternatives Satisfies streams them through an odometer whose buffer is sized from the first alternative of each operand", "> 4096 alternatives and an ANDed operand like (X OR (Y AND Z)) whose later alternative is longer: trailing terms are never checked"),
 "C01-w6m2": ("PR: range index keyed by a family NAME derived from the first id (text before the first digit)", "MPL-2.0-no-copyleft-exception (a one-member family) filed under MPL: matched by / matches MPL-1.x"),
 "C02-w6m1": ("PR: terms interned as integer keys (licOrd*len(exceptions)+excOrd)*2+plus, radix one too small; equality tested before the exception check", "A WITH <last exception of the list> against the id that follows A in GetLicenses() order"),
 "C02-w6m2": ("PR: lower-case operators accepted by upper-casing the words and / or / with (regexp word boundaries) in the text before scanning", "reference names with and / or / with as a whole segment (LicenseRef-MIT-or-Apache): case variants match, Extract re-cases"),
 "C03-w6m1": ("PR: retired ids match their replacements via a table split at ' WITH '; replacement[1] read for plain renames", "StandardML-NJ (and 4 more) against its successor WITH an exception: index out of range"),
 "C03-w6m2": ("PR: id index with a 64-byte stack buffer holding the word plus '-or-later'; only len(id) > 64 guarded", "an unknown word of 56-64 bytes directly followed by '+'"),
 "C04-w6m1": ("PR: scanner without regexps, normalizeLicense as one suffix switch; the X+ probe moved inside the deprecated branch", "GFDL-1.x-(no-)invariants+ : valid before, unknown now (every entry point)"),
 "C04-w6m2": ("PR: parseExpression / parseAnd unified by precedence climbing; the operator is found by token VALUE only", "MIT LicenseRef-OR ISC: accepted as MIT OR ISC by every entry point"),
 "C05-w6m1": ("PR: ValidateLicenses validates lists of >= 256 entries in per-core chunks; the chunk bounds use the same remainder shift for lo and hi", "an invalid entry at one of the few skipped indexes of a list whose length is no multiple of the worker count"),
 "C05-w6m2": ("PR: id lists indexed by a fixed [36]byte key; longer inputs are truncated by copy", "a listed 36-byte id followed by more id characters"),
 "C07-w6m1": ("PR: allowed list grouped by family as windows into the sorted slice; a split family is re-joined with append into spare capacity", "two members of a family and a non-member sorting between them: the in-between entry is overwritten"),
 "C07-w6m2": ("PR: exception buckets filled with &entry of a range variable (go 1.21 semantics)", "a licence WITH e covered only through another id WITH e that is not the last entry of the sorted list"),
 "C08-w6m1": ("PR: ids resolved before a following '+' is handled", "GFDL-1.x-(no-)invariants+ becomes unknown while -or-later stays valid"),
 "C08-w6m2": ("PR: allowed list indexed per family, each family cut from the sorted list as one run", "GFDL-1.1, GFDL-1.1-invariants-only, GFDL-1.1-only sort in this order: the deprecated spelling lands in the lost run"),
 "C09-w6m1": ("PR: typed id folded once into a scratch key; the '+' look-ahead appends -or-later to the key and does not cut it back", "ecos-2.0+ / apache-2.0-or-later+ in non-canonical case"),
 "C09-w6m2": ("PR: tables built once (sync.OnceValue); getters return shared slices", "a caller lower-cases a getter's result: ExtractLicenses then reports lower case"),
 "C10-w6m1": ("PR: alternatives as uint64 bit sets; the 'table full' guard is > 64 instead of >=", "exactly 65 distinct terms: the 65th is not required (AND) / always satisfied (OR), depending on the order written"),
 "C10-w6m2": ("PR: repeated operands of a chain skipped by a key = top operator + sorted multiset of ALL leaves", "sibling operands with the same leaves in another nesting"),
 "C11-w6m1": ("PR: lists of > 8 entries searched by sort.Search and widened to same-family neighbours", "> 8 entries, a look-alike id sorting between the expression licence and the only matching version"),
 "C11-w6m2": ("PR: reusable AllowList keeps only the lowest '+' entry per family", "two '+' entries of one family that differ in their exception"),
 "C12-w6m1": ("PR: one lower-cased id index; the '+' / -or-later branches build a LICENCE token by hand", "an exception id with -or-later outside WITH is accepted as a licence"),
 "C12-w6m2": ("PR: deprecated combined ids expanded to 'L-only WITH e'; spelledOut computed before the optional '+' is consumed", "GPL-2.0-with-GCC-exception+ WITH Classpath-exception-2.0 rejected"),
 "C13-w6m1": ("PR: shared prebuilt leaf nodes copied on write; the WITH branch copies only if the '+' branch did not", "GPL-2.0-or-later+ WITH e writes the exception into the shared table entry for the rest of the process"),
 "C13-w6m2": ("PR: deprecated ids on the allowed list also allow their successor: append(allowedList, successor)", "a caller's slice with spare capacity: the successor is written behind len"),
 "C14-w6m1": ("PR: Options{MaxAlternatives}; the estimator evaluates the left operand's count twice per AND", "AND groups nested to the left >= 28 deep"),
 "C14-w6m2": ("PR: lazy streaming Satisfies; an early-out probes the lazy left sequence and then runs it again", "alternating OR / AND nested to the left >= 50 deep, all licences allowed"),
 "C15-w6m1": ("PR: one interned id index; in the -or-later branch 'base is active or exception' became 'entry != nil' (also deprecated-only)", "eCos-2.0-or-later: buffer rewritten before the lookup fails, offset 8 too large"),
 "C15-w6m2": ("PR: operators and suffixes accepted in any letter case; the retry assigns the folded word to the variable the error message uses", "FOO-OR-LATER is cited as 'FOO-or-later'"),
 "C01-w7m1": ("PR: allowed entries covered by a ranged entry of the same family are pruned; coverage marked for all first, filtered afterwards", "X-only+ beside X-or-later / X+: each covers the other, both are dropped"),
 "C01-w7m2": ("PR: terms shared by all alternatives (common front of the first and last sorted alternative) checked once, 'same term' treating X and X-only as equal", "X, X WITH e and X-only heading three alternatives: X WITH e sorts between the two spellings"),
 "C02-w7m1": ("PR: id lists indexed by the id lower-cased into a 32-byte buffer (copy truncates)", "HPND-sell-variant-MIT-disclaimer (32 bytes) and …-rev match each other"),
 "C02-w7m2": ("PR: expressions 'as in file headers': trailing '.', ',' ';' stripped", "a LicenseRef whose name ends in '.' as the last thing of the string: LicenseRef-v1. = LicenseRef-v1"),
 "C03-w7m1": ("PR: repeated alternatives dropped with a field-wise sameAs that dereferences the other node's exception", "two neighbouring alternatives with the same id, one bare and one WITH an exception: nil dereference"),
 "C03-w7m2": ("PR: alternatives extending a failed one are skipped; prefix test without a length check, EqualFold vs case-sensitive sort", "(LicenseRef-Vendor AND MIT) OR LicenseRef-vendor: index out of range"),
 "C04-w7m1": ("PR: misplaced '+' reported where it occurs: the byte before '+' must be an id character", "X++ for the 17 stems whose X-or-later is listed was valid and is now rejected"),
 "C04-w7m2": ("PR: the operand of WITH is resolved against the exception list only", "<exception>-only after WITH was valid and is now rejected"),
 "C05-w7m1": ("PR: flat lists of >= 64 tokens without parentheses are parsed iteratively; the loop ends after a trailing operator", "a dangling AND / OR at the very end of a long flat list is accepted"),
 "C05-w7m2": ("PR: single-term shortcut for list entries; the DocumentRef case only counts three tokens", "DocumentRef-a AND LicenseRef-b accepted as a list entry"),
 "C06-w7m1": ("PR: AND groups drop a ranged term superseded by a later version of the family (sound for Satisfies; shared with ExtractLicenses)", "Apache-1.1+ AND Apache-2.0 extracts only Apache-2.0"),
 "C06-w7m2": ("PR: input clean-up strips a leading 'Word: ' field tag", "DocumentRef-ext: LicenseRef-foo at the very start loses its DocumentRef"),
 "C07-w7m1": ("PR: deprecated ids that bundle an exception are rewritten to 'L-only WITH e', looked up with the typed text", "gpl-2.0-with-classpath-exception in another letter case is not rewritten"),
 "C07-w7m2": ("PR: one reused nodePair, swapped in place for the 'first+' rule and never swapped back", "X+ against [X, X-older]: adding an entry flips the verdict"),
 "C08-w7m1": ("PR: parsed list entries memoised under strings.ToLower(entry), errors included", "Apache-2.0-OR-LATER (invalid) seen first: Apache-2.0-or-later is then rejected as an entry"),
 "C08-w7m2": ("PR: allocation-free X+ probe in a package-level [64]byte shared by goroutines", "concurrent GNU ids with '+': GPL-1.0+ occasionally becomes GPL-3.0-or-later"),
 "C10-w7m1": ("PR: implied same-family requirements removed from an AND part with slices.Delete over stale indices", "three licences of one family in one AND part, two of them '+'"),
 "C10-w7m2": ("PR: per-call match memo keyed by licenseGroup<<3 + versionGroup", "OLDAP (16 versions) carries into OSL: OLDAP-2.3 and OSL-2.0 share a key"),
 "C11-w7m1": ("PR: terms implied by a kept term are pruned; both-'+' copies the 'same family is enough' rule", "Apache-1.0+ AND Apache-2.0+ against [Apache-1.0]"),
 "C11-w7m2": ("PR: per-call set of licences already found allowed, keyed without hasPlus", "X+ cleared through a later version in a failing alternative, plain X in the next one"),
 "C12-w7m1": ("PR: id lookups through a 32-bit FNV hash; a hit is trusted after checking kind and length only", "an unlisted word with the same length and hash as a listed id (found by brute force)"),
 "C12-w7m2": ("PR: case-insensitive suffixes; the rewrite replaces 'the word as written' with strings.Replace", "LicenseRef-Apache-2.0-or-later OR Apache-2.0-or-later WITH e"),
 "C13-w7m1": ("PR: deepSort with slices.SortFunc, repeated groups rebuilt by ranging over a map, prefix rule lost", "a repeated group plus a group that is a prefix of two others: ExtractLicenses' order differs between calls"),
 "C13-w7m2": ("PR: leaf nodes from a sync.Pool, released from the full-length slice that sortAndDedup compacted in place", "two spellings of one licence in a list: a node is pooled twice, later calls share it"),
 "C14-w7m1": ("PR: OR lists walked iteratively with de-duplication; nested ORs offered twice, DocumentRef alternatives never merged", "a DocumentRef-qualified reference before many (a OR b) groups in one OR list: 2^n alternatives"),
 "C14-w7m2": ("PR: sentinel errors; a group's syntax error is joined with a copy of itself per enclosing parenthesis", "a stray ':' 16+ parentheses deep: the error text doubles per level"),
 "C15-w7m1": ("PR: edit log instead of the 'removed' counter; origin() counts an edit only when end < position", "X-or-later+FOO glued: offset 9 too small"),
 "C15-w7m2": ("PR: ':LicenseRef-<id>' checked in the scanner; its offset omits 'removed'", "a malformed qualified reference behind a rewritten id"),
}

def status(r):
    out = " ".join(r.get("output", []))
    if r.get("exit") == 1 and "VIOLATION" in out:
        return "caught (no input)" if "no-failing-input-found" in out else "CAUGHT"
    return "missed"

def main():
    rows = []
    for sid in sorted(os.listdir(S)):
        d = os.path.join(S, sid)
        mp = os.path.join(d, "meta.json")
        if not os.path.isfile(mp):
            continue
        meta = json.load(open(mp))
        if sid in M:
            meta["summary"], meta["needs_to_manifest"] = M[sid]
        latest = {}
        for fn in ("eval.json", "result.json"):
            p = os.path.join(d, fn)
            if not os.path.exists(p):
                continue
            data = json.load(open(p))
            runs = data if isinstance(data, list) else [data]
            for run in runs:
                for prop, r in run.get("results", {}).items():
                    latest[prop] = (status(r), run.get("verif_commit", ""), run.get("mode", "")[:20])
        meta["caught_by"] = sorted(p for p, v in latest.items() if v[0] == "CAUGHT")
        meta["what_was_run"] = "tools/seed.py verify (steps above) and tools/seed.py eval / repo: quick checks against the patched tree; per-check outcome in eval.json / result.json"
        json.dump(meta, open(mp, "w"), indent=1)
        rows.append((sid, meta["property"], meta.get("summary", ""), meta.get("needs_to_manifest", ""), latest))
    with open(os.path.join(S, "MATRIX.md"), "w") as f:
        f.write("# Seeded changes and the checks that catch them\n\nGenerated by tools/seed_meta.py from seeded/*/eval.json and result.json (latest outcome per check; "
                "CAUGHT = VIOLATION with a concrete failing input; 'caught (no input)' = VIOLATION ... no-failing-input-found; missed = exit 0).\n\n")
        f.write("| id | breaks | change | needs | target check | other checks that catch it | checks run without catching |\n|---|---|---|---|---|---|---|\n")
        for sid, prop, summ, needs, latest in rows:
            tgt = latest.get(prop, ("not run",))[0]
            others = sorted(p for p, v in latest.items() if p != prop and v[0] != "missed")
            missed = sorted(p for p, v in latest.items() if p != prop and v[0] == "missed")
            f.write("| %s | %s | %s | %s | %s | %s | %s |\n" % (sid, prop, summ, needs, tgt, " ".join(others) or "-", " ".join(missed) or "-"))
    print("meta + MATRIX.md written for", len(rows), "seeds")

if __name__ == "__main__":
    main()
