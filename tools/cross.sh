#!/bin/sh
# cross.sh [P] : every quick check against every seeded change (development aid), P evaluations in parallel; log in /tmp/cross.log
cd /verif
P=${1:-3}
ls seeded | grep -v MATRIX | xargs -P $P -I{} sh -c 'python3 tools/seed.py eval {} C01 C02 C03 C04 C05 C06 C07 C08 C09 C10 C11 C12 C13 C14 C15 2>&1 | grep -v conda | sed "s/^/{} /" | cut -c1-160' >> /tmp/cross.log 2>&1
python3 tools/seed_meta.py >> /tmp/cross.log 2>&1
echo CROSS-DONE >> /tmp/cross.log
