#!/usr/bin/env python3
"""Regenerates MANIFEST.json from the per-property texts below (run by hand after the theorems change)."""
import json, os
ROOT = os.path.dirname(os.path.dirname(os.path.abspath(__file__)))
TB = ("Trusted base: Lean 4.33.0 kernel (thorough: leanchecker re-check); axioms propext/Classical.choice/Quot.sound only, audited per theorem "
      "on every run; no sorry/admit/native_decide/bv_decide/implemented_by/unsafe; translator harness/cmd/gen (tables, JSON ids, template and "
      "source literals, effect / partial-operation census regenerated from /repo each run); correspondence harness + compiled model driver; Go toolchain. ")
TECH = ("Lean 4 theorems about a hand-written executable model (tables, literals and census regenerated from source each run and re-checked in "
        "the kernel) + differential correspondence model vs code + impl-only oracle search + fresh-process echo")
P = {
 "C01": ("verdict_eq_eval: for EVERY tree and allowed node list the expansion-based verdict (expand/expandOr/expandAnd/appendTerms/mergeTerms/deepSort/isCompatible) equals the Boolean value of the tree, for any single-term matcher; verdict_iff_alternative_covered; satisfies_spec and C07.satisfies_eq (string level, the discarded in-place dedup proved harmless); precedence/grouping through C05.parseTokens_iff. Tie: T-op correspondence (model expansion under the implementation's own single-term verdicts) + oracle on generated trees with sibling terms.",
         "DESIGN.md 6 C01, 11.2", "parse of arbitrary renderings of a tree is tied by correspondence; the string-level composition laws are C10's"),
 "C02": ("matchLeaf_eq_spec: on terms produced by the parser (parse_leavesOK: every term of every valid expression / allowed entry) matchLeaf IS the documented rule specMatch (refs exact, licence never a ref, equal exceptions, same id or the four +/no+ version cases over table positions); render_fold_inj (the EqualFold shortcut fires only for identical terms); symmetry, reflexivity, -or-later counts as +. Tie: M-op correspondence + documented rule evaluated by the harness over LicenseRanges(), incl. refs differing only in letter case.",
         "DESIGN.md 6 C02, 11.2", "relative to the shipped range table (positions = first occurrence); version ORDER of the table is C11's"),
 "C03": ("Layer G: the scanner (private buffer, integer cursor, expression[index-2:index-1] look-behind, all slice expressions of normalizeLicense incl. the buffer rewrite), the token cursor and the recursive-descent parser transliterated with explicit partial operations; g_parse_full_never_panics for EVERY byte string (cursor invariant). Behind the parser (layer G part 4, Go-shaped index / slice / in-place-write operations that panic outside the length): g_sortAndDedup_never_panics and g_sortAndDedup_refines (the in-place loop leaves exactly the main model's sortAndDedupArray), g_deepSort_comparator (nodes2d[i][k] only below len; equals the model's order), g_deepSort_guard, g_mergeTerms_refines, g_stringsToNodes_fill, nil dereferences of reconstructedLicenseString (g_extract / g_satisfies_never_derefs_nil). Census obligations: every index / slice expression of the package is accounted for; no type assertion, no division. Tie: Q-op runs the Go-shaped pipeline against the implementation AND against the main model on the systematic malformed stream; semantic workload (expansion, sort, dedup, matching) under recover.",
         "DESIGN.md 6 C03, 11.2", "PARTIAL: the indices sort.Slice hands to the comparators are in range by the contract of package sort (trusted); layer G is a hand transliteration tied by census, literal obligations and the Q-op, not generated; goroutine stack exhaustion and memory exhaustion are not modelled"),
 "C04": ("validate_spec (exactly the invalid elements, in order, with multiplicity), extract_err_iff, toNodes_ok_iff / toNodes_eq, satisfies_err_iff (error iff invalid expr / empty list / invalid or compound entry), satisfies_ok_of_valid. Tie: P/V/S/E correspondence + agreement oracle across the three entry points (lists up to 300 entries, boundary sizes, case-folded echoes).",
         "DESIGN.md 6 C04", "the false/nil result beside an error is observed on the implementation only"),
 "C05": ("parseTokens_iff: the recursive-descent parser accepts a token sequence iff it derives from the documented grammar D, with the tree the derivation denotes (unambiguity as corollary). Lexical level: lexeme_word / normCore (a clean word followed by a non-id byte is read by the normalisation cascade, which looks one byte ahead), scan_seqOK (what every emitted token carries), scanner compositional at boundaries (scan_append); literal obligations pin operator order, prefixes, regexps, suffixes and slice offsets to the source. Tie: P-op correspondence over all symbol sequences up to length 4 (5) in loose and tight spacing + word-level reference classifier over every listed id x suffix experiments.",
         "DESIGN.md 6 C05, 11.2", "the byte-level 'every accepted text is a spacing of lexemes' direction is carried by correspondence"),
 "C06": ("COMPLETE at string level: extract_mem (no term missing, none invented), extract_nodup, render_roundtrip (canonical text of every term of every valid expression parses back to that term), extract_self (every returned string is valid and extracts to itself), satisfies_own_terms (Satisfies(e, ExtractLicenses(e)) = true). Tie: E-op correspondence + set oracle on generated trees.",
         "DESIGN.md 6 C06, 11.2", "relative to the shipped tables through kernel-decided obligations (fold-distinct lists, no deprecated id with a suffix, no id beginning with an operator keyword or ref prefix)"),
 "C07": ("COMPLETE at string level: satisfies_denotes (the result depends only on the SET of terms the list denotes), satisfies_same_entries / perm / repeat, satisfies_respell (+ leafOf_parens, leafOf_spaces, C09 for letter case), satisfies_mono; sortAndDedupArray_mem (the in-place dedup whose slice Satisfies discards keeps exactly the caller's terms, via render_inj). Tie: S-op correspondence + permutation / duplication / re-spelling / extension oracle.",
         "DESIGN.md 6 C07, 11.2", "error KIND (invalid vs compound entry) is not compared, only error-or-verdict"),
 "C08": ("X+ / X-or-later: toks_plus_orLater (the very same token sequence whenever both are recognised), plus_orLater_interchangeable anywhere after a space or parenthesis and in allowed entries; X / X-only: normCore_only + D_swap (the grammar is stable under swapping matching-equivalent licence tokens) + matchLeaf_idEquiv => only_interchangeable (validity and Satisfies equal, any position), only_allowed_entry; active_all_spellings (every active id valid as X, X-only, X+, X-or-later). Table obligations orLater_bases_free, only_bases_ok, only_shares_group, active_suffixed_clean. Tie: substitution oracle incl. generated tree / list contexts with sibling terms.",
         "DESIGN.md 6 C08, 11.2", "the spelling must be followed by a byte that is neither an id byte nor a further '+' (reading stated in Props/C08Text.lean)"),
 "C09": ("COMPLETE at string level: tree_caseVariant_head / _ctx (re-casing a listed id at the start of the text or anywhere after a space or parenthesis leaves the tree unchanged), caseVariant_expression, caseVariant_allowed_entry, extract_canonical (output ids are members of the lists, spelled as listed). Table obligations listed_foldClean, lists_fold_distinct, deprecated_have_no_suffix. Tie: every listed id x case variants x positions, with family partners.",
         "DESIGN.md 6 C09, 11.2", "the six deprecated 'X+' ids are not words; they are reached through X-or-later"),
 "C10": ("verdict_of_eval_eq (same Boolean function => same verdict, any matcher) with commutativity, associativity, idempotence, absorption, distribution as instances; string level: satisfies_andText / satisfies_orText (Satisfies('(E) AND (F)') = Satisfies(E) && Satisfies(F)), parens_irrelevant, outer_spaces_irrelevant, satisfies_of_eval_eq, extract_set_of_leaves. Tie: rewrite-chain oracle under every subset of the terms, composition law, redundant parentheses at boundary sizes.",
         "DESIGN.md 6 C10, 11.2", "spaces INSIDE an expression are tied by correspondence (scan_append covers boundaries)"),
 "C11": ("plus_reach_oracle: for any two different ids of the range table, X-v1+ matches X-v2 iff the version oracle (family and version READ OFF THE IDS) says same family and v1 <= v2; reach_agree decides position order = version order for ALL ordered pairs of table ids in the kernel; table well-formedness (every entry listed, one position, one key per family, distinct keys, strictly ascending groups, coverage complete). Tie: exhaustive pair oracle on the implementation, with decoy entries around the deciding one.",
         "DESIGN.md 6 C11, 11.2", "the version oracle (Spec/Version.lean) is a stated definition of 'natural ordering'"),
 "C12": ("tables = JSON source data (list equality), committed generated files = template applied to the JSON ids byte for byte (template literals extracted from cmd/), fold-unique and disjoint lists, every listed license id valid alone, every exception id valid after WITH and nowhere else (decided in the kernel over all ids). Tie: the real generator is run in a scratch copy and its output compared with the committed files.",
         "DESIGN.md 6 C12", "none beyond the trusted base"),
 "C13": ("PARTIAL by nature: Lean carries (1) the premises as kernel-decided facts about the regenerated syntactic census (no package-level mutable state, no go/chan/select/unsafe, no output calls, caller slices only read), (2) schedule_independent for read-only sharing, (3) determinism of the model. Dynamic half: shuffled histories, FRESH-PROCESS histories (generated / reversed / shuffled order), in-place edits of a slice between calls, 32 goroutines under the race detector, CONCURRENT FIRST USE in fresh processes, argument snapshots, redirected stdout/stderr.",
         "DESIGN.md 6 C13, 11.2", "PARTIAL: the Go memory model and the soundness of the syntactic census are outside Lean"),
 "C14": ("PARTIAL with KNOWN FINDING D8: alts / expand_length theorems (the expansion has exactly alts(n) alternatives; AND of k two-way ORs has 2^k: the bound cannot be polynomial in the text length for the algorithm as written). Check: 15 input families measured one call per guarded child process (allocation watchdog, timeout), allocation vs K x model cost, allocation growth per doubling, CPU-time growth per doubling; exits 0 with KNOWN-FINDING while only the listed blow-up is observed.",
         "DESIGN.md 6 C14, 11.2", "PARTIAL: wall time, GC and stack use are not modelled; constants K fixed with 8x head-room"),
 "C15": ("scan_error_located: every offset-bearing scanner error points into the caller's string (unknown id: the lexeme is found at exactly that offset; missing id: the offset is a position at which no id byte stands), lifted through parse to all entry points. Tie: lenient reading of the implementation's messages checked against the original argument, incl. unknown ids of boundary lengths.",
         "DESIGN.md 6 C15", "message wording is not pinned; the offset and the quoted lexeme are"),
}
m = json.load(open(os.path.join(ROOT, "MANIFEST.json")))
checks = []
for pid in sorted(P):
    text, ref, note = P[pid]
    checks.append({
        "property_id": pid,
        "quick_cmd": "python3 check.py %s --tier quick" % pid,
        "thorough_cmd": "python3 check.py %s --tier thorough" % pid,
        "evidence_file": "evidence/%s.json" % pid,
        "replay_cmd_template": "python3 check.py %s --replay {path}" % pid,
        "engine": "lean4-proof+correspondence",
        "level_claimed": {"category": "proof", "text": text, "design_ref": ref},
        "level_note": TB + note,
        "technique": TECH,
    })
m["hooks"] = {
    "guard": "verif",
    "enable": "go build -tags verif (harness/cmd/run is built with the tag; spdxexp/verif_hooks.go exposes scan tokens, the parse tree and the expansion; if the hook file does not compile against the tree under check the harness is rebuilt without the tag and only the hook-based correspondences are skipped)",
    "baseline_off_cmd": "cd /repo && go test -vet=off -count=1 ./...",
    "source_commits": ["1496e06"],
    "add_only": True,
}
m["checks"] = checks
m["not_applicable"] = []
m["notes"] = ("All 15 properties are claimed. C13 and C14 are partial by nature (runtime behaviour outside Lean), C03 partial for the stages behind the parser; "
              "what exactly is proved per property is listed in DESIGN.md section 11.2. known_findings.json: D8 (C14) known, D1-D7 fixed in /repo by fix: commits. "
              "seeded/: confirmed seeded changes with the checks that catch them (seeded/MATRIX.md).")
json.dump(m, open(os.path.join(ROOT, "MANIFEST.json"), "w"), indent=1)
print("MANIFEST.json written:", len(checks), "checks")
