#!/usr/bin/env python3
"""Seeded-change tooling (development aid; not used by any registered check).

  seed.py verify <out_dir> <mN> <prop> <id>
      confirm a candidate change independently in a scratch worktree of /repo (outside /repo and /verif):
      the patch applies at HEAD, the repository builds, the existing suite passes with it, the demonstration
      fails with it and passes without it.  On success the change is stored as /verif/seeded/<id>/.
  seed.py eval <id> [props...]
      run quick checks against the change in a throw-away COPY of /verif whose harness points at a scratch
      worktree with the patch applied (so that /repo and the Lean build under /verif are not disturbed while
      proofs are being developed).  Appends to seeded/<id>/eval.json.
  seed.py repo <id> [props...]
      the sanctioned run: git -C /repo apply, run the quick checks from /verif, git -C /repo checkout -- .
      Records seeded/<id>/result.json.
"""
import json, os, shutil, subprocess, sys, time

VERIF = os.path.dirname(os.path.dirname(os.path.abspath(__file__)))
SEEDED = os.path.join(VERIF, "seeded")
SCRATCH = "/tmp/mv"
ENV = dict(os.environ, GOFLAGS="-mod=mod", GOPROXY="off", GOSUMDB="off", GOTOOLCHAIN="local")


def sh(cmd, cwd=None, env=None, timeout=3600):
    p = subprocess.run(cmd, cwd=cwd, env=env or ENV, stdout=subprocess.PIPE, stderr=subprocess.STDOUT, text=True, timeout=timeout)
    return p.returncode, p.stdout


def worktree(name):
    path = os.path.join(SCRATCH, name)
    if os.path.exists(path):
        sh(["git", "-C", "/repo", "worktree", "remove", "--force", path])
        shutil.rmtree(path, ignore_errors=True)
    os.makedirs(SCRATCH, exist_ok=True)
    rc, out = sh(["git", "-C", "/repo", "worktree", "add", "-q", "--detach", path, "HEAD"])
    if rc != 0:
        raise SystemExit("worktree add failed: " + out)
    return path


def drop(path):
    sh(["git", "-C", "/repo", "worktree", "remove", "--force", path])
    shutil.rmtree(path, ignore_errors=True)
    sh(["git", "-C", "/repo", "worktree", "prune"])


def verify(out_dir, m, prop, sid):
    patch = os.path.join(out_dir, m + ".diff")
    demos = [f for f in os.listdir(out_dir) if f.startswith("zz_demo_" + m) or f.startswith("demo_" + m)]
    notes = os.path.join(out_dir, m + ".md")
    if not os.path.exists(patch) or not demos:
        raise SystemExit("missing patch or demo in " + out_dir)
    wt = worktree("verify-" + sid)
    ran = []
    try:
        def step(name, cmd, cwd, want_ok):
            rc, out = sh(cmd, cwd=cwd)
            ok = (rc == 0) == want_ok
            ran.append({"step": name, "cmd": " ".join(cmd), "exit": rc, "as_expected": ok, "tail": out[-600:]})
            if not ok:
                raise RuntimeError("%s: exit %d\n%s" % (name, rc, out[-2000:]))
        step("patch applies at HEAD", ["git", "apply", "--check", patch], wt, True)
        demo_targets = []
        for d in demos:
            if d.endswith("_test.go"):
                shutil.copy(os.path.join(out_dir, d), os.path.join(wt, "spdxexp", d))
                demo_targets.append(os.path.join(wt, "spdxexp", d))
            else:
                os.makedirs(os.path.join(wt, "zz_demo"), exist_ok=True)
                shutil.copy(os.path.join(out_dir, d), os.path.join(wt, "zz_demo", "main.go"))
                demo_targets.append(os.path.join(wt, "zz_demo"))
        is_test = demos[0].endswith("_test.go")
        demo_cmd = ["go", "test", "-vet=off", "-count=1", "-run", "Demo|demo|Seed|M1|M2|Zz|ZZ", "./spdxexp/"] if is_test else ["go", "run", "./zz_demo"]
        if is_test:
            # run exactly the tests defined in the demo file
            import re
            names = []
            for d in demos:
                names += re.findall(r"^func (Test\w+)\(", open(os.path.join(out_dir, d)).read(), flags=re.M)
            demo_cmd = ["go", "test", "-vet=off", "-count=1", "-timeout", "300s"] + os.environ.get("SEED_TEST_FLAGS", "").split() + ["-run", "^(" + "|".join(names) + ")$", "./spdxexp/"]
        step("demonstration passes on the unchanged tree", demo_cmd, wt, True)
        for t in demo_targets:
            if os.path.isdir(t):
                shutil.rmtree(t)
            else:
                os.remove(t)
        step("apply", ["git", "apply", patch], wt, True)
        step("builds with the change", ["go", "build", "./..."], wt, True)
        step("existing suite passes with the change", ["go", "test", "-vet=off", "-count=1", "-timeout", "600s", "./..."], wt, True)
        for d in demos:
            if d.endswith("_test.go"):
                shutil.copy(os.path.join(out_dir, d), os.path.join(wt, "spdxexp", d))
            else:
                os.makedirs(os.path.join(wt, "zz_demo"), exist_ok=True)
                shutil.copy(os.path.join(out_dir, d), os.path.join(wt, "zz_demo", "main.go"))
        step("demonstration fails with the change", demo_cmd, wt, False)
    except RuntimeError as e:
        print("REJECTED %s: %s" % (sid, e))
        return 1
    finally:
        drop(wt)
    dst = os.path.join(SEEDED, sid)
    os.makedirs(dst, exist_ok=True)
    shutil.copy(patch, os.path.join(dst, "patch.diff"))
    for d in demos:
        # keep the demo under a name the go tool ignores, so that nothing under /verif is mistaken for package source
        shutil.copy(os.path.join(out_dir, d), os.path.join(dst, d + ".txt"))
    if os.path.exists(notes):
        shutil.copy(notes, os.path.join(dst, "author_notes.md"))
    meta = {"id": sid, "property": prop, "needs_to_manifest": "", "summary": "",
            "demonstration": [d + ".txt" for d in demos],
            "confirmed": {"when": time.strftime("%Y-%m-%d %H:%M:%S"), "base": sh(["git", "-C", "/repo", "rev-parse", "HEAD"])[1].strip(), "steps": ran}}
    json.dump(meta, open(os.path.join(dst, "meta.json"), "w"), indent=1)
    print("CONFIRMED %s -> %s" % (sid, dst))
    return 0


def run_checks(root, props, env):
    res = {}
    for p in props:
        t0 = time.time()
        rc, out = sh([sys.executable, os.path.join(root, "check.py"), p, "--tier", "quick"], cwd=root, env=env, timeout=3000)
        lines = [l for l in out.splitlines() if l.startswith(("VIOLATION", "OK ", "KNOWN-FINDING", "  "))]
        res[p] = {"exit": rc, "wall_s": round(time.time() - t0, 1), "output": lines[:14]}
        print("  %s exit=%d %s" % (p, rc, (lines[0] if lines else out[-200:])[:220]))
    return res


def evaluate(sid, props, base=None):
    dst = os.path.join(base or SEEDED, sid)
    meta = json.load(open(os.path.join(dst, "meta.json")))
    props = props or [meta["property"]]
    wt = worktree("eval-" + sid)
    copy = os.path.join(SCRATCH, "verif-" + sid)
    try:
        rc, out = sh(["git", "apply", os.path.join(dst, "patch.diff")], cwd=wt)
        if rc != 0:
            raise SystemExit("patch does not apply: " + out)
        shutil.rmtree(copy, ignore_errors=True)
        sh(["rsync", "-a", "--exclude", ".git", "--exclude", "seeded", "--exclude", "work", "--exclude", "replays", VERIF + "/", copy + "/"])
        gm = os.path.join(copy, "harness", "go.mod")
        txt = open(gm).read().replace("=> /repo", "=> " + wt)
        open(gm, "w").write(txt)
        env = dict(ENV, VERIF_REPO=wt)
        res = run_checks(copy, props, env)
        # keep the replay payloads
        for p in props:
            rp = os.path.join(copy, "replays", "%s-1.json" % p)
            if os.path.exists(rp):
                res[p]["replay"] = json.load(open(rp))
    finally:
        drop(wt)
        shutil.rmtree(copy, ignore_errors=True)
    path = os.path.join(dst, "eval.json")
    hist = json.load(open(path)) if os.path.exists(path) else []
    hist.append({"when": time.strftime("%Y-%m-%d %H:%M:%S"), "verif_commit": sh(["git", "-C", VERIF, "rev-parse", "--short", "HEAD"])[1].strip(),
                 "mode": "copy of /verif against a scratch worktree with the patch", "results": res})
    json.dump(hist, open(path, "w"), indent=1)
    return res


def on_repo(sid, props):
    dst = os.path.join(SEEDED, sid)
    meta = json.load(open(os.path.join(dst, "meta.json")))
    props = props or [meta["property"]]
    rc, out = sh(["git", "-C", "/repo", "status", "--porcelain"])
    if out.strip():
        raise SystemExit("/repo is not clean:\n" + out)
    rc, out = sh(["git", "-C", "/repo", "apply", os.path.join(dst, "patch.diff")])
    if rc != 0:
        raise SystemExit("patch does not apply: " + out)
    try:
        res = run_checks(VERIF, props, ENV)
    finally:
        sh(["git", "-C", "/repo", "checkout", "--", "."])
        sh(["git", "-C", "/repo", "clean", "-fdq"])
    json.dump({"when": time.strftime("%Y-%m-%d %H:%M:%S"), "verif_commit": sh(["git", "-C", VERIF, "rev-parse", "--short", "HEAD"])[1].strip(),
               "mode": "git -C /repo apply; python3 check.py <prop> --tier quick; git -C /repo checkout -- .", "results": res},
              open(os.path.join(dst, "result.json"), "w"), indent=1)
    return res


HARMLESS = os.path.join(VERIF, "harmless")
ALL = ["C%02d" % i for i in range(1, 16)]


def hverify(out_dir, h, sid):
    """a behaviour-preserving change: the patch applies, the repository builds, the existing suite passes"""
    patch = os.path.join(out_dir, h + ".diff")
    wt = worktree("hverify-" + sid)
    ran = []
    try:
        for name, cmd in (("patch applies at HEAD", ["git", "apply", patch]), ("builds", ["go", "build", "./..."]),
                          ("existing suite passes", ["go", "test", "-vet=off", "-count=1", "-timeout", "600s", "./..."])):
            rc, out = sh(cmd, cwd=wt)
            ran.append({"step": name, "cmd": " ".join(cmd), "exit": rc, "tail": out[-300:]})
            if rc != 0:
                print("REJECTED %s: %s\n%s" % (sid, name, out[-1500:]))
                return 1
    finally:
        drop(wt)
    dst = os.path.join(HARMLESS, sid)
    os.makedirs(dst, exist_ok=True)
    shutil.copy(patch, os.path.join(dst, "patch.diff"))
    notes = os.path.join(out_dir, h + ".md")
    if os.path.exists(notes):
        shutil.copy(notes, os.path.join(dst, "author_notes.md"))
    json.dump({"id": sid, "property": "none (behaviour-preserving change: no check should find a failing input)",
               "confirmed": {"when": time.strftime("%Y-%m-%d %H:%M:%S"), "steps": ran}}, open(os.path.join(dst, "meta.json"), "w"), indent=1)
    print("STORED %s -> %s" % (sid, dst))
    return 0


if __name__ == "__main__":
    a = sys.argv[1:]
    if a[:1] == ["hverify"] and len(a) == 4:
        sys.exit(hverify(a[1], a[2], a[3]))
    if a[:1] == ["heval"] and len(a) >= 2:
        evaluate(a[1], a[2:] or ALL, HARMLESS)
        sys.exit(0)
    if a[:1] == ["verify"] and len(a) == 5:
        sys.exit(verify(a[1], a[2], a[3], a[4]))
    elif a[:1] == ["eval"] and len(a) >= 2:
        evaluate(a[1], a[2:])
    elif a[:1] == ["repo"] and len(a) >= 2:
        on_repo(a[1], a[2:])
    else:
        print(__doc__)
        sys.exit(2)
