#!/bin/sh
# lb.sh <Module> : build one module, print errors with context (development aid)
cd /verif/lean
lake build "$1" 2>&1 | grep -v "^warning\|^Note\|^Hint\|\[apply\]\|This simp argument\|^$\|linter\|^  List\.\|Replayed\|^  [A-Za-z_.']*$" | head -${2:-60}
