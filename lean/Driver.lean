/-
Driver — line protocol around the executable model (core-only, compiled as `lean_exe driver`).
One operation per input line, one answer per output line.  Arguments are hex-encoded byte strings
(`.` = empty string, `-` = empty list, `,` separates list elements).

  P <expr>                 parse: ok | err empty | err syntax | err spaceplus | err expectedid <off> | err unknown <hexlex> <off>
  S <expr> <list>          Satisfies: true | false | err expr | err emptylist | err entry | err compound
  E <expr>                 ExtractLicenses: ok <list> | err
  V <list>                 ValidateLicenses: true - | false <list>
  M <term> <term>          matchLeaf on two single terms: true | false | err
  T <tree> <matrix>        verdict of the model's expansion for an abstract tree under a supplied leaf/entry truth matrix
  X <tree>                 the model's expansion of an abstract tree: alternatives as leaf numbers
  G <tokens>               parseTokens on an explicit token sequence: ok <tree> | err
  R <expr>                 parse and print the tree: ok <tree> | err
  Q <expr>                 outcome class of the Go-shaped model: ok | err | panic
  K <expr>                 cost-model quantities: cost <tokens> <alternatives> <slots> <leaves> <rewrites> <copy work>
  D                        digest of the compiled-in tables
-/
import SpdxVerif.Model.Cost
import SpdxVerif.Model.GoShaped
import SpdxVerif.Model.GoScan
open Spdx

def hexVal (c : Char) : Nat :=
  if '0' ≤ c ∧ c ≤ '9' then c.toNat - 48 else if 'a' ≤ c ∧ c ≤ 'f' then c.toNat - 87 else 0

def unhex (s : String) : Bytes :=
  if s == "." then [] else
  let rec go : List Char → Bytes
    | a :: b :: r => (hexVal a * 16 + hexVal b) :: go r
    | _ => []
  go s.toList

def hexDigit (n : Nat) : Char := if n < 10 then Char.ofNat (48 + n) else Char.ofNat (87 + n)
def hex (b : Bytes) : String :=
  if b.isEmpty then "." else String.ofList (b.flatMap (fun c => [hexDigit (c / 16), hexDigit (c % 16)]))

def splitList (s : String) : List Bytes :=
  if s == "-" then [] else (s.splitOn ",").map unhex
def hexList (l : List Bytes) : String :=
  if l.isEmpty then "-" else ",".intercalate (l.map hex)

/-- tree printer: leaves as `l(<hex id>,<0|1>,<hex exc or ->)` / `r(<hex doc or ->,<hex id>)` -/
def showNode : Node → String
  | .lic id p e => s!"l({hex id},{if p then 1 else 0},{match e with | some x => hex x | none => "-"})"
  | .ref d i => s!"r({match d with | some x => hex x | none => "-"},{hex i})"
  | .and l r => s!"A({showNode l},{showNode r})"
  | .or l r => s!"O({showNode l},{showNode r})"

def opText : Op → Bytes
  | .with_ => [87,73,84,72] | .and_ => [65,78,68] | .or_ => [79,82] | .lparen => [40] | .rparen => [41] | .colon => [58] | .plus => [43]

/-- `<role>:<value>` as the scan hook prints it -/
def tokText : Tok → Bytes
  | .op o => [111,112,58] ++ opText o
  | .docRef d => [100,111,99,114,101,102,58] ++ d
  | .licRef r => [108,105,99,114,101,102,58] ++ r
  | .lic c => [108,105,99,58] ++ c
  | .exc c => [101,120,99,58] ++ c

/-- the tree as the parse hook prints it: `&(l,r)`, `|(l,r)`, canonical text of a term -/
def treeText : Node → Bytes
  | .and l r => [38,40] ++ treeText l ++ [44] ++ treeText r ++ [41]
  | .or l r => [124,40] ++ treeText l ++ [44] ++ treeText r ++ [41]
  | n => render n

/-- abstract trees in prefix notation, comma separated: `&`, `|`, or a leaf number -/
def readTree : Nat → List String → Option (Node × List String)
  | 0, _ => none
  | _, [] => none
  | fuel+1, t :: rest =>
    if t == "&" || t == "|" then
      match readTree fuel rest with
      | none => none
      | some (l, rest1) => match readTree fuel rest1 with
        | none => none
        | some (r, rest2) => some (if t == "&" then .and l r else .or l r, rest2)
    else match t.toNat? with
      | some i => some (.ref none [i], rest)
      | none => none

def leafNo : Node → Nat
  | .ref none [i] => i
  | _ => 0

def readTok (s : String) : Option Tok :=
  match s.toList with
  | ['W'] => some (.op .with_) | ['A'] => some (.op .and_) | ['O'] => some (.op .or_)
  | ['('] => some (.op .lparen) | [')'] => some (.op .rparen) | [':'] => some (.op .colon) | ['+'] => some (.op .plus)
  | 'l' :: r => some (.lic (unhex (String.ofList r)))
  | 'x' :: r => some (.exc (unhex (String.ofList r)))
  | 'd' :: r => some (.docRef (unhex (String.ofList r)))
  | 'r' :: r => some (.licRef (unhex (String.ofList r)))
  | _ => none

def digest : Nat :=
  let all := Tables.active ++ [[0]] ++ Tables.deprecated ++ [[0]] ++ Tables.exceptions ++ [[0]] ++
    (Tables.ranges.flatMap (fun f => [[1]] ++ f.flatMap (fun g => [[2]] ++ g)))
  all.foldl (fun h w => w.foldl (fun h c => (h * 131 + c + 1) % 4294967291) ((h * 131 + 7) % 4294967291)) 17

def handle (line : String) : String :=
  match (line.trimAscii.toString.splitOn " ") with
  | ["P", e] =>
    match parse (unhex e) with
    | .ok _ => "ok"
    | .error .empty => "err empty"
    | .error .syntax => "err syntax"
    | .error (.scan .spaceBeforePlus) => "err spaceplus"
    | .error (.scan (.expectedId off)) => s!"err expectedid {off}"
    | .error (.scan (.unknownLicense w off)) => s!"err unknown {hex w} {off}"
  | ["S", e, a] =>
    match satisfies (unhex e) (splitList a) with
    | .ok true => "true" | .ok false => "false"
    | .error .badExpr => "err expr" | .error .emptyList => "err emptylist"
    | .error .badEntry => "err entry" | .error .compoundEntry => "err compound"
  | ["E", e] =>
    match extract (unhex e) with
    | some l => "ok " ++ hexList l
    | none => "err"
  | ["V", l] =>
    let (ok, bad) := validate (splitList l)
    s!"{ok} {hexList bad}"
  | ["M", a, b] =>
    match parse (unhex a), parse (unhex b) with
    | .ok x, .ok y => if x.isLeaf && y.isLeaf then toString (matchLeaf x y) else "err"
    | _, _ => "err"
  | ["T", t, m] =>
    let toks := t.splitOn ","
    match readTree (toks.length + 1) toks with
    | some (n, []) =>
      let rows := (m.splitOn ",").map (fun r => r.toList.map (· == '1'))
      let ncols := (rows.head?.map List.length).getD 0
      let A := (List.range ncols).map (fun j => Node.ref none [j])
      let mm : Node → Node → Bool := fun l a => ((rows.getD (leafNo l) []).getD (leafNo a) false)
      toString (verdictBy mm n A)
    | _ => "bad-op"
  | ["X", t] =>
    let toks := t.splitOn ","
    match readTree (toks.length + 1) toks with
    | some (n, []) => ";".intercalate ((expand n).map (fun alt => ",".intercalate (alt.map (fun l => toString (leafNo l)))))
    | _ => "bad-op"
  | ["G", ts] =>
    let toks := if ts == "-" then some [] else (ts.splitOn ",").mapM readTok
    match toks with
    | some l => (match parseTokens l with | some n => "ok " ++ showNode n | none => "err")
    | none => "bad-op"
  | ["R", e] =>
    match parse (unhex e) with
    | .ok n => "ok " ++ showNode n
    | .error _ => "err"
  | ["Q", e] =>
    -- the Go-shaped pipeline (scanner with buffer rewrite and look-behind, token cursor, parser); it must also agree with
    -- the suffix-based model that the theorems are about
    let b := unhex e
    match G.parseG b, parse b with
    | .panic, _ => "panic"
    | .ok (some n), .ok n' => if n = n' then "ok" else "MISMATCH-tree"
    | .ok none, .error _ => "err"
    | .ok (some _), .error _ => "MISMATCH-G-accepts"
    | .ok none, .ok _ => "MISMATCH-G-rejects"
  | ["Z", e] =>
    -- token stream, for the scan hook: `<role>:<value>` per token, hex-encoded, comma separated
    match scan (unhex e) with
    | .error _ => "err"
    | .ok ts => "ok " ++ hexList (ts.map tokText)
  | ["Y", e] =>
    -- parse tree in the hook's prefix form
    match parse (unhex e) with
    | .error _ => "err"
    | .ok n => "ok " ++ hex (treeText n)
  | ["A", e] =>
    -- the expansion: alternatives separated by `;`, terms by `,` (hex of the canonical text)
    match parse (unhex e) with
    | .error _ => "err"
    | .ok n => "ok " ++ ";".intercalate ((expand n).map (fun alt => hexList (alt.map render)))
  | ["K", e] =>
    let b := unhex e
    let toks := match scan b with | .ok ts => ts.length | .error _ => 0
    let rw := rewriteCount (b.length + 1) b
    match parse b with
    | .ok n => s!"cost {toks} {alts n} {slots n} {leafCount n} {rw} {copyWork n}"
    | .error _ => s!"cost {toks} 0 0 0 {rw} 0"
  | ["D"] => s!"digest {digest}"
  | _ => "bad-op"

partial def loop (h : IO.FS.Stream) (out : IO.FS.Stream) : IO Unit := do
  let line ← h.getLine
  if line.isEmpty then return ()
  out.putStrLn (handle line)
  loop h out

def main : IO Unit := do
  loop (← IO.getStdin) (← IO.getStdout)
