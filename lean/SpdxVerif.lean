-- Root of the `SpdxVerif` library: model, specifications, lemmas, property theorems, audits.
import SpdxVerif.Model.Cost
import SpdxVerif.Audit.C01
import SpdxVerif.Audit.C02
import SpdxVerif.Audit.C03
import SpdxVerif.Audit.C04
import SpdxVerif.Audit.C05
import SpdxVerif.Audit.C06
import SpdxVerif.Audit.C07
import SpdxVerif.Audit.C08
import SpdxVerif.Audit.C09
import SpdxVerif.Audit.C10
import SpdxVerif.Audit.C11
import SpdxVerif.Audit.C12
import SpdxVerif.Audit.C13
import SpdxVerif.Audit.C14
import SpdxVerif.Audit.C15
