-- Root of the `SpdxVerif` library: model, specifications, lemmas, property theorems, audits.
import SpdxVerif.Model.Api
