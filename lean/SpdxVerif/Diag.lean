/-
Diag — evaluates the table / census obligations and prints the entries that break them.
Run by check.py when a proof build fails:  lake env lean --run SpdxVerif/Diag.lean <property>
-/
import SpdxVerif.Spec.Version
import SpdxVerif.Spec.Census
import SpdxVerif.Gen.Json
import SpdxVerif.Spec.Consts
open Spdx

def showB (b : Bytes) : String := String.ofList (b.map (fun c => Char.ofNat c))
def showL (l : List Bytes) : String := "[" ++ ", ".intercalate (l.map showB) ++ "]"

def report (name : String) (ok : Bool) (offending : List Bytes) : IO Unit :=
  IO.println s!"OBLIGATION {name}: {if ok then "holds" else "FAILS"}{if ok then "" else " offending=" ++ showL offending}"

def dupIds (ids : List Bytes) : List Bytes :=
  let rec go : List Bytes → List Bytes → List Bytes
    | [], _ => []
    | x :: xs, seen => if seen.any (fun y => foldEq x y) then x :: go xs seen else go xs (x :: seen)
  go ids []

def main (args : List String) : IO Unit := do
  let prop := args.headD ""
  if prop == "C11" || prop == "C08" || prop == "C02" then
    report "ranges_listed (every entry is a listed id)" rangesListed (rangeIds.filter (fun x => !listedLicense x))
    report "ranges_no_duplicates (every entry sits at exactly one position)" rangesNoDup (dupIds rangeIds)
    report "families_one_key (all live entries of a family share one family key)" (Tables.ranges.all familyOneKey)
      ((Tables.ranges.filter (fun f => !familyOneKey f)).map (fun f => (f.flatMap id).headD []))
    report "family_keys_distinct" keysDistinct (dupIds (familyKeys.map (fun k => k.getD [])))
    report "families_ascending (one version per step, ascending)" (Tables.ranges.all familyAscending)
      ((Tables.ranges.filter (fun f => !familyAscending f)).map (fun f => (f.flatMap id).headD []))
    report "coverage_complete (a covered family covers every listed version)" coverageComplete
      ((Tables.active ++ Tables.deprecated).filter (fun id =>
        if bPlus.isSuffixOf id then false else
          let b := stripSuf id sufOrLater
          match famKey b with
          | none => false
          | some k => if familyKeys.any (fun fk => optBytesEq fk (some k)) then !rangeIds.any (beqBytes b) else false))
    report "only_shares_group (an active B-only sits in B's version group)" (Tables.active.all (fun x =>
        match stripSuffix? x sufOnly with
        | none => true
        | some b => if listedLicense b then (match pos x, pos b with | some (i, j), some (k, l) => i == k && j == l | _, _ => false) else true))
      (Tables.active.filter (fun x =>
        match stripSuffix? x sufOnly with
        | none => false
        | some b => if listedLicense b then !(match pos x, pos b with | some (i, j), some (k, l) => i == k && j == l | _, _ => false) else false))
  if prop == "C12" || prop == "C09" || prop == "C05" || prop == "C06" then
    let all := Tables.active ++ Tables.deprecated ++ Tables.exceptions
    report "lists_fold_unique (pairwise disjoint, unique up to letter case)" (foldUnique all) (dupIds all)
    report "lists_ascii" (all.all isAsciiId) (all.filter (fun x => !isAsciiId x))
    let ja := (Json.licenses.filter (fun p => !p.2)).map (·.1)
    let jd := (Json.licenses.filter (fun p => p.2)).map (·.1)
    let je := (Json.exceptions.filter (fun p => !p.2)).map (·.1)
    report "active_eq_json" (beqList Tables.active ja) ((Tables.active.filter (fun x => !ja.any (beqBytes x))) ++ (ja.filter (fun x => !Tables.active.any (beqBytes x))))
    report "deprecated_eq_json" (beqList Tables.deprecated jd) ((Tables.deprecated.filter (fun x => !jd.any (beqBytes x))) ++ (jd.filter (fun x => !Tables.deprecated.any (beqBytes x))))
    report "exceptions_eq_json" (beqList Tables.exceptions je) ((Tables.exceptions.filter (fun x => !je.any (beqBytes x))) ++ (je.filter (fun x => !Tables.exceptions.any (beqBytes x))))
  if prop == "C13" || prop == "C03" then
    report "no_shared_mutable_state (package-level variables)" noSharedMutableState ((Census.pkgVars.filter (fun v => !pkgVarOk v)).map (fun v => v.1 ++ [46] ++ v.2.1))
    report "no_concurrency_primitives (go / chan / select / unsafe)" noConcurrencyPrimitives []
    report "no_output (print calls, forbidden imports)" noOutput ((Census.imports.filter (fun p => bytesIn p.2 forbiddenImports)).map (·.2))
    report "caller_slices_untouched" callerSlicesUntouched (((reach 6 exportedParams).filter (fun p => !(p.2.2.2.1 == 0))).map (fun p => p.1 ++ [40] ++ p.2.1 ++ [41]))
  -- the literal census (Props/Consts.lean): print what the tree under check says, for comparison with the expectations
  for fn in ["expressionStream.readOperator", "expressionStream.readDocumentRef", "expressionStream.readLicenseRef",
             "expressionStream.readID", "expressionStream.skipWhitespace", "expressionStream.normalizeLicense",
             "tokenStream.parseLicense", "tokenStream.parseWith", "tokenStream.parseLicenseRef",
             "tokenStream.parseParenthesizedExpression", "tokenStream.parseAnd", "tokenStream.parseExpression",
             "tokenStream.parseAtom", "node.isAndExpression", "node.isOrExpression", "simplifyLicense",
             "node.reconstructedLicenseString"] do
    IO.println s!"OBLIGATION literals of {fn}: strings={showL (ConstsPin.litsOf fn)} ints={ConstsPin.intsOf fn}"
