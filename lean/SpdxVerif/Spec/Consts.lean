/-
Spec/Consts — access to the regenerated literal census (`Gen/Consts.lean`); the obligations are in Props/Consts.lean.

-/
import SpdxVerif.Spec.TableChecks
import SpdxVerif.Gen.Consts
namespace Spdx.ConstsPin

def isMessage (l : Bytes) : Bool := Nat.ble 10 l.length && l.any (Nat.beq 32)

def findFn {α} (tbl : List (Bytes × α)) (name : Bytes) : Option α :=
  match tbl with
  | [] => none
  | (n, v) :: rest => if beqBytes n name then some v else findFn rest name

/-- the non-message string literals of a function of package spdxexp, in source order -/
def litsOf (name : String) : List Bytes :=
  match findFn Consts.funcStrings (str name) with
  | some l => l.filter (fun x => !isMessage x)
  | none => [[0]]     -- function not found: compares unequal to every expectation below

def intsOf (name : String) : List Nat :=
  match findFn Consts.funcInts (str name) with
  | some l => l
  | none => [4294967295]

def beqNats' : List Nat → List Nat → Bool
  | [], [] => true
  | a :: as, b :: bs => Nat.beq a b && beqNats' as bs
  | _, _ => false

/-- the function `name` has exactly these (non-message) string literals, in this order — or, if no function of that name
    exists any more (a rename), SOME function of the package has exactly them -/
def fnHasLits (name : String) (expected : List Bytes) : Bool :=
  match findFn Consts.funcStrings (str name) with
  | some l => beqList (l.filter (fun x => !isMessage x)) expected
  | none => Consts.funcStrings.any (fun p => beqList (p.2.filter (fun x => !isMessage x)) expected)

/-- likewise for the integer literals; after a rename the function is recognised by its string literals -/
def fnHasInts (name : String) (lits : List Bytes) (expected : List Nat) : Bool :=
  match findFn Consts.funcInts (str name) with
  | some l => beqNats' l expected
  | none => Consts.funcStrings.any (fun p => beqList (p.2.filter (fun x => !isMessage x)) lits &&
      (match findFn Consts.funcInts p.1 with | some l => beqNats' l expected | none => false))

def beqNats : List Nat → List Nat → Bool
  | [], [] => true
  | a :: as, b :: bs => Nat.beq a b && beqNats as bs
  | _, _ => false


end Spdx.ConstsPin
