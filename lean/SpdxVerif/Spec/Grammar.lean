/-
Spec/Grammar — the documented SPDX expression grammar over tokens, with the tree each phrase denotes:

  expr  := and {OR and}            (right-nested)
  and   := atom {AND atom}         (right-nested)
  atom  := ( expr ) | [DocumentRef-id :] LicenseRef-id | license-id [+] [WITH exception-id]

One indexed inductive (rather than three mutual ones) so that `induction` applies.
-/
import SpdxVerif.Model.Api
namespace Spdx

inductive Lvl | atom | andE | expr
  deriving DecidableEq

inductive D : Lvl → List Tok → Node → Prop
  | ref0 (r) : D .atom [.licRef r] (.ref none r)
  | ref1 (d r) : D .atom [.docRef d, .op .colon, .licRef r] (.ref (some d) r)
  | lic (id) : D .atom [.lic id] (.lic id (sufOrLater.isSuffixOf id) none)
  | licP (id) : D .atom [.lic id, .op .plus] (.lic id true none)
  | licW (id e) : D .atom [.lic id, .op .with_, .exc e] (.lic id (sufOrLater.isSuffixOf id) (some e))
  | licPW (id e) : D .atom [.lic id, .op .plus, .op .with_, .exc e] (.lic id true (some e))
  | paren {ts n} : D .expr ts n → D .atom (.op .lparen :: ts ++ [.op .rparen]) n
  | and1 {ts n} : D .atom ts n → D .andE ts n
  | andC {a b l r} : D .atom a l → D .andE b r → D .andE (a ++ .op .and_ :: b) (.and l r)
  | or1 {ts n} : D .andE ts n → D .expr ts n
  | orC {a b l r} : D .andE a l → D .expr b r → D .expr (a ++ .op .or_ :: b) (.or l r)

def parseAt : Lvl → Nat → List Tok → PR Node
  | .atom => parseAtom | .andE => parseAnd | .expr => parseExpression

/-- fuel that suffices for a phrase of `n` tokens -/
def need : Lvl → Nat → Nat
  | .atom, n => 3 * n - 2 | .andE, n => 3 * n - 1 | .expr, n => 3 * n

/-- what may follow a phrase of the given level for the parser to stop there -/
def headOk (lv : Lvl) (rest : List Tok) : Prop :=
  rest.head? ≠ some (.op .plus) ∧ rest.head? ≠ some (.op .with_) ∧
  (lv ≠ .atom → rest.head? ≠ some (.op .and_)) ∧ (lv = .expr → rest.head? ≠ some (.op .or_))

end Spdx
