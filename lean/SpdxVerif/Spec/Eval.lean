/-
Spec/Eval — the Boolean reading of an expression tree (the vocabulary of C01, C07, C10).
-/
import SpdxVerif.Model.Api
namespace Spdx

/-- value of the tree as a Boolean formula under a truth assignment of its leaves -/
def eval (p : Node → Bool) : Node → Bool
  | .and l r => eval p l && eval p r
  | .or l r => eval p l || eval p r
  | n => p n

/-- the leaves (single terms) of a tree, left to right -/
def leaves : Node → List Node
  | .and l r => leaves l ++ leaves r
  | .or l r => leaves l ++ leaves r
  | n => [n]

/-- the alternatives of a tree (its OR-of-ANDs reading), defined independently of `expand` -/
def altsOf : Node → List (List Node)
  | .and l r => (altsOf l).flatMap (fun a => (altsOf r).map (fun b => a ++ b))
  | .or l r => altsOf l ++ altsOf r
  | n => [[n]]

/-- truth of an OR-of-ANDs list -/
def dnf (p : Node → Bool) (ll : List (List Node)) : Bool := ll.any (fun c => c.all p)

/-- a term is covered when some allowed entry matches it on its own -/
def coveredBy (m : Node → Node → Bool) (A : List Node) (t : Node) : Bool := A.any (fun a => m t a)
def covered (A : List Node) (t : Node) : Bool := coveredBy matchLeaf A t

end Spdx
