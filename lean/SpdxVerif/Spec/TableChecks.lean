/-
Spec/TableChecks — Bool-valued, kernel-friendly checks over the regenerated tables
(structural recursion, `Nat.beq`/`Nat.ble`/`Nat.blt` only), with the lemmas that lift them to the
statements the properties need.
-/
import SpdxVerif.Model.Api
namespace Spdx

/-- list-of-bytes equality as a Bool computed with `Nat.beq` -/
def beqBytes : Bytes → Bytes → Bool
  | [], [] => true
  | a :: as, b :: bs => Nat.beq a b && beqBytes as bs
  | _, _ => false

def beqList : List Bytes → List Bytes → Bool
  | [], [] => true
  | a :: as, b :: bs => beqBytes a b && beqList as bs
  | _, _ => false

theorem beqBytes_eq {a b : Bytes} (h : beqBytes a b = true) : a = b := by
  induction a generalizing b with
  | nil => cases b <;> simp_all [beqBytes]
  | cons x xs ih =>
    cases b with
    | nil => simp [beqBytes] at h
    | cons y ys =>
      simp only [beqBytes, Bool.and_eq_true] at h
      rw [Nat.eq_of_beq_eq_true h.1, ih h.2]

theorem beqList_eq {a b : List Bytes} (h : beqList a b = true) : a = b := by
  induction a generalizing b with
  | nil => cases b <;> simp_all [beqList]
  | cons x xs ih =>
    cases b with
    | nil => simp [beqList] at h
    | cons y ys =>
      simp only [beqList, Bool.and_eq_true] at h
      rw [beqBytes_eq h.1, ih h.2]

/-- base-256 encoding of the lower-cased id, injective on byte strings of bytes < 256 (leading 1 keeps the length) -/
def encodeLower : Bytes → Nat
  | [] => 1
  | c :: cs => lowerC c + 256 * encodeLower cs

def mergeN : Nat → List Nat → List Nat → List Nat
  | 0, xs, ys => xs ++ ys
  | _+1, [], ys => ys
  | _+1, xs, [] => xs
  | f+1, x :: xs, y :: ys => if Nat.ble x y then x :: mergeN f xs (y :: ys) else y :: mergeN f (x :: xs) ys

def splitN : List Nat → List Nat × List Nat
  | [] => ([], [])
  | [x] => ([x], [])
  | x :: y :: r => let p := splitN r; (x :: p.1, y :: p.2)

def msortN : Nat → List Nat → List Nat
  | 0, l => l
  | _+1, [] => []
  | _+1, [x] => [x]
  | f+1, l => let p := splitN l; mergeN l.length (msortN f p.1) (msortN f p.2)

def strictAsc : List Nat → Bool
  | [] => true
  | [_] => true
  | x :: y :: r => Nat.blt x y && strictAsc (y :: r)

/-- no two ids of the list are equal up to ASCII letter case -/
def foldUnique (ids : List Bytes) : Bool := strictAsc (msortN 24 (ids.map encodeLower))

def isAsciiId (w : Bytes) : Bool := w.all (fun c => Nat.blt c 128)

end Spdx
