/-
Spec/Version — a version oracle that reads family and version off an id alone (independent of the range table),
and the well-formedness checks of the range table stated with it (C11, C08).

  strip `-only` / `-or-later`; split at '-'; the first segment after the first that matches [0-9][0-9.]*[a-z]? is
  the version; the id with that segment replaced by `*` is the family key
  (CC-BY-NC-SA-2.5 ↦ CC-BY-NC-SA-*, 2.5;  Brian-Gladman-3-Clause ↦ Brian-Gladman-*-Clause, 3;
   MPL-2.0-no-copyleft-exception ↦ MPL-*-no-copyleft-exception, 2.0).
  Versions compare component-wise numerically (a proper prefix is smaller), then by the trailing letter
  (1.3a < 1.3c, 3.0 < 3.01, 2.0 < 2.0.1 < 2.1).
-/
import SpdxVerif.Spec.TableChecks
import SpdxVerif.Model.Match
namespace Spdx

def isDigit (c : Nat) : Bool := Nat.ble 48 c && Nat.ble c 57
def isLowerAlpha (c : Nat) : Bool := Nat.ble 97 c && Nat.ble c 122

def splitOnAux (sep : Nat) : Bytes → Bytes → List Bytes
  | [], cur => [cur.reverse]
  | c :: cs, cur => if Nat.beq c sep then cur.reverse :: splitOnAux sep cs [] else splitOnAux sep cs (c :: cur)
def splitOn (sep : Nat) (s : Bytes) : List Bytes := splitOnAux sep s []

def joinWith (sep : Nat) : List Bytes → Bytes
  | [] => []
  | [x] => x
  | x :: xs => x ++ sep :: joinWith sep xs

/-- `[0-9][0-9.]*[a-z]?` -/
def isVersionSeg : Bytes → Bool
  | [] => false
  | c :: cs => isDigit c &&
    (match cs.reverse with
     | [] => true
     | l :: rest => (isLowerAlpha l || isDigit l || Nat.beq l 46) && rest.all (fun x => isDigit x || Nat.beq x 46))

def digitsVal (ds : Bytes) : Nat := ds.foldl (fun acc d => acc * 10 + (d - 48)) 0

structure Ver where
  nums : List Nat
  letter : Nat

def parseVer (seg : Bytes) : Ver :=
  match seg.reverse with
  | l :: rest =>
    if isLowerAlpha l then ⟨(splitOn 46 rest.reverse).filterMap (fun p => if p.isEmpty then none else some (digitsVal p)), l⟩
    else ⟨(splitOn 46 seg).filterMap (fun p => if p.isEmpty then none else some (digitsVal p)), 0⟩
  | [] => ⟨[], 0⟩

def numsCmp : List Nat → List Nat → Ordering
  | [], [] => .eq
  | [], _ :: _ => .lt
  | _ :: _, [] => .gt
  | a :: as, b :: bs => if Nat.blt a b then .lt else if Nat.blt b a then .gt else numsCmp as bs

def verCmp (a b : Ver) : Ordering :=
  match numsCmp a.nums b.nums with
  | .eq => if Nat.blt a.letter b.letter then .lt else if Nat.blt b.letter a.letter then .gt else .eq
  | o => o

def verLt (a b : Ver) : Bool := match verCmp a b with | .lt => true | _ => false
def verEq (a b : Ver) : Bool := match verCmp a b with | .eq => true | _ => false
def verLe (a b : Ver) : Bool := verLt a b || verEq a b

def stripSuf (id suf : Bytes) : Bytes := (stripSuffix? id suf).getD id

/-- the id as the oracle reads it: without `-only`, without `-or-later` -/
def bareId (id : Bytes) : Bytes := stripSuf (stripSuf id sufOnly) sufOrLater

def findVerIdx : List Bytes → Nat → Option Nat
  | [], _ => none
  | s :: ss, i => if Nat.blt 0 i && isVersionSeg s then some i else findVerIdx ss (i+1)

/-- (family key, version) of an id, or `none` when the id carries no version -/
def famVer (id : Bytes) : Option (Bytes × Ver) :=
  let segs := splitOn 45 (bareId id)
  match findVerIdx segs 0 with
  | none => none
  | some i => some (joinWith 45 (segs.set i [42]), parseVer (segs.getD i []))

def famKey (id : Bytes) : Option Bytes := (famVer id).map (·.1)
def verOf (id : Bytes) : Option Ver := (famVer id).map (·.2)

/-! ## well-formedness checks of the range table -/

/-- entries ending in `-or-later` are dead: the range lookup strips that suffix before searching -/
def isLive (id : Bytes) : Bool := !sufOrLater.isSuffixOf id

def rangeIds : List Bytes := Tables.ranges.flatMap (fun f => f.flatMap id)
def liveRangeIds : List Bytes := rangeIds.filter isLive

def listedLicense (id : Bytes) : Bool := bytesIn' id Tables.active || bytesIn' id Tables.deprecated
where bytesIn' (x : Bytes) (l : List Bytes) : Bool := l.any (beqBytes x)

/-- every entry is a listed id -/
def rangesListed : Bool := rangeIds.all listedLicense

/-- every entry sits at exactly one position -/
def rangesNoDup : Bool := foldUnique rangeIds

def optBytesEq : Option Bytes → Option Bytes → Bool
  | some a, some b => beqBytes a b
  | _, _ => false

/-- all live entries of a family carry one family key -/
def familyOneKey (f : List (List Bytes)) : Bool :=
  match (f.flatMap id).filter isLive with
  | [] => false
  | x :: xs => (famKey x).isSome && xs.all (fun y => optBytesEq (famKey x) (famKey y))

/-- the version of a group: all its live entries carry one version -/
def groupVer (g : List Bytes) : Option Ver :=
  match g.filter isLive with
  | [] => none
  | x :: xs => match verOf x with
    | none => none
    | some v => if xs.all (fun y => match verOf y with | some w => verEq v w | none => false) then some v else none

def ascending : List (Option Ver) → Bool
  | [] => true
  | [some _] => true
  | some a :: some b :: r => verLt a b && ascending (some b :: r)
  | _ => false

/-- one version per step, strictly ascending -/
def familyAscending (f : List (List Bytes)) : Bool := ascending (f.map groupVer)

def familyKeys : List (Option Bytes) := Tables.ranges.map (fun f => match (f.flatMap id).filter isLive with | x :: _ => famKey x | [] => none)

/-- different families have different keys -/
def keysDistinct : Bool :=
  foldUnique (familyKeys.map (fun k => k.getD []))

/-- a family that is covered at all covers every listed version of it -/
def coverageComplete : Bool :=
  (Tables.active ++ Tables.deprecated).all (fun id =>
    if bPlus.isSuffixOf id then true                    -- the six `X+` ids are not words; `X` itself is checked
    else
      let b := stripSuf id sufOrLater                    -- what the range lookup will search for
      match famKey b with
      | none => true
      | some k => if familyKeys.any (fun fk => optBytesEq fk (some k)) then rangeIds.any (beqBytes b) else true)

end Spdx
