/-
Spec/Census — what the regenerated syntactic census (Gen/Census.lean) must satisfy: the premises of the purity /
schedule-independence argument (C13) and the inventory of partial operations (C03).
-/
import SpdxVerif.Spec.TableChecks
import SpdxVerif.Gen.Census
namespace Spdx

def bytesIn (x : Bytes) (l : List Bytes) : Bool := l.any (beqBytes x)

/-- packages whose import would give the library a way to do I/O, keep time, randomness or break memory safety -/
def forbiddenImports : List Bytes :=
  [[111,115], [108,111,103], [105,111], [98,117,102,105,111], [110,101,116], [115,121,115,99,97,108,108],
   [117,110,115,97,102,101], [109,97,116,104,47,114,97,110,100], [116,105,109,101], [111,115,47,101,120,101,99],
   [114,117,110,116,105,109,101], [114,101,102,108,101,99,116], [105,111,47,105,111,117,116,105,108], [110,101,116,47,104,116,116,112]]
  -- os log io bufio net syscall unsafe math/rand time os/exec runtime reflect io/ioutil net/http

def kindRegexp : Bytes := [114,101,103,101,120,112]    -- "regexp"
def kindLiteral : Bytes := [108,105,116,101,114,97,108] -- "literal"

/-- a package-level variable is harmless when nothing assigns to it or takes its address after its declaration and
    it is initialised by a literal or by `regexp.MustCompile` (a `*regexp.Regexp` is safe for concurrent use) -/
def pkgVarOk (v : Bytes × Bytes × Bytes × Nat × Nat) : Bool :=
  Nat.beq v.2.2.2.1 0 && Nat.beq v.2.2.2.2 0 && (beqBytes v.2.2.1 kindRegexp || beqBytes v.2.2.1 kindLiteral)

def noSharedMutableState : Bool :=
  Census.pkgVars.all pkgVarOk && Nat.beq Census.initFuncs 0

def noConcurrencyPrimitives : Bool :=
  Nat.beq Census.goStmts 0 && Nat.beq Census.chanUses 0 && Nat.beq Census.selectStmts 0 && Nat.beq Census.unsafeImports 0

def noOutput : Bool :=
  Nat.beq Census.printCalls 0 && Census.imports.all (fun p => !bytesIn p.2 forbiddenImports)

/-- slice parameters reachable from the exported functions' parameters through hand-offs (fuel-bounded closure) -/
def paramEntry := Bytes × Bytes × Nat × Nat × List (Bytes × Nat)

def paramsOf (fn : Bytes) : List paramEntry := Census.sliceParams.filter (fun p => beqBytes p.1 fn)

/-- the `k`-th slice parameter … the census lists hand-offs by (callee, argument position); positions of slice
    parameters are not recorded per parameter, so a hand-off taints EVERY slice parameter of the callee (sound) -/
def reach : Nat → List paramEntry → List paramEntry
  | 0, acc => acc
  | f+1, acc =>
    let next := acc.flatMap (fun p => p.2.2.2.2.flatMap (fun c => paramsOf c.1))
    reach f (acc ++ next)

def exportedParams : List paramEntry := Census.sliceParams.filter (fun p => Nat.beq p.2.2.1 1)

/-- no slice that the caller passes in is written, re-sliced, appended to, aliased or handed to code outside the
    package, on any path from an exported function -/
def callerSlicesUntouched : Bool :=
  (reach 6 exportedParams).all (fun p => Nat.beq p.2.2.2.1 0)

end Spdx
