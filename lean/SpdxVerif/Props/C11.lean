/-
C11 — '+' reaches exactly the later versions of the same family, in true version order; the family table is well-formed.
The version order is the ORACLE of Spec/Version.lean (read off the ids), not the table.
-/
import SpdxVerif.Spec.Version
import SpdxVerif.Props.C02
namespace Spdx.C11

/-! ### the table is well-formed (kernel-decided on the regenerated table) -/

/-- every entry is a valid listed id -/
theorem ranges_listed : rangesListed = true := by decide +kernel
/-- every entry sits at exactly one position -/
theorem ranges_no_duplicates : rangesNoDup = true := by decide +kernel
/-- within a family all live entries carry one family key … -/
theorem families_one_key : Tables.ranges.all familyOneKey = true := by decide +kernel
/-- … different families carry different keys … -/
theorem family_keys_distinct : keysDistinct = true := by decide +kernel
/-- … each version group holds one version and the groups are listed in strictly ascending version order -/
theorem families_ascending : Tables.ranges.all familyAscending = true := by decide +kernel
/-- a family that is covered at all covers every listed version of it -/
theorem coverage_complete : coverageComplete = true := by decide +kernel

/-- every live entry is found by the range lookup at the very position where it is written:
    `pos` (first occurrence) = (family index, group index) -/
def positionsExact : Bool :=
  let rec fam (fs : List (List (List Bytes))) (i : Nat) : Bool :=
    match fs with
    | [] => true
    | f :: fs' =>
      let rec grp (gs : List (List Bytes)) (j : Nat) : Bool :=
        match gs with
        | [] => true
        | g :: gs' => g.all (fun x => !isLive x || (match pos x with | some (a, b) => Nat.beq a i && Nat.beq b j | none => false)) && grp gs' (j+1)
      grp f 0 && fam fs' (i+1)
  fam Tables.ranges 0

theorem positions_exact : positionsExact = true := by decide +kernel

/-! ### '+' in terms of positions (for all ids), from C02 -/

/-- `X-v1+` matches `X-v2` (different ids, equal exceptions) iff both sit in the same family and v1's group is not
    after v2's; in particular '+' never makes an id match an id of another family or an id outside the table -/
theorem plus_reach_pos (a b : Bytes) (e : Option Bytes) (i j k l : Nat)
    (ha : pos a = some (i, j)) (hb : pos b = some (k, l)) (hne : a ≠ b)
    (hfold : foldEq (render (.lic a true e)) (render (.lic b false e)) = false) :
    matchLeaf (.lic a true e) (.lic b false e) = (i == k && decide (j ≤ l)) :=
  C02.version_rule a b true false e i j k l ha hb hne hfold

theorem plus_never_leaves_table (a b : Bytes) (pb : Bool) (e : Option Bytes)
    (ha : pos a = none) (hne : a ≠ b)
    (hfold : foldEq (render (.lic a true e)) (render (.lic b pb e)) = false) :
    matchLeaf (.lic a true e) (.lic b pb e) = false :=
  C02.unranged_matches_only_itself a b true pb e ha hne hfold

/-! ### non-vacuity: the oracle on ids of the shipped lists -/
section
private def ver (s : Bytes) : Ver := (verOf s).getD ⟨[], 0⟩
-- LPPL-1.3a < LPPL-1.3c ; PHP-3.0 < PHP-3.01 ; OLDAP-2.0 < OLDAP-2.0.1 < OLDAP-2.1
example : verLt (ver [76,80,80,76,45,49,46,51,97]) (ver [76,80,80,76,45,49,46,51,99]) = true := by decide +kernel
example : verLt (ver [80,72,80,45,51,46,48]) (ver [80,72,80,45,51,46,48,49]) = true := by decide +kernel
example : verLt (ver [79,76,68,65,80,45,50,46,48]) (ver [79,76,68,65,80,45,50,46,48,46,49]) = true := by decide +kernel
example : verLt (ver [79,76,68,65,80,45,50,46,48,46,49]) (ver [79,76,68,65,80,45,50,46,49]) = true := by decide +kernel
-- GPL-2.0-only and GPL-2.0 have the same family key GPL-* and version
example : optBytesEq (famKey [71,80,76,45,50,46,48,45,111,110,108,121]) (some [71,80,76,45,42]) = true := by decide +kernel
end

end Spdx.C11
