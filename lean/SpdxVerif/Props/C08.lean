/-
C08 — equivalent spellings of a license are interchangeable everywhere.
-/
import SpdxVerif.Spec.Version
import SpdxVerif.Lemmas.Tables
import SpdxVerif.Props.C02
namespace Spdx.C08

/-! ### table obligations -/

/-- every ACTIVE `B-only` whose base `B` is itself a listed id shares `B`'s position in the range table
    (so that `B` and `B-only` are interchangeable in version comparisons) -/
def onlySharesGroup : Bool :=
  Tables.active.all (fun x =>
    match stripSuffix? x sufOnly with
    | none => true
    | some b => if listedLicense b then
        (match pos x, pos b with
         | some (i, j), some (k, l) => Nat.beq i k && Nat.beq j l
         | _, _ => false)
      else true)

theorem only_shares_group : onlySharesGroup = true := by decide +kernel

/-- no ACTIVE id `X` has an active `X-or-later` beside it: whenever `X-or-later` is listed, `X` is deprecated, so
    `X+` and `X-or-later` scan to the very same token -/
def noActiveBaseOfOrLater : Bool :=
  Tables.active.all (fun x =>
    match stripSuffix? x sufOrLater with
    | none => true
    | some b => !(Tables.active.any (beqBytes b)) && !(Tables.exceptions.any (beqBytes b)))

theorem no_active_base_of_orLater : noActiveBaseOfOrLater = true := by decide +kernel

/-! ### the normalisation cascade treats the spellings alike (word level) -/

theorem stripSuffix_append (w suf : Bytes) : stripSuffix? (w ++ suf) suf = some w := by
  unfold stripSuffix?
  have : suf.isSuffixOf (w ++ suf) = true := by rw [List.isSuffixOf_iff_suffix]; exact List.suffix_append _ _
  simp [this]

/-- `X-only`, when it is not itself listed, is read as `X` -/
theorem normalize_only (w rest : Bytes) (t : Tok)
    (hnot : licenseLookup (w ++ sufOnly) = none) (hw : licenseLookup w = some t) :
    normalize (w ++ sufOnly) rest = some ([t], rest) ∧ normalize w rest = some ([t], rest) := by
  constructor
  · unfold normalize
    simp [hnot, stripSuffix_append, hw]
  · unfold normalize
    simp [hw]

/-- `X-or-later` listed: `X+` (with `X` not active) and `X-or-later` give the same single token -/
theorem normalize_plus_listed (w rest : Bytes) (t : Tok)
    (hl : licenseLookup (w ++ sufOrLater) = some t)
    (hw : licenseLookup w = none) (hwo : (stripSuffix? w sufOnly).bind licenseLookup = none) :
    normalize w (43 :: rest) = some ([t], rest) ∧ normalize (w ++ sufOrLater) rest = some ([t], rest) := by
  constructor
  · unfold normalize
    simp [hw, hwo, hl]
  · unfold normalize
    simp [hl]

/-- `X-or-later` not listed, `X` active: `X-or-later` gives `[X, +]`; `X+` gives `[X]` with the `+` left in the input,
    which the next loop iteration reads as the operator — the same token sequence -/
theorem normalize_orLater_unlisted (w rest : Bytes) (t : Tok)
    (hl : licenseLookup (w ++ sufOrLater) = none) (hw : licenseLookup w = some t)
    (hno : stripSuffix? (w ++ sufOrLater) sufOnly = none)
    (hr : rest.head? ≠ some 43) :
    normalize (w ++ sufOrLater) rest = some ([t, .op .plus], rest) ∧ normalize w (43 :: rest) = some ([t], 43 :: rest) := by
  constructor
  · unfold normalize
    simp [hl, hno, stripSuffix_append, hw, hr]
  · unfold normalize
    simp [hw]

/-- on both sides of a match the licence id is looked up after `-or-later` has been stripped: ids that differ only
    by that suffix sit at the same position -/
theorem pos_orLater (w : Bytes) (h : sufOrLater.isSuffixOf w = false) : pos (w ++ sufOrLater) = pos w := by
  rcases C02.pos_ignores_orLater w with h1 | h1
  · exact h1
  · rw [h1] at h; cases h

end Spdx.C08
