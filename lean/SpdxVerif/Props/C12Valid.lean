/-
C12 (continued) — every listed license id is accepted alone; every exception id is accepted after WITH and nowhere else.
Decided by running the model's scanner and parser inside the kernel on every id of the regenerated tables
(about two minutes; re-done only when the tables or the model change).
-/
import SpdxVerif.Props.C12
namespace Spdx.C12

/-- **every listed license id is accepted as a one-term expression** -/
theorem listed_license_valid : (Tables.active ++ Tables.deprecated).all valid = true := by
  decide +kernel

def bMitWith : Bytes := [77,73,84,32,87,73,84,72,32]  -- "MIT WITH "
def bMitAnd : Bytes := [77,73,84,32,65,78,68,32]      -- "MIT AND "

/-- **every exception id is accepted after WITH and nowhere else**: not alone, not as an operand of AND,
    not in parentheses, not as the licence of a WITH -/
theorem exception_only_after_with :
    Tables.exceptions.all (fun e =>
      valid (bMitWith ++ e) && !valid e && !valid (bMitAnd ++ e) && !valid ([40] ++ e ++ [41]) &&
      !valid (e ++ [32,87,73,84,72,32] ++ e)) = true := by
  decide +kernel

end Spdx.C12
