/-
C09 — letter case of SPDX identifiers never matters; output casing is canonical.
-/
import SpdxVerif.Lemmas.Tables
import SpdxVerif.Lemmas.Scan
namespace Spdx.C09

/-- the case-insensitive lookup depends only on the lower-casing of the word -/
theorem lookup_fold (tbl : List Bytes) (w w' : Bytes) (h : lower w = lower w') : lookup tbl w = lookup tbl w' :=
  Spdx.lookup_fold tbl w w' h

/-- … and returns the table's own spelling -/
theorem lookup_canonical (tbl : List Bytes) (w c : Bytes) (h : lookup tbl w = some c) : c ∈ tbl ∧ lower c = lower w :=
  lookup_some_iff tbl w c h

theorem licenseLookup_fold (w w' : Bytes) (h : lower w = lower w') : licenseLookup w = licenseLookup w' := by
  unfold licenseLookup
  rw [Spdx.lookup_fold Tables.active w w' h, Spdx.lookup_fold Tables.exceptions w w' h]

/-! ### table obligations (kernel-decided on the regenerated tables) -/

def lowerEndsWith (suf : Bytes) (w : Bytes) : Bool := (lower suf).isSuffixOf (lower w)

/-- no deprecated id ends, in any letter case, with `-only` or `-or-later`: the suffix steps of the normalisation
    cascade can never fire for a (case variant of a) deprecated id -/
def deprecatedHaveNoSuffix : Bool :=
  Tables.deprecated.all (fun w => !lowerEndsWith sufOnly w && !lowerEndsWith sufOrLater w)

theorem deprecated_have_no_suffix : deprecatedHaveNoSuffix = true := by decide +kernel

theorem lists_fold_distinct : FoldDistinct (Tables.active ++ Tables.deprecated ++ Tables.exceptions) :=
  foldDistinct_of_check _ (by decide +kernel) (by decide +kernel)

theorem lower_append (a b : Bytes) : lower (a ++ b) = lower a ++ lower b := by simp [lower]

theorem stripSuffix_none_of_lower (w suf : Bytes) (h : lowerEndsWith suf w = false) : stripSuffix? w suf = none := by
  unfold stripSuffix?
  split
  · rename_i hs
    exfalso
    rw [List.isSuffixOf_iff_suffix] at hs
    obtain ⟨t, rfl⟩ := hs
    have : lowerEndsWith suf (t ++ suf) = true := by
      unfold lowerEndsWith
      rw [lower_append, List.isSuffixOf_iff_suffix]
      exact List.suffix_append _ _
    rw [this] at h; cases h
  · rfl

/-- **normalisation of a case variant of a listed id**: any word equal to a listed id up to letter case is
    normalised exactly like the id itself (same tokens, in the list's spelling; same remaining input) -/
theorem normalize_caseVariant (w w' rest : Bytes) (hw : w ∈ Tables.active ++ Tables.deprecated ++ Tables.exceptions)
    (h : lower w' = lower w) : normalize w' rest = normalize w rest := by
  have hll : licenseLookup w' = licenseLookup w := licenseLookup_fold w' w h
  simp only [List.mem_append] at hw
  rcases hw with (hact | hdep) | hexc
  · -- active: the first step answers
    have : lookup Tables.active w = some w :=
      lookup_listed _ (foldDistinct_append_left (foldDistinct_append_left lists_fold_distinct)) w w hact rfl
    unfold normalize
    rw [hll]
    simp [licenseLookup, this]
  · -- deprecated: no suffix step can fire, the remaining steps are lookups
    have hno := List.all_eq_true.mp deprecated_have_no_suffix w hdep
    simp only [Bool.and_eq_true, Bool.not_eq_true'] at hno
    have hlow : ∀ suf, lowerEndsWith suf w' = lowerEndsWith suf w := by intro suf; simp [lowerEndsWith, h]
    have s1 : stripSuffix? w sufOnly = none := stripSuffix_none_of_lower _ _ hno.1
    have s2 : stripSuffix? w sufOrLater = none := stripSuffix_none_of_lower _ _ hno.2
    have s1' : stripSuffix? w' sufOnly = none := stripSuffix_none_of_lower _ _ (by rw [hlow]; exact hno.1)
    have s2' : stripSuffix? w' sufOrLater = none := stripSuffix_none_of_lower _ _ (by rw [hlow]; exact hno.2)
    have h3 : licenseLookup (w' ++ sufOrLater) = licenseLookup (w ++ sufOrLater) :=
      licenseLookup_fold _ _ (by rw [lower_append, lower_append, h])
    have h5 : lookup Tables.deprecated w' = lookup Tables.deprecated w := Spdx.lookup_fold _ _ _ h
    unfold normalize
    rw [hll, s1, s2, s1', s2', h3, h5]
  · -- exception: the first step answers (active lookup fails identically for both)
    unfold normalize
    rw [hll]
    have hd := lists_fold_distinct
    have hx : lookup Tables.exceptions w = some w :=
      lookup_listed _ (foldDistinct_append_right hd) w w hexc rfl
    have ha : lookup Tables.active w = none := by
      rw [lookup_none_iff]
      intro c hc
      exact foldDistinct_cross hd c (List.mem_append.mpr (Or.inl hc)) w hexc
    simp [licenseLookup, ha, hx]

/-! ### canonical output: every id the scanner emits is spelled as in the lists -/

/-- a token whose id (if it carries a listed id) is a member of the corresponding list, i.e. spelled as in the list -/
def Listed (t : Tok) : Prop :=
  (∀ id, t = .lic id → id ∈ Tables.active ++ Tables.deprecated) ∧
  (∀ id, t = .exc id → id ∈ Tables.exceptions) ∧ (∀ id, t ≠ .docRef id) ∧ (∀ id, t ≠ .licRef id)

theorem licenseLookup_listed (x : Bytes) (t : Tok) (hx : licenseLookup x = some t) : Listed t := by
  unfold licenseLookup at hx
  split at hx
  · rename_i c hc
    simp at hx; subst hx
    have := (lookup_some_iff _ _ _ hc).1
    simp [Listed, this]
  · split at hx
    · rename_i c hc
      simp at hx; subst hx
      have := (lookup_some_iff _ _ _ hc).1
      simp [Listed, this]
    · simp at hx

/-- every license / exception token produced by the normalisation carries the list's own spelling -/
theorem normalize_tokens_listed (w rest : Bytes) (toks : List Tok) (r : Bytes) (h : normalize w rest = some (toks, r)) :
    ∀ t ∈ toks, Listed t ∨ t = .op .plus := by
  unfold normalize at h
  split at h
  · rename_i t ht; simp at h; obtain ⟨rfl, -⟩ := h
    intro t' ht'; simp at ht'; subst ht'; exact Or.inl (licenseLookup_listed _ _ ht)
  · split at h
    · rename_i t ht; simp at h; obtain ⟨rfl, -⟩ := h
      intro t' ht'; simp at ht'; subst ht'
      cases hs : stripSuffix? w sufOnly with
      | none => simp [hs] at ht
      | some v => simp [hs] at ht; exact Or.inl (licenseLookup_listed _ _ ht)
    · split at h
      · rename_i t ht; simp at h; obtain ⟨rfl, -⟩ := h
        intro t' ht'; simp at ht'; subst ht'
        split at ht
        · exact Or.inl (licenseLookup_listed _ _ ht)
        · simp at ht
      · split at h
        · rename_i t ht
          have key : ∀ t', t' ∈ [t, Tok.op Op.plus] → Listed t' ∨ t' = .op .plus := by
            intro t' ht'
            simp at ht'
            rcases ht' with rfl | rfl
            · cases hs : stripSuffix? w sufOrLater with
              | none => simp [hs] at ht
              | some v => simp [hs] at ht; exact Or.inl (licenseLookup_listed _ _ ht)
            · exact Or.inr rfl
          split at h <;> (simp at h; obtain ⟨rfl, -⟩ := h; exact key)
        · split at h
          · rename_i c hc; simp at h; obtain ⟨rfl, -⟩ := h
            intro t' ht'; simp at ht'; subst ht'
            have := (lookup_some_iff _ _ _ hc).1
            exact Or.inl (by simp [Listed, this])
          · simp at h

end Spdx.C09
