/-
C06 — ExtractLicenses returns exactly the distinct terms of the expression.
-/
import SpdxVerif.Lemmas.Flatten
import SpdxVerif.Lemmas.Match
namespace Spdx.C06

/-- what `ExtractLicenses` returns for a valid expression -/
theorem extract_eq (s : Bytes) (n : Node) (h : parse s = .ok n) :
    extract s = some (dedup [] ((expand n).flatten.map render)) := by
  simp [extract, h]

/-- without duplicates -/
theorem extract_nodup (s : Bytes) (out : List Bytes) (h : extract s = some out) : out.Nodup := by
  unfold extract at h
  cases hp : parse s with
  | error e => simp [hp] at h
  | ok n => simp [hp] at h; subst h; exact dedup_nodup _ _

/-- **no term is missing and none is invented**: the returned strings are exactly the renderings of the leaves -/
theorem extract_mem (s : Bytes) (n : Node) (out : List Bytes) (hp : parse s = .ok n) (h : extract s = some out) (x : Bytes) :
    x ∈ out ↔ ∃ t ∈ leaves n, x = render t := by
  rw [extract_eq s n hp] at h
  simp only [Option.some.injEq] at h
  subst h
  rw [dedup_mem]
  simp only [List.mem_map, List.not_mem_nil, not_false_eq_true, and_true]
  constructor
  · rintro ⟨t, ht, rfl⟩; exact ⟨t, (mem_flatten_expand n t).mp ht, rfl⟩
  · rintro ⟨t, ht, rfl⟩; exact ⟨t, (mem_flatten_expand n t).mpr ht, rfl⟩

/-- every tree is satisfied by the list of its own terms (so `Satisfies(e, ExtractLicenses(e))` holds as soon as the
    returned strings parse back to those terms — see `render_roundtrip` below) -/
theorem self_satisfies (n : Node) (A : List Node) (h : ∀ t ∈ leaves n, t ∈ A) : verdict n A = true := by
  unfold verdict
  rw [verdictBy_eq_eval]
  have hleaf : ∀ t ∈ leaves n, t.isLeaf = true := by
    intro t ht
    induction n with
    | lic => simp [leaves] at ht; subst ht; rfl
    | ref => simp [leaves] at ht; subst ht; rfl
    | and l r ihl ihr =>
      simp only [leaves, List.mem_append] at ht h
      exact ht.elim (ihl (fun t ht => h t (Or.inl ht))) (ihr (fun t ht => h t (Or.inr ht)))
    | or l r ihl ihr =>
      simp only [leaves, List.mem_append] at ht h
      exact ht.elim (ihl (fun t ht => h t (Or.inl ht))) (ihr (fun t ht => h t (Or.inr ht)))
  have key : ∀ t ∈ leaves n, coveredBy matchLeaf A t = true := by
    intro t ht
    simp only [coveredBy, List.any_eq_true]
    exact ⟨t, h t ht, matchLeaf_refl t (hleaf t ht)⟩
  clear h hleaf
  induction n with
  | lic => simp [eval, leaves] at *; exact key
  | ref => simp [eval, leaves] at *; exact key
  | and l r ihl ihr =>
    simp only [eval, leaves, List.mem_append, Bool.and_eq_true] at *
    exact ⟨ihl (fun t ht => key t (Or.inl ht)), ihr (fun t ht => key t (Or.inr ht))⟩
  | or l r ihl ihr =>
    simp only [eval, leaves, List.mem_append, Bool.or_eq_true] at *
    exact Or.inl (ihl (fun t ht => key t (Or.inl ht)))

end Spdx.C06
