/-
C06 — ExtractLicenses returns exactly the distinct terms of the expression.
-/
import SpdxVerif.Lemmas.Flatten
import SpdxVerif.Lemmas.Match
import SpdxVerif.Lemmas.AllowedList
namespace Spdx.C06

/-- what `ExtractLicenses` returns for a valid expression -/
theorem extract_eq (s : Bytes) (n : Node) (h : parse s = .ok n) :
    extract s = some (dedup [] ((expand n).flatten.map render)) := by
  simp [extract, h]

/-- without duplicates -/
theorem extract_nodup (s : Bytes) (out : List Bytes) (h : extract s = some out) : out.Nodup := by
  unfold extract at h
  cases hp : parse s with
  | error e => simp [hp] at h
  | ok n => simp [hp] at h; subst h; exact dedup_nodup _ _

/-- **no term is missing and none is invented**: the returned strings are exactly the renderings of the leaves -/
theorem extract_mem (s : Bytes) (n : Node) (out : List Bytes) (hp : parse s = .ok n) (h : extract s = some out) (x : Bytes) :
    x ∈ out ↔ ∃ t ∈ leaves n, x = render t := by
  rw [extract_eq s n hp] at h
  simp only [Option.some.injEq] at h
  subst h
  rw [dedup_mem]
  simp only [List.mem_map, List.not_mem_nil, not_false_eq_true, and_true]
  constructor
  · rintro ⟨t, ht, rfl⟩; exact ⟨t, (mem_flatten_expand n t).mp ht, rfl⟩
  · rintro ⟨t, ht, rfl⟩; exact ⟨t, (mem_flatten_expand n t).mpr ht, rfl⟩

/-- every tree is satisfied by the list of its own terms (so `Satisfies(e, ExtractLicenses(e))` holds as soon as the
    returned strings parse back to those terms — see `render_roundtrip` below) -/
theorem self_satisfies (n : Node) (A : List Node) (h : ∀ t ∈ leaves n, t ∈ A) : verdict n A = true := by
  unfold verdict
  rw [verdictBy_eq_eval]
  have hleaf : ∀ t ∈ leaves n, t.isLeaf = true := by
    intro t ht
    induction n with
    | lic => simp [leaves] at ht; subst ht; rfl
    | ref => simp [leaves] at ht; subst ht; rfl
    | and l r ihl ihr =>
      simp only [leaves, List.mem_append] at ht h
      exact ht.elim (ihl (fun t ht => h t (Or.inl ht))) (ihr (fun t ht => h t (Or.inr ht)))
    | or l r ihl ihr =>
      simp only [leaves, List.mem_append] at ht h
      exact ht.elim (ihl (fun t ht => h t (Or.inl ht))) (ihr (fun t ht => h t (Or.inr ht)))
  have key : ∀ t ∈ leaves n, coveredBy matchLeaf A t = true := by
    intro t ht
    simp only [coveredBy, List.any_eq_true]
    exact ⟨t, h t ht, matchLeaf_refl t (hleaf t ht)⟩
  clear h hleaf
  induction n with
  | lic => simp [eval, leaves] at *; exact key
  | ref => simp [eval, leaves] at *; exact key
  | and l r ihl ihr =>
    simp only [eval, leaves, List.mem_append, Bool.and_eq_true] at *
    exact ⟨ihl (fun t ht => key t (Or.inl ht)), ihr (fun t ht => key t (Or.inr ht))⟩
  | or l r ihl ihr =>
    simp only [eval, leaves, List.mem_append, Bool.or_eq_true] at *
    exact Or.inl (ihl (fun t ht => key t (Or.inl ht)))

/-- **round trip**: the canonical text of every term of every valid expression is itself a valid expression that parses
    back to that very term (scanner + normalisation cascade + parser, for all byte strings; relative to the shipped tables
    through the obligations `lists_fold_distinct`, `deprecated_have_no_suffix`, `listed_foldClean`) -/
theorem render_roundtrip (s : Bytes) (n l : Node) (hp : parse s = .ok n) (hl : l ∈ leaves n) : parse (render l) = .ok l :=
  parse_render l (parse_leavesOK s n hp l hl) (leaves_isLeaf n l hl)

/-- **every returned string is itself a valid single-term expression that extracts to itself** -/
theorem extract_self (s : Bytes) (out : List Bytes) (x : Bytes) (h : extract s = some out) (hx : x ∈ out) :
    valid x = true ∧ extract x = some [x] := by
  cases hp : parse s with
  | error e => simp [extract, hp] at h
  | ok n =>
    obtain ⟨t, ht, rfl⟩ := (extract_mem s n out hp h x).mp hx
    have hr := render_roundtrip s n t hp ht
    have hleaf := leaves_isLeaf n t ht
    refine ⟨by simp [valid, hr], ?_⟩
    simp only [extract, hr, expand, hleaf, ↓reduceIte]
    simp [dedup]

/-- **using the returned list as the allowed list always satisfies the expression** -/
theorem satisfies_own_terms (s : Bytes) (out : List Bytes) (h : extract s = some out) : satisfies s out = .ok true := by
  cases hp : parse s with
  | error e => simp [extract, hp] at h
  | ok n =>
    have hmem := extract_mem s n out hp h
    -- every returned string denotes the term it renders
    have hden : ∀ x ∈ out, ∃ t ∈ leaves n, x = render t ∧ leafOf x = some t := by
      intro x hx
      obtain ⟨t, ht, rfl⟩ := (hmem x).mp hx
      refine ⟨t, ht, rfl, ?_⟩
      simp [leafOf, render_roundtrip s n t hp ht, leaves_isLeaf n t ht]
    obtain ⟨A, hA⟩ := (toNodes_ok_iff_all out).mpr (fun x hx => by
      obtain ⟨t, _, _, ht⟩ := hden x hx; rw [ht]; rfl)
    have hne : out ≠ [] := by
      obtain ⟨t, ht⟩ := exists_leaf n
      intro he
      have := (hmem (render t)).mpr ⟨t, ht, rfl⟩
      rw [he] at this; cases this
    have hall : ∀ t ∈ leaves n, t ∈ sortAndDedupArray A := by
      intro t ht
      rw [sortAndDedupArray_mem A (toNodes_leafOK hA)]
      rw [toNodes_mem hA]
      have hx := (hmem (render t)).mpr ⟨t, ht, rfl⟩
      obtain ⟨t', ht', hr, hl⟩ := hden _ hx
      refine ⟨render t, hx, ?_⟩
      simp [leafOf, render_roundtrip s n t hp ht, leaves_isLeaf n t ht]
    unfold satisfies
    rw [hp]
    cases out with
    | nil => exact absurd rfl hne
    | cons x xs =>
      simp only [List.isEmpty_cons, Bool.false_eq_true, ↓reduceIte, hA]
      rw [self_satisfies n _ hall]

end Spdx.C06
