/-
C13 — calls are pure: no argument mutation, no history, safe under concurrency.

What Lean carries: (1) the premises — closed facts about the regenerated syntactic census of the source, decided by the
kernel; (2) a generic theorem: workers that only READ a shared store and write worker-local state compute, under every
schedule, exactly what they compute alone, and the store is unchanged; (3) the model's API functions are functions of
their arguments.  What it cannot carry (Go memory model, soundness of the syntactic census) is named in DESIGN.md and
covered dynamically by the harness (race detector, shuffled histories, argument snapshots, redirected stdout).
-/
import SpdxVerif.Spec.Census
namespace Spdx.C13

/-! ### (1) premises, from the census of the tree under check -/
theorem no_shared_mutable_state : noSharedMutableState = true := by decide +kernel
theorem no_concurrency_primitives : noConcurrencyPrimitives = true := by decide +kernel
theorem no_output : noOutput = true := by decide +kernel
theorem caller_slices_untouched : callerSlicesUntouched = true := by decide +kernel

/-! ### (2) schedule independence for read-only sharing -/

/-- a worker: its local state evolves by a step function that may read the shared store -/
structure System (Store Local : Type) where
  step : Store → Local → Local

variable {Store Local : Type}

/-- run a schedule (a list of worker indices); an out-of-range index is a no-op -/
def run (sys : System Store Local) (store : Store) : List Nat → List Local → List Local
  | [], ls => ls
  | i :: sched, ls => run sys store sched (ls.modify i (sys.step store))

def iter (f : Local → Local) : Nat → Local → Local
  | 0, x => x
  | n+1, x => iter f n (f x)

theorem run_length (sys : System Store Local) (store : Store) (sched : List Nat) (ls : List Local) :
    (run sys store sched ls).length = ls.length := by
  induction sched generalizing ls with
  | nil => rfl
  | cons i s ih => simp [run, ih]

/-- **schedule independence**: after ANY schedule, worker `i` is in the state it reaches by running alone for as many
    steps as the schedule gave it; the shared store is never written (it is not part of the evolving state at all) -/
theorem schedule_independent (sys : System Store Local) (store : Store) (sched : List Nat) (ls : List Local) (i : Nat) :
    (run sys store sched ls)[i]? = (ls[i]?).map (iter (sys.step store) (sched.count i)) := by
  induction sched generalizing ls with
  | nil => cases h : ls[i]? <;> simp [run, iter, h]
  | cons j s ih =>
    simp only [run]
    rw [ih]
    by_cases hij : j = i
    · subst hij
      simp only [List.count_cons_self]
      cases h : ls[j]? with
      | none => simp [List.getElem?_modify, h]
      | some x => simp [List.getElem?_modify, h, iter]
    · have : (j == i) = false := by simpa using hij
      simp [List.count_cons, this, List.getElem?_modify, hij]

/-- two schedules that give every worker the same number of steps end in the same state -/
theorem schedules_agree (sys : System Store Local) (store : Store) (s₁ s₂ : List Nat) (ls : List Local)
    (h : ∀ i, s₁.count i = s₂.count i) : run sys store s₁ ls = run sys store s₂ ls := by
  apply List.ext_getElem?
  intro i
  rw [schedule_independent, schedule_independent, h]

/-! ### (3) the model's entry points are functions of their arguments: equal arguments, equal results, whatever
    was computed before (there is no state to carry) -/
theorem satisfies_deterministic (e e' : Bytes) (l l' : List Bytes) (he : e = e') (hl : l = l') :
    satisfies e l = satisfies e' l' := by subst he; subst hl; rfl
theorem extract_deterministic (e e' : Bytes) (he : e = e') : extract e = extract e' := by subst he; rfl
theorem validate_deterministic (l l' : List Bytes) (hl : l = l') : validate l = validate l' := by subst hl; rfl

/-- non-vacuity: three workers, an interleaved schedule -/
example : run ⟨fun (s : Nat) (x : Nat) => x + s⟩ 5 [0, 2, 1, 0, 2, 2] [10, 20, 30] = [20, 25, 45] := by decide

end Spdx.C13
