/-
C04 — one notion of validity: errors are returned exactly for invalid input.
-/
import SpdxVerif.Spec.Eval
namespace Spdx.C04

/-- a compound (AND/OR) expression -/
def compound (s : Bytes) : Bool := match parse s with | .ok n => !n.isLeaf | .error _ => false

theorem valid_iff (s : Bytes) : valid s = true ↔ ∃ n, parse s = .ok n := by
  unfold valid; cases parse s <;> simp

/-- `ValidateLicenses` returns exactly the invalid elements, in order and with multiplicity,
    and `true` iff there are none -/
theorem validate_spec (L : List Bytes) :
    validate L = ((L.filter (fun s => !valid s)).isEmpty, L.filter (fun s => !valid s)) := rfl

theorem validate_true_iff (L : List Bytes) : (validate L).1 = true ↔ ∀ s ∈ L, valid s = true := by
  simp [validate, List.filter_eq_nil_iff]

theorem validate_mem (L : List Bytes) (s : Bytes) : s ∈ (validate L).2 ↔ s ∈ L ∧ valid s = false := by
  simp [validate]

theorem validate_sublist (L : List Bytes) : (validate L).2.Sublist L := by
  simp [validate]

/-- `ExtractLicenses` errs iff its argument is invalid -/
theorem extract_err_iff (s : Bytes) : extract s = none ↔ valid s = false := by
  unfold extract valid; cases parse s <;> simp

theorem single_iff (x : Bytes) :
    (valid x = true ∧ compound x = false) ↔ ∃ n, parse x = .ok n ∧ n.isLeaf = true := by
  unfold valid compound; cases parse x <;> simp

/-- `stringsToNodes` succeeds iff every entry is a valid single term -/
theorem toNodes_ok_iff (L : List Bytes) :
    (∃ A, toNodes L = .ok A) ↔ ∀ x ∈ L, valid x = true ∧ compound x = false := by
  induction L with
  | nil => simp [toNodes]
  | cons x xs ih =>
    simp only [List.mem_cons, forall_eq_or_imp]
    rw [← ih, single_iff x]
    simp only [toNodes]
    cases hp : parse x with
    | error e => simp
    | ok n => cases hl : n.isLeaf <;> cases toNodes xs <;> simp [Except.map, hl]

/-- `Satisfies` errs iff the expression is invalid, the allowed list is empty, or some allowed entry is invalid
    or is a compound expression -/
theorem satisfies_err_iff (e : Bytes) (L : List Bytes) :
    (∃ err, satisfies e L = .error err) ↔
      valid e = false ∨ L = [] ∨ ∃ x ∈ L, valid x = false ∨ compound x = true := by
  unfold satisfies
  cases hp : parse e with
  | error err => simp [valid, hp]
  | ok n =>
    have hv : valid e = true := by simp [valid, hp]
    simp only [hv, Bool.true_eq_false, false_or]
    cases L with
    | nil => simp
    | cons x xs =>
      simp only [List.isEmpty_cons, Bool.false_eq_true, ↓reduceIte, reduceCtorEq, false_or]
      have h := toNodes_ok_iff (x :: xs)
      cases ht : toNodes (x :: xs) with
      | ok A =>
        simp only [reduceCtorEq, exists_false, false_iff, not_exists, not_and, not_or]
        have := h.mp ⟨A, ht⟩
        intro y hy
        have := this y hy
        simp_all
      | error err =>
        simp only [Except.error.injEq, exists_eq', true_iff]
        have : ¬ ∀ y ∈ x :: xs, valid y = true ∧ compound y = false := by
          intro hall
          obtain ⟨A, hA⟩ := h.mpr hall
          rw [hA] at ht; cases ht
        simp only [Classical.not_forall, Classical.not_imp] at this
        obtain ⟨y, hy, hn⟩ := this
        refine ⟨y, hy, ?_⟩
        cases hvy : valid y <;> cases hcy : compound y <;> simp_all

/-- valid input never produces an error -/
theorem satisfies_ok_of_valid (e : Bytes) (L : List Bytes)
    (he : valid e = true) (hL : L ≠ []) (hall : ∀ x ∈ L, valid x = true ∧ compound x = false) :
    ∃ b, satisfies e L = .ok b := by
  cases h : satisfies e L with
  | ok b => exact ⟨b, rfl⟩
  | error err =>
    have := (satisfies_err_iff e L).mp ⟨err, h⟩
    rcases this with h1 | h1 | ⟨x, hx, h1⟩
    · simp [he] at h1
    · exact absurd h1 hL
    · have := hall x hx; rcases h1 with h1 | h1 <;> simp_all

/-- the model has exactly the outcomes "result" and "error": whenever an error is returned there is no result
    (the Go functions return `false` / `nil` beside every error; that part is the correspondence's) -/
theorem extract_total (s : Bytes) : (∃ l, extract s = some l) ∨ extract s = none := by
  cases extract s <;> simp

end Spdx.C04
