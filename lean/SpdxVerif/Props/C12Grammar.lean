/-
C12 (grammar level) — "every exception id is accepted after WITH and nowhere else", for ALL grammatical token sequences:
in any sequence that derives from the grammar an exception token stands directly after the `WITH` operator, and
an exception word is always scanned to an exception token (never to a licence token).
-/
import SpdxVerif.Spec.Grammar
import SpdxVerif.Lemmas.Lexeme
import SpdxVerif.Lemmas.ParseString
import SpdxVerif.Lemmas.Grammar
namespace Spdx.C12

/-- every exception token of the list is directly preceded by `WITH` (`prev` = the token before the list) -/
def excGuard : Option Tok → List Tok → Bool
  | _, [] => true
  | prev, .exc e :: r => (match prev with | some (.op .with_) => true | _ => false) && excGuard (some (.exc e)) r
  | _, t :: r => excGuard (some t) r

def lastOr : Option Tok → List Tok → Option Tok
  | prev, [] => prev
  | _, t :: r => lastOr (some t) r

theorem excGuard_append (prev : Option Tok) (a b : List Tok) :
    excGuard prev (a ++ b) = (excGuard prev a && excGuard (lastOr prev a) b) := by
  induction a generalizing prev with
  | nil => simp [excGuard, lastOr]
  | cons t a ih =>
    cases t with
    | exc e =>
      simp only [List.cons_append, excGuard, ih, lastOr]
      cases prev with
      | none => simp
      | some p => cases p <;> simp [Bool.and_assoc]
    | op o => simp only [List.cons_append, excGuard, ih, lastOr]
    | lic c => simp only [List.cons_append, excGuard, ih, lastOr]
    | docRef c => simp only [List.cons_append, excGuard, ih, lastOr]
    | licRef c => simp only [List.cons_append, excGuard, ih, lastOr]

theorem D_head_not_exc {lv : Lvl} {ts : List Tok} {n : Node} (h : D lv ts n) : ∀ e, ts.head? ≠ some (.exc e) := by
  induction h with
  | ref0 | ref1 | lic | licP | licW | licPW => intro e; simp
  | paren _ _ => intro e; simp
  | and1 _ ih => exact ih
  | or1 _ ih => exact ih
  | @andC a b _ _ ha _ iha _ =>
    intro e
    have := D_len_pos' ha
    cases a with
    | nil => simp at this
    | cons x xs => simpa using iha e
  | @orC a b _ _ ha _ iha _ =>
    intro e
    have := D_len_pos' ha
    cases a with
    | nil => simp at this
    | cons x xs => simpa using iha e
where
  D_len_pos' {lv : Lvl} {ts : List Tok} {n : Node} (h : D lv ts n) : 0 < ts.length := by
    induction h <;> simp_all <;> omega

/-- **in every grammatical token sequence, each exception token stands directly after WITH** -/
theorem exception_only_after_with_grammar {lv : Lvl} {ts : List Tok} {n : Node} (h : D lv ts n) :
    ∀ prev, excGuard prev ts = true := by
  induction h with
  | ref0 | ref1 | lic | licP => intro prev; simp [excGuard]
  | licW id e => intro prev; simp [excGuard]
  | licPW id e => intro prev; simp [excGuard]
  | paren _ ih =>
    intro prev
    show excGuard (some (.op .lparen)) (_ ++ [.op .rparen]) = true
    rw [excGuard_append, ih]; rfl
  | and1 _ ih => exact ih
  | or1 _ ih => exact ih
  | andC _ _ iha ihb =>
    intro prev
    rw [excGuard_append, iha]
    simp only [Bool.true_and, excGuard]
    exact ihb _
  | orC _ _ iha ihb =>
    intro prev
    rw [excGuard_append, iha]
    simp only [Bool.true_and, excGuard]
    exact ihb _

/-- an exception id (in any letter case) is never read as a licence: the scanner gives it the exception role -/
theorem exception_word_is_exception_token (x : Bytes) (hx : x ∈ Tables.exceptions) (np : Bool) :
    normCore x np = some ([.exc x], false) := normCore_exception hx np

end Spdx.C12

namespace Spdx.C12

/-- **string level**: in every valid expression, every exception token the scanner produces stands directly after `WITH` -/
theorem valid_exception_only_after_with (s : Bytes) (ts : List Tok) (h : toks s = some ts) (hv : valid s = true) :
    excGuard none ts = true := by
  obtain ⟨ts', n, h1, h2⟩ := (valid_iff_toks s).mp hv
  rw [h] at h1
  simp only [Option.some.injEq] at h1
  subst h1
  exact exception_only_after_with_grammar ((parseTokens_iff _ _).mp h2) none

end Spdx.C12
