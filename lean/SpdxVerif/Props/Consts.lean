/-
Props/Consts — the literals the model is written with ARE the literals of the source.

`Gen/Consts.lean` is regenerated on every run by `harness/cmd/gen` (a `go/ast` walk over the non-test files of package
spdxexp): for every function, its string / char literals and its integer literals in source order.  The obligations
below compare, inside the kernel, the constants that the hand-written model uses (`opTable`, `docRefPrefix`,
`licRefPrefix`, `sufOnly`, `sufOrLater`, `bPlus`, `bWith`, `bColon`, the two regular-expression classes, the slice
offsets of the `-or-later` rewrite) with what the tree under check says.  Error-message texts are deliberately not
pinned (re-wording a message is harmless): a literal that contains a space and is at least ten bytes long is a message.

A change of operator order, of a prefix, of a suffix, of a regular expression or of a slice offset therefore breaks an
obligation here (and normally the correspondence as well, which then supplies the failing input).
-/
import SpdxVerif.Spec.Consts
namespace Spdx.ConstsPin

/-! ### scanner (C05, C09, C15) -/

/-- `readOperator`: the operator list **in its order** is the model's `opTable`; the remaining two literals are the
    `+` / preceding-space look-behind -/
theorem readOperator_literals :
    fnHasLits "expressionStream.readOperator" (opTable.map (·.1) ++ [bPlus, [32]]) = true := by decide +kernel
/-- … which reads `expression[index-2:index-1]` after `index > 1` -/
theorem readOperator_ints : fnHasInts "expressionStream.readOperator" (opTable.map (·.1) ++ [bPlus, [32]]) [0, 0, 1, 2, 1] = true := by decide +kernel
theorem readDocumentRef_literals : fnHasLits "expressionStream.readDocumentRef" [docRefPrefix] = true := by decide +kernel
theorem readLicenseRef_literals : fnHasLits "expressionStream.readLicenseRef" [licRefPrefix] = true := by decide +kernel
/-- the id class `[A-Za-z0-9-.]+` is what `isIdChar` decides … -/
theorem readID_literals : fnHasLits "expressionStream.readID" [str "[A-Za-z0-9-.]+", []] = true := by decide +kernel
theorem isIdChar_is_the_class :
    (List.range 256).all (fun c => isIdChar c ==
      ((str "ABCDEFGHIJKLMNOPQRSTUVWXYZabcdefghijklmnopqrstuvwxyz0123456789-.").any (Nat.beq c))) = true := by decide +kernel
/-- … and whitespace is `[ ]*`: the space character only -/
theorem skipWhitespace_literals : fnHasLits "expressionStream.skipWhitespace" [str "[ ]*"] = true := by decide +kernel
/-- `normalizeLicense`: `-only`, `+` → `-or-later`, `-or-later` → `+` rewrite, with the slice offsets 5 and 9 -/
theorem normalizeLicense_literals :
    fnHasLits "expressionStream.normalizeLicense" [sufOnly, bPlus, sufOrLater, sufOrLater, sufOrLater, bPlus, bPlus, sufOrLater] = true := by decide +kernel
theorem normalizeLicense_ints :
    fnHasInts "expressionStream.normalizeLicense" [sufOnly, bPlus, sufOrLater, sufOrLater, sufOrLater, bPlus, bPlus, sufOrLater] [0, sufOnly.length, 1, 0, 0, sufOrLater.length, 0] = true := by
  decide +kernel

/-! ### parser (C05) -/
theorem parseLicense_literals : fnHasLits "tokenStream.parseLicense" [[], sufOrLater, bPlus] = true := by decide +kernel
theorem parseWith_literals : fnHasLits "tokenStream.parseWith" [str "WITH"] = true := by decide +kernel
theorem parseLicenseRef_literals : fnHasLits "tokenStream.parseLicenseRef" [[], [], bColon] = true := by decide +kernel
theorem parseParen_literals :
    fnHasLits "tokenStream.parseParenthesizedExpression" [[40], [41]] = true := by decide +kernel
theorem parseAnd_literals : fnHasLits "tokenStream.parseAnd" [str "AND", str "and"] = true := by decide +kernel
theorem parseExpression_literals : fnHasLits "tokenStream.parseExpression" [str "OR"] = true := by decide +kernel
/-- the three tokens that may not start an atom -/
theorem parseAtom_literals : fnHasLits "tokenStream.parseAtom" [[41], str "OR", str "AND"] = true := by decide +kernel
theorem isAnd_literals : fnHasLits "node.isAndExpression" [str "and"] = true := by decide +kernel
theorem isOr_literals : fnHasLits "node.isOrExpression" [str "or"] = true := by decide +kernel

/-! ### matching and rendering (C02, C06, C08) -/
theorem simplifyLicense_literals : fnHasLits "simplifyLicense" [sufOrLater] = true := by decide +kernel
/-- canonical term text: `id [+] [ WITH exc]`, `[DocumentRef-d:]LicenseRef-r` -/
theorem reconstructed_literals :
    fnHasLits "node.reconstructedLicenseString" [bPlus, bWith, licRefPrefix, docRefPrefix, bColon] = true := by
  decide +kernel

/-! ### expansion (C01, C10, C14) -/
/-- `appendTerms` iff `len(left) > 1 || len(right) > 1` -/
theorem expandAnd_ints : fnHasInts "node.expandAnd" [] [1, 1] = true := by decide +kernel

end Spdx.ConstsPin
