/-
C03 — no argument can make the library panic.  (first version: inventory of partial operations; the Go-shaped
model with explicit panics follows in Model/GoShaped.lean)
-/
import SpdxVerif.Spec.Census
namespace Spdx.C03

/-- the model's entry points are total functions: every argument yields a result or an error value -/
theorem api_total (e : Bytes) (l : List Bytes) :
    (∃ b, satisfies e l = .ok b) ∨ (∃ err, satisfies e l = .error err) := by
  cases satisfies e l <;> simp

end Spdx.C03
