/-
C03 — no argument can make the library panic.

Layer G (Model/GoShaped.lean) transliterates the token cursor and the recursive-descent parser with the two partial
operations of that code made explicit: slice indexing `t.tokens[t.index]` and the field access through the possibly-nil
pointer that `peek()` returns.  The theorems say that, with the guards written where the source has them, `panic` is
unreachable for EVERY token sequence and every byte string.  The tie to the source is (i) the driver's `Q` operation
(outcome class of this model vs the implementation on the systematic malformed stream) and (ii) the census of partial
operations regenerated from the source on every run, compared below with the inventory this file accounts for.
-/
import SpdxVerif.Lemmas.GoShaped
import SpdxVerif.Lemmas.GoScan
import SpdxVerif.Lemmas.GoDeref
import SpdxVerif.Lemmas.GoSlices
import SpdxVerif.Lemmas.GoScanRefine
import SpdxVerif.Lemmas.GoParseRefine
import SpdxVerif.Spec.Census
namespace Spdx.C03

/-- the Go-shaped parser returns normally on every token sequence -/
theorem g_parseTokens_never_panics (toks : List Tok) : G.parseTokens toks ≠ .panic := by
  obtain ⟨r, h⟩ := G.parseTokens_ok toks
  rw [h]; intro hc; cases hc

/-- … and so does the whole Go-shaped `parse`, on every byte string -/
theorem g_parse_never_panics (s : Bytes) : G.parse s ≠ .panic := by
  obtain ⟨r, h⟩ := G.parse_ok s
  rw [h]; intro hc; cases hc

/-- the Go-shaped SCANNER (private buffer, integer cursor, `expression[index-2:index-1]` look-behind, the six slice
    expressions of `normalizeLicense` including the buffer rewrite) returns normally on every byte string -/
theorem g_scan_never_panics (s : Bytes) : G.scanG s ≠ .panic := by
  obtain ⟨r, h⟩ := G.scanG_ok s
  rw [h]; intro hc; cases hc

/-- … and so does the whole Go-shaped `parse`: scanner + token cursor + parser -/
theorem g_parse_full_never_panics (s : Bytes) : G.parseG s ≠ .panic := by
  obtain ⟨r, h⟩ := G.parseG_ok s
  rw [h]; intro hc; cases hc

/-- behind the parser: `reconstructedLicenseString()` returns nil for expression nodes and is dereferenced without a check by
    `ExtractLicenses`, `sortAndDedup`, `deepSort` and `sortLicenses`; only terms ever reach those dereferences -/
theorem g_extract_never_derefs_nil (s : Bytes) (n : Node) (_h : parse s = .ok n) : G.extractG n ≠ .panic := by
  rw [G.extractG_ok]; intro hc; cases hc

theorem g_satisfies_never_derefs_nil (e : Bytes) (L : List Bytes) (n : Node) (A : List Node)
    (_he : parse e = .ok n) (hA : toNodes L = .ok A) : G.satisfiesKeysG n A ≠ .panic := by
  rw [G.satisfiesKeysG_ok n L A hA]; intro hc; cases hc

/-- … and the dereference IS a panic on an expression node (the layer can express the defect) -/
example : (match G.renderG (.and (.lic [77,73,84] false none) (.lic [73,83,67] false none)) with | .panic => true | .ok _ => false) = true := by
  decide

/-- each cursor-reading helper on its own, for every cursor position (including past the end) -/
theorem g_helpers_never_panic (t : G.TS) (o : Op) :
    G.parseOperator o t ≠ .panic ∧ G.parseWith t ≠ .panic ∧ G.parseLicense t ≠ .panic ∧ G.parseLicenseRef t ≠ .panic := by
  obtain ⟨_, h1⟩ := G.parseOperator_ok o t
  obtain ⟨_, h2⟩ := G.parseWith_ok t
  obtain ⟨_, h3⟩ := G.parseLicense_ok t
  obtain ⟨_, h4⟩ := G.parseLicenseRef_ok t
  rw [h1, h2, h3, h4]
  refine ⟨?_, ?_, ?_, ?_⟩ <;> (intro h; cases h)

/-- the model's entry points are total functions: every argument yields a result or an error value -/
theorem api_total (e : Bytes) (l : List Bytes) :
    (∃ b, satisfies e l = .ok b) ∨ (∃ err, satisfies e l = .error err) := by
  cases satisfies e l <;> simp

/-! ### the layer can express the defect: without the nil guard, the end of the token stream IS a panic -/

/-- `parseOperator` as it was before the repair: `token.role` read without `token != nil` -/
def parseOperatorUnguarded (o : Op) (t : G.TS) : G.Out (Bool × G.TS) :=
  (G.peek t).bind fun tok => (G.deref tok).bind fun x => if x = .op o then .ok (true, G.next t) else .ok (false, t)

example : (match parseOperatorUnguarded .lparen ⟨[], 0, false⟩ with | .panic => true | .ok _ => false) = true := by decide
example : (match G.parseOperator .lparen ⟨[], 0, false⟩ with | .panic => true | .ok _ => false) = false := by decide
-- "(" : the unrepaired parser read past the end here
example : (match G.parse [40] with | .ok none => true | _ => false) = true := by decide +kernel
-- "MIT WITH", "DocumentRef-a", "DocumentRef-a:"
example : (match G.parse [77,73,84,32,87,73,84,72] with | .ok none => true | _ => false) = true := by decide +kernel
example : (match G.parse [68,111,99,117,109,101,110,116,82,101,102,45,97] with | .ok none => true | _ => false) = true := by decide +kernel
example : (match G.parse [68,111,99,117,109,101,110,116,82,101,102,45,97,58] with | .ok none => true | _ => false) = true := by decide +kernel

-- the look-behind without its `index > 1` guard: `"+"` at offset 0 would read `expression[-1:0]`
example : (match G.sl [43] ((1 : Int) - 2) ((1 : Int) - 1) with | .panic => true | .ok _ => false) = true := by decide
-- the rewrite's `expression[0:index-9]` is safe only because the word just read ends at the cursor
example : (match G.sl [45,111,114] 0 ((3 : Int) - 9) with | .panic => true | .ok _ => false) = true := by decide
-- the Go-shaped pipeline on texts that exercise the rewrite and the look-behind
example : (match G.parseG (str "Apache-2.0-or-later+ AND (MIT +)") with | .ok none => true | _ => false) = true := by decide +kernel
example : (match G.parseG (str "(Apache-2.0-or-later) AND MIT") with | .ok (some _) => true | _ => false) = true := by decide +kernel

/-! ### the Go-shaped scanner refines the scanner of the main model -/

/-- **refinement**: private buffer, integer cursor, the `-or-later` buffer rewrite
    (`expression[0:index-9] + "+" + TrimPrefix(expression[index:], "+")`, `index -= 9`) and the one-byte look-behind for `+`
    yield, on EVERY byte string, exactly the token sequence of the suffix-based scanner that all other theorems are about
    (`none` = an error was returned) -/
theorem g_scan_refines (s : Bytes) : G.scanG s = .ok (toks s) := G.scanG_eq s

/-- hence the fully Go-shaped `parse` is the Go-shaped parser run on the main model's tokens -/
theorem g_parseG_eq_parse (s : Bytes) : G.parseG s = G.parse s := by
  unfold G.parseG G.parse
  split
  · rfl
  · rw [G.scanG_eq s]
    simp only [G.bind_ok, toks]
    cases scan s <;> rfl

/-- **refinement**: the Go-shaped parser (token cursor, `peek` returning a nil-able pointer, `next`, the error flag, the
    diagnostics that only choose an error text) accepts exactly the documented grammar … -/
theorem g_parseTokens_iff_grammar (ts : List Tok) (n : Node) : G.parseTokens ts = .ok (some n) ↔ D .expr ts n :=
  G.parseTokens_G_iff ts n

/-- … and therefore computes what the list-based parser of the main model computes -/
theorem g_parseTokens_refines (ts : List Tok) : G.parseTokens ts = .ok (parseTokens ts) := G.parseTokens_G_eq ts

/-- **the whole Go-shaped `parse` = the main model's `parse`** (scanner with buffer rewrite + cursor parser), for every
    byte string: all string-level theorems of C01–C12 and C15 about `parse` hold of the transliteration of the Go code -/
theorem g_parse_refines (s : Bytes) :
    G.parseG s = .ok (match parse s with | .ok n => some n | .error _ => none) := by
  unfold G.parseG parse
  split
  · rfl
  · rw [G.scanG_eq s]
    simp only [G.bind_ok, toks]
    cases scan s with
    | error e => rfl
    | ok ts =>
      simp only [Except.toOption]
      rw [G.parseTokens_G_eq ts]
      cases parseTokens ts <;> rfl

/-! ### the index and slice expressions behind the parser (satisfies.go), Go-shaped (Model/GoSlices.lean) -/

/-- `sortAndDedup`: `nodes[curr-1]`, `nodes[curr]`, `nodes[prev] = …`, `nodes[:prev]` and the dereferenced strings — no
    allowed list that `stringsToNodes` lets through (terms only, any length, any repeats) makes it panic -/
theorem g_sortAndDedup_never_panics (L : List Bytes) (A : List Node) (hA : toNodes L = .ok A) : G.sortAndDedupG A ≠ .panic := by
  obtain ⟨arr, front, h, _⟩ := G.sortAndDedupG_ok A (fun x hx => (toNodes_leafOK hA x hx).2)
  rw [h]; intro hc; cases hc

/-- … and the array it leaves behind is the one the main model's `Satisfies` searches (refinement of `sortAndDedupArray`) -/
theorem g_sortAndDedup_refines (L : List Bytes) (A : List Node) (hA : toNodes L = .ok A) :
    ∃ front, G.sortAndDedupG A = .ok (sortAndDedupArray A, front) :=
  G.sortAndDedupG_eq A (fun x hx => (toNodes_leafOK hA x hx).2)

/-- the comparator of `deepSort`'s outer sort, on any two alternatives of any expansion: `nodes2d[i][k]` is read only for
    `k < len(nodes2d[i])`, and the result is the model's element-wise order -/
theorem g_deepSort_comparator (a b : List Node) (hla : ∀ x ∈ a, x.isLeaf = true) (hlb : ∀ x ∈ b, x.isLeaf = true) :
    G.lessG b.length a b 0 = .ok (listLt (a.map render) (b.map render)) := by
  have := G.lessG_ok b.length a b 0 hla hlb (by omega)
  simpa using this

theorem g_deepSort_comparator_never_panics (a b : List Node)
    (hla : ∀ x ∈ a, x.isLeaf = true) (hlb : ∀ x ∈ b, x.isLeaf = true) : G.lessG b.length a b 0 ≠ .panic := by
  rw [G.lessG_ok b.length a b 0 hla hlb (by omega)]; intro hc; cases hc

theorem g_deepSort_guard_never_panics (ll : List (List Node)) : G.deepSortGuardG ll ≠ .panic := by
  obtain ⟨b, h⟩ := G.deepSortGuardG_ok ll
  rw [h]; intro hc; cases hc

/-- `mergeTerms`: `results[j] = append(l, r...)` stays inside `results`, and the result is the model's `mergeTerms` -/
theorem g_mergeTerms_refines (L R : List (List Node)) : G.mergeTermsG L R = .ok (mergeTerms L R) := G.mergeTermsG_ok L R

/-- `stringsToNodes`: `nodes[i] = node` for `i` over `range licenses` into `make([]*node, len(licenses))` -/
theorem g_stringsToNodes_fill_never_panics {α} (xs : List α) : G.fillG xs.length (List.replicate xs.length none) xs 0 ≠ .panic := by
  obtain ⟨out, h, _⟩ := G.fillG_ok xs.length (List.replicate xs.length none) xs 0 (by simp)
  rw [h]; intro hc; cases hc

-- the layer expresses the defects: an index at the length, a write at the length, a slice beyond the length are panics
example : (match G.idx [1, 2] 2 with | .panic => true | .ok _ => false) = true := by decide
example : (match G.setIdx [1] 1 0 with | .panic => true | .ok _ => false) = true := by decide
example : (match G.slicePrefix [1, 2] 3 with | .panic => true | .ok _ => false) = true := by decide
-- … and the comparator without its `k >= len(nodes2d[i])` test would index past the shorter alternative
example : (match G.idx ([] : List Node) 0 with | .panic => true | .ok _ => false) = true := by decide
-- a concrete allowed list with repeats: the loop runs, compacts and slices
example : (match G.sortAndDedupG [.lic [77,73,84] false none, .lic [73,83,67] false none, .lic [77,73,84] false none] with
    | .ok (arr, front) => arr.length == 3 && front.length == 2 | .panic => false) = true := by decide +kernel

/-! ### inventory of partial operations in the source (regenerated census) -/

def name (s : String) : Bytes := s.toUTF8.toList.map (·.toNat)

/-- functions of package spdxexp that contain an index expression, with the number of such expressions.
    Each is accounted for: `peek` (guarded by `hasMore`, layer G); map reads/writes in `sameLicenseGroup`,
    `compareGT/LT/EQ`, `removeDuplicateStrings` (never panic); `nodes[i]`/`nodes2d[i][k]` inside sort comparators
    (indices supplied by `sort.Slice`, `k` guarded against `len(nodes2d[i])`); `stringsToNodes` (`nodes[i]`, `i` from
    `range`); `mergeTerms` / `sortAndDedup` (loop-bounded indices); `parseToken` (dead branch); `readRegex`
    (`i[0]`, `i[1]` of a non-nil match). -/
def indexSites : List (Bytes × Nat) :=
  (Census.partialOps.filter (fun p => !Nat.beq p.2.2.1 0)).map (fun p => (p.2.1, p.2.2.1))

/-- … and the functions that contain a slice expression (all guarded: `exp.index > 1`, `hasMore()`, `HasSuffix`). -/
def sliceSites : List (Bytes × Nat) :=
  (Census.partialOps.filter (fun p => !Nat.beq p.2.2.2.1 0)).map (fun p => (p.2.1, p.2.2.2.1))

def typeAssertsAndDivisions : Nat :=
  (Census.partialOps.map (fun p => p.2.2.2.2.2.1 + p.2.2.2.2.2.2)).sum

/-- every site of the source is accounted for: each function that contains such expressions is listed, with at least as many
    of them (a function that LOSES an index or slice expression needs no new argument; one that gains one does) -/
def sitesCovered (actual expected : List (Bytes × Nat)) : Bool :=
  actual.all (fun a => expected.any (fun e => beqBytes a.1 e.1 && Nat.ble a.2 e.2))

def beqSites (actual expected : List (Bytes × Nat)) : Bool := sitesCovered actual expected

/-- the index expressions of the source are among the ones accounted for above: a new `x[i]` anywhere in the package
    breaks this obligation until it has been looked at -/
theorem index_sites_accounted : beqSites indexSites
    [([99,111,109,112,97,114,101,71,84], 2), ([99,111,109,112,97,114,101,76,84], 2), ([99,111,109,112,97,114,101,69,81], 2),
     ([115,97,109,101,76,105,99,101,110,115,101,71,114,111,117,112], 2),
     ([114,101,109,111,118,101,68,117,112,108,105,99,97,116,101,83,116,114,105,110,103,115], 2),
     ([115,111,114,116,76,105,99,101,110,115,101,115], 4),
     ([116,111,107,101,110,83,116,114,101,97,109,46,112,101,101,107], 1),
     ([115,116,114,105,110,103,115,84,111,78,111,100,101,115], 1),
     ([109,101,114,103,101,84,101,114,109,115], 1),
     ([115,111,114,116,65,110,100,68,101,100,117,112], 4),
     ([100,101,101,112,83,111,114,116], 7),
     ([101,120,112,114,101,115,115,105,111,110,83,116,114,101,97,109,46,112,97,114,115,101,84,111,107,101,110], 1),
     ([101,120,112,114,101,115,115,105,111,110,83,116,114,101,97,109,46,114,101,97,100,82,101,103,101,120], 4)] = true := by
  decide +kernel

/-- likewise the slice expressions: simplifyLicense (after HasSuffix), sortAndDedup (`nodes[:prev]`, prev ≤ len),
    readRegex (×2, `[exp.index:]` with index ≤ len, `[0:i[1]]` of a match), read (`[exp.index:]`),
    readOperator (`[index-2:index-1]` after `index > 1`), normalizeLicense (×6, after HasSuffix / hasMore) -/
theorem slice_sites_accounted : beqSites sliceSites
    [([115,105,109,112,108,105,102,121,76,105,99,101,110,115,101], 1),
     ([115,111,114,116,65,110,100,68,101,100,117,112], 1),
     ([101,120,112,114,101,115,115,105,111,110,83,116,114,101,97,109,46,114,101,97,100,82,101,103,101,120], 2),
     ([101,120,112,114,101,115,115,105,111,110,83,116,114,101,97,109,46,114,101,97,100], 1),
     ([101,120,112,114,101,115,115,105,111,110,83,116,114,101,97,109,46,114,101,97,100,79,112,101,114,97,116,111,114], 1),
     ([101,120,112,114,101,115,115,105,111,110,83,116,114,101,97,109,46,110,111,114,109,97,108,105,122,101,76,105,99,101,110,115,101], 6)] = true := by
  decide +kernel

/-- no type assertion, no division or remainder anywhere in the package -/
theorem no_type_assertions_or_divisions : typeAssertsAndDivisions = 0 := by decide +kernel

end Spdx.C03
