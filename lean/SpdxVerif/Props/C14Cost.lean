/-
C14 (cost model) — the quantities the cost model is stated over are bounded by the length of the text, EXCEPT the number
of alternatives: tokens ≤ bytes, terms ≤ tokens, materialised leaf slots ≤ alternatives × terms.  Together with
`expand_length` (alternatives = `alts n`) and `alts_andOfOrs` (2^k for a text of 17k−5 bytes) this is the precise sense in
which the cross product is the only super-polynomial factor of the algorithm as written (the known finding D8).
-/
import SpdxVerif.Props.C14
import SpdxVerif.Lemmas.Lexeme
namespace Spdx.C14

/-- one scanner iteration emits one token, or two after consuming at least nine bytes (`…-or-later`) -/
theorem step_tokens_le {s : Bytes} {off : Nat} {ts : List Tok} {r : Bytes} (h : step s off = .tok ts r) :
    ts.length + r.length ≤ s.length := by
  obtain ⟨pre, hpre, hsr⟩ := step_suffix h
  have hpl : 0 < pre.length := List.length_pos_iff.mpr hpre
  rw [step_eq] at h
  split at h
  · simp at h
  · rcases lexeme_tok_inv _ _ _ _ _ h with ⟨op, rfl, -, -⟩ | ⟨id, rfl, -, -⟩ | ⟨id, rfl, -, -⟩ | ⟨w, k, hwt, hw1, hw2, hnc, hrr⟩
    · rw [hsr]; simp only [List.length_cons, List.length_nil, List.length_append]; omega
    · rw [hsr]; simp only [List.length_cons, List.length_nil, List.length_append]; omega
    · rw [hsr]; simp only [List.length_cons, List.length_nil, List.length_append]; omega
    · rcases normCore_tok w _ _ k hw2 hnc with ⟨c, rfl, -, -⟩ | ⟨c, rfl, -⟩ | ⟨c, rfl, -, -⟩ | ⟨c, rfl, -⟩
      · rw [hsr]; simp only [List.length_cons, List.length_nil, List.length_append]; omega
      · rw [hsr]; simp only [List.length_cons, List.length_nil, List.length_append]; omega
      all_goals
        -- two tokens: the word ends in `-or-later`
        have hlen : 9 ≤ w.length := by
          unfold normCore at hnc
          repeat' split at hnc
          all_goals first
            | (simp at hnc; done)
            | (rename_i t ht
               cases hs : stripSuffix? w sufOrLater with
               | none => simp [hs] at ht
               | some v =>
                 unfold stripSuffix? at hs
                 split at hs
                 · rename_i hsuf
                   have := (List.isSuffixOf_iff_suffix.mp hsuf).length_le
                   simpa [sufOrLater] using this
                 · simp at hs)
        -- the word is a prefix of the input after the leading spaces
        have hs1 : (s.dropWhile isSp).length ≤ s.length := by
          have := List.dropWhile_sublist (p := isSp) (l := s)
          exact this.length_le
        have hw : w.length + ((s.dropWhile isSp).dropWhile isIdChar).length ≤ (s.dropWhile isSp).length := by
          have h1 := List.takeWhile_append_dropWhile (p := isIdChar) (l := s.dropWhile isSp)
          have h2 := congrArg List.length h1
          simp only [List.length_append] at h2
          have hwlen : w.length = ((s.dropWhile isSp).takeWhile isIdChar).length := by rw [hwt]
          omega
        have hr : r.length ≤ ((s.dropWhile isSp).dropWhile isIdChar).length := by
          rw [hrr]; split
          · simp only [List.length_tail]; omega
          · exact Nat.le_refl _
        simp only [List.length_cons, List.length_nil]
        omega

/-- **tokens ≤ bytes** -/
theorem scanFrom_tokens_le : ∀ (n : Nat) (s : Bytes) (off : Nat) (ts : List Tok), s.length < n → scanFrom s off = .ok ts →
    ts.length ≤ s.length := by
  intro n
  induction n with
  | zero => intro s off ts h; omega
  | succ n ih =>
    intro s off ts hlen h
    rw [scanFrom_unfold] at h
    cases hs : step s off with
    | done => rw [hs] at h; simp at h; subst h; simp
    | err e => rw [hs] at h; simp at h
    | tok t1 r =>
      rw [hs] at h
      simp only at h
      cases hr : scanFrom r (off + (s.length - r.length)) with
      | error e => rw [hr] at h; simp [Except.map] at h
      | ok ts' =>
        rw [hr] at h
        simp only [Except.map, Except.ok.injEq] at h
        subst h
        have hb := step_tokens_le hs
        obtain ⟨pre, hpre, hsr⟩ := step_suffix hs
        have hrl : r.length < n := by
          have : 0 < pre.length := List.length_pos_iff.mpr hpre
          rw [hsr, List.length_append] at hlen; omega
        have := ih r _ ts' hrl hr
        simp only [List.length_append]
        omega

theorem scan_tokens_le (s : Bytes) (ts : List Tok) (h : scan s = .ok ts) : ts.length ≤ s.length :=
  scanFrom_tokens_le (s.length + 1) s 0 ts (by omega) h

/-- **terms ≤ tokens** -/
theorem leafCount_le_tokens {lv : Lvl} {ts : List Tok} {n : Node} (h : D lv ts n) : leafCount n ≤ ts.length := by
  induction h with
  | ref0 | ref1 | lic | licP | licW | licPW => simp [leafCount]
  | paren _ ih => simp only [List.length_cons, List.length_append, List.length_nil]; omega
  | and1 _ ih => exact ih
  | or1 _ ih => exact ih
  | andC _ _ iha ihb => simp only [leafCount, List.length_append, List.length_cons]; omega
  | orC _ _ iha ihb => simp only [leafCount, List.length_append, List.length_cons]; omega

def slotsOf (ll : List (List Node)) : Nat := (ll.map List.length).sum

theorem slotsOf_append (a b : List (List Node)) : slotsOf (a ++ b) = slotsOf a + slotsOf b := by
  simp [slotsOf]

theorem slotsOf_map_append (L : List (List Node)) (r : List Node) :
    slotsOf (L.map (fun l => l ++ r)) = slotsOf L + L.length * r.length := by
  induction L with
  | nil => simp [slotsOf]
  | cons l L ih =>
    simp only [List.map_cons, slotsOf, List.sum_cons, List.length_append, List.length_cons] at *
    rw [ih, Nat.succ_mul]; omega

theorem slotsOf_appendTerms (L R : List (List Node)) :
    slotsOf (appendTerms L R) = R.length * slotsOf L + L.length * slotsOf R := by
  unfold appendTerms
  induction R with
  | nil => simp [slotsOf]
  | cons r R ih =>
    simp only [List.flatMap_cons, slotsOf_append, slotsOf_map_append, ih, List.length_cons]
    simp only [slotsOf, List.map_cons, List.sum_cons]
    rw [Nat.succ_mul, Nat.mul_add]; omega

/-- **materialised leaf slots ≤ alternatives × terms** -/
theorem slots_le (n : Node) : slotsOf (expandTerm n) ≤ alts n * leafCount n := by
  induction n with
  | lic => simp [expandTerm, slotsOf, alts, leafCount]
  | ref => simp [expandTerm, slotsOf, alts, leafCount]
  | or l r ihl ihr =>
    simp only [expandTerm, slotsOf_append, alts, leafCount]
    calc slotsOf (expandTerm l) + slotsOf (expandTerm r)
        ≤ alts l * leafCount l + alts r * leafCount r := Nat.add_le_add ihl ihr
      _ ≤ (alts l + alts r) * (leafCount l + leafCount r) := by
          rw [Nat.add_mul, Nat.mul_add, Nat.mul_add]; omega
  | and l r ihl ihr =>
    have hLl := expandTerm_length l
    have hRl := expandTerm_length r
    simp only [expandTerm, alts, leafCount]
    split
    · rw [slotsOf_appendTerms, hLl, hRl]
      calc alts r * slotsOf (expandTerm l) + alts l * slotsOf (expandTerm r)
          ≤ alts r * (alts l * leafCount l) + alts l * (alts r * leafCount r) :=
            Nat.add_le_add (Nat.mul_le_mul_left _ ihl) (Nat.mul_le_mul_left _ ihr)
        _ = alts l * alts r * (leafCount l + leafCount r) := by
            rw [Nat.mul_add]
            have e1 : alts r * (alts l * leafCount l) = alts l * alts r * leafCount l := by
              rw [← Nat.mul_assoc, Nat.mul_comm (alts r) (alts l)]
            have e2 : alts l * (alts r * leafCount r) = alts l * alts r * leafCount r := by rw [Nat.mul_assoc]
            rw [e1, e2]
    · rename_i hne
      have hl1 : (expandTerm l).length = 1 := by have := expandTerm_length_pos l; omega
      have hr1 : (expandTerm r).length = 1 := by have := expandTerm_length_pos r; omega
      match hL : expandTerm l, hR : expandTerm r with
      | [a], [b] =>
        rw [hL] at ihl hLl; rw [hR] at ihr hRl
        simp only [List.length_cons, List.length_nil] at hLl hRl
        simp only [mergeTerms, List.foldl_cons, List.foldl_nil, List.map_cons, List.map_nil, slotsOf, List.sum_cons, List.sum_nil,
          List.length_append] at *
        rw [← hLl, ← hRl] at *
        simp only [Nat.one_mul] at *
        omega
      | [], _ => simp [hL] at hl1
      | _ :: _ :: _, _ => simp [hL] at hl1
      | [_], [] => simp [hR] at hr1
      | [_], _ :: _ :: _ => simp [hR] at hr1

/-- **the cost model's inputs are bounded by the text, except the number of alternatives** -/
theorem cost_inputs_bounded (s : Bytes) (n : Node) (h : parse s = .ok n) :
    leafCount n ≤ s.length ∧ slotsOf (expandTerm n) ≤ alts n * s.length ∧ (expand n).length = alts n := by
  obtain ⟨ts, h1, h2⟩ := (parse_ok_iff s n).mp h
  have hscan : scan s = .ok ts := by
    unfold toks at h1
    cases hsc : scan s with
    | error e => rw [hsc] at h1; simp [Except.toOption] at h1
    | ok t => rw [hsc] at h1; simp [Except.toOption] at h1; rw [h1]
  have a := scan_tokens_le s ts hscan
  have b := leafCount_le_tokens ((parseTokens_iff _ _).mp h2)
  have c : leafCount n ≤ s.length := Nat.le_trans b a
  exact ⟨c, Nat.le_trans (slots_le n) (Nat.mul_le_mul_left _ c), expand_length n⟩

/-- in particular an OR-free expression (one alternative) costs at most `|s|` slots: linear -/
theorem and_only_linear (s : Bytes) (n : Node) (h : parse s = .ok n) (ha : alts n = 1) : slotsOf (expandTerm n) ≤ s.length := by
  have := (cost_inputs_bounded s n h).2.1
  rw [ha] at this; simpa using this

end Spdx.C14
