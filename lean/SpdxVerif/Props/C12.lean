/-
C12 — the shipped license tables are exactly what the SPDX source data says.
All statements are about the REGENERATED modules Gen/Tables, Gen/Json, Gen/GenFiles: they are re-proved by the
kernel whenever the tables, the JSON files, the generator templates or the committed files change.
-/
import SpdxVerif.Spec.TableChecks
import SpdxVerif.Gen.Json
import SpdxVerif.Gen.GenFiles
namespace Spdx.C12

def jsonActive : List Bytes := (Json.licenses.filter (fun p => !p.2)).map (·.1)
def jsonDeprecated : List Bytes := (Json.licenses.filter (fun p => p.2)).map (·.1)
def jsonExceptions : List Bytes := (Json.exceptions.filter (fun p => !p.2)).map (·.1)

/-- every non-deprecated license id is active, every deprecated one is deprecated, every non-deprecated exception
    id is an exception — nothing else, in the same order -/
theorem active_eq_json : Tables.active = jsonActive :=
  beqList_eq (by decide +kernel)
theorem deprecated_eq_json : Tables.deprecated = jsonDeprecated :=
  beqList_eq (by decide +kernel)
theorem exceptions_eq_json : Tables.exceptions = jsonExceptions :=
  beqList_eq (by decide +kernel)

/-- split after every newline (each piece keeps its terminating newline) -/
def splitLinesAux : Bytes → Bytes → List Bytes
  | [], [] => []
  | [], cur => [cur.reverse]
  | c :: cs, cur => if Nat.beq c 10 then (c :: cur).reverse :: splitLinesAux cs [] else splitLinesAux cs (c :: cur)
def splitLines (s : Bytes) : List Bytes := splitLinesAux s []

theorem flatten_splitLinesAux (s cur : Bytes) : (splitLinesAux s cur).flatten = cur.reverse ++ s := by
  induction s generalizing cur with
  | nil => cases cur <;> simp [splitLinesAux]
  | cons c cs ih =>
    simp only [splitLinesAux]
    split <;> simp [ih]

/-- joining the pieces gives the text back: equality of line lists below IS byte-for-byte equality of the files -/
theorem flatten_splitLines (s : Bytes) : (splitLines s).flatten = s := by
  simp [splitLines, flatten_splitLinesAux]

/-- the generator's template, as lines: header, one line per id, footer -/
def renderGoLines (header linePre linePost footer : Bytes) (ids : List Bytes) : List Bytes :=
  splitLines header ++ ids.map (fun id => linePre ++ id ++ linePost) ++ splitLines footer

/-- the bytes the generator writes: `header ++ (linePre ++ id ++ linePost)* ++ footer` -/
def renderGo (header linePre linePost footer : Bytes) (ids : List Bytes) : Bytes :=
  header ++ (ids.map (fun id => linePre ++ id ++ linePost)).flatten ++ footer

theorem renderGoLines_flatten (h a b f : Bytes) (ids : List Bytes) :
    (renderGoLines h a b f ids).flatten = renderGo h a b f ids := by
  simp [renderGoLines, renderGo, flatten_splitLines]

/-- **re-running the generator reproduces the committed files byte for byte** (template literals extracted from
    cmd/license.go and cmd/exceptions.go, ids from the JSON files, lines of the committed files) -/
theorem get_licenses_go_exact :
    renderGo (GenFiles.extractLicenseIDs_headers.getD 0 []) (GenFiles.extractLicenseIDs_appended.getD 0 [])
      (GenFiles.extractLicenseIDs_appended.getD 1 []) (GenFiles.extractLicenseIDs_appended.getD 2 []) jsonActive
    = GenFiles.getLicensesGoLines.flatten := by
  rw [← renderGoLines_flatten]
  exact congrArg List.flatten (beqList_eq (by decide +kernel))
theorem get_deprecated_go_exact :
    renderGo (GenFiles.extractLicenseIDs_headers.getD 1 []) (GenFiles.extractLicenseIDs_appended.getD 3 [])
      (GenFiles.extractLicenseIDs_appended.getD 4 []) (GenFiles.extractLicenseIDs_appended.getD 5 []) jsonDeprecated
    = GenFiles.getDeprecatedGoLines.flatten := by
  rw [← renderGoLines_flatten]
  exact congrArg List.flatten (beqList_eq (by decide +kernel))
theorem get_exceptions_go_exact :
    renderGo (GenFiles.extractExceptionLicenseIDs_headers.getD 0 []) (GenFiles.extractExceptionLicenseIDs_appended.getD 0 [])
      (GenFiles.extractExceptionLicenseIDs_appended.getD 1 []) (GenFiles.extractExceptionLicenseIDs_appended.getD 2 []) jsonExceptions
    = GenFiles.getExceptionsGoLines.flatten := by
  rw [← renderGoLines_flatten]
  exact congrArg List.flatten (beqList_eq (by decide +kernel))

/-- the three lists are pairwise disjoint and contain no two ids equal up to letter case (one check covers both) -/
theorem lists_fold_unique : foldUnique (Tables.active ++ Tables.deprecated ++ Tables.exceptions) = true := by
  decide +kernel

/-- every listed id is ASCII (so ASCII case folding is what `strings.EqualFold` does on them) -/
theorem lists_ascii : (Tables.active ++ Tables.deprecated ++ Tables.exceptions).all isAsciiId = true := by
  decide +kernel

end Spdx.C12
