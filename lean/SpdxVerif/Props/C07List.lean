/-
C07 (string level) — the allowed list behaves as a set and the verdict is monotone in it: statements about `satisfies`
on byte strings, including the in-place sort-and-dedup of the allowed nodes whose returned slice `Satisfies` discards.
-/
import SpdxVerif.Lemmas.AllowedList
import SpdxVerif.Props.C01
namespace Spdx.C07

/-- the outcome of `Satisfies` with the error kind forgotten (`none` = an error was returned) -/
def outcome (r : Except SatErr Bool) : Option Bool := r.toOption

/-- the set of single terms an allowed list denotes -/
def Denotes (L : List Bytes) (t : Node) : Prop := ∃ x ∈ L, leafOf x = some t

/-- all entries are valid single terms -/
def AllSingle (L : List Bytes) : Prop := ∀ x ∈ L, (leafOf x).isSome = true

/-- what `Satisfies` computes on valid arguments, with the in-place dedup eliminated: the Boolean value of the expression
    under "a term is true iff some allowed entry's term matches it" -/
theorem satisfies_eq (e : Bytes) (L : List Bytes) (n : Node) (A : List Node)
    (he : parse e = .ok n) (hL : L ≠ []) (hA : toNodes L = .ok A) :
    satisfies e L = .ok (eval (covered A) n) := by
  rw [C01.satisfies_spec e L n A he hL hA]
  have := verdict_set matchLeaf n (sortAndDedupArray A) A (sortAndDedupArray_mem A (toNodes_leafOK hA))
  simp only [verdictBy_eq_eval] at this
  exact congrArg Except.ok this

theorem satisfies_error_of_not_single (e : Bytes) (L : List Bytes) (h : ¬ AllSingle L) : outcome (satisfies e L) = none := by
  unfold satisfies outcome
  cases parse e with
  | error _ => rfl
  | ok n =>
    simp only
    split
    · rfl
    · cases hA : toNodes L with
      | error _ => rfl
      | ok A => exact absurd ((toNodes_ok_iff_all L).mp ⟨A, hA⟩) h

/-- **the result depends only on the set of terms the list denotes**: two non-empty lists of valid single terms that denote
    the same set of terms give the same result, whatever their order, repetitions and spellings -/
theorem satisfies_denotes (e : Bytes) (L L' : List Bytes) (hL : L ≠ []) (hL' : L' ≠ [])
    (h1 : AllSingle L) (h2 : AllSingle L') (hd : ∀ t, Denotes L t ↔ Denotes L' t) :
    satisfies e L = satisfies e L' := by
  obtain ⟨A, hA⟩ := (toNodes_ok_iff_all L).mpr h1
  obtain ⟨A', hA'⟩ := (toNodes_ok_iff_all L').mpr h2
  cases he : parse e with
  | error err => simp [satisfies, he]
  | ok n =>
    rw [satisfies_eq e L n A he hL hA, satisfies_eq e L' n A' he hL' hA']
    have := verdict_set matchLeaf n A A' (fun a => by
      rw [toNodes_mem hA, toNodes_mem hA']; exact hd a)
    simp only [verdictBy_eq_eval] at this
    exact congrArg Except.ok this

/-- **reordering and repetition**: lists with the same entries (as sets of strings) give the same outcome -/
theorem satisfies_same_entries (e : Bytes) (L L' : List Bytes) (h : ∀ x, x ∈ L ↔ x ∈ L') :
    outcome (satisfies e L) = outcome (satisfies e L') := by
  by_cases hs : AllSingle L
  · have hs' : AllSingle L' := fun x hx => hs x ((h x).mpr hx)
    cases L with
    | nil =>
      cases L' with
      | nil => rfl
      | cons y ys => exact absurd ((h y).mpr (by simp)) (by simp)
    | cons x xs =>
      have hne' : L' ≠ [] := by
        intro he; have := (h x).mp (by simp); rw [he] at this; cases this
      rw [satisfies_denotes e (x :: xs) L' (by simp) hne' hs hs' (fun t => by
        unfold Denotes
        constructor
        · rintro ⟨y, hy, hyt⟩; exact ⟨y, (h y).mp hy, hyt⟩
        · rintro ⟨y, hy, hyt⟩; exact ⟨y, (h y).mpr hy, hyt⟩)]
  · have hs' : ¬ AllSingle L' := fun hh => hs (fun x hx => hh x ((h x).mp hx))
    rw [satisfies_error_of_not_single e L hs, satisfies_error_of_not_single e L' hs']

theorem satisfies_perm (e : Bytes) {L L' : List Bytes} (h : L.Perm L') : outcome (satisfies e L) = outcome (satisfies e L') :=
  satisfies_same_entries e L L' (fun _ => h.mem_iff)

theorem satisfies_repeat (e : Bytes) (L : List Bytes) (x : Bytes) (hx : x ∈ L) :
    outcome (satisfies e (x :: L)) = outcome (satisfies e L) :=
  satisfies_same_entries e _ _ (fun y => by
    simp only [List.mem_cons]
    constructor
    · rintro (rfl | h); exact hx; exact h
    · exact Or.inr)

/-- **re-spelling an entry**: replacing an entry by any other spelling of the same term never changes the result -/
theorem satisfies_respell (e : Bytes) (pre post : List Bytes) (x x' : Bytes) (h : leafOf x = leafOf x') :
    outcome (satisfies e (pre ++ x :: post)) = outcome (satisfies e (pre ++ x' :: post)) := by
  by_cases hs : AllSingle (pre ++ x :: post)
  · have hs' : AllSingle (pre ++ x' :: post) := by
      intro y hy
      simp only [List.mem_append, List.mem_cons] at hy
      rcases hy with hy | rfl | hy
      · exact hs y (by simp [hy])
      · rw [← h]; exact hs x (by simp)
      · exact hs y (by simp [hy])
    rw [satisfies_denotes e _ _ (by simp) (by simp) hs hs' (fun t => by
      unfold Denotes
      constructor
      · rintro ⟨y, hy, hyt⟩
        simp only [List.mem_append, List.mem_cons] at hy
        rcases hy with hy | rfl | hy
        · exact ⟨y, by simp [hy], hyt⟩
        · exact ⟨x', by simp, by rw [← h]; exact hyt⟩
        · exact ⟨y, by simp [hy], hyt⟩
      · rintro ⟨y, hy, hyt⟩
        simp only [List.mem_append, List.mem_cons] at hy
        rcases hy with hy | rfl | hy
        · exact ⟨y, by simp [hy], hyt⟩
        · exact ⟨x, by simp, by rw [h]; exact hyt⟩
        · exact ⟨y, by simp [hy], hyt⟩)]
  · have hs' : ¬ AllSingle (pre ++ x' :: post) := by
      intro hh; apply hs
      intro y hy
      simp only [List.mem_append, List.mem_cons] at hy
      rcases hy with hy | rfl | hy
      · exact hh y (by simp [hy])
      · rw [h]; exact hh x' (by simp)
      · exact hh y (by simp [hy])
    rw [satisfies_error_of_not_single e _ hs, satisfies_error_of_not_single e _ hs']

/-- surrounding parentheses and surrounding spaces are such re-spellings -/
theorem leafOf_parens (x : Bytes) (t : Node) (h : leafOf x = some t) : leafOf (40 :: (x ++ [41])) = some t := by
  obtain ⟨hp, hl⟩ := leafOf_some h
  simp [leafOf, parse_parens x t hp, hl]

theorem leafOf_spaces (x sp sp' : Bytes) (t : Node) (hsp : sp.dropWhile isSp = []) (hsp' : sp'.dropWhile isSp = [])
    (h : leafOf x = some t) : leafOf (sp ++ (x ++ sp')) = some t := by
  obtain ⟨hp, hl⟩ := leafOf_some h
  have := parse_leading_spaces sp (x ++ sp') hsp t (parse_trailing_spaces x sp' hsp' t hp)
  simp [leafOf, this, hl]

/-- **monotone**: adding further valid single-term entries can turn 'not satisfied' into 'satisfied', never the reverse -/
theorem satisfies_mono (e : Bytes) (L M : List Bytes) (hM : AllSingle M) (h : satisfies e L = .ok true) :
    satisfies e (L ++ M) = .ok true := by
  cases he : parse e with
  | error err => simp [satisfies, he] at h
  | ok n =>
    have hLne : L ≠ [] := by
      intro hh; subst hh; simp [satisfies, he] at h
    have hLs : AllSingle L := by
      apply Classical.byContradiction
      intro hh
      have := satisfies_error_of_not_single e L hh
      rw [h] at this; cases this
    obtain ⟨A, hA⟩ := (toNodes_ok_iff_all L).mpr hLs
    have hLM : AllSingle (L ++ M) := by
      intro x hx
      rcases List.mem_append.mp hx with hx | hx
      · exact hLs x hx
      · exact hM x hx
    obtain ⟨B, hB⟩ := (toNodes_ok_iff_all (L ++ M)).mpr hLM
    rw [satisfies_eq e L n A he hLne hA] at h
    rw [satisfies_eq e (L ++ M) n B he (by simp [hLne]) hB]
    have hsub : ∀ a ∈ A, a ∈ B := by
      intro a ha
      rw [toNodes_mem hB]
      obtain ⟨x, hx, hxa⟩ := (toNodes_mem hA a).mp ha
      exact ⟨x, List.mem_append_left _ hx, hxa⟩
    have := verdict_mono matchLeaf n A B hsub
    simp only [verdictBy_eq_eval] at this
    simp only [Except.ok.injEq] at h
    exact congrArg Except.ok (this h)

/-! ### non-vacuity -/
section
private def gpl2 : Bytes := [71,80,76,45,50,46,48]          -- GPL-2.0
private def mit : Bytes := [77,73,84]
private def mitSp : Bytes := [32,40,77,73,84,41,32]         -- " (MIT) "
example : (match satisfies mit [gpl2, mit] with | .ok b => b | .error _ => false) = true := by decide +kernel
example : leafOf mitSp = leafOf mit := by decide +kernel
example : AllSingle [gpl2, mit] := by
  intro x hx; simp at hx; rcases hx with rfl | rfl <;> decide +kernel
end

end Spdx.C07
