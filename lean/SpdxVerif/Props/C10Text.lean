/-
C10 (string level) — `Satisfies('(E) AND (F)', A) = Satisfies(E, A) and Satisfies(F, A)`, likewise for OR; extra spaces and
redundant parentheses never change the result; rewrites that keep the set of terms keep the set `ExtractLicenses` returns.
-/
import SpdxVerif.Lemmas.ParseString
import SpdxVerif.Props.C06
import SpdxVerif.Props.C10
import SpdxVerif.Props.C01
import SpdxVerif.Props.C04
import SpdxVerif.Props.C09Text
namespace Spdx.C10

/-- the result of `satisfies` depends on the expression only through its tree -/
theorem satisfies_of_parse_eq (e e' : Bytes) (L : List Bytes) (h : parse e = parse e') : satisfies e L = satisfies e' L := by
  unfold satisfies; rw [h]

theorem extract_of_parse_eq (e e' : Bytes) (h : parse e = parse e') : extract e = extract e' := by
  unfold extract; rw [h]

/-- **redundant parentheses** around a valid expression change neither `Satisfies` nor `ExtractLicenses` -/
theorem parens_irrelevant (e : Bytes) (L : List Bytes) (hv : valid e = true) :
    satisfies (40 :: (e ++ [41])) L = satisfies e L ∧ extract (40 :: (e ++ [41])) = extract e := by
  obtain ⟨n, hn⟩ := (C04.valid_iff e).mp hv
  have := parse_parens e n hn
  exact ⟨satisfies_of_parse_eq _ _ L (by rw [this, hn]), extract_of_parse_eq _ _ (by rw [this, hn])⟩

/-- **extra spaces** before and after a valid expression change nothing -/
theorem outer_spaces_irrelevant (e sp sp' : Bytes) (L : List Bytes) (hv : valid e = true)
    (hsp : sp.dropWhile isSp = []) (hsp' : sp'.dropWhile isSp = []) :
    satisfies (sp ++ (e ++ sp')) L = satisfies e L ∧ extract (sp ++ (e ++ sp')) = extract e := by
  obtain ⟨n, hn⟩ := (C04.valid_iff e).mp hv
  have := parse_leading_spaces sp (e ++ sp') hsp n (parse_trailing_spaces e sp' hsp' n hn)
  exact ⟨satisfies_of_parse_eq _ _ L (by rw [this, hn]), extract_of_parse_eq _ _ (by rw [this, hn])⟩

theorem satisfies_ok_inv (e : Bytes) (L : List Bytes) (b : Bool) (h : satisfies e L = .ok b) :
    ∃ n A, parse e = .ok n ∧ L ≠ [] ∧ toNodes L = .ok A ∧ b = verdict n (sortAndDedupArray A) := by
  unfold satisfies at h
  cases hp : parse e with
  | error err => simp [hp] at h
  | ok n =>
    simp only [hp] at h
    cases L with
    | nil => simp at h
    | cons x xs =>
      simp only [List.isEmpty_cons, Bool.false_eq_true, ↓reduceIte] at h
      cases hA : toNodes (x :: xs) with
      | error err => simp [hA] at h
      | ok A =>
        simp only [hA, Except.ok.injEq] at h
        exact ⟨n, A, rfl, by simp, rfl, h.symm⟩

/-- **`Satisfies('(E) AND (F)', A) = Satisfies(E, A) and Satisfies(F, A)`** for byte strings `E`, `F` -/
theorem satisfies_andText (E F : Bytes) (L : List Bytes) (bE bF : Bool)
    (hE : satisfies E L = .ok bE) (hF : satisfies F L = .ok bF) : satisfies (andText E F) L = .ok (bE && bF) := by
  obtain ⟨nE, A, pE, hne, hA, rfl⟩ := satisfies_ok_inv E L bE hE
  obtain ⟨nF, A', pF, -, hA', rfl⟩ := satisfies_ok_inv F L bF hF
  rw [hA] at hA'; simp only [Except.ok.injEq] at hA'; subst hA'
  rw [C01.satisfies_spec _ L _ A (parse_andText E F nE nF pE pF) hne hA]
  simp [C01.verdict_eq_eval, eval]

/-- … and likewise for OR -/
theorem satisfies_orText (E F : Bytes) (L : List Bytes) (bE bF : Bool)
    (hE : satisfies E L = .ok bE) (hF : satisfies F L = .ok bF) : satisfies (orText E F) L = .ok (bE || bF) := by
  obtain ⟨nE, A, pE, hne, hA, rfl⟩ := satisfies_ok_inv E L bE hE
  obtain ⟨nF, A', pF, -, hA', rfl⟩ := satisfies_ok_inv F L bF hF
  rw [hA] at hA'; simp only [Except.ok.injEq] at hA'; subst hA'
  rw [C01.satisfies_spec _ L _ A (parse_orText E F nE nF pE pF) hne hA]
  simp [C01.verdict_eq_eval, eval]

/-- **same Boolean function, same verdict** on strings: two valid expressions whose trees denote the same Boolean function
    get the same result under every allowed list -/
theorem satisfies_of_eval_eq (e₁ e₂ : Bytes) (n₁ n₂ : Node) (L : List Bytes)
    (h₁ : parse e₁ = .ok n₁) (h₂ : parse e₂ = .ok n₂) (h : ∀ p, eval p n₁ = eval p n₂) :
    satisfies e₁ L = satisfies e₂ L := by
  unfold satisfies
  rw [h₁, h₂]
  simp only
  split
  · rfl
  · cases toNodes L with
    | error err => rfl
    | ok A => simp only [verdict]; rw [verdict_of_eval_eq matchLeaf n₁ n₂ h]

/-- rewrites that keep the set of terms keep the set `ExtractLicenses` returns -/
theorem extract_set_of_leaves (e₁ e₂ : Bytes) (n₁ n₂ : Node) (o₁ o₂ : List Bytes)
    (h₁ : parse e₁ = .ok n₁) (h₂ : parse e₂ = .ok n₂) (x₁ : extract e₁ = some o₁) (x₂ : extract e₂ = some o₂)
    (h : ∀ t, t ∈ leaves n₁ ↔ t ∈ leaves n₂) : ∀ x, x ∈ o₁ ↔ x ∈ o₂ := by
  intro x
  rw [C06.extract_mem e₁ n₁ o₁ h₁ x₁ x, C06.extract_mem e₂ n₂ o₂ h₂ x₂ x]
  constructor
  · rintro ⟨t, ht, rfl⟩; exact ⟨t, (h t).mp ht, rfl⟩
  · rintro ⟨t, ht, rfl⟩; exact ⟨t, (h t).mpr ht, rfl⟩

/-- commutativity, associativity, idempotence and distribution keep the set of terms (absorption does not) -/
theorem leaves_and_comm (x y : Node) (t : Node) : t ∈ leaves (.and x y) ↔ t ∈ leaves (.and y x) := by
  simp only [leaves, List.mem_append]; exact Or.comm
theorem leaves_or_comm (x y : Node) (t : Node) : t ∈ leaves (.or x y) ↔ t ∈ leaves (.or y x) := by
  simp only [leaves, List.mem_append]; exact Or.comm
theorem leaves_and_assoc (x y z : Node) (t : Node) : t ∈ leaves (.and (.and x y) z) ↔ t ∈ leaves (.and x (.and y z)) := by
  simp [leaves, or_assoc]
theorem leaves_idem (x : Node) (t : Node) : t ∈ leaves (.and x x) ↔ t ∈ leaves x := by
  simp [leaves]
theorem leaves_distrib (x y z : Node) (t : Node) :
    t ∈ leaves (.and x (.or y z)) ↔ t ∈ leaves (.or (.and x y) (.and x z)) := by
  simp only [leaves, List.mem_append]
  constructor
  · rintro (h | h | h)
    · exact Or.inl (Or.inl h)
    · exact Or.inl (Or.inr h)
    · exact Or.inr (Or.inr h)
  · rintro ((h | h) | (h | h))
    · exact Or.inl h
    · exact Or.inr (Or.inl h)
    · exact Or.inl h
    · exact Or.inr (Or.inr h)

/-! ### non-vacuity -/
section
private def mit : Bytes := [77,73,84]
private def isc : Bytes := [73,83,67]
-- "(MIT) AND (ISC)" against [MIT] and against [MIT, ISC]
example : (match satisfies (andText mit isc) [mit] with | .ok b => !b | .error _ => false) = true := by decide +kernel
example : (match satisfies (andText mit isc) [mit, isc] with | .ok b => b | .error _ => false) = true := by decide +kernel
example : (match satisfies (orText mit isc) [isc] with | .ok b => b | .error _ => false) = true := by decide +kernel
end

end Spdx.C10

namespace Spdx.C10

/-! ### spaces inside an expression -/

/-- a non-empty run of spaces inside a text can be replaced by a single space -/
theorem toks_space_run (a sp b : Bytes) (hsp : sp.dropWhile isSp = []) (hb : b.head? ≠ some 43) :
    toks (a ++ 32 :: (sp ++ b)) = toks (a ++ 32 :: b) := by
  rw [toks_append a _ (by rfl), toks_append a _ (by rfl)]
  have h1 := toks_leading_spaces (32 :: sp) b (by simp [List.dropWhile_cons, isSp, hsp]) hb
  have h2 := toks_leading_spaces [32] b (by simp [List.dropWhile, isSp]) hb
  simp only [List.cons_append, List.nil_append] at h1 h2
  rw [h1, h2]

/-- spaces directly after `(` and directly before `)` can be inserted or removed -/
theorem toks_space_after_lparen (a sp b : Bytes) (hsp : sp.dropWhile isSp = []) (hb : b.head? ≠ some 43) :
    toks (a ++ 40 :: (sp ++ b)) = toks (a ++ 40 :: b) := by
  rw [toks_append a _ (by rfl), toks_append a _ (by rfl), toks_cons_lparen, toks_cons_lparen,
    toks_leading_spaces sp b hsp hb]

theorem toks_space_before_rparen (a sp b : Bytes) (hsp : sp.dropWhile isSp = []) :
    toks (a ++ (sp ++ 41 :: b)) = toks (a ++ 41 :: b) := by
  cases sp with
  | nil => rfl
  | cons c r =>
    have hc : c = 32 := by
      by_cases h : isSp c = true
      · simpa [isSp] using h
      · simp [List.dropWhile_cons, h] at hsp
    subst hc
    rw [toks_append a _ (by rfl), toks_append a _ (by rfl), toks_spaces_append (32 :: r) (41 :: b) hsp (by rfl)]

/-- **extra spaces never change the result**: every such re-spacing leaves the token sequence, hence the tree, hence
    `Satisfies` and `ExtractLicenses`, unchanged -/
theorem respacing_irrelevant (s s' : Bytes) (L : List Bytes) (h : toks s = toks s') :
    valid s = valid s' ∧ C07.outcome (satisfies s L) = C07.outcome (satisfies s' L) ∧ extract s = extract s' := by
  have ht := tree_eq_of_toks s s' h
  exact ⟨C09.valid_of_tree _ _ ht, C09.satisfies_of_tree _ _ L ht, C09.extract_of_tree _ _ ht⟩

end Spdx.C10
