/-
C01 (string level) — the Boolean reading of the TEXT: a tree written with the minimal parentheses of the documented grammar
(AND binds tighter than OR, parentheses group, chains nest to the right) is read back as exactly that tree, for every tree
over well-formed terms; hence `Satisfies` on that text is the Boolean value of the tree.
-/
import SpdxVerif.Lemmas.RenderTree
import SpdxVerif.Props.C07List
namespace Spdx.C01

/-- **precedence and grouping at the level of bytes**: for EVERY tree over well-formed terms -/
theorem parse_rendered (n : Node) (h : AllLeavesOK n) : parse (rExpr n) = .ok n := parse_rExpr n h

/-- every valid expression can be re-written canonically (minimal parentheses, single spaces, list casing) without
    changing its tree -/
theorem canonical_rewrite (s : Bytes) (n : Node) (h : parse s = .ok n) : parse (rExpr n) = .ok n :=
  parse_rExpr n (parse_leavesOK s n h)

/-- **C01 on texts**: `Satisfies` applied to the text of a tree returns the Boolean value of the tree under "a term is true
    iff some allowed entry's term matches it" -/
theorem satisfies_rendered (n : Node) (L : List Bytes) (A : List Node) (h : AllLeavesOK n) (hL : L ≠ [])
    (hA : toNodes L = .ok A) : satisfies (rExpr n) L = .ok (eval (covered A) n) :=
  C07.satisfies_eq (rExpr n) L n A (parse_rExpr n h) hL hA

/-- the three readings the property names, as texts: `a OR b AND c`, `a AND b OR c`, `(a OR b) AND c` -/
theorem or_and_text (a b c : Node) (ha : a.isLeaf = true) (hb : b.isLeaf = true) (hc : c.isLeaf = true)
    (h : AllLeavesOK (.or a (.and b c))) :
    parse (render a ++ (kwOr ++ 32 :: (render b ++ (kwAnd ++ 32 :: render c)))) = .ok (.or a (.and b c)) := by
  have := parse_rExpr _ h
  cases a <;> cases b <;> cases c <;> simp_all [Node.isLeaf, rExpr, rend]

theorem and_or_text (a b c : Node) (ha : a.isLeaf = true) (hb : b.isLeaf = true) (hc : c.isLeaf = true)
    (h : AllLeavesOK (.or (.and a b) c)) :
    parse ((render a ++ (kwAnd ++ 32 :: render b)) ++ (kwOr ++ 32 :: render c)) = .ok (.or (.and a b) c) := by
  have := parse_rExpr _ h
  cases a <;> cases b <;> cases c <;> simp_all [Node.isLeaf, rExpr, rend]

theorem paren_or_and_text (a b c : Node) (ha : a.isLeaf = true) (hb : b.isLeaf = true) (hc : c.isLeaf = true)
    (h : AllLeavesOK (.and (.or a b) c)) :
    parse ((40 :: ((render a ++ (kwOr ++ 32 :: render b)) ++ [41])) ++ (kwAnd ++ 32 :: render c)) = .ok (.and (.or a b) c) := by
  have := parse_rExpr _ h
  cases a <;> cases b <;> cases c <;> simp_all [Node.isLeaf, rExpr, rend]

/-! ### non-vacuity -/
section
private def mit : Node := .lic [77,73,84] false none
private def isc : Node := .lic [73,83,67] false none
private def zlib : Node := .lic [90,108,105,98] false none
-- "MIT OR ISC AND Zlib"
example : rExpr (.or mit (.and isc zlib)) = str "MIT OR ISC AND Zlib" := by decide +kernel
-- "(MIT OR ISC) AND Zlib"
example : rExpr (.and (.or mit isc) zlib) = str "(MIT OR ISC) AND Zlib" := by decide +kernel
-- "(MIT AND ISC) AND Zlib": a left-nested chain keeps its parentheses
example : rExpr (.and (.and mit isc) zlib) = str "(MIT AND ISC) AND Zlib" := by decide +kernel
example : (match parse (str "MIT OR ISC AND Zlib") with | .ok n => n == .or mit (.and isc zlib) | .error _ => false) = true := by
  decide +kernel
end

end Spdx.C01
