/-
Props/C01Heap — C01, the expansion at the level of Go's slices: backing arrays, capacities, `append` in place.

`verdict_eq_eval` (Props/C01) is about `expand`, in which an alternative is a VALUE.  In the Go source an alternative is
a slice header, and `append(l, r...)` writes into `l`'s backing array whenever its capacity allows: two alternatives that
share an array overwrite each other, and the verdict is then computed over terms the expression does not contain
(defect D4, repaired by "fix: copy the left alternative in appendTerms instead of aliasing it").  The theorems below say
that the code as it stands cannot do that, for every tree, every starting heap and EVERY growth policy of `append`:
the heap-level expansion (Model/GoHeap, a statement-by-statement transliteration with `append` in place or by copy)
denotes the functional expansion, every alternative lives in an array of its own, nothing that existed before is
written to, and the in-place sorts of `deepSort` sort exactly the alternative they are given.
-/
import SpdxVerif.Lemmas.GoHeap
import SpdxVerif.Gen.Census
namespace Spdx.C01
open Spdx.H

/-- the heap-level expansion denotes the model's expansion — whatever capacities `append` chooses -/
theorem heap_expand_refines (grow : Nat → Nat → Nat) (n : Node) : expandTermRead grow n = expandTerm n :=
  (expandTermH_spec grow n []).1

/-- … and from any starting heap, whose arrays it leaves exactly as they were -/
theorem heap_expand_refines_any_heap (grow : Nat → Nat → Nat) (n : Node) (h : Heap) :
    (expandTermH grow n h).1.map (read (expandTermH grow n h).2) = expandTerm n ∧
    ∀ i, i < h.length → (expandTermH grow n h).2[i]? = h[i]? :=
  ⟨(expandTermH_spec grow n h).1, (expandTermH_spec grow n h).2.2.1⟩

/-- separation: no two alternatives of the result share a backing array, and every header lies within its array -/
theorem heap_expand_separated (grow : Nat → Nat → Nat) (n : Node) (h : Heap) :
    ((expandTermH grow n h).1.map (·.arr)).Nodup ∧
    ∀ s ∈ (expandTermH grow n h).1, s.arr < (expandTermH grow n h).2.length ∧
      s.len ≤ (cellsOf (expandTermH grow n h).2 s.arr).length ∧ h.length ≤ s.arr :=
  ⟨(expandTermH_spec grow n h).2.2.2.2, fun s m =>
    ⟨((expandTermH_spec grow n h).2.2.2.1 s m).1.1, ((expandTermH_spec grow n h).2.2.2.1 s m).1.2,
     ((expandTermH_spec grow n h).2.2.2.1 s m).2⟩⟩

/-- `expand(true)`: with the in-place inner sorts of `deepSort` the heap-level result is the model's `deepSort` of the
    model's expansion -/
theorem heap_expand_sorted_refines (grow : Nat → Nat → Nat) (n : Node) :
    expandReadSorted grow n = deepSort (expandTerm n) := by
  obtain ⟨a1, _, _, a4, a5⟩ := expandTermH_spec grow n []
  obtain ⟨b1, _, _⟩ := sortAllH_spec (expandTermH grow n []).1 (expandTermH grow n []).2 a5 (fun s m => (a4 s m).1)
  unfold expandReadSorted deepSort
  simp only []
  rw [b1, ← a1, List.map_map]
  rfl

/-- so for every expression node the model's `expand` IS what the slices hold -/
theorem heap_expand_eq_expand (grow : Nat → Nat → Nat) (n : Node) (hn : n.isLeaf = false) :
    expand n = expandReadSorted grow n := by
  rw [heap_expand_sorted_refines]; simp [expand, hn]

/-! ### the tie to the source: where the expansion allocates and appends

`Gen/Census.allocOps` is regenerated from the source on every run: per function the number of `append` calls, of
`append(x, y...)` calls among them, and of `make` calls.  Model/GoHeap transliterates exactly these: `expandOrTerm`
(`append(result, []*node{term})`, two `append(result, left...)` on the OUTER slice), `expandAndTerm` (one
`append(result, []*node{term})`), `appendTerms` (`make`, `append(tmp, l...)`, `append(tmp, r...)`, `append(result, tmp)`),
`mergeTerms` (`append(l, r...)`); `expandOr`, `expandAnd`, `expand`, `deepSort`, `sortAndDedup`, `isCompatible` neither
append nor allocate.  An `append` that appears, disappears or changes shape in any of them breaks this obligation. -/

private def fn (s : String) : List Nat := s.toUTF8.toList.map (·.toNat)

def expansionFunctions : List (List Nat) :=
  [fn "expand", fn "expandOr", fn "expandOrTerm", fn "expandAnd", fn "expandAndTerm", fn "appendTerms", fn "mergeTerms",
   fn "deepSort", fn "sortLicenses", fn "sortAndDedup", fn "isCompatible", fn "Satisfies"]

def expansionAllocs : List (List Nat × Nat × Nat × Nat) :=
  (Census.allocOps.filter (fun p => expansionFunctions.contains p.2.1)).map (fun p => p.2)

theorem expansion_allocs_exact : expansionAllocs =
    [(fn "expandOrTerm", 3, 2, 0), (fn "expandAndTerm", 1, 0, 0), (fn "appendTerms", 3, 2, 1), (fn "mergeTerms", 1, 1, 0)] := by
  decide +kernel

/-! ### non-vacuity: the layer expresses the defect

`((A AND B) AND C) AND (D OR E)` with Go's doubling policy: `[A B C]` sits in an array of capacity 4, and the
`appendTerms` of the tree before the repair appends `D` and then `E` behind it IN THE SAME ARRAY — both alternatives
then read `[A B C E]`. -/
private def A : Node := .lic [65] false none
private def B : Node := .lic [66] false none
private def C : Node := .lic [67] false none
private def Dn : Node := .lic [68] false none
private def E : Node := .lic [69] false none
private def witness : Node := .and (.and (.and A B) C) (.or Dn E)

example : expandTerm witness = [[A, B, C, Dn], [A, B, C, E]] := by decide
example : (let p := expandTermAliasH growDouble witness []; p.1.map (read p.2)) = [[A, B, C, E], [A, B, C, E]] := by decide
example : expandTermRead growDouble witness = [[A, B, C, Dn], [A, B, C, E]] := by decide
/-- the aliasing variant violates separation on the witness -/
example : ¬ ((expandTermAliasH growDouble witness []).1.map (·.arr)).Nodup := by decide
/-- `append` does write in place in the code as it stands (`tmp` of `appendTerms` is filled in place): the refinement
    is not true for the trivial reason that every append copies -/
example : (appendG growDouble (alloc [] [] 2).2 (alloc [] [] 2).1 [A]).1.arr = 0 := by decide

/-- alternatives are NOT always full: after `(A AND B) AND C` the one alternative has length 3 in an array of capacity 4
    (so "append always copies" — the premise of every re-introduction of the defect, seeds C01-w10m1 / C06-w10m1 — is false,
    and separation, not fullness, is the invariant that makes the code right) -/
example : (let p := expandTermH growDouble (.and (.and A B) C) []; p.1.map (fun s => (s.len, capOf p.2 s.arr))) = [(3, 4)] := by
  decide

end Spdx.C01
