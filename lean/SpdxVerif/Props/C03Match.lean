/-
Props/C03Match — C03 / C02: single-term matching with pointers (layer G part 7) never dereferences nil and computes the
main model's `matchLeaf`, for every pair of nodes the parser can build (terms AND expression nodes).
-/
import SpdxVerif.Model.GoMatch
import SpdxVerif.Lemmas.GoScan
import SpdxVerif.Props.C03
namespace Spdx.C03
open Spdx.G

theorem g_reconstructed_lic (id : Bytes) (p : Bool) (e : Option Bytes) :
    reconstructedP (toG (.lic id p e)) = .ok (some (render (.lic id p e))) := by
  cases e <;> cases p <;> simp [reconstructedP, toG, licenseP, hasPlusG, hasExceptionG, exceptionP, isLicense, star, Out.bind, render]

theorem g_reconstructed_ref (d : Option Bytes) (i : Bytes) :
    reconstructedP (toG (.ref d i)) = .ok (some (render (.ref d i))) := by
  cases d <;> simp [reconstructedP, toG, licenseRefP, hasDocumentRefG, documentRefP, isLicenseRef, star, Out.bind, render]

theorem g_compareGT (a b : Bytes) (pa pb : Bool) (ea eb : Option Bytes) :
    compareGTG (toG (.lic a pa ea)) (toG (.lic b pb eb)) = .ok (compareGT a b) := by
  rcases hA : pos a with _ | ⟨i, j⟩ <;> rcases hB : pos b with _ | ⟨k, l⟩ <;>
    simp [compareGTG, toG, isLicense, licenseP, star, Out.bind, compareGT, sameGroup, hA, hB]
  by_cases h : i = k <;> simp [h]

theorem g_compareEQ (a b : Bytes) (pa pb : Bool) (ea eb : Option Bytes) :
    compareEQG (toG (.lic a pa ea)) (toG (.lic b pb eb)) = .ok (compareEQ a b) := by
  by_cases hab : a = b
  · simp [compareEQG, toG, isLicense, star, Out.bind, compareEQ, hab]
  · rcases hA : pos a with _ | ⟨i, j⟩ <;> rcases hB : pos b with _ | ⟨k, l⟩ <;>
      simp [compareEQG, toG, isLicense, licenseP, star, Out.bind, compareEQ, sameGroup, hA, hB, hab]
    by_cases h : i = k <;> simp [h, hab]

theorem g_exceptions (a b : Bytes) (pa pb : Bool) (ea eb : Option Bytes) :
    exceptionsAreCompatibleG (toG (.lic a pa ea)) (toG (.lic b pb eb)) = .ok (ea == eb) := by
  cases ea <;> cases eb <;> simp [exceptionsAreCompatibleG, toG, hasExceptionG, exceptionP, isLicense, star, Out.bind]

/-- **matching with pointers = the model's `matchLeaf`**, on every pair of nodes — no accessor result, partial or range
    pointer is dereferenced while nil -/
theorem g_match_refines (x y : Node) : matchG (toG x) (toG y) = .ok (matchLeaf x y) := by
  cases x with
  | lic a pa ea =>
    cases y with
    | lic b pb eb =>
      have hex := g_exceptions a b pa pb ea eb
      have hrl : licensesExactlyEqualG (toG (.lic a pa ea)) (toG (.lic b pb eb))
          = .ok (foldEq (render (.lic a pa ea)) (render (.lic b pb eb))) := by
        simp only [licensesExactlyEqualG, g_reconstructed_lic, star, Out.bind]
      have hgt := g_compareGT a b pa pb ea eb
      have hgt' := g_compareGT b a pb pa eb ea
      have heq := g_compareEQ a b pa pb ea eb
      have heq' := g_compareEQ b a pb pa eb ea
      have hlic : licensesAreCompatibleG (toG (.lic a pa ea)) (toG (.lic b pb eb)) = .ok (matchLeaf (.lic a pa ea) (.lic b pb eb)) := by
        unfold licensesAreCompatibleG matchLeaf
        rw [hex, hrl]
        simp only [identifierInRangeG, hgt, hgt', heq, heq', rangesAreCompatibleG]
        by_cases h1 : ea = eb
        · subst h1
          by_cases h2 : foldEq (render (.lic a pa ea)) (render (.lic b pb ea)) = true
          · simp [h2, toG, isLicense, Out.bind]
          · cases pa <;> cases pb <;>
              simp [h2, toG, isLicense, Out.bind, hasPlusG, licenseP, star] <;>
              (first | (cases compareGT a b <;> simp) | (cases compareGT b a <;> simp) | skip)
        · simp [h1, toG, isLicense, Out.bind]
      unfold matchG
      rw [hlic]
      cases h : matchLeaf (.lic a pa ea) (.lic b pb eb)
      · simp [Out.bind, licenseRefsAreCompatibleG, toG, isLicenseRef]
      · simp [Out.bind]
    | ref d i => simp [matchG, licensesAreCompatibleG, licenseRefsAreCompatibleG, toG, isLicense, isLicenseRef, Out.bind, matchLeaf]
    | and l r => simp [matchG, licensesAreCompatibleG, licenseRefsAreCompatibleG, toG, isLicense, isLicenseRef, Out.bind, matchLeaf]
    | or l r => simp [matchG, licensesAreCompatibleG, licenseRefsAreCompatibleG, toG, isLicense, isLicenseRef, Out.bind, matchLeaf]
  | ref da a =>
    cases y with
    | ref db b =>
      cases da <;> cases db <;>
        simp [matchG, licensesAreCompatibleG, licenseRefsAreCompatibleG, toG, isLicense, isLicenseRef, Out.bind, matchLeaf,
          licenseRefP, hasDocumentRefG, documentRefP, star] <;>
        (try (intro h1 h2; exact absurd h2 h1))
    | lic b pb eb => simp [matchG, licensesAreCompatibleG, licenseRefsAreCompatibleG, toG, isLicense, isLicenseRef, Out.bind, matchLeaf]
    | and l r => simp [matchG, licensesAreCompatibleG, licenseRefsAreCompatibleG, toG, isLicense, isLicenseRef, Out.bind, matchLeaf]
    | or l r => simp [matchG, licensesAreCompatibleG, licenseRefsAreCompatibleG, toG, isLicense, isLicenseRef, Out.bind, matchLeaf]
  | and l r => cases y <;> simp [matchG, licensesAreCompatibleG, licenseRefsAreCompatibleG, toG, isLicense, isLicenseRef, Out.bind, matchLeaf]
  | or l r => cases y <;> simp [matchG, licensesAreCompatibleG, licenseRefsAreCompatibleG, toG, isLicense, isLicenseRef, Out.bind, matchLeaf]

theorem g_match_never_panics (x y : Node) : matchG (toG x) (toG y) ≠ .panic := by
  rw [g_match_refines]; intro hc; cases hc

theorem anyG_ok {α} (f : α → Out Bool) (g : α → Bool) (h : ∀ x, f x = .ok (g x)) (l : List α) : anyG f l = .ok (l.any g) := by
  induction l with
  | nil => rfl
  | cons x xs ih => simp only [anyG, h x, Out.bind, ih, List.any_cons]; cases g x <;> simp

theorem allG_ok {α} (f : α → Out Bool) (g : α → Bool) (h : ∀ x, f x = .ok (g x)) (l : List α) : allG f l = .ok (l.all g) := by
  induction l with
  | nil => rfl
  | cons x xs ih => simp only [allG, h x, Out.bind, ih, List.all_cons]; cases g x <;> simp

/-- the two loops of `isCompatible` over pointer-level matching = the model's `isCompatible` -/
theorem g_isCompatible_refines (part allowed : List Node) : isCompatibleG part allowed = .ok (isCompatible part allowed) := by
  unfold isCompatibleG isCompatible isCompatibleBy
  exact allG_ok _ _ (fun e => anyG_ok _ _ (fun a => g_match_refines e a) allowed) part

/-- the layer expresses the defect: a licence-role node whose partial is nil panics in `hasPlus()` -/
example : (match hasPlusG { role := .license, lic := none, ref := none } with | .panic => true | .ok _ => false) = true := by decide
/-- … and so does `firstRange.location[...]` without the `sameLicenseGroup` guard, for an id outside the table -/
example : (match (star (none : Option (Nat × Nat))) with | .panic => true | .ok _ => false) = true := by decide

/-- functions of package spdxexp that contain a `*` expression (dereferences, and pointer types written in bodies), with
    their number — each accounted for: the accessor results dereferenced in `compareGT/LT/EQ`, `reconstructedLicenseString`,
    `licenseRefsAreCompatible`, `rangesAreCompatible`, `exceptionsAreCompatible`, `licensesExactlyEqual`, `isOr/AndExpression`
    (part 7, above), `ExtractLicenses`, `sortLicenses`, `sortAndDedup`, `deepSort` (`*reconstructedLicenseString()`, parts 3–4);
    the remaining ones are pointer TYPES (`[]*node`, `*node` in composite literals and `make`) or `node.string` (debug output,
    never called by the exported functions). -/
def derefSites : List (Bytes × Nat) :=
  (Census.partialOps.filter (fun p => !Nat.beq p.2.2.2.2.1 0)).map (fun p => (p.2.1, p.2.2.2.2.1))

/-- a new dereference anywhere in the package breaks this obligation until it has been looked at -/
theorem deref_sites_accounted : beqSites derefSites
    [(name "compareGT", 2),
     (name "compareLT", 2),
     (name "compareEQ", 2),
     (name "ExtractLicenses", 1),
     (name "node.isOrExpression", 1),
     (name "node.isAndExpression", 1),
     (name "node.reconstructedLicenseString", 4),
     (name "sortLicenses", 2),
     (name "nodePair.licenseRefsAreCompatible", 4),
     (name "nodePair.rangesAreCompatible", 4),
     (name "nodePair.exceptionsAreCompatible", 4),
     (name "nodePair.licensesExactlyEqual", 2),
     (name "tokenStream.parseExpression", 1),
     (name "tokenStream.parseLicense", 1),
     (name "node.string", 3),
     (name "stringsToNodes", 1),
     (name "node.expand", 2),
     (name "node.expandOr", 1),
     (name "expandOrTerm", 1),
     (name "expandAndTerm", 2),
     (name "appendTerms", 2),
     (name "sortAndDedup", 2),
     (name "deepSort", 2),
     (name "scan", 2)] = true := by
  decide +kernel

end Spdx.C03
