/-
C11 (oracle form) — `X-v1+` matches `X-v2` iff `v2` is the same or a later version of the same family, family and version
being READ OFF THE IDS by the oracle of Spec/Version.lean (not taken from the table).
-/
import SpdxVerif.Props.C11
import SpdxVerif.Lemmas.Spelling
namespace Spdx.C11

def verLeO : Option Ver → Option Ver → Bool
  | some a, some b => verLe a b
  | _, _ => false

/-- what the implementation computes from table positions -/
def reachByPos (a b : Bytes) : Bool :=
  match pos a, pos b with
  | some (i, j), some (k, l) => Nat.beq i k && Nat.ble j l
  | _, _ => false

/-- what the property demands, from the ids alone: same family key, version of `a` not later than that of `b` -/
def reachByOracle (a b : Bytes) : Bool := optBytesEq (famKey a) (famKey b) && verLeO (verOf a) (verOf b)

def reachAgree : Bool := liveRangeIds.all (fun a => liveRangeIds.all (fun b => reachByPos a b == reachByOracle a b))

/-- **table obligation** (all ordered pairs of ids of the regenerated range table, decided in the kernel): position order
    is true version order, and ids of different families never reach each other -/
theorem reach_agree : reachAgree = true := by decide +kernel

theorem reach_agree_at (a b : Bytes) (ha : a ∈ liveRangeIds) (hb : b ∈ liveRangeIds) : reachByPos a b = reachByOracle a b := by
  have := List.all_eq_true.mp (List.all_eq_true.mp reach_agree a ha) b hb
  simpa using this

/-- a `+` term and a term without `+` never have fold-equal canonical texts -/
theorem foldEq_plus_noplus (a b : Bytes) (e e' : Option Bytes) (ha : allId a = true) (hb : allId b = true) :
    foldEq (render (.lic a true e)) (render (.lic b false e')) = false := by
  cases h : foldEq (render (.lic a true e)) (render (.lic b false e')) with
  | false => rfl
  | true =>
    exfalso
    rw [foldEq_iff, render_lic, render_lic, lower_append', lower_append'] at h
    have t1 := takeWhile_word (lower a) (lower (licTail true e)) (by rw [lower_allId]; exact ha) (stops_lower_licTail true e)
    have t2 := takeWhile_word (lower b) (lower (licTail false e')) (by rw [lower_allId]; exact hb) (stops_lower_licTail false e')
    rw [h] at t1
    have htl : lower (licTail true e) = lower (licTail false e') := t1.2.symm.trans t2.2
    rw [lower_licTail, lower_licTail] at htl
    cases e <;> cases e' <;> simp at htl

/-- **C11.** For two different ids `a`, `b` of the range table (same exception on both sides): `a+` matches `b` iff the
oracle reads the same family off both ids and `a`'s version is not later than `b`'s. -/
theorem plus_reach_oracle (a b : Bytes) (e : Option Bytes) (ha : a ∈ liveRangeIds) (hb : b ∈ liveRangeIds) (hne : a ≠ b)
    (hia : allId a = true) (hib : allId b = true) :
    matchLeaf (.lic a true e) (.lic b false e) = reachByOracle a b := by
  rw [← reach_agree_at a b ha hb]
  have hfold := foldEq_plus_noplus a b e e hia hib
  unfold reachByPos
  cases hpa : pos a with
  | none => exact C11.plus_never_leaves_table a b false e hpa hne hfold
  | some p =>
    obtain ⟨i, j⟩ := p
    cases hpb : pos b with
    | none =>
      rw [matchLeaf_symm]
      have : foldEq (render (.lic b false e)) (render (.lic a true e)) = false := by rw [foldEq_symm]; exact hfold
      exact C02.unranged_matches_only_itself b a false true e hpb (Ne.symm hne) this
    | some q =>
      obtain ⟨k, l⟩ := q
      rw [C11.plus_reach_pos a b e i j k l hpa hpb hne hfold]
      simp only
      cases h1 : (i == k) <;> cases h2 : Nat.beq i k <;> simp_all
      · rw [Bool.eq_iff_iff]; simp [Nat.ble_eq]

/-- `+` never makes an id match an id of a different family -/
theorem plus_never_crosses_family (a b : Bytes) (e : Option Bytes) (ha : a ∈ liveRangeIds) (hb : b ∈ liveRangeIds) (hne : a ≠ b)
    (hia : allId a = true) (hib : allId b = true) (h : matchLeaf (.lic a true e) (.lic b false e) = true) :
    optBytesEq (famKey a) (famKey b) = true := by
  rw [plus_reach_oracle a b e ha hb hne hia hib] at h
  simp only [reachByOracle, Bool.and_eq_true] at h
  exact h.1

/-- the ids of the range table are id-byte strings (so the hypotheses above hold for every entry) -/
theorem range_ids_are_id_bytes : liveRangeIds.all allId = true := by decide +kernel

/-! ### non-vacuity -/
section
private def lgpl20 : Bytes := [76,71,80,76,45,50,46,48]            -- LGPL-2.0
private def lgpl21 : Bytes := [76,71,80,76,45,50,46,49]            -- LGPL-2.1
private def lgpl30 : Bytes := [76,71,80,76,45,51,46,48]            -- LGPL-3.0
private def gpl30 : Bytes := [71,80,76,45,51,46,48]                -- GPL-3.0
example : reachByOracle lgpl20 lgpl21 = true ∧ reachByOracle lgpl21 lgpl20 = false ∧ reachByOracle lgpl20 gpl30 = false := by
  decide +kernel
example : lgpl20 ∈ liveRangeIds ∧ lgpl30 ∈ liveRangeIds := by decide +kernel
end

end Spdx.C11

namespace Spdx.C11

/-! ### the other three `+` cases in oracle form -/

def verEqO : Option Ver → Option Ver → Bool
  | some a, some b => verEq a b
  | _, _ => false

def eqByPos (a b : Bytes) : Bool :=
  match pos a, pos b with
  | some (i, j), some (k, l) => Nat.beq i k && Nat.beq j l
  | _, _ => false
def famByPos (a b : Bytes) : Bool :=
  match pos a, pos b with
  | some (i, _), some (k, _) => Nat.beq i k
  | _, _ => false

def casesAgree : Bool :=
  liveRangeIds.all (fun a => liveRangeIds.all (fun b =>
    (eqByPos a b == (optBytesEq (famKey a) (famKey b) && verEqO (verOf a) (verOf b))) &&
    (famByPos a b == optBytesEq (famKey a) (famKey b))))

/-- **table obligation**: same version group ⇔ same family and equal version; same table family ⇔ same family key —
    for all ordered pairs of table ids, family and version read off the ids -/
theorem cases_agree : casesAgree = true := by decide +kernel

/-- neither side has `+`: two different table ids match iff the oracle reads the same family and the same version -/
theorem noplus_match_oracle (a b : Bytes) (e : Option Bytes) (ha : a ∈ liveRangeIds) (hb : b ∈ liveRangeIds) (hne : a ≠ b)
    (hfold : foldEq (render (.lic a false e)) (render (.lic b false e)) = false) :
    matchLeaf (.lic a false e) (.lic b false e) = (optBytesEq (famKey a) (famKey b) && verEqO (verOf a) (verOf b)) := by
  have hag := List.all_eq_true.mp (List.all_eq_true.mp cases_agree a ha) b hb
  simp only [Bool.and_eq_true, beq_iff_eq] at hag
  rw [← hag.1]
  unfold eqByPos
  cases hpa : pos a with
  | none => exact C02.unranged_matches_only_itself a b false false e hpa hne hfold
  | some p =>
    obtain ⟨i, j⟩ := p
    cases hpb : pos b with
    | none =>
      rw [matchLeaf_symm]
      exact C02.unranged_matches_only_itself b a false false e hpb (Ne.symm hne) (by rw [foldEq_symm]; exact hfold)
    | some q =>
      obtain ⟨k, l⟩ := q
      rw [C02.version_rule a b false false e i j k l hpa hpb hne hfold]
      simp only
      cases h1 : (i == k) <;> cases h2 : Nat.beq i k <;> cases h3 : (j == l) <;> cases h4 : Nat.beq j l <;> simp_all

/-- both sides have `+`: two different table ids match iff the oracle reads the same family -/
theorem bothplus_match_oracle (a b : Bytes) (e : Option Bytes) (ha : a ∈ liveRangeIds) (hb : b ∈ liveRangeIds) (hne : a ≠ b)
    (hfold : foldEq (render (.lic a true e)) (render (.lic b true e)) = false) :
    matchLeaf (.lic a true e) (.lic b true e) = optBytesEq (famKey a) (famKey b) := by
  have hag := List.all_eq_true.mp (List.all_eq_true.mp cases_agree a ha) b hb
  simp only [Bool.and_eq_true, beq_iff_eq] at hag
  rw [← hag.2]
  unfold famByPos
  cases hpa : pos a with
  | none => exact C02.unranged_matches_only_itself a b true true e hpa hne hfold
  | some p =>
    obtain ⟨i, j⟩ := p
    cases hpb : pos b with
    | none =>
      rw [matchLeaf_symm]
      exact C02.unranged_matches_only_itself b a true true e hpb (Ne.symm hne) (by rw [foldEq_symm]; exact hfold)
    | some q =>
      obtain ⟨k, l⟩ := q
      rw [C02.version_rule a b true true e i j k l hpa hpb hne hfold]
      simp only
      cases h1 : (i == k) <;> cases h2 : Nat.beq i k <;> simp_all

end Spdx.C11
