/-
C10 — expressions denoting the same Boolean function get the same verdict.
-/
import SpdxVerif.Lemmas.Expand
namespace Spdx.C10

/-- **C10.** If two trees denote the same Boolean function of their terms, every allowed list gives them the same
verdict — for any single-term matcher. -/
theorem verdict_of_eval_eq (m : Node → Node → Bool) (n₁ n₂ : Node) (h : ∀ p, eval p n₁ = eval p n₂) (A : List Node) :
    verdictBy m n₁ A = verdictBy m n₂ A := by
  rw [verdictBy_eq_eval, verdictBy_eq_eval, h]

/-- `Satisfies('(E) AND (F)', A) = Satisfies(E, A) and Satisfies(F, A)`, likewise for OR (tree level) -/
theorem verdict_and (m) (e f : Node) (A : List Node) :
    verdictBy m (.and e f) A = (verdictBy m e A && verdictBy m f A) := by
  simp [verdictBy_eq_eval, eval]
theorem verdict_or (m) (e f : Node) (A : List Node) :
    verdictBy m (.or e f) A = (verdictBy m e A || verdictBy m f A) := by
  simp [verdictBy_eq_eval, eval]

/-! the Boolean-algebra rewrites, each an instance of `verdict_of_eval_eq` -/
variable (m : Node → Node → Bool) (A : List Node) (x y z : Node)

theorem and_comm : verdictBy m (.and x y) A = verdictBy m (.and y x) A :=
  verdict_of_eval_eq m _ _ (fun p => by simp [eval, Bool.and_comm]) A
theorem or_comm : verdictBy m (.or x y) A = verdictBy m (.or y x) A :=
  verdict_of_eval_eq m _ _ (fun p => by simp [eval, Bool.or_comm]) A
theorem and_assoc : verdictBy m (.and (.and x y) z) A = verdictBy m (.and x (.and y z)) A :=
  verdict_of_eval_eq m _ _ (fun p => by simp [eval, Bool.and_assoc]) A
theorem or_assoc : verdictBy m (.or (.or x y) z) A = verdictBy m (.or x (.or y z)) A :=
  verdict_of_eval_eq m _ _ (fun p => by simp [eval, Bool.or_assoc]) A
theorem and_idem : verdictBy m (.and x x) A = verdictBy m x A :=
  verdict_of_eval_eq m _ _ (fun p => by simp [eval]) A
theorem or_idem : verdictBy m (.or x x) A = verdictBy m x A :=
  verdict_of_eval_eq m _ _ (fun p => by simp [eval]) A
theorem absorb_and : verdictBy m (.and x (.or x y)) A = verdictBy m x A :=
  verdict_of_eval_eq m _ _ (fun p => by simp only [eval]; cases eval p x <;> cases eval p y <;> rfl) A
theorem absorb_or : verdictBy m (.or x (.and x y)) A = verdictBy m x A :=
  verdict_of_eval_eq m _ _ (fun p => by simp only [eval]; cases eval p x <;> cases eval p y <;> rfl) A
theorem distrib_and_or : verdictBy m (.and x (.or y z)) A = verdictBy m (.or (.and x y) (.and x z)) A :=
  verdict_of_eval_eq m _ _ (fun p => by simp only [eval]; cases eval p x <;> cases eval p y <;> cases eval p z <;> rfl) A
theorem distrib_or_and : verdictBy m (.or x (.and y z)) A = verdictBy m (.and (.or x y) (.or x z)) A :=
  verdict_of_eval_eq m _ _ (fun p => by simp only [eval]; cases eval p x <;> cases eval p y <;> cases eval p z <;> rfl) A

/-- rewriting inside a context: congruence of the verdict under AND / OR -/
theorem congr_and (x x' y y' : Node) (hx : ∀ p, eval p x = eval p x') (hy : ∀ p, eval p y = eval p y') :
    verdictBy m (.and x y) A = verdictBy m (.and x' y') A :=
  verdict_of_eval_eq m _ _ (fun p => by simp [eval, hx, hy]) A
theorem congr_or (x x' y y' : Node) (hx : ∀ p, eval p x = eval p x') (hy : ∀ p, eval p y = eval p y') :
    verdictBy m (.or x y) A = verdictBy m (.or x' y') A :=
  verdict_of_eval_eq m _ _ (fun p => by simp [eval, hx, hy]) A

end Spdx.C10
