/-
C09 (string level) — changing the letter case of a listed identifier, in the expression or in the allowed list, changes
neither validity nor the result of Satisfies nor what ExtractLicenses returns; the output carries the lists' own casing.
-/
import SpdxVerif.Lemmas.CaseVariant
import SpdxVerif.Props.C07List
import SpdxVerif.Props.C06
namespace Spdx.C09

/-- everything the three entry points compute depends on a string only through its tree -/
theorem valid_of_tree (s s' : Bytes) (h : tree s = tree s') : valid s = valid s' := by
  rw [valid_eq_tree, valid_eq_tree, h]
theorem extract_of_tree (s s' : Bytes) (h : tree s = tree s') : extract s = extract s' := by
  rw [extract_eq_tree, extract_eq_tree, h]
theorem leafOf_of_tree (s s' : Bytes) (h : tree s = tree s') : leafOf s = leafOf s' := by
  unfold leafOf
  unfold tree at h
  cases hp : parse s <;> cases hp' : parse s' <;> simp_all [Except.toOption]
theorem satisfies_of_tree (e e' : Bytes) (L : List Bytes) (h : tree e = tree e') :
    C07.outcome (satisfies e L) = C07.outcome (satisfies e' L) := by
  unfold tree at h
  unfold satisfies C07.outcome
  cases hp : parse e <;> cases hp' : parse e' <;> simp_all [Except.toOption]

/-- **a listed id at the start of the text may be re-cased freely**: same tree (hence same validity, same `Satisfies`,
    same `ExtractLicenses`).  `b` is the rest of the text; it is empty or begins with a byte that cannot continue an id. -/
theorem tree_caseVariant_head (w w' b : Bytes) (hw : w ∈ listedAll) (hid : allId w = true) (h : lower w' = lower w)
    (hb : Stops b) : tree (w' ++ b) = tree (w ++ b) :=
  tree_eq_of_toks _ _ (toks_caseVariant_head w w' b hw hid h hb)

/-- **… and so may a listed id anywhere after a space or a parenthesis** (every position an id can validly occupy:
    after `(`, after `AND `/`OR `/`WITH `, after leading spaces) -/
theorem tree_caseVariant_ctx (a : Bytes) (sep : Nat) (w w' b : Bytes) (hsep : sep = 32 ∨ sep = 40 ∨ sep = 41)
    (hw : w ∈ listedAll) (hid : allId w = true) (h : lower w' = lower w) (hb : Stops b) :
    tree (a ++ sep :: (w' ++ b)) = tree (a ++ sep :: (w ++ b)) :=
  tree_eq_of_toks _ _ (toks_caseVariant_ctx a sep w w' b hsep hw hid h hb)

/-- consequences for the three entry points, expression side -/
theorem caseVariant_expression (a : Bytes) (sep : Nat) (w w' b : Bytes) (L : List Bytes) (hsep : sep = 32 ∨ sep = 40 ∨ sep = 41)
    (hw : w ∈ listedAll) (hid : allId w = true) (h : lower w' = lower w) (hb : Stops b) :
    valid (a ++ sep :: (w' ++ b)) = valid (a ++ sep :: (w ++ b)) ∧
    extract (a ++ sep :: (w' ++ b)) = extract (a ++ sep :: (w ++ b)) ∧
    C07.outcome (satisfies (a ++ sep :: (w' ++ b)) L) = C07.outcome (satisfies (a ++ sep :: (w ++ b)) L) := by
  have := tree_caseVariant_ctx a sep w w' b hsep hw hid h hb
  exact ⟨valid_of_tree _ _ this, extract_of_tree _ _ this, satisfies_of_tree _ _ L this⟩

/-- … and allowed-list side: re-casing a listed id inside an entry never changes the result -/
theorem caseVariant_allowed_entry (e : Bytes) (pre post : List Bytes) (w w' b : Bytes)
    (hw : w ∈ listedAll) (hid : allId w = true) (h : lower w' = lower w) (hb : Stops b) :
    C07.outcome (satisfies e (pre ++ (w' ++ b) :: post)) = C07.outcome (satisfies e (pre ++ (w ++ b) :: post)) :=
  C07.satisfies_respell e pre post _ _ (leafOf_of_tree _ _ (tree_caseVariant_head w w' b hw hid h hb))

/-- **output casing is canonical**: every licence id in what `ExtractLicenses` returns is a member of the active or
    deprecated list and every exception id a member of the exception list — spelled exactly as listed -/
theorem extract_canonical (s : Bytes) (out : List Bytes) (x : Bytes) (h : extract s = some out) (hx : x ∈ out) :
    ∃ t, x = render t ∧
      (∀ c p e, t = .lic c p e → c ∈ Tables.active ++ Tables.deprecated ∧ ∀ y, e = some y → y ∈ Tables.exceptions) := by
  cases hp : parse s with
  | error err => simp [extract, hp] at h
  | ok n =>
    obtain ⟨t, ht, rfl⟩ := (C06.extract_mem s n out hp h x).mp hx
    refine ⟨t, rfl, ?_⟩
    intro c p e hte
    subst hte
    have := parse_leavesOK s n hp _ ht
    exact ⟨this.1.mem, fun y hy => (this.2.2.2 y hy).mem⟩

/-- the ids the claim is about are id-byte strings (the six deprecated `X+` ids contain `+`, are never produced by the
    scanner, and are reached through `X-or-later`) -/
def plainListed : Bool := (Tables.active ++ Tables.exceptions).all allId
theorem active_and_exceptions_are_id_bytes : plainListed = true := by decide +kernel

/-! ### non-vacuity -/
section
private def apache : Bytes := [65,112,97,99,104,101,45,50,46,48]       -- Apache-2.0
private def apacheU : Bytes := [65,80,65,67,72,69,45,50,46,48]         -- APACHE-2.0
private def pre : Bytes := [77,73,84,32,79,82]                         -- "MIT OR"
example : apache ∈ listedAll ∧ allId apache = true ∧ lower apacheU = lower apache := by decide +kernel
example : tree (pre ++ 32 :: (apacheU ++ [])) = tree (pre ++ 32 :: (apache ++ [])) := by decide +kernel
example : (tree (pre ++ 32 :: (apacheU ++ []))).isSome = true := by decide +kernel
end

end Spdx.C09
