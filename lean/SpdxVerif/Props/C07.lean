/-
C07 — the allowed list behaves as a set and the verdict is monotone in it.
-/
import SpdxVerif.Lemmas.Expand
namespace Spdx.C07

theorem eval_congr (p q : Node → Bool) (n : Node) (h : ∀ t ∈ leaves n, p t = q t) : eval p n = eval q n := by
  induction n with
  | lic => simp [eval, leaves] at *; exact h
  | ref => simp [eval, leaves] at *; exact h
  | and l r ihl ihr =>
    simp only [eval, leaves, List.mem_append] at *
    rw [ihl (fun t ht => h t (Or.inl ht)), ihr (fun t ht => h t (Or.inr ht))]
  | or l r ihl ihr =>
    simp only [eval, leaves, List.mem_append] at *
    rw [ihl (fun t ht => h t (Or.inl ht)), ihr (fun t ht => h t (Or.inr ht))]

theorem eval_mono (p q : Node → Bool) (n : Node) (h : ∀ t, p t = true → q t = true) :
    eval p n = true → eval q n = true := by
  induction n with
  | lic => simpa [eval] using h _
  | ref => simpa [eval] using h _
  | and l r ihl ihr => simp only [eval, Bool.and_eq_true]; exact fun ⟨a, b⟩ => ⟨ihl a, ihr b⟩
  | or l r ihl ihr =>
    simp only [eval, Bool.or_eq_true]
    exact fun h => h.elim (fun a => Or.inl (ihl a)) (fun b => Or.inr (ihr b))

/-- **the verdict depends only on which terms the list covers** (for any single-term matcher) -/
theorem verdict_congr (m : Node → Node → Bool) (n : Node) (A B : List Node)
    (h : ∀ t, coveredBy m A t = coveredBy m B t) : verdictBy m n A = verdictBy m n B := by
  rw [verdictBy_eq_eval, verdictBy_eq_eval]
  exact eval_congr _ _ n (fun t _ => h t)

/-- reordering the allowed nodes never changes the verdict -/
theorem verdict_perm (m : Node → Node → Bool) (n : Node) {A B : List Node} (h : A.Perm B) :
    verdictBy m n A = verdictBy m n B :=
  verdict_congr m n A B (fun t => any_perm (fun a => m t a) h)

/-- the verdict depends only on the SET of allowed nodes: reordering and repetition are irrelevant -/
theorem verdict_set (m : Node → Node → Bool) (n : Node) (A B : List Node)
    (h : ∀ a, a ∈ A ↔ a ∈ B) : verdictBy m n A = verdictBy m n B := by
  apply verdict_congr
  intro t
  unfold coveredBy
  rw [Bool.eq_iff_iff]
  simp only [List.any_eq_true]
  constructor
  · rintro ⟨a, ha, hm⟩; exact ⟨a, (h a).mp ha, hm⟩
  · rintro ⟨a, ha, hm⟩; exact ⟨a, (h a).mpr ha, hm⟩

/-- repeating an entry never changes the verdict -/
theorem verdict_dup (m : Node → Node → Bool) (n : Node) (A : List Node) (a : Node) (ha : a ∈ A) :
    verdictBy m n (a :: A) = verdictBy m n A := by
  apply verdict_set
  intro x; simp only [List.mem_cons]
  constructor
  · rintro (rfl | h); exact ha; exact h
  · exact Or.inr

/-- **monotone**: adding allowed nodes can turn 'not satisfied' into 'satisfied', never the reverse -/
theorem verdict_mono (m : Node → Node → Bool) (n : Node) (A B : List Node) (h : ∀ a ∈ A, a ∈ B) :
    verdictBy m n A = true → verdictBy m n B = true := by
  rw [verdictBy_eq_eval, verdictBy_eq_eval]
  apply eval_mono
  intro t
  simp only [coveredBy, List.any_eq_true]
  rintro ⟨a, ha, hm⟩; exact ⟨a, h a ha, hm⟩

/-! ### the in-place sort-and-dedup of the allowed nodes (whose returned slice `Satisfies` discards) keeps the set -/

theorem dedupInPlace_go_spec (p : Node) (kept : List Node) (ys : List Node) :
    (∀ x, x ∈ dedupInPlace.go p kept ys → x ∈ kept ∨ x ∈ ys) ∧
    (dedupInPlace.go p kept ys).length ≤ kept.length + ys.length ∧
    kept.length ≤ (dedupInPlace.go p kept ys).length := by
  induction ys generalizing p kept with
  | nil => simp [dedupInPlace.go]
  | cons y ys ih =>
    simp only [dedupInPlace.go]
    split
    · obtain ⟨h1, h2, h3⟩ := ih y (y :: kept)
      refine ⟨?_, ?_, ?_⟩
      · intro x hx
        rcases h1 x hx with h | h
        · simp only [List.mem_cons] at h; rcases h with rfl | h
          · right; simp
          · left; exact h
        · right; simp [h]
      · simp only [List.length_cons] at *; omega
      · simp only [List.length_cons] at *; omega
    · obtain ⟨h1, h2, h3⟩ := ih y kept
      refine ⟨?_, ?_, ?_⟩
      · intro x hx
        rcases h1 x hx with h | h
        · left; exact h
        · right; simp [h]
      · simp only [List.length_cons] at *; omega
      · exact h3

/-- everything in the array after the call was in it before -/
theorem dedupInPlace_subset (l : List Node) : ∀ x, x ∈ dedupInPlace l → x ∈ l := by
  cases l with
  | nil => simp [dedupInPlace]
  | cons a as =>
    intro x hx
    simp only [dedupInPlace, List.mem_append] at hx
    rcases hx with h | h
    · rcases (dedupInPlace_go_spec a [a] as).1 x h with h | h
      · simp at h; simp [h]
      · simp [h]
    · exact List.mem_of_mem_drop h

theorem sortAndDedupArray_subset (A : List Node) : ∀ x, x ∈ sortAndDedupArray A → x ∈ A := by
  intro x hx
  unfold sortAndDedupArray at hx
  split at hx
  · exact hx
  · have := dedupInPlace_subset _ x hx
    exact (sortBy_perm _ A).mem_iff.mp this

/-- hence the list `Satisfies` actually searches never covers more than the caller's list -/
theorem verdict_sortAndDedup_le (n : Node) (A : List Node) :
    verdict n (sortAndDedupArray A) = true → verdict n A = true :=
  verdict_mono matchLeaf n _ _ (sortAndDedupArray_subset A)

end Spdx.C07
