/-
Props/C03Api — C03 / C01: the Go-shaped `Satisfies`, end to end, returns normally on every pair of arguments and
returns what the main model's `satisfies` returns — for every growth policy of `append`.
-/
import SpdxVerif.Model.GoApi
import SpdxVerif.Props.C03
import SpdxVerif.Props.C01Heap
import SpdxVerif.Props.C03Match
namespace Spdx.C03
open Spdx.G

theorem g_stringsToNodes_refines (L : List Bytes) : stringsToNodesG L = .ok (toNodes L) := by
  induction L with
  | nil => rfl
  | cons s ss ih =>
    simp only [stringsToNodesG, toNodes, g_parse_refines s, bind_ok]
    cases parse s with
    | error e => rfl
    | ok n =>
      simp only []
      split
      · rw [ih]; simp only [bind_ok]
      · rfl

theorem g_expand_refines (grow : Nat → Nat → Nat) (n : Node) : expandG grow n = .ok (expand n) := by
  unfold expandG
  by_cases hn : n.isLeaf = true
  · simp [hn, expand]
  · have hn' : n.isLeaf = false := by simpa using hn
    simp only [hn', Bool.false_eq_true, if_false]
    rw [C01.heap_expand_refines]
    have h1 : mapM' keysG (expandTerm n) = .ok ((expandTerm n).map (fun part => part.map render)) := by
      apply mapM'_ok
      intro part hp
      exact mapM'_ok renderG render part (fun x hx => renderG_leaf x (leaves_isLeaf n x ((mem_flatten_expandTerm n x).mp (List.mem_flatten.mpr ⟨part, hp, hx⟩))))
    obtain ⟨b, h2⟩ := deepSortGuardG_ok (expandTerm n)
    rw [h1, h2]; simp only [bind_ok]
    rw [C01.heap_expand_eq_expand grow n hn']

/-- **`Satisfies`, Go-shaped end to end, equals the model's `satisfies`** — on every expression, every allowed list and
    every growth policy of `append`: no index, slice, write or dereference on the way panics, aliasing never changes an
    alternative, and the verdict is the one all the C01–C10 theorems are about -/
theorem g_satisfies_refines (grow : Nat → Nat → Nat) (e : Bytes) (L : List Bytes) :
    satisfiesG grow e L = .ok (satisfies e L) := by
  unfold satisfiesG satisfies
  rw [g_parse_refines e]; simp only [bind_ok]
  cases parse e with
  | error x => rfl
  | ok n =>
    simp only []
    split
    · rfl
    · rw [g_stringsToNodes_refines]; simp only [bind_ok]
      cases hA : toNodes L with
      | error x => rfl
      | ok A =>
        simp only []
        obtain ⟨out, hf, _⟩ := fillG_ok A.length (List.replicate A.length none) A 0 (by simp)
        obtain ⟨front, hs⟩ := g_sortAndDedup_refines L A hA
        rw [hf, hs, g_expand_refines]; simp only [bind_ok]
        rw [anyG_ok _ _ (fun part => g_isCompatible_refines part (sortAndDedupArray A))]
        rfl

theorem g_satisfies_never_panics (grow : Nat → Nat → Nat) (e : Bytes) (L : List Bytes) : satisfiesG grow e L ≠ .panic := by
  rw [g_satisfies_refines]; intro hc; cases hc

/-- `ExtractLicenses`, Go-shaped end to end (heap-level expansion included), equals the model's `extract` -/
theorem g_extract_refines (grow : Nat → Nat → Nat) (e : Bytes) : extractFullG grow e = .ok (extract e) := by
  unfold extractFullG extract
  rw [g_parse_refines e]; simp only [bind_ok]
  cases parse e with
  | error x => rfl
  | ok n =>
    simp only [g_expand_refines, bind_ok]
    rw [mapM'_ok renderG render _ (fun x hx => renderG_leaf x (by
      obtain ⟨part, hp, hxp⟩ := List.mem_flatten.mp hx
      exact expand_nodes_are_leaves n part hp x hxp))]
    rfl

theorem g_invalid_refines (ls : List Bytes) : invalidG ls = .ok (ls.filter (fun s => !valid s)) := by
  induction ls with
  | nil => rfl
  | cons s ss ih =>
    simp only [invalidG, g_parse_refines s, ih, bind_ok, List.filter_cons, valid]
    cases parse s <;> rfl

/-- `ValidateLicenses`, Go-shaped end to end, equals the model's `validate` -/
theorem g_validate_refines (ls : List Bytes) : validateG ls = .ok (validate ls) := by
  unfold validateG validate
  rw [g_invalid_refines]; rfl

/-- **C03 on layer G, all three entry points**: none of them panics, on any argument -/
theorem g_api_never_panics (grow : Nat → Nat → Nat) (e : Bytes) (L : List Bytes) :
    satisfiesG grow e L ≠ .panic ∧ extractFullG grow e ≠ .panic ∧ validateG L ≠ .panic := by
  refine ⟨g_satisfies_never_panics grow e L, ?_, ?_⟩
  · rw [g_extract_refines]; intro hc; cases hc
  · rw [g_validate_refines]; intro hc; cases hc

/-! ### non-vacuity: the composition computes (kernel-evaluated, Go's doubling policy)

The shape of defect D4 — a left-nested AND group of three terms (capacity 4, one spare slot) times two alternatives — with
the allowed list covering the FIRST alternative, a re-cased entry, and the same list without the covering entry. -/
private def d4shape : Bytes := str "((MIT AND ISC) AND Zlib) AND (0BSD OR W3C)"
example : (match satisfiesG H.growDouble d4shape [str "MIT", str "isc", str "Zlib", str "0BSD"] with
    | .ok (.ok true) => true | _ => false) = true := by decide +kernel
example : (match satisfiesG H.growDouble d4shape [str "MIT", str "isc", str "Zlib"] with
    | .ok (.ok false) => true | _ => false) = true := by decide +kernel
example : (match satisfiesG H.growDouble d4shape [str "MIT", str "MIT AND ISC"] with
    | .ok (.error .compoundEntry) => true | _ => false) = true := by decide +kernel
example : (match extractFullG H.growDouble d4shape with
    | .ok (some l) => l.length == 5 | _ => false) = true := by decide +kernel

end Spdx.C03
