/-
C14 (the polynomial fragment) — where exactly the known finding D8 sits.  `orRank n` is the largest number of
OR-groups that the expression multiplies together (AND adds the ranks of its operands, OR takes the larger, at least 1).
The number of alternatives is at most `terms ^ orRank`, so the cost of the algorithm as written is a polynomial of degree
`orRank + 1` in the length of the text; it is the rank, not the length, that the exponential family of D8 drives up
(`orRank (andOfOrs x y k) = k + 1`).  For every expression already in OR-of-ANDs shape the rank is at most 1 and the
expansion is linear in the text.
-/
import SpdxVerif.Props.C14Cost
namespace Spdx.C14

def orRank : Node → Nat
  | .and l r => orRank l + orRank r
  | .or l r => max 1 (max (orRank l) (orRank r))
  | _ => 0

/-- no OR below an AND -/
def orFree : Node → Bool
  | .and l r => orFree l && orFree r
  | .or _ _ => false
  | _ => true

/-- an OR of OR-free groups: the shape `expand` produces -/
def dnfShaped : Node → Bool
  | .or l r => dnfShaped l && dnfShaped r
  | n => orFree n

theorem pow_add_pow_le (a b : Nat) : ∀ m, 1 ≤ m → a ^ m + b ^ m ≤ (a + b) ^ m
  | 1, _ => by simp
  | m + 2, _ => by
    have ih := pow_add_pow_le a b (m + 1) (by omega)
    have h1 : a ^ (m + 1) * a ≤ a ^ (m + 1) * (a + b) := Nat.mul_le_mul_left _ (by omega)
    have h2 : b ^ (m + 1) * b ≤ b ^ (m + 1) * (a + b) := Nat.mul_le_mul_left _ (by omega)
    calc a ^ (m + 2) + b ^ (m + 2) = a ^ (m + 1) * a + b ^ (m + 1) * b := by
          rw [Nat.pow_succ a (m + 1), Nat.pow_succ b (m + 1)]
      _ ≤ a ^ (m + 1) * (a + b) + b ^ (m + 1) * (a + b) := Nat.add_le_add h1 h2
      _ = (a ^ (m + 1) + b ^ (m + 1)) * (a + b) := by rw [Nat.add_mul]
      _ ≤ (a + b) ^ (m + 1) * (a + b) := Nat.mul_le_mul_right _ ih
      _ = (a + b) ^ (m + 2) := by rw [← Nat.pow_succ]

/-- **alternatives ≤ terms ^ rank** -/
theorem alts_le_pow_rank (n : Node) : alts n ≤ leafCount n ^ orRank n := by
  induction n with
  | lic => simp [alts, orRank]
  | ref => simp [alts, orRank]
  | and l r ihl ihr =>
    simp only [alts, leafCount, orRank]
    calc alts l * alts r ≤ leafCount l ^ orRank l * leafCount r ^ orRank r := Nat.mul_le_mul ihl ihr
      _ ≤ (leafCount l + leafCount r) ^ orRank l * (leafCount l + leafCount r) ^ orRank r :=
          Nat.mul_le_mul (Nat.pow_le_pow_left (by omega) _) (Nat.pow_le_pow_left (by omega) _)
      _ = (leafCount l + leafCount r) ^ (orRank l + orRank r) := by rw [Nat.pow_add]
  | or l r ihl ihr =>
    simp only [alts, leafCount, orRank]
    have hl := leafCount_pos l
    have hr := leafCount_pos r
    have hm : 1 ≤ max 1 (max (orRank l) (orRank r)) := Nat.le_max_left _ _
    have h1 : leafCount l ^ orRank l ≤ leafCount l ^ max 1 (max (orRank l) (orRank r)) :=
      Nat.pow_le_pow_right hl (by omega)
    have h2 : leafCount r ^ orRank r ≤ leafCount r ^ max 1 (max (orRank l) (orRank r)) :=
      Nat.pow_le_pow_right hr (by omega)
    calc alts l + alts r ≤ leafCount l ^ max 1 (max (orRank l) (orRank r)) + leafCount r ^ max 1 (max (orRank l) (orRank r)) :=
          Nat.add_le_add (Nat.le_trans ihl h1) (Nat.le_trans ihr h2)
      _ ≤ _ := pow_add_pow_le _ _ _ hm

theorem orRank_orFree (n : Node) (h : orFree n = true) : orRank n = 0 := by
  induction n with
  | lic => rfl
  | ref => rfl
  | or l r _ _ => simp [orFree] at h
  | and l r ihl ihr =>
    simp only [orFree, Bool.and_eq_true] at h
    simp [orRank, ihl h.1, ihr h.2]

theorem orRank_dnfShaped (n : Node) (h : dnfShaped n = true) : orRank n ≤ 1 := by
  induction n with
  | lic => simp [orRank]
  | ref => simp [orRank]
  | and l r _ _ =>
    have := orRank_orFree (.and l r) (by simpa [dnfShaped] using h)
    omega
  | or l r ihl ihr =>
    simp only [dnfShaped, Bool.and_eq_true] at h
    have := ihl h.1
    have := ihr h.2
    simp only [orRank]
    omega

/-- the rank of the family of the known finding grows with the text: this, and nothing else, is what D8 exploits -/
theorem orRank_andOfOrs (x y : Node) (hx : x.isLeaf = true) (hy : y.isLeaf = true) (k : Nat) :
    orRank (andOfOrs x y k) = k + 1 := by
  have h0 : orRank (.or x y) = 1 := by
    cases x <;> cases y <;> simp_all [Node.isLeaf, orRank]
  induction k with
  | zero => simpa [andOfOrs] using h0
  | succ k ih => simp only [andOfOrs, orRank] at *; omega

/-- **the polynomial fragment, on byte strings**: an expression that multiplies at most `d` OR-groups materialises at most
    `|s|^d` alternatives and `|s|^(d+1)` leaf slots -/
theorem cost_polynomial_in_rank (s : Bytes) (n : Node) (h : parse s = .ok n) (d : Nat) (hd : orRank n ≤ d) :
    (expand n).length ≤ s.length ^ d ∧ slotsOf (expandTerm n) ≤ s.length ^ (d + 1) := by
  obtain ⟨hl, hs, he⟩ := cost_inputs_bounded s n h
  have hpos := leafCount_pos n
  have ha : alts n ≤ s.length ^ d :=
    calc alts n ≤ leafCount n ^ orRank n := alts_le_pow_rank n
      _ ≤ leafCount n ^ d := Nat.pow_le_pow_right hpos hd
      _ ≤ s.length ^ d := Nat.pow_le_pow_left hl _
  refine ⟨he ▸ ha, ?_⟩
  calc slotsOf (expandTerm n) ≤ alts n * s.length := hs
    _ ≤ s.length ^ d * s.length := Nat.mul_le_mul_right _ ha
    _ = s.length ^ (d + 1) := by rw [Nat.pow_succ]

/-- **expressions already in OR-of-ANDs shape are expanded at quadratic cost at most** (alternatives ≤ |s|, slots ≤ |s|²) -/
theorem dnf_shaped_quadratic (s : Bytes) (n : Node) (h : parse s = .ok n) (hd : dnfShaped n = true) :
    (expand n).length ≤ s.length ∧ slotsOf (expandTerm n) ≤ s.length ^ 2 := by
  have := cost_polynomial_in_rank s n h 1 (orRank_dnfShaped n hd)
  simpa using this

-- non-vacuity: `MIT OR (ISC AND Zlib)` is in OR-of-ANDs shape, `(MIT OR ISC) AND Zlib` has rank 1 but is not
example : dnfShaped (.or (.lic [77,73,84] false none) (.and (.lic [73,83,67] false none) (.lic [90,108,105,98] false none))) = true := by decide
example : dnfShaped (.and (.or (.lic [77,73,84] false none) (.lic [73,83,67] false none)) (.lic [90,108,105,98] false none)) = false := by decide
example : orRank (.and (.or (.lic [77,73,84] false none) (.lic [73,83,67] false none)) (.lic [90,108,105,98] false none)) = 1 := by decide

end Spdx.C14

namespace Spdx.C14

/-- the number of opening parentheses among the tokens -/
def lparens : List Tok → Nat
  | [] => 0
  | .op .lparen :: r => lparens r + 1
  | _ :: r => lparens r

theorem lparens_append (a b : List Tok) : lparens (a ++ b) = lparens a + lparens b := by
  induction a with
  | nil => simp [lparens]
  | cons t a ih =>
    cases t with
    | op o => cases o <;> simp [lparens, ih] <;> omega
    | _ => simp [lparens, ih]

/-- **the rank can be read off the text**: an OR group that is multiplied with another one has to be written in parentheses
    (AND binds tighter than OR), so the rank of a grammatical token sequence is at most its number of opening parentheses
    (at most 1 when there are none) -/
theorem orRank_le_lparens {lv : Lvl} {ts : List Tok} {n : Node} (h : D lv ts n) :
    orRank n ≤ (if lv = .expr then max 1 (lparens ts) else lparens ts) := by
  induction h with
  | ref0 | ref1 | lic | licP | licW | licPW => simp [orRank]
  | @paren ts n _ ih =>
    simp only [if_true] at ih
    simp only [reduceCtorEq, if_false]
    have : lparens (.op .lparen :: ts ++ [.op .rparen]) = lparens ts + 1 := by
      show lparens (.op .lparen :: (ts ++ [.op .rparen])) = _
      simp [lparens, lparens_append]
    rw [this]; omega
  | and1 _ ih => simpa using ih
  | or1 _ ih =>
    simp only [reduceCtorEq, if_false] at ih
    simp only [if_true]; omega
  | @andC a b l r _ _ iha ihb =>
    simp only [reduceCtorEq, if_false] at iha ihb ⊢
    have : lparens (a ++ .op .and_ :: b) = lparens a + lparens b := by
      rw [lparens_append]; simp [lparens]
    simp only [orRank]; omega
  | @orC a b l r _ _ iha ihb =>
    simp only [reduceCtorEq, if_false, if_true] at iha ihb ⊢
    have : lparens (a ++ .op .or_ :: b) = lparens a + lparens b := by
      rw [lparens_append]; simp [lparens]
    simp only [orRank]; omega

/-- **cost bound from the text alone**: a valid expression with `p` opening parentheses materialises at most `|s|^max(1,p)`
    alternatives and `|s|^(max(1,p)+1)` leaf slots — polynomial for any fixed number of parenthesised groups; the
    exponential family of the finding D8 is the one that keeps adding groups -/
theorem cost_polynomial_in_parens (s : Bytes) (n : Node) (h : parse s = .ok n) :
    ∃ ts, toks s = some ts ∧ (expand n).length ≤ s.length ^ max 1 (lparens ts) ∧
      slotsOf (expandTerm n) ≤ s.length ^ (max 1 (lparens ts) + 1) := by
  obtain ⟨ts, h1, h2⟩ := (parse_ok_iff s n).mp h
  have hd := (parseTokens_iff _ _).mp h2
  have hr := orRank_le_lparens hd
  simp only [if_true] at hr
  exact ⟨ts, h1, cost_polynomial_in_rank s n h _ hr⟩

end Spdx.C14
