/-
Props/C14Heap — C14 at the level of Go's slices: how many backing arrays one run of the expansion allocates.

`cost_inputs_bounded` (Props/C14Cost) bounds what the cost model multiplies; here the cost is counted on the heap model
itself (Model/GoHeap): every `[]*node{term}`, every `make`, every `append` that has to copy allocates one array.
`appendTerms`' `make([]*node, 0, len(l)+len(r))` is sized right (neither append into `tmp` reallocates), so it allocates
exactly one array per alternative; `mergeTerms` allocates at most one per append.  Hence, for every growth policy, the
expansion allocates at most `allocBound n` arrays — one per term and one per alternative of every AND node — and
`allocBound n + alts n ≤ 2 · terms · alts`: the heap-level cost is polynomial exactly when `alts` is (C14Poly).
-/
import SpdxVerif.Lemmas.GoHeap
import SpdxVerif.Props.C14
namespace Spdx.C14
open Spdx.H

/-- the expansion allocates at most `allocBound n` arrays, whatever the growth policy and the starting heap -/
theorem heap_allocs_le (grow : Nat → Nat → Nat) (n : Node) (h : Heap) :
    (expandTermH grow n h).2.length ≤ h.length + allocBound n := expandTermH_allocs grow n h

/-- `appendTerms` allocates exactly one array per alternative it returns: `tmp` never reallocates -/
theorem heap_appendTerms_allocs (grow : Nat → Nat → Nat) (ls rs : List Sl) (h : Heap) :
    (appendTermsH grow ls rs h).2.length = h.length + ls.length * rs.length := appendTermsH_allocs grow ls rs h

theorem alts_pos (n : Node) : 1 ≤ alts n := by
  induction n with
  | lic => simp [alts]
  | ref => simp [alts]
  | and l r ihl ihr => simp only [alts]; exact Nat.mul_le_mul ihl ihr
  | or l r ihl ihr => simp only [alts]; omega

private theorem key (bL bR aL aR lL lR : Nat) (h1 : bL + aL ≤ 2 * lL * aL) (h2 : bR + aR ≤ 2 * lR * aR)
    (ha : 1 ≤ aL) (hb : 1 ≤ aR) : bL + bR + aL * aR + aL * aR ≤ 2 * (lL + lR) * (aL * aR) := by
  have h1' : (bL + aL) * aR ≤ 2 * lL * aL * aR := Nat.mul_le_mul_right aR h1
  have h2' : (bR + aR) * aL ≤ 2 * lR * aR * aL := Nat.mul_le_mul_right aL h2
  have e1 : bL ≤ bL * aR := Nat.le_mul_of_pos_right _ hb
  have e2 : bR ≤ bR * aL := Nat.le_mul_of_pos_right _ ha
  have c1 : 2 * lL * aL * aR = 2 * (lL * (aL * aR)) := by simp only [Nat.mul_assoc]
  have c2 : 2 * lR * aR * aL = 2 * (lR * (aL * aR)) := by
    simp only [Nat.mul_assoc]; rw [Nat.mul_comm aR aL]
  have c3 : 2 * (lL + lR) * (aL * aR) = 2 * (lL * (aL * aR)) + 2 * (lR * (aL * aR)) := by
    simp only [Nat.mul_assoc, Nat.add_mul, Nat.mul_add]
  have c4 : (bL + aL) * aR = bL * aR + aL * aR := Nat.add_mul ..
  have c5 : (bR + aR) * aL = bR * aL + aL * aR := by rw [Nat.add_mul, Nat.mul_comm aR aL]
  rw [c1, c4] at h1'; rw [c2, c5] at h2'; rw [c3]
  omega

/-- closed form: arrays allocated + alternatives ≤ 2 · terms · alternatives -/
theorem allocBound_le (n : Node) : allocBound n + alts n ≤ 2 * leafCount n * alts n := by
  induction n with
  | lic => simp [allocBound, alts, leafCount]
  | ref => simp [allocBound, alts, leafCount]
  | and l r ihl ihr =>
    simp only [allocBound, alts, leafCount, expandTerm_length]
    have := key _ _ _ _ _ _ ihl ihr (alts_pos l) (alts_pos r)
    omega
  | or l r ihl ihr =>
    simp only [allocBound, alts, leafCount]
    have e : 2 * (leafCount l + leafCount r) * (alts l + alts r)
        = 2 * leafCount l * alts l + 2 * leafCount l * alts r + (2 * leafCount r * alts l + 2 * leafCount r * alts r) := by
      simp only [Nat.mul_add, Nat.add_mul]; omega
    rw [e]; omega

/-- the heap-level cost in the quantities of the cost model: at most `2 · terms · alternatives` arrays -/
theorem heap_allocs_le_terms_alts (grow : Nat → Nat → Nat) (n : Node) :
    (expandTermH grow n []).2.length ≤ 2 * leafCount n * alts n := by
  have a := heap_allocs_le grow n []
  have b := allocBound_le n
  simp only [List.length_nil] at a
  omega

end Spdx.C14
