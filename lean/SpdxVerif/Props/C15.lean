/-
C15 — error messages locate the offending text in the caller's own string.
-/
import SpdxVerif.Lemmas.Scan
namespace Spdx.C15

/-- **C15.** Every offset-bearing scanner error points into the string that was passed in:
for `unknown license 'lex' at offset off`, `lex` is non-empty and is found at exactly `off`;
for `expected id at offset off`, `off` is a position of the string (or its end) at which no id byte stands.
(The model's scanner works on true suffixes of the caller's string; the `-or-later` rewrite never
shifts an offset.) -/
theorem scan_error_located (s : Bytes) (e : ScanErr) (h : scan s = .error e) : ErrAt s e :=
  scan_err_at s h

theorem unknown_license_located (s lex : Bytes) (off : Nat) (h : scan s = .error (.unknownLicense lex off)) :
    (s.drop off).take lex.length = lex ∧ lex ≠ [] ∧ off + lex.length ≤ s.length := by
  have := scan_err_at s h
  obtain ⟨h1, h2⟩ := this
  refine ⟨h1, h2, ?_⟩
  have hl : ((s.drop off).take lex.length).length = lex.length := by rw [h1]
  simp only [List.length_take, List.length_drop] at hl
  have : 0 < lex.length := List.length_pos_iff.mpr h2
  omega

theorem expected_id_located (s : Bytes) (off : Nat) (h : scan s = .error (.expectedId off)) :
    off ≤ s.length ∧ ∀ c, s[off]? = some c → isIdChar c = false :=
  scan_err_at s h

/-- lifted through `parse`, hence through `Satisfies` (expression and every allowed entry) and
`ExtractLicenses`, which return the error of `parse` unchanged -/
theorem parse_error_located (s : Bytes) (e : ScanErr) (h : parse s = .error (.scan e)) : ErrAt s e := by
  unfold parse at h
  split at h
  · simp at h
  · split at h
    · rename_i e' he
      simp at h; subst h
      exact scan_err_at s he
    · split at h <;> simp at h

/-! ### non-vacuity: prefixes containing -or-later, -or-later+, '+', spaces and parentheses -/
section
-- "Apache-2.0-or-later AND FOO": FOO is at offset 24 of the caller's string
example : (match scan [65,112,97,99,104,101,45,50,46,48,45,111,114,45,108,97,116,101,114,32,65,78,68,32,70,79,79] with
    | .error e => e == .unknownLicense [70,79,79] 24 | .ok _ => false) = true := by decide +kernel
-- "(MIT+ OR  Apache-2.0-or-later+) AND LicenseRef-": the id is missing at offset 47 = end of the string
example : (match scan [40,77,73,84,43,32,79,82,32,32,65,112,97,99,104,101,45,50,46,48,45,111,114,45,108,97,116,101,114,43,41,32,65,78,68,32,76,105,99,101,110,115,101,82,101,102,45] with
    | .error e => e == .expectedId 47 | .ok _ => false) = true := by decide +kernel
end

end Spdx.C15
