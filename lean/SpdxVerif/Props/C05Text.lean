/-
C05 (byte level) — "a space-separated sequence of SPDX tokens is accepted iff it derives from the grammar".
-/
import SpdxVerif.Lemmas.Spaced
import SpdxVerif.Lemmas.Layout
import SpdxVerif.Props.C05
namespace Spdx.C05

/-- **C05 on texts.** A text made of well-formed lexemes separated by single spaces (keywords and parentheses, words with an
optional abutting `+`, `LicenseRef-r`, `DocumentRef-d:LicenseRef-r`) is accepted iff every word is recognised by the
normalisation cascade and the token sequence the lexemes denote derives from the documented grammar. -/
theorem accepts_spaced_iff (ls : List Lexeme) (h : ∀ l ∈ ls, l.OK) :
    valid (spaced ls) = true ↔ ∃ ts n, allToks ls = some ts ∧ D .expr ts n := by
  rw [valid_iff_toks, toks_spaced ls h]
  constructor
  · rintro ⟨ts, n, h1, h2⟩; exact ⟨ts, n, h1, (parseTokens_iff _ _).mp h2⟩
  · rintro ⟨ts, n, h1, h2⟩; exact ⟨ts, n, h1, (parseTokens_iff _ _).mpr h2⟩

/-- … and the tree is the one the derivation denotes -/
theorem parse_spaced (ls : List Lexeme) (h : ∀ l ∈ ls, l.OK) (n : Node) :
    parse (spaced ls) = .ok n ↔ ∃ ts, allToks ls = some ts ∧ D .expr ts n := by
  rw [parse_ok_iff, toks_spaced ls h]
  constructor
  · rintro ⟨ts, h1, h2⟩; exact ⟨ts, h1, (parseTokens_iff _ _).mp h2⟩
  · rintro ⟨ts, h1, h2⟩; exact ⟨ts, h1, (parseTokens_iff _ _).mpr h2⟩

/-- **C05 in loose and tight spacing.** The same for every LAYOUT of the lexemes: any number of spaces before each lexeme and
at the end of the text, and no space at all wherever a parenthesis stands on one side (`(MIT)AND(ISC)`, `( MIT )`,
`  MIT   AND ISC  `): the text is accepted iff every word is recognised and the token sequence derives from the grammar —
the layout plays no part. -/
theorem accepts_layout_iff (ps : List (Nat × Lexeme)) (t : Nat) (h : ∀ p ∈ ps, p.2.OK) (ht : TightOK ps) :
    valid (laidOut ps t) = true ↔ ∃ ts n, allToks (ps.map (·.2)) = some ts ∧ D .expr ts n := by
  rw [valid_iff_toks, toks_laidOut ps t h ht]
  constructor
  · rintro ⟨ts, n, h1, h2⟩; exact ⟨ts, n, h1, (parseTokens_iff _ _).mp h2⟩
  · rintro ⟨ts, n, h1, h2⟩; exact ⟨ts, n, h1, (parseTokens_iff _ _).mpr h2⟩

theorem parse_layout (ps : List (Nat × Lexeme)) (t : Nat) (h : ∀ p ∈ ps, p.2.OK) (ht : TightOK ps) (n : Node) :
    parse (laidOut ps t) = .ok n ↔ ∃ ts, allToks (ps.map (·.2)) = some ts ∧ D .expr ts n := by
  rw [parse_ok_iff, toks_laidOut ps t h ht]
  constructor
  · rintro ⟨ts, h1, h2⟩; exact ⟨ts, h1, (parseTokens_iff _ _).mp h2⟩
  · rintro ⟨ts, h1, h2⟩; exact ⟨ts, h1, (parseTokens_iff _ _).mpr h2⟩

/-- **the layout is irrelevant**: two layouts of the same lexemes are parsed to the same result -/
theorem layout_irrelevant (ps qs : List (Nat × Lexeme)) (t u : Nat) (hp : ∀ p ∈ ps, p.2.OK) (hpt : TightOK ps)
    (hqt : TightOK qs) (hsame : ps.map (·.2) = qs.map (·.2)) :
    (parse (laidOut ps t)).toOption = (parse (laidOut qs u)).toOption := by
  have hq : ∀ p ∈ qs, p.2.OK := by
    intro p hpq
    have : p.2 ∈ qs.map (·.2) := List.mem_map.mpr ⟨p, hpq, rfl⟩
    rw [← hsame] at this
    obtain ⟨p', hp', he⟩ := List.mem_map.mp this
    rw [← he]; exact hp p' hp'
  have key : ∀ n, parse (laidOut ps t) = .ok n ↔ parse (laidOut qs u) = .ok n := by
    intro n; rw [parse_layout ps t hp hpt, parse_layout qs u hq hqt, hsame]
  cases h1 : parse (laidOut ps t) with
  | ok n => rw [(key n).mp h1]
  | error e =>
    cases h2 : parse (laidOut qs u) with
    | ok n => rw [(key n).mpr h2] at h1; cases h1
    | error e' => rfl

/-- which words are recognised (not followed by `+`): a word on the active or exception list; such a word with `-only` or
    `-or-later` appended; a word on the deprecated list — all up to letter case -/
theorem word_recognised_iff (w : Bytes) :
    (normCore w false).isSome = true ↔
      (licenseLookup w).isSome = true ∨ ((stripSuffix? w sufOnly).bind licenseLookup).isSome = true ∨
      ((stripSuffix? w sufOrLater).bind licenseLookup).isSome = true ∨ (lookup Tables.deprecated w).isSome = true := by
  unfold normCore
  cases licenseLookup w with
  | some t => simp
  | none =>
    simp only
    cases (stripSuffix? w sufOnly).bind licenseLookup with
    | some t => simp
    | none =>
      simp only [Bool.false_eq_true, ↓reduceIte]
      cases (stripSuffix? w sufOrLater).bind licenseLookup with
      | some t => simp
      | none => simp only; cases lookup Tables.deprecated w <;> simp

/-- … and followed by `+`: additionally a word `X` whose `X-or-later` is listed -/
theorem word_plus_recognised_iff (w : Bytes) :
    (normCore w true).isSome = true ↔
      (normCore w false).isSome = true ∨ (licenseLookup (w ++ sufOrLater)).isSome = true := by
  unfold normCore
  cases licenseLookup w with
  | some t => simp
  | none =>
    simp only
    cases (stripSuffix? w sufOnly).bind licenseLookup with
    | some t => simp
    | none =>
      simp only [↓reduceIte, Bool.false_eq_true]
      cases licenseLookup (w ++ sufOrLater) with
      | some t => simp
      | none =>
        simp only
        cases (stripSuffix? w sufOrLater).bind licenseLookup with
        | some t => simp
        | none => simp only; cases lookup Tables.deprecated w <;> simp

/-! ### non-vacuity: texts from the property's list of things to reject, as lexeme sequences -/
section
private def mit : Lexeme := .word [77,73,84] false
private def gpl2p : Lexeme := .word [71,80,76,45,50,46,48] true            -- GPL-2.0+
private def foo : Lexeme := .word [70,79,79] false
private def cpe : Lexeme := .word (str "Classpath-exception-2.0") false
example : valid (spaced [mit, .kwAnd, .lparen, gpl2p, .kwWith, cpe, .rparen]) = true := by decide +kernel
example : valid (spaced [mit, .kwAnd]) = false := by decide +kernel                    -- dangling operator
example : valid (spaced [mit, mit]) = false := by decide +kernel                       -- adjacent terms
example : valid (spaced [.lparen, .rparen]) = false := by decide +kernel               -- empty parentheses
example : valid (spaced [mit, .kwWith]) = false := by decide +kernel                   -- WITH without exception
example : valid (spaced [cpe]) = false := by decide +kernel                            -- exception without WITH
example : valid (spaced [foo]) = false := by decide +kernel                            -- unknown id
example : valid (spaced [.licRef [120], .kwWith, cpe]) = false := by decide +kernel    -- WITH on a LicenseRef
-- a tight / loose layout that meets the hypotheses: `  (MIT)AND( GPL-2.0+   WITH Classpath-exception-2.0 ) `
private def lay : List (Nat × Lexeme) := [(2, .lparen), (0, mit), (0, .rparen), (0, .kwAnd), (0, .lparen), (1, gpl2p), (3, .kwWith), (1, cpe), (1, .rparen)]
example : TightOK lay := by simp [lay, TightOK, Lexeme.isParen]
example : ∀ p ∈ lay, p.2.OK := by
  intro p hp
  simp only [lay, List.mem_cons, List.not_mem_nil, or_false] at hp
  rcases hp with rfl | rfl | rfl | rfl | rfl | rfl | rfl | rfl | rfl
  all_goals first | trivial | exact ⟨by decide +kernel, by decide +kernel, by decide +kernel, by decide +kernel, by decide +kernel⟩
example : valid (laidOut lay 1) = true := by decide +kernel
example : laidOut lay 1 = str "  (MIT)AND( GPL-2.0+   WITH Classpath-exception-2.0 ) " := by decide +kernel
end

end Spdx.C05
