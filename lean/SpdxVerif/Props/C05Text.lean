/-
C05 (byte level) — "a space-separated sequence of SPDX tokens is accepted iff it derives from the grammar".
-/
import SpdxVerif.Lemmas.Spaced
import SpdxVerif.Props.C05
namespace Spdx.C05

/-- **C05 on texts.** A text made of well-formed lexemes separated by single spaces (keywords and parentheses, words with an
optional abutting `+`, `LicenseRef-r`, `DocumentRef-d:LicenseRef-r`) is accepted iff every word is recognised by the
normalisation cascade and the token sequence the lexemes denote derives from the documented grammar. -/
theorem accepts_spaced_iff (ls : List Lexeme) (h : ∀ l ∈ ls, l.OK) :
    valid (spaced ls) = true ↔ ∃ ts n, allToks ls = some ts ∧ D .expr ts n := by
  rw [valid_iff_toks, toks_spaced ls h]
  constructor
  · rintro ⟨ts, n, h1, h2⟩; exact ⟨ts, n, h1, (parseTokens_iff _ _).mp h2⟩
  · rintro ⟨ts, n, h1, h2⟩; exact ⟨ts, n, h1, (parseTokens_iff _ _).mpr h2⟩

/-- … and the tree is the one the derivation denotes -/
theorem parse_spaced (ls : List Lexeme) (h : ∀ l ∈ ls, l.OK) (n : Node) :
    parse (spaced ls) = .ok n ↔ ∃ ts, allToks ls = some ts ∧ D .expr ts n := by
  rw [parse_ok_iff, toks_spaced ls h]
  constructor
  · rintro ⟨ts, h1, h2⟩; exact ⟨ts, h1, (parseTokens_iff _ _).mp h2⟩
  · rintro ⟨ts, h1, h2⟩; exact ⟨ts, h1, (parseTokens_iff _ _).mpr h2⟩

/-- which words are recognised (not followed by `+`): a word on the active or exception list; such a word with `-only` or
    `-or-later` appended; a word on the deprecated list — all up to letter case -/
theorem word_recognised_iff (w : Bytes) :
    (normCore w false).isSome = true ↔
      (licenseLookup w).isSome = true ∨ ((stripSuffix? w sufOnly).bind licenseLookup).isSome = true ∨
      ((stripSuffix? w sufOrLater).bind licenseLookup).isSome = true ∨ (lookup Tables.deprecated w).isSome = true := by
  unfold normCore
  cases licenseLookup w with
  | some t => simp
  | none =>
    simp only
    cases (stripSuffix? w sufOnly).bind licenseLookup with
    | some t => simp
    | none =>
      simp only [Bool.false_eq_true, ↓reduceIte]
      cases (stripSuffix? w sufOrLater).bind licenseLookup with
      | some t => simp
      | none => simp only; cases lookup Tables.deprecated w <;> simp

/-- … and followed by `+`: additionally a word `X` whose `X-or-later` is listed -/
theorem word_plus_recognised_iff (w : Bytes) :
    (normCore w true).isSome = true ↔
      (normCore w false).isSome = true ∨ (licenseLookup (w ++ sufOrLater)).isSome = true := by
  unfold normCore
  cases licenseLookup w with
  | some t => simp
  | none =>
    simp only
    cases (stripSuffix? w sufOnly).bind licenseLookup with
    | some t => simp
    | none =>
      simp only [↓reduceIte, Bool.false_eq_true]
      cases licenseLookup (w ++ sufOrLater) with
      | some t => simp
      | none =>
        simp only
        cases (stripSuffix? w sufOrLater).bind licenseLookup with
        | some t => simp
        | none => simp only; cases lookup Tables.deprecated w <;> simp

/-! ### non-vacuity: texts from the property's list of things to reject, as lexeme sequences -/
section
private def mit : Lexeme := .word [77,73,84] false
private def gpl2p : Lexeme := .word [71,80,76,45,50,46,48] true            -- GPL-2.0+
private def foo : Lexeme := .word [70,79,79] false
private def cpe : Lexeme := .word (str "Classpath-exception-2.0") false
example : valid (spaced [mit, .kwAnd, .lparen, gpl2p, .kwWith, cpe, .rparen]) = true := by decide +kernel
example : valid (spaced [mit, .kwAnd]) = false := by decide +kernel                    -- dangling operator
example : valid (spaced [mit, mit]) = false := by decide +kernel                       -- adjacent terms
example : valid (spaced [.lparen, .rparen]) = false := by decide +kernel               -- empty parentheses
example : valid (spaced [mit, .kwWith]) = false := by decide +kernel                   -- WITH without exception
example : valid (spaced [cpe]) = false := by decide +kernel                            -- exception without WITH
example : valid (spaced [foo]) = false := by decide +kernel                            -- unknown id
example : valid (spaced [.licRef [120], .kwWith, cpe]) = false := by decide +kernel    -- WITH on a LicenseRef
end

end Spdx.C05
