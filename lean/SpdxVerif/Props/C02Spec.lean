/-
C02 (specification form) — for terms produced by the parser, `matchLeaf` IS the documented rule.
-/
import SpdxVerif.Lemmas.Spelling
import SpdxVerif.Props.C02
namespace Spdx.C02

/-- the version rule of the property text, over positions `(family, version group)` in the range table -/
def versionRule (a b : Bytes) (pa pb : Bool) : Bool :=
  match pos a, pos b with
  | some (i, j), some (k, l) =>
    i == k && (match pa, pb with
      | false, false => j == l
      | true, false => decide (j ≤ l)
      | false, true => decide (l ≤ j)
      | true, true => true)
  | _, _ => false

/-- the documented single-term matching rule -/
def specMatch : Node → Node → Bool
  | .lic a pa ea, .lic b pb eb => (ea == eb) && (a == b || versionRule a b pa pb)
  | .ref da a, .ref db b => a == b && da == db
  | _, _ => false

/-- **C02.** For any two terms produced by the parser (`LeafOK`: every term of every valid expression and every valid
allowed entry, by `parse_leavesOK`), the implementation's matching decision is the documented rule: refs need identical
LicenseRef and identical-or-absent DocumentRef; a licence never matches a ref; licences need identical exceptions and then
either the same id, or ids of the same family with equal versions (no `+`), the `+` side not later than the other
(one `+`), or anything in the family (both `+`). -/
theorem matchLeaf_eq_spec (x y : Node) (hx : LeafOK x) (hy : LeafOK y) (lx : x.isLeaf = true) (ly : y.isLeaf = true) :
    matchLeaf x y = specMatch x y := by
  cases x with
  | and => simp [Node.isLeaf] at lx
  | or => simp [Node.isLeaf] at lx
  | ref da a => cases y <;> simp [matchLeaf, specMatch]
  | lic a pa ea =>
    cases y with
    | and => simp [Node.isLeaf] at ly
    | or => simp [Node.isLeaf] at ly
    | ref db b => simp [matchLeaf, specMatch]
    | lic b pb eb =>
      by_cases he : ea = eb
      · subst he
        cases hf : foldEq (render (.lic a pa ea)) (render (.lic b pb ea)) with
        | true =>
          obtain ⟨rfl, rfl, -⟩ := render_fold_inj a b pa pb ea ea hx hy hf
          simp [matchLeaf, specMatch, hf]
        | false =>
          by_cases hab : a = b
          · subst hab
            have hpp : pa ≠ pb := by
              intro hh; subst hh; rw [foldEq_refl] at hf; cases hf
            have hEQ : compareEQ a a = true := by simp [compareEQ]
            cases pa <;> cases pb <;> simp_all [matchLeaf, specMatch]
          · have h1 : (a == b) = false := by simpa using hab
            have h2 : (b == a) = false := by simpa using (Ne.symm hab)
            simp only [matchLeaf, bne_self_eq_false, Bool.false_eq_true, ↓reduceIte, hf, specMatch, BEq.rfl, Bool.true_and,
              h1, Bool.false_or, versionRule, compareGT, compareEQ, h2, sameGroup]
            cases hpa : pos a with
            | none => cases pa <;> cases pb <;> simp <;> (cases pos b <;> simp)
            | some p =>
              obtain ⟨i, j⟩ := p
              cases hpb : pos b with
              | none => cases pa <;> cases pb <;> simp
              | some q =>
                obtain ⟨k, l⟩ := q
                have hik : (k == i) = (i == k) := Bool.beq_comm
                cases pa <;> cases pb <;> simp [hik]
                · cases h : (i == k) <;> simp
                  rw [Bool.eq_iff_iff]; simp; omega
                · cases h : (i == k) <;> simp
                  rw [Bool.eq_iff_iff]; simp; omega
      · have : (ea == eb) = false := by simpa using he
        simp [matchLeaf, specMatch, he, this]

/-- in particular the relation holds between every term of a valid expression and every valid allowed entry -/
theorem matchLeaf_eq_spec_parsed (e x : Bytes) (n t a : Node) (he : parse e = .ok n) (ht : t ∈ leaves n)
    (ha : leafOf x = some a) : matchLeaf t a = specMatch t a :=
  matchLeaf_eq_spec t a (parse_leavesOK e n he t ht) (leafOf_leafOK ha) (leaves_isLeaf n t ht) (leafOf_some ha).2

end Spdx.C02
