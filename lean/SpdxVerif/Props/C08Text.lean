/-
C08 (string level) — equivalent spellings of a license are interchangeable everywhere.

Reading of the pairs: `X+` ↔ `X-or-later` and `X` ↔ `X-only`, where `X` is a word of id bytes that begins with no operator
keyword or ref prefix, and the byte that follows the spelling (`b` below: end of text, space, parenthesis, ` WITH …`) is
neither an id byte nor a further `+`.  "Both spellings valid" is stated as: the normalisation cascade recognises both.
Positions: the start of the text, or anywhere after a space or a parenthesis (every place an id can validly stand).
-/
import SpdxVerif.Lemmas.SwapText
import SpdxVerif.Props.C09Text
import SpdxVerif.Props.C08
namespace Spdx.C08

/-! ### `X+` ↔ `X-or-later`: the very same token sequence -/

theorem word_head_ne_plus {x : Bytes} (hx : allId x = true) (hc : Clean x) (r : Bytes) : (x ++ r).head? ≠ some 43 :=
  head_idChar_ne_plus hx r hc.2.2.2

/-- anywhere in an expression or an allowed entry: same tree (hence same validity, `Satisfies`, `ExtractLicenses`) -/
theorem plus_orLater_same_tree (a : Bytes) (sep : Nat) (x b : Bytes) (hsep : sep = 32 ∨ sep = 40 ∨ sep = 41)
    (hx : allId x = true) (hc : Clean x) (hc' : Clean (x ++ sufOrLater)) (hb : Stops b) (hb43 : b.head? ≠ some 43)
    (h1 : (normCore x true).isSome = true) (h2 : (normCore (x ++ sufOrLater) false).isSome = true) :
    tree (a ++ sep :: (x ++ 43 :: b)) = tree (a ++ sep :: (x ++ sufOrLater ++ b)) ∧
    tree (x ++ 43 :: b) = tree (x ++ sufOrLater ++ b) := by
  have ht := toks_plus_orLater x b hx hc hc' hb hb43 h1 h2
  refine ⟨tree_eq_of_toks _ _ (toks_ctx a sep _ _ hsep (word_head_ne_plus hx hc _) ?_ ht), tree_eq_of_toks _ _ ht⟩
  rw [List.append_assoc]; exact word_head_ne_plus hx hc _

theorem plus_orLater_interchangeable (a : Bytes) (sep : Nat) (x b : Bytes) (L : List Bytes) (hsep : sep = 32 ∨ sep = 40 ∨ sep = 41)
    (hx : allId x = true) (hc : Clean x) (hc' : Clean (x ++ sufOrLater)) (hb : Stops b) (hb43 : b.head? ≠ some 43)
    (h1 : (normCore x true).isSome = true) (h2 : (normCore (x ++ sufOrLater) false).isSome = true) :
    valid (a ++ sep :: (x ++ 43 :: b)) = valid (a ++ sep :: (x ++ sufOrLater ++ b)) ∧
    C07.outcome (satisfies (a ++ sep :: (x ++ 43 :: b)) L) = C07.outcome (satisfies (a ++ sep :: (x ++ sufOrLater ++ b)) L) ∧
    extract (a ++ sep :: (x ++ 43 :: b)) = extract (a ++ sep :: (x ++ sufOrLater ++ b)) := by
  have := (plus_orLater_same_tree a sep x b hsep hx hc hc' hb hb43 h1 h2).1
  exact ⟨C09.valid_of_tree _ _ this, C09.satisfies_of_tree _ _ L this, C09.extract_of_tree _ _ this⟩

/-- … and in an allowed entry (`b` = `[]` or ` WITH e`) -/
theorem plus_orLater_allowed_entry (e : Bytes) (pre post : List Bytes) (x b : Bytes)
    (hx : allId x = true) (hc : Clean x) (hc' : Clean (x ++ sufOrLater)) (hb : Stops b) (hb43 : b.head? ≠ some 43)
    (h1 : (normCore x true).isSome = true) (h2 : (normCore (x ++ sufOrLater) false).isSome = true) :
    C07.outcome (satisfies e (pre ++ (x ++ 43 :: b) :: post)) = C07.outcome (satisfies e (pre ++ (x ++ sufOrLater ++ b) :: post)) :=
  C07.satisfies_respell e pre post _ _
    (C09.leafOf_of_tree _ _ (plus_orLater_same_tree [] 32 x b (Or.inl rfl) hx hc hc' hb hb43 h1 h2).2)

/-! ### `X` ↔ `X-only`: one licence token each, at the same position of the range table -/

/-- expression side, anywhere after a space or parenthesis -/
theorem only_interchangeable (a : Bytes) (sep : Nat) (x b : Bytes) (hsep : sep = 32 ∨ sep = 40 ∨ sep = 41)
    (hx : allId x = true) (hc : Clean x) (hc' : Clean (x ++ sufOnly)) (hb : Stops b) (hb43 : b.head? ≠ some 43)
    (h1 : (normCore x false).isSome = true) (h2 : (normCore (x ++ sufOnly) false).isSome = true) :
    valid (a ++ sep :: (x ++ b)) = valid (a ++ sep :: (x ++ sufOnly ++ b)) ∧
    ∀ L, satisfies (a ++ sep :: (x ++ b)) L = satisfies (a ++ sep :: (x ++ sufOnly ++ b)) L := by
  obtain ⟨⟨t1, k1⟩, e1⟩ := Option.isSome_iff_exists.mp h1
  obtain ⟨⟨t2, k2⟩, e2⟩ := Option.isSome_iff_exists.mp h2
  obtain ⟨rfl, rfl, ta, tb, rfl, rfl, hrel⟩ := normCore_only x t1 t2 k1 k2 e1 e2
  have hx' : allId (x ++ sufOnly) = true := by rw [allId_append, hx]; decide
  have htr : TokRel ta tb := by
    rcases hrel with rfl | ⟨p, q, rfl, rfl, hpq⟩
    · exact .refl _
    · exact .swap p q hpq
  have hU := toks_ctx_word a sep x b ta hsep hx hc hb hb43 e1
  have hV := toks_ctx_word a sep (x ++ sufOnly) b tb hsep hx' hc' hb hb43 e2
  exact results_of_nodeRel _ _ (parse_swap _ _ a b (sepToks sep) ta tb htr hU hV)
    (parse_swap _ _ a b (sepToks sep) tb ta htr.symm hV hU)

/-- … and at the start of the text -/
theorem only_interchangeable_head (x b : Bytes)
    (hx : allId x = true) (hc : Clean x) (hc' : Clean (x ++ sufOnly)) (hb : Stops b) (hb43 : b.head? ≠ some 43)
    (h1 : (normCore x false).isSome = true) (h2 : (normCore (x ++ sufOnly) false).isSome = true) :
    (valid (x ++ b) = valid (x ++ sufOnly ++ b) ∧ ∀ L, satisfies (x ++ b) L = satisfies (x ++ sufOnly ++ b) L) ∧
    (∀ n, parse (x ++ b) = .ok n → ∃ n', parse (x ++ sufOnly ++ b) = .ok n' ∧ NodeRel n n') := by
  obtain ⟨⟨t1, k1⟩, e1⟩ := Option.isSome_iff_exists.mp h1
  obtain ⟨⟨t2, k2⟩, e2⟩ := Option.isSome_iff_exists.mp h2
  obtain ⟨rfl, rfl, ta, tb, rfl, rfl, hrel⟩ := normCore_only x t1 t2 k1 k2 e1 e2
  have hx' : allId (x ++ sufOnly) = true := by rw [allId_append, hx]; decide
  have htr : TokRel ta tb := by
    rcases hrel with rfl | ⟨p, q, rfl, rfl, hpq⟩
    · exact .refl _
    · exact .swap p q hpq
  have hU := toks_head_word x b ta hx hc hb hb43 e1
  have hV := toks_head_word (x ++ sufOnly) b tb hx' hc' hb hb43 e2
  exact ⟨results_of_nodeRel _ _ (parse_swap _ _ [] b [] ta tb htr hU hV) (parse_swap _ _ [] b [] tb ta htr.symm hV hU),
    parse_swap _ _ [] b [] ta tb htr hU hV⟩

/-- allowed-list side: an entry `X[ WITH e]` re-spelled `X-only[ WITH e]` -/
theorem only_allowed_entry (e : Bytes) (pre post : List Bytes) (x b : Bytes) (l : Node)
    (hx : allId x = true) (hc : Clean x) (hc' : Clean (x ++ sufOnly)) (hb : Stops b) (hb43 : b.head? ≠ some 43)
    (h1 : (normCore x false).isSome = true) (h2 : (normCore (x ++ sufOnly) false).isSome = true)
    (hl : leafOf (x ++ b) = some l) :
    C07.outcome (satisfies e (pre ++ (x ++ b) :: post)) = C07.outcome (satisfies e (pre ++ (x ++ sufOnly ++ b) :: post)) := by
  obtain ⟨hp, hleaf⟩ := leafOf_some hl
  obtain ⟨n', hp', hrel⟩ := (only_interchangeable_head x b hx hc hc' hb hb43 h1 h2).2 l hp
  have hleaf' : n'.isLeaf = true := by cases hrel <;> simp_all [Node.isLeaf]
  exact satisfies_swap_entry e pre post _ _ l n' hl (by unfold leafOf; rw [hp']; simp [hleaf']) hrel

/-! ### for every id on the active list both spellings of each pair are valid -/

def cleanB (w : Bytes) : Bool :=
  (match readOp w with | none => true | some _ => false) && !docRefPrefix.isPrefixOf w && !licRefPrefix.isPrefixOf w && !w.isEmpty

theorem clean_of_cleanB {w : Bytes} (h : cleanB w = true) : Clean w := by
  simp only [cleanB, Bool.and_eq_true, Bool.not_eq_true'] at h
  obtain ⟨⟨⟨h1, h2⟩, h3⟩, h4⟩ := h
  refine ⟨?_, h2, h3, by intro hh; subst hh; simp at h4⟩
  cases hr : readOp w with
  | none => rfl
  | some p => rw [hr] at h1; cases h1

/-- table obligation: an active id with either suffix still begins with no operator keyword or ref prefix -/
theorem active_suffixed_clean :
    Tables.active.all (fun x => cleanB (x ++ sufOnly) && cleanB (x ++ sufOrLater) && allId x) = true := by decide +kernel

theorem valid_of_toks_lic (s c : Bytes) (h : toks s = some [.lic c] ∨ toks s = some [.lic c, .op .plus]) : valid s = true := by
  rw [valid_iff_toks]
  rcases h with h | h
  · exact ⟨_, _, h, (parseTokens_iff _ _).mpr (.or1 (.and1 (.lic c)))⟩
  · exact ⟨_, _, h, (parseTokens_iff _ _).mpr (.or1 (.and1 (.licP c)))⟩

/-- **every active id is valid in all four spellings** `X`, `X-only`, `X+`, `X-or-later` -/
theorem active_all_spellings (x : Bytes) (hx : x ∈ Tables.active) :
    valid x = true ∧ valid (x ++ sufOnly) = true ∧ valid (x ++ [43]) = true ∧ valid (x ++ sufOrLater) = true := by
  have hob := List.all_eq_true.mp active_suffixed_clean x hx
  simp only [Bool.and_eq_true] at hob
  obtain ⟨⟨ho, hl⟩, hid⟩ := hob
  have hc : Clean x := clean_listed (mem_all_of_active hx)
  have hco := clean_of_cleanB ho
  have hcl := clean_of_cleanB hl
  have hll := licenseLookup_active hx
  refine ⟨?_, ?_, ?_, ?_⟩
  · have := toks_word x [] [.lic x] false hid hc stops_nil (by simpa using normCore_active hx false)
    exact valid_of_toks_lic x x (Or.inl (by simpa [toks_nil] using this))
  · -- X-only: listed itself, or read as X
    have hx' : allId (x ++ sufOnly) = true := by rw [allId_append, hid]; decide
    have hs : stripSuffix? (x ++ sufOnly) sufOnly = some x := (stripSuffix_some_iff _ _ _).mpr rfl
    cases h1 : licenseLookup (x ++ sufOnly) with
    | some t =>
      rcases licenseLookup_tok _ t hx' h1 with ⟨c, rfl, -, -, -⟩ | ⟨c, rfl, hc2⟩
      · have hn : normCore (x ++ sufOnly) false = some ([.lic c], false) := by simp [normCore, h1]
        have := toks_word (x ++ sufOnly) [] [.lic c] false hx' hco stops_nil (by simpa using hn)
        exact valid_of_toks_lic _ c (Or.inl (by simpa [toks_nil] using this))
      · -- no exception id ends in -only
        exfalso
        have hob2 := only_bases_ok
        simp only [onlyBasesOK, Bool.and_eq_true, List.all_eq_true] at hob2
        have := hob2.2 c hc2.mem
        have hl2 : lower c = lower (x ++ sufOnly) := by
          unfold licenseLookup at h1
          split at h1
          · simp at h1
          · split at h1
            · rename_i c' hc'; simp at h1; subst h1; exact (lookup_some_iff _ _ _ hc').2
            · simp at h1
        rw [(lowerEndsWith_of_lower_eq sufOnly c x hl2).1] at this; cases this
    | none =>
      have hn : normCore (x ++ sufOnly) false = some ([.lic x], false) := by simp [normCore, h1, hs, hll]
      have := toks_word (x ++ sufOnly) [] [.lic x] false hx' hco stops_nil (by simpa using hn)
      exact valid_of_toks_lic _ x (Or.inl (by simpa [toks_nil] using this))
  · have := toks_word x [43] [.lic x] false hid hc (stops_cons (by decide)) (by simpa using normCore_active hx true)
    rw [if_neg (by simp), toks_plus_nil] at this
    exact valid_of_toks_lic _ x (Or.inr (by simpa using this))
  · have hx' : allId (x ++ sufOrLater) = true := by rw [allId_append, hid]; decide
    have hnone : licenseLookup (x ++ sufOrLater) = none := by
      cases hh : licenseLookup (x ++ sufOrLater) with
      | none => rfl
      | some t' => have := (orLater_listed_base x t' hh).1; rw [hll] at this; cases this
    have hs : stripSuffix? (x ++ sufOrLater) sufOrLater = some x := (stripSuffix_some_iff _ _ _).mpr rfl
    have hn : normCore (x ++ sufOrLater) false = some ([.lic x, .op .plus], false) := by
      simp [normCore, hnone, orLater_not_only, hs, hll]
    have := toks_word (x ++ sufOrLater) [] [.lic x, .op .plus] false hx' hcl stops_nil (by simpa using hn)
    exact valid_of_toks_lic _ x (Or.inr (by simpa [toks_nil] using this))

end Spdx.C08
