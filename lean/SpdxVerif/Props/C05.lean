/-
C05 — the accepted language is exactly the documented SPDX expression grammar.
-/
import SpdxVerif.Lemmas.Grammar
namespace Spdx.C05

/-- **C05 (token level).** The recursive-descent parser (`parseTokens`, `parseExpression`, `parseAnd`,
`parseAtom`, `parseLicenseRef`, `parseLicense`, `parseWith`, trailing-token check) accepts a token
sequence iff it derives from the documented grammar `D`, and then returns exactly the tree the
derivation denotes (AND binds tighter than OR, parentheses group, chains nest to the right). -/
theorem parseTokens_iff (ts : List Tok) (n : Node) : parseTokens ts = some n ↔ D .expr ts n :=
  Spdx.parseTokens_iff ts n

/-- acceptance, without the tree -/
theorem accepts_iff (ts : List Tok) : (parseTokens ts).isSome = true ↔ ∃ n, D .expr ts n := by
  constructor
  · intro h
    cases hp : parseTokens ts with
    | none => simp [hp] at h
    | some n => exact ⟨n, (parseTokens_iff ts n).mp hp⟩
  · rintro ⟨n, hn⟩
    simp [(parseTokens_iff ts n).mpr hn]

/-- the tree is unique: the grammar, as read by the parser, is unambiguous -/
theorem D_unique {ts : List Tok} {n₁ n₂ : Node} (h₁ : D .expr ts n₁) (h₂ : D .expr ts n₂) : n₁ = n₂ := by
  have a := (parseTokens_iff ts n₁).mpr h₁
  have b := (parseTokens_iff ts n₂).mpr h₂
  rw [a] at b
  exact Option.some.inj b

/-! ### non-vacuity and the precedence / grouping reading -/
section
private def a : Bytes := [77,73,84]
private def b : Bytes := [73,83,67]
private def c : Bytes := [90,108,105,98]
-- a OR b AND c  =  a OR (b AND c)
example : parseTokens [.lic a, .op .or_, .lic b, .op .and_, .lic c] =
    some (.or (.lic a false none) (.and (.lic b false none) (.lic c false none))) := by decide +kernel
-- a AND b OR c  =  (a AND b) OR c
example : parseTokens [.lic a, .op .and_, .lic b, .op .or_, .lic c] =
    some (.or (.and (.lic a false none) (.lic b false none)) (.lic c false none)) := by decide +kernel
-- (a OR b) AND c
example : parseTokens [.op .lparen, .lic a, .op .or_, .lic b, .op .rparen, .op .and_, .lic c] =
    some (.and (.or (.lic a false none) (.lic b false none)) (.lic c false none)) := by decide +kernel
-- rejected: dangling operator, doubled operator, adjacent terms, empty parentheses, WITH without exception,
-- exception without WITH, '+' on a LicenseRef, DocumentRef without ':LicenseRef-'
example : parseTokens [.lic a, .op .and_] = none := by decide +kernel
example : parseTokens [.lic a, .op .and_, .op .or_, .lic b] = none := by decide +kernel
example : parseTokens [.lic a, .lic b] = none := by decide +kernel
example : parseTokens [.op .lparen, .op .rparen] = none := by decide +kernel
example : parseTokens [.op .lparen, .lic a] = none := by decide +kernel
example : parseTokens [.lic a, .op .rparen] = none := by decide +kernel
example : parseTokens [.lic a, .op .with_] = none := by decide +kernel
example : parseTokens [.lic a, .op .with_, .lic b] = none := by decide +kernel
example : parseTokens [.lic a, .exc b] = none := by decide +kernel
example : parseTokens [.exc b] = none := by decide +kernel
example : parseTokens [.licRef a, .op .plus] = none := by decide +kernel
example : parseTokens [.licRef a, .op .with_, .exc b] = none := by decide +kernel
example : parseTokens [.docRef a] = none := by decide +kernel
example : parseTokens [.docRef a, .op .colon] = none := by decide +kernel
example : parseTokens [.docRef a, .op .colon, .lic b] = none := by decide +kernel
end

end Spdx.C05
