/-
C02 — single-term matching follows the documented version / + / exception / ref rules.
-/
import SpdxVerif.Lemmas.Match
import SpdxVerif.Lemmas.Grammar
namespace Spdx.C02

/-- the relation is symmetric -/
theorem matchLeaf_symm (x y : Node) : matchLeaf x y = matchLeaf y x := Spdx.matchLeaf_symm x y

/-- every single term matches itself -/
theorem matchLeaf_refl (x : Node) (h : x.isLeaf = true) : matchLeaf x x = true := Spdx.matchLeaf_refl x h

/-- a license never matches a LicenseRef (in either order) -/
theorem lic_never_matches_ref (a : Bytes) (p : Bool) (e : Option Bytes) (d : Option Bytes) (r : Bytes) :
    matchLeaf (.lic a p e) (.ref d r) = false ∧ matchLeaf (.ref d r) (.lic a p e) = false := by
  simp [matchLeaf]

/-- LicenseRefs match iff the LicenseRef ids are identical and the DocumentRefs are identical or both absent -/
theorem ref_match_iff (d₁ d₂ : Option Bytes) (r₁ r₂ : Bytes) :
    matchLeaf (.ref d₁ r₁) (.ref d₂ r₂) = true ↔ r₁ = r₂ ∧ d₁ = d₂ := by
  simp [matchLeaf]

/-- licenses with different WITH exceptions (or an exception on one side only) never match -/
theorem exception_gate (a b : Bytes) (pa pb : Bool) (ea eb : Option Bytes) (h : ea ≠ eb) :
    matchLeaf (.lic a pa ea) (.lic b pb eb) = false := by
  simp [matchLeaf, h]

/-- the same id always matches (given equal exceptions), whatever the `+` flags -/
theorem same_id_matches (a : Bytes) (pa pb : Bool) (e : Option Bytes) :
    matchLeaf (.lic a pa e) (.lic a pb e) = true := by
  have hEQ : compareEQ a a = true := by simp [compareEQ]
  cases pa <;> cases pb <;> simp [matchLeaf, foldEq_refl, hEQ]

/-- The four version cases, for ids at known table positions `(family, version group)`; equal exceptions, different
spellings.  This is the rule of the property text, `pos` being the first position in the shipped range table. -/
theorem version_rule (a b : Bytes) (pa pb : Bool) (e : Option Bytes) (i j k l : Nat)
    (ha : pos a = some (i, j)) (hb : pos b = some (k, l)) (hne : a ≠ b)
    (hfold : foldEq (render (.lic a pa e)) (render (.lic b pb e)) = false) :
    matchLeaf (.lic a pa e) (.lic b pb e) =
      (i == k && (match pa, pb with
        | false, false => j == l
        | true, false => decide (j ≤ l)
        | false, true => decide (l ≤ j)
        | true, true => true)) := by
  have hne' : (a == b) = false := by simpa using hne
  have hne'' : (b == a) = false := by simpa using (Ne.symm hne)
  have hik : (k == i) = (i == k) := Bool.beq_comm
  simp only [matchLeaf, bne_self_eq_false, Bool.false_eq_true, ↓reduceIte, hfold, compareGT, compareEQ, ha, hb,
    sameGroup, hne', hne'', Bool.false_or, hik]
  cases pa <;> cases pb <;> simp
  · cases h : (i == k) <;> simp
    rw [Bool.eq_iff_iff]; simp; omega
  · cases h : (i == k) <;> simp
    rw [Bool.eq_iff_iff]; simp; omega

/-- ids outside the range table match only themselves -/
theorem unranged_matches_only_itself (a b : Bytes) (pa pb : Bool) (e : Option Bytes)
    (ha : pos a = none) (hne : a ≠ b)
    (hfold : foldEq (render (.lic a pa e)) (render (.lic b pb e)) = false) :
    matchLeaf (.lic a pa e) (.lic b pb e) = false := by
  have hne' : (a == b) = false := by simpa using hne
  have hne'' : (b == a) = false := by simpa using (Ne.symm hne)
  simp only [matchLeaf, bne_self_eq_false, Bool.false_eq_true, ↓reduceIte, hfold, compareGT, compareEQ, ha,
    sameGroup, hne', hne'']
  cases pa <;> cases pb <;> simp <;> (cases pos b <;> simp)

/-- `-or-later` counts as `+`: a licence token whose id ends in `-or-later` is parsed with the plus flag set,
    and the range lookup ignores the suffix -/
theorem orLater_counts_as_plus (id : Bytes) (rest : List Tok) (n : Node) (r : List Tok)
    (hs : sufOrLater.isSuffixOf id = true) (h : parseLicense (.lic id :: rest) = .ok n r) :
    ∃ e, n = .lic id true e := by
  obtain ⟨pre, hpre, hd⟩ := parseLicense_sound h
  cases hd <;> simp at hpre
  · obtain ⟨rfl, -⟩ := hpre; exact ⟨none, by rw [hs]⟩
  · obtain ⟨rfl, -⟩ := hpre; exact ⟨none, rfl⟩
  · obtain ⟨rfl, -⟩ := hpre; exact ⟨_, by rw [hs]⟩
  · obtain ⟨rfl, -⟩ := hpre; exact ⟨_, rfl⟩

theorem pos_ignores_orLater (id : Bytes) : pos (id ++ sufOrLater) = pos id ∨ sufOrLater.isSuffixOf id = true := by
  by_cases h : sufOrLater.isSuffixOf id = true
  · exact Or.inr h
  · left
    have hs : sufOrLater.isSuffixOf (id ++ sufOrLater) = true := by
      rw [List.isSuffixOf_iff_suffix]; exact List.suffix_append _ _
    simp [pos, simplify, stripSuffix?, hs, h]

/-! ### non-vacuity on the shipped table -/
section
private def gpl2 : Bytes := [71,80,76,45,50,46,48]          -- GPL-2.0
private def gpl3 : Bytes := [71,80,76,45,51,46,48]          -- GPL-3.0
private def gpl1 : Bytes := [71,80,76,45,49,46,48]          -- GPL-1.0
private def mit : Bytes := [77,73,84]
example : matchLeaf (.lic gpl3 false none) (.lic gpl2 true none) = true := by decide +kernel
example : matchLeaf (.lic gpl1 false none) (.lic gpl2 true none) = false := by decide +kernel
example : matchLeaf (.lic gpl3 false none) (.lic gpl2 false none) = false := by decide +kernel
example : matchLeaf (.lic gpl1 true none) (.lic gpl3 true none) = true := by decide +kernel
example : matchLeaf (.lic mit false none) (.lic gpl2 true none) = false := by decide +kernel
example : matchLeaf (.lic gpl3 false (some mit)) (.lic gpl2 true none) = false := by decide +kernel
end

end Spdx.C02
