/-
C14 — cost: the number of alternatives the expansion materialises, and why it cannot be polynomial in the text length.
-/
import SpdxVerif.Lemmas.Expand
import SpdxVerif.Model.Cost
namespace Spdx.C14

theorem appendTerms_length (L R : List (List Node)) : (appendTerms L R).length = L.length * R.length := by
  unfold appendTerms
  induction R with
  | nil => simp
  | cons r R ih => simp [List.flatMap_cons, ih, Nat.mul_succ, Nat.add_comm]

/-- **the expansion has exactly `alts n` alternatives**: the product over AND, the sum over OR -/
theorem expandTerm_length (n : Node) : (expandTerm n).length = alts n := by
  induction n with
  | lic => simp [expandTerm, alts]
  | ref => simp [expandTerm, alts]
  | or l r ihl ihr => simp [expandTerm, alts, ihl, ihr]
  | and l r ihl ihr =>
    simp only [expandTerm, alts]
    split
    · rw [appendTerms_length, ihl, ihr]
    · rename_i h
      have hl := expandTerm_length_pos l
      have hr := expandTerm_length_pos r
      have hl1 : (expandTerm l).length = 1 := by omega
      have hr1 : (expandTerm r).length = 1 := by omega
      rw [← ihl, ← ihr, hl1, hr1]
      match hL : expandTerm l, hR : expandTerm r with
      | [a], [b] => simp [mergeTerms]
      | [], _ => simp [hL] at hl
      | _ :: _ :: _, _ => simp [hL] at hl1
      | [_], [] => simp [hR] at hr
      | [_], _ :: _ :: _ => simp [hR] at hr1

/-- `expand` (with its sorting) returns the same number of alternatives -/
theorem expand_length (n : Node) : (expand n).length = alts n := by
  unfold expand
  split
  · cases n <;> simp_all [Node.isLeaf, alts]
  · unfold deepSort
    rw [(sortBy_perm _ _).length_eq, List.length_map, expandTerm_length]

/-- the family of the known finding: an AND of `k+1` two-way ORs -/
def andOfOrs (x y : Node) : Nat → Node
  | 0 => .or x y
  | k+1 => .and (.or x y) (andOfOrs x y k)

/-- **the finding, as a theorem**: `k+1` groups give `2^(k+1)` alternatives although the text grows linearly in `k` -/
theorem alts_andOfOrs (x y : Node) (hx : x.isLeaf = true) (hy : y.isLeaf = true) (k : Nat) :
    alts (andOfOrs x y k) = 2 ^ (k + 1) := by
  have h2 : alts (.or x y) = 2 := by
    cases x <;> cases y <;> simp_all [alts, Node.isLeaf]
  induction k with
  | zero => simpa [andOfOrs] using h2
  | succ k ih =>
    simp only [andOfOrs, alts] at *
    rw [ih, h2, Nat.pow_succ 2 (k+1)]; omega

theorem leafCount_andOfOrs (x y : Node) (hx : x.isLeaf = true) (hy : y.isLeaf = true) (k : Nat) :
    leafCount (andOfOrs x y k) = 2 * (k + 1) := by
  have h2 : leafCount (.or x y) = 2 := by
    cases x <;> cases y <;> simp_all [leafCount, Node.isLeaf]
  induction k with
  | zero => simpa [andOfOrs] using h2
  | succ k ih => simp only [andOfOrs, leafCount] at *; omega

/-- hence `Satisfies` and `ExtractLicenses` materialise `2^(k+1)` alternatives for that family -/
theorem expand_andOfOrs_length (x y : Node) (hx : x.isLeaf = true) (hy : y.isLeaf = true) (k : Nat) :
    (expand (andOfOrs x y k)).length = 2 ^ (k + 1) := by
  rw [expand_length, alts_andOfOrs x y hx hy]

theorem leafCount_pos (n : Node) : 0 < leafCount n := by
  induction n <;> simp [leafCount] <;> omega

theorem add_le_mul_of_two_le {a b : Nat} (ha : 2 ≤ a) (hb : 2 ≤ b) : a + b ≤ a * b := by
  obtain ⟨a', rfl⟩ : ∃ a', a = a' + 2 := ⟨a - 2, by omega⟩
  obtain ⟨b', rfl⟩ : ∃ b', b = b' + 2 := ⟨b - 2, by omega⟩
  simp only [Nat.add_mul, Nat.mul_add]
  omega

theorem two_le_pow_leafCount (n : Node) : 2 ≤ 2 ^ leafCount n := by
  have := leafCount_pos n
  calc 2 = 2 ^ 1 := rfl
    _ ≤ 2 ^ leafCount n := Nat.pow_le_pow_right (by omega) this

/-- the number of alternatives is at most exponential in the number of terms (and `alts_andOfOrs` shows the bound is
    attained up to the square root) -/
theorem alts_le_pow (n : Node) : alts n ≤ 2 ^ leafCount n := by
  induction n with
  | lic => simp [alts, leafCount]
  | ref => simp [alts, leafCount]
  | and l r ihl ihr =>
    simp only [alts, leafCount, Nat.pow_add]
    exact Nat.mul_le_mul ihl ihr
  | or l r ihl ihr =>
    simp only [alts, leafCount, Nat.pow_add]
    exact Nat.le_trans (Nat.add_le_add ihl ihr) (add_le_mul_of_two_le (two_le_pow_leafCount l) (two_le_pow_leafCount r))

example : alts (andOfOrs (.lic [77,73,84] false none) (.lic [73,83,67] false none) 17) = 262144 := by decide +kernel

end Spdx.C14
