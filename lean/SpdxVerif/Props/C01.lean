/-
C01 — Satisfies returns the Boolean truth of the expression under the allowed list.

Only property theorems and non-vacuity examples live here; helper lemmas are in Lemmas/.
-/
import SpdxVerif.Lemmas.Expand
namespace Spdx.C01

/-- **C01 (core).** For every tree and every list of allowed nodes the verdict computed through the
OR-of-ANDs expansion (`expand`, `expandOr/And/Term`, `appendTerms`, `mergeTerms`, `deepSort`,
`isCompatible`) equals the value of the tree read as a Boolean formula, a term being true iff some
allowed node matches it on its own. -/
theorem verdict_eq_eval (n : Node) (A : List Node) : verdict n A = eval (covered A) n :=
  verdictBy_eq_eval matchLeaf n A

/-- The same for an arbitrary single-term matcher: C01 does not depend on the matching rule (C02). -/
theorem verdictBy_eq_eval (m : Node → Node → Bool) (n : Node) (A : List Node) :
    verdictBy m n A = eval (coveredBy m A) n :=
  Spdx.verdictBy_eq_eval m n A

/-- "never answers 'satisfied' while every alternative still has an uncovered required term, and never
answers 'not satisfied' when one alternative is fully covered" — with the alternatives defined
independently of the implementation's expansion. -/
theorem verdict_iff_alternative_covered (n : Node) (A : List Node) :
    verdict n A = true ↔ ∃ alt ∈ altsOf n, ∀ t ∈ alt, covered A t = true := by
  rw [verdict_eq_eval, ← dnf_altsOf]
  simp [dnf]

/-- AND needs both operands, OR needs either. -/
theorem verdict_and (l r : Node) (A : List Node) : verdict (.and l r) A = (verdict l A && verdict r A) := by
  simp [verdict_eq_eval, eval]
theorem verdict_or (l r : Node) (A : List Node) : verdict (.or l r) A = (verdict l A || verdict r A) := by
  simp [verdict_eq_eval, eval]

/-- The value `Satisfies` returns on valid arguments. -/
theorem satisfies_spec (e : Bytes) (L : List Bytes) (n : Node) (A : List Node)
    (he : parse e = .ok n) (hL : L ≠ []) (hA : toNodes L = .ok A) :
    satisfies e L = .ok (eval (covered (sortAndDedupArray A)) n) := by
  unfold satisfies
  rw [he]
  cases L with
  | nil => exact absurd rfl hL
  | cons x xs => simp [hA, verdict_eq_eval]

/-! ### non-vacuity: the three shapes the property names -/
section
private def mit : Node := .lic [77,73,84] false none                              -- MIT
private def isc : Node := .lic [73,83,67] false none                              -- ISC
private def zlib : Node := .lic [90,108,105,98] false none                        -- Zlib
private def apache : Node := .lic [65,112,97,99,104,101,45,50,46,48] false none   -- Apache-2.0
private def refx : Node := .ref none [120]                                        -- LicenseRef-x

-- a LicenseRef under OR
example : verdict (.or mit refx) [refx] = true := by decide +kernel
-- an OR under AND under OR: only the inner alternative is covered
example : verdict (.or mit (.and isc (.or apache zlib))) [isc, zlib] = true := by decide +kernel
example : verdict (.or mit (.and isc (.or apache zlib))) [isc] = false := by decide +kernel
-- a left-nested AND chain times an OR
example : verdict (.and (.and (.and mit isc) apache) (.or zlib refx)) [mit, isc, apache, zlib] = true := by decide +kernel
example : verdict (.and (.and (.and mit isc) apache) (.or zlib refx)) [mit, isc, apache, refx] = true := by decide +kernel
example : verdict (.and (.and (.and mit isc) apache) (.or zlib refx)) [mit, isc, zlib, refx] = false := by decide +kernel
end

end Spdx.C01
