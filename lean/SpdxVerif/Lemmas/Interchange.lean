/-
Lemmas/Interchange — `X+` and `X-or-later` are read as the same token sequence whenever both are recognised
(C08), wherever they stand.
-/
import SpdxVerif.Lemmas.Spelling
import SpdxVerif.Lemmas.CaseVariant
namespace Spdx

/-! ### table obligation: the base of a listed `…-or-later` id is not itself an active / exception id and carries no suffix -/

def foldLookupNone (w : Bytes) : Bool :=
  (Tables.active.all (fun c => !foldEq c w)) && (Tables.exceptions.all (fun c => !foldEq c w))

def orLaterBasesFree : Bool :=
  (Tables.active ++ Tables.exceptions).all (fun c =>
    if C09.lowerEndsWith sufOrLater c then
      let b := c.take (c.length - sufOrLater.length)
      foldLookupNone b && !C09.lowerEndsWith sufOnly b && !C09.lowerEndsWith sufOrLater b
    else true)

theorem orLater_bases_free : orLaterBasesFree = true := by decide +kernel

theorem foldLookupNone_iff (w : Bytes) : foldLookupNone w = true ↔ licenseLookup w = none := by
  unfold foldLookupNone licenseLookup lookup
  simp only [Bool.and_eq_true, List.all_eq_true, Bool.not_eq_true']
  constructor
  · rintro ⟨h1, h2⟩
    have a : Tables.active.find? (fun l => foldEq l w) = none := List.find?_eq_none.mpr (fun c hc => by simp [h1 c hc])
    have b : Tables.exceptions.find? (fun l => foldEq l w) = none := List.find?_eq_none.mpr (fun c hc => by simp [h2 c hc])
    rw [a, b]
  · intro h
    cases ha : Tables.active.find? (fun l => foldEq l w) with
    | some c => simp [ha] at h
    | none =>
      cases hb : Tables.exceptions.find? (fun l => foldEq l w) with
      | some c => simp [ha, hb] at h
      | none =>
        exact ⟨fun c hc => by simpa using List.find?_eq_none.mp ha c hc, fun c hc => by simpa using List.find?_eq_none.mp hb c hc⟩

theorem licenseLookup_fold' (w w' : Bytes) (h : lower w = lower w') : licenseLookup w = licenseLookup w' :=
  C09.licenseLookup_fold w w' h

theorem lower_take (a : Bytes) (n : Nat) : lower (a.take n) = (lower a).take n := by simp [lower, List.map_take]
theorem lower_length (a : Bytes) : (lower a).length = a.length := by simp [lower]

theorem lowerEndsWith_of_lower_eq (suf a x : Bytes) (h : lower a = lower (x ++ suf)) :
    C09.lowerEndsWith suf a = true ∧ lower (a.take (a.length - suf.length)) = lower x := by
  have hl : a.length = x.length + suf.length := by
    have := congrArg List.length h; simpa [lower] using this
  refine ⟨?_, ?_⟩
  · unfold C09.lowerEndsWith
    rw [h, lower_append', List.isSuffixOf_iff_suffix]
    exact List.suffix_append _ _
  · rw [lower_take, h, lower_append']
    have : a.length - suf.length = (lower x).length := by rw [lower_length]; omega
    rw [this, List.take_left]

/-- if `X-or-later` is (a case variant of) a listed id, then `X` is not an active / exception id and ends in no suffix -/
theorem orLater_listed_base (x : Bytes) (t : Tok) (h : licenseLookup (x ++ sufOrLater) = some t) :
    licenseLookup x = none ∧ C09.lowerEndsWith sufOnly x = false ∧ C09.lowerEndsWith sufOrLater x = false := by
  have hmem : ∃ c, c ∈ Tables.active ++ Tables.exceptions ∧ lower c = lower (x ++ sufOrLater) := by
    unfold licenseLookup at h
    split at h
    · rename_i c hc; obtain ⟨hm, hl⟩ := lookup_some_iff _ _ _ hc; exact ⟨c, by simp [hm], hl⟩
    · split at h
      · rename_i c hc; obtain ⟨hm, hl⟩ := lookup_some_iff _ _ _ hc; exact ⟨c, by simp [hm], hl⟩
      · simp at h
  obtain ⟨c, hc, hl⟩ := hmem
  obtain ⟨he, hb⟩ := lowerEndsWith_of_lower_eq sufOrLater c x hl
  have ho := List.all_eq_true.mp orLater_bases_free c hc
  simp only [he, ↓reduceIte, Bool.and_eq_true, Bool.not_eq_true'] at ho
  obtain ⟨⟨h1, h2⟩, h3⟩ := ho
  refine ⟨?_, ?_, ?_⟩
  · rw [← licenseLookup_fold' _ _ hb]; exact (foldLookupNone_iff _).mp h1
  · unfold C09.lowerEndsWith at h2 ⊢; rw [← hb]; exact h2
  · unfold C09.lowerEndsWith at h3 ⊢; rw [← hb]; exact h3

theorem lowerEndsWith_of_suffix (suf w : Bytes) (h : suf.isSuffixOf w = true) : C09.lowerEndsWith suf w = true := by
  unfold C09.lowerEndsWith
  rw [List.isSuffixOf_iff_suffix] at h ⊢
  obtain ⟨t, rfl⟩ := h
  exact ⟨lower t, by simp [lower]⟩

theorem stripSuffix_some_iff (w suf v : Bytes) : stripSuffix? w suf = some v ↔ w = v ++ suf := by
  unfold stripSuffix?
  constructor
  · intro h
    split at h
    · rename_i hs
      simp at h; subst h
      rw [List.isSuffixOf_iff_suffix] at hs
      obtain ⟨t, rfl⟩ := hs
      simp
    · simp at h
  · rintro rfl
    have : suf.isSuffixOf (v ++ suf) = true := by rw [List.isSuffixOf_iff_suffix]; exact List.suffix_append _ _
    simp [this]

theorem orLater_not_only (x : Bytes) : stripSuffix? (x ++ sufOrLater) sufOnly = none := by
  cases h : stripSuffix? (x ++ sufOrLater) sufOnly with
  | none => rfl
  | some v =>
    exfalso
    rw [stripSuffix_some_iff] at h
    have := congrArg (fun l => l.reverse.take 5) h
    simp [sufOrLater, sufOnly] at this

theorem deprecated_lookup_no_suffix (w : Bytes) (c : Bytes) (h : lookup Tables.deprecated w = some c) :
    C09.lowerEndsWith sufOnly w = false ∧ C09.lowerEndsWith sufOrLater w = false := by
  obtain ⟨hm, hl⟩ := lookup_some_iff _ _ _ h
  have hno := List.all_eq_true.mp C09.deprecated_have_no_suffix c hm
  simp only [Bool.and_eq_true, Bool.not_eq_true'] at hno
  unfold C09.lowerEndsWith at *
  rw [← hl]; exact hno

/-- **`X+` and `X-or-later`**: if both are recognised, the cascade gives the same tokens for both (the `+` either stays
    behind as the operator or has been folded into a listed `X-or-later`) -/
theorem normCore_plus_orLater (x : Bytes) (t1 t2 : List Tok) (k1 k2 : Bool)
    (h1 : normCore x true = some (t1, k1)) (h2 : normCore (x ++ sufOrLater) false = some (t2, k2)) :
    t2 = t1 ++ (if k1 then [] else [.op .plus]) ∧ k2 = false := by
  have hstrip : stripSuffix? (x ++ sufOrLater) sufOrLater = some x := (stripSuffix_some_iff _ _ _).mpr rfl
  unfold normCore at h1
  split at h1
  · -- `X` is an active / exception id
    rename_i t ht
    simp only [Option.some.injEq, Prod.mk.injEq] at h1; obtain ⟨rfl, rfl⟩ := h1
    have hnone : licenseLookup (x ++ sufOrLater) = none := by
      cases hh : licenseLookup (x ++ sufOrLater) with
      | none => rfl
      | some t' => have := (orLater_listed_base x t' hh).1; rw [ht] at this; cases this
    unfold normCore at h2
    simp only [hnone, orLater_not_only, Option.bind_none, Bool.false_eq_true, ↓reduceIte, hstrip, Option.bind_some, ht,
      Option.some.injEq, Prod.mk.injEq] at h2
    obtain ⟨rfl, rfl⟩ := h2
    exact ⟨rfl, rfl⟩
  · rename_i hx1
    split at h1
    · -- `X = v-only`: then `X-or-later` is not recognised
      rename_i t ht
      exfalso
      cases hs : stripSuffix? x sufOnly with
      | none => simp [hs] at ht
      | some v =>
        have hxo : C09.lowerEndsWith sufOnly x = true := by
          apply lowerEndsWith_of_suffix
          rw [(stripSuffix_some_iff _ _ _).mp hs, List.isSuffixOf_iff_suffix]; exact List.suffix_append _ _
        have hnone : licenseLookup (x ++ sufOrLater) = none := by
          cases hh : licenseLookup (x ++ sufOrLater) with
          | none => rfl
          | some t' => have := (orLater_listed_base x t' hh).2.1; rw [hxo] at this; cases this
        unfold normCore at h2
        simp only [hnone, orLater_not_only, Option.bind_none, Bool.false_eq_true, ↓reduceIte, hstrip, Option.bind_some, hx1] at h2
        cases hd : lookup Tables.deprecated (x ++ sufOrLater) with
        | none => simp [hd] at h2
        | some c =>
          have := (deprecated_lookup_no_suffix _ c hd).2
          rw [lowerEndsWith_of_suffix _ _ (by rw [List.isSuffixOf_iff_suffix]; exact List.suffix_append _ _)] at this
          cases this
    · rename_i hx2
      split at h1
      · -- `X-or-later` is listed: both spellings give that one token
        rename_i t ht
        simp only [↓reduceIte] at ht
        simp only [Option.some.injEq, Prod.mk.injEq] at h1; obtain ⟨rfl, rfl⟩ := h1
        unfold normCore at h2
        simp only [ht, Option.some.injEq, Prod.mk.injEq] at h2
        obtain ⟨rfl, rfl⟩ := h2
        exact ⟨by simp, rfl⟩
      · rename_i hx3
        simp only [↓reduceIte] at hx3
        -- from here on `X-or-later` is not listed and `X` is not an active / exception id: `X-or-later` is not recognised
        exfalso
        have hdn : lookup Tables.deprecated (x ++ sufOrLater) = none := by
          cases hd : lookup Tables.deprecated (x ++ sufOrLater) with
          | none => rfl
          | some c =>
            have := (deprecated_lookup_no_suffix _ c hd).2
            rw [lowerEndsWith_of_suffix _ _ (by rw [List.isSuffixOf_iff_suffix]; exact List.suffix_append _ _)] at this
            cases this
        unfold normCore at h2
        simp [hx3, orLater_not_only, hstrip, hx1, hdn] at h2

/-- a generic context lemma: equal token sequences stay equal after any prefix that ends in a space or a parenthesis -/
theorem toks_ctx (a : Bytes) (sep : Nat) (u v : Bytes) (hsep : sep = 32 ∨ sep = 40 ∨ sep = 41)
    (hu : u.head? ≠ some 43) (hv : v.head? ≠ some 43) (h : toks u = toks v) :
    toks (a ++ sep :: u) = toks (a ++ sep :: v) := by
  have hbd : ∀ x, isBoundary (sep :: x) = true := by
    intro x; rcases hsep with rfl | rfl | rfl <;> rfl
  rw [toks_append a _ (hbd _), toks_append a _ (hbd _)]
  have inner : toks (sep :: u) = toks (sep :: v) := by
    rcases hsep with rfl | rfl | rfl
    · have a1 := toks_leading_spaces [32] u (by simp [List.dropWhile, isSp]) hu
      have a2 := toks_leading_spaces [32] v (by simp [List.dropWhile, isSp]) hv
      simp only [List.singleton_append] at a1 a2
      rw [a1, a2, h]
    · rw [toks_cons_lparen, toks_cons_lparen, h]
    · rw [toks_cons_rparen, toks_cons_rparen, h]
  rw [inner]

/-- **`X+…` and `X-or-later…` scan to the same tokens** (`b`: what follows the term — empty, a space, a parenthesis …) -/
theorem toks_plus_orLater (x b : Bytes) (hx : allId x = true) (hc : Clean x) (hc' : Clean (x ++ sufOrLater))
    (hb : Stops b) (hb43 : b.head? ≠ some 43)
    (h1 : (normCore x true).isSome = true) (h2 : (normCore (x ++ sufOrLater) false).isSome = true) :
    toks (x ++ 43 :: b) = toks (x ++ sufOrLater ++ b) := by
  obtain ⟨⟨t1, k1⟩, e1⟩ := Option.isSome_iff_exists.mp h1
  obtain ⟨⟨t2, k2⟩, e2⟩ := Option.isSome_iff_exists.mp h2
  obtain ⟨rfl, rfl⟩ := normCore_plus_orLater x t1 t2 k1 k2 e1 e2
  have hnp : (b.head? == some 43) = false := by simpa using hb43
  have w1 := toks_word x (43 :: b) t1 k1 hx hc (stops_cons (by decide)) (by simpa using e1)
  have w2 := toks_word (x ++ sufOrLater) b _ false (by rw [allId_append, hx, allId_sufOrLater]; rfl) hc' hb (by rw [hnp]; exact e2)
  rw [w1, w2]
  cases k1 with
  | true => simp
  | false =>
    simp only [Bool.false_eq_true, ↓reduceIte, List.tail_cons]
    rw [toks_of_step (43 :: b) b [.op .plus] (fun off => step_plus b off)]
    cases toks b <;> simp

end Spdx
