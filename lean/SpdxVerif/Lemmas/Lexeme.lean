/-
Lemmas/Lexeme — what the scanner's tokens look like, and how a word followed by a non-id byte is scanned.

* `normCore`: the normalisation cascade only looks at whether the next byte is `+`, and consumes at most that byte.
* `LicTok c`, `PlusTok c`, `ExcTok c`: the id carried by a licence / exception token is spelled as in the lists, consists of id
  bytes, begins with no operator or ref prefix, and scanning it again (alone / followed by `+`) gives the same token.
* `SeqOK`: every token sequence produced by `scan` consists of such tokens (with the `+` condition for adjacent tokens).
Used by C06 (round trip of rendered terms), C07 (rendering is injective on parsed terms), C08, C09.
-/
import SpdxVerif.Props.C09
import SpdxVerif.Lemmas.ParseString
namespace Spdx

def allId (w : Bytes) : Bool := w.all isIdChar

/-- `b` is empty or begins with a byte that is not an id byte -/
def Stops (b : Bytes) : Prop := ∀ c, b.head? = some c → isIdChar c = false

theorem stops_nil : Stops [] := by intro c h; simp at h
theorem stops_cons {c : Nat} {r : Bytes} (h : isIdChar c = false) : Stops (c :: r) := by
  intro c' h'; simp at h'; subst h'; exact h

/-! ### the cascade looks one byte ahead -/

/-- `normalize` as a function of "is the next byte `+`"; the flag in the result says whether that `+` is consumed -/
def normCore (w : Bytes) (np : Bool) : Option (List Tok × Bool) :=
  match licenseLookup w with
  | some t => some ([t], false)
  | none =>
  match (stripSuffix? w sufOnly).bind licenseLookup with
  | some t => some ([t], false)
  | none =>
  match (if np then licenseLookup (w ++ sufOrLater) else none) with
  | some t => some ([t], true)
  | none =>
  match (stripSuffix? w sufOrLater).bind licenseLookup with
  | some t => some ([t, .op .plus], np)
  | none =>
  match lookup Tables.deprecated w with
  | some c => some ([.lic c], false)
  | none => none

theorem normalize_eq_core (w rest : Bytes) :
    normalize w rest = (normCore w (rest.head? == some 43)).map (fun p => (p.1, if p.2 then rest.tail else rest)) := by
  unfold normalize normCore
  cases licenseLookup w with
  | some t => simp
  | none =>
    simp only
    cases (stripSuffix? w sufOnly).bind licenseLookup with
    | some t => simp
    | none =>
      simp only
      by_cases hp : rest.head? = some 43
      · simp only [hp, ↓reduceIte, beq_self_eq_true]
        cases licenseLookup (w ++ sufOrLater) with
        | some t => simp
        | none =>
          simp only
          cases (stripSuffix? w sufOrLater).bind licenseLookup with
          | some t => simp
          | none => simp only; cases lookup Tables.deprecated w <;> simp
      · have hp' : (rest.head? == some 43) = false := by simpa using hp
        simp only [hp, hp', ↓reduceIte, Bool.false_eq_true]
        cases (stripSuffix? w sufOrLater).bind licenseLookup with
        | some t => simp
        | none => simp only; cases lookup Tables.deprecated w <;> simp

theorem normCore_caseVariant (w w' : Bytes) (np : Bool)
    (hw : w ∈ Tables.active ++ Tables.deprecated ++ Tables.exceptions) (h : lower w' = lower w) :
    normCore w' np = normCore w np := by
  have key := C09.normalize_caseVariant w w' (if np then [43] else []) hw h
  rw [normalize_eq_core, normalize_eq_core] at key
  have hh : ((if np then [43] else ([] : Bytes)).head? == some 43) = np := by cases np <;> simp
  rw [hh] at key
  cases h1 : normCore w' np with
  | none =>
    cases h2 : normCore w np with
    | none => rfl
    | some q => rw [h1, h2] at key; simp at key
  | some p =>
    cases h2 : normCore w np with
    | none => rw [h1, h2] at key; simp at key
    | some q =>
      rw [h1, h2] at key
      simp only [Option.map_some, Option.some.injEq, Prod.mk.injEq] at key
      obtain ⟨k1, k2⟩ := key
      congr 1
      refine Prod.ext k1 ?_
      cases np
      · -- the flag is never set without a `+`
        have f1 : ∀ x q, normCore x false = some q → q.2 = false := by
          intro x q hq
          unfold normCore at hq
          simp only [Bool.false_eq_true, ↓reduceIte] at hq
          repeat' split at hq
          all_goals first | (simp at hq; rw [← hq]) | simp at hq
        rw [f1 _ _ h1, f1 _ _ h2]
      · cases hp : p.2 <;> cases hq : q.2 <;> simp [hp, hq] at k2 <;> rfl

/-! ### ids are id bytes -/

theorem lowerC_idChar (c : Nat) : isIdChar (lowerC c) = isIdChar c := by
  unfold lowerC isIdChar
  split
  · rename_i h
    have h1 : 65 ≤ c := h.1
    have h2 : c ≤ 90 := h.2
    have a : (decide (97 ≤ c + 32) && decide (c + 32 ≤ 122)) = true := by simp; omega
    have b : (decide (65 ≤ c) && decide (c ≤ 90)) = true := by simp; omega
    simp [a, b]
  · rfl

theorem allId_of_lower_eq (a b : Bytes) (h : lower a = lower b) : allId a = allId b := by
  induction a generalizing b with
  | nil => cases b <;> simp_all [lower]
  | cons x xs ih =>
    cases b with
    | nil => simp [lower] at h
    | cons y ys =>
      simp only [lower, List.map_cons, List.cons.injEq] at h
      have := ih ys h.2
      simp only [allId, List.all_cons] at this ⊢
      rw [this, ← lowerC_idChar x, ← lowerC_idChar y, h.1]

theorem allId_append (a b : Bytes) : allId (a ++ b) = (allId a && allId b) := by simp [allId]

theorem allId_take (a : Bytes) (n : Nat) (h : allId a = true) : allId (a.take n) = true := by
  simp only [allId, List.all_eq_true] at *
  intro x hx; exact h x (List.mem_of_mem_take hx)

theorem allId_sufOrLater : allId sufOrLater = true := by decide

theorem stripSuffix_allId (w suf v : Bytes) (h : stripSuffix? w suf = some v) (hw : allId w = true) : allId v = true := by
  unfold stripSuffix? at h
  split at h
  · simp at h; subst h; exact allId_take _ _ hw
  · simp at h

/-! ### no listed id begins — in any letter case — with an operator or a ref prefix (table obligation) -/

def lowerStarts (p w : Bytes) : Bool := (lower p).isPrefixOf (lower w)

def foldClean (w : Bytes) : Bool :=
  !lowerStarts [87,73,84,72] w && !lowerStarts [65,78,68] w && !lowerStarts [79,82] w &&
  !lowerStarts docRefPrefix w && !lowerStarts licRefPrefix w && (match w with | [] => false | c :: _ => isIdChar c)

theorem listed_foldClean : (Tables.active ++ Tables.deprecated ++ Tables.exceptions).all foldClean = true := by
  decide +kernel

/-- begins with no operator and no ref prefix -/
def Clean (w : Bytes) : Prop :=
  readOp w = none ∧ docRefPrefix.isPrefixOf w = false ∧ licRefPrefix.isPrefixOf w = false ∧ w ≠ []

theorem lower_isPrefixOf (p w : Bytes) (h : p.isPrefixOf w = true) : (lower p).isPrefixOf (lower w) = true := by
  rw [List.isPrefixOf_iff_prefix] at h ⊢
  obtain ⟨t, rfl⟩ := h
  exact ⟨lower t, by simp [lower]⟩

theorem clean_of_foldClean (w w' : Bytes) (hc : foldClean w = true) (h : lower w' = lower w) : Clean w' := by
  simp only [foldClean, Bool.and_eq_true, Bool.not_eq_true'] at hc
  obtain ⟨⟨⟨⟨⟨h1, h2⟩, h3⟩, h4⟩, h5⟩, h6⟩ := hc
  have hst : ∀ p, lowerStarts p w = false → p.isPrefixOf w' = false := by
    intro p hp
    cases hpp : p.isPrefixOf w' with
    | false => rfl
    | true =>
      have := lower_isPrefixOf p w' hpp
      rw [h] at this
      simp [lowerStarts, this] at hp
  cases w with
  | nil => simp at h6
  | cons c r =>
    cases w' with
    | nil => simp [lower] at h
    | cons c' r' =>
      simp only at h6
      have hcc : lowerC c' = lowerC c := by simp [lower] at h; exact h.1
      have hid : isIdChar c' = true := by rw [← lowerC_idChar, hcc, lowerC_idChar]; exact h6
      refine ⟨?_, hst _ h4, hst _ h5, by simp⟩
      unfold readOp
      have : opTable.find? (fun p => p.1.isPrefixOf (c' :: r')) = none := by
        rw [List.find?_eq_none]
        intro p hp
        simp only [opTable, List.mem_cons, List.not_mem_nil, or_false] at hp
        rcases hp with rfl | rfl | rfl | rfl | rfl | rfl | rfl
        · simp only [hst _ h1]; simp
        · simp only [hst _ h2]; simp
        · simp only [hst _ h3]; simp
        all_goals
          simp only [List.isPrefixOf_cons_cons, List.isPrefixOf_nil_left, Bool.and_true, beq_iff_eq]
          intro hx; subst hx; simp [isIdChar] at hid
      rw [this]; rfl

/-! ### what a licence / exception token carries -/

structure LicTok (c : Bytes) : Prop where
  mem : c ∈ Tables.active ++ Tables.deprecated
  allId : allId c = true
  clean : Clean c
  solo : normCore c false = some ([.lic c], false)

/-- followed by `+`, the id is still read as itself and the `+` is left for the operator -/
def PlusTok (c : Bytes) : Prop := normCore c true = some ([.lic c], false)

structure ExcTok (c : Bytes) : Prop where
  mem : c ∈ Tables.exceptions
  allId : allId c = true
  clean : Clean c
  norm : ∀ np, normCore c np = some ([.exc c], false)

theorem mem_all_of_active {c : Bytes} (h : c ∈ Tables.active) : c ∈ Tables.active ++ Tables.deprecated ++ Tables.exceptions := by
  simp [h]
theorem mem_all_of_deprecated {c : Bytes} (h : c ∈ Tables.deprecated) : c ∈ Tables.active ++ Tables.deprecated ++ Tables.exceptions := by
  simp [h]
theorem mem_all_of_exception {c : Bytes} (h : c ∈ Tables.exceptions) : c ∈ Tables.active ++ Tables.deprecated ++ Tables.exceptions := by
  simp [h]

theorem clean_listed {c : Bytes} (h : c ∈ Tables.active ++ Tables.deprecated ++ Tables.exceptions) : Clean c :=
  clean_of_foldClean c c (List.all_eq_true.mp listed_foldClean c h) rfl

theorem lookup_active_self {c : Bytes} (h : c ∈ Tables.active) : lookup Tables.active c = some c :=
  lookup_listed _ (foldDistinct_append_left (foldDistinct_append_left C09.lists_fold_distinct)) c c h rfl

theorem licenseLookup_active {c : Bytes} (h : c ∈ Tables.active) : licenseLookup c = some (.lic c) := by
  simp [licenseLookup, lookup_active_self h]

theorem licenseLookup_exception {c : Bytes} (h : c ∈ Tables.exceptions) : licenseLookup c = some (.exc c) := by
  have hd := C09.lists_fold_distinct
  have hx : lookup Tables.exceptions c = some c := lookup_listed _ (foldDistinct_append_right hd) c c h rfl
  have ha : lookup Tables.active c = none := by
    rw [lookup_none_iff]
    intro a ha
    exact foldDistinct_cross hd a (List.mem_append.mpr (Or.inl ha)) c h
  simp [licenseLookup, ha, hx]

theorem normCore_active {c : Bytes} (h : c ∈ Tables.active) (np : Bool) : normCore c np = some ([.lic c], false) := by
  simp [normCore, licenseLookup_active h]

theorem normCore_exception {c : Bytes} (h : c ∈ Tables.exceptions) (np : Bool) : normCore c np = some ([.exc c], false) := by
  simp [normCore, licenseLookup_exception h]

/-- result of `licenseLookup` on a word of id bytes -/
theorem licenseLookup_tok (w : Bytes) (t : Tok) (hw : allId w = true) (h : licenseLookup w = some t) :
    (∃ c, t = .lic c ∧ c ∈ Tables.active ∧ LicTok c ∧ PlusTok c) ∨ (∃ c, t = .exc c ∧ ExcTok c) := by
  unfold licenseLookup at h
  split at h
  · rename_i c hc
    simp at h; subst h
    obtain ⟨hm, hl⟩ := lookup_some_iff _ _ _ hc
    left
    refine ⟨c, rfl, hm, ⟨by simp [hm], ?_, clean_listed (mem_all_of_active hm), normCore_active hm false⟩, normCore_active hm true⟩
    rw [allId_of_lower_eq c w hl]; exact hw
  · split at h
    · rename_i c hc
      simp at h; subst h
      obtain ⟨hm, hl⟩ := lookup_some_iff _ _ _ hc
      right
      refine ⟨c, rfl, ⟨hm, ?_, clean_listed (mem_all_of_exception hm), normCore_exception hm⟩⟩
      rw [allId_of_lower_eq c w hl]; exact hw
    · simp at h

/-- what the cascade produces on a word of id bytes -/
theorem normCore_tok (w : Bytes) (np : Bool) (toks : List Tok) (k : Bool) (hw : allId w = true)
    (h : normCore w np = some (toks, k)) :
    (∃ c, toks = [.lic c] ∧ LicTok c ∧ (PlusTok c ∨ (np = false ∧ k = false))) ∨
    (∃ c, toks = [.exc c] ∧ ExcTok c) ∨
    (∃ c, toks = [.lic c, .op .plus] ∧ LicTok c ∧ PlusTok c) ∨
    (∃ c, toks = [.exc c, .op .plus] ∧ ExcTok c) := by
  have single : ∀ t x, licenseLookup x = some t → allId x = true →
      (∃ c, [t] = [Tok.lic c] ∧ LicTok c ∧ (PlusTok c ∨ (np = false ∧ k = false))) ∨ (∃ c, [t] = [Tok.exc c] ∧ ExcTok c) ∨
      (∃ c, [t] = [Tok.lic c, .op .plus] ∧ LicTok c ∧ PlusTok c) ∨ (∃ c, [t] = [Tok.exc c, .op .plus] ∧ ExcTok c) := by
    intro t x hx hax
    rcases licenseLookup_tok x t hax hx with ⟨c, rfl, -, h1, h2⟩ | ⟨c, rfl, h1⟩
    · exact Or.inl ⟨c, rfl, h1, Or.inl h2⟩
    · exact Or.inr (Or.inl ⟨c, rfl, h1⟩)
  unfold normCore at h
  split at h
  · rename_i t ht
    simp only [Option.some.injEq, Prod.mk.injEq] at h; obtain ⟨rfl, -⟩ := h
    exact single t w ht hw
  · rename_i h1
    split at h
    · rename_i t ht
      simp only [Option.some.injEq, Prod.mk.injEq] at h; obtain ⟨rfl, -⟩ := h
      cases hs : stripSuffix? w sufOnly with
      | none => simp [hs] at ht
      | some v =>
        simp only [hs, Option.bind_some] at ht
        exact single t v ht (stripSuffix_allId _ _ _ hs hw)
    · rename_i h2
      split at h
      · rename_i t ht
        simp only [Option.some.injEq, Prod.mk.injEq] at h; obtain ⟨rfl, -⟩ := h
        split at ht
        · exact single t _ ht (by rw [allId_append, hw, allId_sufOrLater]; rfl)
        · simp at ht
      · rename_i h3
        split at h
        · rename_i t ht
          simp only [Option.some.injEq, Prod.mk.injEq] at h; obtain ⟨rfl, -⟩ := h
          cases hs : stripSuffix? w sufOrLater with
          | none => simp [hs] at ht
          | some v =>
            simp only [hs, Option.bind_some] at ht
            rcases licenseLookup_tok v t (stripSuffix_allId _ _ _ hs hw) ht with ⟨c, rfl, -, a, b⟩ | ⟨c, rfl, a⟩
            · exact Or.inr (Or.inr (Or.inl ⟨c, rfl, a, b⟩))
            · exact Or.inr (Or.inr (Or.inr ⟨c, rfl, a⟩))
        · rename_i h4
          split at h
          · rename_i c hc
            simp only [Option.some.injEq, Prod.mk.injEq] at h; obtain ⟨rfl, rfl⟩ := h
            obtain ⟨hm, hl⟩ := lookup_some_iff _ _ _ hc
            have hall := mem_all_of_deprecated hm
            have hcv : ∀ np', normCore c np' = normCore w np' := fun np' => (normCore_caseVariant c w np' hall hl.symm).symm
            have hfalse : normCore w false = some ([.lic c], false) := by
              simp [normCore, h1, h2, h4, hc]
            left
            refine ⟨c, rfl, ⟨by simp [hm], ?_, clean_listed hall, by rw [hcv, hfalse]⟩, ?_⟩
            · rw [allId_of_lower_eq c w hl]; exact hw
            · cases np with
              | false => exact Or.inr ⟨rfl, rfl⟩
              | true =>
                left
                show normCore c true = _
                rw [hcv]
                simp only [↓reduceIte] at h3
                simp [normCore, h1, h2, h3, h4, hc]
          · simp at h

/-! ### scanning a word that is followed by a non-id byte -/

theorem isPrefixOf_append_stop (p s b : Bytes) (hp : ∀ c ∈ p, isIdChar c = true) (hb : Stops b) :
    p.isPrefixOf (s ++ b) = p.isPrefixOf s := by
  induction p generalizing s with
  | nil => simp
  | cons x p ih =>
    cases s with
    | nil =>
      cases b with
      | nil => simp
      | cons c r =>
        simp only [List.nil_append, List.isPrefixOf_cons_cons, List.isPrefixOf_cons_nil]
        have hx : isIdChar x = true := hp x (by simp)
        have hc : isIdChar c = false := hb c rfl
        have : (x == c) = false := by
          rw [beq_eq_false_iff_ne]; intro heq; rw [heq, hc] at hx; cases hx
        simp [this]
    | cons y s =>
      simp only [List.cons_append, List.isPrefixOf_cons_cons]
      rw [ih s (fun c hc => hp c (List.mem_cons_of_mem _ hc))]

theorem readOp_append_stop (y : Nat) (s b : Bytes) (hb : Stops b) (h : readOp (y :: s) = none) : readOp (y :: s ++ b) = none := by
  unfold readOp at *
  have hpred : ∀ p ∈ opTable, p.1.isPrefixOf (y :: s ++ b) = p.1.isPrefixOf (y :: s) := by
    intro p hp
    simp only [opTable, List.mem_cons, List.not_mem_nil, or_false] at hp
    rcases hp with rfl | rfl | rfl | rfl | rfl | rfl | rfl <;>
      (simp only [List.cons_append, List.isPrefixOf_cons_cons]; rw [isPrefixOf_append_stop _ s b (by simp [isIdChar]) hb])
  rw [find?_congr' _ _ _ hpred]
  cases hf : opTable.find? (fun p => p.1.isPrefixOf (y :: s)) with
  | none => rfl
  | some q => rw [hf] at h; simp at h

theorem takeWhile_word (w b : Bytes) (hw : allId w = true) (hb : Stops b) :
    (w ++ b).takeWhile isIdChar = w ∧ (w ++ b).dropWhile isIdChar = b := by
  have hd : w.dropWhile isIdChar = [] := by
    induction w with
    | nil => rfl
    | cons x xs ih =>
      simp only [allId, List.all_cons, Bool.and_eq_true] at hw
      simp only [List.dropWhile_cons, hw.1, ↓reduceIte]
      exact ih hw.2
  obtain ⟨h1, h2⟩ := takeWhile_all isIdChar w b hd
  have hb1 : b.takeWhile isIdChar = [] ∧ b.dropWhile isIdChar = b := by
    cases b with
    | nil => simp
    | cons c r => have := hb c rfl; simp [List.takeWhile_cons, List.dropWhile_cons, this]
  rw [h1, h2, hb1.1, hb1.2]; simp

/-- **a clean word of id bytes followed by a non-id byte is read by the normalisation cascade** -/
theorem lexeme_word (w b : Bytes) (o : Nat) (f : Bool) (hw : allId w = true) (hc : Clean w) (hb : Stops b) :
    lexeme (w ++ b) o f = (match normCore w (b.head? == some 43) with
      | none => .err (.unknownLicense w o)
      | some (toks, k) => .tok toks (if k then b.tail else b)) := by
  obtain ⟨h1, h2, h3, h4⟩ := hc
  cases w with
  | nil => exact absurd rfl h4
  | cons y s =>
    have r1 : readOp (y :: s ++ b) = none := readOp_append_stop y s b hb h1
    have r2 : docRefPrefix.isPrefixOf (y :: s ++ b) = false := by
      rw [isPrefixOf_append_stop _ _ _ (by decide) hb]; exact h2
    have r3 : licRefPrefix.isPrefixOf (y :: s ++ b) = false := by
      rw [isPrefixOf_append_stop _ _ _ (by decide) hb]; exact h3
    obtain ⟨t1, t2⟩ := takeWhile_word (y :: s) b hw hb
    unfold lexeme
    rw [r1]
    simp only [r2, r3, Bool.false_eq_true, ↓reduceIte, t1, t2, reduceCtorEq]
    rw [normalize_eq_core]
    cases normCore (y :: s) (b.head? == some 43) with
    | none => rfl
    | some p => rfl

/-! ### every token sequence produced by the scanner is well-formed -/

theorem allId_takeWhile (s : Bytes) : allId (s.takeWhile isIdChar) = true := by
  induction s with
  | nil => rfl
  | cons c r ih =>
    by_cases hc : isIdChar c = true
    · simp only [List.takeWhile_cons, hc, ↓reduceIte, allId, List.all_cons, Bool.true_and]; exact ih
    · simp [List.takeWhile_cons, hc, allId]

theorem lexeme_tok_inv (s1 : Bytes) (o : Nat) (f : Bool) (ts : List Tok) (r : Bytes) (h : lexeme s1 o f = .tok ts r) :
    (∃ op, ts = [.op op] ∧ readOp s1 = some (op, r) ∧ ¬ (op = .plus ∧ f = true)) ∨
    (∃ id, ts = [.docRef id] ∧ id ≠ [] ∧ allId id = true) ∨
    (∃ id, ts = [.licRef id] ∧ id ≠ [] ∧ allId id = true) ∨
    (∃ w k, w = s1.takeWhile isIdChar ∧ w ≠ [] ∧ allId w = true ∧ normCore w ((s1.dropWhile isIdChar).head? == some 43) = some (ts, k) ∧
      r = if k then (s1.dropWhile isIdChar).tail else s1.dropWhile isIdChar) := by
  unfold lexeme at h
  split at h
  · rename_i op r' hop
    split at h
    · simp at h
    · rename_i hn
      simp only [Step.tok.injEq] at h
      obtain ⟨rfl, rfl⟩ := h
      exact Or.inl ⟨op, rfl, hop, hn⟩
  · split at h
    · simp only at h
      split at h
      · simp at h
      · rename_i hid
        simp only [Step.tok.injEq] at h
        obtain ⟨rfl, -⟩ := h
        exact Or.inr (Or.inl ⟨_, rfl, hid, allId_takeWhile _⟩)
    · split at h
      · simp only at h
        split at h
        · simp at h
        · rename_i hid
          simp only [Step.tok.injEq] at h
          obtain ⟨rfl, -⟩ := h
          exact Or.inr (Or.inr (Or.inl ⟨_, rfl, hid, allId_takeWhile _⟩))
      · simp only at h
        split at h
        · simp at h
        · rename_i hw
          split at h
          · simp at h
          · rename_i toks r' hn
            simp only [Step.tok.injEq] at h
            obtain ⟨rfl, rfl⟩ := h
            rw [normalize_eq_core] at hn
            cases hc : normCore (s1.takeWhile isIdChar) ((s1.dropWhile isIdChar).head? == some 43) with
            | none => rw [hc] at hn; simp at hn
            | some p =>
              rw [hc] at hn
              simp only [Option.map_some, Option.some.injEq, Prod.mk.injEq] at hn
              obtain ⟨rfl, rfl⟩ := hn
              exact Or.inr (Or.inr (Or.inr ⟨_, p.2, rfl, hw, allId_takeWhile _, hc, rfl⟩))

def SeqOK : List Tok → Prop
  | [] => True
  | .lic c :: rest => LicTok c ∧ (rest.head? = some (.op .plus) → PlusTok c) ∧ SeqOK rest
  | .exc c :: rest => ExcTok c ∧ SeqOK rest
  | .docRef d :: rest => (d ≠ [] ∧ allId d = true) ∧ SeqOK rest
  | .licRef d :: rest => (d ≠ [] ∧ allId d = true) ∧ SeqOK rest
  | .op _ :: rest => SeqOK rest

theorem seqOK_append (a b : List Tok) (h : SeqOK (a ++ b)) : SeqOK a ∧ SeqOK b := by
  induction a with
  | nil => exact ⟨trivial, h⟩
  | cons t a ih =>
    cases t with
    | op o => exact ih h
    | docRef d => exact ⟨⟨h.1, (ih h.2).1⟩, (ih h.2).2⟩
    | licRef d => exact ⟨⟨h.1, (ih h.2).1⟩, (ih h.2).2⟩
    | exc c => exact ⟨⟨h.1, (ih h.2).1⟩, (ih h.2).2⟩
    | lic c =>
      obtain ⟨h1, h2, h3⟩ := h
      refine ⟨⟨h1, ?_, (ih h3).1⟩, (ih h3).2⟩
      intro hh
      apply h2
      cases a with
      | nil => simp at hh
      | cons x xs => simpa using hh

theorem scanFrom_seqOK : ∀ (n : Nat) (s : Bytes) (off : Nat) (ts : List Tok), s.length < n → scanFrom s off = .ok ts →
    SeqOK ts ∧ (ts.head? = some (.op .plus) → s.head? = some 43) := by
  intro n
  induction n with
  | zero => intro s off ts h; omega
  | succ n ih =>
    intro s off ts hlen h
    rw [scanFrom_unfold] at h
    cases hs : step s off with
    | done => rw [hs] at h; simp at h; subst h; exact ⟨trivial, by simp⟩
    | err e => rw [hs] at h; simp at h
    | tok t1 r =>
      rw [hs] at h
      simp only at h
      cases hr : scanFrom r (off + (s.length - r.length)) with
      | error e => rw [hr] at h; simp [Except.map] at h
      | ok ts' =>
        rw [hr] at h
        simp only [Except.map, Except.ok.injEq] at h
        subst h
        obtain ⟨pre, hpre, hsr⟩ := step_suffix hs
        have hrl : r.length < n := by
          have : 0 < pre.length := List.length_pos_iff.mpr hpre
          rw [hsr, List.length_append] at hlen; omega
        obtain ⟨ih1, ih2⟩ := ih r _ ts' hrl hr
        rw [step_eq] at hs
        split at hs
        · simp at hs
        · rcases lexeme_tok_inv _ _ _ _ _ hs with ⟨op, rfl, hop, hnf⟩ | ⟨id, rfl, h1, h2⟩ | ⟨id, rfl, h1, h2⟩ | ⟨w, k, -, hw1, hw2, hnc, hrr⟩
          · refine ⟨ih1, ?_⟩
            intro hh
            simp only [List.cons_append, List.nil_append, List.head?_cons, Option.some.injEq, Tok.op.injEq] at hh
            subst hh
            have hsp : s.takeWhile isSp = [] := by
              cases hsp : s.takeWhile isSp with
              | nil => rfl
              | cons x xs => exact absurd ⟨rfl, by simp [hsp]⟩ hnf
            have hs1 : s.dropWhile isSp = s := by
              have := List.takeWhile_append_dropWhile (p := isSp) (l := s)
              rw [hsp] at this; simpa using this
            rw [hs1] at hop
            exact readOp_plus_head hop
          · exact ⟨⟨⟨h1, h2⟩, ih1⟩, by simp⟩
          · exact ⟨⟨⟨h1, h2⟩, ih1⟩, by simp⟩
          · rcases normCore_tok w _ _ k hw2 hnc with ⟨c, rfl, hl, hp⟩ | ⟨c, rfl, he⟩ | ⟨c, rfl, hl, hp⟩ | ⟨c, rfl, he⟩
            · refine ⟨⟨hl, ?_, ih1⟩, by simp⟩
              intro hh
              rcases hp with hp | ⟨hnp, hk⟩
              · exact hp
              · exfalso
                have := ih2 (by simpa using hh)
                subst hk
                simp only [Bool.false_eq_true, ↓reduceIte] at hrr
                rw [hrr] at this
                rw [this] at hnp
                simp at hnp
            · exact ⟨⟨he, ih1⟩, by simp⟩
            · exact ⟨⟨hl, fun _ => hp, ih1⟩, by simp⟩
            · exact ⟨⟨he, ih1⟩, by simp⟩

theorem scan_seqOK (s : Bytes) (ts : List Tok) (h : scan s = .ok ts) : SeqOK ts :=
  (scanFrom_seqOK (s.length + 1) s 0 ts (by omega) h).1

/-! ### the terms of a parsed expression -/

def LeafOK : Node → Prop
  | .lic c p e => LicTok c ∧ (p = true → PlusTok c) ∧ (sufOrLater.isSuffixOf c = true → p = true) ∧ (∀ x, e = some x → ExcTok x)
  | .ref d r => (r ≠ [] ∧ allId r = true) ∧ (∀ x, d = some x → x ≠ [] ∧ allId x = true)
  | _ => True

theorem plusTok_of_suffix {c : Bytes} (h : LicTok c) (hs : sufOrLater.isSuffixOf c = true) : PlusTok c := by
  rcases List.mem_append.mp h.mem with ha | hd
  · exact normCore_active ha true
  · exfalso
    have hno := List.all_eq_true.mp C09.deprecated_have_no_suffix c hd
    simp only [Bool.and_eq_true, Bool.not_eq_true'] at hno
    have : C09.lowerEndsWith sufOrLater c = true := by
      unfold C09.lowerEndsWith
      rw [List.isSuffixOf_iff_suffix] at hs ⊢
      obtain ⟨t, rfl⟩ := hs
      exact ⟨lower t, by simp [lower]⟩
    rw [this] at hno; exact absurd hno.2 (by simp)

theorem D_leavesOK {lv : Lvl} {ts : List Tok} {n : Node} (h : D lv ts n) : SeqOK ts → ∀ l ∈ leaves n, LeafOK l := by
  induction h with
  | ref0 r =>
    intro hs l hl
    simp only [leaves, List.mem_singleton] at hl; subst hl
    exact ⟨hs.1, by simp⟩
  | ref1 d r =>
    intro hs l hl
    simp only [leaves, List.mem_singleton] at hl; subst hl
    obtain ⟨h1, h2, -⟩ := hs
    exact ⟨h2, by intro x hx; simp at hx; subst hx; exact h1⟩
  | lic id =>
    intro hs l hl
    simp only [leaves, List.mem_singleton] at hl; subst hl
    exact ⟨hs.1, fun hp => plusTok_of_suffix hs.1 hp, fun h => h, by simp⟩
  | licP id =>
    intro hs l hl
    simp only [leaves, List.mem_singleton] at hl; subst hl
    exact ⟨hs.1, fun _ => hs.2.1 rfl, fun _ => rfl, by simp⟩
  | licW id e =>
    intro hs l hl
    simp only [leaves, List.mem_singleton] at hl; subst hl
    obtain ⟨h1, -, h3⟩ := hs
    exact ⟨h1, fun hp => plusTok_of_suffix h1 hp, fun h => h, by intro x hx; simp at hx; subst hx; exact h3.1⟩
  | licPW id e =>
    intro hs l hl
    simp only [leaves, List.mem_singleton] at hl; subst hl
    obtain ⟨h1, h2, h3⟩ := hs
    exact ⟨h1, fun _ => h2 rfl, fun _ => rfl, by intro x hx; simp at hx; subst hx; exact h3.1⟩
  | paren _ ih =>
    intro hs
    have : SeqOK (_ ++ [Tok.op Op.rparen]) := hs
    exact ih (seqOK_append _ _ this).1
  | and1 _ ih => exact ih
  | or1 _ ih => exact ih
  | andC _ _ iha ihb =>
    intro hs l hl
    obtain ⟨h1, h2⟩ := seqOK_append _ _ hs
    simp only [leaves, List.mem_append] at hl
    exact hl.elim (iha h1 l) (ihb h2 l)
  | orC _ _ iha ihb =>
    intro hs l hl
    obtain ⟨h1, h2⟩ := seqOK_append _ _ hs
    simp only [leaves, List.mem_append] at hl
    exact hl.elim (iha h1 l) (ihb h2 l)

/-- **every term of every parsed expression is well-formed** -/
theorem parse_leavesOK (s : Bytes) (n : Node) (h : parse s = .ok n) : ∀ l ∈ leaves n, LeafOK l := by
  obtain ⟨ts, h1, h2⟩ := (parse_ok_iff s n).mp h
  have hscan : scan s = .ok ts := by
    unfold toks at h1
    cases hsc : scan s with
    | error e => rw [hsc] at h1; simp [Except.toOption] at h1
    | ok t => rw [hsc] at h1; simp [Except.toOption] at h1; rw [h1]
  exact D_leavesOK ((parseTokens_iff _ _).mp h2) (scan_seqOK s ts hscan)

/-! ### scanning the canonical text of a term -/

theorem clean_head_not_sp {w : Bytes} (hw : allId w = true) (hc : Clean w) :
    (w.takeWhile isSp = []) ∧ ∀ b, (w ++ b).takeWhile isSp = [] ∧ (w ++ b).dropWhile isSp = w ++ b := by
  cases w with
  | nil => exact absurd rfl hc.2.2.2
  | cons c r =>
    simp only [allId, List.all_cons, Bool.and_eq_true] at hw
    have : isSp c = false := by
      have h1 := hw.1
      unfold isIdChar at h1; unfold isSp
      simp only [Bool.or_eq_true, Bool.and_eq_true, decide_eq_true_eq, beq_iff_eq] at h1
      simp only [beq_eq_false_iff_ne, ne_eq]
      omega
    simp [List.takeWhile_cons, List.dropWhile_cons, this]

/-- one scanner step on a clean word followed by a non-id byte -/
theorem toks_word (w b : Bytes) (tk : List Tok) (k : Bool) (hw : allId w = true) (hc : Clean w) (hb : Stops b)
    (hn : normCore w (b.head? == some 43) = some (tk, k)) :
    toks (w ++ b) = (toks (if k then b.tail else b)).map (tk ++ ·) := by
  obtain ⟨-, hsp⟩ := clean_head_not_sp hw hc
  have hstep : ∀ off, step (w ++ b) off = .tok tk (if k then b.tail else b) := by
    intro off
    rw [step_eq, (hsp b).2, (hsp b).1]
    have hne : w ++ b ≠ [] := by
      intro h; exact hc.2.2.2 (List.append_eq_nil_iff.mp h).1
    simp only [hne, ↓reduceIte]
    rw [lexeme_word w b _ _ hw hc hb, hn]
  unfold toks
  rw [scan_eq_scanFrom, scanFrom_unfold, hstep]
  simp only
  rw [toOption_map]
  have a := toksFrom_off (if k then b.tail else b) (0 + ((w ++ b).length - (if k then b.tail else b).length))
  unfold toksFrom toks at a
  rw [a]

theorem toks_plus_nil : toks [43] = some [.op .plus] := by
  simp [toks, scan, scanLoop, step, isSp, readOp, opTable, Except.toOption, Except.map]

/-- scanning `+` followed by boundary text -/
theorem toks_plus_append (b : Bytes) (hb : isBoundary b = true) : toks (43 :: b) = (toks b).map (.op .plus :: ·) := by
  have := toks_append [43] b hb
  simp only [List.singleton_append] at this
  rw [this, toks_plus_nil]
  simp

/-- `" WITH " ++ x` for an exception id `x` -/
theorem toks_with (x : Bytes) (hx : ExcTok x) : toks (bWith ++ x) = some [.op .with_, .exc x] := by
  have h1 : toks (32 :: x) = some [.exc x] := by
    have hw := toks_word x [] [.exc x] false hx.allId hx.clean stops_nil (by simpa using hx.norm false)
    simp only [Bool.false_eq_true, ↓reduceIte, toks_nil, Option.map_some, List.append_nil] at hw
    have hh : x.head? ≠ some 43 := by
      obtain ⟨_, _, _, hne⟩ := hx.clean
      cases x with
      | nil => exact absurd rfl hne
      | cons c r =>
        have := hx.allId
        simp only [allId, List.all_cons, Bool.and_eq_true] at this
        simp only [List.head?_cons, ne_eq, Option.some.injEq]
        intro hc; subst hc; simp [isIdChar] at this
    have := toks_leading_spaces [32] x (by simp [List.dropWhile, isSp]) hh
    simp only [List.singleton_append] at this
    rw [this, hw]
  -- " WITH" then the rest, which begins with a space (a boundary)
  have h2 : toks (bWith ++ x) = (toks [32,87,73,84,72]).bind (fun ta => (toks (32 :: x)).map (ta ++ ·)) := by
    have := toks_append [32,87,73,84,72] (32 :: x) (by rfl)
    simpa [bWith] using this
  have h3 : toks [32,87,73,84,72] = some [.op .with_] := by
    simp [toks, scan, scanLoop, step, isSp, readOp, opTable, Except.toOption, Except.map]
  rw [h2, h3, h1]
  rfl

theorem toks_of_step (s r : Bytes) (tk : List Tok) (h : ∀ off, step s off = .tok tk r) : toks s = (toks r).map (tk ++ ·) := by
  unfold toks
  rw [scan_eq_scanFrom, scanFrom_unfold, h]
  simp only
  rw [toOption_map]
  have a := toksFrom_off r (0 + (s.length - r.length))
  unfold toksFrom toks at a
  rw [a]

theorem step_colon (s : Bytes) (off : Nat) : step (58 :: s) off = .tok [.op .colon] s := by
  simp [step_eq, isSp, lexeme, readOp, opTable]

theorem step_plus (s : Bytes) (off : Nat) : step (43 :: s) off = .tok [.op .plus] s := by
  simp [step_eq, isSp, lexeme, readOp, opTable]

theorem step_licRef (r b : Bytes) (off : Nat) (hr : allId r = true) (hne : r ≠ []) (hb : Stops b) :
    step (licRefPrefix ++ (r ++ b)) off = .tok [.licRef r] b := by
  obtain ⟨t1, t2⟩ := takeWhile_word r b hr hb
  have hd : (licRefPrefix ++ (r ++ b)).drop licRefPrefix.length = r ++ b := List.drop_left
  have hp : licRefPrefix.isPrefixOf (licRefPrefix ++ (r ++ b)) = true := by
    rw [List.isPrefixOf_iff_prefix]; exact List.prefix_append _ _
  rw [step_eq]
  have h1 : (licRefPrefix ++ (r ++ b)).dropWhile isSp = licRefPrefix ++ (r ++ b) := by simp [licRefPrefix, List.dropWhile, isSp]
  have h2 : (licRefPrefix ++ (r ++ b)).takeWhile isSp = [] := by simp [licRefPrefix, List.takeWhile, isSp]
  rw [h1, h2]
  have hne' : licRefPrefix ++ (r ++ b) ≠ [] := by simp [licRefPrefix]
  simp only [hne', ↓reduceIte]
  unfold lexeme
  have hop : readOp (licRefPrefix ++ (r ++ b)) = none := by simp [readOp, opTable, licRefPrefix]
  have hdoc : docRefPrefix.isPrefixOf (licRefPrefix ++ (r ++ b)) = false := by simp [docRefPrefix, licRefPrefix, List.isPrefixOf]
  rw [hop]
  simp only [hdoc, hp, Bool.false_eq_true, ↓reduceIte, hd, t1, t2, hne]

theorem step_docRef (d b : Bytes) (off : Nat) (hr : allId d = true) (hne : d ≠ []) (hb : Stops b) :
    step (docRefPrefix ++ (d ++ b)) off = .tok [.docRef d] b := by
  obtain ⟨t1, t2⟩ := takeWhile_word d b hr hb
  have hd : (docRefPrefix ++ (d ++ b)).drop docRefPrefix.length = d ++ b := List.drop_left
  have hp : docRefPrefix.isPrefixOf (docRefPrefix ++ (d ++ b)) = true := by
    rw [List.isPrefixOf_iff_prefix]; exact List.prefix_append _ _
  rw [step_eq]
  have h1 : (docRefPrefix ++ (d ++ b)).dropWhile isSp = docRefPrefix ++ (d ++ b) := by simp [docRefPrefix, List.dropWhile, isSp]
  have h2 : (docRefPrefix ++ (d ++ b)).takeWhile isSp = [] := by simp [docRefPrefix, List.takeWhile, isSp]
  rw [h1, h2]
  have hne' : docRefPrefix ++ (d ++ b) ≠ [] := by simp [docRefPrefix]
  simp only [hne', ↓reduceIte]
  unfold lexeme
  have hop : readOp (docRefPrefix ++ (d ++ b)) = none := by simp [readOp, opTable, docRefPrefix]
  rw [hop]
  simp only [hp, ↓reduceIte, hd, t1, t2, hne]

/-- the token sequence of a term -/
def leafToks : Node → List Tok
  | .lic c p e => .lic c :: ((if p then [.op .plus] else []) ++ (match e with | some x => [.op .with_, .exc x] | none => []))
  | .ref d r => (match d with | some x => [.docRef x, .op .colon] | none => []) ++ [.licRef r]
  | _ => []

/-- **the canonical text of a well-formed term scans to the term's tokens** -/
theorem toks_render (l : Node) (h : LeafOK l) (hl : l.isLeaf = true) : toks (render l) = some (leafToks l) := by
  cases l with
  | and => simp [Node.isLeaf] at hl
  | or => simp [Node.isLeaf] at hl
  | ref d r =>
    obtain ⟨⟨hr1, hr2⟩, hd⟩ := h
    have hlr : toks (licRefPrefix ++ r) = some [.licRef r] := by
      have := toks_of_step (licRefPrefix ++ (r ++ [])) [] [.licRef r] (fun off => step_licRef r [] off hr2 hr1 stops_nil)
      simpa [toks_nil] using this
    cases d with
    | none => simpa [render, leafToks] using hlr
    | some x =>
      obtain ⟨hx1, hx2⟩ := hd x rfl
      have s1 := toks_of_step (docRefPrefix ++ (x ++ (58 :: (licRefPrefix ++ r)))) (58 :: (licRefPrefix ++ r)) [.docRef x]
        (fun off => step_docRef x _ off hx2 hx1 (stops_cons (by decide)))
      have s2 := toks_of_step (58 :: (licRefPrefix ++ r)) (licRefPrefix ++ r) [.op .colon] (fun off => step_colon _ off)
      rw [s2, hlr] at s1
      simpa [render, leafToks, bColon] using s1
  | lic c p e =>
    obtain ⟨hc, hp, -, he⟩ := h
    cases p with
    | false =>
      cases e with
      | none =>
        have := toks_word c [] [.lic c] false hc.allId hc.clean stops_nil (by simpa using hc.solo)
        simpa [render, leafToks, toks_nil] using this
      | some x =>
        have hx := he x rfl
        have := toks_word c (bWith ++ x) [.lic c] false hc.allId hc.clean (stops_cons (by decide)) (by simpa [bWith] using hc.solo)
        rw [if_neg (by simp), toks_with x hx] at this
        simpa [render, leafToks] using this
    | true =>
      have hpl : PlusTok c := hp rfl
      cases e with
      | none =>
        have := toks_word c [43] [.lic c] false hc.allId hc.clean (stops_cons (by decide)) (by simpa [PlusTok] using hpl)
        rw [if_neg (by simp), toks_plus_nil] at this
        simpa [render, leafToks, bPlus] using this
      | some x =>
        have hx := he x rfl
        have := toks_word c (43 :: (bWith ++ x)) [.lic c] false hc.allId hc.clean (stops_cons (by decide)) (by simpa [PlusTok] using hpl)
        rw [if_neg (by simp), toks_plus_append _ (by rfl), toks_with x hx] at this
        simpa [render, leafToks, bPlus] using this

theorem leaves_isLeaf (n : Node) : ∀ l ∈ leaves n, l.isLeaf = true := by
  induction n with
  | lic => intro l hl; simp [leaves] at hl; subst hl; rfl
  | ref => intro l hl; simp [leaves] at hl; subst hl; rfl
  | and a b iha ihb => intro l hl; simp only [leaves, List.mem_append] at hl; exact hl.elim (iha l) (ihb l)
  | or a b iha ihb => intro l hl; simp only [leaves, List.mem_append] at hl; exact hl.elim (iha l) (ihb l)

theorem exists_leaf (n : Node) : ∃ t, t ∈ leaves n := by
  induction n with
  | lic c p e => exact ⟨.lic c p e, by simp [leaves]⟩
  | ref d r => exact ⟨.ref d r, by simp [leaves]⟩
  | and a b iha _ => obtain ⟨t, ht⟩ := iha; exact ⟨t, by simp [leaves, ht]⟩
  | or a b iha _ => obtain ⟨t, ht⟩ := iha; exact ⟨t, by simp [leaves, ht]⟩

theorem parseTokens_leafToks (l : Node) (h : LeafOK l) (hl : l.isLeaf = true) : parseTokens (leafToks l) = some l := by
  rw [parseTokens_iff]
  cases l with
  | and => simp [Node.isLeaf] at hl
  | or => simp [Node.isLeaf] at hl
  | ref d r =>
    cases d with
    | none => exact .or1 (.and1 (.ref0 r))
    | some x => exact .or1 (.and1 (.ref1 x r))
  | lic c p e =>
    obtain ⟨-, -, hs, -⟩ := h
    cases p with
    | true =>
      cases e with
      | none => exact .or1 (.and1 (.licP c))
      | some x => exact .or1 (.and1 (.licPW c x))
    | false =>
      have hsf : sufOrLater.isSuffixOf c = false := by
        cases hh : sufOrLater.isSuffixOf c with
        | false => rfl
        | true => exact absurd (hs hh) (by simp)
      cases e with
      | none => have := D.lic c; rw [hsf] at this; exact .or1 (.and1 this)
      | some x => have := D.licW c x; rw [hsf] at this; exact .or1 (.and1 this)

/-- **round trip**: the canonical text of a well-formed term parses back to that very term -/
theorem parse_render (l : Node) (h : LeafOK l) (hl : l.isLeaf = true) : parse (render l) = .ok l :=
  (parse_ok_iff _ _).mpr ⟨leafToks l, toks_render l h hl, parseTokens_leafToks l h hl⟩

end Spdx
