/-
Lemmas/TokenSwap — replacing licence tokens by matching-equivalent ones (same position in the range table) keeps the
token sequence grammatical, with a tree that differs only in those terms, and keeps every verdict.
-/
import SpdxVerif.Lemmas.OnlySpelling
import SpdxVerif.Props.C02Spec
namespace Spdx

theorem IdEquiv.symm {a b : Bytes} (h : IdEquiv a b) : IdEquiv b a := by
  rcases h with rfl | ⟨h1, h2, h3⟩
  · exact Or.inl rfl
  · exact Or.inr ⟨by rw [posEqSome_symm]; exact h1, h3, h2⟩

inductive TokRel : Tok → Tok → Prop
  | refl (t : Tok) : TokRel t t
  | swap (a b : Bytes) : IdEquiv a b → TokRel (.lic a) (.lic b)

theorem TokRel.symm {t t' : Tok} (h : TokRel t t') : TokRel t' t := by
  cases h with
  | refl => exact .refl _
  | swap a b hab => exact .swap b a hab.symm

inductive TR : List Tok → List Tok → Prop
  | nil : TR [] []
  | cons {t t' : Tok} {xs ys : List Tok} : TokRel t t' → TR xs ys → TR (t :: xs) (t' :: ys)

theorem TR.refl (l : List Tok) : TR l l := by
  induction l with
  | nil => exact .nil
  | cons t l ih => exact .cons (.refl t) ih

theorem TR.symm {a b : List Tok} (h : TR a b) : TR b a := by
  induction h with
  | nil => exact .nil
  | cons h _ ih => exact .cons h.symm ih

theorem TR.append {a a' b b' : List Tok} (h1 : TR a a') (h2 : TR b b') : TR (a ++ b) (a' ++ b') := by
  induction h1 with
  | nil => exact h2
  | cons h _ ih => exact .cons h ih

theorem TR.split {a b ts' : List Tok} (h : TR (a ++ b) ts') : ∃ a' b', ts' = a' ++ b' ∧ TR a a' ∧ TR b b' := by
  induction a generalizing ts' with
  | nil => exact ⟨[], ts', rfl, .nil, h⟩
  | cons t a ih =>
    cases h with
    | cons ht hr =>
      obtain ⟨a', b', rfl, h1, h2⟩ := ih hr
      exact ⟨_ :: a', b', rfl, .cons ht h1, h2⟩

theorem TokRel.op_inv {o : Op} {t : Tok} (h : TokRel (.op o) t) : t = .op o := by cases h; rfl
theorem TokRel.exc_inv {e : Bytes} {t : Tok} (h : TokRel (.exc e) t) : t = .exc e := by cases h; rfl
theorem TokRel.licRef_inv {e : Bytes} {t : Tok} (h : TokRel (.licRef e) t) : t = .licRef e := by cases h; rfl
theorem TokRel.docRef_inv {e : Bytes} {t : Tok} (h : TokRel (.docRef e) t) : t = .docRef e := by cases h; rfl
theorem TokRel.lic_inv {a : Bytes} {t : Tok} (h : TokRel (.lic a) t) : ∃ b, t = .lic b ∧ IdEquiv a b := by
  cases h with
  | refl => exact ⟨a, rfl, Or.inl rfl⟩
  | swap _ b hab => exact ⟨b, rfl, hab⟩

inductive NodeRel : Node → Node → Prop
  | lic (a b : Bytes) (p : Bool) (e : Option Bytes) : IdEquiv a b → NodeRel (.lic a p e) (.lic b p e)
  | ref (d : Option Bytes) (r : Bytes) : NodeRel (.ref d r) (.ref d r)
  | and {l l' r r' : Node} : NodeRel l l' → NodeRel r r' → NodeRel (.and l r) (.and l' r')
  | or {l l' r r' : Node} : NodeRel l l' → NodeRel r r' → NodeRel (.or l r) (.or l' r')

theorem IdEquiv.suffix_eq {a b : Bytes} (h : IdEquiv a b) : sufOrLater.isSuffixOf a = sufOrLater.isSuffixOf b := by
  rcases h with rfl | ⟨_, h2, h3⟩
  · rfl
  · rw [h2, h3]

/-- **the grammar is stable under swapping equivalent licence tokens**, and the tree changes only in those terms -/
theorem D_swap {lv : Lvl} {ts : List Tok} {n : Node} (h : D lv ts n) :
    ∀ ts', TR ts ts' → ∃ n', D lv ts' n' ∧ NodeRel n n' := by
  induction h with
  | ref0 r =>
    intro ts' h
    cases h with
    | cons h1 h2 => cases h2; rw [h1.licRef_inv]; exact ⟨_, .ref0 r, .ref none r⟩
  | ref1 d r =>
    intro ts' h
    cases h with
    | cons h1 h2 => cases h2 with
      | cons h3 h4 => cases h4 with
        | cons h5 h6 =>
          cases h6
          rw [h1.docRef_inv, h3.op_inv, h5.licRef_inv]
          exact ⟨_, .ref1 d r, .ref (some d) r⟩
  | lic id =>
    intro ts' h
    cases h with
    | cons h1 h2 =>
      cases h2
      obtain ⟨b, rfl, hab⟩ := h1.lic_inv
      refine ⟨_, .lic b, ?_⟩
      rw [hab.suffix_eq]; exact .lic id b _ none hab
  | licP id =>
    intro ts' h
    cases h with
    | cons h1 h2 => cases h2 with
      | cons h3 h4 =>
        cases h4
        obtain ⟨b, rfl, hab⟩ := h1.lic_inv
        rw [h3.op_inv]
        exact ⟨_, .licP b, .lic id b true none hab⟩
  | licW id e =>
    intro ts' h
    cases h with
    | cons h1 h2 => cases h2 with
      | cons h3 h4 => cases h4 with
        | cons h5 h6 =>
          cases h6
          obtain ⟨b, rfl, hab⟩ := h1.lic_inv
          rw [h3.op_inv, h5.exc_inv]
          refine ⟨_, .licW b e, ?_⟩
          rw [hab.suffix_eq]; exact .lic id b _ (some e) hab
  | licPW id e =>
    intro ts' h
    cases h with
    | cons h1 h2 => cases h2 with
      | cons h3 h4 => cases h4 with
        | cons h5 h6 => cases h6 with
          | cons h7 h8 =>
            cases h8
            obtain ⟨b, rfl, hab⟩ := h1.lic_inv
            rw [h3.op_inv, h5.op_inv, h7.exc_inv]
            exact ⟨_, .licPW b e, .lic id b true (some e) hab⟩
  | @paren ts n _ ih =>
    intro ts' h
    cases h with
    | cons h1 h2 =>
      obtain ⟨a', b', rfl, ha, hb⟩ := TR.split h2
      cases hb with
      | cons h3 h4 =>
        cases h4
        obtain ⟨n', hd, hr⟩ := ih a' ha
        rw [h1.op_inv, h3.op_inv]
        exact ⟨n', .paren hd, hr⟩
  | and1 _ ih => intro ts' h; obtain ⟨n', hd, hr⟩ := ih ts' h; exact ⟨n', .and1 hd, hr⟩
  | or1 _ ih => intro ts' h; obtain ⟨n', hd, hr⟩ := ih ts' h; exact ⟨n', .or1 hd, hr⟩
  | andC _ _ iha ihb =>
    intro ts' h
    obtain ⟨a', b', rfl, ha, hb⟩ := TR.split h
    cases hb with
    | cons h1 h2 =>
      obtain ⟨l', hdl, hrl⟩ := iha a' ha
      obtain ⟨r', hdr, hrr⟩ := ihb _ h2
      rw [h1.op_inv]
      exact ⟨_, .andC hdl hdr, .and hrl hrr⟩
  | orC _ _ iha ihb =>
    intro ts' h
    obtain ⟨a', b', rfl, ha, hb⟩ := TR.split h
    cases hb with
    | cons h1 h2 =>
      obtain ⟨l', hdl, hrl⟩ := iha a' ha
      obtain ⟨r', hdr, hrr⟩ := ihb _ h2
      rw [h1.op_inv]
      exact ⟨_, .orC hdl hdr, .or hrl hrr⟩

/-! ### matching cannot tell equivalent ids apart -/

theorem versionRule_of_posEq (a b y : Bytes) (p py : Bool) (h : posEqSome a b = true) :
    C02.versionRule a y p py = C02.versionRule b y p py := by
  unfold posEqSome at h
  unfold C02.versionRule
  cases ha : pos a with
  | none => simp [ha] at h
  | some pa =>
    cases hb : pos b with
    | none => simp [ha, hb] at h
    | some pb =>
      simp only [ha, hb, Bool.and_eq_true] at h
      have e1 := Nat.eq_of_beq_eq_true h.1
      have e2 := Nat.eq_of_beq_eq_true h.2
      have : pa = pb := Prod.ext e1 e2
      rw [this]

theorem versionRule_self (a b : Bytes) (p py : Bool) (h : posEqSome a b = true) : C02.versionRule b a p py = true := by
  unfold posEqSome at h
  unfold C02.versionRule
  cases ha : pos a with
  | none => simp [ha] at h
  | some pa =>
    cases hb : pos b with
    | none => simp [ha, hb] at h
    | some pb =>
      simp only [ha, hb, Bool.and_eq_true] at h
      have e1 := Nat.eq_of_beq_eq_true h.1
      have e2 := Nat.eq_of_beq_eq_true h.2
      cases p <;> cases py <;> simp [e1, e2]

theorem matchLeaf_idEquiv (a b : Bytes) (p : Bool) (e : Option Bytes) (y : Node) (hab : IdEquiv a b)
    (ha : LeafOK (.lic a p e)) (hb : LeafOK (.lic b p e)) (hy : LeafOK y) (ly : y.isLeaf = true) :
    matchLeaf (.lic a p e) y = matchLeaf (.lic b p e) y := by
  rcases hab with rfl | ⟨hpos, -, -⟩
  · rfl
  · rw [C02.matchLeaf_eq_spec _ y ha hy rfl ly, C02.matchLeaf_eq_spec _ y hb hy rfl ly]
    cases y with
    | and => simp [Node.isLeaf] at ly
    | or => simp [Node.isLeaf] at ly
    | ref => rfl
    | lic c pc ec =>
      simp only [C02.specMatch]
      rw [versionRule_of_posEq a b c p pc hpos]
      by_cases h1 : a = c
      · subst h1
        have := versionRule_self a b p pc hpos
        simp [this]
      · by_cases h2 : b = c
        · subst h2
          have := versionRule_self b a p pc (by rw [posEqSome_symm]; exact hpos)
          rw [versionRule_of_posEq a b b p pc hpos] at this
          simp [this]
        · have e1 : (a == c) = false := by simpa using h1
          have e2 : (b == c) = false := by simpa using h2
          rw [e1, e2]

end Spdx
