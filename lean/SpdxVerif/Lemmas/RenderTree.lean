/-
Lemmas/RenderTree — writing a tree as text with the MINIMAL parentheses the documented grammar needs
(AND binds tighter than OR; chains nest to the right), and reading it back.
-/
import SpdxVerif.Lemmas.Lexeme
namespace Spdx

def kwAnd : Bytes := [32,65,78,68]   -- " AND"
def kwOr : Bytes := [32,79,82]       -- " OR"

/-- the text of a tree at a grammar level: `.atom` = an operand of AND (compound trees in parentheses), `.andE` = an operand
    of OR (`atom {AND atom}`, an OR in parentheses), `.expr` = a whole expression (`and {OR and}`); chains nest to the right -/
def rend : Node → Lvl → Bytes
  | .and l r, lv =>
    let body := rend l .atom ++ (kwAnd ++ 32 :: rend r .andE)
    match lv with
    | .atom => 40 :: (body ++ [41])
    | _ => body
  | .or l r, lv =>
    let body := rend l .andE ++ (kwOr ++ 32 :: rend r .expr)
    match lv with
    | .expr => body
    | _ => 40 :: (body ++ [41])
  | n, _ => render n

def tks : Node → Lvl → List Tok
  | .and l r, lv =>
    let body := tks l .atom ++ .op .and_ :: tks r .andE
    match lv with
    | .atom => .op .lparen :: (body ++ [.op .rparen])
    | _ => body
  | .or l r, lv =>
    let body := tks l .andE ++ .op .or_ :: tks r .expr
    match lv with
    | .expr => body
    | _ => .op .lparen :: (body ++ [.op .rparen])
  | n, _ => leafToks n

def rExpr (n : Node) : Bytes := rend n .expr

def AllLeavesOK (n : Node) : Prop := ∀ l ∈ leaves n, LeafOK l

theorem allLeavesOK_and {l r : Node} (h : AllLeavesOK (.and l r)) : AllLeavesOK l ∧ AllLeavesOK r :=
  ⟨fun x hx => h x (by simp [leaves, hx]), fun x hx => h x (by simp [leaves, hx])⟩
theorem allLeavesOK_or {l r : Node} (h : AllLeavesOK (.or l r)) : AllLeavesOK l ∧ AllLeavesOK r :=
  ⟨fun x hx => h x (by simp [leaves, hx]), fun x hx => h x (by simp [leaves, hx])⟩

theorem leaf_atom (n : Node) (hl : n.isLeaf = true) (h : LeafOK n) : D .atom (leafToks n) n := by
  cases n with
  | and => simp [Node.isLeaf] at hl
  | or => simp [Node.isLeaf] at hl
  | ref d r => cases d with
    | none => exact .ref0 r
    | some x => exact .ref1 x r
  | lic c p e =>
    obtain ⟨-, -, hs, -⟩ := h
    cases p with
    | true => cases e with
      | none => exact .licP c
      | some x => exact .licPW c x
    | false =>
      have hsf : sufOrLater.isSuffixOf c = false := by
        cases hh : sufOrLater.isSuffixOf c with
        | false => rfl
        | true => exact absurd (hs hh) (by simp)
      cases e with
      | none => have := D.lic c; rw [hsf] at this; exact this
      | some x => have := D.licW c x; rw [hsf] at this; exact this

theorem D_lift {ts : List Tok} {n : Node} (h : D .atom ts n) (lv : Lvl) : D lv ts n := by
  cases lv with
  | atom => exact h
  | andE => exact .and1 h
  | expr => exact .or1 (.and1 h)

/-- the token sequences derive at their level, with the tree they were written from -/
theorem D_tokens : ∀ (n : Node) (lv : Lvl), AllLeavesOK n → D lv (tks n lv) n := by
  intro n
  induction n with
  | lic c p e =>
    intro lv h
    have := leaf_atom (.lic c p e) rfl (h _ (by simp [leaves]))
    simp only [tks]; exact D_lift this lv
  | ref d r =>
    intro lv h
    have := leaf_atom (.ref d r) rfl (h _ (by simp [leaves]))
    simp only [tks]; exact D_lift this lv
  | and l r ihl ihr =>
    intro lv h
    obtain ⟨hl, hr⟩ := allLeavesOK_and h
    have body : D .andE (tks l .atom ++ .op .and_ :: tks r .andE) (.and l r) := .andC (ihl .atom hl) (ihr .andE hr)
    cases lv with
    | atom => simp only [tks]; exact .paren (.or1 body)
    | andE => simp only [tks]; exact body
    | expr => simp only [tks]; exact .or1 body
  | or l r ihl ihr =>
    intro lv h
    obtain ⟨hl, hr⟩ := allLeavesOK_or h
    have body : D .expr (tks l .andE ++ .op .or_ :: tks r .expr) (.or l r) := .orC (ihl .andE hl) (ihr .expr hr)
    cases lv with
    | atom => simp only [tks]; exact .paren body
    | andE => simp only [tks]; exact .and1 (.paren body)
    | expr => simp only [tks]; exact body

/-! ### scanning the text -/

theorem render_head_ne_plus (n : Node) (hl : n.isLeaf = true) (h : LeafOK n) : (render n).head? ≠ some 43 := by
  cases n with
  | and => simp [Node.isLeaf] at hl
  | or => simp [Node.isLeaf] at hl
  | ref d r => cases d <;> simp [render, docRefPrefix, licRefPrefix]
  | lic c p e =>
    have := h.1
    rw [render_lic']
    exact head_idChar_ne_plus' this.allId this.clean.2.2.2 _
where
  render_lic' {c : Bytes} {p : Bool} {e : Option Bytes} : render (.lic c p e) = c ++ ((if p then bPlus else []) ++ (match e with | some x => bWith ++ x | none => [])) := by
    cases e <;> simp [render]
  head_idChar_ne_plus' {x : Bytes} (hx : allId x = true) (hne : x ≠ []) (b : Bytes) : (x ++ b).head? ≠ some 43 := by
    cases x with
    | nil => exact absurd rfl hne
    | cons c r =>
      simp only [allId, List.all_cons, Bool.and_eq_true] at hx
      simp only [List.cons_append, List.head?_cons, ne_eq, Option.some.injEq]
      intro hc; subst hc; simp [isIdChar] at hx

theorem heads : ∀ (n : Node) (lv : Lvl), AllLeavesOK n → (rend n lv).head? ≠ some 43 := by
  intro n
  induction n with
  | lic c p e => intro lv h; simp only [rend]; exact render_head_ne_plus (.lic c p e) rfl (h _ (by simp [leaves]))
  | ref d r => intro lv h; simp only [rend]; exact render_head_ne_plus (.ref d r) rfl (h _ (by simp [leaves]))
  | and l r ihl _ =>
    intro lv h
    obtain ⟨hl, _⟩ := allLeavesOK_and h
    have b : (rend l .atom ++ (kwAnd ++ 32 :: rend r .andE)).head? ≠ some 43 := by
      have := ihl .atom hl
      cases hh : rend l .atom with
      | nil => simp [kwAnd]
      | cons x xs => rw [hh] at this; simpa using this
    cases lv <;> simp only [rend] <;> first | exact b | simp
  | or l r ihl _ =>
    intro lv h
    obtain ⟨hl, _⟩ := allLeavesOK_or h
    have b : (rend l .andE ++ (kwOr ++ 32 :: rend r .expr)).head? ≠ some 43 := by
      have := ihl .andE hl
      cases hh : rend l .andE with
      | nil => simp [kwOr]
      | cons x xs => rw [hh] at this; simpa using this
    cases lv <;> simp only [rend] <;> first | exact b | simp

/-- `a ++ " AND " ++ b` scans to `a`'s tokens, AND, `b`'s tokens -/
theorem toks_kw_and (a b : Bytes) (hb : b.head? ≠ some 43) :
    toks (a ++ (kwAnd ++ 32 :: b)) = (toks a).bind (fun ta => (toks b).map (fun tb => ta ++ .op .and_ :: tb)) := by
  rw [toks_append a _ (by rfl), toks_append kwAnd _ (by rfl)]
  have h1 : toks kwAnd = some [.op .and_] := by decide +kernel
  have h2 := toks_leading_spaces [32] b (by simp [List.dropWhile, isSp]) hb
  simp only [List.singleton_append] at h2
  rw [h1, h2]
  cases toks a <;> cases toks b <;> simp

theorem toks_kw_or (a b : Bytes) (hb : b.head? ≠ some 43) :
    toks (a ++ (kwOr ++ 32 :: b)) = (toks a).bind (fun ta => (toks b).map (fun tb => ta ++ .op .or_ :: tb)) := by
  rw [toks_append a _ (by rfl), toks_append kwOr _ (by rfl)]
  have h1 : toks kwOr = some [.op .or_] := by decide +kernel
  have h2 := toks_leading_spaces [32] b (by simp [List.dropWhile, isSp]) hb
  simp only [List.singleton_append] at h2
  rw [h1, h2]
  cases toks a <;> cases toks b <;> simp

theorem toks_rendered : ∀ (n : Node) (lv : Lvl), AllLeavesOK n → toks (rend n lv) = some (tks n lv) := by
  intro n
  induction n with
  | lic c p e => intro lv h; simp only [rend, tks]; exact toks_render (.lic c p e) (h _ (by simp [leaves])) rfl
  | ref d r => intro lv h; simp only [rend, tks]; exact toks_render (.ref d r) (h _ (by simp [leaves])) rfl
  | and l r ihl ihr =>
    intro lv h
    obtain ⟨hl, hr⟩ := allLeavesOK_and h
    have body : toks (rend l .atom ++ (kwAnd ++ 32 :: rend r .andE)) = some (tks l .atom ++ .op .and_ :: tks r .andE) := by
      rw [toks_kw_and _ _ (heads r .andE hr), ihl .atom hl, ihr .andE hr]; rfl
    cases lv with
    | atom => simp only [rend, tks]; rw [toks_parens, body]; rfl
    | andE => simp only [rend, tks]; exact body
    | expr => simp only [rend, tks]; exact body
  | or l r ihl ihr =>
    intro lv h
    obtain ⟨hl, hr⟩ := allLeavesOK_or h
    have body : toks (rend l .andE ++ (kwOr ++ 32 :: rend r .expr)) = some (tks l .andE ++ .op .or_ :: tks r .expr) := by
      rw [toks_kw_or _ _ (heads r .expr hr), ihl .andE hl, ihr .expr hr]; rfl
    cases lv with
    | atom => simp only [rend, tks]; rw [toks_parens, body]; rfl
    | andE => simp only [rend, tks]; rw [toks_parens, body]; rfl
    | expr => simp only [rend, tks]; exact body

/-- **writing a tree with minimal parentheses and parsing the text gives the tree back** (every tree over well-formed terms;
    AND binds tighter than OR, parentheses group, chains nest to the right — at the level of bytes) -/
theorem parse_rExpr (n : Node) (h : AllLeavesOK n) : parse (rExpr n) = .ok n :=
  (parse_ok_iff _ _).mpr ⟨tks n .expr, toks_rendered n .expr h, (parseTokens_iff _ _).mpr (D_tokens n .expr h)⟩

end Spdx
