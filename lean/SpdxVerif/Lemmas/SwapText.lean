/-
Lemmas/SwapText — from equivalent tokens at one position of a text to equal results of the entry points.
-/
import SpdxVerif.Lemmas.TokenSwap
import SpdxVerif.Props.C07List
namespace Spdx

theorem NodeRel.symm {n n' : Node} (h : NodeRel n n') : NodeRel n' n := by
  induction h with
  | lic a b p e hab => exact .lic b a p e hab.symm
  | ref d r => exact .ref d r
  | and _ _ ihl ihr => exact .and ihl ihr
  | or _ _ ihl ihr => exact .or ihl ihr

/-- the verdict does not change when terms of the expression are replaced by matching-equivalent ones -/
theorem eval_nodeRel {n n' : Node} (h : NodeRel n n') (A : List Node)
    (hn : ∀ l ∈ leaves n, LeafOK l) (hn' : ∀ l ∈ leaves n', LeafOK l) (hA : ∀ y ∈ A, LeafOK y ∧ y.isLeaf = true) :
    eval (covered A) n = eval (covered A) n' := by
  induction h with
  | lic a b p e hab =>
    simp only [eval, covered, coveredBy]
    have ha := hn (.lic a p e) (by simp [leaves])
    have hb := hn' (.lic b p e) (by simp [leaves])
    rw [Bool.eq_iff_iff]
    simp only [List.any_eq_true]
    constructor
    · rintro ⟨y, hy, hm⟩; exact ⟨y, hy, by rw [← matchLeaf_idEquiv a b p e y hab ha hb (hA y hy).1 (hA y hy).2]; exact hm⟩
    · rintro ⟨y, hy, hm⟩; exact ⟨y, hy, by rw [matchLeaf_idEquiv a b p e y hab ha hb (hA y hy).1 (hA y hy).2]; exact hm⟩
  | ref d r => rfl
  | and _ _ ihl ihr =>
    simp only [eval, leaves, List.mem_append] at *
    rw [ihl (fun l hl => hn l (Or.inl hl)) (fun l hl => hn' l (Or.inl hl)),
        ihr (fun l hl => hn l (Or.inr hl)) (fun l hl => hn' l (Or.inr hl))]
  | or _ _ ihl ihr =>
    simp only [eval, leaves, List.mem_append] at *
    rw [ihl (fun l hl => hn l (Or.inl hl)) (fun l hl => hn' l (Or.inl hl)),
        ihr (fun l hl => hn l (Or.inr hl)) (fun l hl => hn' l (Or.inr hl))]

/-- two texts whose trees are related term by term give the same results -/
theorem results_of_nodeRel (U V : Bytes)
    (hf : ∀ n, parse U = .ok n → ∃ n', parse V = .ok n' ∧ NodeRel n n')
    (hb : ∀ n, parse V = .ok n → ∃ n', parse U = .ok n' ∧ NodeRel n n') :
    valid U = valid V ∧ ∀ L, satisfies U L = satisfies V L := by
  cases hU : parse U with
  | error e =>
    have hV : ∃ e', parse V = .error e' := by
      cases hV : parse V with
      | error e' => exact ⟨e', rfl⟩
      | ok n => obtain ⟨n', h1, _⟩ := hb n hV; rw [hU] at h1; cases h1
    obtain ⟨e', hV⟩ := hV
    exact ⟨by simp [valid, hU, hV], fun L => by simp [satisfies, hU, hV]⟩
  | ok n =>
    obtain ⟨n', hV, hr⟩ := hf n hU
    refine ⟨by simp [valid, hU, hV], fun L => ?_⟩
    unfold satisfies
    rw [hU, hV]
    simp only
    split
    · rfl
    · cases hA : toNodes L with
      | error e => rfl
      | ok A =>
        show Except.ok (verdict n (sortAndDedupArray A)) = Except.ok (verdict n' (sortAndDedupArray A))
        rw [C01.verdict_eq_eval, C01.verdict_eq_eval]
        have hA' := toNodes_leafOK hA
        have hS : ∀ y ∈ sortAndDedupArray A, LeafOK y ∧ y.isLeaf = true := fun y hy =>
          hA' y ((sortAndDedupArray_mem A hA' y).mp hy)
        have := eval_nodeRel hr (sortAndDedupArray A) (parse_leavesOK U n hU) (parse_leavesOK V n' hV) hS
        rw [this]

/-- equivalent tokens at one position, everything else equal -/
theorem parse_swap (U V : Bytes) (a b : Bytes) (S : List Tok) (ta tb : Tok) (hr : TokRel ta tb)
    (hU : toks U = (toks a).bind (fun A => (toks b).map (fun B => A ++ (S ++ ta :: B))))
    (hV : toks V = (toks a).bind (fun A => (toks b).map (fun B => A ++ (S ++ tb :: B)))) :
    ∀ n, parse U = .ok n → ∃ n', parse V = .ok n' ∧ NodeRel n n' := by
  intro n hn
  obtain ⟨ts, h1, h2⟩ := (parse_ok_iff U n).mp hn
  rw [hU] at h1
  cases hA : toks a with
  | none => rw [hA] at h1; simp at h1
  | some A =>
    cases hB : toks b with
    | none => rw [hA, hB] at h1; simp at h1
    | some B =>
      rw [hA, hB] at h1
      simp only [Option.bind_some, Option.map_some, Option.some.injEq] at h1
      subst h1
      have htr : TR (A ++ (S ++ ta :: B)) (A ++ (S ++ tb :: B)) :=
        (TR.refl A).append ((TR.refl S).append (.cons hr (TR.refl B)))
      obtain ⟨n', hd, hrel⟩ := D_swap ((parseTokens_iff _ _).mp h2) _ htr
      refine ⟨n', (parse_ok_iff V n').mpr ⟨_, ?_, (parseTokens_iff _ _).mpr hd⟩, hrel⟩
      rw [hV, hA, hB]; rfl

def sepToks (sep : Nat) : List Tok := if sep = 40 then [.op .lparen] else if sep = 41 then [.op .rparen] else []

/-- the token sequence of `prefix ++ separator :: word ++ rest` -/
theorem toks_ctx_word (a : Bytes) (sep : Nat) (w b : Bytes) (tk : Tok) (hsep : sep = 32 ∨ sep = 40 ∨ sep = 41)
    (hw : allId w = true) (hc : Clean w) (hb : Stops b) (hb43 : b.head? ≠ some 43)
    (hn : normCore w false = some ([tk], false)) :
    toks (a ++ sep :: (w ++ b)) = (toks a).bind (fun A => (toks b).map (fun B => A ++ (sepToks sep ++ tk :: B))) := by
  have hnp : (b.head? == some 43) = false := by simpa using hb43
  have hword : toks (w ++ b) = (toks b).map (fun B => tk :: B) := by
    have := toks_word w b [tk] false hw hc hb (by rw [hnp]; exact hn)
    simpa using this
  have hbd : isBoundary (sep :: (w ++ b)) = true := by rcases hsep with rfl | rfl | rfl <;> rfl
  rw [toks_append a _ hbd]
  rcases hsep with rfl | rfl | rfl
  · have := toks_leading_spaces [32] (w ++ b) (by simp [List.dropWhile, isSp]) (head_idChar_ne_plus hw b hc.2.2.2)
    simp only [List.singleton_append] at this
    rw [this, hword]
    cases toks a <;> cases toks b <;> simp [sepToks]
  · rw [toks_cons_lparen, hword]
    cases toks a <;> cases toks b <;> simp [sepToks]
  · rw [toks_cons_rparen, hword]
    cases toks a <;> cases toks b <;> simp [sepToks]

theorem toks_head_word (w b : Bytes) (tk : Tok) (hw : allId w = true) (hc : Clean w) (hb : Stops b) (hb43 : b.head? ≠ some 43)
    (hn : normCore w false = some ([tk], false)) :
    toks (w ++ b) = (toks []).bind (fun A => (toks b).map (fun B => A ++ ([] ++ tk :: B))) := by
  have hnp : (b.head? == some 43) = false := by simpa using hb43
  have := toks_word w b [tk] false hw hc hb (by rw [hnp]; exact hn)
  rw [toks_nil]
  simpa using this

/-- re-spelling one allowed entry by a matching-equivalent term never changes the result -/
theorem satisfies_swap_entry (e : Bytes) (pre post : List Bytes) (x x' : Bytes) (l l' : Node)
    (hx : leafOf x = some l) (hx' : leafOf x' = some l') (hrel : NodeRel l l') :
    C07.outcome (satisfies e (pre ++ x :: post)) = C07.outcome (satisfies e (pre ++ x' :: post)) := by
  cases he : parse e with
  | error err => simp [satisfies, he]
  | ok n =>
    by_cases hs : C07.AllSingle (pre ++ x :: post)
    · have hs' : C07.AllSingle (pre ++ x' :: post) := by
        intro y hy
        simp only [List.mem_append, List.mem_cons] at hy
        rcases hy with hy | rfl | hy
        · exact hs y (by simp [hy])
        · rw [hx']; rfl
        · exact hs y (by simp [hy])
      obtain ⟨A, hA⟩ := (toNodes_ok_iff_all _).mpr hs
      obtain ⟨A', hA'⟩ := (toNodes_ok_iff_all _).mpr hs'
      rw [C07.satisfies_eq e _ n A he (by simp) hA, C07.satisfies_eq e _ n A' he (by simp) hA']
      congr 2
      apply C07.eval_congr
      intro t ht
      have hok : LeafOK t := parse_leavesOK e n he t ht
      have htl : t.isLeaf = true := leaves_isLeaf n t ht
      -- `t` matched against the related entries
      have key : matchLeaf t l = matchLeaf t l' := by
        have hl := leafOf_leafOK hx
        have hl' := leafOf_leafOK hx'
        cases hrel with
        | lic a b p ex hab =>
          rw [matchLeaf_symm t, matchLeaf_symm t, matchLeaf_idEquiv a b p ex t hab hl hl' hok htl]
        | ref d r => rfl
        | and => have := (leafOf_some hx).2; simp [Node.isLeaf] at this
        | or => have := (leafOf_some hx).2; simp [Node.isLeaf] at this
      simp only [covered, coveredBy]
      rw [Bool.eq_iff_iff]
      simp only [List.any_eq_true]
      constructor
      · rintro ⟨y, hy, hm⟩
        obtain ⟨z, hz, hzy⟩ := (toNodes_mem hA y).mp hy
        simp only [List.mem_append, List.mem_cons] at hz
        rcases hz with hz | rfl | hz
        · exact ⟨y, (toNodes_mem hA' y).mpr ⟨z, by simp [hz], hzy⟩, hm⟩
        · rw [hx] at hzy; simp only [Option.some.injEq] at hzy; subst hzy
          exact ⟨l', (toNodes_mem hA' l').mpr ⟨x', by simp, hx'⟩, by rw [← key]; exact hm⟩
        · exact ⟨y, (toNodes_mem hA' y).mpr ⟨z, by simp [hz], hzy⟩, hm⟩
      · rintro ⟨y, hy, hm⟩
        obtain ⟨z, hz, hzy⟩ := (toNodes_mem hA' y).mp hy
        simp only [List.mem_append, List.mem_cons] at hz
        rcases hz with hz | rfl | hz
        · exact ⟨y, (toNodes_mem hA y).mpr ⟨z, by simp [hz], hzy⟩, hm⟩
        · rw [hx'] at hzy; simp only [Option.some.injEq] at hzy; subst hzy
          exact ⟨l, (toNodes_mem hA l).mpr ⟨x, by simp, hx⟩, by rw [key]; exact hm⟩
        · exact ⟨y, (toNodes_mem hA y).mpr ⟨z, by simp [hz], hzy⟩, hm⟩
    · have hs' : ¬ C07.AllSingle (pre ++ x' :: post) := by
        intro hh; apply hs
        intro y hy
        simp only [List.mem_append, List.mem_cons] at hy
        rcases hy with hy | rfl | hy
        · exact hh y (by simp [hy])
        · rw [hx]; rfl
        · exact hh y (by simp [hy])
      rw [C07.satisfies_error_of_not_single e _ hs, C07.satisfies_error_of_not_single e _ hs']

end Spdx
