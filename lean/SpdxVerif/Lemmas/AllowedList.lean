/-
Lemmas/AllowedList — the allowed list at the string level: `stringsToNodes`, and the in-place sort-and-dedup whose
returned slice `Satisfies` discards.  On terms produced by the parser the canonical text determines the term
(`render_inj`, from the round trip `parse_render`), so the array `Satisfies` searches holds exactly the caller's terms.
-/
import SpdxVerif.Lemmas.Lexeme
import SpdxVerif.Props.C07
namespace Spdx

/-- the single term an allowed entry denotes (none: invalid or compound) -/
def leafOf (x : Bytes) : Option Node :=
  match parse x with
  | .ok n => if n.isLeaf then some n else none
  | .error _ => none

theorem leafOf_some {x : Bytes} {t : Node} (h : leafOf x = some t) : parse x = .ok t ∧ t.isLeaf = true := by
  unfold leafOf at h
  cases hp : parse x with
  | error e => simp [hp] at h
  | ok n =>
    simp only [hp] at h
    split at h
    · rename_i hl; simp at h; subst h; exact ⟨rfl, hl⟩
    · simp at h

theorem leafOf_leafOK {x : Bytes} {t : Node} (h : leafOf x = some t) : LeafOK t := by
  obtain ⟨hp, hl⟩ := leafOf_some h
  have := parse_leavesOK x t hp t
  cases t with
  | and => simp [Node.isLeaf] at hl
  | or => simp [Node.isLeaf] at hl
  | lic c p e => exact this (by simp [leaves])
  | ref d r => exact this (by simp [leaves])

/-- `stringsToNodes` succeeds iff every entry denotes a single term, and then returns exactly those terms, in order -/
theorem toNodes_eq (L : List Bytes) (A : List Node) : toNodes L = .ok A ↔ L.map leafOf = A.map some := by
  induction L generalizing A with
  | nil => cases A <;> simp [toNodes]
  | cons x xs ih =>
    simp only [toNodes, leafOf, List.map_cons]
    cases hp : parse x with
    | error e => cases A <;> simp
    | ok n =>
      simp only
      cases hl : n.isLeaf with
      | false => cases A <;> simp
      | true =>
        simp only [↓reduceIte]
        cases hr : toNodes xs with
        | error e =>
          simp only [Except.map, reduceCtorEq, false_iff]
          cases A with
          | nil => simp
          | cons a as =>
            simp only [List.map_cons, List.cons.injEq, Option.some.injEq, not_and]
            intro _ hh
            have := (ih as).mpr (by simpa [leafOf] using hh)
            rw [hr] at this; cases this
        | ok B =>
          simp only [Except.map, Except.ok.injEq]
          have hB := (ih B).mp hr
          cases A with
          | nil => simp
          | cons a as =>
            simp only [List.map_cons, List.cons.injEq, Option.some.injEq]
            constructor
            · rintro ⟨rfl, rfl⟩; exact ⟨rfl, by simpa [leafOf] using hB⟩
            · rintro ⟨rfl, hh⟩
              have := (ih as).mpr (by simpa [leafOf] using hh)
              rw [hr] at this
              simp only [Except.ok.injEq] at this
              exact ⟨rfl, this⟩

theorem toNodes_mem {L : List Bytes} {A : List Node} (h : toNodes L = .ok A) (t : Node) :
    t ∈ A ↔ ∃ x ∈ L, leafOf x = some t := by
  have := (toNodes_eq L A).mp h
  constructor
  · intro ht
    have : some t ∈ L.map leafOf := by rw [this]; exact List.mem_map_of_mem ht
    obtain ⟨x, hx, hxt⟩ := List.mem_map.mp this
    exact ⟨x, hx, hxt⟩
  · rintro ⟨x, hx, hxt⟩
    have : some t ∈ A.map some := by rw [← this, ← hxt]; exact List.mem_map_of_mem hx
    obtain ⟨a, ha, hat⟩ := List.mem_map.mp this
    simp only [Option.some.injEq] at hat
    rw [← hat]; exact ha

theorem toNodes_ok_iff_all (L : List Bytes) : (∃ A, toNodes L = .ok A) ↔ ∀ x ∈ L, (leafOf x).isSome = true := by
  constructor
  · rintro ⟨A, h⟩ x hx
    have := (toNodes_eq L A).mp h
    have hm : leafOf x ∈ A.map some := by rw [← this]; exact List.mem_map_of_mem hx
    obtain ⟨a, _, ha⟩ := List.mem_map.mp hm
    rw [← ha]; rfl
  · intro h
    induction L with
    | nil => exact ⟨[], rfl⟩
    | cons x xs ih =>
      obtain ⟨B, hB⟩ := ih (fun y hy => h y (List.mem_cons_of_mem _ hy))
      have hx := h x (by simp)
      cases hlx : leafOf x with
      | none => rw [hlx] at hx; cases hx
      | some t =>
        refine ⟨t :: B, (toNodes_eq _ _).mpr ?_⟩
        simp [hlx, (toNodes_eq xs B).mp hB]

theorem toNodes_leafOK {L : List Bytes} {A : List Node} (h : toNodes L = .ok A) : ∀ a ∈ A, LeafOK a ∧ a.isLeaf = true := by
  intro a ha
  obtain ⟨x, _, hx⟩ := (toNodes_mem h a).mp ha
  exact ⟨leafOf_leafOK hx, (leafOf_some hx).2⟩

/-! ### canonical text determines the term -/

theorem render_inj {a b : Node} (ha : LeafOK a) (hb : LeafOK b) (la : a.isLeaf = true) (lb : b.isLeaf = true)
    (h : render a = render b) : a = b := by
  have h1 := parse_render a ha la
  have h2 := parse_render b hb lb
  rw [h] at h1
  rw [h1] at h2
  exact Except.ok.inj h2

/-! ### the in-place dedup keeps a representative of every entry -/

theorem dedupInPlace_go_repr (p : Node) (kept : List Node) (ys : List Node) (hk : ∃ k ∈ kept, render k = render p) :
    (∀ k ∈ kept, k ∈ dedupInPlace.go p kept ys) ∧
    (∀ y ∈ ys, ∃ k ∈ dedupInPlace.go p kept ys, render k = render y) := by
  induction ys generalizing p kept with
  | nil =>
    simp only [dedupInPlace.go, List.mem_reverse, List.not_mem_nil, false_imp_iff, implies_true, and_true]
    exact fun k hk => hk
  | cons y ys ih =>
    simp only [dedupInPlace.go]
    split
    · obtain ⟨h1, h2⟩ := ih y (y :: kept) ⟨y, by simp, rfl⟩
      refine ⟨fun k hk' => h1 k (List.mem_cons_of_mem _ hk'), ?_⟩
      intro z hz
      rcases List.mem_cons.mp hz with rfl | hz
      · exact ⟨z, h1 z (by simp), rfl⟩
      · exact h2 z hz
    · rename_i hne
      have heq : render p = render y := by simpa using hne
      obtain ⟨k0, hk0, hk0r⟩ := hk
      obtain ⟨h1, h2⟩ := ih y kept ⟨k0, hk0, by rw [hk0r, heq]⟩
      refine ⟨h1, ?_⟩
      intro z hz
      rcases List.mem_cons.mp hz with rfl | hz
      · exact ⟨k0, h1 k0 hk0, by rw [hk0r, heq]⟩
      · exact h2 z hz

theorem dedupInPlace_repr (l : List Node) : ∀ y ∈ l, ∃ k ∈ dedupInPlace l, render k = render y := by
  cases l with
  | nil => simp
  | cons a as =>
    intro y hy
    obtain ⟨h1, h2⟩ := dedupInPlace_go_repr a [a] as ⟨a, by simp, rfl⟩
    simp only [dedupInPlace]
    rcases List.mem_cons.mp hy with rfl | hy
    · exact ⟨y, List.mem_append_left _ (h1 y (by simp)), rfl⟩
    · obtain ⟨k, hk, hkr⟩ := h2 y hy
      exact ⟨k, List.mem_append_left _ hk, hkr⟩

/-- on parsed terms the array searched by `Satisfies` holds exactly the caller's terms -/
theorem sortAndDedupArray_mem (A : List Node) (hA : ∀ a ∈ A, LeafOK a ∧ a.isLeaf = true) (a : Node) :
    a ∈ sortAndDedupArray A ↔ a ∈ A := by
  constructor
  · exact C07.sortAndDedupArray_subset A a
  · intro ha
    unfold sortAndDedupArray
    split
    · exact ha
    · have hs : a ∈ sortLeaves A := (sortBy_perm _ A).mem_iff.mpr ha
      obtain ⟨k, hk, hkr⟩ := dedupInPlace_repr _ a hs
      have hkA : k ∈ A := (sortBy_perm _ A).mem_iff.mp (C07.dedupInPlace_subset _ k hk)
      have : k = a := render_inj (hA k hkA).1 (hA a ha).1 (hA k hkA).2 (hA a ha).2 hkr
      rw [← this]; exact hk

end Spdx
