/-
Lemmas/Scan — basic facts about one scanner iteration: it consumes a non-empty prefix of its input, and the
positions cited by its errors are positions of the caller's string (C15).
-/
import SpdxVerif.Model.Api
namespace Spdx

theorem normalize_suffix {w r toks r'} (h : normalize w r = some (toks, r')) :
    r' = r ∨ r' = r.tail := by
  unfold normalize at h
  repeat' split at h
  all_goals simp_all

theorem readOp_suffix {s o r} (h : readOp s = some (o, r)) : ∃ pre, pre ≠ [] ∧ s = pre ++ r := by
  unfold readOp at h
  cases hf : opTable.find? (fun p => p.1.isPrefixOf s) with
  | none => simp [hf] at h
  | some p =>
    simp [hf] at h
    obtain ⟨rfl, rfl⟩ := h
    have hp := List.find?_some hf
    have hm := List.mem_of_find?_eq_some hf
    have hne : p.1 ≠ [] := by
      simp [opTable] at hm
      rcases hm with rfl | rfl | rfl | rfl | rfl | rfl | rfl <;> simp
    obtain ⟨t, ht⟩ := List.isPrefixOf_iff_prefix.mp hp
    exact ⟨p.1, hne, by simp [← ht]⟩

/-- every successful step consumes a non-empty prefix and leaves a true suffix of its input -/
theorem step_suffix {s off ts r} (h : step s off = .tok ts r) : ∃ pre, pre ≠ [] ∧ s = pre ++ r := by
  unfold step at h
  simp only at h
  have hs : s = s.takeWhile isSp ++ s.dropWhile isSp := (List.takeWhile_append_dropWhile).symm
  split at h
  · simp at h
  · rename_i c cs hs1
    split at h
    · rename_i o r0 hop
      split at h
      · simp at h
      · simp only [Step.tok.injEq] at h
        obtain ⟨-, rfl⟩ := h
        obtain ⟨pre, hpre, hq⟩ := readOp_suffix hop
        refine ⟨s.takeWhile isSp ++ pre, by simp [hpre], ?_⟩
        rw [List.append_assoc, ← hq]; exact hs
    · have htd : ∀ (l : Bytes), l = l.takeWhile isIdChar ++ l.dropWhile isIdChar :=
        fun l => (List.takeWhile_append_dropWhile).symm
      split at h
      · -- DocumentRef-
        rename_i hpre
        split at h
        · simp at h
        · simp only [Step.tok.injEq] at h
          obtain ⟨-, rfl⟩ := h
          obtain ⟨t, ht⟩ := List.isPrefixOf_iff_prefix.mp hpre
          refine ⟨s.takeWhile isSp ++ (docRefPrefix ++ (List.drop docRefPrefix.length (s.dropWhile isSp)).takeWhile isIdChar), by simp [docRefPrefix], ?_⟩
          have h2 : List.drop docRefPrefix.length (s.dropWhile isSp) = t := by rw [← ht]; simp
          rw [h2]
          conv => lhs; rw [hs, ← ht, htd t]
          simp [List.append_assoc]
      · split at h
        · rename_i hpre
          split at h
          · simp at h
          · simp only [Step.tok.injEq] at h
            obtain ⟨-, rfl⟩ := h
            obtain ⟨t, ht⟩ := List.isPrefixOf_iff_prefix.mp hpre
            refine ⟨s.takeWhile isSp ++ (licRefPrefix ++ (List.drop licRefPrefix.length (s.dropWhile isSp)).takeWhile isIdChar), by simp [licRefPrefix], ?_⟩
            have h2 : List.drop licRefPrefix.length (s.dropWhile isSp) = t := by rw [← ht]; simp
            rw [h2]
            conv => lhs; rw [hs, ← ht, htd t]
            simp [List.append_assoc]
        · split at h
          · simp at h
          · rename_i hw
            split at h
            · simp at h
            · rename_i toks r' hn
              simp only [Step.tok.injEq] at h
              obtain ⟨-, rfl⟩ := h
              rcases normalize_suffix hn with rfl | rfl
              · refine ⟨s.takeWhile isSp ++ (s.dropWhile isSp).takeWhile isIdChar, by simp [hw], ?_⟩
                conv => lhs; rw [hs, htd (s.dropWhile isSp)]
                simp [List.append_assoc]
              · cases hd : (s.dropWhile isSp).dropWhile isIdChar with
                | nil =>
                  refine ⟨s.takeWhile isSp ++ (s.dropWhile isSp).takeWhile isIdChar, by simp [hw], ?_⟩
                  conv => lhs; rw [hs, htd (s.dropWhile isSp), hd]
                  simp [List.append_assoc]
                | cons a as =>
                  refine ⟨s.takeWhile isSp ++ ((s.dropWhile isSp).takeWhile isIdChar ++ [a]), by simp, ?_⟩
                  conv => lhs; rw [hs, htd (s.dropWhile isSp), hd]
                  simp [List.append_assoc]

/-- what it means for a scanner error to point into `input` -/
def ErrAt (input : Bytes) : ScanErr → Prop
  | .spaceBeforePlus => True
  | .expectedId off => off ≤ input.length ∧ ∀ c, input[off]? = some c → isIdChar c = false
  | .unknownLicense lex off => (input.drop off).take lex.length = lex ∧ lex ≠ []

theorem take_takeWhile_length (p : Nat → Bool) (l : Bytes) : l.take (l.takeWhile p).length = l.takeWhile p := by
  induction l with
  | nil => simp
  | cons a l ih =>
    by_cases h : p a
    · simp [List.takeWhile_cons, h, ih]
    · simp [List.takeWhile_cons, h]

theorem getElem?_append_len (a b : Bytes) : (a ++ b)[a.length]? = b[0]? := by
  rw [List.getElem?_append_right (Nat.le_refl _), Nat.sub_self]

theorem step_err_at {input consumed s : Bytes} {e} (hin : input = consumed ++ s)
    (h : step s consumed.length = .err e) : ErrAt input e := by
  unfold step at h
  simp only at h
  have hs : s = s.takeWhile isSp ++ s.dropWhile isSp := (List.takeWhile_append_dropWhile).symm
  have htd : ∀ (l : Bytes), l = l.takeWhile isIdChar ++ l.dropWhile isIdChar :=
    fun l => (List.takeWhile_append_dropWhile).symm
  split at h
  · simp at h
  · rename_i c cs hs1
    split at h
    · split at h
      · cases h; trivial
      · simp at h
    · split at h
      · rename_i hpre
        split at h
        · rename_i hid
          cases h
          obtain ⟨t, ht⟩ := List.isPrefixOf_iff_prefix.mp hpre
          have h2 : List.drop docRefPrefix.length (s.dropWhile isSp) = t := by rw [← ht]; simp
          rw [h2] at hid
          have hinput : input = (consumed ++ s.takeWhile isSp ++ docRefPrefix) ++ t := by
            rw [hin]; conv => lhs; rw [hs, ← ht]
            simp [List.append_assoc]
          refine ⟨?_, ?_⟩
          · rw [hinput]; simp; omega
          · intro c hc
            have : (consumed ++ s.takeWhile isSp ++ docRefPrefix).length = consumed.length + (s.takeWhile isSp).length + docRefPrefix.length := by simp [Nat.add_assoc]
            rw [hinput, ← this, getElem?_append_len] at hc
            cases t with
            | nil => simp at hc
            | cons a t =>
              simp at hc; subst hc
              by_cases ha : isIdChar a
              · simp [List.takeWhile_cons, ha] at hid
              · simpa using ha
        · simp at h
      · split at h
        · rename_i hpre
          split at h
          · rename_i hid
            cases h
            obtain ⟨t, ht⟩ := List.isPrefixOf_iff_prefix.mp hpre
            have h2 : List.drop licRefPrefix.length (s.dropWhile isSp) = t := by rw [← ht]; simp
            rw [h2] at hid
            have hinput : input = (consumed ++ s.takeWhile isSp ++ licRefPrefix) ++ t := by
              rw [hin]; conv => lhs; rw [hs, ← ht]
              simp [List.append_assoc]
            refine ⟨?_, ?_⟩
            · rw [hinput]; simp; omega
            · intro c hc
              have : (consumed ++ s.takeWhile isSp ++ licRefPrefix).length = consumed.length + (s.takeWhile isSp).length + licRefPrefix.length := by simp [Nat.add_assoc]
              rw [hinput, ← this, getElem?_append_len] at hc
              cases t with
              | nil => simp at hc
              | cons a t =>
                simp at hc; subst hc
                by_cases ha : isIdChar a
                · simp [List.takeWhile_cons, ha] at hid
                · simpa using ha
          · simp at h
        · have hinput : input = (consumed ++ s.takeWhile isSp) ++ s.dropWhile isSp := by
            rw [hin]; conv => lhs; rw [hs]
            simp [List.append_assoc]
          have hlen : (consumed ++ s.takeWhile isSp).length = consumed.length + (s.takeWhile isSp).length := by simp
          split at h
          · rename_i hw
            cases h
            refine ⟨?_, ?_⟩
            · rw [hinput]; simp only [List.length_append]; omega
            · intro c hc
              rw [hinput, ← hlen, getElem?_append_len, hs1] at hc
              simp at hc; subst hc
              by_cases ha : isIdChar c
              · simp [hs1, List.takeWhile_cons, ha] at hw
              · simpa using ha
          · rename_i hw
            split at h
            · cases h
              refine ⟨?_, hw⟩
              rw [hinput, ← hlen, List.drop_left]
              exact take_takeWhile_length _ _
            · simp at h

theorem scanLoop_err_at (input : Bytes) {e} : ∀ fuel (consumed s : Bytes), input = consumed ++ s →
    scanLoop fuel s consumed.length = .error e → ErrAt input e := by
  intro fuel
  induction fuel with
  | zero => intro c s _ h; simp [scanLoop] at h
  | succ f ih =>
    intro consumed s hin h
    simp only [scanLoop] at h
    split at h
    · simp at h
    · rename_i e' he; cases h; exact step_err_at hin he
    · rename_i ts r hst
      obtain ⟨pre, -, hpre⟩ := step_suffix hst
      have hlen : consumed.length + (s.length - r.length) = (consumed ++ pre).length := by
        rw [hpre]; simp
      rw [hlen] at h
      cases hrec : scanLoop f r (consumed ++ pre).length with
      | ok v => rw [hrec] at h; simp [Except.map] at h
      | error e2 =>
        rw [hrec] at h; simp [Except.map] at h; subst h
        exact ih (consumed ++ pre) r (by rw [hin, hpre]; simp) hrec

theorem scan_err_at (s : Bytes) {e} (h : scan s = .error e) : ErrAt s e :=
  scanLoop_err_at s _ [] s rfl h

end Spdx
