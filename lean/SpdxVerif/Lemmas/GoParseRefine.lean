/-
Lemmas/GoParseRefine — the Go-shaped parser (token cursor, `peek`/`next`, nil-able token pointers, error flag) accepts
exactly the documented grammar and builds the tree the derivation denotes; hence it computes what the list-based
parser of the main model computes: `G.parseTokens ts = .ok (parseTokens ts)`.
-/
import SpdxVerif.Lemmas.GoShaped
import SpdxVerif.Lemmas.Grammar
namespace Spdx.G

/-- the tokens from the cursor on -/
def restT (t : TS) : List Tok := t.toks.drop t.idx
/-- the cursor moved `k` tokens on -/
def adv (t : TS) (k : Nat) : TS := ⟨t.toks, t.idx + k, t.err⟩

@[simp] theorem restT_adv (t : TS) (k : Nat) : restT (adv t k) = (restT t).drop k := by
  simp [restT, adv, List.drop_drop, Nat.add_comm]
@[simp] theorem adv_adv (t : TS) (a b : Nat) : adv (adv t a) b = adv t (a + b) := by
  simp [adv, Nat.add_assoc]
@[simp] theorem adv_err (t : TS) (k : Nat) : (adv t k).err = t.err := rfl
@[simp] theorem adv_toks (t : TS) (k : Nat) : (adv t k).toks = t.toks := rfl
@[simp] theorem setErr_err (t : TS) : (setErr t).err = true := rfl
@[simp] theorem restT_setErr (t : TS) : restT (setErr t) = restT t := rfl
theorem adv_zero (t : TS) : adv t 0 = t := by cases t; rfl

theorem hasMore_eq (t : TS) : hasMore t = !(restT t).isEmpty := by
  unfold hasMore restT
  by_cases h : t.idx < t.toks.length
  · have : t.toks.drop t.idx ≠ [] := by simp [List.drop_eq_nil_iff]; omega
    cases hd : t.toks.drop t.idx with
    | nil => exact absurd hd this
    | cons a r => simp [h]
  · have : t.toks.drop t.idx = [] := List.drop_eq_nil_of_le (by omega)
    simp [this, h]

theorem peek_eq (t : TS) : peek t = .ok (restT t).head? := by
  unfold peek
  rw [hasMore_eq]
  unfold restT index
  cases hd : t.toks.drop t.idx with
  | nil =>
    simp
  | cons a r =>
    have : t.toks[t.idx]? = some a := by
      have := congrArg List.head? hd
      simpa [List.head?_drop] using this
    simp [this, Out.bind]

theorem next_eq (t : TS) : next t = if (restT t).isEmpty then setErr t else adv t 1 := by
  unfold next
  rw [hasMore_eq]
  cases (restT t).isEmpty <;> rfl

theorem parseOperator_eq (o : Op) (t : TS) :
    parseOperator o t = .ok (if (restT t).head? = some (.op o) then (true, adv t 1) else (false, t)) := by
  unfold parseOperator
  rw [peek_eq, next_eq]
  cases hd : restT t with
  | nil => simp [Out.bind]
  | cons a r =>
    simp only [Out.bind, List.head?_cons, Option.isSome_some, ↓reduceIte, deref, List.isEmpty_cons, Bool.false_eq_true,
      Option.some.injEq]
    split <;> rfl

/-- `parseWith` on the tokens at the cursor -/
theorem parseWith_eq (t : TS) :
    parseWith t = .ok (match restT t with
      | .op .with_ :: .exc e :: _ => (some e, adv t 1)
      | .op .with_ :: _ => (none, setErr (adv t 1))
      | _ => (none, t)) := by
  unfold parseWith
  simp only [parseOperator_eq, Out.bind]
  cases hL : restT t with
  | nil => simp
  | cons a r =>
    cases a with
    | op o =>
      cases o <;> simp only [List.head?_cons, Option.some.injEq, Tok.op.injEq, reduceCtorEq, ↓reduceIte, Bool.not_false,
        Bool.not_true, Bool.false_eq_true]
      -- the WITH case is left
      simp only [peek_eq, restT_adv, hL, List.drop_succ_cons, List.drop_zero]
      cases r with
      | nil => simp
      | cons b r' => cases b <;> simp [deref, Out.bind]
    | _ => simp

/-- how many tokens `parseLicense` moves the cursor (to the end of the term, or to where it gives up) -/
def licAdv : List Tok → Nat
  | .lic _ :: .op .plus :: .op .with_ :: .exc _ :: _ => 4
  | .lic _ :: .op .plus :: .op .with_ :: _ => 3
  | .lic _ :: .op .plus :: _ => 2
  | .lic _ :: .op .with_ :: .exc _ :: _ => 3
  | .lic _ :: .op .with_ :: _ => 2
  | .lic _ :: _ => 1
  | _ => 0

/-- `parseLicense` with its cursor, `peek`/`next` and nil tests computes the seven token patterns of the model -/
theorem parseLicense_spec (t : TS) (herr : t.err = false) :
    parseLicense t = .ok (match Spdx.parseLicense (restT t) with
      | .none => (none, t)
      | .err => (none, setErr (adv t (licAdv (restT t))))
      | .ok n _ => (some n, adv t (licAdv (restT t)))) := by
  unfold parseLicense
  simp only [peek_eq, next_eq, hasMore_eq, parseOperator_eq, parseWith_eq, restT_adv, Out.bind]
  cases hL : restT t with
  | nil => simp [Spdx.parseLicense, deref]
  | cons a r =>
    cases a with
    | lic id =>
      simp only [List.head?_cons, Option.isNone_some, Bool.false_eq_true, ↓reduceIte, deref, List.isEmpty_cons,
        restT_adv, hL, List.drop_succ_cons, List.drop_zero]
      cases r with
      | nil => simp [Spdx.parseLicense, licAdv, herr, hL]
      | cons b r1 =>
        cases b with
        | op o =>
          cases o with
          | plus =>
            simp only [List.isEmpty_cons, Bool.not_false, ↓reduceIte, List.head?_cons, adv_adv, restT_adv, hL,
              List.drop_succ_cons, List.drop_zero, Nat.reduceAdd]
            cases r1 with
            | nil => simp [Spdx.parseLicense, licAdv, herr, hL]
            | cons c r2 =>
              cases c with
              | op o2 =>
                cases o2 with
                | with_ =>
                  cases r2 with
                  | nil => simp [Spdx.parseLicense, licAdv, herr, hL]
                  | cons d r3 => cases d <;> simp [Spdx.parseLicense, licAdv, herr, hL]
                | _ => simp [Spdx.parseLicense, licAdv, herr, hL]
              | _ => simp [Spdx.parseLicense, licAdv, herr, hL]
          | with_ =>
            simp only [List.isEmpty_cons, Bool.not_false, ↓reduceIte, List.head?_cons, adv_adv, restT_adv, hL,
              List.drop_succ_cons, List.drop_zero, Nat.reduceAdd]
            cases r1 with
            | nil => simp [Spdx.parseLicense, licAdv, herr, hL]
            | cons d r3 => cases d <;> simp [Spdx.parseLicense, licAdv, herr, hL]
          | _ => simp [Spdx.parseLicense, licAdv, herr, hL]
        | _ => simp [Spdx.parseLicense, licAdv, herr, hL]
    | _ => simp [Spdx.parseLicense, deref]

def refAdv : List Tok → Nat
  | .docRef _ :: .op .colon :: .licRef _ :: _ => 3
  | .docRef _ :: .op .colon :: _ => 2
  | .docRef _ :: _ => 1
  | .licRef _ :: _ => 1
  | _ => 0

theorem parseLicenseRef_spec (t : TS) (herr : t.err = false) :
    parseLicenseRef t = .ok (match Spdx.parseLicenseRef (restT t) with
      | .none => (none, t)
      | .err => (none, setErr (adv t (refAdv (restT t))))
      | .ok n _ => (some n, adv t (refAdv (restT t)))) := by
  unfold parseLicenseRef parseDocPart
  simp only [peek_eq, next_eq, parseOperator_eq, restT_adv, Out.bind]
  cases hL : restT t with
  | nil => simp [Spdx.parseLicenseRef, deref]
  | cons a r =>
    cases a with
    | docRef d =>
      simp only [List.head?_cons, Option.isNone_some, Bool.false_eq_true, ↓reduceIte, deref, List.isEmpty_cons, restT_adv, hL,
        List.drop_succ_cons, List.drop_zero]
      cases r with
      | nil => simp [Spdx.parseLicenseRef, refAdv, herr, hL]
      | cons b r1 =>
        cases b with
        | op o =>
          cases o with
          | colon =>
            cases r1 with
            | nil => simp [Spdx.parseLicenseRef, refAdv, herr, hL]
            | cons c r2 => cases c <;> simp [Spdx.parseLicenseRef, refAdv, herr, hL]
          | _ => simp [Spdx.parseLicenseRef, refAdv, herr, hL]
        | _ => simp [Spdx.parseLicenseRef, refAdv, herr, hL]
    | licRef x => simp [Spdx.parseLicenseRef, refAdv, herr, hL, deref]
    | _ => simp [Spdx.parseLicenseRef, refAdv, herr, hL, deref]

theorem parseLicense_rest {L : List Tok} {n r} (h : Spdx.parseLicense L = .ok n r) : r = L.drop (licAdv L) ∧ licAdv L ≤ L.length := by
  unfold Spdx.parseLicense at h
  split at h <;> simp at h <;> obtain ⟨_, rfl⟩ := h <;> simp [licAdv]

theorem parseLicenseRef_rest {L : List Tok} {n r} (h : Spdx.parseLicenseRef L = .ok n r) :
    r = L.drop (refAdv L) ∧ refAdv L ≤ L.length := by
  unfold Spdx.parseLicenseRef at h
  split at h <;> simp at h <;> obtain ⟨_, rfl⟩ := h <;> simp [refAdv]

/-! ### the recursive functions, with `peek`/`next` resolved -/

theorem parseParen_eq (f : Nat) (t : TS) :
    parseParen (f + 1) t = (if (restT t).head? = some (.op .lparen) then
      (parseExpression f (adv t 1)).bind fun (e, t) =>
        if t.err then .ok (none, t) else
        if (restT t).isEmpty then .ok (none, setErr t) else
        if (restT t).head? = some (.op .rparen) then .ok (e, adv t 1) else .ok (none, setErr t)
      else .ok (none, t)) := by
  simp only [parseParen, parseOperator_eq, Out.bind, hasMore_eq]
  split
  · simp only [Bool.not_true, Bool.false_eq_true, ↓reduceIte]
    cases parseExpression f (adv t 1) with
    | panic => rfl
    | ok x =>
      obtain ⟨e, t1⟩ := x
      simp only
      split
      · rfl
      · cases hL : restT t1 with
        | nil => simp
        | cons a r => by_cases ha : a = .op .rparen <;> simp [ha]
  · simp

/-- the model's `parseAtom` does not look at its fuel when the phrase does not start with `(` -/
theorem model_atom_leaf (L : List Tok) (hh : L.head? ≠ some (.op .lparen)) (m : Nat) :
    Spdx.parseAtom (m + 1) L = (match Spdx.parseLicenseRef L with
      | .err => .err
      | .ok n r => .ok n r
      | .none => match Spdx.parseLicense L with
        | .err => .err
        | .ok n r => .ok n r
        | .none => .err) := by
  unfold Spdx.parseAtom
  split
  · rename_i rest
    simp at hh
  · rfl

/-- how far a term that is not parenthesised moves the cursor -/
def leafAdv (L : List Tok) : Nat :=
  match Spdx.parseLicenseRef L with
  | .ok _ _ => refAdv L
  | _ => licAdv L

theorem diag_err (t : TS) :
    ∃ t', (if hasMore t then
        (parseOperator .rparen t).bind fun (f1, t) =>
          if f1 then .ok ((none : Option Node), setErr t) else
          (parseOperator .or_ t).bind fun (f2, t) =>
            if f2 then .ok (none, setErr t) else
            (parseOperator .and_ t).bind fun (_, t) => .ok (none, setErr t)
      else .ok (none, setErr t)) = .ok (none, t') ∧ t'.err = true := by
  simp only [parseOperator_eq, Out.bind]
  by_cases hm : hasMore t = true
  · simp only [hm, ↓reduceIte]
    by_cases h1 : (restT t).head? = some (.op .rparen)
    · simp only [h1, ↓reduceIte]
      exact ⟨setErr (adv t 1), rfl, rfl⟩
    · simp only [h1, ↓reduceIte, Bool.false_eq_true]
      by_cases h2 : (restT t).head? = some (.op .or_)
      · simp only [h2, ↓reduceIte]
        exact ⟨setErr (adv t 1), rfl, rfl⟩
      · simp only [h2, ↓reduceIte, Bool.false_eq_true]
        by_cases h3 : (restT t).head? = some (.op .and_)
        · simp only [h3, ↓reduceIte]
          exact ⟨setErr (adv t 1), rfl, rfl⟩
        · simp only [h3, ↓reduceIte]
          exact ⟨setErr t, rfl, rfl⟩
  · simp only [hm, Bool.false_eq_true, ↓reduceIte]
    exact ⟨setErr t, rfl, rfl⟩

/-- `parseAtom` on a phrase that does not start with `(`: the Go code and the model agree, for any fuel ≥ 2 -/
theorem parseAtom_leaf (f : Nat) (t : TS) (herr : t.err = false) (hh : (restT t).head? ≠ some (.op .lparen)) :
    (∃ n, (∀ m, Spdx.parseAtom (m + 1) (restT t) = .ok n ((restT t).drop (leafAdv (restT t)))) ∧
        leafAdv (restT t) ≤ (restT t).length ∧ parseAtom (f + 2) t = .ok (some n, adv t (leafAdv (restT t)))) ∨
    ((∀ m, Spdx.parseAtom (m + 1) (restT t) = .err) ∧ ∃ t', parseAtom (f + 2) t = .ok (none, t') ∧ t'.err = true) := by
  have hG : parseAtom (f + 2) t =
      (parseLicenseRef t).bind fun (r, t) =>
        if t.err then .ok (none, t) else
        if r.isSome then .ok (r, t) else
        (parseLicense t).bind fun (l, t) =>
          if t.err then .ok (none, t) else
          if l.isSome then .ok (l, t) else
          if hasMore t then
            (parseOperator .rparen t).bind fun (f1, t) =>
              if f1 then .ok (none, setErr t) else
              (parseOperator .or_ t).bind fun (f2, t) =>
                if f2 then .ok (none, setErr t) else
                (parseOperator .and_ t).bind fun (_, t) => .ok (none, setErr t)
          else .ok (none, setErr t) := by
    simp only [parseAtom, parseParen_eq, hh, ↓reduceIte, Out.bind, herr, Bool.false_eq_true, Option.isSome_none]
  rw [hG, parseLicenseRef_spec t herr]
  simp only [Out.bind]
  cases hR : Spdx.parseLicenseRef (restT t) with
  | err =>
    refine .inr ⟨fun m => by rw [model_atom_leaf _ hh, hR], setErr (adv t (refAdv (restT t))), ?_, rfl⟩
    simp only [setErr_err, ↓reduceIte]
  | ok n r =>
    obtain ⟨hr, hle⟩ := parseLicenseRef_rest hR
    refine .inl ⟨n, fun m => by rw [model_atom_leaf _ hh, hR]; simp only [leafAdv, hR, hr], by simp only [leafAdv, hR]; exact hle, ?_⟩
    simp only [adv_err, herr, Bool.false_eq_true, ↓reduceIte, Option.isSome_some, leafAdv, hR]
  | none =>
    simp only [herr, Bool.false_eq_true, ↓reduceIte, Option.isSome_none]
    rw [parseLicense_spec t herr]
    simp only [Out.bind]
    cases hLc : Spdx.parseLicense (restT t) with
    | err =>
      refine .inr ⟨fun m => by rw [model_atom_leaf _ hh, hR, hLc], setErr (adv t (licAdv (restT t))), ?_, rfl⟩
      simp only [setErr_err, ↓reduceIte]
    | ok n r =>
      obtain ⟨hr, hle⟩ := parseLicense_rest hLc
      refine .inl ⟨n, fun m => by rw [model_atom_leaf _ hh, hR, hLc]; simp only [leafAdv, hR, hr], by simp only [leafAdv, hR]; exact hle, ?_⟩
      simp only [adv_err, herr, Bool.false_eq_true, ↓reduceIte, Option.isSome_some, leafAdv, hR]
    | none =>
      simp only [herr, Bool.false_eq_true, ↓reduceIte, Option.isSome_none]
      obtain ⟨t', h1, h2⟩ := diag_err t
      exact .inr ⟨fun m => by rw [model_atom_leaf _ hh, hR, hLc], t', h1, h2⟩

/-- what `parseAnd` / `parseExpression` do after their left operand (`again` is the recursive call, `mk` the node) -/
def chainG (o : Op) (mk : Node → Node → Node) (again : TS → Out (Option Node × TS)) (l : Option Node) (t : TS) :
    Out (Option Node × TS) :=
  if t.err then .ok (none, t) else
  match l with
  | none => .ok (none, t)
  | some left =>
    if (restT t).head? = some (.op o) then
      if ((restT t).drop 1).isEmpty then .ok (none, setErr (adv t 1)) else
      (again (adv t 1)).bind fun (r, t) =>
        if t.err then .ok (none, t) else
        match r with
        | none => .ok (none, setErr t)
        | some right => .ok (some (mk left right), t)
    else .ok (some left, t)

theorem parseAnd_eq (f : Nat) (t : TS) :
    parseAnd (f + 1) t = (parseAtom f t).bind fun (l, t) => chainG .and_ .and (parseAnd f) l t := by
  simp only [parseAnd, parseOperator_eq, Out.bind, hasMore_eq, chainG]
  cases parseAtom f t with
  | panic => rfl
  | ok x =>
    obtain ⟨l, t1⟩ := x
    simp only
    split
    · rfl
    · cases l with
      | none => rfl
      | some left =>
        simp only
        cases hL : restT t1 with
        | nil => simp
        | cons a r =>
          by_cases ha : a = .op .and_
          · subst ha
            simp only [List.isEmpty_cons, Bool.not_false, Bool.not_true, Bool.false_eq_true, ↓reduceIte, List.head?_cons,
              restT_adv, hL, List.drop_succ_cons, List.drop_zero]
            cases r with
            | nil => simp
            | cons b r' =>
              simp only [List.isEmpty_cons, Bool.false_eq_true, ↓reduceIte]
              rfl
          · simp [ha]

theorem parseExpression_eq (f : Nat) (t : TS) :
    parseExpression (f + 1) t = (parseAnd f t).bind fun (l, t) => chainG .or_ .or (parseExpression f) l t := by
  simp only [parseExpression, parseOperator_eq, Out.bind, hasMore_eq, chainG]
  cases parseAnd f t with
  | panic => rfl
  | ok x =>
    obtain ⟨l, t1⟩ := x
    simp only
    split
    · rfl
    · cases l with
      | none => rfl
      | some left =>
        simp only
        cases hL : restT t1 with
        | nil => simp
        | cons a r =>
          by_cases ha : a = .op .or_
          · subst ha
            simp only [List.isEmpty_cons, Bool.not_false, Bool.not_true, Bool.false_eq_true, ↓reduceIte, List.head?_cons,
              restT_adv, hL, List.drop_succ_cons, List.drop_zero]
            cases r with
            | nil => simp
            | cons b r' =>
              simp only [List.isEmpty_cons, Bool.false_eq_true, ↓reduceIte]
              rfl
          · simp [ha]

/-! ### a nil result always comes with the error flag -/

theorem chain_noneErr {o mk again l t t'} (hl : l = none → t.err = true)
    (h : chainG o mk again l t = .ok (none, t')) : t'.err = true := by
  unfold chainG at h
  split at h
  · rename_i he
    simp only [Out.ok.injEq, Prod.mk.injEq, true_and] at h
    rw [← h]; exact he
  · rename_i he
    cases l with
    | none => exact absurd (hl rfl) he
    | some left =>
      simp only at h
      split at h
      · split at h
        · simp only [Out.ok.injEq, Prod.mk.injEq, true_and] at h
          rw [← h]; rfl
        · cases hag : again (adv t 1) with
          | panic => rw [hag] at h; simp [Out.bind] at h
          | ok x =>
            obtain ⟨r, t2⟩ := x
            rw [hag] at h
            simp only [Out.bind] at h
            split at h
            · rename_i he2
              simp only [Out.ok.injEq, Prod.mk.injEq, true_and] at h
              rw [← h]; exact he2
            · cases r with
              | none =>
                simp only [Out.ok.injEq, Prod.mk.injEq, true_and] at h
                rw [← h]; rfl
              | some right => simp at h
      · simp at h

theorem noneErr : ∀ f, (∀ t t', parseAtom f t = .ok (none, t') → t'.err = true) ∧
    (∀ t t', parseAnd f t = .ok (none, t') → t'.err = true) ∧
    (∀ t t', parseExpression f t = .ok (none, t') → t'.err = true) := by
  intro f
  induction f with
  | zero =>
    refine ⟨?_, ?_, ?_⟩ <;> intro t t' h <;> simp only [parseAtom, parseAnd, parseExpression, Out.ok.injEq, Prod.mk.injEq, true_and] at h <;>
      (rw [← h]; rfl)
  | succ f ih =>
    obtain ⟨ihA, ihN, ihE⟩ := ih
    refine ⟨?_, ?_, ?_⟩
    · intro t t' h
      simp only [parseAtom] at h
      obtain ⟨⟨p, t1⟩, hp⟩ := (parse_mutual_ok f).1 t
      rw [hp] at h
      simp only [Out.bind] at h
      split at h
      · rename_i he
        simp only [Out.ok.injEq, Prod.mk.injEq, true_and] at h
        rw [← h]; exact he
      · split at h
        · rename_i hs
          simp only [Out.ok.injEq, Prod.mk.injEq] at h
          rw [h.1] at hs; simp at hs
        · obtain ⟨⟨r2, t2⟩, hr⟩ := parseLicenseRef_ok t1
          rw [hr] at h
          simp only at h
          split at h
          · rename_i he
            simp only [Out.ok.injEq, Prod.mk.injEq, true_and] at h
            rw [← h]; exact he
          · split at h
            · rename_i hs
              simp only [Out.ok.injEq, Prod.mk.injEq] at h
              rw [h.1] at hs; simp at hs
            · obtain ⟨⟨r3, t3⟩, hl⟩ := parseLicense_ok t2
              rw [hl] at h
              simp only at h
              split at h
              · rename_i he
                simp only [Out.ok.injEq, Prod.mk.injEq, true_and] at h
                rw [← h]; exact he
              · split at h
                · rename_i hs
                  simp only [Out.ok.injEq, Prod.mk.injEq] at h
                  rw [h.1] at hs; simp at hs
                · obtain ⟨t4, hd, he4⟩ := diag_err t3
                  simp only [Out.bind] at hd
                  rw [hd] at h
                  simp only [Out.ok.injEq, Prod.mk.injEq, true_and] at h
                  rw [← h]; exact he4
    · intro t t' h
      rw [parseAnd_eq] at h
      obtain ⟨⟨l, t1⟩, hp⟩ := (parse_mutual_ok f).2.1 t
      rw [hp] at h
      simp only [Out.bind] at h
      exact chain_noneErr (fun hl => ihA t t1 (by rw [hp, hl])) h
    · intro t t' h
      rw [parseExpression_eq] at h
      obtain ⟨⟨l, t1⟩, hp⟩ := (parse_mutual_ok f).2.2.1 t
      rw [hp] at h
      simp only [Out.bind] at h
      exact chain_noneErr (fun hl => ihN t t1 (by rw [hp, hl])) h

/-! ### soundness: what the Go-shaped parser accepts derives from the grammar -/

def parseAtG : Lvl → Nat → TS → Out (Option Node × TS)
  | .atom => parseAtom | .andE => parseAnd | .expr => parseExpression

/-- what a successful call means -/
def Sound (lv : Lvl) (t : TS) (n : Node) (t' : TS) : Prop :=
  ∃ pre, restT t = pre ++ restT t' ∧ t' = adv t pre.length ∧ D lv pre n

theorem chain_sound {o : Op} {mk : Node → Node → Node} {again : TS → Out (Option Node × TS)} {lvr : Lvl}
    (hag : ∀ t n t', t.err = false → again t = .ok (some n, t') → t'.err = false → Sound lvr t n t')
    {left : Node} {t1 : TS} {n : Node} {t' : TS} (h1 : t1.err = false)
    (h : chainG o mk again (some left) t1 = .ok (some n, t')) (he' : t'.err = false) :
    (n = left ∧ t' = t1) ∨
    (∃ right pb, n = mk left right ∧ restT t1 = .op o :: pb ++ restT t' ∧ t' = adv t1 (1 + pb.length) ∧ D lvr pb right) := by
  unfold chainG at h
  simp only [h1, Bool.false_eq_true, ↓reduceIte] at h
  split at h
  · rename_i hh
    split at h
    · simp at h
    · cases hag2 : again (adv t1 1) with
      | panic => rw [hag2] at h; simp [Out.bind] at h
      | ok x =>
        obtain ⟨r, t2⟩ := x
        rw [hag2] at h
        simp only [Out.bind] at h
        split at h
        · simp at h
        · rename_i he2
          cases r with
          | none => simp at h
          | some right =>
            simp only [Out.ok.injEq, Prod.mk.injEq, Option.some.injEq] at h
            obtain ⟨hn, ht⟩ := h
            subst ht
            obtain ⟨pb, hpb, htb, hdb⟩ := hag (adv t1 1) right t2 h1 hag2 he'
            refine .inr ⟨right, pb, hn.symm, ?_, ?_, hdb⟩
            · simp only [restT_adv] at hpb
              cases hL : restT t1 with
              | nil => rw [hL] at hh; simp at hh
              | cons a r =>
                rw [hL] at hh hpb
                simp only [List.head?_cons, Option.some.injEq] at hh
                simp only [List.drop_succ_cons, List.drop_zero] at hpb
                rw [hh, hpb]
                rfl
            · rw [htb, adv_adv]
  · simp only [Out.ok.injEq, Prod.mk.injEq, Option.some.injEq] at h
    exact .inl ⟨h.1.symm, h.2.symm⟩

theorem drop_len_eq {α} {L pre : List α} {k : Nat} (h : L = pre ++ L.drop k) (hk : k ≤ L.length) : pre.length = k := by
  have := congrArg List.length h
  simp only [List.length_append, List.length_drop] at this
  omega

theorem sound_all : ∀ f, (∀ t n t', t.err = false → parseAtom f t = .ok (some n, t') → t'.err = false → Sound .atom t n t') ∧
    (∀ t n t', t.err = false → parseAnd f t = .ok (some n, t') → t'.err = false → Sound .andE t n t') ∧
    (∀ t n t', t.err = false → parseExpression f t = .ok (some n, t') → t'.err = false → Sound .expr t n t') := by
  intro f
  induction f using Nat.strongRecOn with
  | ind f ihs =>
  cases f with
  | zero =>
    refine ⟨?_, ?_, ?_⟩ <;> intro t n t' _ h <;> simp [parseAtom, parseAnd, parseExpression] at h
  | succ f =>
    obtain ⟨ihA, ihN, ihE⟩ := ihs f (by omega)
    refine ⟨?_, ?_, ?_⟩
    · -- parseAtom
      intro t n t' herr h he'
      cases f with
      | zero => simp [parseAtom, parseParen, Out.bind] at h
      | succ f' =>
        by_cases hh : (restT t).head? = some (.op .lparen)
        · -- parenthesised
          simp only [parseAtom, parseParen_eq, hh, ↓reduceIte] at h
          obtain ⟨⟨e, t1⟩, hp⟩ := (parse_mutual_ok f').2.2.2 (adv t 1)
          rw [hp] at h
          simp only [Out.bind] at h
          by_cases he1 : t1.err = true
          · simp [he1] at h
          · have he1' : t1.err = false := by simpa using he1
            simp only [he1', Bool.false_eq_true, ↓reduceIte] at h
            by_cases hemp : (restT t1).isEmpty = true
            · simp [hemp, Out.bind] at h
            · by_cases hrp : (restT t1).head? = some (.op .rparen)
              · simp only [hemp, Bool.false_eq_true, ↓reduceIte, hrp, adv_err, he1'] at h
                cases e with
                | none => exact absurd ((noneErr f').2.2 _ _ hp) he1
                | some n0 =>
                  simp only [Option.isSome_some, ↓reduceIte, Out.ok.injEq, Prod.mk.injEq, Option.some.injEq] at h
                  obtain ⟨hn, ht⟩ := h
                  subst hn; subst ht
                  have ihE' := (ihs f' (by omega)).2.2
                  obtain ⟨pre, hpre, htp, hd⟩ := ihE' (adv t 1) n0 t1 herr hp he1'
                  refine ⟨.op .lparen :: pre ++ [.op .rparen], ?_, ?_, .paren hd⟩
                  · simp only [restT_adv] at hpre ⊢
                    cases hL : restT t with
                    | nil => rw [hL] at hh; simp at hh
                    | cons a r =>
                      rw [hL] at hh hpre
                      simp only [List.head?_cons, Option.some.injEq] at hh
                      simp only [List.drop_succ_cons, List.drop_zero] at hpre
                      cases hL1 : restT t1 with
                      | nil => rw [hL1] at hrp; simp at hrp
                      | cons b r1 =>
                        rw [hL1] at hrp hpre
                        simp only [List.head?_cons, Option.some.injEq] at hrp
                        rw [hh, hpre, hrp]
                        simp
                  · rw [htp, adv_adv, adv_adv]
                    congr 1
                    simp only [List.length_cons, List.length_append, List.length_nil]
                    omega
              · simp [hemp, hrp, Out.bind] at h
        · -- a term
          rcases parseAtom_leaf f' t herr hh with ⟨n0, hm, hle, hg⟩ | ⟨_, t'', hg, _⟩
          · rw [hg] at h
            simp only [Out.ok.injEq, Prod.mk.injEq, Option.some.injEq] at h
            obtain ⟨hn, ht⟩ := h
            subst hn; subst ht
            obtain ⟨pre, hpre, hd⟩ := Spdx.sound 1 .atom _ _ _ (hm 0)
            have hk := drop_len_eq hpre hle
            exact ⟨pre, by simpa [restT_adv] using hpre, by rw [hk], hd⟩
          · rw [hg] at h; simp at h
    · -- parseAnd
      intro t n t' herr h he'
      rw [parseAnd_eq] at h
      obtain ⟨⟨l, t1⟩, hp⟩ := (parse_mutual_ok f).2.1 t
      rw [hp] at h
      simp only [Out.bind] at h
      by_cases he1 : t1.err = true
      · simp [chainG, he1] at h
      · have he1' : t1.err = false := by simpa using he1
        cases l with
        | none => simp [chainG, he1'] at h
        | some left =>
          obtain ⟨pa, hpa, hta, hda⟩ := ihA t left t1 herr hp he1'
          rcases chain_sound (lvr := .andE) ihN he1' h he' with ⟨hn, ht⟩ | ⟨right, pb, hn, hpb, htb, hdb⟩
          · subst hn; subst ht
            exact ⟨pa, hpa, hta, .and1 hda⟩
          · subst hn
            refine ⟨pa ++ .op .and_ :: pb, ?_, ?_, .andC hda hdb⟩
            · rw [hpa, hpb]; simp
            · rw [htb, hta, adv_adv]
              congr 1
              simp only [List.length_append, List.length_cons]
              omega
    · -- parseExpression
      intro t n t' herr h he'
      rw [parseExpression_eq] at h
      obtain ⟨⟨l, t1⟩, hp⟩ := (parse_mutual_ok f).2.2.1 t
      rw [hp] at h
      simp only [Out.bind] at h
      by_cases he1 : t1.err = true
      · simp [chainG, he1] at h
      · have he1' : t1.err = false := by simpa using he1
        cases l with
        | none => simp [chainG, he1'] at h
        | some left =>
          obtain ⟨pa, hpa, hta, hda⟩ := ihN t left t1 herr hp he1'
          rcases chain_sound (lvr := .expr) ihE he1' h he' with ⟨hn, ht⟩ | ⟨right, pb, hn, hpb, htb, hdb⟩
          · subst hn; subst ht
            exact ⟨pa, hpa, hta, .or1 hda⟩
          · subst hn
            refine ⟨pa ++ .op .or_ :: pb, ?_, ?_, .orC hda hdb⟩
            · rw [hpa, hpb]; simp
            · rw [htb, hta, adv_adv]
              congr 1
              simp only [List.length_append, List.length_cons]
              omega

/-! ### completeness: every phrase of the grammar is accepted, with its tree -/

def needG : Lvl → Nat → Nat
  | .atom, n => 4 * n - 2 | .andE, n => 4 * n - 1 | .expr, n => 4 * n

theorem chain_stop {o mk again left} {t1 : TS} (h1 : t1.err = false) (hh : (restT t1).head? ≠ some (.op o)) :
    chainG o mk again (some left) t1 = .ok (some left, t1) := by
  simp only [chainG, h1, Bool.false_eq_true, ↓reduceIte, hh]

theorem chain_go {o mk again left right} {t1 t2 : TS} {b rest : List Tok} (h1 : t1.err = false)
    (hr : restT t1 = .op o :: b ++ rest) (hb : b ≠ []) (hag : again (adv t1 1) = .ok (some right, t2)) (h2 : t2.err = false) :
    chainG o mk again (some left) t1 = .ok (some (mk left right), t2) := by
  have hne : ((restT t1).drop 1).isEmpty = false := by
    rw [hr]
    cases b with
    | nil => exact absurd rfl hb
    | cons x xs => rfl
  simp only [chainG, h1, Bool.false_eq_true, ↓reduceIte, hr, List.cons_append, List.head?_cons, hag, Out.bind, h2]
  rw [hr] at hne
  simp only [List.cons_append] at hne
  simp only [hne, Bool.false_eq_true, ↓reduceIte]

theorem leaf_complete {pre : List Tok} {n : Node} (hd : D .atom pre n) (hnp : pre.head? ≠ some (.op .lparen))
    (t : TS) (rest : List Tok) (herr : t.err = false) (hrest : restT t = pre ++ rest) (ho : headOk .atom rest)
    (f : Nat) (hf : 2 ≤ f) : parseAtom f t = .ok (some n, adv t pre.length) := by
  obtain ⟨f', rfl⟩ : ∃ g, f = g + 2 := ⟨f - 2, by omega⟩
  have hpos := D_len_pos hd
  have hc := complete hd rest ho (need .atom pre.length) (Nat.le_refl _)
  obtain ⟨m, hm⟩ : ∃ m, need .atom pre.length = m + 1 := ⟨need .atom pre.length - 1, by simp [need]; omega⟩
  rw [hm] at hc
  simp only [parseAt] at hc
  have hh : (restT t).head? ≠ some (.op .lparen) := by
    rw [hrest]
    cases pre with
    | nil => simp at hpos
    | cons x xs => simpa using hnp
  rcases parseAtom_leaf f' t herr hh with ⟨n0, hm0, hle, hg⟩ | ⟨hm0, _⟩
  · have h1 := hm0 m
    rw [hrest, hc] at h1
    simp only [PR.ok.injEq] at h1
    obtain ⟨hn, hdrop⟩ := h1
    rw [hrest] at hle
    have hk : pre.length = leafAdv (pre ++ rest) := by
      have := congrArg List.length hdrop
      simp only [List.length_drop, List.length_append] at this hle
      omega
    rw [hg, hrest, ← hk, hn]
  · have h1 := hm0 m
    rw [hrest, hc] at h1
    cases h1

theorem complete_G {lv pre n} (h : D lv pre n) :
    ∀ (t : TS) (rest : List Tok), t.err = false → restT t = pre ++ rest → headOk lv rest →
      ∀ f, needG lv pre.length ≤ f → parseAtG lv f t = .ok (some n, adv t pre.length) := by
  induction h with
  | ref0 r => intro t rest herr hr ho f hf; exact leaf_complete (.ref0 r) (by simp) t rest herr hr ho f (by simp [needG] at hf; omega)
  | ref1 d r => intro t rest herr hr ho f hf; exact leaf_complete (.ref1 d r) (by simp) t rest herr hr ho f (by simp [needG] at hf; omega)
  | lic id => intro t rest herr hr ho f hf; exact leaf_complete (.lic id) (by simp) t rest herr hr ho f (by simp [needG] at hf; omega)
  | licP id => intro t rest herr hr ho f hf; exact leaf_complete (.licP id) (by simp) t rest herr hr ho f (by simp [needG] at hf; omega)
  | licW id e => intro t rest herr hr ho f hf; exact leaf_complete (.licW id e) (by simp) t rest herr hr ho f (by simp [needG] at hf; omega)
  | licPW id e => intro t rest herr hr ho f hf; exact leaf_complete (.licPW id e) (by simp) t rest herr hr ho f (by simp [needG] at hf; omega)
  | @paren ts n hd ih =>
    intro t rest herr hr ho f hf
    have hp := D_len_pos hd
    have hf0 : 4 * (ts.length + 1 + 1) - 2 ≤ f := by simpa [needG] using hf
    obtain ⟨f', rfl⟩ : ∃ g, f = g + 2 := ⟨f - 2, by omega⟩
    have hh : (restT t).head? = some (.op .lparen) := by rw [hr]; rfl
    have hr1 : restT (adv t 1) = ts ++ (.op .rparen :: rest) := by
      rw [restT_adv, hr]; simp
    have h1 := ih (adv t 1) (.op .rparen :: rest) herr hr1 (by simp [headOk]) f' (by simp only [needG]; omega)
    simp only [parseAtG] at h1
    have hr2 : restT (adv t (1 + ts.length)) = .op .rparen :: rest := by
      rw [← adv_adv, restT_adv, hr1]; simp
    simp only [parseAtG, parseAtom, parseParen_eq, hh, ↓reduceIte, h1, Out.bind, adv_err, herr, Bool.false_eq_true, hr2,
      List.isEmpty_cons, List.head?_cons, Option.isSome_some, adv_adv]
    congr 3
    simp only [List.length_cons, List.length_append, List.length_nil]
    omega
  | @and1 ts n hd ih =>
    intro t rest herr hr ho f hf
    have hp := D_len_pos hd
    obtain ⟨f', rfl⟩ : ∃ g, f = g + 1 := ⟨f - 1, by simp [needG] at hf; omega⟩
    have h1 := ih t rest herr hr ⟨ho.1, ho.2.1, by simp, by simp⟩ f' (by simp [needG] at hf ⊢; omega)
    simp only [parseAtG] at h1
    simp only [parseAtG, parseAnd_eq, h1, Out.bind]
    have hrr : restT (adv t ts.length) = rest := by rw [restT_adv, hr]; simp
    exact chain_stop (by simp [herr]) (by rw [hrr]; exact ho.2.2.1 (by simp))
  | @andC a b l r ha hb iha ihb =>
    intro t rest herr hr ho f hf
    have hpa := D_len_pos ha
    have hpb := D_len_pos hb
    obtain ⟨f', rfl⟩ : ∃ g, f = g + 1 := ⟨f - 1, by simp [needG] at hf; omega⟩
    have hf' : 4 * (a.length + (b.length + 1)) - 1 ≤ f' + 1 := by simpa [needG] using hf
    have hr' : restT t = a ++ (.op .and_ :: b ++ rest) := by rw [hr]; simp
    have h1 := iha t (.op .and_ :: b ++ rest) herr hr' (by simp [headOk]) f' (by simp [needG]; omega)
    simp only [parseAtG] at h1
    have hr1 : restT (adv t a.length) = .op .and_ :: b ++ rest := by rw [restT_adv, hr']; simp
    have hr2 : restT (adv (adv t a.length) 1) = b ++ rest := by rw [restT_adv, hr1]; simp
    have h2 := ihb (adv (adv t a.length) 1) rest herr hr2 ho f' (by simp [needG]; omega)
    simp only [parseAtG] at h2
    simp only [parseAtG, parseAnd_eq, h1, Out.bind]
    rw [chain_go (by simp [herr]) hr1 (by intro hc; rw [hc] at hpb; simp at hpb) h2 (by simp [herr])]
    simp only [adv_adv]
    congr 3
    simp only [List.length_append, List.length_cons]
    omega
  | @or1 ts n hd ih =>
    intro t rest herr hr ho f hf
    have hp := D_len_pos hd
    obtain ⟨f', rfl⟩ : ∃ g, f = g + 1 := ⟨f - 1, by simp [needG] at hf; omega⟩
    have h1 := ih t rest herr hr ⟨ho.1, ho.2.1, fun _ => ho.2.2.1 (by simp), by simp⟩ f' (by simp [needG] at hf ⊢; omega)
    simp only [parseAtG] at h1
    simp only [parseAtG, parseExpression_eq, h1, Out.bind]
    have hrr : restT (adv t ts.length) = rest := by rw [restT_adv, hr]; simp
    exact chain_stop (by simp [herr]) (by rw [hrr]; exact ho.2.2.2 rfl)
  | @orC a b l r ha hb iha ihb =>
    intro t rest herr hr ho f hf
    have hpa := D_len_pos ha
    have hpb := D_len_pos hb
    obtain ⟨f', rfl⟩ : ∃ g, f = g + 1 := ⟨f - 1, by simp [needG] at hf; omega⟩
    have hf' : 4 * (a.length + (b.length + 1)) ≤ f' + 1 := by simpa [needG] using hf
    have hr' : restT t = a ++ (.op .or_ :: b ++ rest) := by rw [hr]; simp
    have h1 := iha t (.op .or_ :: b ++ rest) herr hr' (by simp [headOk]) f' (by simp [needG]; omega)
    simp only [parseAtG] at h1
    have hr1 : restT (adv t a.length) = .op .or_ :: b ++ rest := by rw [restT_adv, hr']; simp
    have hr2 : restT (adv (adv t a.length) 1) = b ++ rest := by rw [restT_adv, hr1]; simp
    have h2 := ihb (adv (adv t a.length) 1) rest herr hr2 ho f' (by simp [needG]; omega)
    simp only [parseAtG] at h2
    simp only [parseAtG, parseExpression_eq, h1, Out.bind]
    rw [chain_go (by simp [herr]) hr1 (by intro hc; rw [hc] at hpb; simp at hpb) h2 (by simp [herr])]
    simp only [adv_adv]
    congr 3
    simp only [List.length_append, List.length_cons]
    omega

/-! ### the whole parser -/

theorem parseTokens_G_iff (ts : List Tok) (n : Node) : G.parseTokens ts = .ok (some n) ↔ D .expr ts n := by
  constructor
  · intro h
    unfold G.parseTokens at h
    split at h
    · simp at h
    · obtain ⟨⟨r, t'⟩, hp⟩ := (parse_mutual_ok (4 * ts.length + 4)).2.2.2 ⟨ts, 0, false⟩
      rw [hp] at h
      simp only [Out.bind] at h
      by_cases he : t'.err = true
      · simp [he] at h
      · have he' : t'.err = false := by simpa using he
        simp only [he', Bool.false_eq_true, ↓reduceIte] at h
        cases r with
        | none => simp at h
        | some node =>
          simp only at h
          by_cases hm : hasMore t' = true
          · simp only [hm, ↓reduceIte, parseOperator_eq, Out.bind] at h
            split at h
            · simp at h
            · obtain ⟨x, hx⟩ := parseLicense_ok t'
              rw [hx] at h
              simp at h
          · simp only [hm, Bool.false_eq_true, ↓reduceIte, Out.ok.injEq, Option.some.injEq] at h
            subst h
            obtain ⟨pre, hpre, _, hd⟩ := (sound_all (4 * ts.length + 4)).2.2 ⟨ts, 0, false⟩ node t' rfl hp he'
            have hnil : restT t' = [] := by
              rw [hasMore_eq] at hm
              cases hr : restT t' with
              | nil => rfl
              | cons a r => rw [hr] at hm; simp at hm
            rw [hnil] at hpre
            have : restT ⟨ts, 0, false⟩ = ts := rfl
            rw [this] at hpre
            simp only [List.append_nil] at hpre
            rw [hpre]; exact hd
  · intro h
    have hp := D_len_pos h
    have hc := complete_G h ⟨ts, 0, false⟩ [] rfl (by simp [restT]) (by simp [headOk]) (4 * ts.length + 4) (by simp [needG])
    simp only [parseAtG] at hc
    unfold G.parseTokens
    have hne : ¬ ts.length = 0 := by omega
    simp only [hne, ↓reduceIte, hc, Out.bind, adv_err, Bool.false_eq_true]
    have hm : hasMore (adv ⟨ts, 0, false⟩ ts.length) = false := by
      rw [hasMore_eq, restT_adv]
      simp [restT]
    simp only [hm, Bool.false_eq_true, ↓reduceIte]

/-- **refinement**: the Go-shaped parser computes exactly what the list-based parser of the main model computes -/
theorem parseTokens_G_eq (ts : List Tok) : G.parseTokens ts = .ok (Spdx.parseTokens ts) := by
  obtain ⟨r, hr⟩ := parseTokens_ok ts
  rw [hr]
  congr 1
  cases r with
  | none =>
    cases hm : Spdx.parseTokens ts with
    | none => rfl
    | some n =>
      have hd := (Spdx.parseTokens_iff ts n).mp hm
      have := (parseTokens_G_iff ts n).mpr hd
      rw [hr] at this
      cases this
  | some n =>
    have hd := (parseTokens_G_iff ts n).mp hr
    exact ((Spdx.parseTokens_iff ts n).mpr hd).symm

end Spdx.G
