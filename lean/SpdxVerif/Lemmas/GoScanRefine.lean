/-
Lemmas/GoScanRefine — the Go-shaped scanner (private buffer, integer cursor, buffer rewrite, look-behind) computes exactly
what the suffix-based scanner of the main model computes: `scanG s = .ok (toks s)`.

The simulation relates a Go state `e` to the model's remaining input `rem e = e.expr.drop e.idx`; what lies before the
cursor matters only through the byte directly before it (the `+` look-behind) — `PrevNotSp`.  One step of the model is
one iteration of the Go loop, except for the `-or-later` rewrite, where the Go code emits the licence token, rebuilds its
buffer with a `+` in place of the suffix and reads that `+` as an operator in the next iteration.
-/
import SpdxVerif.Lemmas.GoScan
import SpdxVerif.Lemmas.ScanAppend
import SpdxVerif.Lemmas.ParseString
namespace Spdx.G

/-- what remains to be read -/
def rem (e : ES) : Bytes := e.expr.drop e.idx

theorem drop_takeWhile_length (p : Nat → Bool) (l : Bytes) : l.drop (l.takeWhile p).length = l.dropWhile p := by
  induction l with
  | nil => rfl
  | cons x xs ih =>
    simp only [List.takeWhile_cons, List.dropWhile_cons]
    split
    · simpa using ih
    · rfl

theorem rem_adv (e : ES) (k : Nat) : (⟨e.expr, e.idx + k, e.err⟩ : ES).expr.drop (e.idx + k) = (rem e).drop k := by
  simp [rem, List.drop_drop, Nat.add_comm]

theorem Inv_adv (e : ES) (k : Nat) (h : Inv e) (hk : k ≤ (rem e).length) : Inv ⟨e.expr, e.idx + k, e.err⟩ := by
  unfold Inv rem at *
  simp only [List.length_drop] at hk
  simp only
  omega

theorem es_eta (e : ES) : (⟨e.expr, e.idx, e.err⟩ : ES) = e := by cases e; rfl

theorem readRegex_eq (cls : Nat → Bool) (e : ES) (h : Inv e) :
    readRegex cls e = .ok ((rem e).takeWhile cls, ⟨e.expr, e.idx + ((rem e).takeWhile cls).length, e.err⟩) := by
  unfold readRegex
  rw [sl_from e.expr e.idx h]
  simp only [bind_ok]
  have hm : ((e.expr.drop e.idx).takeWhile cls).length ≤ (e.expr.drop e.idx).length :=
    (List.takeWhile_sublist (p := cls) (l := e.expr.drop e.idx)).length_le
  split
  · have := sl_ok (e.expr.drop e.idx) 0 ((e.expr.drop e.idx).takeWhile cls).length (Nat.zero_le _) hm
    simp only [Int.natCast_zero] at this
    rw [show sl (List.drop e.idx e.expr) 0 ↑(List.takeWhile cls (List.drop e.idx e.expr)).length = _ from this]
    simp only [bind_ok, List.drop_zero, Nat.sub_zero, take_takeWhile_length, rem]
  · rename_i hz
    have hz' : ((e.expr.drop e.idx).takeWhile cls).length = 0 := by omega
    have hnil : (e.expr.drop e.idx).takeWhile cls = [] := List.length_eq_zero_iff.mp hz'
    simp only [rem, hnil, List.length_nil, Nat.add_zero, es_eta]

theorem read_eq (next : Bytes) (e : ES) (h : Inv e) :
    read next e = .ok (if next.isPrefixOf (rem e) then (next, ⟨e.expr, e.idx + next.length, e.err⟩) else ([], e)) := by
  unfold read
  rw [sl_from e.expr e.idx h]
  simp only [bind_ok]
  have hr : e.expr.drop e.idx = rem e := rfl
  rw [hr]
  by_cases hp : next.isPrefixOf (rem e) = true
  · rw [if_pos hp, if_pos hp]
  · rw [if_neg hp, if_neg hp]

theorem readOps_eq (tbl : List (Bytes × Op)) (hne : ∀ p ∈ tbl, p.1.length > 0) (e : ES) (h : Inv e) :
    readOps tbl e = .ok (match tbl.find? (fun p => p.1.isPrefixOf (rem e)) with
      | some p => (some p, ⟨e.expr, e.idx + p.1.length, e.err⟩)
      | none => (none, e)) := by
  induction tbl with
  | nil => rfl
  | cons po rest ih =>
    obtain ⟨p, o⟩ := po
    simp only [readOps, read_eq p e h, bind_ok, List.find?_cons]
    by_cases hp : p.isPrefixOf (rem e) = true
    · have hl : p.length > 0 := hne (p, o) (by simp)
      simp only [hp, ↓reduceIte, hl]
    · have hp' : p.isPrefixOf (rem e) = false := by
        cases hb : p.isPrefixOf (rem e) with
        | true => exact absurd hb hp
        | false => rfl
      simp only [hp', Bool.false_eq_true, ↓reduceIte, List.length_nil, Nat.lt_irrefl]
      exact ih (fun q hq => hne q (List.mem_cons_of_mem _ hq))

theorem readID_eq (e : ES) (h : Inv e) :
    readID e = .ok (if (rem e).takeWhile isIdChar = [] then ([], ⟨e.expr, e.idx, true⟩)
      else ((rem e).takeWhile isIdChar, ⟨e.expr, e.idx + ((rem e).takeWhile isIdChar).length, e.err⟩)) := by
  simp only [readID, readRegex_eq isIdChar e h, bind_ok]
  by_cases hn : (rem e).takeWhile isIdChar = []
  · simp only [hn, List.length_nil, ↓reduceIte, Nat.add_zero]
  · have : ((rem e).takeWhile isIdChar).length ≠ 0 := fun hc => hn (List.length_eq_zero_iff.mp hc)
    simp only [this, ↓reduceIte, hn]

theorem sl_one (s : Bytes) (i : Nat) (h : i < s.length) : sl s ((i + 1 : Nat) - 1 : Int) ((i + 1 : Nat) : Int) = .ok [s[i]] := by
  have := sl_ok s i (i + 1) (by omega) (by omega)
  have c : (((i + 1 : Nat) : Int) - 1) = (i : Int) := by omega
  rw [c, this]
  have e1 : i + 1 - i = 1 := by omega
  have hd : s.drop i = s[i] :: s.drop (i + 1) := List.drop_eq_getElem_cons h
  rw [e1, hd]
  rfl

/-- what the `+` look-behind can see: right after skipped spaces the byte before the cursor is a space; otherwise it is
    not (or there is none) -/
def LookBehind (e : ES) (afterSp : Bool) : Prop :=
  if afterSp = true then (1 ≤ e.idx ∧ e.expr[e.idx - 1]? = some 32)
  else (e.idx = 0 ∨ ∃ c, e.expr[e.idx - 1]? = some c ∧ c ≠ 32)

theorem opTable_facts : opTable.all (fun p => decide (p.1.length > 0) && ((p.1 == bPlus) == decide (p.2 = .plus)) &&
    (!(p.1 == bPlus) || p.1.length == 1)) = true := by decide

theorem readOperator_eq (e : ES) (h : Inv e) (afterSp : Bool) (hb : LookBehind e afterSp) :
    readOperator e = .ok (match opTable.find? (fun p => p.1.isPrefixOf (rem e)) with
      | none => (none, e)
      | some p => if p.2 = .plus ∧ afterSp = true then (none, ⟨e.expr, e.idx, true⟩)
                  else (some p.2, ⟨e.expr, e.idx + p.1.length, e.err⟩)) := by
  unfold readOperator
  rw [readOps_eq opTable (fun p hp => by
    have := List.all_eq_true.mp opTable_facts p hp
    simp only [Bool.and_eq_true, decide_eq_true_eq] at this
    exact this.1.1) e h]
  simp only [bind_ok]
  cases hf : opTable.find? (fun p => p.1.isPrefixOf (rem e)) with
  | none => rfl
  | some po =>
    obtain ⟨p, o⟩ := po
    have hmem : (p, o) ∈ opTable := List.mem_of_find?_eq_some hf
    have hpre : p.isPrefixOf (rem e) = true := by simpa using List.find?_some hf
    have facts := List.all_eq_true.mp opTable_facts (p, o) hmem
    simp only [Bool.and_eq_true, decide_eq_true_eq, Bool.or_eq_true, Bool.not_eq_true', beq_iff_eq] at facts
    obtain ⟨⟨hlen, hpo⟩, hone⟩ := facts
    have hrem : p.length ≤ (rem e).length := (List.isPrefixOf_iff_prefix.mp hpre).length_le
    have hInv : e.idx ≤ e.expr.length := h
    have hremlen : (rem e).length = e.expr.length - e.idx := by simp [rem]
    simp only
    by_cases hp : (p == bPlus) = true
    · have ho : o = .plus := by
        rw [hp] at hpo
        simpa using hpo.symm
      have hl1 : p.length = 1 := by
        rcases hone with h' | h'
        · rw [hp] at h'; cases h'
        · exact h'
      subst ho
      simp only [hl1]
      cases afterSp with
      | true =>
        simp only [LookBehind, ↓reduceIte] at hb
        obtain ⟨h1, h32⟩ := hb
        have hgt : decide (e.idx + 1 > 1) = true := by simp; omega
        simp only [hp, hgt, Bool.and_self, ↓reduceIte, and_self]
        have hlt : e.idx - 1 < e.expr.length := by omega
        have := sl_one e.expr (e.idx - 1) hlt
        have c1 : ((e.idx - 1 + 1 : Nat) : Int) - 1 = ((e.idx + 1 : Nat) : Int) - 2 := by omega
        have c2 : ((e.idx - 1 + 1 : Nat) : Int) = ((e.idx + 1 : Nat) : Int) - 1 := by omega
        rw [c1, c2] at this
        rw [this]
        have hv : e.expr[e.idx - 1] = 32 := by
          rw [List.getElem?_eq_getElem hlt] at h32
          exact Option.some.inj h32
        simp only [bind_ok, hv, beq_self_eq_true, ↓reduceIte, Nat.add_sub_cancel]
      | false =>
        simp only [LookBehind, Bool.false_eq_true, ↓reduceIte] at hb
        simp only [hp, Bool.true_and, and_false, ↓reduceIte]
        by_cases h0 : e.idx = 0
        · have : decide (e.idx + 1 > 1) = false := by simp [h0]
          simp only [this, Bool.false_eq_true, ↓reduceIte, and_false]
        · have hgt : decide (e.idx + 1 > 1) = true := by simp; omega
          simp only [hgt, ↓reduceIte]
          rcases hb with hb | ⟨c, hc, hne⟩
          · exact absurd hb h0
          · have hlt : e.idx - 1 < e.expr.length := by omega
            have := sl_one e.expr (e.idx - 1) hlt
            have c1 : ((e.idx - 1 + 1 : Nat) : Int) - 1 = ((e.idx + 1 : Nat) : Int) - 2 := by omega
            have c2 : ((e.idx - 1 + 1 : Nat) : Int) = ((e.idx + 1 : Nat) : Int) - 1 := by omega
            rw [c1, c2] at this
            rw [this]
            have hv : e.expr[e.idx - 1] = c := by
              rw [List.getElem?_eq_getElem hlt] at hc
              exact Option.some.inj hc
            have hne' : ([e.expr[e.idx - 1]] == [32]) = false := by
              rw [hv]; simp [hne]
            simp only [bind_ok, hne', Bool.false_eq_true, ↓reduceIte, and_false]
    · have hp' : (p == bPlus) = false := by
        cases hb' : (p == bPlus) with
        | true => exact absurd hb' hp
        | false => rfl
      have ho : o ≠ .plus := by
        rw [hp'] at hpo
        intro hc
        rw [hc] at hpo
        simp at hpo
      simp only [hp', Bool.false_and, Bool.false_eq_true, ↓reduceIte, ho, false_and]

theorem readRef_eq (pre : Bytes) (mk : Bytes → Tok) (hpre : pre.length > 0) (e : ES) (h : Inv e) (herr : e.err = false) :
    readRef pre mk e = .ok (if pre.isPrefixOf (rem e) then
        (if ((rem e).drop pre.length).takeWhile isIdChar = [] then (none, ⟨e.expr, e.idx + pre.length, true⟩)
         else (some (mk (((rem e).drop pre.length).takeWhile isIdChar)),
               ⟨e.expr, e.idx + pre.length + (((rem e).drop pre.length).takeWhile isIdChar).length, false⟩))
      else (none, e)) := by
  unfold readRef
  rw [read_eq pre e h]
  by_cases hp : pre.isPrefixOf (rem e) = true
  · simp only [hp, ↓reduceIte, bind_ok]
    have hl : pre.length ≠ 0 := by omega
    simp only [hl, ↓reduceIte]
    have hle : pre.length ≤ (rem e).length := (List.isPrefixOf_iff_prefix.mp hp).length_le
    have hI := Inv_adv e pre.length h hle
    rw [readID_eq _ hI]
    have hr : rem ⟨e.expr, e.idx + pre.length, e.err⟩ = (rem e).drop pre.length := rem_adv e pre.length
    rw [hr]
    simp only [bind_ok]
    by_cases hid : ((rem e).drop pre.length).takeWhile isIdChar = []
    · simp only [hid, ↓reduceIte]
    · simp only [hid, ↓reduceIte, herr, Bool.false_eq_true]
  · simp only [hp, Bool.false_eq_true, ↓reduceIte, bind_ok, List.length_nil]

/-! ### normalizeLicense -/

theorem lookup_nil (tbl : List Bytes) (h : tbl.all (fun l => !l.isEmpty) = true) : lookup tbl [] = none := by
  unfold lookup
  rw [List.find?_eq_none]
  intro l hl
  have := List.all_eq_true.mp h l hl
  cases l with
  | nil => simp at this
  | cons a as => simp [foldEq]

theorem tables_nonempty : (Tables.active.all (fun l => !l.isEmpty) && Tables.exceptions.all (fun l => !l.isEmpty)) = true := by
  decide +kernel

theorem licenseLookup_nil : licenseLookup [] = none := by
  have h := tables_nonempty
  simp only [Bool.and_eq_true] at h
  unfold licenseLookup
  rw [lookup_nil _ h.1, lookup_nil _ h.2]

theorem sl_strip5 (w : Bytes) (f : Bytes → Option Tok) :
    (if sufOnly.isSuffixOf w = true then (sl w 0 ((w.length : Int) - 5)).bind fun adj => Out.ok (f adj) else Out.ok none)
      = .ok ((stripSuffix? w sufOnly).bind f) := by
  unfold stripSuffix?
  split
  · rename_i hs
    have hlen := suffix_len hs
    have h5 : sufOnly.length = 5 := rfl
    have := sl_ok w 0 (w.length - 5) (Nat.zero_le _) (by omega)
    have c : ((w.length - 5 : Nat) : Int) = (w.length : Int) - 5 := by omega
    rw [c] at this
    simp only [Int.natCast_zero] at this
    rw [show sl w 0 ((w.length : Int) - 5) = _ from this]
    simp [bind_ok, h5]
  · rfl

theorem sl_strip9 (w : Bytes) :
    sufOrLater.isSuffixOf w = true → sl w 0 ((w.length : Int) - 9) = .ok (w.take (w.length - 9)) := by
  intro hs
  have hlen := suffix_len hs
  have h9 : sufOrLater.length = 9 := rfl
  have := sl_ok w 0 (w.length - 9) (Nat.zero_le _) (by omega)
  have c : ((w.length - 9 : Nat) : Int) = (w.length : Int) - 9 := by omega
  rw [c] at this
  simp only [Int.natCast_zero] at this
  rw [show sl w 0 ((w.length : Int) - 9) = _ from this]
  simp

theorem peek_plus (w : Bytes) (e : ES) (h : Inv e) :
    (if esMore e = true then
        (sl e.expr e.idx ((e.idx : Int) + 1)).bind fun c =>
          if (c == bPlus) = true then (sl w 0 (w.length : Int)).bind fun base => Out.ok (licenseLookup (base ++ sufOrLater))
          else Out.ok none
      else Out.ok none)
    = .ok (if (rem e).head? = some 43 then licenseLookup (w ++ sufOrLater) else none) := by
  have hInv : e.idx ≤ e.expr.length := h
  by_cases hm : esMore e = true
  · rw [if_pos hm]
    simp only [esMore, decide_eq_true_eq] at hm
    have := sl_ok e.expr e.idx (e.idx + 1) (by omega) (by omega)
    have c : ((e.idx + 1 : Nat) : Int) = (e.idx : Int) + 1 := by omega
    rw [c] at this
    rw [this]
    simp only [bind_ok]
    have hd : e.expr.drop e.idx = e.expr[e.idx] :: e.expr.drop (e.idx + 1) := List.drop_eq_getElem_cons hm
    have e1 : e.idx + 1 - e.idx = 1 := by omega
    have hrem : rem e = e.expr[e.idx] :: e.expr.drop (e.idx + 1) := hd
    rw [e1, hd, hrem]
    have hw := sl_ok w 0 w.length (Nat.zero_le _) (Nat.le_refl _)
    simp only [Int.natCast_zero] at hw
    rw [show sl w 0 (w.length : Int) = _ from hw]
    simp only [List.take_succ_cons, List.take_zero, List.head?_cons, Option.some.injEq, bind_ok, List.drop_zero, Nat.sub_zero,
      List.take_length]
    by_cases h43 : e.expr[e.idx] = 43
    · simp [h43, bPlus]
    · have : ([e.expr[e.idx]] == bPlus) = false := by simp [bPlus, h43]
      simp [this, h43]
  · rw [if_neg hm]
    have hm' : ¬ e.idx < e.expr.length := by simpa [esMore] using hm
    have : rem e = [] := List.drop_eq_nil_of_le (by omega)
    rw [this]; rfl

/-- the states between iterations: cursor inside the buffer, no error, and the byte before the cursor is not a space -/
def Good (e : ES) : Prop := Inv e ∧ e.err = false ∧ LookBehind e false

theorem isIdChar_ne_sp {c : Nat} (h : isIdChar c = true) : c ≠ 32 := by
  intro hc; subst hc; simp [isIdChar] at h

theorem take_idx_length (e : ES) (h : Inv e) : (e.expr.take e.idx).length = e.idx := by
  have : e.idx ≤ e.expr.length := h
  simp only [List.length_take]; omega

/-- after a word of id bytes has been read, the byte before the cursor is an id byte -/
theorem getElem?_before (e : ES) (h : Inv e) (pre w : Bytes) (hw : e.expr.take e.idx = pre ++ w) (k : Nat) (hk : k < w.length) :
    e.expr[pre.length + k]? = w[k]? := by
  have hlen := take_idx_length e h
  rw [hw] at hlen
  simp only [List.length_append] at hlen
  have h1 : (e.expr.take e.idx)[pre.length + k]? = e.expr[pre.length + k]? := by
    rw [List.getElem?_take]; simp; omega
  rw [← h1, hw, List.getElem?_append_right (by omega)]
  simp

theorem lookBehind_of_word (e : ES) (h : Inv e) (pre w : Bytes) (hw : e.expr.take e.idx = pre ++ w) (hne : w ≠ [])
    (hid : ∀ c ∈ w, isIdChar c = true) : LookBehind e false := by
  simp only [LookBehind, Bool.false_eq_true, ↓reduceIte]
  right
  have hlen := take_idx_length e h
  rw [hw] at hlen
  simp only [List.length_append] at hlen
  have hpos : 0 < w.length := List.length_pos_iff.mpr hne
  have := getElem?_before e h pre w hw (w.length - 1) (by omega)
  have hi : e.idx - 1 = pre.length + (w.length - 1) := by omega
  rw [hi, this]
  have hlt : w.length - 1 < w.length := by omega
  refine ⟨w[w.length - 1], List.getElem?_eq_getElem hlt, isIdChar_ne_sp (hid _ (List.getElem_mem hlt))⟩

theorem normalizeLicense_sim (w : Bytes) (e : ES) (h : Inv e) (herr : e.err = false) (pre : Bytes)
    (hw : e.expr.take e.idx = pre ++ w) (hne : w ≠ []) (hid : ∀ c ∈ w, isIdChar c = true) :
    (normalize w (rem e) = none ∧ normalizeLicense w e = .ok (none, e)) ∨
    (∃ toks r e', normalize w (rem e) = some (toks, r) ∧ normalizeLicense w e = .ok (some toks, e') ∧ Good e' ∧ rem e' = r) ∨
    (∃ t r e', normalize w (rem e) = some ([t, .op .plus], r) ∧ normalizeLicense w e = .ok (some [t], e') ∧ Good e' ∧
      rem e' = 43 :: r) := by
  have hgood : Good e := ⟨h, herr, lookBehind_of_word e h pre w hw hne hid⟩
  have hInv : e.idx ≤ e.expr.length := h
  unfold normalizeLicense normalize
  cases h1 : licenseLookup w with
  | some t => exact .inr (.inl ⟨[t], rem e, e, rfl, rfl, hgood, rfl⟩)
  | none =>
    simp only [bind_ok]
    rw [sl_strip5 w licenseLookup]
    simp only [bind_ok]
    cases h2 : (stripSuffix? w sufOnly).bind licenseLookup with
    | some t => exact .inr (.inl ⟨[t], rem e, e, rfl, rfl, hgood, rfl⟩)
    | none =>
      simp only [bind_ok]
      rw [peek_plus w e h]
      simp only [bind_ok]
      cases h3 : (if (rem e).head? = some 43 then licenseLookup (w ++ sufOrLater) else none) with
      | some t =>
        have h43 : (rem e).head? = some 43 := by
          by_cases hc : (rem e).head? = some 43
          · exact hc
          · rw [if_neg hc] at h3; cases h3
        have hlt : e.idx < e.expr.length := by
          cases hr : rem e with
          | nil => rw [hr] at h43; cases h43
          | cons c cs =>
            have : (rem e).length = e.expr.length - e.idx := by simp [rem]
            rw [hr] at this; simp at this; omega
        have hd : e.expr.drop e.idx = e.expr[e.idx] :: e.expr.drop (e.idx + 1) := List.drop_eq_getElem_cons hlt
        have hv : e.expr[e.idx] = 43 := by
          have : rem e = e.expr[e.idx] :: e.expr.drop (e.idx + 1) := hd
          rw [this] at h43
          simp only [List.head?_cons, Option.some.injEq] at h43
          exact h43
        refine .inr (.inl ⟨[t], (rem e).tail, ⟨e.expr, e.idx + 1, e.err⟩, rfl, rfl, ⟨?_, herr, ?_⟩, ?_⟩)
        · show e.idx + 1 ≤ e.expr.length; omega
        · simp only [LookBehind, Bool.false_eq_true, ↓reduceIte, Nat.add_sub_cancel]
          exact .inr ⟨43, by rw [List.getElem?_eq_getElem hlt, hv], by decide⟩
        · show e.expr.drop (e.idx + 1) = (rem e).tail
          have : rem e = e.expr[e.idx] :: e.expr.drop (e.idx + 1) := hd
          rw [this]; rfl
      | none =>
        simp only [bind_ok]
        by_cases hs : sufOrLater.isSuffixOf w = true
        · rw [if_pos hs, sl_strip9 w hs]
          simp only [bind_ok]
          have hstrip : stripSuffix? w sufOrLater = some (w.take (w.length - 9)) := by
            unfold stripSuffix?; rw [if_pos hs]; rfl
          rw [hstrip]
          simp only [Option.bind_some]
          cases h4 : licenseLookup (w.take (w.length - 9)) with
          | none =>
            simp only []
            cases h5 : lookup Tables.deprecated w with
            | none => exact .inl ⟨rfl, rfl⟩
            | some c => exact .inr (.inl ⟨[.lic c], rem e, e, rfl, rfl, hgood, rfl⟩)
          | some t =>
            simp only []
            have hwl := suffix_len hs
            have h9 : sufOrLater.length = 9 := rfl
            have hlen := take_idx_length e h
            rw [hw] at hlen
            simp only [List.length_append] at hlen
            have a2 := sl_ok e.expr 0 (e.idx - 9) (Nat.zero_le _) (by omega)
            have c2 : ((e.idx - 9 : Nat) : Int) = (e.idx : Int) - 9 := by omega
            rw [c2] at a2
            simp only [Int.natCast_zero] at a2
            rw [show sl e.expr 0 ((e.idx : Int) - 9) = _ from a2, sl_from e.expr e.idx h]
            simp only [bind_ok, List.drop_zero, Nat.sub_zero]
            have hadj : w.take (w.length - 9) ≠ [] := by
              intro hc; rw [hc, licenseLookup_nil] at h4; cases h4
            have hadjlen : 0 < w.length - 9 := by
              have : (w.take (w.length - 9)).length ≠ 0 := fun hc => hadj (List.length_eq_zero_iff.mp hc)
              simp only [List.length_take] at this; omega
            have hhead : (e.expr.take (e.idx - 9)).length = e.idx - 9 := by simp only [List.length_take]; omega
            have htail : (if bPlus.isPrefixOf (e.expr.drop e.idx) = true then (e.expr.drop e.idx).drop 1 else e.expr.drop e.idx)
                = (if (rem e).head? = some 43 then (rem e).tail else rem e) := by
              show _ = (if (e.expr.drop e.idx).head? = some 43 then (e.expr.drop e.idx).tail else e.expr.drop e.idx)
              cases e.expr.drop e.idx with
              | nil => simp [bPlus]
              | cons c cs =>
                by_cases hc : c = 43
                · subst hc; simp [bPlus]
                · have hc' : ¬ 43 = c := fun h' => hc h'.symm
                  simp [bPlus, hc, hc']
            rw [htail]
            refine .inr (.inr ⟨t, (if (rem e).head? = some 43 then (rem e).tail else rem e),
              ⟨e.expr.take (e.idx - 9) ++ bPlus ++ (if (rem e).head? = some 43 then (rem e).tail else rem e), e.idx - 9, e.err⟩,
              ?_, rfl, ⟨?_, herr, ?_⟩, ?_⟩)
            · by_cases hc : (rem e).head? = some 43
              · simp only [hc, ↓reduceIte]
              · simp only [hc, ↓reduceIte]
            · show e.idx - 9 ≤ (e.expr.take (e.idx - 9) ++ bPlus ++ _).length
              simp only [List.length_append, hhead]; omega
            · simp only [LookBehind, Bool.false_eq_true, ↓reduceIte]
              right
              have hk : w.length - 10 < w.length := by omega
              have hb := getElem?_before e h pre w hw (w.length - 10) hk
              have hi : e.idx - 9 - 1 = pre.length + (w.length - 10) := by omega
              refine ⟨w[w.length - 10], ?_, isIdChar_ne_sp (hid _ (List.getElem_mem hk))⟩
              rw [hi, List.append_assoc, List.getElem?_append_left (by rw [hhead]; omega), List.getElem?_take]
              have : pre.length + (w.length - 10) < e.idx - 9 := by omega
              simp only [this, ↓reduceIte]
              rw [hb, List.getElem?_eq_getElem hk]
            · show (e.expr.take (e.idx - 9) ++ bPlus ++ _).drop (e.idx - 9) = _
              rw [List.append_assoc, List.drop_left' hhead]
              rfl
        · rw [if_neg hs]
          have hstrip : stripSuffix? w sufOrLater = none := by
            unfold stripSuffix?; rw [if_neg hs]
          rw [hstrip]
          simp only [Option.bind_none]
          cases h5 : lookup Tables.deprecated w with
          | none => exact .inl ⟨rfl, rfl⟩
          | some c => exact .inr (.inl ⟨[.lic c], rem e, e, rfl, rfl, hgood, rfl⟩)

/-! ### one token -/

theorem take_adv (e : ES) (p : Bytes) (hp : p.isPrefixOf (rem e) = true) :
    e.expr.take (e.idx + p.length) = e.expr.take e.idx ++ p := by
  rw [List.take_add]
  congr 1
  obtain ⟨t, ht⟩ := List.isPrefixOf_iff_prefix.mp hp
  show (rem e).take p.length = p
  rw [← ht]; simp

theorem lookBehind_of_word' (e : ES) (h : Inv e) (pre w : Bytes) (hw : e.expr.take e.idx = pre ++ w) (hne : w ≠ [])
    (hns : ∀ c ∈ w, c ≠ 32) : LookBehind e false := by
  simp only [LookBehind, Bool.false_eq_true, ↓reduceIte]
  right
  have hlen := take_idx_length e h
  rw [hw] at hlen
  simp only [List.length_append] at hlen
  have hpos : 0 < w.length := List.length_pos_iff.mpr hne
  have := getElem?_before e h pre w hw (w.length - 1) (by omega)
  have hi : e.idx - 1 = pre.length + (w.length - 1) := by omega
  rw [hi, this]
  have hlt : w.length - 1 < w.length := by omega
  exact ⟨w[w.length - 1], List.getElem?_eq_getElem hlt, hns _ (List.getElem_mem hlt)⟩

theorem takeWhile_all (p : Nat → Bool) (l : Bytes) : ∀ c ∈ l.takeWhile p, p c = true := by
  induction l with
  | nil => intro c hc; simp at hc
  | cons x xs ih =>
    intro c hc
    simp only [List.takeWhile_cons] at hc
    split at hc
    · rename_i hx
      rcases List.mem_cons.mp hc with rfl | h'
      · exact hx
      · exact ih c h'
    · simp at hc

theorem takeWhile_prefix (p : Nat → Bool) (l : Bytes) : (l.takeWhile p).isPrefixOf l = true := by
  rw [List.isPrefixOf_iff_prefix]
  exact List.takeWhile_prefix p

/-- `readRef` against the model's reading of a `DocumentRef-` / `LicenseRef-` lexeme -/
theorem readRef_sim (pre : Bytes) (mk : Bytes → Tok) (hpre : pre.length > 0) (e : ES) (h : Inv e) (herr : e.err = false) :
    (pre.isPrefixOf (rem e) = false ∧ readRef pre mk e = .ok (none, e)) ∨
    (pre.isPrefixOf (rem e) = true ∧ ((rem e).drop pre.length).takeWhile isIdChar = [] ∧
      ∃ e', readRef pre mk e = .ok (none, e') ∧ e'.err = true) ∨
    (pre.isPrefixOf (rem e) = true ∧ ((rem e).drop pre.length).takeWhile isIdChar ≠ [] ∧
      ∃ e', readRef pre mk e = .ok (some (mk (((rem e).drop pre.length).takeWhile isIdChar)), e') ∧ Good e' ∧
        rem e' = ((rem e).drop pre.length).dropWhile isIdChar) := by
  have hreq := readRef_eq pre mk hpre e h herr
  by_cases hp : pre.isPrefixOf (rem e) = true
  · simp only [hp, ↓reduceIte] at hreq
    by_cases hid : ((rem e).drop pre.length).takeWhile isIdChar = []
    · simp only [hid, ↓reduceIte] at hreq
      exact .inr (.inl ⟨hp, hid, ⟨e.expr, e.idx + pre.length, true⟩, hreq, rfl⟩)
    · simp only [hid, ↓reduceIte] at hreq
      refine .inr (.inr ⟨hp, hid, _, hreq, ⟨?_, rfl, ?_⟩, ?_⟩)
      · -- Inv
        have hle : pre.length ≤ (rem e).length := (List.isPrefixOf_iff_prefix.mp hp).length_le
        have h1 := Inv_adv e pre.length h hle
        have hr : rem ⟨e.expr, e.idx + pre.length, e.err⟩ = (rem e).drop pre.length := rem_adv e pre.length
        have hle2 : (((rem e).drop pre.length).takeWhile isIdChar).length ≤ (rem ⟨e.expr, e.idx + pre.length, e.err⟩).length := by
          rw [hr]; exact (List.takeWhile_sublist _).length_le
        exact Inv_adv _ _ h1 hle2
      · -- look-behind: the id just read
        have hle : pre.length ≤ (rem e).length := (List.isPrefixOf_iff_prefix.mp hp).length_le
        have h1 := Inv_adv e pre.length h hle
        have hr : rem ⟨e.expr, e.idx + pre.length, e.err⟩ = (rem e).drop pre.length := rem_adv e pre.length
        have hle2 : (((rem e).drop pre.length).takeWhile isIdChar).length ≤ (rem ⟨e.expr, e.idx + pre.length, e.err⟩).length := by
          rw [hr]; exact (List.takeWhile_sublist _).length_le
        have h2 := Inv_adv _ _ h1 hle2
        have ht := take_adv ⟨e.expr, e.idx + pre.length, e.err⟩ (((rem e).drop pre.length).takeWhile isIdChar)
          (by rw [hr]; exact takeWhile_prefix _ _)
        exact lookBehind_of_word' ⟨e.expr, e.idx + pre.length + _, false⟩ h2 _ _ ht hid
          (fun c hc => isIdChar_ne_sp (takeWhile_all _ _ c hc))
      · show e.expr.drop (e.idx + pre.length + _) = _
        have : e.expr.drop (e.idx + pre.length + (((rem e).drop pre.length).takeWhile isIdChar).length)
            = ((rem e).drop pre.length).drop (((rem e).drop pre.length).takeWhile isIdChar).length := by
          simp [rem, List.drop_drop, Nat.add_comm, Nat.add_left_comm]
        rw [this, drop_takeWhile_length]
  · have hp' : pre.isPrefixOf (rem e) = false := by
      cases hb : pre.isPrefixOf (rem e) with
      | true => exact absurd hb hp
      | false => rfl
    simp only [hp', Bool.false_eq_true, ↓reduceIte] at hreq
    exact .inl ⟨hp', hreq⟩

theorem readLicense_sim (e : ES) (h : Inv e) (herr : e.err = false) :
    ((rem e).takeWhile isIdChar = [] ∧ ∃ e', readLicense e = .ok (none, e') ∧ e'.err = true) ∨
    ((rem e).takeWhile isIdChar ≠ [] ∧ normalize ((rem e).takeWhile isIdChar) ((rem e).dropWhile isIdChar) = none ∧
      ∃ e', readLicense e = .ok (none, e') ∧ e'.err = true) ∨
    ((rem e).takeWhile isIdChar ≠ [] ∧ ∃ toks r e',
      normalize ((rem e).takeWhile isIdChar) ((rem e).dropWhile isIdChar) = some (toks, r) ∧
      readLicense e = .ok (some toks, e') ∧ Good e' ∧ rem e' = r) ∨
    ((rem e).takeWhile isIdChar ≠ [] ∧ ∃ t r e',
      normalize ((rem e).takeWhile isIdChar) ((rem e).dropWhile isIdChar) = some ([t, .op .plus], r) ∧
      readLicense e = .ok (some [t], e') ∧ Good e' ∧ rem e' = 43 :: r) := by
  unfold readLicense
  rw [readID_eq e h]
  by_cases hw : (rem e).takeWhile isIdChar = []
  · simp only [hw, ↓reduceIte, bind_ok]
    exact .inl ⟨trivial, _, rfl, rfl⟩
  · simp only [hw, ↓reduceIte, bind_ok, herr, Bool.false_eq_true]
    have hle : ((rem e).takeWhile isIdChar).length ≤ (rem e).length := (List.takeWhile_sublist _).length_le
    have h1 := Inv_adv e _ h hle
    have hr : rem ⟨e.expr, e.idx + ((rem e).takeWhile isIdChar).length, e.err⟩ = (rem e).dropWhile isIdChar := by
      show e.expr.drop (e.idx + _) = _
      have := rem_adv e ((rem e).takeWhile isIdChar).length
      simp only at this
      rw [this, drop_takeWhile_length]
    have ht := take_adv e ((rem e).takeWhile isIdChar) (takeWhile_prefix _ _)
    have hsim := normalizeLicense_sim ((rem e).takeWhile isIdChar) ⟨e.expr, e.idx + ((rem e).takeWhile isIdChar).length, e.err⟩ h1 herr
      (e.expr.take e.idx) ht hw (takeWhile_all _ _)
    rw [hr] at hsim
    simp only [herr] at hsim
    rcases hsim with ⟨hn, hg⟩ | ⟨toks, r, e', hn, hg, hgood, hrem⟩ | ⟨t, r, e', hn, hg, hgood, hrem⟩
    · rw [hg]
      exact .inr (.inl ⟨fun hc => hw hc, hn, _, rfl, rfl⟩)
    · rw [hg]
      exact .inr (.inr (.inl ⟨fun hc => hw hc, toks, r, e', hn, rfl, hgood, hrem⟩))
    · rw [hg]
      exact .inr (.inr (.inr ⟨fun hc => hw hc, t, r, e', hn, rfl, hgood, hrem⟩))

/-- how the Go code's reading of one token relates to the model's `lexeme` -/
def TokSim (st : Step) (r : Option (List Tok)) (e' : ES) : Prop :=
  match st with
  | .done => False
  | .err _ => e'.err = true ∨ r = none
  | .tok ts rest => (r = some ts ∧ Good e' ∧ rem e' = rest) ∨
      (∃ t, ts = [t, .op .plus] ∧ r = some [t] ∧ Good e' ∧ rem e' = 43 :: rest)

theorem opTable_nosp : opTable.all (fun p => p.1.all (fun c => c != 32)) = true := by decide

theorem parseToken_sim (e : ES) (h : Inv e) (herr : e.err = false) (afterSp : Bool) (hb : LookBehind e afterSp) (off1 : Nat) :
    ∃ r e', parseToken e = .ok (r, e') ∧ TokSim (lexeme (rem e) off1 afterSp) r e' := by
  unfold parseToken lexeme readOp
  rw [readOperator_eq e h afterSp hb]
  simp only [bind_ok]
  cases hf : opTable.find? (fun p => p.1.isPrefixOf (rem e)) with
  | some po =>
    obtain ⟨p, o⟩ := po
    simp only [Option.map_some]
    by_cases hc : o = .plus ∧ afterSp = true
    · simp only [hc, and_self, ↓reduceIte]
      exact ⟨_, _, rfl, .inl rfl⟩
    · simp only [hc, ↓reduceIte, herr, Bool.false_eq_true]
      have hE : (⟨e.expr, e.idx + p.length, false⟩ : ES) = ⟨e.expr, e.idx + p.length, e.err⟩ := by rw [herr]
      rw [hE]
      refine ⟨_, _, rfl, .inl ⟨rfl, ⟨?_, herr, ?_⟩, ?_⟩⟩
      · have hpre : p.isPrefixOf (rem e) = true := by simpa using List.find?_some hf
        exact Inv_adv e p.length h (List.isPrefixOf_iff_prefix.mp hpre).length_le
      · have hpre : p.isPrefixOf (rem e) = true := by simpa using List.find?_some hf
        have hmem : (p, o) ∈ opTable := List.mem_of_find?_eq_some hf
        have f1 := List.all_eq_true.mp opTable_facts (p, o) hmem
        have f2 := List.all_eq_true.mp opTable_nosp (p, o) hmem
        simp only [Bool.and_eq_true, decide_eq_true_eq] at f1
        have hne : p ≠ [] := fun hc' => by rw [hc'] at f1; simp at f1
        have hI := Inv_adv e p.length h (List.isPrefixOf_iff_prefix.mp hpre).length_le
        exact lookBehind_of_word' ⟨e.expr, e.idx + p.length, e.err⟩ hI _ p (take_adv e p hpre) hne
          (fun c hc' => by
            have := List.all_eq_true.mp f2 c hc'
            simpa using this)
      · exact rem_adv e p.length
  | none =>
    simp only [Option.map_none, herr, Bool.false_eq_true, ↓reduceIte]
    rcases readRef_sim docRefPrefix .docRef (by decide) e h herr with ⟨hp, hg⟩ | ⟨hp, hid, e', hg, he'⟩ | ⟨hp, hid, e', hg, hgood, hrem⟩
    · rw [hg]
      simp only [bind_ok, herr, Bool.false_eq_true, ↓reduceIte, hp]
      rcases readRef_sim licRefPrefix .licRef (by decide) e h herr with ⟨hp2, hg2⟩ | ⟨hp2, hid2, e2, hg2, he2⟩ | ⟨hp2, hid2, e2, hg2, hgood2, hrem2⟩
      · rw [hg2]
        simp only [bind_ok, herr, Bool.false_eq_true, ↓reduceIte, hp2]
        rcases readLicense_sim e h herr with ⟨hw, e3, hg3, he3⟩ | ⟨hw, hn, e3, hg3, he3⟩ | ⟨hw, toks, r, e3, hn, hg3, hgood3, hrem3⟩ |
            ⟨hw, t, r, e3, hn, hg3, hgood3, hrem3⟩
        · rw [hg3]
          simp only [bind_ok, he3, ↓reduceIte, hw]
          exact ⟨_, _, rfl, .inl he3⟩
        · rw [hg3]
          simp only [bind_ok, he3, ↓reduceIte, hw, hn]
          exact ⟨_, _, rfl, .inl he3⟩
        · rw [hg3]
          simp only [bind_ok, hgood3.2.1, Bool.false_eq_true, ↓reduceIte, hw, hn]
          exact ⟨_, _, rfl, .inl ⟨rfl, hgood3, hrem3⟩⟩
        · rw [hg3]
          simp only [bind_ok, hgood3.2.1, Bool.false_eq_true, ↓reduceIte, hw, hn]
          exact ⟨_, _, rfl, .inr ⟨t, rfl, rfl, hgood3, hrem3⟩⟩
      · rw [hg2]
        simp only [bind_ok, he2, ↓reduceIte, hp2, hid2]
        exact ⟨_, _, rfl, .inl he2⟩
      · rw [hg2]
        simp only [bind_ok, hgood2.2.1, Bool.false_eq_true, ↓reduceIte, hp2, hid2]
        exact ⟨_, _, rfl, .inl ⟨rfl, hgood2, hrem2⟩⟩
    · rw [hg]
      simp only [bind_ok, he', ↓reduceIte, hp, hid]
      exact ⟨_, _, rfl, .inl he'⟩
    · rw [hg]
      simp only [bind_ok, hgood.2.1, Bool.false_eq_true, ↓reduceIte, hp, hid]
      exact ⟨_, _, rfl, .inl ⟨rfl, hgood, hrem⟩⟩

/-! ### the loop -/

theorem skipWhitespace_eq (e : ES) (h : Inv e) :
    skipWhitespace e = .ok ⟨e.expr, e.idx + ((rem e).takeWhile isSp).length, e.err⟩ := by
  simp only [skipWhitespace, readRegex_eq isSp e h, bind_ok]

theorem lookBehind_after_sp (e : ES) (hg : Good e) :
    LookBehind ⟨e.expr, e.idx + ((rem e).takeWhile isSp).length, e.err⟩ (decide ((rem e).takeWhile isSp ≠ [])) := by
  obtain ⟨h, herr, hb⟩ := hg
  by_cases hs : (rem e).takeWhile isSp = []
  · simp only [hs, List.length_nil, Nat.add_zero, ne_eq, not_true_eq_false, decide_false]
    exact hb
  · have hd : decide ((rem e).takeWhile isSp ≠ []) = true := by simpa using hs
    rw [hd]
    simp only [LookBehind, ↓reduceIte]
    have hle : ((rem e).takeWhile isSp).length ≤ (rem e).length := (List.takeWhile_sublist _).length_le
    have hI := Inv_adv e _ h hle
    have ht := take_adv e ((rem e).takeWhile isSp) (takeWhile_prefix _ _)
    have hpos : 0 < ((rem e).takeWhile isSp).length := List.length_pos_iff.mpr hs
    have hlenpre : (e.expr.take e.idx).length = e.idx := take_idx_length e h
    have hk : ((rem e).takeWhile isSp).length - 1 < ((rem e).takeWhile isSp).length := by omega
    have hb' := getElem?_before ⟨e.expr, e.idx + ((rem e).takeWhile isSp).length, e.err⟩ hI _ _ ht _ hk
    refine ⟨by show 1 ≤ e.idx + ((rem e).takeWhile isSp).length; omega, ?_⟩
    have hi : e.idx + ((rem e).takeWhile isSp).length - 1 = (e.expr.take e.idx).length + (((rem e).takeWhile isSp).length - 1) := by
      rw [hlenpre]; omega
    show e.expr[e.idx + ((rem e).takeWhile isSp).length - 1]? = some 32
    rw [hi, hb', List.getElem?_eq_getElem hk]
    have := takeWhile_all isSp (rem e) _ (List.getElem_mem hk)
    simp only [isSp, beq_iff_eq] at this
    rw [this]

theorem esMore_iff (e : ES) (h : Inv e) : esMore e = true ↔ rem e ≠ [] := by
  have hI : e.idx ≤ e.expr.length := h
  simp only [esMore, decide_eq_true_eq, rem, ne_eq, List.drop_eq_nil_iff]
  omega

/-- what the loop does with the result of `parseToken` -/
def contG (fuel : Nat) (acc : List Tok) (r : Option (List Tok)) (e2 : ES) : Out (Option (List Tok)) :=
  if e2.err = true then .ok none else
  match r with
  | none => .ok none
  | some ts => scanLoopG fuel e2 (acc ++ ts)

/-- one iteration of the Go loop against one step of the model -/
theorem iter1 (e : ES) (hg : Good e) (off : Nat) :
    match step (rem e) off with
    | .done => ∀ fuel acc, scanLoopG (fuel + 1) e acc = .ok (some acc)
    | .err _ => ∀ fuel acc, scanLoopG (fuel + 1) e acc = .ok none
    | .tok ts rest =>
      (∃ e', Good e' ∧ rem e' = rest ∧ ∀ fuel acc, scanLoopG (fuel + 1) e acc = scanLoopG fuel e' (acc ++ ts)) ∨
      (∃ t e', ts = [t, .op .plus] ∧ Good e' ∧ rem e' = 43 :: rest ∧
        ∀ fuel acc, scanLoopG (fuel + 1) e acc = scanLoopG fuel e' (acc ++ [t])) := by
  have h := hg.1
  have herr := hg.2.1
  have hstep := step_eq (rem e) off
  have hle : ((rem e).takeWhile isSp).length ≤ (rem e).length := (List.takeWhile_sublist _).length_le
  have hI1 := Inv_adv e _ h hle
  have hr1 : rem ⟨e.expr, e.idx + ((rem e).takeWhile isSp).length, e.err⟩ = (rem e).dropWhile isSp := by
    show e.expr.drop (e.idx + _) = _
    have := rem_adv e ((rem e).takeWhile isSp).length
    simp only at this
    rw [this, drop_takeWhile_length]
  by_cases hd : (rem e).dropWhile isSp = []
  · have hs : step (rem e) off = .done := by rw [hstep, if_pos hd]
    rw [hs]
    intro fuel acc
    by_cases hm : rem e = []
    · have hno : esMore e = false := by
        cases hb : esMore e with
        | true => exact absurd ((esMore_iff e h).mp hb) (by simp [hm])
        | false => rfl
      simp only [scanLoopG, hno, Bool.not_false, ↓reduceIte]
    · have hyes : esMore e = true := (esMore_iff e h).mpr hm
      have hno1 : esMore ⟨e.expr, e.idx + ((rem e).takeWhile isSp).length, e.err⟩ = false := by
        cases hb : esMore ⟨e.expr, e.idx + ((rem e).takeWhile isSp).length, e.err⟩ with
        | true => exact absurd ((esMore_iff _ hI1).mp hb) (by rw [hr1, hd]; simp)
        | false => rfl
      simp only [scanLoopG, hyes, Bool.not_true, Bool.false_eq_true, ↓reduceIte, skipWhitespace_eq e h, bind_ok, hno1,
        Bool.not_false]
  · have hs : step (rem e) off = lexeme ((rem e).dropWhile isSp) (off + ((rem e).takeWhile isSp).length)
        (decide ((rem e).takeWhile isSp ≠ [])) := by rw [hstep, if_neg hd]
    rw [hs]
    have hm : rem e ≠ [] := fun hc => hd (by rw [hc]; rfl)
    have hyes : esMore e = true := (esMore_iff e h).mpr hm
    have hyes1 : esMore ⟨e.expr, e.idx + ((rem e).takeWhile isSp).length, e.err⟩ = true :=
      (esMore_iff _ hI1).mpr (by rw [hr1]; exact hd)
    obtain ⟨r, e2, hp, hsim⟩ := parseToken_sim ⟨e.expr, e.idx + ((rem e).takeWhile isSp).length, e.err⟩ hI1 herr
      (decide ((rem e).takeWhile isSp ≠ [])) (lookBehind_after_sp e hg) (off + ((rem e).takeWhile isSp).length)
    rw [hr1] at hsim
    have hloop : ∀ fuel acc, scanLoopG (fuel + 1) e acc = contG fuel acc r e2 := by
      intro fuel acc
      simp only [scanLoopG, hyes, Bool.not_true, Bool.false_eq_true, ↓reduceIte, skipWhitespace_eq e h, bind_ok, hyes1, hp]
      rfl
    cases hl : lexeme ((rem e).dropWhile isSp) (off + ((rem e).takeWhile isSp).length) (decide ((rem e).takeWhile isSp ≠ [])) with
    | done => rw [hl] at hsim; exact hsim.elim
    | err x =>
      rw [hl] at hsim
      simp only [TokSim] at hsim
      intro fuel acc
      rw [hloop]
      unfold contG
      rcases hsim with he | hr
      · simp only [he, ↓reduceIte]
      · subst hr
        split <;> rfl
    | tok ts rest =>
      rw [hl] at hsim
      simp only [TokSim] at hsim
      rcases hsim with ⟨hr, hgood, hrem⟩ | ⟨t, hts, hr, hgood, hrem⟩
      · refine .inl ⟨e2, hgood, hrem, ?_⟩
        intro fuel acc
        rw [hloop, hr]
        simp only [contG, hgood.2.1, Bool.false_eq_true, ↓reduceIte]
      · refine .inr ⟨t, e2, hts, hgood, hrem, ?_⟩
        intro fuel acc
        rw [hloop, hr]
        simp only [contG, hgood.2.1, Bool.false_eq_true, ↓reduceIte]

theorem step_plus' (s : Bytes) (off : Nat) : step (43 :: s) off = .tok [.op .plus] s := by
  simp [step_eq, isSp, lexeme, readOp, opTable]

theorem toks_unfold (s : Bytes) :
    toks s = match step s 0 with
      | .done => some []
      | .err _ => none
      | .tok ts r => (toks r).map (ts ++ ·) := by
  unfold toks
  rw [scan_eq_scanFrom, scanFrom_unfold]
  cases hs : step s 0 with
  | done => rfl
  | err x => rfl
  | tok ts r =>
    simp only
    rw [toOption_map]
    have a := toksFrom_off r (0 + (s.length - r.length))
    unfold toksFrom toks at a
    rw [a, scan_eq_scanFrom]

theorem scanLoopG_eq : ∀ (n : Nat) (e : ES) (acc : List Tok) (fuel : Nat), Good e → (rem e).length ≤ n →
    2 * (rem e).length + 2 ≤ fuel → scanLoopG fuel e acc = .ok ((toks (rem e)).map (acc ++ ·)) := by
  intro n
  induction n with
  | zero =>
    intro e acc fuel hg hn hf
    obtain ⟨f, rfl⟩ : ∃ f, fuel = f + 1 := ⟨fuel - 1, by omega⟩
    have hnil : rem e = [] := List.length_eq_zero_iff.mp (by omega)
    have hi := iter1 e hg 0
    have hu := toks_unfold (rem e)
    have hs : step (rem e) 0 = .done := by rw [hnil]; rfl
    rw [hs] at hi hu
    rw [hi f acc, hu]
    simp
  | succ n ih =>
    intro e acc fuel hg hn hf
    obtain ⟨f, rfl⟩ : ∃ f, fuel = f + 1 := ⟨fuel - 1, by omega⟩
    have hi := iter1 e hg 0
    have hu := toks_unfold (rem e)
    cases hs : step (rem e) 0 with
    | done =>
      rw [hs] at hi hu
      rw [hi f acc, hu]
      simp
    | err x =>
      rw [hs] at hi hu
      rw [hi f acc, hu]
      rfl
    | tok ts rest =>
      rw [hs] at hi hu
      simp only at hi hu
      obtain ⟨pre, hpre, hsr⟩ := step_suffix hs
      have hlen : rest.length < (rem e).length := by
        rw [hsr]; simp only [List.length_append]
        have : 0 < pre.length := List.length_pos_iff.mpr hpre
        omega
      rcases hi with ⟨e', hg', hrem', hloop⟩ | ⟨t, e', hts, hg', hrem', hloop⟩
      · rw [hloop f acc, ih e' (acc ++ ts) f hg' (by rw [hrem']; omega) (by rw [hrem']; omega), hrem', hu]
        simp only [Option.map_map]
        congr 1
        cases toks rest with
        | none => rfl
        | some x => simp [List.append_assoc]
      · -- the rewritten buffer: the `+` left in it is read by the next iteration
        obtain ⟨f', rfl⟩ : ∃ f', f = f' + 1 := ⟨f - 1, by omega⟩
        have hi2 := iter1 e' hg' 0
        rw [hrem', step_plus'] at hi2
        simp only at hi2
        rcases hi2 with ⟨e'', hg'', hrem'', hloop2⟩ | ⟨t2, e'', hts2, _⟩
        · rw [hloop (f' + 1) acc, hloop2 f' (acc ++ [t]),
            ih e'' (acc ++ [t] ++ [Tok.op Op.plus]) f' hg'' (by rw [hrem'']; omega) (by rw [hrem'']; omega), hrem'', hu, hts]
          simp only [Option.map_map]
          congr 1
          cases toks rest with
          | none => rfl
          | some x => simp [List.append_assoc]
        · simp at hts2

/-- **refinement**: the Go-shaped scanner — private buffer, integer cursor, the `-or-later` buffer rewrite, the one-byte
    look-behind for `+` — yields exactly the token sequence of the main model's scanner, on every byte string -/
theorem scanG_eq (s : Bytes) : scanG s = .ok (toks s) := by
  unfold scanG
  have hg : Good ⟨s, 0, false⟩ := ⟨by unfold Inv; simp, rfl, by simp [LookBehind]⟩
  have hr : rem ⟨s, 0, false⟩ = s := rfl
  have := scanLoopG_eq s.length ⟨s, 0, false⟩ [] (2 * s.length + 2) hg (by rw [hr]; omega) (by rw [hr]; omega)
  rw [this, hr]
  simp

end Spdx.G
