/-
Lemmas/Expand — the expansion computes the Boolean value of the tree (core of C01, C06, C07, C10).
-/
import SpdxVerif.Spec.Eval
namespace Spdx

theorem dnf_append (p) (a b : List (List Node)) : dnf p (a ++ b) = (dnf p a || dnf p b) := by
  simp [dnf]

theorem any_map_append (p : Node → Bool) (L : List (List Node)) (r : List Node) :
    (L.map (fun l => l ++ r)).any (fun c => c.all p) = (L.any (fun c => c.all p) && r.all p) := by
  induction L with
  | nil => simp
  | cons l L ihL => simp only [List.map_cons, List.any_cons, ihL, List.all_append, Bool.and_or_distrib_right]

theorem dnf_appendTerms (p) (L R : List (List Node)) :
    dnf p (appendTerms L R) = (dnf p L && dnf p R) := by
  unfold appendTerms dnf
  induction R with
  | nil => simp
  | cons r R ih =>
    simp only [List.flatMap_cons, List.any_append, ih, List.any_cons, any_map_append]
    cases h1 : L.any (fun c => c.all p) <;> cases h2 : r.all p <;> simp

theorem dnf_mergeTerms_single (p) (l r : List Node) :
    dnf p (mergeTerms [l] [r]) = (dnf p [l] && dnf p [r]) := by
  simp [mergeTerms, dnf, List.all_append]

theorem insertBy_perm {α} (le : α → α → Bool) (x : α) (l : List α) : (insertBy le x l).Perm (x :: l) := by
  induction l with
  | nil => simp [insertBy]
  | cons y ys ih =>
    simp only [insertBy]
    split
    · exact List.Perm.refl _
    · exact (List.Perm.cons y ih).trans (List.Perm.swap x y ys)

theorem sortBy_perm {α} (le : α → α → Bool) (l : List α) : (sortBy le l).Perm l := by
  induction l with
  | nil => simp [sortBy]
  | cons x xs ih => exact (insertBy_perm le x _).trans (List.Perm.cons x ih)

theorem dnf_perm (p) {a b : List (List Node)} (h : a.Perm b) : dnf p a = dnf p b := by
  unfold dnf
  induction h with
  | nil => rfl
  | cons x _ ih => simp [ih]
  | swap x y l => simp [Bool.or_left_comm]
  | trans _ _ ih1 ih2 => exact ih1.trans ih2

theorem all_perm (p : Node → Bool) {a b : List Node} (h : a.Perm b) : a.all p = b.all p := by
  induction h with
  | nil => rfl
  | cons x _ ih => simp [ih]
  | swap x y l => simp [Bool.and_left_comm]
  | trans _ _ ih1 ih2 => exact ih1.trans ih2

theorem any_perm (p : Node → Bool) {a b : List Node} (h : a.Perm b) : a.any p = b.any p := by
  induction h with
  | nil => rfl
  | cons x _ ih => simp [ih]
  | swap x y l => simp [Bool.or_left_comm]
  | trans _ _ ih1 ih2 => exact ih1.trans ih2

theorem dnf_deepSort (p) (ll : List (List Node)) : dnf p (deepSort ll) = dnf p ll := by
  unfold deepSort
  rw [dnf_perm p (sortBy_perm _ _)]
  unfold dnf
  induction ll with
  | nil => rfl
  | cons c cs ih =>
    simp only [List.map_cons, List.any_cons, ih]
    congr 1
    exact all_perm p (sortBy_perm _ _)

theorem expandTerm_length_pos : ∀ n : Node, 0 < (expandTerm n).length := by
  intro n
  induction n with
  | lic => simp [expandTerm]
  | ref => simp [expandTerm]
  | and l r ihl ihr =>
    simp only [expandTerm]
    split
    · simp only [appendTerms]
      cases hL : expandTerm l with
      | nil => simp [hL] at ihl
      | cons a as =>
        cases hR : expandTerm r with
        | nil => simp [hR] at ihr
        | cons b bs => simp
    · rename_i h
      have hl : (expandTerm l).length = 1 := by omega
      have hr : (expandTerm r).length = 1 := by omega
      match hL : expandTerm l, hR : expandTerm r with
      | [a], [b] => simp [mergeTerms]
      | [], _ => simp [hL] at hl
      | _ :: _ :: _, _ => simp [hL] at hl
      | [_], [] => simp [hR] at hr
      | [_], _ :: _ :: _ => simp [hR] at hr
  | or l r ihl ihr =>
    simp only [expandTerm, List.length_append]; omega

theorem dnf_expandTerm (p) : ∀ n : Node, dnf p (expandTerm n) = eval p n := by
  intro n
  induction n with
  | lic => simp [expandTerm, dnf, eval]
  | ref => simp [expandTerm, dnf, eval]
  | or l r ihl ihr => simp [expandTerm, dnf_append, ihl, ihr, eval]
  | and l r ihl ihr =>
    simp only [expandTerm, eval, ← ihl, ← ihr]
    split
    · exact dnf_appendTerms p _ _
    · rename_i h
      have hl := expandTerm_length_pos l
      have hr := expandTerm_length_pos r
      match hL : expandTerm l, hR : expandTerm r with
      | [a], [b] => exact dnf_mergeTerms_single p a b
      | [], _ => simp [hL] at hl
      | _ :: _ :: _, _ => simp [hL] at h
      | [_], [] => simp [hR] at hr
      | [_], _ :: _ :: _ => simp [hR] at h

theorem dnf_expand (p) (n : Node) : dnf p (expand n) = eval p n := by
  unfold expand
  split
  · cases n <;> simp_all [Node.isLeaf, dnf, eval]
  · rw [dnf_deepSort, dnf_expandTerm]

/-- the independent OR-of-ANDs reading has the same truth value -/
theorem dnf_altsOf (p) : ∀ n : Node, dnf p (altsOf n) = eval p n := by
  intro n
  induction n with
  | lic => simp [altsOf, dnf, eval]
  | ref => simp [altsOf, dnf, eval]
  | or l r ihl ihr => simp [altsOf, dnf_append, ihl, ihr, eval]
  | and l r ihl ihr =>
    simp only [altsOf, eval, ← ihl, ← ihr]
    generalize altsOf l = L
    generalize altsOf r = R
    unfold dnf
    have key : ∀ (a : List Node) (R : List (List Node)),
        (R.map (fun b => a ++ b)).any (fun c => c.all p) = (a.all p && R.any (fun c => c.all p)) := by
      intro a R
      induction R with
      | nil => simp
      | cons b R ihR => simp only [List.map_cons, List.any_cons, ihR, List.all_append, Bool.and_or_distrib_left]
    induction L with
    | nil => simp
    | cons a L ih =>
      simp only [List.flatMap_cons, List.any_append, List.any_cons, ih, key]
      cases a.all p <;> cases R.any (fun c => c.all p) <;> simp

/-- the verdict loop of `Satisfies`, for any single-term matcher, is the Boolean value of the tree -/
theorem verdictBy_eq_eval (m : Node → Node → Bool) (n : Node) (A : List Node) :
    verdictBy m n A = eval (coveredBy m A) n := by
  have := dnf_expand (coveredBy m A) n
  unfold verdictBy isCompatibleBy
  exact this

end Spdx
