/-
Lemmas/CaseVariant — a case variant of a listed id is scanned exactly like the id itself, wherever it stands.
-/
import SpdxVerif.Lemmas.Lexeme
namespace Spdx

def listedAll : List Bytes := Tables.active ++ Tables.deprecated ++ Tables.exceptions

/-- the tree of a string, if it is a valid expression -/
def tree (s : Bytes) : Option Node := (parse s).toOption

theorem tree_eq_of_toks (s s' : Bytes) (h : toks s = toks s') : tree s = tree s' := by
  unfold tree
  cases hp : parse s with
  | ok n =>
    obtain ⟨ts, h1, h2⟩ := (parse_ok_iff s n).mp hp
    rw [(parse_ok_iff s' n).mpr ⟨ts, by rw [← h]; exact h1, h2⟩]
  | error e =>
    cases hp' : parse s' with
    | error e' => rfl
    | ok n =>
      obtain ⟨ts, h1, h2⟩ := (parse_ok_iff s' n).mp hp'
      rw [(parse_ok_iff s n).mpr ⟨ts, by rw [h]; exact h1, h2⟩] at hp
      cases hp

theorem valid_eq_tree (s : Bytes) : valid s = (tree s).isSome := by
  unfold valid tree; cases parse s <;> rfl

theorem extract_eq_tree (s : Bytes) : extract s = (tree s).map (fun n => dedup [] ((expand n).flatten.map render)) := by
  unfold extract tree; cases parse s <;> rfl

/-- one step on a case variant of a listed id followed by a non-id byte -/
theorem step_caseVariant (w w' b : Bytes) (off : Nat) (hw : w ∈ listedAll) (hid : allId w = true)
    (h : lower w' = lower w) (hb : Stops b) :
    ∃ tk k, normCore w (b.head? == some 43) = some (tk, k) ∧
      step (w' ++ b) off = .tok tk (if k then b.tail else b) ∧ step (w ++ b) off = .tok tk (if k then b.tail else b) := by
  have hfc := List.all_eq_true.mp listed_foldClean w hw
  have hc : Clean w := clean_of_foldClean w w hfc rfl
  have hc' : Clean w' := clean_of_foldClean w w' hfc h
  have hid' : allId w' = true := by rw [allId_of_lower_eq w' w h]; exact hid
  have hcore : normCore w' (b.head? == some 43) = normCore w (b.head? == some 43) := normCore_caseVariant w w' _ hw h
  have stepOf : ∀ x, allId x = true → Clean x → step (x ++ b) off =
      (match normCore x (b.head? == some 43) with
        | none => .err (.unknownLicense x (off + 0))
        | some (toks, k) => .tok toks (if k then b.tail else b)) := by
    intro x hx hcx
    obtain ⟨h0, hsp⟩ := clean_head_not_sp hx hcx
    rw [step_eq, (hsp b).2, (hsp b).1]
    have hne : x ++ b ≠ [] := by
      intro hh; exact hcx.2.2.2 (List.append_eq_nil_iff.mp hh).1
    simp only [hne, ↓reduceIte, List.length_nil]
    exact lexeme_word x b _ _ hx hcx hb
  -- a listed id is never "unknown"
  have hsome : ∃ p, normCore w (b.head? == some 43) = some p := by
    have key : ∀ np, ∃ p, normCore w np = some p := by
      intro np
      simp only [listedAll, List.mem_append] at hw
      rcases hw with (ha | hd) | he
      · exact ⟨_, normCore_active ha np⟩
      · -- deprecated: the deprecated lookup answers unless an earlier step does
        have hl : lookup Tables.deprecated w = some w :=
          lookup_listed _ (foldDistinct_append_right (foldDistinct_append_left C09.lists_fold_distinct)) w w hd rfl
        unfold normCore
        cases licenseLookup w with
        | some t => exact ⟨_, rfl⟩
        | none =>
          simp only
          cases (stripSuffix? w sufOnly).bind licenseLookup with
          | some t => exact ⟨_, rfl⟩
          | none =>
            simp only
            cases (if np = true then licenseLookup (w ++ sufOrLater) else none) with
            | some t => exact ⟨_, rfl⟩
            | none =>
              simp only
              cases (stripSuffix? w sufOrLater).bind licenseLookup with
              | some t => exact ⟨_, rfl⟩
              | none => simp only [hl]; exact ⟨_, rfl⟩
      · exact ⟨_, normCore_exception he np⟩
    exact key _
  obtain ⟨⟨tk, k⟩, hp⟩ := hsome
  refine ⟨tk, k, hp, ?_, ?_⟩
  · rw [stepOf w' hid' hc', hcore, hp]
  · rw [stepOf w hid hc, hp]

/-- **the token sequence does not change** when a listed id at the start of the text is re-cased -/
theorem toks_caseVariant_head (w w' b : Bytes) (hw : w ∈ listedAll) (hid : allId w = true) (h : lower w' = lower w)
    (hb : Stops b) : toks (w' ++ b) = toks (w ++ b) := by
  obtain ⟨tk, k, hk, -, -⟩ := step_caseVariant w w' b 0 hw hid h hb
  have e : ∀ off, step (w' ++ b) off = .tok tk (if k then b.tail else b) ∧ step (w ++ b) off = .tok tk (if k then b.tail else b) := by
    intro off
    obtain ⟨tk', k', hk', h1, h2⟩ := step_caseVariant w w' b off hw hid h hb
    rw [hk] at hk'; simp only [Option.some.injEq, Prod.mk.injEq] at hk'
    obtain ⟨rfl, rfl⟩ := hk'
    exact ⟨h1, h2⟩
  rw [toks_of_step _ _ tk (fun off => (e off).1), toks_of_step _ _ tk (fun off => (e off).2)]

theorem head_idChar_ne_plus {x : Bytes} (hx : allId x = true) (b : Bytes) (hne : x ≠ []) : (x ++ b).head? ≠ some 43 := by
  cases x with
  | nil => exact absurd rfl hne
  | cons c r =>
    simp only [allId, List.all_cons, Bool.and_eq_true] at hx
    simp only [List.cons_append, List.head?_cons, ne_eq, Option.some.injEq]
    intro hc; subst hc; simp [isIdChar] at hx

/-- … and when it stands anywhere after a space or a parenthesis -/
theorem toks_caseVariant_ctx (a : Bytes) (sep : Nat) (w w' b : Bytes) (hsep : sep = 32 ∨ sep = 40 ∨ sep = 41)
    (hw : w ∈ listedAll) (hid : allId w = true) (h : lower w' = lower w) (hb : Stops b) :
    toks (a ++ sep :: (w' ++ b)) = toks (a ++ sep :: (w ++ b)) := by
  have hbd : ∀ x, isBoundary (sep :: x) = true := by
    intro x; rcases hsep with rfl | rfl | rfl <;> rfl
  rw [toks_append a _ (hbd _), toks_append a _ (hbd _)]
  have hne : w ≠ [] := (clean_listed hw).2.2.2
  have hid' : allId w' = true := by rw [allId_of_lower_eq w' w h]; exact hid
  have hne' : w' ≠ [] := by
    intro hh; subst hh
    cases w with
    | nil => exact hne rfl
    | cons c r => simp [lower] at h
  have inner : toks (sep :: (w' ++ b)) = toks (sep :: (w ++ b)) := by
    rcases hsep with rfl | rfl | rfl
    · have a1 := toks_leading_spaces [32] (w' ++ b) (by simp [List.dropWhile, isSp]) (head_idChar_ne_plus hid' b hne')
      have a2 := toks_leading_spaces [32] (w ++ b) (by simp [List.dropWhile, isSp]) (head_idChar_ne_plus hid b hne)
      simp only [List.singleton_append] at a1 a2
      rw [a1, a2, toks_caseVariant_head w w' b hw hid h hb]
    · rw [toks_cons_lparen, toks_cons_lparen, toks_caseVariant_head w w' b hw hid h hb]
    · rw [toks_cons_rparen, toks_cons_rparen, toks_caseVariant_head w w' b hw hid h hb]
  rw [inner]

end Spdx
