/-
Lemmas/Grammar — the recursive-descent parser accepts exactly the documented grammar (C05, token level).
-/
import SpdxVerif.Spec.Grammar
namespace Spdx

theorem D_len_pos {lv ts n} (h : D lv ts n) : 0 < ts.length := by
  induction h <;> simp_all <;> omega

theorem complete {lv pre n} (h : D lv pre n) :
    ∀ rest, headOk lv rest → ∀ f, need lv pre.length ≤ f → parseAt lv f (pre ++ rest) = .ok n rest := by
  induction h with
  | ref0 r =>
    intro rest _ f hf
    obtain ⟨f, rfl⟩ : ∃ g, f = g + 1 := ⟨f - 1, by simp [need] at hf; omega⟩
    simp [parseAt, parseAtom, parseLicenseRef]
  | ref1 d r =>
    intro rest _ f hf
    obtain ⟨f, rfl⟩ : ∃ g, f = g + 1 := ⟨f - 1, by simp [need] at hf; omega⟩
    simp [parseAt, parseAtom, parseLicenseRef]
  | lic id =>
    intro rest ho f hf
    obtain ⟨f, rfl⟩ : ∃ g, f = g + 1 := ⟨f - 1, by simp [need] at hf; omega⟩
    obtain ⟨h1, h2, -, -⟩ := ho
    cases rest with
    | nil => simp [parseAt, parseAtom, parseLicenseRef, parseLicense]
    | cons t rest =>
      simp only [List.head?_cons, ne_eq, Option.some.injEq] at h1 h2
      simp only [parseAt, parseAtom, List.cons_append, List.nil_append, parseLicenseRef]
      unfold parseLicense
      split <;> simp_all
  | licP id =>
    intro rest ho f hf
    obtain ⟨f, rfl⟩ : ∃ g, f = g + 1 := ⟨f - 1, by simp [need] at hf; omega⟩
    obtain ⟨h1, h2, -, -⟩ := ho
    cases rest with
    | nil => simp [parseAt, parseAtom, parseLicenseRef, parseLicense]
    | cons t rest =>
      simp only [List.head?_cons, ne_eq, Option.some.injEq] at h1 h2
      simp only [parseAt, parseAtom, List.cons_append, List.nil_append, parseLicenseRef]
      unfold parseLicense
      split <;> simp_all
  | licW id e =>
    intro rest ho f hf
    obtain ⟨f, rfl⟩ : ∃ g, f = g + 1 := ⟨f - 1, by simp [need] at hf; omega⟩
    simp [parseAt, parseAtom, parseLicenseRef, parseLicense]
  | licPW id e =>
    intro rest ho f hf
    obtain ⟨f, rfl⟩ : ∃ g, f = g + 1 := ⟨f - 1, by simp [need] at hf; omega⟩
    simp [parseAt, parseAtom, parseLicenseRef, parseLicense]
  | @paren ts n hd ih =>
    intro rest ho f hf
    have hp := D_len_pos hd
    obtain ⟨f, rfl⟩ : ∃ g, f = g + 1 := ⟨f - 1, by simp [need] at hf; omega⟩
    have := ih (.op .rparen :: rest) (by simp [headOk]) f (by simp [need] at hf ⊢; omega)
    simp only [parseAt] at this
    simp [parseAt, parseAtom, this]
  | @and1 ts n hd ih =>
    intro rest ho f hf
    have hp := D_len_pos hd
    obtain ⟨f, rfl⟩ : ∃ g, f = g + 1 := ⟨f - 1, by simp [need] at hf; omega⟩
    have := ih rest ⟨ho.1, ho.2.1, by simp, by simp⟩ f (by simp [need] at hf ⊢; omega)
    simp only [parseAt] at this
    simp only [parseAt, parseAnd, this]
    have h3 := ho.2.2.1 (by simp)
    cases rest with
    | nil => rfl
    | cons t r =>
      simp only [List.head?_cons, ne_eq, Option.some.injEq] at h3
      split
      · rename_i heq; cases heq; exact absurd rfl h3
      · rfl
  | @andC a b l r ha hb iha ihb =>
    intro rest ho f hf
    have hpa := D_len_pos ha
    have hpb := D_len_pos hb
    obtain ⟨f, rfl⟩ : ∃ g, f = g + 1 := ⟨f - 1, by simp [need] at hf; omega⟩
    have h1 := iha (.op .and_ :: b ++ rest) (by simp [headOk]) f (by simp [need] at hf ⊢; omega)
    have h2 := ihb rest ho f (by simp [need] at hf ⊢; omega)
    simp only [parseAt] at h1 h2
    have hne : b ++ rest ≠ [] := by
      cases b with
      | nil => simp at hpb
      | cons => simp
    simp only [List.cons_append] at h1
    simp only [parseAt, parseAnd, List.append_assoc, List.cons_append, h1]
    cases hbr : b ++ rest with
    | nil => exact absurd hbr hne
    | cons t r' => simp only [← hbr, h2]
  | @or1 ts n hd ih =>
    intro rest ho f hf
    have hp := D_len_pos hd
    obtain ⟨f, rfl⟩ : ∃ g, f = g + 1 := ⟨f - 1, by simp [need] at hf; omega⟩
    have := ih rest ⟨ho.1, ho.2.1, fun _ => ho.2.2.1 (by simp), by simp⟩ f (by simp [need] at hf ⊢; omega)
    simp only [parseAt] at this
    simp only [parseAt, parseExpression, this]
    have h3 := ho.2.2.2 rfl
    cases rest with
    | nil => rfl
    | cons t r =>
      simp only [List.head?_cons, ne_eq, Option.some.injEq] at h3
      split
      · rename_i heq; cases heq; exact absurd rfl h3
      · rfl
  | @orC a b l r ha hb iha ihb =>
    intro rest ho f hf
    have hpa := D_len_pos ha
    have hpb := D_len_pos hb
    obtain ⟨f, rfl⟩ : ∃ g, f = g + 1 := ⟨f - 1, by simp [need] at hf; omega⟩
    have h1 := iha (.op .or_ :: b ++ rest) (by simp [headOk]) f (by simp [need] at hf ⊢; omega)
    have h2 := ihb rest ho f (by simp [need] at hf ⊢; omega)
    simp only [parseAt] at h1 h2
    have hne : b ++ rest ≠ [] := by
      cases b with
      | nil => simp at hpb
      | cons => simp
    simp only [List.cons_append] at h1
    simp only [parseAt, parseExpression, List.append_assoc, List.cons_append, h1]
    cases hbr : b ++ rest with
    | nil => exact absurd hbr hne
    | cons t r' => simp only [← hbr, h2]

theorem parseLicenseRef_sound {ts n rest} (h : parseLicenseRef ts = .ok n rest) :
    ∃ pre, ts = pre ++ rest ∧ D .atom pre n := by
  unfold parseLicenseRef at h
  split at h <;> simp at h
  · obtain ⟨rfl, rfl⟩ := h; exact ⟨_, rfl, .ref1 _ _⟩
  · obtain ⟨rfl, rfl⟩ := h; exact ⟨[_], rfl, .ref0 _⟩

theorem parseLicense_sound {ts n rest} (h : parseLicense ts = .ok n rest) :
    ∃ pre, ts = pre ++ rest ∧ D .atom pre n := by
  unfold parseLicense at h
  split at h <;> simp at h
  · obtain ⟨rfl, rfl⟩ := h; exact ⟨[_, _, _, _], rfl, .licPW _ _⟩
  · obtain ⟨rfl, rfl⟩ := h; exact ⟨[_, _], rfl, .licP _⟩
  · obtain ⟨rfl, rfl⟩ := h; exact ⟨[_, _, _], rfl, .licW _ _⟩
  · obtain ⟨rfl, rfl⟩ := h; exact ⟨[_], rfl, .lic _⟩

theorem sound : ∀ f lv ts n rest, parseAt lv f ts = .ok n rest → ∃ pre, ts = pre ++ rest ∧ D lv pre n := by
  intro f
  induction f with
  | zero => intro lv ts n rest h; cases lv <;> simp [parseAt, parseAtom, parseAnd, parseExpression] at h
  | succ f ih =>
    intro lv ts n rest h
    cases lv with
    | atom =>
      simp only [parseAt, parseAtom] at h
      split at h
      · rename_i r0
        split at h <;> simp at h
        rename_i e r1 heq
        obtain ⟨rfl, rfl⟩ := h
        obtain ⟨pre, hpre, hd⟩ := ih .expr _ _ _ heq
        refine ⟨.op .lparen :: pre ++ [.op .rparen], ?_, .paren hd⟩
        simp [hpre]
      · split at h
        · simp at h
        · rename_i n' r' heq; simp at h; obtain ⟨rfl, rfl⟩ := h; exact parseLicenseRef_sound heq
        · split at h
          · simp at h
          · rename_i n' r' heq; simp at h; obtain ⟨rfl, rfl⟩ := h; exact parseLicense_sound heq
          · simp at h
    | andE =>
      simp only [parseAt, parseAnd] at h
      split at h
      · rename_i l r heq
        obtain ⟨pa, hpa, hda⟩ := ih .atom _ _ _ heq
        split at h
        · simp at h
        · split at h <;> simp at h
          rename_i rt r' heq2
          obtain ⟨rfl, rfl⟩ := h
          obtain ⟨pb, hpb, hdb⟩ := ih .andE _ _ _ heq2
          refine ⟨pa ++ .op .and_ :: pb, ?_, .andC hda hdb⟩
          simp [hpa, hpb]
      · obtain ⟨pre, hpre, hd⟩ := ih .atom _ _ _ h
        exact ⟨pre, hpre, .and1 hd⟩
    | expr =>
      simp only [parseAt, parseExpression] at h
      split at h
      · rename_i l r heq
        obtain ⟨pa, hpa, hda⟩ := ih .andE _ _ _ heq
        split at h
        · simp at h
        · split at h <;> simp at h
          rename_i rt r' heq2
          obtain ⟨rfl, rfl⟩ := h
          obtain ⟨pb, hpb, hdb⟩ := ih .expr _ _ _ heq2
          refine ⟨pa ++ .op .or_ :: pb, ?_, .orC hda hdb⟩
          simp [hpa, hpb]
      · obtain ⟨pre, hpre, hd⟩ := ih .andE _ _ _ h
        exact ⟨pre, hpre, .or1 hd⟩

theorem parseTokens_iff (ts : List Tok) (n : Node) : parseTokens ts = some n ↔ D .expr ts n := by
  constructor
  · intro h
    unfold parseTokens at h
    split at h
    · simp at h
    · split at h <;> simp at h
      rename_i n' heq
      subst h
      have heq' : parseAt .expr (3 * ts.length + 3) ts = .ok n' [] := heq
      obtain ⟨pre, hpre, hd⟩ := sound _ .expr _ _ _ heq'
      simp at hpre; subst hpre; exact hd
  · intro h
    have hp := D_len_pos h
    have := complete h [] (by simp [headOk]) (3 * ts.length + 3) (by simp [need])
    simp only [parseAt, List.append_nil] at this
    unfold parseTokens
    cases ts with
    | nil => simp at hp
    | cons t r => simp only [this]

end Spdx
