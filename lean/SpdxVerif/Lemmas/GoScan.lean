/-
Lemmas/GoScan — the Go-shaped scanner never reaches `panic`: the cursor invariant `index ≤ len(expression)` is kept by
every function, and every slice expression is within bounds under it.
-/
import SpdxVerif.Model.GoScan
import SpdxVerif.Lemmas.GoShaped
namespace Spdx.G

def Inv (e : ES) : Prop := e.idx ≤ e.expr.length

theorem bind_ok {α β} (a : α) (f : α → Out β) : (Out.ok a).bind f = f a := rfl

theorem sl_ok (s : Bytes) (lo hi : Nat) (h1 : lo ≤ hi) (h2 : hi ≤ s.length) :
    sl s (lo : Int) (hi : Int) = .ok ((s.drop lo).take (hi - lo)) := by
  unfold sl
  have c : (0 : Int) ≤ (lo : Int) ∧ (lo : Int) ≤ (hi : Int) ∧ (hi : Int) ≤ (s.length : Int) := by omega
  rw [if_pos c]
  have e1 : (lo : Int).toNat = lo := by simp
  have e2 : ((hi : Int) - (lo : Int)).toNat = hi - lo := by omega
  rw [e1, e2]

theorem sl_from (s : Bytes) (i : Nat) (h : i ≤ s.length) : sl s (i : Int) (s.length : Int) = .ok (s.drop i) := by
  rw [sl_ok s i s.length h (Nat.le_refl _)]
  congr 1
  apply List.take_of_length_le
  simp

theorem readRegex_ok (cls : Nat → Bool) (e : ES) (h : Inv e) :
    ∃ r e', readRegex cls e = .ok (r, e') ∧ Inv e' ∧ e'.expr = e.expr ∧ e'.err = e.err ∧ e'.idx = e.idx + r.length := by
  unfold readRegex
  rw [sl_from e.expr e.idx h]
  simp only [bind_ok]
  have hm : ((e.expr.drop e.idx).takeWhile cls).length ≤ (e.expr.drop e.idx).length := by
    have := List.takeWhile_sublist (p := cls) (l := e.expr.drop e.idx)
    exact this.length_le
  split
  · rename_i hpos
    have := sl_ok (e.expr.drop e.idx) 0 ((e.expr.drop e.idx).takeWhile cls).length (Nat.zero_le _) hm
    simp only [Int.natCast_zero] at this
    have hz : ((0 : Nat) : Int) = 0 := rfl
    rw [show sl (List.drop e.idx e.expr) 0 ↑(List.takeWhile cls (List.drop e.idx e.expr)).length = _ from this]
    simp only [bind_ok]
    refine ⟨_, _, rfl, ?_, rfl, rfl, ?_⟩
    · have hI : e.idx ≤ e.expr.length := h
      unfold Inv; simp only [List.length_drop] at hm; simp only; omega
    · simp only [List.drop_zero, Nat.sub_zero, List.length_take]
      omega
  · exact ⟨[], e, rfl, h, rfl, rfl, by simp⟩

theorem read_ok (next : Bytes) (e : ES) (h : Inv e) :
    ∃ r e', read next e = .ok (r, e') ∧ Inv e' ∧ e'.expr = e.expr ∧ e'.err = e.err ∧
      ((r = next ∧ e'.idx = e.idx + next.length) ∨ (r = [] ∧ e' = e)) := by
  unfold read
  rw [sl_from e.expr e.idx h]
  simp only [bind_ok]
  split
  · rename_i hp
    refine ⟨_, _, rfl, ?_, rfl, rfl, Or.inl ⟨rfl, rfl⟩⟩
    have := (List.isPrefixOf_iff_prefix.mp hp).length_le
    simp only [List.length_drop] at this
    have hI : e.idx ≤ e.expr.length := h
    unfold Inv; simp only; omega
  · exact ⟨[], e, rfl, h, rfl, rfl, Or.inr ⟨rfl, rfl⟩⟩

theorem skipWhitespace_ok (e : ES) (h : Inv e) : ∃ e', skipWhitespace e = .ok e' ∧ Inv e' ∧ e'.err = e.err := by
  obtain ⟨r, e', h1, h2, _, h4, _⟩ := readRegex_ok isSp e h
  exact ⟨e', by simp [skipWhitespace, h1, bind_ok], h2, h4⟩

theorem readOps_ok (tbl : List (Bytes × Op)) : ∀ (e : ES), Inv e →
    ∃ r e', readOps tbl e = .ok (r, e') ∧ Inv e' ∧ e'.expr = e.expr ∧ e'.err = e.err ∧
      (∀ p o, r = some (p, o) → e'.idx = e.idx + p.length ∧ p.length > 0) := by
  induction tbl with
  | nil => intro e h; exact ⟨none, e, rfl, h, rfl, rfl, by simp⟩
  | cons po rest ih =>
    intro e h
    obtain ⟨p, o⟩ := po
    obtain ⟨r, e1, h1, h2, h3, h4, h5⟩ := read_ok p e h
    simp only [readOps, h1, bind_ok]
    split
    · rename_i hpos
      refine ⟨_, e1, rfl, h2, h3, h4, ?_⟩
      intro p' o' heq
      simp only [Option.some.injEq, Prod.mk.injEq] at heq
      obtain ⟨rfl, rfl⟩ := heq
      rcases h5 with ⟨rfl, hi⟩ | ⟨rfl, _⟩
      · exact ⟨hi, hpos⟩
      · simp at hpos
    · rename_i hnp
      obtain ⟨r', e', g1, g2, g3, g4, g5⟩ := ih e1 h2
      have hidx : e1.idx = e.idx := by
        rcases h5 with ⟨rfl, hi⟩ | ⟨_, rfl⟩
        · have : r.length = 0 := by omega
          omega
        · rfl
      exact ⟨r', e', g1, g2, g3.trans h3, g4.trans h4, fun p' o' hh => by rw [← hidx]; exact g5 p' o' hh⟩

theorem readOperator_ok (e : ES) (h : Inv e) : ∃ r e', readOperator e = .ok (r, e') ∧ Inv e' := by
  obtain ⟨r, e1, h1, h2, _, _, h5⟩ := readOps_ok opTable e h
  simp only [readOperator, h1, bind_ok]
  cases r with
  | none => exact ⟨none, e1, rfl, h2⟩
  | some po =>
    obtain ⟨p, o⟩ := po
    try simp only [bind_ok]
    split
    · rename_i hc
      simp only [Bool.and_eq_true, decide_eq_true_eq] at hc
      have hgt : e1.idx > 1 := hc.2
      have hInv : e1.idx ≤ e1.expr.length := h2
      have := sl_ok e1.expr (e1.idx - 2) (e1.idx - 1) (by omega) (by omega)
      have c1 : ((e1.idx - 2 : Nat) : Int) = (e1.idx : Int) - 2 := by omega
      have c2 : ((e1.idx - 1 : Nat) : Int) = (e1.idx : Int) - 1 := by omega
      rw [c1, c2] at this
      rw [this]
      simp only [bind_ok]
      split
      · exact ⟨none, _, rfl, by unfold Inv; simp only; omega⟩
      · exact ⟨some o, e1, rfl, h2⟩
    · exact ⟨some o, e1, rfl, h2⟩

theorem readID_ok (e : ES) (h : Inv e) :
    ∃ id e', readID e = .ok (id, e') ∧ Inv e' ∧ e'.expr = e.expr ∧ (e'.err = false → e.err = false ∧ e'.idx = e.idx + id.length) := by
  obtain ⟨r, e1, h1, h2, h3, h4, h5⟩ := readRegex_ok isIdChar e h
  simp only [readID, h1, bind_ok]
  split
  · exact ⟨[], _, rfl, h2, h3, by simp⟩
  · exact ⟨r, e1, rfl, h2, h3, fun he => ⟨by rw [← h4]; exact he, h5⟩⟩

theorem readRef_ok (pre : Bytes) (mk : Bytes → Tok) (e : ES) (h : Inv e) : ∃ r e', readRef pre mk e = .ok (r, e') ∧ Inv e' := by
  obtain ⟨r, e1, h1, h2, _, _, _⟩ := read_ok pre e h
  simp only [readRef, h1, bind_ok]
  split
  · exact ⟨none, e1, rfl, h2⟩
  · obtain ⟨id, e2, h6, h7, _, _⟩ := readID_ok e1 h2
    simp only [h6, bind_ok]
    split
    · exact ⟨none, e2, rfl, h7⟩
    · exact ⟨_, e2, rfl, h7⟩

theorem suffix_len {suf w : Bytes} (h : suf.isSuffixOf w = true) : suf.length ≤ w.length :=
  (List.isSuffixOf_iff_suffix.mp h).length_le

/-- `normalizeLicense` on a word that was just read (so at least `len(word)` bytes lie before the cursor) -/
theorem normalizeLicense_ok (license : Bytes) (e : ES) (h : Inv e) (hl : license.length ≤ e.idx) :
    ∃ r e', normalizeLicense license e = .ok (r, e') ∧ Inv e' ∧ e'.err = e.err ∧ (r = none → e' = e) := by
  unfold normalizeLicense
  cases licenseLookup license with
  | some t => exact ⟨_, e, rfl, h, rfl, by simp⟩
  | none =>
    try simp only [bind_ok]
    -- step 2
    have s2 : ∃ r2, (if sufOnly.isSuffixOf license = true then
        (sl license 0 ((license.length : Int) - 5)).bind fun adj => Out.ok (licenseLookup adj) else Out.ok none) = .ok r2 := by
      split
      · rename_i hs
        have hlen := suffix_len hs
        have : sufOnly.length = 5 := rfl
        have := sl_ok license 0 (license.length - 5) (Nat.zero_le _) (by omega)
        have c : ((license.length - 5 : Nat) : Int) = (license.length : Int) - 5 := by omega
        rw [c] at this
        simp only [Int.natCast_zero] at this
        rw [show sl license 0 ((license.length : Int) - 5) = _ from this]
        exact ⟨_, rfl⟩
      · exact ⟨none, rfl⟩
    obtain ⟨r2, hr2⟩ := s2
    rw [hr2]
    simp only [bind_ok]
    cases r2 with
    | some t => exact ⟨_, e, rfl, h, rfl, by simp⟩
    | none =>
      try simp only [bind_ok]
      -- step 3
      have s3 : ∃ r3, (if esMore e = true then
          (sl e.expr e.idx ((e.idx : Int) + 1)).bind fun c =>
            if (c == bPlus) = true then (sl license 0 license.length).bind fun base => Out.ok (licenseLookup (base ++ sufOrLater))
            else Out.ok none
          else Out.ok none) = .ok r3 ∧ (r3.isSome = true → esMore e = true) := by
        split
        · rename_i hm
          simp only [esMore, decide_eq_true_eq] at hm
          have := sl_ok e.expr e.idx (e.idx + 1) (by omega) (by omega)
          have c : ((e.idx + 1 : Nat) : Int) = (e.idx : Int) + 1 := by omega
          rw [c] at this
          rw [this]
          simp only [bind_ok]
          split
          · have := sl_ok license 0 license.length (Nat.zero_le _) (Nat.le_refl _)
            simp only [Int.natCast_zero] at this
            rw [show sl license 0 (license.length : Int) = _ from this]
            exact ⟨_, rfl, fun _ => by simp [esMore, hm]⟩
          · exact ⟨none, rfl, by simp⟩
        · exact ⟨none, rfl, by simp⟩
      obtain ⟨r3, hr3, hr3m⟩ := s3
      rw [hr3]
      try simp only [bind_ok]
      cases r3 with
      | some t =>
        have hm := hr3m rfl
        simp only [esMore, decide_eq_true_eq] at hm
        exact ⟨_, _, rfl, by unfold Inv; simp only; omega, rfl, by simp⟩
      | none =>
        try simp only [bind_ok]
        split
        · rename_i hs
          have hlen := suffix_len hs
          have h9 : sufOrLater.length = 9 := rfl
          have a1 := sl_ok license 0 (license.length - 9) (Nat.zero_le _) (by omega)
          have c1 : ((license.length - 9 : Nat) : Int) = (license.length : Int) - 9 := by omega
          rw [c1] at a1
          simp only [Int.natCast_zero] at a1
          rw [show sl license 0 ((license.length : Int) - 9) = _ from a1]
          simp only [bind_ok]
          cases licenseLookup ((license.drop 0).take (license.length - 9 - 0)) with
          | none => exact ⟨_, e, rfl, h, rfl, fun _ => rfl⟩
          | some t =>
            try simp only [bind_ok]
            have hInv : e.idx ≤ e.expr.length := h
            have a2 := sl_ok e.expr 0 (e.idx - 9) (Nat.zero_le _) (by omega)
            have c2 : ((e.idx - 9 : Nat) : Int) = (e.idx : Int) - 9 := by omega
            rw [c2] at a2
            simp only [Int.natCast_zero] at a2
            rw [show sl e.expr 0 ((e.idx : Int) - 9) = _ from a2, sl_from e.expr e.idx h]
            simp only [bind_ok]
            refine ⟨_, _, rfl, ?_, rfl, by simp⟩
            unfold Inv
            simp only [List.drop_zero, Nat.sub_zero, List.length_append, List.length_take]
            omega
        · exact ⟨_, e, rfl, h, rfl, fun _ => rfl⟩

theorem readLicense_ok (e : ES) (h : Inv e) :
    ∃ r e', readLicense e = .ok (r, e') ∧ Inv e' ∧ (r = none → e'.err = true) := by
  obtain ⟨id, e1, h1, h2, h3, h4⟩ := readID_ok e h
  simp only [readLicense, h1, bind_ok]
  split
  · rename_i herr
    exact ⟨none, e1, rfl, h2, fun _ => herr⟩
  · rename_i hne
    have hf : e1.err = false := by simpa using hne
    obtain ⟨_, hidx⟩ := h4 hf
    obtain ⟨r, e2, h5, h6, h7, h8⟩ := normalizeLicense_ok id e1 h2 (by omega)
    rw [h5]
    try simp only [bind_ok]
    cases r with
    | some ts => exact ⟨_, e2, rfl, h6, by simp⟩
    | none =>
      have : e2 = e1 := h8 rfl
      subst this
      refine ⟨none, _, rfl, ?_, fun _ => rfl⟩
      unfold Inv; try simp only [bind_ok]
      rw [h3]; exact h

theorem parseToken_ok (e : ES) (h : Inv e) : ∃ r e', parseToken e = .ok (r, e') ∧ Inv e' := by
  obtain ⟨op, e1, h1, h2⟩ := readOperator_ok e h
  simp only [parseToken, h1, bind_ok]
  split
  · exact ⟨none, e1, rfl, h2⟩
  · cases op with
    | some o => exact ⟨_, e1, rfl, h2⟩
    | none =>
      try simp only [bind_ok]
      obtain ⟨d, e2, h3, h4⟩ := readRef_ok docRefPrefix .docRef e1 h2
      rw [h3]; try simp only [bind_ok]
      split
      · exact ⟨none, e2, rfl, h4⟩
      · cases d with
        | some t => exact ⟨_, e2, rfl, h4⟩
        | none =>
          try simp only [bind_ok]
          obtain ⟨l, e3, h5, h6⟩ := readRef_ok licRefPrefix .licRef e2 h4
          rw [h5]; try simp only [bind_ok]
          split
          · exact ⟨none, e3, rfl, h6⟩
          · cases l with
            | some t => exact ⟨_, e3, rfl, h6⟩
            | none =>
              try simp only [bind_ok]
              obtain ⟨id, e4, h7, h8, h9⟩ := readLicense_ok e3 h6
              rw [h7]; try simp only [bind_ok]
              split
              · exact ⟨none, e4, rfl, h8⟩
              · rename_i hne
                cases id with
                | some ts => exact ⟨_, e4, rfl, h8⟩
                | none => exact absurd (h9 rfl) hne

theorem scanLoopG_ok : ∀ (fuel : Nat) (e : ES) (acc : List Tok), Inv e → ∃ r, scanLoopG fuel e acc = .ok r := by
  intro fuel
  induction fuel with
  | zero => intro e acc _; exact ⟨_, rfl⟩
  | succ n ih =>
    intro e acc h
    simp only [scanLoopG]
    split
    · exact ⟨_, rfl⟩
    · obtain ⟨e1, h1, h2, _⟩ := skipWhitespace_ok e h
      rw [h1]; simp only [bind_ok]
      split
      · exact ⟨_, rfl⟩
      · obtain ⟨t, e2, h3, h4⟩ := parseToken_ok e1 h2
        rw [h3]; try simp only [bind_ok]
        split
        · exact ⟨_, rfl⟩
        · cases t with
          | none => exact ⟨_, rfl⟩
          | some ts => exact ih e2 _ h4

/-- **the Go-shaped scanner returns normally on every byte string** -/
theorem scanG_ok (s : Bytes) : ∃ r, scanG s = .ok r :=
  scanLoopG_ok _ _ _ (by unfold Inv; simp)

/-- … and so does the whole Go-shaped `parse` (scanner with its buffer rewrite and look-behind, token cursor, parser) -/
theorem parseG_ok (s : Bytes) : ∃ r, parseG s = .ok r := by
  unfold parseG
  split
  · exact ⟨_, rfl⟩
  · obtain ⟨r, h⟩ := scanG_ok s
    rw [h]; simp only [bind_ok]
    cases r with
    | none => exact ⟨_, rfl⟩
    | some ts => exact parseTokens_ok ts

end Spdx.G
