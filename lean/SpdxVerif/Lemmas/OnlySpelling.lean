/-
Lemmas/OnlySpelling — `X` and `X-only` (C08): whenever both are recognised they are read as single licence tokens whose
ids sit at the same position of the range table (or are the very same token).
-/
import SpdxVerif.Lemmas.Interchange
namespace Spdx

/-! ### table obligation: the base of a listed `…-only` id -/

def posEqSome (a b : Bytes) : Bool :=
  match pos a, pos b with
  | some (i, j), some (k, l) => Nat.beq i k && Nat.beq j l
  | _, _ => false

/-- for every active id `B-only` (suffix in any letter case): `B` is not an exception id, carries no further suffix, and
    if `B` is itself a listed license id (in any letter case) it shares `B-only`'s position in the range table;
    no exception id ends in `-only` -/
def onlyBasesOK : Bool :=
  Tables.active.all (fun c =>
    if C09.lowerEndsWith sufOnly c then
      let b := c.take (c.length - sufOnly.length)
      Tables.exceptions.all (fun x => !foldEq x b) && !C09.lowerEndsWith sufOnly b && !C09.lowerEndsWith sufOrLater b &&
      (match lookup Tables.active b with
       | some d => posEqSome c d
       | none => match lookup Tables.deprecated b with
         | some d => posEqSome c d
         | none => true)
    else true) &&
  Tables.exceptions.all (fun c => !C09.lowerEndsWith sufOnly c)

theorem only_bases_ok : onlyBasesOK = true := by decide +kernel

theorem nat_beq_comm (a b : Nat) : Nat.beq a b = Nat.beq b a := by
  cases h1 : Nat.beq a b <;> cases h2 : Nat.beq b a <;> try rfl
  · have := Nat.eq_of_beq_eq_true h2; subst this; rw [Nat.beq_refl] at h1; cases h1
  · have := Nat.eq_of_beq_eq_true h1; subst this; rw [Nat.beq_refl] at h2; cases h2

theorem posEqSome_symm (a b : Bytes) : posEqSome a b = posEqSome b a := by
  unfold posEqSome
  cases pos a with
  | none => cases pos b <;> rfl
  | some p => cases pos b with
    | none => rfl
    | some q => simp only; rw [nat_beq_comm p.1 q.1, nat_beq_comm p.2 q.2]

/-- two licence ids that matching cannot tell apart: identical, or at the same (existing) position of the range table and
    both without the `-or-later` suffix -/
def IdEquiv (a b : Bytes) : Prop :=
  a = b ∨ (posEqSome a b = true ∧ sufOrLater.isSuffixOf a = false ∧ sufOrLater.isSuffixOf b = false)

theorem not_suffix_of_lower {suf w : Bytes} (h : C09.lowerEndsWith suf w = false) : suf.isSuffixOf w = false := by
  cases hs : suf.isSuffixOf w with
  | false => rfl
  | true => rw [lowerEndsWith_of_suffix suf w hs] at h; cases h

/-- **`X` and `X-only`**: if both are recognised (not followed by `+`), each is one licence token (or the same exception
    token) and the two ids are equivalent for matching -/
theorem normCore_only (x : Bytes) (t1 t2 : List Tok) (k1 k2 : Bool)
    (h1 : normCore x false = some (t1, k1)) (h2 : normCore (x ++ sufOnly) false = some (t2, k2)) :
    k1 = false ∧ k2 = false ∧
    ∃ ta tb, t1 = [ta] ∧ t2 = [tb] ∧ (ta = tb ∨ ∃ a b, ta = .lic a ∧ tb = .lic b ∧ IdEquiv a b) := by
  have hstrip : stripSuffix? (x ++ sufOnly) sufOnly = some x := (stripSuffix_some_iff _ _ _).mpr rfl
  have hob := only_bases_ok
  simp only [onlyBasesOK, Bool.and_eq_true, List.all_eq_true] at hob
  obtain ⟨hact, hexc⟩ := hob
  unfold normCore at h2
  split at h2
  · -- `X-only` is itself listed
    rename_i t' ht'
    simp only [Option.some.injEq, Prod.mk.injEq] at h2; obtain ⟨rfl, rfl⟩ := h2
    -- it is an active id (no exception id ends in -only)
    have hlic : ∃ c', t' = .lic c' ∧ c' ∈ Tables.active ∧ lower c' = lower (x ++ sufOnly) := by
      unfold licenseLookup at ht'
      split at ht'
      · rename_i c hc; simp at ht'; obtain ⟨hm, hl⟩ := lookup_some_iff _ _ _ hc; exact ⟨c, ht'.symm, hm, hl⟩
      · split at ht'
        · rename_i c hc
          obtain ⟨hm, hl⟩ := lookup_some_iff _ _ _ hc
          have := hexc c hm
          rw [(lowerEndsWith_of_lower_eq sufOnly c x hl).1] at this; cases this
        · simp at ht'
    obtain ⟨c', rfl, hc'm, hc'l⟩ := hlic
    obtain ⟨hends, hbase⟩ := lowerEndsWith_of_lower_eq sufOnly c' x hc'l
    have hc := hact c' hc'm
    simp only [hends, ↓reduceIte, Bool.and_eq_true, Bool.not_eq_true', List.all_eq_true] at hc
    obtain ⟨⟨⟨hnx, hno⟩, hnl⟩, hpos⟩ := hc
    have hxno : C09.lowerEndsWith sufOnly x = false := by unfold C09.lowerEndsWith at hno ⊢; rw [← hbase]; exact hno
    have hxnl : C09.lowerEndsWith sufOrLater x = false := by unfold C09.lowerEndsWith at hnl ⊢; rw [← hbase]; exact hnl
    have hla : lookup Tables.active x = lookup Tables.active (c'.take (c'.length - sufOnly.length)) := lookup_fold _ _ _ hbase.symm
    have hld : lookup Tables.deprecated x = lookup Tables.deprecated (c'.take (c'.length - sufOnly.length)) := lookup_fold _ _ _ hbase.symm
    have hle : lookup Tables.exceptions x = none := by
      rw [lookup_none_iff]; intro e he heq
      have := hnx e he
      rw [Bool.eq_false_iff] at this
      exact this ((foldEq_iff _ _).mpr (heq.trans hbase.symm))
    have hc'suf : sufOrLater.isSuffixOf c' = false := by
      apply not_suffix_of_lower
      cases hh : C09.lowerEndsWith sufOrLater c' with
      | false => rfl
      | true =>
        exfalso
        unfold C09.lowerEndsWith at hh hends
        rw [hc'l, lower_append'] at hh
        have := List.isSuffixOf_iff_suffix.mp hh
        obtain ⟨t, ht⟩ := this
        have := congrArg (fun l => l.reverse.take 5) ht
        simp [sufOrLater, sufOnly, lower, lowerC] at this
    unfold normCore at h1
    rw [C09.stripSuffix_none_of_lower x sufOnly hxno, C09.stripSuffix_none_of_lower x sufOrLater hxnl] at h1
    simp only [Option.bind_none, Bool.false_eq_true, ↓reduceIte] at h1
    cases hA : lookup Tables.active x with
    | some d =>
      have hdl := (lookup_some_iff _ _ _ hA).2
      simp only [licenseLookup, hA, Option.some.injEq, Prod.mk.injEq] at h1
      obtain ⟨rfl, rfl⟩ := h1
      rw [hla] at hA; rw [hA] at hpos
      refine ⟨rfl, rfl, _, _, rfl, rfl, Or.inr ⟨d, c', rfl, rfl, Or.inr ⟨?_, ?_, hc'suf⟩⟩⟩
      · rw [posEqSome_symm]; exact hpos
      · apply not_suffix_of_lower
        unfold C09.lowerEndsWith at hxnl ⊢; rw [hdl]; exact hxnl
    | none =>
      simp only [licenseLookup, hA, hle] at h1
      cases hD : lookup Tables.deprecated x with
      | none => simp [hD] at h1
      | some d =>
        have hdl := (lookup_some_iff _ _ _ hD).2
        simp only [hD, Option.some.injEq, Prod.mk.injEq] at h1
        obtain ⟨rfl, rfl⟩ := h1
        rw [hla] at hA; rw [hld] at hD; rw [hA, hD] at hpos
        refine ⟨rfl, rfl, _, _, rfl, rfl, Or.inr ⟨d, c', rfl, rfl, Or.inr ⟨?_, ?_, hc'suf⟩⟩⟩
        · rw [posEqSome_symm]; exact hpos
        · apply not_suffix_of_lower
          unfold C09.lowerEndsWith at hxnl ⊢; rw [hdl]; exact hxnl
  · rename_i hn1
    rw [hstrip] at h2
    simp only [Option.bind_some] at h2
    split at h2
    · -- `X-only` is not listed and `X` is an active / exception id: the same token
      rename_i t ht
      simp only [Option.some.injEq, Prod.mk.injEq] at h2; obtain ⟨rfl, rfl⟩ := h2
      unfold normCore at h1
      simp only [ht, Option.some.injEq, Prod.mk.injEq] at h1
      obtain ⟨rfl, rfl⟩ := h1
      exact ⟨rfl, rfl, _, _, rfl, rfl, Or.inl rfl⟩
    · -- otherwise `X-only` is not recognised
      rename_i hn2
      exfalso
      simp only [Bool.false_eq_true, ↓reduceIte] at h2
      have hs : stripSuffix? (x ++ sufOnly) sufOrLater = none := by
        cases hh : stripSuffix? (x ++ sufOnly) sufOrLater with
        | none => rfl
        | some v =>
          exfalso
          rw [stripSuffix_some_iff] at hh
          have := congrArg (fun l => l.reverse.take 5) hh
          simp [sufOrLater, sufOnly] at this
      rw [hs] at h2
      simp only [Option.bind_none] at h2
      cases hd : lookup Tables.deprecated (x ++ sufOnly) with
      | none => simp [hd] at h2
      | some c =>
        have := (deprecated_lookup_no_suffix _ c hd).1
        rw [lowerEndsWith_of_suffix _ _ (by rw [List.isSuffixOf_iff_suffix]; exact List.suffix_append _ _)] at this
        cases this

end Spdx
