/-
Lemmas/Flatten — the expansion keeps every leaf and invents none (core of C06).
-/
import SpdxVerif.Lemmas.Expand
namespace Spdx

theorem mem_flatten_appendTerms (L R : List (List Node)) (hL : L ≠ []) (hR : R ≠ []) (x : Node) :
    x ∈ (appendTerms L R).flatten ↔ x ∈ L.flatten ∨ x ∈ R.flatten := by
  simp only [appendTerms, List.mem_flatten, List.mem_flatMap, List.mem_map]
  constructor
  · rintro ⟨alt, ⟨r, hr, l, hl, rfl⟩, hx⟩
    rcases List.mem_append.mp hx with h | h
    · exact Or.inl ⟨l, hl, h⟩
    · exact Or.inr ⟨r, hr, h⟩
  · rintro (⟨l, hl, hx⟩ | ⟨r, hr, hx⟩)
    · obtain ⟨r, hr⟩ := List.exists_mem_of_ne_nil R hR
      exact ⟨l ++ r, ⟨r, hr, l, hl, rfl⟩, List.mem_append.mpr (Or.inl hx)⟩
    · obtain ⟨l, hl⟩ := List.exists_mem_of_ne_nil L hL
      exact ⟨l ++ r, ⟨r, hr, l, hl, rfl⟩, List.mem_append.mpr (Or.inr hx)⟩

theorem mem_flatten_expandTerm (n : Node) (x : Node) : x ∈ (expandTerm n).flatten ↔ x ∈ leaves n := by
  induction n with
  | lic => simp [expandTerm, leaves]
  | ref => simp [expandTerm, leaves]
  | or l r ihl ihr => simp [expandTerm, leaves, ihl, ihr]
  | and l r ihl ihr =>
    have hl := expandTerm_length_pos l
    have hr := expandTerm_length_pos r
    simp only [expandTerm, leaves, List.mem_append, ← ihl, ← ihr]
    split
    · apply mem_flatten_appendTerms
      · intro h; simp [h] at hl
      · intro h; simp [h] at hr
    · rename_i h
      match hL : expandTerm l, hR : expandTerm r with
      | [a], [b] => simp [mergeTerms]
      | [], _ => simp [hL] at hl
      | _ :: _ :: _, _ => simp [hL] at h
      | [_], [] => simp [hR] at hr
      | [_], _ :: _ :: _ => simp [hR] at h

theorem mem_flatten_perm {a b : List (List Node)} (h : a.Perm b) (x : Node) : x ∈ a.flatten ↔ x ∈ b.flatten := by
  simp only [List.mem_flatten]
  constructor
  · rintro ⟨l, hl, hx⟩; exact ⟨l, h.mem_iff.mp hl, hx⟩
  · rintro ⟨l, hl, hx⟩; exact ⟨l, h.mem_iff.mpr hl, hx⟩

theorem mem_flatten_deepSort (ll : List (List Node)) (x : Node) : x ∈ (deepSort ll).flatten ↔ x ∈ ll.flatten := by
  unfold deepSort
  rw [mem_flatten_perm (sortBy_perm _ _)]
  simp only [List.mem_flatten, List.mem_map]
  constructor
  · rintro ⟨l, ⟨l', hl', rfl⟩, hx⟩
    exact ⟨l', hl', (sortBy_perm _ l').mem_iff.mp hx⟩
  · rintro ⟨l, hl, hx⟩
    exact ⟨sortLeaves l, ⟨l, hl, rfl⟩, (sortBy_perm _ l).mem_iff.mpr hx⟩

/-- the terms that appear in the expansion are exactly the leaves of the tree -/
theorem mem_flatten_expand (n : Node) (x : Node) : x ∈ (expand n).flatten ↔ x ∈ leaves n := by
  unfold expand
  split
  · cases n <;> simp_all [Node.isLeaf, leaves]
  · rw [mem_flatten_deepSort, mem_flatten_expandTerm]

theorem dedup_mem (seen xs : List Bytes) (x : Bytes) : x ∈ dedup seen xs ↔ x ∈ xs ∧ x ∉ seen := by
  induction xs generalizing seen with
  | nil => simp [dedup]
  | cons y ys ih =>
    simp only [dedup]
    split
    · rename_i h
      rw [ih]
      simp only [List.mem_cons]
      constructor
      · rintro ⟨h1, h2⟩; exact ⟨Or.inr h1, h2⟩
      · rintro ⟨h1 | h1, h2⟩
        · subst h1; simp at h; exact absurd h h2
        · exact ⟨h1, h2⟩
    · rename_i h
      simp only [List.mem_cons, ih]
      constructor
      · rintro (rfl | ⟨h1, h2⟩)
        · exact ⟨Or.inl rfl, by simpa using h⟩
        · exact ⟨Or.inr h1, fun hc => h2 (Or.inr hc)⟩
      · rintro ⟨h1 | h1, h2⟩
        · exact Or.inl h1
        · by_cases hxy : x = y
          · exact Or.inl hxy
          · exact Or.inr ⟨h1, by rintro (hc | hc); exact hxy hc; exact h2 hc⟩

theorem dedup_nodup (seen xs : List Bytes) : (dedup seen xs).Nodup := by
  induction xs generalizing seen with
  | nil => simp [dedup]
  | cons y ys ih =>
    simp only [dedup]
    split
    · exact ih seen
    · rw [List.nodup_cons]
      refine ⟨?_, ih _⟩
      rw [dedup_mem]; simp

end Spdx
