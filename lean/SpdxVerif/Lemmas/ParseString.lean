/-
Lemmas/ParseString — string-level consequences of the scanner's compositionality: surrounding spaces and parentheses,
and the `(E) AND (F)` / `(E) OR (F)` constructions (C07, C10).
-/
import SpdxVerif.Lemmas.ScanAppend
import SpdxVerif.Lemmas.Grammar
namespace Spdx

/-- the token sequence of a string, if it scans -/
def toks (s : Bytes) : Option (List Tok) := (scan s).toOption
def toksFrom (s : Bytes) (off : Nat) : Option (List Tok) := (scanFrom s off).toOption

theorem toksFrom_off (s : Bytes) (off : Nat) : toksFrom s off = toks s := by
  unfold toksFrom toks
  rw [scan_eq_scanFrom]
  exact scanFrom_tokens_off (s.length + 1) s off 0 (by omega)

/-- **compositionality at boundaries**, on token sequences -/
theorem toks_append (a b : Bytes) (hb : isBoundary b = true) :
    toks (a ++ b) = (toks a).bind (fun ta => (toks b).map (ta ++ ·)) := by
  have h := scan_append a b hb
  have hb' := toksFrom_off b a.length
  unfold toks toksFrom at *
  rw [h]
  cases scan a with
  | error e => rfl
  | ok ta =>
    simp only [Except.toOption, Option.bind_some]
    cases hs : scanFrom b a.length with
    | error e => rw [hs] at hb'; simp only [Except.toOption] at hb'; rw [← hb']; rfl
    | ok tb => rw [hs] at hb'; simp only [Except.toOption] at hb'; rw [← hb']; rfl

theorem parse_ok_iff (s : Bytes) (n : Node) : parse s = .ok n ↔ ∃ ts, toks s = some ts ∧ parseTokens ts = some n := by
  unfold parse toks
  by_cases he : s.isEmpty = true
  · have : s = [] := by simpa using he
    subst this
    simp [scan, scanLoop, step, Except.toOption, parseTokens]
  · simp only [he, Bool.false_eq_true, ↓reduceIte]
    cases scan s with
    | error e => simp [Except.toOption]
    | ok ts =>
      simp only [Except.toOption, Option.some.injEq, exists_eq_left']
      cases parseTokens ts <;> simp

theorem valid_iff_toks (s : Bytes) : valid s = true ↔ ∃ ts n, toks s = some ts ∧ parseTokens ts = some n := by
  unfold valid
  constructor
  · intro h
    cases hp : parse s with
    | error e => simp [hp] at h
    | ok n => obtain ⟨ts, h1, h2⟩ := (parse_ok_iff s n).mp hp; exact ⟨ts, n, h1, h2⟩
  · rintro ⟨ts, n, h1, h2⟩
    rw [(parse_ok_iff s n).mpr ⟨ts, h1, h2⟩]

/-! ### single lexemes in front -/

theorem step_lparen (s : Bytes) (off : Nat) : step (40 :: s) off = .tok [.op .lparen] s := by
  simp [step_eq, isSp, lexeme, readOp, opTable]

theorem step_rparen (s : Bytes) (off : Nat) : step (41 :: s) off = .tok [.op .rparen] s := by
  simp [step_eq, isSp, lexeme, readOp, opTable]

theorem toOption_map {ε α β} (f : α → β) (x : Except ε α) : (x.map f).toOption = x.toOption.map f := by
  cases x <;> rfl

theorem toks_cons_lparen (s : Bytes) : toks (40 :: s) = (toks s).map (.op .lparen :: ·) := by
  have h : scan (40 :: s) = (scanFrom s (0 + ((40 :: s).length - s.length))).map ([.op .lparen] ++ ·) := by
    rw [scan_eq_scanFrom, scanFrom_unfold, step_lparen]
  have h2 := toksFrom_off s (0 + ((40 :: s).length - s.length))
  unfold toksFrom at h2
  unfold toks at *
  rw [h, toOption_map, h2]
  rfl

theorem toks_cons_rparen (s : Bytes) : toks (41 :: s) = (toks s).map (.op .rparen :: ·) := by
  have h : scan (41 :: s) = (scanFrom s (0 + ((41 :: s).length - s.length))).map ([.op .rparen] ++ ·) := by
    rw [scan_eq_scanFrom, scanFrom_unfold, step_rparen]
  have h2 := toksFrom_off s (0 + ((41 :: s).length - s.length))
  unfold toksFrom at h2
  unfold toks at *
  rw [h, toOption_map, h2]
  rfl

theorem toks_nil : toks [] = some [] := by
  simp [toks, scan, scanLoop, step, Except.toOption]

theorem toks_spaces (sp : Bytes) (h : sp.dropWhile isSp = []) : toks sp = some [] := by
  unfold toks
  rw [scan_eq_scanFrom, scanFrom_unfold, step_eq]
  simp [h, Except.toOption]

/-- spaces in front of boundary text are skipped -/
theorem toks_spaces_append (sp b : Bytes) (h : sp.dropWhile isSp = []) (hb : isBoundary b = true) :
    toks (sp ++ b) = toks b := by
  rw [toks_append sp b hb, toks_spaces sp h]
  simp

/-! ### parentheses around a valid expression (C07: re-spelling an entry; C10: redundant parentheses) -/

theorem toks_parens (s : Bytes) : toks (40 :: (s ++ [41])) = (toks s).map (fun ts => .op .lparen :: (ts ++ [.op .rparen])) := by
  rw [toks_cons_lparen, toks_append s [41] (by rfl), toks_cons_rparen, toks_nil]
  cases toks s <;> simp

theorem D_parens {ts : List Tok} {n : Node} (h : D .expr ts n) : D .expr (.op .lparen :: (ts ++ [.op .rparen])) n :=
  .or1 (.and1 (.paren h))

/-- a valid expression stays valid, with the same tree, when it is put in parentheses -/
theorem parse_parens (s : Bytes) (n : Node) (h : parse s = .ok n) : parse (40 :: (s ++ [41])) = .ok n := by
  obtain ⟨ts, h1, h2⟩ := (parse_ok_iff s n).mp h
  rw [parse_ok_iff]
  refine ⟨.op .lparen :: (ts ++ [.op .rparen]), ?_, ?_⟩
  · rw [toks_parens, h1]; rfl
  · exact (parseTokens_iff _ _).mpr (D_parens ((parseTokens_iff _ _).mp h2))

/-- trailing spaces never matter -/
theorem parse_trailing_spaces (s sp : Bytes) (hsp : sp.dropWhile isSp = []) (n : Node) (h : parse s = .ok n) :
    parse (s ++ sp) = .ok n := by
  obtain ⟨ts, h1, h2⟩ := (parse_ok_iff s n).mp h
  rw [parse_ok_iff]
  refine ⟨ts, ?_, h2⟩
  have hb : isBoundary sp = true := by
    cases sp with
    | nil => rfl
    | cons c r =>
      by_cases hc : isSp c = true
      · simp only [isSp, beq_iff_eq] at hc; subst hc; rfl
      · simp [List.dropWhile_cons, hc] at hsp
  rw [toks_append s sp hb, h1, toks_spaces sp hsp]
  simp

/-! ### `(E) AND (F)` and `(E) OR (F)` -/

def bAndMid : Bytes := [41,32,65,78,68,32,40]  -- ") AND ("
def bOrMid : Bytes := [41,32,79,82,32,40]      -- ") OR ("

theorem toks_and_mid (t : Bytes) : toks (bAndMid ++ t) = (toks t).map (fun x => .op .rparen :: .op .and_ :: .op .lparen :: x) := by
  show toks (41 :: ([32,65,78,68] ++ ([32] ++ (40 :: t)))) = _
  rw [toks_cons_rparen, toks_append [32,65,78,68] _ (by rfl), toks_append [32] _ (by rfl), toks_cons_lparen]
  have h1 : toks [32,65,78,68] = some [.op .and_] := by decide +kernel
  have h2 : toks [32] = some [] := by decide +kernel
  rw [h1, h2]
  cases toks t <;> simp

theorem toks_or_mid (t : Bytes) : toks (bOrMid ++ t) = (toks t).map (fun x => .op .rparen :: .op .or_ :: .op .lparen :: x) := by
  show toks (41 :: ([32,79,82] ++ ([32] ++ (40 :: t)))) = _
  rw [toks_cons_rparen, toks_append [32,79,82] _ (by rfl), toks_append [32] _ (by rfl), toks_cons_lparen]
  have h1 : toks [32,79,82] = some [.op .or_] := by decide +kernel
  have h2 : toks [32] = some [] := by decide +kernel
  rw [h1, h2]
  cases toks t <;> simp

/-- `"(" E ") AND (" F ")"` -/
def andText (e f : Bytes) : Bytes := 40 :: (e ++ (bAndMid ++ (f ++ [41])))
def orText (e f : Bytes) : Bytes := 40 :: (e ++ (bOrMid ++ (f ++ [41])))

theorem toks_andText (e f : Bytes) (te tf : List Tok) (he : toks e = some te) (hf : toks f = some tf) :
    toks (andText e f) = some (.op .lparen :: (te ++ (.op .rparen :: .op .and_ :: .op .lparen :: (tf ++ [.op .rparen])))) := by
  unfold andText
  rw [toks_cons_lparen, toks_append e _ (by rfl), toks_and_mid, toks_append f [41] (by rfl), toks_cons_rparen, toks_nil, he, hf]
  simp

theorem toks_orText (e f : Bytes) (te tf : List Tok) (he : toks e = some te) (hf : toks f = some tf) :
    toks (orText e f) = some (.op .lparen :: (te ++ (.op .rparen :: .op .or_ :: .op .lparen :: (tf ++ [.op .rparen])))) := by
  unfold orText
  rw [toks_cons_lparen, toks_append e _ (by rfl), toks_or_mid, toks_append f [41] (by rfl), toks_cons_rparen, toks_nil, he, hf]
  simp

/-- **`(E) AND (F)` parses to the AND of the two trees** -/
theorem parse_andText (e f : Bytes) (ne nf : Node) (he : parse e = .ok ne) (hf : parse f = .ok nf) :
    parse (andText e f) = .ok (.and ne nf) := by
  obtain ⟨te, h1, h2⟩ := (parse_ok_iff e ne).mp he
  obtain ⟨tf, h3, h4⟩ := (parse_ok_iff f nf).mp hf
  rw [parse_ok_iff]
  refine ⟨_, toks_andText e f te tf h1 h3, ?_⟩
  have de := (parseTokens_iff _ _).mp h2
  have df := (parseTokens_iff _ _).mp h4
  apply (parseTokens_iff _ _).mpr
  have a1 : D .atom (.op .lparen :: te ++ [.op .rparen]) ne := .paren de
  have a2 : D .atom (.op .lparen :: tf ++ [.op .rparen]) nf := .paren df
  have := D.or1 (D.andC a1 (D.and1 a2))
  simpa using this

theorem parse_orText (e f : Bytes) (ne nf : Node) (he : parse e = .ok ne) (hf : parse f = .ok nf) :
    parse (orText e f) = .ok (.or ne nf) := by
  obtain ⟨te, h1, h2⟩ := (parse_ok_iff e ne).mp he
  obtain ⟨tf, h3, h4⟩ := (parse_ok_iff f nf).mp hf
  rw [parse_ok_iff]
  refine ⟨_, toks_orText e f te tf h1 h3, ?_⟩
  have de := (parseTokens_iff _ _).mp h2
  have df := (parseTokens_iff _ _).mp h4
  apply (parseTokens_iff _ _).mpr
  have a1 : D .atom (.op .lparen :: te ++ [.op .rparen]) ne := .paren de
  have a2 : D .atom (.op .lparen :: tf ++ [.op .rparen]) nf := .paren df
  have := D.orC (D.and1 a1) (D.or1 (D.and1 a2))
  simpa using this

end Spdx

namespace Spdx

/-! ### leading spaces -/

theorem readOp_plus_head {s1 r : Bytes} (h : readOp s1 = some (.plus, r)) : s1.head? = some 43 := by
  unfold readOp at h
  cases hf : opTable.find? (fun p => p.1.isPrefixOf s1) with
  | none => simp [hf] at h
  | some p =>
    simp only [hf, Option.map_some, Option.some.injEq, Prod.mk.injEq] at h
    have hm := List.mem_of_find?_eq_some hf
    have hp := List.find?_some hf
    simp only [opTable, List.mem_cons, List.not_mem_nil, or_false] at hm
    rcases hm with rfl | rfl | rfl | rfl | rfl | rfl | rfl <;> simp at h
    cases s1 with
    | nil => simp at hp
    | cons c cs => simp at hp; simp [hp]

theorem lexeme_flag (s1 : Bytes) (o : Nat) (f f' : Bool) (h : s1.head? ≠ some 43) : lexeme s1 o f = lexeme s1 o f' := by
  unfold lexeme
  cases hr : readOp s1 with
  | none => rfl
  | some p =>
    obtain ⟨op, r⟩ := p
    have : op ≠ .plus := by
      intro hop; subst hop; exact h (readOp_plus_head hr)
    simp [this]

theorem step_leading_spaces (sp s : Bytes) (off : Nat) (hsp : sp.dropWhile isSp = []) (hs : s.head? ≠ some 43) :
    step (sp ++ s) off = step s (off + sp.length) := by
  rw [step_eq, step_eq]
  obtain ⟨h1, h2⟩ := takeWhile_all isSp sp s hsp
  rw [h1, h2]
  by_cases hd : s.dropWhile isSp = []
  · simp [hd]
  · simp only [hd, ↓reduceIte, List.length_append, Nat.add_assoc]
    by_cases htw : s.takeWhile isSp = []
    · -- `s` starts with its lexeme: the flag is irrelevant because that lexeme is not `+`
      have hds : s.dropWhile isSp = s := by
        cases s with
        | nil => rfl
        | cons c r =>
          by_cases hc : isSp c = true
          · simp [List.takeWhile_cons, hc] at htw
          · simp [List.dropWhile_cons, hc]
      rw [hds]
      exact lexeme_flag s _ _ _ hs
    · have : sp ++ s.takeWhile isSp ≠ [] := by
        intro h; exact htw (List.append_eq_nil_iff.mp h).2
      simp [htw, this]

/-- leading spaces never matter (unless the text begins with `+`, which is invalid either way) -/
theorem toks_leading_spaces (sp s : Bytes) (hsp : sp.dropWhile isSp = []) (hs : s.head? ≠ some 43) :
    toks (sp ++ s) = toks s := by
  unfold toks
  rw [scan_eq_scanFrom, scan_eq_scanFrom, scanFrom_unfold (sp ++ s), scanFrom_unfold s,
    step_leading_spaces sp s 0 hsp hs]
  have hoff := step_off s (0 + sp.length) 0
  cases h1 : step s (0 + sp.length) with
  | done => cases h2 : step s 0 <;> simp_all [Step.eraseErr]
  | err e => cases h2 : step s 0 <;> simp_all [Step.eraseErr, Except.toOption]
  | tok ts r =>
    cases h2 : step s 0 with
    | done => simp_all [Step.eraseErr]
    | err e => simp_all [Step.eraseErr]
    | tok ts' r' =>
      rw [h1, h2] at hoff
      simp only [Step.eraseErr, Step.tok.injEq] at hoff
      obtain ⟨rfl, rfl⟩ := hoff
      simp only
      rw [toOption_map, toOption_map]
      have a := toksFrom_off r (0 + ((sp ++ s).length - r.length))
      have b := toksFrom_off r (0 + (s.length - r.length))
      unfold toksFrom at a b
      rw [a, b]

theorem parse_leading_spaces (sp s : Bytes) (hsp : sp.dropWhile isSp = []) (n : Node) (h : parse s = .ok n) :
    parse (sp ++ s) = .ok n := by
  obtain ⟨ts, h1, h2⟩ := (parse_ok_iff s n).mp h
  rw [parse_ok_iff]
  refine ⟨ts, ?_, h2⟩
  by_cases hs : s.head? = some 43
  · -- impossible: a valid expression cannot begin with `+`
    exfalso
    cases s with
    | nil => simp at hs
    | cons c r =>
      simp only [List.head?_cons, Option.some.injEq] at hs; subst hs
      have hstep : step (43 :: r) 0 = .tok [.op .plus] r := by
        simp [step_eq, isSp, lexeme, readOp, opTable]
      unfold toks at h1
      rw [scan_eq_scanFrom, scanFrom_unfold, hstep] at h1
      simp only at h1
      cases hr : scanFrom r (0 + ((43 :: r).length - r.length)) with
      | error e => rw [hr] at h1; simp [Except.map, Except.toOption] at h1
      | ok t =>
        rw [hr] at h1; simp only [Except.map, Except.toOption, Option.some.injEq] at h1
        subst h1
        have hd := (parseTokens_iff _ _).mp h2
        -- no derivation starts with `+`
        have key : ∀ lv ts n, D lv ts n → ts.head? ≠ some (.op .plus) := by
          intro lv ts n hd
          induction hd with
          | ref0 | ref1 | lic | licP | licW | licPW => simp
          | paren _ _ => simp
          | and1 _ ih => exact ih
          | @andC a b _ _ ha _ iha _ =>
            have := D_len_pos ha
            cases a with
            | nil => simp at this
            | cons x xs => simpa using iha
          | or1 _ ih => exact ih
          | @orC a b _ _ ha _ iha _ =>
            have := D_len_pos ha
            cases a with
            | nil => simp at this
            | cons x xs => simpa using iha
        exact key _ _ _ hd rfl
  · rw [toks_leading_spaces sp s hsp hs, h1]

end Spdx
