/-
Lemmas/GoSlices — the index / slice expressions of spdxexp/satisfies.go stay in range (layer G, part 4), and the
Go-shaped loops compute what the main model says.
-/
import SpdxVerif.Model.GoSlices
import SpdxVerif.Lemmas.GoDeref
import SpdxVerif.Lemmas.Expand
namespace Spdx.G

theorem idx_ok {α} (l : List α) (i : Nat) (h : i < l.length) : idx l i = .ok l[i] := by
  unfold idx; rw [List.getElem?_eq_getElem h]

theorem setIdx_ok {α} (l : List α) (i : Nat) (x : α) (h : i < l.length) : setIdx l i x = .ok (l.set i x) := by
  unfold setIdx; rw [if_pos h]

theorem slicePrefix_ok {α} (l : List α) (n : Nat) (h : n ≤ l.length) : slicePrefix l n = .ok (l.take n) := by
  unfold slicePrefix; rw [if_pos h]

theorem mem_set_cases {α} {l : List α} {i : Nat} {x y : α} (h : y ∈ l.set i x) : y ∈ l ∨ y = x := by
  induction l generalizing i with
  | nil => simp at h
  | cons a as ih =>
    cases i with
    | zero =>
      simp only [List.set_cons_zero, List.mem_cons] at h
      rcases h with h | h
      · exact .inr h
      · exact .inl (List.mem_cons_of_mem _ h)
    | succ i =>
      simp only [List.set_cons_succ, List.mem_cons] at h
      rcases h with h | h
      · exact .inl (h ▸ List.mem_cons_self)
      · rcases ih h with h' | h'
        · exact .inl (List.mem_cons_of_mem _ h')
        · exact .inr h'

/-! ### sortAndDedup -/

/-- the loop never leaves the array: with `prev ≤ curr`, `prev ≤ len` and only terms in the array, it returns an array of
    the same length, still only terms, and a `prev` that is a legal slice bound -/
theorem dedupLoopG_ok (fuel : Nat) (nodes : List Node) (prev curr : Nat)
    (hl : ∀ x ∈ nodes, x.isLeaf = true) (h1 : 1 ≤ curr) (hpc : prev ≤ curr) (hpl : prev ≤ nodes.length) :
    ∃ arr p, dedupLoopG fuel nodes prev curr = .ok (arr, p) ∧ arr.length = nodes.length ∧ p ≤ arr.length ∧
      (∀ x ∈ arr, x.isLeaf = true) := by
  induction fuel generalizing nodes prev curr with
  | zero => exact ⟨nodes, prev, rfl, rfl, hpl, hl⟩
  | succ fuel ih =>
    unfold dedupLoopG
    by_cases hc : curr < nodes.length
    · rw [if_pos hc]
      have hc1 : curr - 1 < nodes.length := by omega
      rw [idx_ok _ _ hc1, idx_ok _ _ hc]
      simp only [Out.bind]
      rw [renderG_leaf _ (hl _ (List.getElem_mem hc1)), renderG_leaf _ (hl _ (List.getElem_mem hc))]
      simp only [Out.bind]
      split
      · have hp : prev < nodes.length := by omega
        rw [setIdx_ok _ _ _ hp]
        simp only [Out.bind]
        obtain ⟨arr, p, h, hlen, hple, hleaf⟩ := ih (nodes.set prev nodes[curr]) (prev + 1) (curr + 1)
          (fun x hx => by
            rcases mem_set_cases hx with h | h
            · exact hl x h
            · exact h ▸ hl _ (List.getElem_mem hc))
          (by omega) (by omega) (by simp only [List.length_set]; omega)
        exact ⟨arr, p, h, by simpa using hlen, hple, hleaf⟩
      · exact ih nodes prev (curr + 1) hl (by omega) (by omega) hpl
    · rw [if_neg hc]
      exact ⟨nodes, prev, rfl, rfl, hpl, hl⟩

theorem sortLeaves_mem (l : List Node) (x : Node) : x ∈ sortLeaves l ↔ x ∈ l :=
  (sortBy_perm _ l).mem_iff

theorem sortLeaves_length (l : List Node) : (sortLeaves l).length = l.length :=
  (sortBy_perm _ l).length_eq

/-- **`sortAndDedup` never indexes outside its array, never slices beyond it and never dereferences a nil string**, for
    the nodes `stringsToNodes` lets through (terms) -/
theorem sortAndDedupG_ok (nodes : List Node) (hl : ∀ x ∈ nodes, x.isLeaf = true) :
    ∃ arr front, sortAndDedupG nodes = .ok (arr, front) ∧ arr.length = nodes.length := by
  unfold sortAndDedupG
  split
  · exact ⟨nodes, nodes, rfl, rfl⟩
  · unfold keysG
    rw [mapM'_ok renderG render nodes (fun x hx => renderG_leaf x (hl x hx))]
    simp only [Out.bind]
    obtain ⟨arr, p, h, hlen, hple, _⟩ := dedupLoopG_ok (sortLeaves nodes).length (sortLeaves nodes) 1 1
      (fun x hx => hl x ((sortLeaves_mem nodes x).mp hx)) (Nat.le_refl _) (Nat.le_refl _)
      (by rw [sortLeaves_length]; omega)
    rw [h]
    simp only []
    rw [slicePrefix_ok _ _ hple]
    exact ⟨arr, arr.take p, rfl, by rw [hlen, sortLeaves_length]⟩

/-! ### the Go-shaped loop of sortAndDedup computes the model's `dedupInPlace` -/

theorem getElem?_of_drop_eq {α} {a o : List α} {p : Nat} (h : a.drop p = o.drop p) (i : Nat) (hi : p ≤ i) : a[i]? = o[i]? := by
  have h1 : (a.drop p)[i - p]? = (o.drop p)[i - p]? := by rw [h]
  simp only [List.getElem?_drop] at h1
  have : p + (i - p) = i := by omega
  rwa [this] at h1

theorem dedupLoopG_eq (ys : List Node) : ∀ (fuel : Nat) (pre : List Node) (p : Node) (arr : List Node) (prev : Nat),
    (∀ x ∈ pre ++ p :: ys, x.isLeaf = true) →
    arr.length = (pre ++ p :: ys).length →
    arr.drop prev = (pre ++ p :: ys).drop prev →
    1 ≤ prev → prev ≤ pre.length + 1 →
    arr[pre.length]? = some p →
    ys.length ≤ fuel →
    dedupLoopG fuel arr prev (pre.length + 1) =
      .ok (dedupInPlace.go p (arr.take prev).reverse ys ++ (pre ++ p :: ys).drop (dedupInPlace.go p (arr.take prev).reverse ys).length,
           (dedupInPlace.go p (arr.take prev).reverse ys).length) := by
  induction ys with
  | nil =>
    intro fuel pre p arr prev _ hlen hdrop _ hpc _ _
    have hnot : ¬ (pre.length + 1 < arr.length) := by simp only [List.length_append, List.length_cons, List.length_nil] at hlen; omega
    have hres : dedupLoopG fuel arr prev (pre.length + 1) = .ok (arr, prev) := by
      cases fuel with
      | zero => rfl
      | succ f => unfold dedupLoopG; rw [if_neg hnot]
    rw [hres]
    simp only [dedupInPlace.go, List.reverse_reverse, List.length_take]
    have hp : min prev arr.length = prev := by
      simp only [List.length_append, List.length_cons, List.length_nil] at hlen; omega
    rw [hp, ← hdrop, List.take_append_drop]
  | cons y ys ih =>
    intro fuel pre p arr prev hleaf hlen hdrop h1 hpc hp hf
    cases fuel with
    | zero => simp at hf
    | succ fuel =>
      have hlen' : arr.length = pre.length + 1 + (ys.length + 1) := by
        simp only [List.length_append, List.length_cons] at hlen; omega
      have hc : pre.length + 1 < arr.length := by omega
      have hy : arr[pre.length + 1]? = some y := by
        rw [getElem?_of_drop_eq hdrop (pre.length + 1) hpc]
        have : pre ++ p :: y :: ys = (pre ++ [p]) ++ y :: ys := by simp
        rw [this, List.getElem?_append_right (by simp)]
        simp
      have hpl : pre.length < arr.length := by omega
      have hpv : arr[pre.length] = p := by
        have := List.getElem?_eq_getElem hpl
        rw [this] at hp; exact Option.some.inj hp
      have hyv : arr[pre.length + 1] = y := by
        have := List.getElem?_eq_getElem hc
        rw [this] at hy; exact Option.some.inj hy
      have hpleaf : p.isLeaf = true := hleaf p (by simp)
      have hyleaf : y.isLeaf = true := hleaf y (by simp)
      have hassoc : pre ++ p :: y :: ys = (pre ++ [p]) ++ y :: ys := by simp
      have hprelen : (pre ++ [p]).length = pre.length + 1 := by simp
      unfold dedupLoopG
      rw [if_pos hc]
      have e1 : pre.length + 1 - 1 = pre.length := by omega
      rw [e1, idx_ok _ _ hpl, idx_ok _ _ hc, hpv, hyv]
      simp only [Out.bind]
      rw [renderG_leaf _ hpleaf, renderG_leaf _ hyleaf]
      simp only [Out.bind, dedupInPlace.go]
      by_cases hne : (render p != render y) = true
      · rw [if_pos hne, if_pos hne]
        have hpr : prev < arr.length := by omega
        rw [setIdx_ok _ _ _ hpr]
        simp only [Out.bind]
        have hih := ih fuel (pre ++ [p]) y (arr.set prev y) (prev + 1)
          (by rw [← hassoc]; exact hleaf)
          (by rw [← hassoc, List.length_set]; exact hlen)
          (by
            rw [← hassoc, List.drop_set_of_lt (by omega : prev < prev + 1)]
            have := congrArg (List.drop 1) hdrop
            simpa [List.drop_drop, Nat.add_comm] using this)
          (by omega) (by rw [hprelen]; omega)
          (by
            rw [hprelen]
            by_cases hq : prev = pre.length + 1
            · subst hq; rw [List.getElem?_set_self hc]
            · rw [List.getElem?_set_ne hq]; exact hy)
          (by simpa using hf)
        rw [hprelen] at hih
        rw [hih, ← hassoc]
        have htake : (List.take (prev + 1) (arr.set prev y)).reverse = y :: (List.take prev arr).reverse := by
          rw [List.take_succ_eq_append_getElem (by rw [List.length_set]; exact hpr), List.take_set_of_le (Nat.le_refl prev)]
          simp
        rw [htake]
      · rw [if_neg hne, if_neg hne]
        have hih := ih fuel (pre ++ [p]) y arr prev
          (by rw [← hassoc]; exact hleaf)
          (by rw [← hassoc]; exact hlen)
          (by rw [← hassoc]; exact hdrop)
          h1 (by rw [hprelen]; omega)
          (by rw [hprelen]; exact hy)
          (by simpa using hf)
        rw [hprelen] at hih
        rw [hih, ← hassoc]

/-- **refinement**: the Go-shaped `sortAndDedup` (index arithmetic, in-place writes, final slice) leaves in the array
    exactly what the main model's `sortAndDedupArray` says — the array `Satisfies` goes on to search -/
theorem sortAndDedupG_eq (nodes : List Node) (hl : ∀ x ∈ nodes, x.isLeaf = true) :
    ∃ front, sortAndDedupG nodes = .ok (sortAndDedupArray nodes, front) := by
  unfold sortAndDedupG sortAndDedupArray
  by_cases h : nodes.length ≤ 1
  · rw [if_pos h, if_pos h]; exact ⟨nodes, rfl⟩
  · rw [if_neg h, if_neg h]
    unfold keysG
    rw [mapM'_ok renderG render nodes (fun x hx => renderG_leaf x (hl x hx))]
    simp only [Out.bind]
    have hsl := sortLeaves_length nodes
    cases hs : sortLeaves nodes with
    | nil => rw [hs] at hsl; simp at hsl; omega
    | cons x xs =>
      have hleaf : ∀ z ∈ x :: xs, z.isLeaf = true := fun z hz => hl z ((sortLeaves_mem nodes z).mp (hs ▸ hz))
      have := dedupLoopG_eq xs (x :: xs).length [] x (x :: xs) 1 (by simpa using hleaf) (by simp) (by simp)
        (Nat.le_refl _) (by simp) (by simp) (by simp)
      simp only [List.length_nil, Nat.zero_add, List.nil_append, List.take_succ_cons, List.take_zero, List.reverse_cons,
        List.reverse_nil] at this
      rw [this]
      simp only [dedupInPlace]
      have hle : (dedupInPlace.go x [x] xs).length ≤
          (dedupInPlace.go x [x] xs ++ List.drop (dedupInPlace.go x [x] xs).length (x :: xs)).length := by
        simp
      rw [slicePrefix_ok _ _ hle]
      exact ⟨_, rfl⟩

/-! ### the comparator of deepSort -/

theorem bytesLt_irrefl (a : Bytes) : bytesLt a a = false := by
  induction a with
  | nil => rfl
  | cons x xs ih => simp [bytesLt, ih]

theorem bytesLt_total {a b : Bytes} (h : a ≠ b) : bytesLt a b = true ∨ bytesLt b a = true := by
  induction a generalizing b with
  | nil =>
    cases b with
    | nil => exact absurd rfl h
    | cons y ys => exact .inl rfl
  | cons x xs ih =>
    cases b with
    | nil => exact .inr rfl
    | cons y ys =>
      simp only [bytesLt]
      by_cases h1 : x < y
      · simp [h1]
      · by_cases h2 : y < x
        · simp [h2]
        · have hxy : x = y := by omega
          subst hxy
          simp only [Nat.lt_irrefl, ↓reduceIte]
          exact ih (fun e => h (by rw [e]))

theorem bytesLt_asymm {a b : Bytes} (h : bytesLt a b = true) : bytesLt b a = false := by
  induction a generalizing b with
  | nil =>
    cases b with
    | nil => rfl
    | cons y ys => rfl
  | cons x xs ih =>
    cases b with
    | nil => simp [bytesLt] at h
    | cons y ys =>
      simp only [bytesLt] at h ⊢
      by_cases h1 : x < y
      · have : ¬ y < x := by omega
        simp [h1, this]
      · by_cases h2 : y < x
        · simp [h1, h2] at h
        · simp only [h1, h2, ↓reduceIte] at h ⊢
          exact ih h

/-- **the comparator indexes `nodes2d[i][k]` only below `len(nodes2d[i])`** and computes the element-wise order of the model -/
theorem lessG_ok (fuel : Nat) (a b : List Node) (k : Nat)
    (ha : ∀ x ∈ a, x.isLeaf = true) (hb : ∀ x ∈ b, x.isLeaf = true) (hf : b.length - k ≤ fuel) :
    lessG fuel a b k = .ok (listLt ((a.drop k).map render) ((b.drop k).map render)) := by
  induction fuel generalizing k with
  | zero =>
    have : b.drop k = [] := List.drop_eq_nil_of_le (by omega)
    rw [this]
    unfold lessG
    cases h : (a.drop k).map render <;> rfl
  | succ fuel ih =>
    unfold lessG
    by_cases hk : k < b.length
    · rw [if_pos hk, List.drop_eq_getElem_cons hk]
      by_cases hka : k ≥ a.length
      · rw [if_pos hka, List.drop_eq_nil_of_le hka]; rfl
      · rw [if_neg hka]
        have hka' : k < a.length := by omega
        rw [List.drop_eq_getElem_cons hka', idx_ok _ _ hka', idx_ok _ _ hk]
        simp only [Out.bind]
        rw [renderG_leaf _ (ha _ (List.getElem_mem hka')), renderG_leaf _ (hb _ (List.getElem_mem hk))]
        simp only [Out.bind, List.map_cons, listLt]
        by_cases he : render a[k] = render b[k]
        · rw [he]
          simp only [bne_self_eq_false, Bool.false_eq_true, ↓reduceIte, bytesLt_irrefl]
          exact ih (k + 1) (by omega)
        · have hne : (render a[k] != render b[k]) = true := by simpa using he
          rw [if_pos hne]
          rcases bytesLt_total he with h | h
          · rw [h]; rfl
          · rw [bytesLt_asymm h, h]; rfl
    · rw [if_neg hk]
      have : b.drop k = [] := List.drop_eq_nil_of_le (by omega)
      rw [this]
      cases h : (a.drop k).map render <;> rfl

theorem deepSortGuardG_ok (ll : List (List Node)) : ∃ b, deepSortGuardG ll = .ok b := by
  unfold deepSortGuardG
  split
  · exact ⟨_, rfl⟩
  · split
    · rename_i h
      have h0 : 0 < ll.length := by
        have : ll.length = 1 := by simpa using h
        omega
      rw [idx_ok _ _ h0]
      exact ⟨_, rfl⟩
    · exact ⟨_, rfl⟩

/-! ### mergeTerms -/

theorem mergeInnerG_ok (fuel : Nat) (results : List (List Node)) (r : List Node) (j : Nat)
    (hf : fuel + j = results.length) :
    mergeInnerG fuel results r j = .ok (results.take j ++ (results.drop j).map (· ++ r)) := by
  induction fuel generalizing results j with
  | zero =>
    have hj : j = results.length := by omega
    subst hj
    simp [mergeInnerG]
  | succ fuel ih =>
    unfold mergeInnerG
    have hj : j < results.length := by omega
    rw [idx_ok _ _ hj]
    simp only [Out.bind]
    rw [setIdx_ok _ _ _ hj]
    simp only [Out.bind]
    rw [ih (results.set j (results[j] ++ r)) (j + 1) (by simp only [List.length_set]; omega)]
    congr 1
    rw [List.drop_eq_getElem_cons hj, List.drop_set_of_lt (by omega : j < j + 1),
      List.take_succ_eq_append_getElem (by simp only [List.length_set]; exact hj), List.take_set_of_le (Nat.le_refl j)]
    simp only [List.getElem_set_self, List.map_cons, List.append_assoc, List.singleton_append]

/-- **`mergeTerms` writes `results[j]` only for `j` below `len(results)`** and computes what the model says -/
theorem mergeTermsG_ok (L R : List (List Node)) : mergeTermsG L R = .ok (mergeTerms L R) := by
  induction R generalizing L with
  | nil => rfl
  | cons r rs ih =>
    unfold mergeTermsG
    rw [mergeInnerG_ok L.length L r 0 (by omega)]
    simp only [Out.bind, List.take_zero, List.drop_zero, List.nil_append]
    rw [ih]
    rfl

/-! ### stringsToNodes -/

theorem fillG_ok {α} (fuel : Nat) (nodes : List (Option α)) (xs : List α) (i : Nat) (h : i + xs.length ≤ nodes.length) :
    ∃ out, fillG fuel nodes xs i = .ok out ∧ out.length = nodes.length := by
  induction fuel generalizing nodes xs i with
  | zero => exact ⟨nodes, rfl, rfl⟩
  | succ fuel ih =>
    cases xs with
    | nil => exact ⟨nodes, rfl, rfl⟩
    | cons x xs =>
      unfold fillG
      have hi : i < nodes.length := by simp only [List.length_cons] at h; omega
      rw [setIdx_ok _ _ _ hi]
      simp only [Out.bind]
      obtain ⟨out, h1, h2⟩ := ih (nodes.set i (some x)) xs (i + 1) (by simp only [List.length_set, List.length_cons] at h ⊢; omega)
      exact ⟨out, h1, by simpa using h2⟩

end Spdx.G
