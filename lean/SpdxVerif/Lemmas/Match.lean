/-
Lemmas/Match — algebra of the single-term matching relation.
-/
import SpdxVerif.Spec.Eval
namespace Spdx

theorem foldEq_iff (a b : Bytes) : foldEq a b = true ↔ lower a = lower b := by
  induction a generalizing b with
  | nil => cases b <;> simp [foldEq, lower]
  | cons x xs ih =>
    cases b with
    | nil => simp [foldEq, lower]
    | cons y ys =>
      simp only [foldEq, Bool.and_eq_true, lower, List.map_cons, List.cons.injEq]
      rw [ih ys]
      simp [lower]

theorem foldEq_symm (a b : Bytes) : foldEq a b = foldEq b a := by
  rw [Bool.eq_iff_iff, foldEq_iff, foldEq_iff]; exact eq_comm

theorem foldEq_refl (a : Bytes) : foldEq a a = true := (foldEq_iff a a).mpr rfl

theorem sameGroup_symm (a b) : sameGroup a b = sameGroup b a := by
  cases a <;> cases b <;> simp [sameGroup]
  rename_i x y; cases x; cases y; simp [sameGroup]; exact Bool.beq_comm

theorem compareEQ_symm (a b : Bytes) : compareEQ a b = compareEQ b a := by
  simp only [compareEQ]
  have h1 : (a == b) = (b == a) := Bool.beq_comm
  rw [h1]
  congr 1
  cases pos a <;> cases pos b <;> simp
  rename_i x y; cases x; cases y
  simp only
  rw [Bool.beq_comm (a := _) (b := _)]
  congr 1
  exact Bool.beq_comm

theorem matchLeaf_symm (x y : Node) : matchLeaf x y = matchLeaf y x := by
  cases x <;> cases y <;> simp only [matchLeaf]
  · rename_i a pa ea b pb eb
    have he : (ea != eb) = (eb != ea) := by simp [bne, Bool.beq_comm]
    rw [he, foldEq_symm, sameGroup_symm (pos a) (pos b), compareEQ_symm a b]
    cases pa <;> cases pb <;> simp
  · rename_i da a db b
    rw [Bool.beq_comm (a := a), Bool.beq_comm (a := da)]

theorem matchLeaf_refl (x : Node) (h : x.isLeaf = true) : matchLeaf x x = true := by
  cases x <;> simp_all [matchLeaf, Node.isLeaf, foldEq_refl]

end Spdx
