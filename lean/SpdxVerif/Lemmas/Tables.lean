/-
Lemmas/Tables — lifting the kernel-decided table checks to the statements used by the properties:
fold-uniqueness (decided by sorting encoded keys) ⇒ the first-match, case-insensitive `lookup` of a listed id returns
that very id, and ids of different lists never shadow one another.
-/
import SpdxVerif.Spec.TableChecks
import SpdxVerif.Lemmas.Match
namespace Spdx

/-! ### the merge sort is a permutation whatever the fuel -/

theorem mergeN_perm : ∀ (f : Nat) (xs ys : List Nat), (mergeN f xs ys).Perm (xs ++ ys) := by
  intro f
  induction f with
  | zero => intro xs ys; simp [mergeN]
  | succ f ih =>
    intro xs ys
    cases xs with
    | nil => simp [mergeN]
    | cons x xs =>
      cases ys with
      | nil => simp [mergeN]
      | cons y ys =>
        simp only [mergeN]
        split
        · exact List.Perm.cons x (ih xs (y :: ys))
        · have := ih (x :: xs) ys
          exact (List.Perm.cons y this).trans (List.perm_middle.symm)

theorem splitN_perm : ∀ (l : List Nat), ((splitN l).1 ++ (splitN l).2).Perm l := by
  intro l
  induction l using splitN.induct with
  | case1 => simp [splitN]
  | case2 x => simp [splitN]
  | case3 x y r ih =>
    simp only [splitN, List.cons_append]
    refine List.Perm.cons x ?_
    exact (List.perm_middle).trans (List.Perm.cons y ih)

theorem msortN_perm : ∀ (f : Nat) (l : List Nat), (msortN f l).Perm l := by
  intro f
  induction f with
  | zero => intro l; simp [msortN]
  | succ f ih =>
    intro l
    match l with
    | [] => simp [msortN]
    | [x] => simp [msortN]
    | x :: y :: r =>
      simp only [msortN]
      refine (mergeN_perm _ _ _).trans ?_
      exact (List.Perm.append (ih _) (ih _)).trans (splitN_perm _)

theorem strictAsc_lt_all : ∀ (x : Nat) (l : List Nat), strictAsc (x :: l) = true → ∀ y ∈ l, x < y := by
  intro x l
  induction l generalizing x with
  | nil => simp
  | cons z l ih =>
    intro h y hy
    simp only [strictAsc, Bool.and_eq_true] at h
    have hxz : x < z := by simpa [Nat.blt_eq] using h.1
    rcases List.mem_cons.mp hy with rfl | hy
    · exact hxz
    · exact Nat.lt_trans hxz (ih z h.2 y hy)

theorem strictAsc_nodup : ∀ (l : List Nat), strictAsc l = true → l.Nodup := by
  intro l
  induction l with
  | nil => simp
  | cons x l ih =>
    intro h
    rw [List.nodup_cons]
    constructor
    · intro hx
      exact Nat.lt_irrefl x (strictAsc_lt_all x l h x hx)
    · apply ih
      cases l with
      | nil => rfl
      | cons y l => simp only [strictAsc, Bool.and_eq_true] at h; exact h.2

/-! ### the encoding is injective up to letter case on ASCII ids -/

theorem lowerC_lt (c : Nat) (h : c < 128) : lowerC c < 256 := by
  unfold lowerC; split <;> omega

theorem encodeLower_pos : ∀ (l : Bytes), 0 < encodeLower l := by
  intro l; induction l with
  | nil => simp [encodeLower]
  | cons c cs ih => simp only [encodeLower]; omega

theorem encodeLower_inj : ∀ (a b : Bytes), isAsciiId a = true → isAsciiId b = true →
    encodeLower a = encodeLower b → lower a = lower b := by
  intro a
  induction a with
  | nil =>
    intro b _ hb h
    cases b with
    | nil => rfl
    | cons y ys =>
      exfalso
      simp only [encodeLower] at h
      have : 0 < encodeLower ys := encodeLower_pos ys
      have hy : lowerC y < 256 := lowerC_lt y (by simp [isAsciiId, Nat.blt_eq] at hb; exact hb.1)
      omega
  | cons x xs ih =>
    intro b ha hb h
    have hx : lowerC x < 256 := lowerC_lt x (by simp [isAsciiId, Nat.blt_eq] at ha; exact ha.1)
    cases b with
    | nil =>
      exfalso
      simp only [encodeLower] at h
      have : 0 < encodeLower xs := encodeLower_pos xs
      omega
    | cons y ys =>
      have hy : lowerC y < 256 := lowerC_lt y (by simp [isAsciiId, Nat.blt_eq] at hb; exact hb.1)
      simp only [encodeLower] at h
      have h1 : lowerC x = lowerC y := by omega
      have h2 : encodeLower xs = encodeLower ys := by omega
      have hxs : isAsciiId xs = true := by simp [isAsciiId] at ha ⊢; exact ha.2
      have hys : isAsciiId ys = true := by simp [isAsciiId] at hb ⊢; exact hb.2
      simp only [lower, List.map_cons, List.cons.injEq]
      exact ⟨h1, ih ys hxs hys h2⟩

/-- pairwise: different positions hold ids that differ even up to letter case -/
def FoldDistinct (ids : List Bytes) : Prop := ids.Pairwise (fun a b => lower a ≠ lower b)

theorem foldDistinct_of_check (ids : List Bytes) (hu : foldUnique ids = true) (ha : ids.all isAsciiId = true) :
    FoldDistinct ids := by
  unfold foldUnique at hu
  have hnd : (ids.map encodeLower).Nodup :=
    (msortN_perm 24 _).nodup_iff.mp (strictAsc_nodup _ hu)
  unfold FoldDistinct
  rw [List.nodup_iff_pairwise_ne] at hnd
  rw [List.pairwise_map] at hnd
  refine List.Pairwise.imp_of_mem ?_ hnd
  intro a b hma hmb hne heq
  apply hne
  have := List.all_eq_true.mp ha
  -- equal lower-casings give equal encodings
  have enc_congr : ∀ (u v : Bytes), lower u = lower v → encodeLower u = encodeLower v := by
    intro u
    induction u with
    | nil => intro v hv; cases v <;> simp_all [lower, encodeLower]
    | cons p ps ihp =>
      intro v hv
      cases v with
      | nil => simp [lower] at hv
      | cons q qs =>
        simp only [lower, List.map_cons, List.cons.injEq] at hv
        have hq : lowerC (lowerC p) = lowerC p → True := fun _ => trivial
        simp only [encodeLower]
        rw [ihp qs hv.2]
        -- lowerC p = lowerC q
        rw [hv.1]
  exact enc_congr a b heq

theorem foldDistinct_append_left {a b : List Bytes} (h : FoldDistinct (a ++ b)) : FoldDistinct a :=
  (List.pairwise_append.mp h).1
theorem foldDistinct_append_right {a b : List Bytes} (h : FoldDistinct (a ++ b)) : FoldDistinct b :=
  (List.pairwise_append.mp h).2.1
theorem foldDistinct_cross {a b : List Bytes} (h : FoldDistinct (a ++ b)) :
    ∀ x ∈ a, ∀ y ∈ b, lower x ≠ lower y :=
  (List.pairwise_append.mp h).2.2

/-! ### consequences for `lookup` -/

theorem lookup_some_iff (tbl : List Bytes) (w c : Bytes) (h : lookup tbl w = some c) :
    c ∈ tbl ∧ lower c = lower w := by
  unfold lookup at h
  exact ⟨List.mem_of_find?_eq_some h, (foldEq_iff c w).mp (List.find?_some (p := fun l => foldEq l w) h)⟩

theorem lookup_none_iff (tbl : List Bytes) (w : Bytes) :
    lookup tbl w = none ↔ ∀ c ∈ tbl, lower c ≠ lower w := by
  unfold lookup
  rw [List.find?_eq_none]
  constructor
  · intro h c hc heq; exact h c hc ((foldEq_iff c w).mpr heq)
  · intro h c hc hf; exact h c hc ((foldEq_iff c w).mp hf)

/-- the lookup only depends on the lower-casing of the word (C09) -/
theorem lookup_fold (tbl : List Bytes) (w w' : Bytes) (h : lower w = lower w') : lookup tbl w = lookup tbl w' := by
  unfold lookup
  congr 1
  funext l
  rw [Bool.eq_iff_iff, foldEq_iff, foldEq_iff, h]

/-- in a fold-distinct table the lookup of (any case variant of) a listed id returns that id, in the table's spelling -/
theorem lookup_listed (tbl : List Bytes) (hd : FoldDistinct tbl) (c w : Bytes) (hc : c ∈ tbl) (hw : lower w = lower c) :
    lookup tbl w = some c := by
  cases h : lookup tbl w with
  | none => exact absurd hw.symm ((lookup_none_iff tbl w).mp h c hc)
  | some c' =>
    obtain ⟨hc', heq⟩ := lookup_some_iff tbl w c' h
    have : lower c' = lower c := heq.trans hw
    -- two members of a fold-distinct list with equal lower-casing are the same member
    have key : ∀ (l : List Bytes), l.Pairwise (fun a b => lower a ≠ lower b) → ∀ x ∈ l, ∀ y ∈ l, lower x = lower y → x = y := by
      intro l hl
      induction hl with
      | nil => simp
      | @cons a l' hhead _ ih =>
        intro x hx y hy hxy
        rcases List.mem_cons.mp hx with hxa | hx' <;> rcases List.mem_cons.mp hy with hya | hy'
        · rw [hxa, hya]
        · rw [hxa] at hxy; exact absurd hxy (hhead y hy')
        · rw [hya] at hxy; exact absurd hxy.symm (hhead x hx')
        · exact ih x hx' y hy' hxy
    rw [key tbl hd c' hc' c hc this]

end Spdx
