/-
Lemmas/ScanAppend — the scanner is compositional at "boundaries": if `b` is empty or starts with a space or a
parenthesis, scanning `a ++ b` is scanning `a` and then `b`.  (An operator or ref prefix cannot straddle such a boundary,
maximal munch stops at it, and the `+` look-ahead sees no `+`.)
-/
import SpdxVerif.Lemmas.Scan
namespace Spdx

/-- `b` is empty or begins with a space, `(` or `)` -/
def isBoundary : Bytes → Bool
  | [] => true
  | c :: _ => c == 32 || c == 40 || c == 41

/-- bytes that are neither space nor parenthesis -/
def inner (c : Nat) : Bool := !(c == 32 || c == 40 || c == 41)

theorem isIdChar_inner {c : Nat} (h : isIdChar c = true) : inner c = true := by
  unfold isIdChar at h; unfold inner
  simp only [Bool.or_eq_true, Bool.and_eq_true, decide_eq_true_eq, beq_iff_eq] at h
  simp only [Bool.not_eq_true', Bool.or_eq_false_iff, beq_eq_false_iff_ne, ne_eq]
  omega

/-! ### takeWhile / dropWhile over an append -/

theorem takeWhile_append_of_ne (p : Nat → Bool) (a b : Bytes) (h : a.dropWhile p ≠ []) :
    (a ++ b).takeWhile p = a.takeWhile p ∧ (a ++ b).dropWhile p = a.dropWhile p ++ b := by
  induction a with
  | nil => simp at h
  | cons x xs ih =>
    by_cases hx : p x = true
    · simp only [List.dropWhile_cons, hx, ↓reduceIte] at h
      obtain ⟨h1, h2⟩ := ih h
      simp [List.takeWhile_cons, List.dropWhile_cons, hx, h1, h2]
    · simp [List.takeWhile_cons, List.dropWhile_cons, hx]

theorem takeWhile_append_of_stop (p : Nat → Bool) (a b : Bytes) (h : ∀ c, b.head? = some c → p c = false) :
    (a ++ b).takeWhile p = a.takeWhile p ∧ (a ++ b).dropWhile p = a.dropWhile p ++ b := by
  induction a with
  | nil =>
    cases b with
    | nil => simp
    | cons c r =>
      have := h c rfl
      simp [List.takeWhile_cons, List.dropWhile_cons, this]
  | cons x xs ih =>
    by_cases hx : p x = true
    · simp [List.takeWhile_cons, List.dropWhile_cons, hx, ih.1, ih.2]
    · simp [List.takeWhile_cons, List.dropWhile_cons, hx]

theorem takeWhile_all (p : Nat → Bool) (a b : Bytes) (h : a.dropWhile p = []) :
    (a ++ b).takeWhile p = a ++ b.takeWhile p ∧ (a ++ b).dropWhile p = b.dropWhile p := by
  induction a with
  | nil => simp
  | cons x xs ih =>
    by_cases hx : p x = true
    · simp only [List.dropWhile_cons, hx, ↓reduceIte] at h
      simp [List.takeWhile_cons, List.dropWhile_cons, hx, (ih h).1, (ih h).2]
    · simp [List.dropWhile_cons, hx] at h

/-! ### prefixes cannot straddle a boundary -/

theorem isPrefixOf_append_boundary (p s b : Bytes) (hp : ∀ c ∈ p, inner c = true) (hb : isBoundary b = true) :
    p.isPrefixOf (s ++ b) = p.isPrefixOf s := by
  induction p generalizing s with
  | nil => simp
  | cons x p ih =>
    cases s with
    | nil =>
      cases b with
      | nil => simp
      | cons c r =>
        simp only [List.nil_append, List.isPrefixOf_cons_cons, List.isPrefixOf_cons_nil]
        have hx : inner x = true := hp x (by simp)
        have hc : inner c = false := by
          simp only [isBoundary] at hb
          simp only [inner, hb, Bool.not_true]
        have : (x == c) = false := by
          rw [beq_eq_false_iff_ne]; intro heq; rw [heq, hc] at hx; cases hx
        simp [this]
    | cons y s =>
      simp only [List.cons_append, List.isPrefixOf_cons_cons]
      rw [ih s (fun c hc => hp c (List.mem_cons_of_mem _ hc))]

/-- the same for a one-byte-longer pattern whose first byte is arbitrary, against a non-empty `s` -/
theorem isPrefixOf_append_boundary' (x : Nat) (p : Bytes) (y : Nat) (s b : Bytes) (hp : ∀ c ∈ p, inner c = true)
    (hb : isBoundary b = true) : (x :: p).isPrefixOf (y :: s ++ b) = (x :: p).isPrefixOf (y :: s) := by
  simp only [List.cons_append, List.isPrefixOf_cons_cons]
  rw [isPrefixOf_append_boundary p s b hp hb]

theorem find?_congr' {α} (p q : α → Bool) (l : List α) (h : ∀ x ∈ l, p x = q x) : l.find? p = l.find? q := by
  induction l with
  | nil => rfl
  | cons x xs ih =>
    simp only [List.find?_cons]
    rw [h x (by simp), ih (fun y hy => h y (List.mem_cons_of_mem _ hy))]

theorem readOp_append (y : Nat) (s b : Bytes) (hb : isBoundary b = true) :
    readOp (y :: s ++ b) = (readOp (y :: s)).map (fun p => (p.1, p.2 ++ b)) := by
  unfold readOp
  have hpred : ∀ p ∈ opTable, p.1.isPrefixOf (y :: s ++ b) = p.1.isPrefixOf (y :: s) := by
    intro p hp
    simp only [opTable, List.mem_cons, List.not_mem_nil, or_false] at hp
    rcases hp with rfl | rfl | rfl | rfl | rfl | rfl | rfl <;>
      exact isPrefixOf_append_boundary' _ _ y s b (by simp [inner]) hb
  have hfind : opTable.find? (fun p => p.1.isPrefixOf (y :: s ++ b)) = opTable.find? (fun p => p.1.isPrefixOf (y :: s)) := by
    exact find?_congr' _ _ _ hpred
  rw [hfind]
  cases hf : opTable.find? (fun p => p.1.isPrefixOf (y :: s)) with
  | none => rfl
  | some p =>
    simp only [Option.map_some, Option.some.injEq, Prod.mk.injEq, true_and]
    have hpre := List.find?_some hf
    obtain ⟨t, ht⟩ := List.isPrefixOf_iff_prefix.mp hpre
    have : y :: s ++ b = p.1 ++ (t ++ b) := by rw [← List.append_assoc, ht]
    rw [this, List.drop_left, ← ht, List.drop_left]

/-! ### the normalisation cascade only looks one byte ahead, and only for `+` -/

theorem normalize_append (w rest b : Bytes) (hb : isBoundary b = true) :
    normalize w (rest ++ b) = (normalize w rest).map (fun p => (p.1, p.2 ++ b)) := by
  have hhead : ((rest ++ b).head? = some 43) = (rest.head? = some 43) := by
    cases rest with
    | nil =>
      cases b with
      | nil => rfl
      | cons c r =>
        simp only [List.nil_append, List.head?_cons, Option.some.injEq, List.head?_nil, reduceCtorEq, eq_iff_iff, iff_false]
        intro hc; subst hc; simp [isBoundary] at hb
    | cons c r => rfl
  have htail : rest.head? = some 43 → (rest ++ b).tail = rest.tail ++ b := by
    intro h; cases rest with
    | nil => simp at h
    | cons c r => rfl
  unfold normalize
  cases h1 : licenseLookup w with
  | some t => simp
  | none =>
    simp only
    cases h2 : (stripSuffix? w sufOnly).bind licenseLookup with
    | some t => simp
    | none =>
      simp only
      by_cases hp : rest.head? = some 43
      · have hp' : (rest ++ b).head? = some 43 := by rw [hhead]; exact hp
        simp only [hp, hp', ↓reduceIte, htail hp]
        cases h3 : licenseLookup (w ++ sufOrLater) with
        | some t => simp
        | none =>
          simp only
          cases h4 : (stripSuffix? w sufOrLater).bind licenseLookup with
          | some t => simp
          | none =>
            simp only
            cases lookup Tables.deprecated w <;> simp
      · have hp' : ¬ (rest ++ b).head? = some 43 := by rw [hhead]; exact hp
        simp only [hp, hp', ↓reduceIte]
        cases h4 : (stripSuffix? w sufOrLater).bind licenseLookup with
        | some t => simp
        | none =>
          simp only
          cases lookup Tables.deprecated w <;> simp

end Spdx

namespace Spdx

/-- what `step` does after the leading spaces have been skipped -/
def lexeme (s1 : Bytes) (off1 : Nat) (afterSp : Bool) : Step :=
  match readOp s1 with
  | some (o, r) =>
    if o = .plus ∧ afterSp = true then .err .spaceBeforePlus else .tok [.op o] r
  | none =>
  if docRefPrefix.isPrefixOf s1 then
    let r := s1.drop docRefPrefix.length
    let id := r.takeWhile isIdChar
    if id = [] then .err (.expectedId (off1 + docRefPrefix.length))
    else .tok [.docRef id] (r.dropWhile isIdChar)
  else if licRefPrefix.isPrefixOf s1 then
    let r := s1.drop licRefPrefix.length
    let id := r.takeWhile isIdChar
    if id = [] then .err (.expectedId (off1 + licRefPrefix.length))
    else .tok [.licRef id] (r.dropWhile isIdChar)
  else
    let w := s1.takeWhile isIdChar
    if w = [] then .err (.expectedId off1) else
    match normalize w (s1.dropWhile isIdChar) with
    | none => .err (.unknownLicense w off1)
    | some (toks, r) => .tok toks r

theorem step_eq (s : Bytes) (off : Nat) :
    step s off = (if s.dropWhile isSp = [] then .done
      else lexeme (s.dropWhile isSp) (off + (s.takeWhile isSp).length) (decide (s.takeWhile isSp ≠ []))) := by
  unfold step lexeme
  simp only
  split
  · rename_i h; rw [if_pos h]
  · rename_i c cs h
    have hne : ¬ (List.dropWhile isSp s = []) := by rw [h]; exact List.cons_ne_nil _ _
    simp only [hne, ↓reduceIte, decide_eq_true_eq]
    rfl

def Step.appendRest : Step → Bytes → Step
  | .tok ts r, b => .tok ts (r ++ b)
  | .err e, _ => .err e
  | .done, _ => .done

theorem isBoundary_head_not_idChar {b : Bytes} (hb : isBoundary b = true) : ∀ c, b.head? = some c → isIdChar c = false := by
  intro c hc
  cases b with
  | nil => simp at hc
  | cons x r =>
    simp only [List.head?_cons, Option.some.injEq] at hc; subst hc
    simp only [isBoundary, Bool.or_eq_true, beq_iff_eq] at hb
    rcases hb with (rfl | rfl) | rfl <;> decide

theorem drop_append_of_prefix (p t b : Bytes) : (p ++ t ++ b).drop p.length = t ++ b := by
  rw [List.append_assoc, List.drop_left]

theorem lexeme_append (y : Nat) (s b : Bytes) (off1 : Nat) (afterSp : Bool) (hb : isBoundary b = true) :
    lexeme (y :: s ++ b) off1 afterSp = (lexeme (y :: s) off1 afterSp).appendRest b := by
  have hstop := isBoundary_head_not_idChar hb
  unfold lexeme
  rw [readOp_append y s b hb]
  cases hr : readOp (y :: s) with
  | some p =>
    obtain ⟨o, r⟩ := p
    simp only [Option.map_some]
    split <;> rfl
  | none =>
    simp only [Option.map_none]
    have hd : docRefPrefix.isPrefixOf (y :: s ++ b) = docRefPrefix.isPrefixOf (y :: s) :=
      isPrefixOf_append_boundary _ _ _ (by simp [docRefPrefix, inner]) hb
    have hl : licRefPrefix.isPrefixOf (y :: s ++ b) = licRefPrefix.isPrefixOf (y :: s) :=
      isPrefixOf_append_boundary _ _ _ (by simp [licRefPrefix, inner]) hb
    rw [hd, hl]
    by_cases h1 : docRefPrefix.isPrefixOf (y :: s) = true
    · simp only [h1, ↓reduceIte]
      obtain ⟨t, ht⟩ := List.isPrefixOf_iff_prefix.mp h1
      have e1 : (y :: s ++ b).drop docRefPrefix.length = t ++ b := by rw [← ht]; exact drop_append_of_prefix _ _ _
      have e2 : (y :: s).drop docRefPrefix.length = t := by rw [← ht, List.drop_left]
      rw [e1, e2, (takeWhile_append_of_stop isIdChar t b hstop).1, (takeWhile_append_of_stop isIdChar t b hstop).2]
      split <;> rfl
    · simp only [h1, Bool.false_eq_true, ↓reduceIte]
      by_cases h2 : licRefPrefix.isPrefixOf (y :: s) = true
      · simp only [h2, ↓reduceIte]
        obtain ⟨t, ht⟩ := List.isPrefixOf_iff_prefix.mp h2
        have e1 : (y :: s ++ b).drop licRefPrefix.length = t ++ b := by rw [← ht]; exact drop_append_of_prefix _ _ _
        have e2 : (y :: s).drop licRefPrefix.length = t := by rw [← ht, List.drop_left]
        rw [e1, e2, (takeWhile_append_of_stop isIdChar t b hstop).1, (takeWhile_append_of_stop isIdChar t b hstop).2]
        split <;> rfl
      · simp only [h2, Bool.false_eq_true, ↓reduceIte]
        rw [(takeWhile_append_of_stop isIdChar (y :: s) b hstop).1, (takeWhile_append_of_stop isIdChar (y :: s) b hstop).2]
        split
        · rfl
        · rw [normalize_append _ _ _ hb]
          cases normalize (List.takeWhile isIdChar (y :: s)) (List.dropWhile isIdChar (y :: s)) with
          | none => rfl
          | some p => rfl

/-- **safe continuation**: appending text that starts at a boundary does not change what one scanner iteration
    reads from a string that still holds a lexeme -/
theorem step_append (s b : Bytes) (off : Nat) (hb : isBoundary b = true) (hne : s.dropWhile isSp ≠ []) :
    step (s ++ b) off = (step s off).appendRest b := by
  rw [step_eq, step_eq]
  obtain ⟨h1, h2⟩ := takeWhile_append_of_ne isSp s b hne
  rw [h1, h2]
  have hne' : s.dropWhile isSp ++ b ≠ [] := by
    intro h; exact hne (List.append_eq_nil_iff.mp h).1
  simp only [hne, hne', ↓reduceIte]
  cases hs : s.dropWhile isSp with
  | nil => exact absurd hs hne
  | cons y t => exact lexeme_append y t b _ _ hb

/-- a string of spaces in front of boundary text is skipped -/
theorem step_spaces_append (s b : Bytes) (off : Nat) (hb : isBoundary b = true) (hsp : s.dropWhile isSp = []) :
    step (s ++ b) off = step b (off + s.length) := by
  rw [step_eq, step_eq]
  obtain ⟨h1, h2⟩ := takeWhile_all isSp s b hsp
  rw [h1, h2]
  by_cases hd : b.dropWhile isSp = []
  · simp [hd]
  · simp only [hd, ↓reduceIte, List.length_append, Nat.add_assoc]
    -- the `afterSp` flag can differ only when `b` starts with a non-space, i.e. with a parenthesis: then the
    -- lexeme is that parenthesis and the flag is irrelevant
    by_cases hbs : b.takeWhile isSp = []
    · cases b with
      | nil => simp at hd
      | cons c r =>
        have hc : isSp c = false := by
          by_cases hcc : isSp c = true
          · simp [List.takeWhile_cons, hcc] at hbs
          · simpa using hcc
        have hdw : (c :: r).dropWhile isSp = c :: r := by simp [List.dropWhile_cons, hc]
        rw [hdw, hbs]
        simp only [isBoundary, Bool.or_eq_true, beq_iff_eq] at hb
        have hc32 : c ≠ 32 := by intro h; subst h; simp [isSp] at hc
        rcases hb with (h | h) | h
        · exact absurd h hc32
        · subst h; simp [lexeme, readOp, opTable]
        · subst h; simp [lexeme, readOp, opTable]
    · have : (s ++ b.takeWhile isSp ≠ []) := by
        intro h; exact hbs (List.append_eq_nil_iff.mp h).2
      simp [hbs, this]

end Spdx

namespace Spdx

theorem lexeme_ne_done (s1 : Bytes) (off1 : Nat) (f : Bool) : lexeme s1 off1 f ≠ .done := by
  unfold lexeme
  split
  · split <;> simp
  · split
    · simp only; split <;> simp
    · split
      · simp only; split <;> simp
      · simp only; split
        · simp
        · split <;> simp

/-- the loop's result does not depend on the fuel once there is more fuel than input -/
theorem scanLoop_fuel : ∀ (f f' : Nat) (s : Bytes) (off : Nat), s.length < f → s.length < f' →
    scanLoop f s off = scanLoop f' s off := by
  intro f
  induction f with
  | zero => intro f' s off h; omega
  | succ f ih =>
    intro f' s off h h'
    obtain ⟨g, rfl⟩ : ∃ g, f' = g + 1 := ⟨f' - 1, by omega⟩
    simp only [scanLoop]
    cases hs : step s off with
    | done => rfl
    | err e => rfl
    | tok ts r =>
      obtain ⟨pre, hpre, hsr⟩ := step_suffix hs
      have hlen : r.length < s.length := by
        rw [hsr]; simp only [List.length_append]
        have : 0 < pre.length := List.length_pos_iff.mpr hpre
        omega
      simp only
      rw [ih g r _ (by omega) (by omega)]

def scanFrom (s : Bytes) (off : Nat) : Except ScanErr (List Tok) := scanLoop (s.length + 1) s off

theorem scan_eq_scanFrom (s : Bytes) : scan s = scanFrom s 0 := rfl

theorem scanFrom_unfold (s : Bytes) (off : Nat) :
    scanFrom s off = match step s off with
      | .done => .ok []
      | .err e => .error e
      | .tok ts r => (scanFrom r (off + (s.length - r.length))).map (ts ++ ·) := by
  have hdef : scanFrom s off = scanLoop (s.length + 1) s off := rfl
  rw [hdef]
  simp only [scanLoop]
  cases hs : step s off with
  | done => rfl
  | err e => rfl
  | tok ts r =>
    obtain ⟨pre, hpre, hsr⟩ := step_suffix hs
    have hlen : r.length < s.length := by
      rw [hsr]; simp only [List.length_append]
      have : 0 < pre.length := List.length_pos_iff.mpr hpre
      omega
    simp only
    rw [scanLoop_fuel s.length (r.length + 1) r _ hlen (by omega)]
    rfl

/-- **the scanner is compositional at boundaries** -/
theorem scanFrom_append : ∀ (n : Nat) (a b : Bytes) (off : Nat), a.length < n → isBoundary b = true →
    scanFrom (a ++ b) off = (match scanFrom a off with
      | .error e => .error e
      | .ok ta => (scanFrom b (off + a.length)).map (ta ++ ·)) := by
  intro n
  induction n with
  | zero => intro a b off h; omega
  | succ n ih =>
    intro a b off hn hb
    by_cases hsp : a.dropWhile isSp = []
    · -- `a` is only spaces
      have ha : scanFrom a off = .ok [] := by
        rw [scanFrom_unfold, step_eq]; simp [hsp]
      rw [ha]
      simp only [List.nil_append]
      rw [scanFrom_unfold (a ++ b), scanFrom_unfold b, step_spaces_append a b off hb hsp]
      cases hs : step b (off + a.length) with
      | done => rfl
      | err e => rfl
      | tok ts r =>
        obtain ⟨pre, _, hbr⟩ := step_suffix hs
        simp only
        have : off + ((a ++ b).length - r.length) = off + a.length + (b.length - r.length) := by
          rw [hbr]; simp only [List.length_append]; omega
        rw [this]
        cases scanFrom r (off + a.length + (b.length - r.length)) <;> simp [Except.map]
    · -- `a` still holds a lexeme
      rw [scanFrom_unfold (a ++ b), scanFrom_unfold a, step_append a b off hb hsp]
      cases hs : step a off with
      | done =>
        exfalso
        rw [step_eq] at hs; simp only [hsp, ↓reduceIte] at hs
        exact lexeme_ne_done _ _ _ hs
      | err e => rfl
      | tok ts r =>
        obtain ⟨pre, hpre, har⟩ := step_suffix hs
        have hlen : r.length < a.length := by
          rw [har]; simp only [List.length_append]
          have : 0 < pre.length := List.length_pos_iff.mpr hpre
          omega
        simp only [Step.appendRest]
        have e1 : off + ((a ++ b).length - (r ++ b).length) = off + (a.length - r.length) := by
          simp only [List.length_append]; omega
        rw [e1, ih r b (off + (a.length - r.length)) (by omega) hb]
        have e2 : off + (a.length - r.length) + r.length = off + a.length := by omega
        rw [e2]
        cases scanFrom r (off + (a.length - r.length)) with
        | error e => rfl
        | ok tr =>
          simp only [Except.map]
          cases scanFrom b (off + a.length) <;> simp

/-- scanning `a ++ b` when `b` starts at a boundary: the tokens of `a` followed by the tokens of `b` -/
theorem scan_append (a b : Bytes) (hb : isBoundary b = true) :
    scan (a ++ b) = (match scan a with
      | .error e => .error e
      | .ok ta => (scanFrom b a.length).map (ta ++ ·)) := by
  have := scanFrom_append (a.length + 1) a b 0 (by omega) hb
  simpa [scan_eq_scanFrom] using this

def Step.eraseErr : Step → Step
  | .err _ => .err .spaceBeforePlus
  | s => s

theorem lexeme_off (s1 : Bytes) (o o' : Nat) (f : Bool) : (lexeme s1 o f).eraseErr = (lexeme s1 o' f).eraseErr := by
  unfold lexeme
  split
  · split <;> rfl
  · split
    · simp only; split <;> rfl
    · split
      · simp only; split <;> rfl
      · simp only; split
        · rfl
        · split <;> rfl

theorem step_off (s : Bytes) (o o' : Nat) : (step s o).eraseErr = (step s o').eraseErr := by
  rw [step_eq, step_eq]
  split
  · rfl
  · exact lexeme_off _ _ _ _

/-- offsets do not influence which tokens are produced -/
theorem scanFrom_tokens_off : ∀ (n : Nat) (s : Bytes) (off off' : Nat), s.length < n →
    (scanFrom s off).toOption = (scanFrom s off').toOption := by
  intro n
  induction n with
  | zero => intro s off off' h; omega
  | succ n ih =>
    intro s off off' hn
    rw [scanFrom_unfold s off, scanFrom_unfold s off']
    have hso := step_off s off off'
    cases h1 : step s off with
    | done => cases h2 : step s off' <;> simp_all [Step.eraseErr]
    | err e => cases h2 : step s off' <;> simp_all [Step.eraseErr, Except.toOption]
    | tok ts r =>
      cases h2 : step s off' with
      | done => simp_all [Step.eraseErr]
      | err e => simp_all [Step.eraseErr]
      | tok ts' r' =>
        rw [h1, h2] at hso
        simp only [Step.eraseErr, Step.tok.injEq] at hso
        obtain ⟨rfl, rfl⟩ := hso
        obtain ⟨pre, hpre, hsr⟩ := step_suffix h1
        have hlen : r.length < s.length := by
          rw [hsr]; simp only [List.length_append]
          have : 0 < pre.length := List.length_pos_iff.mpr hpre
          omega
        simp only
        have := ih r (off + (s.length - r.length)) (off' + (s.length - r.length)) (by omega)
        cases ha : scanFrom r (off + (s.length - r.length)) <;> cases hb : scanFrom r (off' + (s.length - r.length)) <;>
          simp_all [Except.map, Except.toOption]

end Spdx
