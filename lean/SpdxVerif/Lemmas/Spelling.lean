/-
Lemmas/Spelling — on terms produced by the parser, the `EqualFold` shortcut of `licensesAreCompatible` fires only for
identical terms; matching depends on a licence id only through its position in the range table (and identity).
-/
import SpdxVerif.Lemmas.AllowedList
namespace Spdx

theorem foldDistinct_inj {l : List Bytes} (hl : FoldDistinct l) {x y : Bytes} (hx : x ∈ l) (hy : y ∈ l)
    (h : lower x = lower y) : x = y := by
  unfold FoldDistinct at hl
  induction hl with
  | nil => cases hx
  | @cons a l' hhead _ ih =>
    rcases List.mem_cons.mp hx with hxa | hx' <;> rcases List.mem_cons.mp hy with hya | hy'
    · rw [hxa, hya]
    · rw [hxa] at h; exact absurd h (hhead y hy')
    · rw [hya] at h; exact absurd h.symm (hhead x hx')
    · exact ih hx' hy'

theorem lower_allId (a : Bytes) : allId (lower a) = allId a := by
  induction a with
  | nil => rfl
  | cons c r ih => simp only [lower, List.map_cons, allId, List.all_cons] at *; rw [lowerC_idChar, ih]

/-- the part of a licence term's text after the id -/
def licTail (p : Bool) (e : Option Bytes) : Bytes :=
  (if p then bPlus else []) ++ (match e with | some x => bWith ++ x | none => [])

theorem render_lic (a : Bytes) (p : Bool) (e : Option Bytes) : render (.lic a p e) = a ++ licTail p e := by
  cases e <;> simp [render, licTail]

theorem lower_licTail (p : Bool) (e : Option Bytes) :
    lower (licTail p e) = (if p then [43] else []) ++ (match e with | some x => [32,119,105,116,104,32] ++ lower x | none => []) := by
  cases p <;> cases e <;> simp [licTail, lower, bPlus, bWith, lowerC]

theorem stops_lower_licTail (p : Bool) (e : Option Bytes) : Stops (lower (licTail p e)) := by
  intro c hc
  cases p <;> cases e <;> simp [licTail, lower, bPlus, bWith, lowerC] at hc <;> (subst hc; decide)

theorem lower_append' (a b : Bytes) : lower (a ++ b) = lower a ++ lower b := by simp [lower]

/-- **the `EqualFold` shortcut fires only for identical terms** (licence terms produced by the parser: ids spelled as in
    the lists, which are distinct up to letter case) -/
theorem render_fold_inj (a b : Bytes) (pa pb : Bool) (ea eb : Option Bytes)
    (hx : LeafOK (.lic a pa ea)) (hy : LeafOK (.lic b pb eb))
    (h : foldEq (render (.lic a pa ea)) (render (.lic b pb eb)) = true) : a = b ∧ pa = pb ∧ ea = eb := by
  rw [foldEq_iff, render_lic, render_lic, lower_append', lower_append'] at h
  obtain ⟨ha, _, _, hea⟩ := hx
  obtain ⟨hb, _, _, heb⟩ := hy
  have t1 := takeWhile_word (lower a) (lower (licTail pa ea)) (by rw [lower_allId]; exact ha.allId) (stops_lower_licTail pa ea)
  have t2 := takeWhile_word (lower b) (lower (licTail pb eb)) (by rw [lower_allId]; exact hb.allId) (stops_lower_licTail pb eb)
  rw [h] at t1
  have hab : lower a = lower b := t1.1.symm.trans t2.1
  have htl : lower (licTail pa ea) = lower (licTail pb eb) := t1.2.symm.trans t2.2
  have hd := C09.lists_fold_distinct
  have eab : a = b := foldDistinct_inj (foldDistinct_append_left hd) ha.mem hb.mem hab
  refine ⟨eab, ?_⟩
  have hexc : ∀ x y, ExcTok x → ExcTok y → lower x = lower y → x = y := fun x y hx hy hxy =>
    foldDistinct_inj (foldDistinct_append_right hd) hx.mem hy.mem hxy
  rw [lower_licTail, lower_licTail] at htl
  cases pa <;> cases pb
  · refine ⟨rfl, ?_⟩
    cases ea <;> cases eb
    · rfl
    · simp at htl
    · simp at htl
    · rename_i x y
      simp only [Bool.false_eq_true, ↓reduceIte, List.nil_append, List.cons_append, List.cons.injEq, true_and] at htl
      rw [hexc x y (hea x rfl) (heb y rfl) htl]
  · cases ea <;> simp at htl
  · cases eb <;> simp at htl
  · refine ⟨rfl, ?_⟩
    cases ea <;> cases eb
    · rfl
    · simp at htl
    · simp at htl
    · rename_i x y
      simp only [↓reduceIte, List.cons_append, List.nil_append, List.cons.injEq, true_and] at htl
      rw [hexc x y (hea x rfl) (heb y rfl) htl]

end Spdx
