/-
Lemmas/GoShaped — the Go-shaped parser never reaches `panic`.
-/
import SpdxVerif.Model.GoShaped
namespace Spdx.G

theorem peek_ok (t : TS) : ∃ o, peek t = .ok o ∧ (o.isSome = hasMore t) := by
  unfold peek
  by_cases h : hasMore t = true
  · simp only [h, ↓reduceIte, index]
    have hlt : t.idx < t.toks.length := by simpa [hasMore] using h
    have : t.toks[t.idx]? = some t.toks[t.idx] := List.getElem?_eq_getElem hlt
    rw [this]
    exact ⟨_, rfl, rfl⟩
  · simp only [h, Bool.false_eq_true, ↓reduceIte]
    exact ⟨none, rfl, by simp at h; simp [h]⟩

theorem parseOperator_ok (o : Op) (t : TS) : ∃ r, parseOperator o t = .ok r := by
  obtain ⟨tok, hp, _⟩ := peek_ok t
  unfold parseOperator
  rw [hp]
  simp only [Out.bind]
  cases tok with
  | none => exact ⟨_, rfl⟩
  | some x =>
    simp only [Option.isSome_some, ↓reduceIte, deref]
    split <;> exact ⟨_, rfl⟩

theorem parseWith_ok (t : TS) : ∃ r, parseWith t = .ok r := by
  obtain ⟨⟨found, t1⟩, h1⟩ := parseOperator_ok .with_ t
  unfold parseWith
  rw [h1]
  simp only [Out.bind]
  cases found with
  | false => exact ⟨_, rfl⟩
  | true =>
    simp only [Bool.not_true, Bool.false_eq_true, ↓reduceIte]
    obtain ⟨tok, hp, _⟩ := peek_ok t1
    rw [hp]
    simp only
    cases tok with
    | none => exact ⟨_, rfl⟩
    | some x =>
      simp only [Option.isNone_some, Bool.false_eq_true, ↓reduceIte, deref]
      split <;> exact ⟨_, rfl⟩

theorem parseLicense_ok (t : TS) : ∃ r, parseLicense t = .ok r := by
  obtain ⟨tok, hp, _⟩ := peek_ok t
  unfold parseLicense
  rw [hp]
  simp only [Out.bind]
  cases tok with
  | none => exact ⟨_, rfl⟩
  | some x =>
    simp only [Option.isNone_some, Bool.false_eq_true, ↓reduceIte, deref]
    split
    · rename_i id
      split
      · obtain ⟨⟨plus, t1⟩, h1⟩ := parseOperator_ok .plus (next t)
        rw [h1]
        simp only
        split
        · obtain ⟨⟨exc, t2⟩, h2⟩ := parseWith_ok t1
          rw [h2]
          simp only
          split
          · exact ⟨_, rfl⟩
          · split <;> exact ⟨_, rfl⟩
        · exact ⟨_, rfl⟩
      · exact ⟨_, rfl⟩
    · exact ⟨_, rfl⟩

theorem parseDocPart_ok (x : Tok) (t : TS) : ∃ r, parseDocPart x t = .ok r := by
  unfold parseDocPart
  split
  · obtain ⟨⟨found, t1⟩, h1⟩ := parseOperator_ok .colon (next t)
    rw [h1]; simp only [Out.bind]
    split <;> exact ⟨_, rfl⟩
  · exact ⟨_, rfl⟩

theorem parseLicenseRef_ok (t : TS) : ∃ r, parseLicenseRef t = .ok r := by
  obtain ⟨tok, hp, _⟩ := peek_ok t
  unfold parseLicenseRef
  rw [hp]
  simp only [Out.bind]
  cases tok with
  | none => exact ⟨_, rfl⟩
  | some x =>
    simp only [Option.isNone_some, Bool.false_eq_true, ↓reduceIte, deref]
    obtain ⟨⟨doc, t1⟩, hd⟩ := parseDocPart_ok x t
    rw [hd]
    simp only
    split
    · exact ⟨_, rfl⟩
    · obtain ⟨tok2, hp2, _⟩ := peek_ok t1
      rw [hp2]
      simp only
      cases tok2 with
      | none => simp only [Option.isNone_none, ↓reduceIte]; split <;> exact ⟨_, rfl⟩
      | some y =>
        simp only [Option.isNone_some, Bool.false_eq_true, ↓reduceIte]
        split
        · exact ⟨_, rfl⟩
        · split <;> exact ⟨_, rfl⟩

/-- the four mutually recursive parse functions never panic, whatever the fuel and the cursor -/
theorem parse_mutual_ok : ∀ fuel, (∀ t, ∃ r, parseParen fuel t = .ok r) ∧ (∀ t, ∃ r, parseAtom fuel t = .ok r) ∧
    (∀ t, ∃ r, parseAnd fuel t = .ok r) ∧ (∀ t, ∃ r, parseExpression fuel t = .ok r) := by
  intro fuel
  induction fuel with
  | zero => exact ⟨fun t => ⟨_, rfl⟩, fun t => ⟨_, rfl⟩, fun t => ⟨_, rfl⟩, fun t => ⟨_, rfl⟩⟩
  | succ f ih =>
    obtain ⟨ihP, ihAt, ihAn, ihE⟩ := ih
    refine ⟨?_, ?_, ?_, ?_⟩
    · intro t
      simp only [parseParen]
      obtain ⟨⟨found, t1⟩, h1⟩ := parseOperator_ok .lparen t
      rw [h1]; simp only [Out.bind]
      split
      · exact ⟨_, rfl⟩
      · obtain ⟨⟨e, t2⟩, h2⟩ := ihE t1
        rw [h2]; simp only
        split
        · exact ⟨_, rfl⟩
        · split
          · exact ⟨_, rfl⟩
          · obtain ⟨⟨c, t3⟩, h3⟩ := parseOperator_ok .rparen t2
            rw [h3]; simp only
            split <;> exact ⟨_, rfl⟩
    · intro t
      simp only [parseAtom]
      obtain ⟨⟨p, t1⟩, h1⟩ := ihP t
      rw [h1]; simp only [Out.bind]
      split
      · exact ⟨_, rfl⟩
      · split
        · exact ⟨_, rfl⟩
        · obtain ⟨⟨r, t2⟩, h2⟩ := parseLicenseRef_ok t1
          rw [h2]; simp only
          split
          · exact ⟨_, rfl⟩
          · split
            · exact ⟨_, rfl⟩
            · obtain ⟨⟨l, t3⟩, h3⟩ := parseLicense_ok t2
              rw [h3]; simp only
              split
              · exact ⟨_, rfl⟩
              · split
                · exact ⟨_, rfl⟩
                · split
                  · obtain ⟨⟨f1, t4⟩, h4⟩ := parseOperator_ok .rparen t3
                    rw [h4]; simp only
                    split
                    · exact ⟨_, rfl⟩
                    · obtain ⟨⟨f2, t5⟩, h5⟩ := parseOperator_ok .or_ t4
                      rw [h5]; simp only
                      split
                      · exact ⟨_, rfl⟩
                      · obtain ⟨⟨f3, t6⟩, h6⟩ := parseOperator_ok .and_ t5
                        rw [h6]; exact ⟨_, rfl⟩
                  · exact ⟨_, rfl⟩
    · intro t
      simp only [parseAnd]
      obtain ⟨⟨l, t1⟩, h1⟩ := ihAt t
      rw [h1]; simp only [Out.bind]
      split
      · exact ⟨_, rfl⟩
      · split
        · exact ⟨_, rfl⟩
        · split
          · exact ⟨_, rfl⟩
          · obtain ⟨⟨found, t2⟩, h2⟩ := parseOperator_ok .and_ t1
            rw [h2]; simp only
            split
            · exact ⟨_, rfl⟩
            · split
              · exact ⟨_, rfl⟩
              · obtain ⟨⟨r, t3⟩, h3⟩ := ihAn t2
                rw [h3]; simp only
                split
                · exact ⟨_, rfl⟩
                · split <;> exact ⟨_, rfl⟩
    · intro t
      simp only [parseExpression]
      obtain ⟨⟨l, t1⟩, h1⟩ := ihAn t
      rw [h1]; simp only [Out.bind]
      split
      · exact ⟨_, rfl⟩
      · split
        · exact ⟨_, rfl⟩
        · split
          · exact ⟨_, rfl⟩
          · obtain ⟨⟨found, t2⟩, h2⟩ := parseOperator_ok .or_ t1
            rw [h2]; simp only
            split
            · exact ⟨_, rfl⟩
            · split
              · exact ⟨_, rfl⟩
              · obtain ⟨⟨r, t3⟩, h3⟩ := ihE t2
                rw [h3]; simp only
                split
                · exact ⟨_, rfl⟩
                · split <;> exact ⟨_, rfl⟩

theorem parseTokens_ok (toks : List Tok) : ∃ r, parseTokens toks = .ok r := by
  unfold parseTokens
  split
  · exact ⟨_, rfl⟩
  · obtain ⟨⟨n, t⟩, h⟩ := (parse_mutual_ok (4 * toks.length + 4)).2.2.2 ⟨toks, 0, false⟩
    rw [h]; simp only [Out.bind]
    split
    · exact ⟨_, rfl⟩
    · split
      · exact ⟨_, rfl⟩
      · split
        · obtain ⟨⟨f1, t1⟩, h1⟩ := parseOperator_ok .rparen t
          rw [h1]; simp only
          split
          · exact ⟨_, rfl⟩
          · obtain ⟨r, h2⟩ := parseLicense_ok t1
            rw [h2]; exact ⟨_, rfl⟩
        · exact ⟨_, rfl⟩

theorem parse_ok (s : Bytes) : ∃ r, parse s = .ok r := by
  unfold parse
  split
  · exact ⟨_, rfl⟩
  · split
    · exact ⟨_, rfl⟩
    · exact parseTokens_ok _

end Spdx.G
