/-
Lemmas/Spaced — a space-separated sequence of SPDX lexemes is scanned to exactly the tokens the lexemes denote.
-/
import SpdxVerif.Lemmas.RenderTree
import SpdxVerif.Lemmas.CaseVariant
namespace Spdx

/-- the lexemes of the documented grammar: keywords and parentheses, a license / exception word with an optional abutting `+`,
    `LicenseRef-r`, `DocumentRef-d:LicenseRef-r` -/
inductive Lexeme
  | kwWith | kwAnd | kwOr | lparen | rparen
  | word (w : Bytes) (plus : Bool)
  | licRef (r : Bytes)
  | docRef (d r : Bytes)

def Lexeme.text : Lexeme → Bytes
  | .kwWith => [87,73,84,72] | .kwAnd => [65,78,68] | .kwOr => [79,82] | .lparen => [40] | .rparen => [41]
  | .word w plus => w ++ (if plus then [43] else [])
  | .licRef r => licRefPrefix ++ r
  | .docRef d r => docRefPrefix ++ (d ++ (58 :: (licRefPrefix ++ r)))

/-- what a lexeme denotes; `none` = an unknown identifier (the text is then invalid) -/
def Lexeme.toks : Lexeme → Option (List Tok)
  | .kwWith => some [.op .with_] | .kwAnd => some [.op .and_] | .kwOr => some [.op .or_]
  | .lparen => some [.op .lparen] | .rparen => some [.op .rparen]
  | .word w plus => (normCore w plus).map (fun p => p.1 ++ (if plus && !p.2 then [.op .plus] else []))
  | .licRef r => some [.licRef r]
  | .docRef d r => some [.docRef d, .op .colon, .licRef r]

/-- well-formed lexemes: words and reference names are non-empty runs of id bytes; a word begins with no keyword / prefix -/
def Lexeme.OK : Lexeme → Prop
  | .word w _ => allId w = true ∧ Clean w
  | .licRef r => allId r = true ∧ r ≠ []
  | .docRef d r => allId d = true ∧ d ≠ [] ∧ allId r = true ∧ r ≠ []
  | _ => True

def Sep (b : Bytes) : Prop := b = [] ∨ b.head? = some 32

theorem sep_boundary {b : Bytes} (h : Sep b) : isBoundary b = true := by
  rcases h with rfl | h
  · rfl
  · cases b with
    | nil => simp at h
    | cons c r => simp at h; subst h; rfl

theorem sep_stops {b : Bytes} (h : Sep b) : Stops b := by
  intro c hc
  rcases h with rfl | h
  · simp at hc
  · rw [h] at hc; simp at hc; subst hc; decide

theorem sep_ne_plus {b : Bytes} (h : Sep b) : b.head? ≠ some 43 := by
  rcases h with rfl | h
  · simp
  · rw [h]; simp

/-- an unknown word makes the whole text unscannable -/
theorem toks_word_none (w b : Bytes) (hw : allId w = true) (hc : Clean w) (hb : Stops b)
    (hn : normCore w (b.head? == some 43) = none) : toks (w ++ b) = none := by
  obtain ⟨-, hsp⟩ := clean_head_not_sp hw hc
  have hne : w ++ b ≠ [] := by
    intro h; exact hc.2.2.2 (List.append_eq_nil_iff.mp h).1
  unfold toks
  rw [scan_eq_scanFrom, scanFrom_unfold, step_eq, (hsp b).2, (hsp b).1]
  simp only [hne, ↓reduceIte]
  rw [lexeme_word w b _ _ hw hc hb, hn]
  rfl

/-- **one lexeme followed by a separator** -/
theorem toks_lexeme_append (l : Lexeme) (h : l.OK) (b : Bytes) (hb : Sep b) :
    toks (l.text ++ b) = l.toks.bind (fun t => (toks b).map (t ++ ·)) := by
  have hbd := sep_boundary hb
  cases l with
  | kwWith => rw [toks_append _ b hbd]; have : toks Lexeme.kwWith.text = some [.op .with_] := by decide +kernel
              rw [this]; rfl
  | kwAnd => rw [toks_append _ b hbd]; have : toks Lexeme.kwAnd.text = some [.op .and_] := by decide +kernel
             rw [this]; rfl
  | kwOr => rw [toks_append _ b hbd]; have : toks Lexeme.kwOr.text = some [.op .or_] := by decide +kernel
            rw [this]; rfl
  | lparen => rw [toks_append _ b hbd]; have : toks Lexeme.lparen.text = some [.op .lparen] := by decide +kernel
              rw [this]; rfl
  | rparen => rw [toks_append _ b hbd]; have : toks Lexeme.rparen.text = some [.op .rparen] := by decide +kernel
              rw [this]; rfl
  | licRef r =>
    obtain ⟨h1, h2⟩ := h
    simp only [Lexeme.text, Lexeme.toks, List.append_assoc, Option.bind_some]
    rw [toks_of_step _ b [.licRef r] (fun off => step_licRef r b off h1 h2 (sep_stops hb))]
  | docRef d r =>
    obtain ⟨h1, h2, h3, h4⟩ := h
    simp only [Lexeme.text, Lexeme.toks, List.append_assoc, List.cons_append, Option.bind_some]
    rw [toks_of_step _ _ [.docRef d] (fun off => step_docRef d (58 :: (licRefPrefix ++ (r ++ b))) off h1 h2 (stops_cons (by decide))),
      toks_of_step _ _ [.op .colon] (fun off => step_colon _ off),
      toks_of_step _ b [.licRef r] (fun off => step_licRef r b off h3 h4 (sep_stops hb))]
    cases toks b <;> simp
  | word w plus =>
    obtain ⟨h1, h2⟩ := h
    cases plus with
    | false =>
      simp only [Lexeme.text, Lexeme.toks, Bool.false_eq_true, ↓reduceIte, List.append_nil, Bool.false_and]
      have hnp : (b.head? == some 43) = false := by simpa using sep_ne_plus hb
      cases hn : normCore w false with
      | none => rw [toks_word_none w b h1 h2 (sep_stops hb) (by rw [hnp]; exact hn)]; rfl
      | some p =>
        obtain ⟨tk, k⟩ := p
        rw [toks_word w b tk k h1 h2 (sep_stops hb) (by rw [hnp]; exact hn)]
        -- without a `+` behind the word nothing is consumed
        have hk : k = false := by
          unfold normCore at hn
          simp only [Bool.false_eq_true, ↓reduceIte] at hn
          repeat' split at hn
          all_goals first | (simp at hn; exact hn.2) | simp at hn
        subst hk
        simp
    | true =>
      simp only [Lexeme.text, Lexeme.toks, ↓reduceIte, List.append_assoc, List.singleton_append, Bool.true_and]
      cases hn : normCore w true with
      | none => rw [toks_word_none w (43 :: b) h1 h2 (stops_cons (by decide)) (by simpa using hn)]; rfl
      | some p =>
        obtain ⟨tk, k⟩ := p
        rw [toks_word w (43 :: b) tk k h1 h2 (stops_cons (by decide)) (by simpa using hn)]
        cases k with
        | true => simp
        | false =>
          simp only [Bool.false_eq_true, ↓reduceIte, Bool.not_false, Option.map_some, Option.bind_some]
          rw [toks_plus_append b hbd]
          cases toks b <;> simp

/-- the text of a sequence of lexemes separated by single spaces -/
def spaced : List Lexeme → Bytes
  | [] => []
  | [l] => l.text
  | l :: rest => l.text ++ 32 :: spaced rest

def allToks : List Lexeme → Option (List Tok)
  | [] => some []
  | l :: rest => l.toks.bind (fun t => (allToks rest).map (t ++ ·))

theorem text_head_ne_plus (l : Lexeme) (h : l.OK) (r : Bytes) : (l.text ++ r).head? ≠ some 43 := by
  cases l with
  | word w plus => simp only [Lexeme.text, List.append_assoc]; exact head_idChar_ne_plus h.1 _ h.2.2.2.2
  | licRef r => simp [Lexeme.text, licRefPrefix]
  | docRef d r => simp [Lexeme.text, docRefPrefix]
  | _ => simp [Lexeme.text]

/-- **a space-separated sequence of lexemes is scanned to exactly the tokens the lexemes denote** -/
theorem toks_spaced (ls : List Lexeme) (h : ∀ l ∈ ls, l.OK) : toks (spaced ls) = allToks ls := by
  induction ls with
  | nil => exact toks_nil
  | cons l rest ih =>
    have hl := h l (by simp)
    have hr : ∀ x ∈ rest, x.OK := fun x hx => h x (by simp [hx])
    cases rest with
    | nil =>
      have := toks_lexeme_append l hl [] (Or.inl rfl)
      simp only [List.append_nil, toks_nil] at this
      simp only [spaced, allToks]
      rw [this]
      try (cases l.toks <;> simp)
    | cons l2 rest2 =>
      have := toks_lexeme_append l hl (32 :: spaced (l2 :: rest2)) (Or.inr rfl)
      simp only [spaced] at this ⊢
      rw [this]
      have hsp := toks_leading_spaces [32] (spaced (l2 :: rest2)) (by simp [List.dropWhile, isSp]) (by
        cases rest2 with
        | nil => have := text_head_ne_plus l2 (hr l2 (by simp)) []; simpa [spaced] using this
        | cons l3 r3 => exact text_head_ne_plus l2 (hr l2 (by simp)) _)
      simp only [List.singleton_append, spaced] at hsp
      rw [hsp, ih hr]
      rfl

end Spdx
