/-
Lemmas/Layout — loose and tight spacing: a sequence of SPDX lexemes laid out with any number of spaces before each lexeme
and at the end, and with NO space where a parenthesis stands on either side, is scanned to exactly the tokens the lexemes
denote.  (Generalises `toks_spaced`, which is the layout with no leading / trailing space and single spaces between.)
-/
import SpdxVerif.Lemmas.Spaced
namespace Spdx

theorem boundary_stops {b : Bytes} (h : isBoundary b = true) : Stops b := by
  intro c hc
  cases b with
  | nil => simp at hc
  | cons x r =>
    simp at hc; subst hc
    simp only [isBoundary, Bool.or_eq_true, beq_iff_eq] at h
    rcases h with (h | h) | h <;> subst h <;> decide

theorem boundary_ne_plus {b : Bytes} (h : isBoundary b = true) : b.head? ≠ some 43 := by
  cases b with
  | nil => simp
  | cons x r =>
    simp only [isBoundary, Bool.or_eq_true, beq_iff_eq] at h
    simp only [List.head?_cons, ne_eq, Option.some.injEq]
    rcases h with (h | h) | h <;> omega

/-- **one lexeme followed by a space, a parenthesis, or the end** -/
theorem toks_lexeme_boundary (l : Lexeme) (h : l.OK) (b : Bytes) (hbd : isBoundary b = true) :
    toks (l.text ++ b) = l.toks.bind (fun t => (toks b).map (t ++ ·)) := by
  have hst := boundary_stops hbd
  cases l with
  | kwWith => rw [toks_append _ b hbd]; have : toks Lexeme.kwWith.text = some [.op .with_] := by decide +kernel
              rw [this]; rfl
  | kwAnd => rw [toks_append _ b hbd]; have : toks Lexeme.kwAnd.text = some [.op .and_] := by decide +kernel
             rw [this]; rfl
  | kwOr => rw [toks_append _ b hbd]; have : toks Lexeme.kwOr.text = some [.op .or_] := by decide +kernel
            rw [this]; rfl
  | lparen => rw [toks_append _ b hbd]; have : toks Lexeme.lparen.text = some [.op .lparen] := by decide +kernel
              rw [this]; rfl
  | rparen => rw [toks_append _ b hbd]; have : toks Lexeme.rparen.text = some [.op .rparen] := by decide +kernel
              rw [this]; rfl
  | licRef r =>
    obtain ⟨h1, h2⟩ := h
    simp only [Lexeme.text, Lexeme.toks, List.append_assoc, Option.bind_some]
    rw [toks_of_step _ b [.licRef r] (fun off => step_licRef r b off h1 h2 hst)]
  | docRef d r =>
    obtain ⟨h1, h2, h3, h4⟩ := h
    simp only [Lexeme.text, Lexeme.toks, List.append_assoc, List.cons_append, Option.bind_some]
    rw [toks_of_step _ _ [.docRef d] (fun off => step_docRef d (58 :: (licRefPrefix ++ (r ++ b))) off h1 h2 (stops_cons (by decide))),
      toks_of_step _ _ [.op .colon] (fun off => step_colon _ off),
      toks_of_step _ b [.licRef r] (fun off => step_licRef r b off h3 h4 hst)]
    cases toks b <;> simp
  | word w plus =>
    obtain ⟨h1, h2⟩ := h
    cases plus with
    | false =>
      simp only [Lexeme.text, Lexeme.toks, Bool.false_eq_true, ↓reduceIte, List.append_nil, Bool.false_and]
      have hnp : (b.head? == some 43) = false := by simpa using boundary_ne_plus hbd
      cases hn : normCore w false with
      | none => rw [toks_word_none w b h1 h2 hst (by rw [hnp]; exact hn)]; rfl
      | some p =>
        obtain ⟨tk, k⟩ := p
        rw [toks_word w b tk k h1 h2 hst (by rw [hnp]; exact hn)]
        have hk : k = false := by
          unfold normCore at hn
          simp only [Bool.false_eq_true, ↓reduceIte] at hn
          repeat' split at hn
          all_goals first | (simp at hn; exact hn.2) | simp at hn
        subst hk
        simp
    | true =>
      simp only [Lexeme.text, Lexeme.toks, ↓reduceIte, List.append_assoc, List.singleton_append, Bool.true_and]
      cases hn : normCore w true with
      | none => rw [toks_word_none w (43 :: b) h1 h2 (stops_cons (by decide)) (by simpa using hn)]; rfl
      | some p =>
        obtain ⟨tk, k⟩ := p
        rw [toks_word w (43 :: b) tk k h1 h2 (stops_cons (by decide)) (by simpa using hn)]
        cases k with
        | true => simp
        | false =>
          simp only [Bool.false_eq_true, ↓reduceIte, Bool.not_false, Option.map_some, Option.bind_some]
          rw [toks_plus_append b hbd]
          cases toks b <;> simp

def Lexeme.isParen : Lexeme → Bool
  | .lparen => true | .rparen => true | _ => false

def spaces (g : Nat) : Bytes := List.replicate g 32

/-- the text of a layout: `g` spaces before each lexeme, `t` spaces at the end -/
def laidOut : List (Nat × Lexeme) → Nat → Bytes
  | [], t => spaces t
  | (g, l) :: rest, t => spaces g ++ (l.text ++ laidOut rest t)

/-- the gap before a lexeme may be empty only where a parenthesis stands on either side (the first lexeme is free) -/
def TightOK : List (Nat × Lexeme) → Prop
  | [] => True
  | [_] => True
  | (g1, l1) :: (g2, l2) :: rest => (g2 = 0 → l1.isParen = true ∨ l2.isParen = true) ∧ TightOK ((g2, l2) :: rest)

theorem spaces_dropWhile (g : Nat) : (spaces g).dropWhile isSp = [] := by
  induction g with
  | zero => rfl
  | succ g ih => simpa [spaces, List.replicate_succ, List.dropWhile, isSp] using ih

theorem spaces_boundary (g : Nat) (b : Bytes) (hb : isBoundary b = true) : isBoundary (spaces g ++ b) = true := by
  cases g with
  | zero => simpa [spaces] using hb
  | succ g => simp [spaces, List.replicate_succ, isBoundary]

theorem paren_text_boundary (l : Lexeme) (h : l.isParen = true) (b : Bytes) : isBoundary (l.text ++ b) = true := by
  cases l <;> simp_all [Lexeme.isParen, Lexeme.text, isBoundary]

theorem laidOut_boundary (l1 : Lexeme) (g1 : Nat) (h1 : l1.isParen = false) :
    ∀ (rest : List (Nat × Lexeme)) (t : Nat), TightOK ((g1, l1) :: rest) → isBoundary (laidOut rest t) = true := by
  intro rest t htight
  cases rest with
  | nil => cases t with
    | zero => rfl
    | succ t => simp [laidOut, spaces, List.replicate_succ, isBoundary]
  | cons p rest2 =>
    obtain ⟨g2, l2⟩ := p
    simp only [laidOut]
    cases g2 with
    | succ g => simp [spaces, List.replicate_succ, isBoundary]
    | zero =>
      have := htight.1 rfl
      rw [h1] at this
      simp only [Bool.false_eq_true, false_or] at this
      simpa [spaces] using paren_text_boundary l2 this _

/-- **a layout is scanned to exactly the tokens its lexemes denote** -/
theorem toks_laidOut (ps : List (Nat × Lexeme)) (t : Nat) (h : ∀ p ∈ ps, p.2.OK) (ht : TightOK ps) :
    toks (laidOut ps t) = allToks (ps.map (·.2)) := by
  induction ps with
  | nil => exact toks_spaces _ (spaces_dropWhile t)
  | cons p rest ih =>
    obtain ⟨g, l⟩ := p
    have hl : l.OK := h (g, l) (by simp)
    have hr : ∀ x ∈ rest, x.2.OK := fun x hx => h x (by simp [hx])
    have htr : TightOK rest := by
      cases rest with
      | nil => trivial
      | cons q r => obtain ⟨g2, l2⟩ := q; exact ht.2
    have ihr := ih hr htr
    simp only [laidOut, List.map_cons, allToks]
    rw [toks_leading_spaces (spaces g) _ (spaces_dropWhile g) (text_head_ne_plus l hl _)]
    cases hp : l.isParen with
    | true =>
      cases l with
      | lparen =>
        show toks (40 :: laidOut rest t) = _
        rw [toks_cons_lparen, ihr]
        cases allToks (rest.map (·.2)) <;> simp [Lexeme.toks]
      | rparen =>
        show toks (41 :: laidOut rest t) = _
        rw [toks_cons_rparen, ihr]
        cases allToks (rest.map (·.2)) <;> simp [Lexeme.toks]
      | _ => simp [Lexeme.isParen] at hp
    | false =>
      rw [toks_lexeme_boundary l hl _ (laidOut_boundary l g hp rest t ht), ihr]

end Spdx
