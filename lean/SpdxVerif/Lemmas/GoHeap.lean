/-
Lemmas/GoHeap — the heap-level expansion (Model/GoHeap) refines the functional one (Model/Expand):
separation (every live alternative has its own backing array) is an invariant of the code as repaired, and under it
`append` in place and `append` by copy denote the same value.
-/
import SpdxVerif.Model.GoHeap
import SpdxVerif.Lemmas.Expand
namespace Spdx.H

/-- the header points into the heap and its length lies within what the array holds -/
def OkSl (h : Heap) (s : Sl) : Prop := s.arr < h.length ∧ s.len ≤ (cellsOf h s.arr).length

theorem cellsOf_congr {h h' : Heap} {a : Nat} (e : h'[a]? = h[a]?) : cellsOf h' a = cellsOf h a := by
  unfold cellsOf; rw [e]
theorem capOf_congr {h h' : Heap} {a : Nat} (e : h'[a]? = h[a]?) : capOf h' a = capOf h a := by
  unfold capOf; rw [e]
theorem read_congr {h h' : Heap} {s : Sl} (e : h'[s.arr]? = h[s.arr]?) : read h' s = read h s := by
  unfold read; rw [cellsOf_congr e]
theorem OkSl_congr {h h' : Heap} {s : Sl} (hl : h.length ≤ h'.length) (e : h'[s.arr]? = h[s.arr]?) (ok : OkSl h s) :
    OkSl h' s := by
  unfold OkSl at *; rw [cellsOf_congr e]; exact ⟨by omega, ok.2⟩

theorem cellsOf_set (h : Heap) (a : Nat) (x : Arr) (ha : a < h.length) : cellsOf (h.set a x) a = x.cells := by
  unfold cellsOf; simp [ha]

theorem alloc_spec (h : Heap) (xs : List Node) (cap : Nat) :
    read (alloc h xs cap).2 (alloc h xs cap).1 = xs ∧ (alloc h xs cap).2.length = h.length + 1 ∧
    (alloc h xs cap).1.arr = h.length ∧ (∀ i, i < h.length → (alloc h xs cap).2[i]? = h[i]?) ∧
    OkSl (alloc h xs cap).2 (alloc h xs cap).1 ∧ (alloc h xs cap).1.len = xs.length ∧
    capOf (alloc h xs cap).2 h.length = cap := by
  have hc : cellsOf (h ++ [{ cells := xs, cap := cap }]) h.length = xs := by
    unfold cellsOf; simp
  refine ⟨?_, ?_, rfl, ?_, ?_, rfl, ?_⟩
  · simp only [alloc, read, hc]; simp
  · simp [alloc]
  · intro i hi; simp only [alloc]; rw [List.getElem?_append_left hi]
  · simp only [alloc, OkSl, hc]; simp
  · simp only [alloc]; unfold capOf; simp

/-- what `append` guarantees for a header that is well-formed: the new header denotes `old ++ rc`; no array other than
    `l`'s is touched; the result lives in `l`'s array or in a fresh one (and then `l`'s array is untouched as well) -/
theorem appendG_spec (grow : Nat → Nat → Nat) (h : Heap) (l : Sl) (rc : List Node) (ok : OkSl h l) :
    read (appendG grow h l rc).2 (appendG grow h l rc).1 = read h l ++ rc ∧
    h.length ≤ (appendG grow h l rc).2.length ∧
    (∀ i, i < h.length → i ≠ l.arr → (appendG grow h l rc).2[i]? = h[i]?) ∧
    OkSl (appendG grow h l rc).2 (appendG grow h l rc).1 ∧
    (((appendG grow h l rc).1.arr = l.arr ∧ (appendG grow h l rc).2.length = h.length) ∨
     ((appendG grow h l rc).1.arr = h.length ∧ (appendG grow h l rc).2.length = h.length + 1 ∧
      (appendG grow h l rc).2[l.arr]? = h[l.arr]?)) := by
  obtain ⟨ha, hlen⟩ := ok
  unfold appendG
  split
  · -- in place
    have hc := cellsOf_set h l.arr { cells := List.take l.len (cellsOf h l.arr) ++ rc ++ List.drop (l.len + rc.length) (cellsOf h l.arr), cap := capOf h l.arr } ha
    simp only at hc
    refine ⟨?_, by simp, ?_, ?_, Or.inl ⟨rfl, by simp⟩⟩
    · simp only [read]; rw [hc]
      have : ((cellsOf h l.arr).take l.len ++ rc).length = l.len + rc.length := by
        simp [List.length_take]; omega
      rw [List.take_append_of_le_length (by omega)]
      rw [← this, List.take_length]
    · intro i _ hne; simp [Ne.symm hne]
    · simp only [OkSl]; rw [hc]; refine ⟨by simpa using ha, ?_⟩
      simp [List.length_take]; omega
  · -- fresh
    have s := alloc_spec h (read h l ++ rc) (grow (capOf h l.arr) (l.len + rc.length))
    refine ⟨s.1, by omega, fun i hi _ => s.2.2.2.1 i hi, s.2.2.2.2.1, Or.inr ⟨s.2.2.1, s.2.1, s.2.2.2.1 _ ha⟩⟩

abbrev arrs (ls : List Sl) : List Nat := ls.map (·.arr)

theorem mem_arrs {ls : List Sl} {s : Sl} (h : s ∈ ls) : s.arr ∈ arrs ls := List.mem_map.2 ⟨s, h, rfl⟩

/-- the inner loop of `mergeTerms` under separation: every alternative gets `r` appended, nothing else changes -/
theorem mergeInnerH_spec (grow : Nat → Nat → Nat) (r : Sl) : ∀ (ls : List Sl) (h : Heap),
    (arrs ls).Nodup → (∀ l ∈ ls, OkSl h l) → r.arr < h.length → r.arr ∉ arrs ls →
    (mergeInnerH grow r ls h).1.map (read (mergeInnerH grow r ls h).2) = ls.map (fun l => read h l ++ read h r) ∧
    h.length ≤ (mergeInnerH grow r ls h).2.length ∧
    (∀ i, i < h.length → i ∉ arrs ls → (mergeInnerH grow r ls h).2[i]? = h[i]?) ∧
    (∀ s ∈ (mergeInnerH grow r ls h).1, OkSl (mergeInnerH grow r ls h).2 s ∧ (s.arr ∈ arrs ls ∨ h.length ≤ s.arr)) ∧
    (arrs (mergeInnerH grow r ls h).1).Nodup := by
  intro ls
  induction ls with
  | nil => intro h _ _ _ _; simp [mergeInnerH, arrs]
  | cons l ls ih =>
    intro h nd ok hr hrn
    have okl : OkSl h l := ok l (List.mem_cons_self ..)
    obtain ⟨a1, a2, a3, a4, a5⟩ := appendG_spec grow h l (read h r) okl
    have nd' : l.arr ∉ arrs ls ∧ (arrs ls).Nodup := by simpa [arrs] using nd
    have hrl : r.arr ≠ l.arr := by intro e; apply hrn; simp [arrs, e]
    have hrn' : r.arr ∉ arrs ls := by intro e; apply hrn; simp only [arrs, List.map_cons, List.mem_cons]; exact Or.inr e
    have lt_of_mem : ∀ l' ∈ ls, l'.arr < h.length := fun l' m => (ok l' (List.mem_cons_of_mem _ m)).1
    have ne_of_mem : ∀ l' ∈ ls, l'.arr ≠ l.arr := fun l' m e => nd'.1 (e ▸ mem_arrs m)
    -- abbreviations
    generalize hp : appendG grow h l (read h r) = p at a1 a2 a3 a4 a5
    have ok' : ∀ l' ∈ ls, OkSl p.2 l' := fun l' m =>
      OkSl_congr a2 (a3 _ (lt_of_mem l' m) (ne_of_mem l' m)) (ok l' (List.mem_cons_of_mem _ m))
    obtain ⟨b1, b2, b3, b4, b5⟩ := ih p.2 nd'.2 ok' (by omega) hrn'
    have p1_notin : p.1.arr ∉ arrs ls := by
      rcases a5 with ⟨e, _⟩ | ⟨e, _, _⟩
      · rw [e]; exact nd'.1
      · intro m; obtain ⟨l', m', e'⟩ := List.mem_map.1 m
        have := lt_of_mem l' m'; omega
    have p1_lt : p.1.arr < p.2.length := a4.1
    simp only [mergeInnerH, hp]
    generalize hq : mergeInnerH grow r ls p.2 = q at b1 b2 b3 b4 b5
    refine ⟨?_, by omega, ?_, ?_, ?_⟩
    · simp only [List.map_cons]
      rw [read_congr (b3 _ p1_lt p1_notin), a1, b1]
      congr 1
      apply List.map_congr_left
      intro l' m
      rw [read_congr (a3 _ (lt_of_mem l' m) (ne_of_mem l' m)), read_congr (a3 _ hr hrl)]
    · intro i hi hn
      have h1 : i ≠ l.arr := by intro e; apply hn; simp [arrs, e]
      have h2 : i ∉ arrs ls := by intro e; apply hn; simp only [arrs, List.map_cons, List.mem_cons]; exact Or.inr e
      rw [b3 i (by omega) h2, a3 i hi h1]
    · intro s m
      rcases List.mem_cons.1 m with e | m
      · subst e
        refine ⟨OkSl_congr b2 (b3 _ p1_lt p1_notin) a4, ?_⟩
        rcases a5 with ⟨e, _⟩ | ⟨e, _, _⟩
        · left; simp [arrs, e]
        · right; omega
      · obtain ⟨o, loc⟩ := b4 s m
        refine ⟨o, ?_⟩
        rcases loc with e | e
        · left; simp only [arrs, List.map_cons, List.mem_cons]; exact Or.inr e
        · right; omega
    · simp only [arrs, List.map_cons, List.nodup_cons]
      refine ⟨?_, b5⟩
      intro m
      obtain ⟨s, ms, es⟩ := List.mem_map.1 m
      rcases (b4 s ms).2 with e | e
      · exact p1_notin (es ▸ e)
      · omega

theorem not_mem_arrs_of_lt {ls : List Sl} {i b : Nat} (hb : ∀ s ∈ ls, b ≤ s.arr) (hi : i < b) : i ∉ arrs ls := by
  intro m; obtain ⟨s, ms, es⟩ := List.mem_map.1 m; have := hb s ms; omega

/-- `mergeTerms` under separation -/
theorem mergeTermsH_spec (grow : Nat → Nat → Nat) : ∀ (rs ls : List Sl) (h : Heap),
    (arrs (ls ++ rs)).Nodup → (∀ s ∈ ls ++ rs, OkSl h s) →
    (mergeTermsH grow ls rs h).1.map (read (mergeTermsH grow ls rs h).2) = mergeTerms (ls.map (read h)) (rs.map (read h)) ∧
    h.length ≤ (mergeTermsH grow ls rs h).2.length ∧
    (∀ i, i < h.length → i ∉ arrs ls → (mergeTermsH grow ls rs h).2[i]? = h[i]?) ∧
    (∀ s ∈ (mergeTermsH grow ls rs h).1, OkSl (mergeTermsH grow ls rs h).2 s ∧ (s.arr ∈ arrs ls ∨ h.length ≤ s.arr)) ∧
    (arrs (mergeTermsH grow ls rs h).1).Nodup := by
  intro rs
  induction rs with
  | nil =>
    intro ls h nd ok
    simp only [List.append_nil] at nd ok
    refine ⟨by simp [mergeTermsH, mergeTerms], by simp [mergeTermsH], fun _ _ _ => by simp [mergeTermsH], ?_, by simpa [mergeTermsH] using nd⟩
    intro s m
    simp only [mergeTermsH] at m ⊢
    exact ⟨ok s m, Or.inl (mem_arrs m)⟩
  | cons r rs ih =>
    intro ls h nd ok
    have nd1 : (arrs ls).Nodup ∧ (arrs (r :: rs)).Nodup ∧ ∀ a ∈ arrs ls, ∀ b ∈ arrs (r :: rs), a ≠ b := by
      simpa [arrs, List.nodup_append] using nd
    have okr : OkSl h r := ok r (by simp)
    have hrn : r.arr ∉ arrs ls := fun m => nd1.2.2 _ m r.arr (by simp [arrs]) rfl
    obtain ⟨a1, a2, a3, a4, a5⟩ := mergeInnerH_spec grow r ls h nd1.1 (fun l m => ok l (by simp [m])) okr.1 hrn
    simp only [mergeTermsH]
    generalize hp : mergeInnerH grow r ls h = p at a1 a2 a3 a4 a5
    have rs_lt : ∀ s ∈ rs, s.arr < h.length := fun s m => (ok s (by simp [m])).1
    have rs_notin : ∀ s ∈ rs, s.arr ∉ arrs ls := fun s m m' => nd1.2.2 _ m' s.arr (by simp only [arrs, List.map_cons, List.mem_cons]; exact Or.inr (mem_arrs m)) rfl
    have nd2 : (arrs (p.1 ++ rs)).Nodup := by
      simp only [arrs, List.map_append, List.nodup_append]
      refine ⟨a5, ?_, ?_⟩
      · have := nd1.2.1; simp only [arrs, List.map_cons, List.nodup_cons] at this; exact this.2
      · intro a ma b mb e
        obtain ⟨s, ms, es⟩ := List.mem_map.1 ma
        obtain ⟨t, mt, et⟩ := List.mem_map.1 mb
        rcases (a4 s ms).2 with loc | loc
        · exact rs_notin t mt (by rw [et, ← e, ← es]; exact loc)
        · have := rs_lt t mt; omega
    have ok2 : ∀ s ∈ p.1 ++ rs, OkSl p.2 s := by
      intro s m
      rcases List.mem_append.1 m with m | m
      · exact (a4 s m).1
      · exact OkSl_congr a2 (a3 _ (rs_lt s m) (rs_notin s m)) (ok s (by simp [m]))
    obtain ⟨b1, b2, b3, b4, b5⟩ := ih p.1 p.2 nd2 ok2
    generalize hq : mergeTermsH grow p.1 rs p.2 = q at b1 b2 b3 b4 b5
    refine ⟨?_, by omega, ?_, ?_, b5⟩
    · rw [b1, a1]
      have e : rs.map (read p.2) = rs.map (read h) :=
        List.map_congr_left fun s m => read_congr (a3 _ (rs_lt s m) (rs_notin s m))
      rw [e]
      simp only [mergeTerms, List.map_cons, List.foldl_cons, List.map_map]
      rfl
    · intro i hi hn
      have : i ∉ arrs p.1 := by
        intro m; obtain ⟨s, ms, es⟩ := List.mem_map.1 m
        rcases (a4 s ms).2 with loc | loc
        · exact hn (es ▸ loc)
        · omega
      rw [b3 i (by omega) this, a3 i hi hn]
    · intro s m
      obtain ⟨o, loc⟩ := b4 s m
      refine ⟨o, ?_⟩
      rcases loc with loc | loc
      · obtain ⟨t, mt, et⟩ := List.mem_map.1 loc
        rcases (a4 t mt).2 with l2 | l2
        · left; rw [← et]; exact l2
        · right; omega
      · right; omega

/-- the inner loop of `appendTerms`: it only reads `l` and `r` and writes into arrays it has just made -/
theorem appendInnerH_spec (grow : Nat → Nat → Nat) (r : Sl) : ∀ (ls : List Sl) (h : Heap),
    (∀ l ∈ ls, l.arr < h.length) → r.arr < h.length →
    (appendInnerH grow r ls h).1.map (read (appendInnerH grow r ls h).2) = ls.map (fun l => read h l ++ read h r) ∧
    h.length ≤ (appendInnerH grow r ls h).2.length ∧
    (∀ i, i < h.length → (appendInnerH grow r ls h).2[i]? = h[i]?) ∧
    (∀ s ∈ (appendInnerH grow r ls h).1, OkSl (appendInnerH grow r ls h).2 s ∧ h.length ≤ s.arr) ∧
    (arrs (appendInnerH grow r ls h).1).Nodup := by
  intro ls
  induction ls with
  | nil => intro h _ _; simp [appendInnerH, arrs]
  | cons l ls ih =>
    intro h hl hr
    have hl0 : l.arr < h.length := hl l (by simp)
    obtain ⟨z1, z2, z3, z4, z5, z6, _⟩ := alloc_spec h [] (l.len + r.len)
    simp only [appendInnerH]
    generalize hp0 : alloc h [] (l.len + r.len) = p0 at z1 z2 z3 z4 z5 z6
    obtain ⟨a1, a2, a3, a4, a5⟩ := appendG_spec grow p0.2 p0.1 (read p0.2 l) z5
    generalize hp1 : appendG grow p0.2 p0.1 (read p0.2 l) = p1 at a1 a2 a3 a4 a5
    obtain ⟨c1, c2, c3, c4, c5⟩ := appendG_spec grow p1.2 p1.1 (read p1.2 r) a4
    generalize hp2 : appendG grow p1.2 p1.1 (read p1.2 r) = p2 at c1 c2 c3 c4 c5
    have p1arr : h.length ≤ p1.1.arr := by rcases a5 with ⟨e, _⟩ | ⟨e, _, _⟩ <;> omega
    have p2arr : h.length ≤ p2.1.arr := by rcases c5 with ⟨e, _⟩ | ⟨e, _, _⟩ <;> omega
    have f1 : ∀ i, i < h.length → p1.2[i]? = h[i]? := fun i hi => by rw [a3 i (by omega) (by omega), z4 i hi]
    have f2 : ∀ i, i < h.length → p2.2[i]? = h[i]? := fun i hi => by rw [c3 i (by omega) (by omega), f1 i hi]
    obtain ⟨b1, b2, b3, b4, b5⟩ := ih p2.2 (fun l' m => by have := hl l' (by simp [m]); omega) (by omega)
    generalize hq : appendInnerH grow r ls p2.2 = q at b1 b2 b3 b4 b5
    refine ⟨?_, by omega, fun i hi => by rw [b3 i (by omega), f2 i hi], ?_, ?_⟩
    · simp only [List.map_cons]
      rw [read_congr (b3 _ c4.1), c1, a1, z1, b1, read_congr (f1 _ hr), read_congr (z4 _ hl0)]
      simp only [List.nil_append]
      congr 1
      apply List.map_congr_left
      intro l' m
      rw [read_congr (f2 _ (hl l' (by simp [m]))), read_congr (f2 _ hr)]
    · intro s m
      rcases List.mem_cons.1 m with e | m
      · subst e; exact ⟨OkSl_congr b2 (b3 _ c4.1) c4, p2arr⟩
      · exact ⟨(b4 s m).1, by have := (b4 s m).2; omega⟩
    · simp only [arrs, List.map_cons, List.nodup_cons]
      refine ⟨?_, b5⟩
      intro m
      obtain ⟨s, ms, es⟩ := List.mem_map.1 m
      have := (b4 s ms).2; have := c4.1; omega

/-- `appendTerms` as repaired: every alternative of the result lives in an array of its own -/
theorem appendTermsH_spec (grow : Nat → Nat → Nat) (ls : List Sl) : ∀ (rs : List Sl) (h : Heap),
    (∀ l ∈ ls, l.arr < h.length) → (∀ r ∈ rs, r.arr < h.length) →
    (appendTermsH grow ls rs h).1.map (read (appendTermsH grow ls rs h).2) = appendTerms (ls.map (read h)) (rs.map (read h)) ∧
    h.length ≤ (appendTermsH grow ls rs h).2.length ∧
    (∀ i, i < h.length → (appendTermsH grow ls rs h).2[i]? = h[i]?) ∧
    (∀ s ∈ (appendTermsH grow ls rs h).1, OkSl (appendTermsH grow ls rs h).2 s ∧ h.length ≤ s.arr) ∧
    (arrs (appendTermsH grow ls rs h).1).Nodup := by
  intro rs
  induction rs with
  | nil => intro h _ _; simp [appendTermsH, appendTerms, arrs]
  | cons r rs ih =>
    intro h hl hr
    obtain ⟨a1, a2, a3, a4, a5⟩ := appendInnerH_spec grow r ls h hl (hr r (by simp))
    simp only [appendTermsH]
    generalize hp : appendInnerH grow r ls h = p at a1 a2 a3 a4 a5
    obtain ⟨b1, b2, b3, b4, b5⟩ := ih p.2 (fun l m => by have := hl l m; omega) (fun t m => by have := hr t (by simp [m]); omega)
    generalize hq : appendTermsH grow ls rs p.2 = q at b1 b2 b3 b4 b5
    refine ⟨?_, by omega, fun i hi => by rw [b3 i (by omega), a3 i hi], ?_, ?_⟩
    · simp only [List.map_append]
      have e1 : p.1.map (read q.2) = p.1.map (read p.2) :=
        List.map_congr_left fun s m => read_congr (b3 _ (a4 s m).1.1)
      have e2 : ls.map (read p.2) = ls.map (read h) := List.map_congr_left fun s m => read_congr (a3 _ (hl s m))
      have e3 : rs.map (read p.2) = rs.map (read h) :=
        List.map_congr_left fun s m => read_congr (a3 _ (hr s (by simp [m])))
      rw [e1, a1, b1, e2, e3]
      simp only [appendTerms, List.map_cons, List.flatMap_cons, List.map_map]
      rfl
    · intro s m
      rcases List.mem_append.1 m with m | m
      · exact ⟨OkSl_congr b2 (b3 _ (a4 s m).1.1) (a4 s m).1, (a4 s m).2⟩
      · exact ⟨(b4 s m).1, by have := (b4 s m).2; omega⟩
    · simp only [arrs, List.map_append, List.nodup_append]
      refine ⟨a5, b5, ?_⟩
      intro a ma b mb e
      obtain ⟨s, ms, es⟩ := List.mem_map.1 ma
      obtain ⟨t, mt, et⟩ := List.mem_map.1 mb
      have := (a4 s ms).1.1; have := (b4 t mt).2; omega

/-- THE REFINEMENT: run on any heap with any growth policy, the heap-level expansion returns headers that denote the
    functional expansion, touches no array that existed before, and leaves every alternative in an array of its own -/
theorem expandTermH_spec (grow : Nat → Nat → Nat) : ∀ (n : Node) (h : Heap),
    (expandTermH grow n h).1.map (read (expandTermH grow n h).2) = expandTerm n ∧
    h.length ≤ (expandTermH grow n h).2.length ∧
    (∀ i, i < h.length → (expandTermH grow n h).2[i]? = h[i]?) ∧
    (∀ s ∈ (expandTermH grow n h).1, OkSl (expandTermH grow n h).2 s ∧ h.length ≤ s.arr) ∧
    (arrs (expandTermH grow n h).1).Nodup := by
  intro n
  induction n with
  | lic id p e =>
    intro h
    obtain ⟨z1, z2, z3, z4, z5, _, _⟩ := alloc_spec h [.lic id p e] 1
    simp only [expandTermH, expandTerm, List.map_cons, List.map_nil, z1, List.mem_singleton, forall_eq, arrs]
    exact ⟨trivial, by omega, z4, ⟨z5, by omega⟩, by simp⟩
  | ref d i =>
    intro h
    obtain ⟨z1, z2, z3, z4, z5, _, _⟩ := alloc_spec h [.ref d i] 1
    simp only [expandTermH, expandTerm, List.map_cons, List.map_nil, z1, List.mem_singleton, forall_eq, arrs]
    exact ⟨trivial, by omega, z4, ⟨z5, by omega⟩, by simp⟩
  | and l r ihl ihr =>
    intro h
    obtain ⟨a1, a2, a3, a4, a5⟩ := ihl h
    simp only [expandTermH, expandTerm]
    generalize hL : expandTermH grow l h = L at a1 a2 a3 a4 a5
    obtain ⟨b1, b2, b3, b4, b5⟩ := ihr L.2
    generalize hR : expandTermH grow r L.2 = R at b1 b2 b3 b4 b5
    have eL : L.1.map (read R.2) = expandTerm l := by
      rw [← a1]; exact List.map_congr_left fun s m => read_congr (b3 _ (a4 s m).1.1)
    have lenL : L.1.length = (expandTerm l).length := by rw [← a1, List.length_map]
    have lenR : R.1.length = (expandTerm r).length := by rw [← b1, List.length_map]
    rw [lenL, lenR]
    split
    · obtain ⟨c1, c2, c3, c4, c5⟩ := appendTermsH_spec grow L.1 R.1 R.2
        (fun s m => by have := (a4 s m).1.1; omega) (fun s m => (b4 s m).1.1)
      rw [eL, b1] at c1
      exact ⟨c1, by omega, fun i hi => by rw [c3 i (by omega), b3 i (by omega), a3 i hi],
        fun s m => ⟨(c4 s m).1, by have := (c4 s m).2; omega⟩, c5⟩
    · have nd : (arrs (L.1 ++ R.1)).Nodup := by
        simp only [arrs, List.map_append, List.nodup_append]
        refine ⟨a5, b5, ?_⟩
        intro a ma b mb e
        obtain ⟨s, ms, es⟩ := List.mem_map.1 ma
        obtain ⟨t, mt, et⟩ := List.mem_map.1 mb
        have := (a4 s ms).1.1; have := (b4 t mt).2; omega
      have ok : ∀ s ∈ L.1 ++ R.1, OkSl R.2 s := by
        intro s m
        rcases List.mem_append.1 m with m | m
        · exact OkSl_congr b2 (b3 _ (a4 s m).1.1) (a4 s m).1
        · exact (b4 s m).1
      obtain ⟨c1, c2, c3, c4, c5⟩ := mergeTermsH_spec grow R.1 L.1 R.2 nd ok
      rw [eL, b1] at c1
      refine ⟨c1, by omega, ?_, ?_, c5⟩
      · intro i hi
        rw [c3 i (by omega) (not_mem_arrs_of_lt (fun s m => (a4 s m).2) hi), b3 i (by omega), a3 i hi]
      · intro s m
        refine ⟨(c4 s m).1, ?_⟩
        rcases (c4 s m).2 with loc | loc
        · obtain ⟨t, mt, et⟩ := List.mem_map.1 loc
          have := (a4 t mt).2; omega
        · omega
  | or l r ihl ihr =>
    intro h
    obtain ⟨a1, a2, a3, a4, a5⟩ := ihl h
    simp only [expandTermH, expandTerm]
    generalize hL : expandTermH grow l h = L at a1 a2 a3 a4 a5
    obtain ⟨b1, b2, b3, b4, b5⟩ := ihr L.2
    generalize hR : expandTermH grow r L.2 = R at b1 b2 b3 b4 b5
    have eL : L.1.map (read R.2) = expandTerm l := by
      rw [← a1]; exact List.map_congr_left fun s m => read_congr (b3 _ (a4 s m).1.1)
    refine ⟨by rw [List.map_append, eL, b1], by omega, fun i hi => by rw [b3 i (by omega), a3 i hi], ?_, ?_⟩
    · intro s m
      rcases List.mem_append.1 m with m | m
      · exact ⟨OkSl_congr b2 (b3 _ (a4 s m).1.1) (a4 s m).1, (a4 s m).2⟩
      · exact ⟨(b4 s m).1, by have := (b4 s m).2; omega⟩
    · simp only [arrs, List.map_append, List.nodup_append]
      refine ⟨a5, b5, ?_⟩
      intro a ma b mb e
      obtain ⟨s, ms, es⟩ := List.mem_map.1 ma
      obtain ⟨t, mt, et⟩ := List.mem_map.1 mb
      have := (a4 s ms).1.1; have := (b4 t mt).2; omega

theorem sortLeaves_short (l : List Node) (h : l.length ≤ 1) : sortLeaves l = l := by
  match l, h with
  | [], _ => rfl
  | [_], _ => rfl

theorem sortOneH_spec (h : Heap) (s : Sl) (ok : OkSl h s) :
    read (sortOneH h s) s = sortLeaves (read h s) ∧ (sortOneH h s).length = h.length ∧
    (∀ i, i ≠ s.arr → (sortOneH h s)[i]? = h[i]?) ∧ OkSl (sortOneH h s) s := by
  have hlen : (sortLeaves (read h s)).length = s.len := by
    unfold sortLeaves; rw [(sortBy_perm _ _).length_eq]; simp only [read, List.length_take]; exact Nat.min_eq_left ok.2
  have hc := cellsOf_set h s.arr { cells := sortLeaves (read h s) ++ List.drop s.len (cellsOf h s.arr), cap := capOf h s.arr } ok.1
  simp only at hc
  refine ⟨?_, by simp [sortOneH], fun i hne => by simp [sortOneH, Ne.symm hne], ?_⟩
  · unfold sortOneH; rw [show read (List.set h s.arr _) s = List.take s.len (cellsOf (List.set h s.arr _) s.arr) from rfl, hc]
    rw [List.take_append_of_le_length (by omega)]
    conv => lhs; rw [← hlen]
    exact List.take_length
  · unfold sortOneH OkSl; rw [hc]; exact ⟨by simpa using ok.1, by simp; omega⟩

/-- sorting every alternative in place sorts every alternative — because no two of them share an array -/
theorem sortAllH_spec : ∀ (ss : List Sl) (h : Heap), (arrs ss).Nodup → (∀ s ∈ ss, OkSl h s) →
    ss.map (read (sortAllH ss h)) = ss.map (fun s => sortLeaves (read h s)) ∧
    (∀ i, i ∉ arrs ss → (sortAllH ss h)[i]? = h[i]?) ∧ (sortAllH ss h).length = h.length := by
  intro ss
  induction ss with
  | nil => intro h _ _; simp [sortAllH]
  | cons s ss ih =>
    intro h nd ok
    have nd' : s.arr ∉ arrs ss ∧ (arrs ss).Nodup := by simpa [arrs] using nd
    have oks := ok s (by simp)
    -- one step
    have step : ∃ h1 : Heap, (if s.len > 1 then sortOneH h s else h) = h1 ∧ read h1 s = sortLeaves (read h s) ∧
        h1.length = h.length ∧ (∀ i, i ≠ s.arr → h1[i]? = h[i]?) := by
      by_cases c : s.len > 1
      · obtain ⟨a1, a2, a3, _⟩ := sortOneH_spec h s oks
        exact ⟨_, rfl, by simp only [c, if_true]; exact a1, by simp only [c, if_true]; exact a2,
          fun i hi => by simp only [c, if_true]; exact a3 i hi⟩
      · refine ⟨_, rfl, ?_, by simp [c], fun i _ => by simp [c]⟩
        simp only [c, if_false]
        rw [sortLeaves_short]; simp [read, List.length_take]; omega
    obtain ⟨h1, e1, r1, l1, f1⟩ := step
    have ne_of_mem : ∀ t ∈ ss, t.arr ≠ s.arr := fun t m e => nd'.1 (e ▸ mem_arrs m)
    have ok1 : ∀ t ∈ ss, OkSl h1 t := fun t m =>
      OkSl_congr (by omega) (f1 _ (ne_of_mem t m)) (ok t (by simp [m]))
    obtain ⟨b1, b2, b3⟩ := ih h1 nd'.2 ok1
    simp only [sortAllH, e1]
    refine ⟨?_, ?_, by omega⟩
    · simp only [List.map_cons]
      rw [read_congr (b2 _ nd'.1), r1, b1]
      congr 1
      exact List.map_congr_left fun t m => by rw [read_congr (f1 _ (ne_of_mem t m))]
    · intro i hn
      have h1' : i ≠ s.arr := by intro e; apply hn; simp [arrs, e]
      have h2 : i ∉ arrs ss := by intro e; apply hn; simp only [arrs, List.map_cons, List.mem_cons]; exact Or.inr e
      rw [b2 i h2, f1 i h1']

/-! ### how many arrays the expansion allocates (C14: the heap-level cost) -/

theorem capOf_set (h : Heap) (a : Nat) (x : Arr) (ha : a < h.length) : capOf (h.set a x) a = x.cap := by
  unfold capOf; simp [ha]

theorem read_length_le (h : Heap) (s : Sl) : (read h s).length ≤ s.len := by
  simp [read, List.length_take]; exact Nat.min_le_left _ _

theorem appendG_length_le (grow : Nat → Nat → Nat) (h : Heap) (l : Sl) (rc : List Node) :
    (appendG grow h l rc).2.length ≤ h.length + 1 := by
  unfold appendG; split <;> simp [alloc]

/-- when the capacity suffices `append` stays in the array it was given -/
theorem appendG_inplace (grow : Nat → Nat → Nat) (h : Heap) (l : Sl) (rc : List Node)
    (ha : l.arr < h.length) (hc : l.len + rc.length ≤ capOf h l.arr) :
    (appendG grow h l rc).1 = { arr := l.arr, len := l.len + rc.length } ∧
    (appendG grow h l rc).2.length = h.length ∧
    capOf (appendG grow h l rc).2 l.arr = capOf h l.arr := by
  unfold appendG
  rw [if_pos hc]
  refine ⟨rfl, by simp, ?_⟩
  exact capOf_set h l.arr _ ha

/-- `tmp := make([]*node, 0, len(l)+len(r))` is sized right: neither of the two appends into it reallocates, so
    `appendTerms` allocates exactly one array per alternative it returns -/
theorem appendInnerH_allocs (grow : Nat → Nat → Nat) (r : Sl) : ∀ (ls : List Sl) (h : Heap),
    (appendInnerH grow r ls h).2.length = h.length + ls.length := by
  intro ls
  induction ls with
  | nil => intro h; simp [appendInnerH]
  | cons l ls ih =>
    intro h
    obtain ⟨_, z2, z3, _, z5, z6, z7⟩ := alloc_spec h [] (l.len + r.len)
    simp only [appendInnerH]
    generalize hp0 : alloc h [] (l.len + r.len) = p0 at z2 z3 z5 z6 z7
    have hlen0 : p0.1.len = 0 := by simpa using z6
    have hcap0 : capOf p0.2 p0.1.arr = l.len + r.len := by rw [z3]; exact z7
    have c1 : p0.1.len + (read p0.2 l).length ≤ capOf p0.2 p0.1.arr := by
      have := read_length_le p0.2 l; omega
    obtain ⟨a1, a2, a3⟩ := appendG_inplace grow p0.2 p0.1 (read p0.2 l) z5.1 c1
    generalize hp1 : appendG grow p0.2 p0.1 (read p0.2 l) = p1 at a1 a2 a3
    have harr1 : p1.1.arr = p0.1.arr := by rw [a1]
    have hlen1 : p1.1.len = p0.1.len + (read p0.2 l).length := by rw [a1]
    have c2 : p1.1.len + (read p1.2 r).length ≤ capOf p1.2 p1.1.arr := by
      have h1 := read_length_le p0.2 l
      have h2 := read_length_le p1.2 r
      rw [harr1, a3, hcap0, hlen1, hlen0]; omega
    obtain ⟨b1, b2, b3⟩ := appendG_inplace grow p1.2 p1.1 (read p1.2 r) (by rw [harr1, a2]; exact z5.1) c2
    generalize hp2 : appendG grow p1.2 p1.1 (read p1.2 r) = p2 at b1 b2 b3
    rw [ih p2.2, b2, a2, z2]; simp only [List.length_cons]; omega

theorem appendTermsH_allocs (grow : Nat → Nat → Nat) (ls : List Sl) : ∀ (rs : List Sl) (h : Heap),
    (appendTermsH grow ls rs h).2.length = h.length + ls.length * rs.length := by
  intro rs
  induction rs with
  | nil => intro h; simp [appendTermsH]
  | cons r rs ih =>
    intro h
    simp only [appendTermsH]
    rw [ih, appendInnerH_allocs, List.length_cons, Nat.mul_succ]; omega

theorem mergeInnerH_allocs (grow : Nat → Nat → Nat) (r : Sl) : ∀ (ls : List Sl) (h : Heap),
    (mergeInnerH grow r ls h).2.length ≤ h.length + ls.length ∧ (mergeInnerH grow r ls h).1.length = ls.length := by
  intro ls
  induction ls with
  | nil => intro h; simp [mergeInnerH]
  | cons l ls ih =>
    intro h
    simp only [mergeInnerH]
    have a := appendG_length_le grow h l (read h r)
    obtain ⟨b, c⟩ := ih (appendG grow h l (read h r)).2
    refine ⟨?_, by simp [c]⟩
    simp only [List.length_cons]; omega

theorem mergeTermsH_allocs (grow : Nat → Nat → Nat) : ∀ (rs ls : List Sl) (h : Heap),
    (mergeTermsH grow ls rs h).2.length ≤ h.length + ls.length * rs.length := by
  intro rs
  induction rs with
  | nil => intro ls h; simp [mergeTermsH]
  | cons r rs ih =>
    intro ls h
    simp only [mergeTermsH]
    obtain ⟨a, b⟩ := mergeInnerH_allocs grow r ls h
    have := ih (mergeInnerH grow r ls h).1 (mergeInnerH grow r ls h).2
    rw [b] at this
    rw [List.length_cons, Nat.mul_succ]; omega

/-- the number of arrays one run of the expansion may allocate: one per term, and one per alternative of every AND -/
def allocBound : Node → Nat
  | .lic .. => 1
  | .ref .. => 1
  | .and l r => allocBound l + allocBound r + (expandTerm l).length * (expandTerm r).length
  | .or l r => allocBound l + allocBound r

theorem expandTermH_allocs (grow : Nat → Nat → Nat) : ∀ (n : Node) (h : Heap),
    (expandTermH grow n h).2.length ≤ h.length + allocBound n := by
  intro n
  induction n with
  | lic id p e => intro h; simp [expandTermH, alloc, allocBound]
  | ref d i => intro h; simp [expandTermH, alloc, allocBound]
  | and l r ihl ihr =>
    intro h
    have a := ihl h
    have eL := (expandTermH_spec grow l h).1
    simp only [expandTermH, allocBound]
    generalize hL : expandTermH grow l h = L at a eL
    have b := ihr L.2
    have eR := (expandTermH_spec grow r L.2).1
    generalize hR : expandTermH grow r L.2 = R at b eR
    have lenL : L.1.length = (expandTerm l).length := by rw [← eL, List.length_map]
    have lenR : R.1.length = (expandTerm r).length := by rw [← eR, List.length_map]
    split
    · rw [appendTermsH_allocs, lenL, lenR]; omega
    · have := mergeTermsH_allocs grow R.1 L.1 R.2
      rw [lenL, lenR] at this; omega
  | or l r ihl ihr =>
    intro h
    have a := ihl h
    simp only [expandTermH, allocBound]
    generalize hL : expandTermH grow l h = L at a
    have b := ihr L.2
    omega

end Spdx.H
