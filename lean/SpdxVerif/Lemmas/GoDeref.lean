/-
Lemmas/GoDeref — only terms (never expression nodes) reach the unguarded dereferences behind the parser.
-/
import SpdxVerif.Model.GoDeref
import SpdxVerif.Lemmas.AllowedList
import SpdxVerif.Lemmas.Flatten
namespace Spdx.G

theorem mapM'_ok {α β} (f : α → Out β) (g : α → β) (l : List α) (h : ∀ x ∈ l, f x = .ok (g x)) : mapM' f l = .ok (l.map g) := by
  induction l with
  | nil => rfl
  | cons x xs ih =>
    simp only [mapM', h x (by simp), Out.bind, ih (fun y hy => h y (List.mem_cons_of_mem _ hy)), List.map_cons]

theorem renderG_leaf (n : Node) (h : n.isLeaf = true) : renderG n = .ok (render n) := by simp [renderG, h]

/-- every node of every alternative of the expansion is a term -/
theorem expand_nodes_are_leaves (n : Node) : ∀ part ∈ expand n, ∀ x ∈ part, x.isLeaf = true := by
  intro part hp x hx
  have : x ∈ (expand n).flatten := List.mem_flatten.mpr ⟨part, hp, hx⟩
  exact leaves_isLeaf n x ((mem_flatten_expand n x).mp this)

/-- `ExtractLicenses` never dereferences a nil string, and computes what the model says -/
theorem extractG_ok (n : Node) : extractG n = .ok (dedup [] ((expand n).flatten.map render)) := by
  unfold extractG
  rw [mapM'_ok renderG render _ (fun x hx => renderG_leaf x (by
    obtain ⟨part, hp, hxp⟩ := List.mem_flatten.mp hx
    exact expand_nodes_are_leaves n part hp x hxp))]
  rfl

/-- neither do the sorts of `Satisfies`, for the nodes `stringsToNodes` lets through -/
theorem satisfiesKeysG_ok (n : Node) (L : List Bytes) (A : List Node) (hA : toNodes L = .ok A) : satisfiesKeysG n A = .ok () := by
  unfold satisfiesKeysG keysG
  rw [mapM'_ok renderG render A (fun x hx => renderG_leaf x (toNodes_leafOK hA x hx).2)]
  simp only [Out.bind]
  have : mapM' (fun nodes => mapM' renderG nodes) (expand n) = .ok ((expand n).map (fun part => part.map render)) := by
    apply mapM'_ok
    intro part hp
    exact mapM'_ok renderG render part (fun x hx => renderG_leaf x (expand_nodes_are_leaves n part hp x hx))
  rw [this]

end Spdx.G
