/-
Model/GoHeap — "layer G", part 5: the expansion of spdxexp/satisfies.go over a HEAP of backing arrays.

The main model (`Model/Expand.lean`) gives `[]*node` value semantics: `append(l, r...)` is `l ++ r`.  In Go it is not:
`append` writes behind `len(l)` into `l`'s backing array whenever the capacity allows and allocates otherwise, so two
slice headers that share an array can overwrite each other's elements (the defect repaired by
"fix: copy the left alternative in appendTerms instead of aliasing it" was exactly that).  Here the inner slices
(`[]*node`, one per alternative) are headers `(array, len)` into a heap of arrays with a capacity; `append` is
`appendG` — in place when `len + k ≤ cap`, otherwise a fresh array whose capacity is chosen by an ARBITRARY growth
policy `grow` (Go does not specify it; the theorems hold for every policy).  The outer slices (`[][]*node`) are lists of
headers: the code never keeps two live references to one outer array (`results := left` is followed by no further use
of `left`; `append(result, left...)` copies the headers and `left` is dead afterwards).

  expandOrTerm / expandAndTerm / expandOr / expandAnd  →  `expandTermH`
  appendTerms (`tmp := make([]*node, 0, len(l)+len(r)); tmp = append(tmp, l...); tmp = append(tmp, r...)`)  →  `appendTermsH`
  mergeTerms  (`results[j] = append(l, r...)`)  →  `mergeTermsH`
  the appendTerms of the tree BEFORE the repair (`tmp := append(l, r...)`)  →  `appendTermsAliasH` (non-vacuity only)
-/
import SpdxVerif.Model.Expand
namespace Spdx.H

structure Arr where
  cells : List Node
  cap : Nat
  deriving Repr

abbrev Heap := List Arr

/-- a slice header; every slice of the expansion starts at offset 0 of its array -/
structure Sl where
  arr : Nat
  len : Nat
  deriving DecidableEq, Repr

def cellsOf (h : Heap) (a : Nat) : List Node := match h[a]? with | some x => x.cells | none => []
def capOf (h : Heap) (a : Nat) : Nat := match h[a]? with | some x => x.cap | none => 0
/-- the elements a header denotes -/
def read (h : Heap) (s : Sl) : List Node := (cellsOf h s.arr).take s.len

/-- a fresh array holding `xs` with capacity `cap`: `[]*node{x}` (cap 1), `make([]*node, 0, cap)` (xs = []) -/
def alloc (h : Heap) (xs : List Node) (cap : Nat) : Sl × Heap :=
  ({ arr := h.length, len := xs.length }, h ++ [{ cells := xs, cap := cap }])

/-- `append(l, rc...)`: in place behind `len(l)` when the capacity allows, otherwise a fresh array of capacity
    `grow oldCap needed` holding a copy -/
def appendG (grow : Nat → Nat → Nat) (h : Heap) (l : Sl) (rc : List Node) : Sl × Heap :=
  if l.len + rc.length ≤ capOf h l.arr then
    ({ arr := l.arr, len := l.len + rc.length },
     h.set l.arr { cells := (cellsOf h l.arr).take l.len ++ rc ++ (cellsOf h l.arr).drop (l.len + rc.length),
                   cap := capOf h l.arr })
  else alloc h (read h l ++ rc) (grow (capOf h l.arr) (l.len + rc.length))

/-- `for _, l := range left { tmp := make(0, len(l)+len(r)); tmp = append(tmp, l...); tmp = append(tmp, r...); result = append(result, tmp) }` -/
def appendInnerH (grow : Nat → Nat → Nat) (r : Sl) : List Sl → Heap → List Sl × Heap
  | [], h => ([], h)
  | l :: ls, h =>
    let p0 := alloc h [] (l.len + r.len)
    let p1 := appendG grow p0.2 p0.1 (read p0.2 l)
    let p2 := appendG grow p1.2 p1.1 (read p1.2 r)
    let q := appendInnerH grow r ls p2.2
    (p2.1 :: q.1, q.2)

/-- `appendTerms` -/
def appendTermsH (grow : Nat → Nat → Nat) (left : List Sl) : List Sl → Heap → List Sl × Heap
  | [], h => ([], h)
  | r :: rs, h =>
    let p := appendInnerH grow r left h
    let q := appendTermsH grow left rs p.2
    (p.1 ++ q.1, q.2)

/-- `for j, l := range results { results[j] = append(l, r...) }` -/
def mergeInnerH (grow : Nat → Nat → Nat) (r : Sl) : List Sl → Heap → List Sl × Heap
  | [], h => ([], h)
  | l :: ls, h =>
    let p := appendG grow h l (read h r)
    let q := mergeInnerH grow r ls p.2
    (p.1 :: q.1, q.2)

/-- `mergeTerms` -/
def mergeTermsH (grow : Nat → Nat → Nat) : List Sl → List Sl → Heap → List Sl × Heap
  | results, [], h => (results, h)
  | results, r :: rs, h =>
    let p := mergeInnerH grow r results h
    mergeTermsH grow p.1 rs p.2

/-- `expandOrTerm` / `expandAndTerm` with `expandOr` / `expandAnd` inlined -/
def expandTermH (grow : Nat → Nat → Nat) : Node → Heap → List Sl × Heap
  | .lic id p e, h => let a := alloc h [.lic id p e] 1; ([a.1], a.2)
  | .ref d i, h => let a := alloc h [.ref d i] 1; ([a.1], a.2)
  | .and l r, h =>
    let L := expandTermH grow l h
    let R := expandTermH grow r L.2
    if L.1.length > 1 ∨ R.1.length > 1 then appendTermsH grow L.1 R.1 R.2 else mergeTermsH grow L.1 R.1 R.2
  | .or l r, h =>
    let L := expandTermH grow l h
    let R := expandTermH grow r L.2
    (L.1 ++ R.1, R.2)

/-- what the expansion denotes once it has run on an empty heap -/
def expandTermRead (grow : Nat → Nat → Nat) (n : Node) : List (List Node) :=
  let p := expandTermH grow n []
  p.1.map (read p.2)

/-- `sortLicenses(nodes)` on one alternative: `sort.Slice` permutes the first `len` cells of the array in place -/
def sortOneH (h : Heap) (s : Sl) : Heap :=
  h.set s.arr { cells := sortLeaves (read h s) ++ (cellsOf h s.arr).drop s.len, cap := capOf h s.arr }

/-- the first loop of `deepSort`: `for _, nodes := range nodes2d { if len(nodes) > 1 { sortLicenses(nodes) } }` -/
def sortAllH : List Sl → Heap → Heap
  | [], h => h
  | s :: ss, h => sortAllH ss (if s.len > 1 then sortOneH h s else h)

/-- `expand(true)` on the heap: expansion, the in-place inner sorts, then the outer sort of the headers by the
    comparator of `deepSort` (`listLt` over the rendered alternatives, proved in `Lemmas/GoSlices`) -/
def expandReadSorted (grow : Nat → Nat → Nat) (n : Node) : List (List Node) :=
  let p := expandTermH grow n []
  let h := sortAllH p.1 p.2
  sortBy (fun a b => !listLt (b.map render) (a.map render)) (p.1.map (read h))

/-! ### the code before the repair, for the non-vacuity examples -/

/-- `for _, l := range left { tmp := append(l, r...); result = append(result, tmp) }` -/
def appendInnerAliasH (grow : Nat → Nat → Nat) (r : Sl) : List Sl → Heap → List Sl × Heap
  | [], h => ([], h)
  | l :: ls, h =>
    let p := appendG grow h l (read h r)
    let q := appendInnerAliasH grow r ls p.2
    (p.1 :: q.1, q.2)

def appendTermsAliasH (grow : Nat → Nat → Nat) (left : List Sl) : List Sl → Heap → List Sl × Heap
  | [], h => ([], h)
  | r :: rs, h =>
    let p := appendInnerAliasH grow r left h
    let q := appendTermsAliasH grow left rs p.2
    (p.1 ++ q.1, q.2)

def expandTermAliasH (grow : Nat → Nat → Nat) : Node → Heap → List Sl × Heap
  | .lic id p e, h => let a := alloc h [.lic id p e] 1; ([a.1], a.2)
  | .ref d i, h => let a := alloc h [.ref d i] 1; ([a.1], a.2)
  | .and l r, h =>
    let L := expandTermAliasH grow l h
    let R := expandTermAliasH grow r L.2
    if L.1.length > 1 ∨ R.1.length > 1 then appendTermsAliasH grow L.1 R.1 R.2 else mergeTermsH grow L.1 R.1 R.2
  | .or l r, h =>
    let L := expandTermAliasH grow l h
    let R := expandTermAliasH grow r L.2
    (L.1 ++ R.1, R.2)

/-- Go's growth policy for small slices: double -/
def growDouble (old needed : Nat) : Nat := if 2 * old ≥ needed then 2 * old else needed

end Spdx.H
