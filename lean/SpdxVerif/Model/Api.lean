/-
Model/Api — the three exported functions.
-/
import SpdxVerif.Model.Match
namespace Spdx

inductive SatErr | badExpr | emptyList | badEntry | compoundEntry
  deriving DecidableEq, Repr

/-- `stringsToNodes` -/
def toNodes : List Bytes → Except SatErr (List Node)
  | [] => .ok []
  | s :: ss => match parse s with
    | .error _ => .error .badEntry
    | .ok n => if n.isLeaf then (toNodes ss).map (n :: ·) else .error .compoundEntry

/-- What `sortAndDedup(allowedNodes)` leaves in the caller's slice.  `Satisfies` discards the returned
    (shortened) slice, so the verdict loop sees the whole array: the sorted nodes with the distinct
    ones compacted to the front and stale entries behind them. -/
def dedupInPlace : List Node → List Node
  | [] => []
  | x :: xs =>
    let rec go (prevElem : Node) (kept : List Node) : List Node → List Node
      | [] => kept.reverse
      | y :: ys => if render prevElem != render y then go y (y :: kept) ys else go y kept ys
    let front := go x [x] xs
    front ++ (x :: xs).drop front.length

def sortAndDedupArray (nodes : List Node) : List Node :=
  if nodes.length ≤ 1 then nodes else dedupInPlace (sortLeaves nodes)

/-- `Satisfies` -/
def satisfies (e : Bytes) (allowed : List Bytes) : Except SatErr Bool :=
  match parse e with
  | .error _ => .error .badExpr
  | .ok n =>
    if allowed.isEmpty then .error .emptyList else
    match toNodes allowed with
    | .error x => .error x
    | .ok A => .ok (verdict n (sortAndDedupArray A))

/-- `removeDuplicateStrings`: order-preserving -/
def dedup : List Bytes → List Bytes → List Bytes
  | _, [] => []
  | seen, x :: xs => if seen.contains x then dedup seen xs else x :: dedup (x :: seen) xs

/-- `ExtractLicenses` -/
def extract (e : Bytes) : Option (List Bytes) :=
  match parse e with
  | .error _ => none
  | .ok n => some (dedup [] ((expand n).flatten.map render))

/-- `ValidateLicenses` -/
def validate (ls : List Bytes) : Bool × List Bytes :=
  let bad := ls.filter (fun s => !valid s)
  (bad.isEmpty, bad)

end Spdx
